(* C13 property theorems, part 1: index maps (statements only; proofs are in C13_proofs_*.v).
   coordinates_to_index{2,3} / index_to_coordinates{2,3} are GENERATED from src/grid/cubic.py on every run.
   The obligations are spread over C13_props*.v so that Print Assumptions runs in parallel. *)
From Coq Require Import ZArith List Reals.
From Flocq Require Import Raux Generic_fmt.
From P Require Import C13_gen C13_model C13_proofs_index.
Import ListNotations.

(* ------------------------------------------------------------------ (1) index maps, every shape *)
Theorem index_roundtrip3 : forall n0 n1 n2 i j k, (0 <= i -> 0 <= j < n1 -> 0 <= k < n2 ->
  index_to_coordinates3 n0 n1 n2 (coordinates_to_index3 n0 n1 n2 i j k) = Some (i, j, k))%Z.
Proof. exact index_roundtrip3_lemma. Qed.
Print Assumptions index_roundtrip3.

Theorem coords_roundtrip3 : forall n0 n1 n2 idx, (0 < n1 -> 0 < n2 -> 0 <= idx ->
  exists i j k, index_to_coordinates3 n0 n1 n2 idx = Some (i, j, k) /\
    coordinates_to_index3 n0 n1 n2 i j k = idx /\ 0 <= j < n1 /\ 0 <= k < n2 /\
    0 <= i /\ (idx < n0 * n1 * n2 -> i < n0))%Z.
Proof. exact coords_roundtrip3_lemma. Qed.
Print Assumptions coords_roundtrip3.

Theorem index_range3 : forall n0 n1 n2 i j k, (0 <= i < n0 -> 0 <= j < n1 -> 0 <= k < n2 ->
  0 <= coordinates_to_index3 n0 n1 n2 i j k < n0 * n1 * n2)%Z.
Proof. exact index_range3_lemma. Qed.
Print Assumptions index_range3.

Theorem index_roundtrip2 : forall n0 n1 i j, (0 <= i -> 0 <= j < n1 ->
  index_to_coordinates2 n0 n1 (coordinates_to_index2 n0 n1 i j) = Some (i, j))%Z.
Proof. exact index_roundtrip2_lemma. Qed.
Print Assumptions index_roundtrip2.

Theorem coords_roundtrip2 : forall n0 n1 idx, (0 < n1 -> 0 <= idx ->
  exists i j, index_to_coordinates2 n0 n1 idx = Some (i, j) /\
    coordinates_to_index2 n0 n1 i j = idx /\ 0 <= j < n1 /\ 0 <= i /\ (idx < n0 * n1 -> i < n0))%Z.
Proof. exact coords_roundtrip2_lemma. Qed.
Print Assumptions coords_roundtrip2.

Theorem index_range2 : forall n0 n1 i j, (0 <= i < n0 -> 0 <= j < n1 ->
  0 <= coordinates_to_index2 n0 n1 i j < n0 * n1)%Z.
Proof. exact index_range2_lemma. Qed.
Print Assumptions index_range2.

Theorem negative_index_rejected : forall n0 n1 n2 idx, (idx < 0)%Z ->
  index_to_coordinates3 n0 n1 n2 idx = None /\ index_to_coordinates2 n0 n1 idx = None.
Proof. exact negative_index_rejected_lemma. Qed.
Print Assumptions negative_index_rejected.

(* last index fastest *)
Theorem strides3 : forall n0 n1 n2 i j k, (
  coordinates_to_index3 n0 n1 n2 i j (k + 1) = coordinates_to_index3 n0 n1 n2 i j k + 1 /\
  coordinates_to_index3 n0 n1 n2 i (j + 1) k = coordinates_to_index3 n0 n1 n2 i j k + n2 /\
  coordinates_to_index3 n0 n1 n2 (i + 1) j k = coordinates_to_index3 n0 n1 n2 i j k + n1 * n2)%Z.
Proof. exact strides3_lemma. Qed.
Print Assumptions strides3.

Theorem strides2 : forall n0 n1 i j, (
  coordinates_to_index2 n0 n1 i (j + 1) = coordinates_to_index2 n0 n1 i j + 1 /\
  coordinates_to_index2 n0 n1 (i + 1) j = coordinates_to_index2 n0 n1 i j + n1)%Z.
Proof. exact strides2_lemma. Qed.
Print Assumptions strides2.
