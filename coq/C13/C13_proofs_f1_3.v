(* C13 (3): Fourier1 per-direction factor f1s n enclosed by interval arithmetic, n in [6, 12, 20, 29]
   (file generated once by a script, split for parallel compilation; independent of /repo). *)
From Coq Require Import ZArith List Reals Lra.
From Interval Require Import Tactic.
From Flocq Require Import Raux.
From P Require Import C13_gen C13_model C13_proofs_weights.
Open Scope R_scope.

Lemma f1s_bound_6 : 1 - / IZR 6 <= f1s 6 <= 1.
Proof.
  assert (H : Rabs (f1s 6 - (1 - / IZR 6 / 2)) <= / IZR 6 / 2).
  { unfold f1s, fourier1_dir, sumR. ev. interval. }
  apply Rabs_le_inv in H. lra.
Qed.

Lemma f1s_bound_12 : 1 - / IZR 12 <= f1s 12 <= 1.
Proof.
  assert (H : Rabs (f1s 12 - (1 - / IZR 12 / 2)) <= / IZR 12 / 2).
  { unfold f1s, fourier1_dir, sumR. ev. interval. }
  apply Rabs_le_inv in H. lra.
Qed.

Lemma f1s_bound_20 : 1 - / IZR 20 <= f1s 20 <= 1.
Proof.
  assert (H : Rabs (f1s 20 - (1 - / IZR 20 / 2)) <= / IZR 20 / 2).
  { unfold f1s, fourier1_dir, sumR. ev. interval. }
  apply Rabs_le_inv in H. lra.
Qed.

Lemma f1s_bound_29 : 1 - / IZR 29 <= f1s 29 <= 1.
Proof.
  assert (H : Rabs (f1s 29 - (1 - / IZR 29 / 2)) <= / IZR 29 / 2).
  { unfold f1s, fourier1_dir, sumR. ev. interval. }
  apply Rabs_le_inv in H. lra.
Qed.
