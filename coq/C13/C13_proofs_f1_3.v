(* C13 (3): Fourier1 per-direction factor f1s n enclosed by interval arithmetic on its closed form, n in [4, 13, 20, 29, 36, 45, 52, 61]
   (file generated once by a script, split for parallel compilation; independent of /repo). *)
From Coq Require Import ZArith List Lia Reals Lra.
From Interval Require Import Tactic.
From Flocq Require Import Raux.
From P Require Import C13_gen C13_model C13_proofs_weights C13_proofs_f1c.
Open Scope R_scope.

Lemma f1s_bound_4 : 1 - / IZR 4 <= f1s 4 <= 1.
Proof.
  rewrite f1s_closed_form by (clear; lia).
  assert (H : Rabs (f1s_closed 4 - (1 - / IZR 4 / 2)) <= / IZR 4 / 2).
  { unfold f1s_closed, f1_term, sumR. ev. interval. }
  apply Rabs_le_inv in H. lra.
Qed.

Lemma f1s_bound_13 : 1 - / IZR 13 <= f1s 13 <= 1.
Proof.
  rewrite f1s_closed_form by (clear; lia).
  assert (H : Rabs (f1s_closed 13 - (1 - / IZR 13 / 2)) <= / IZR 13 / 2).
  { unfold f1s_closed, f1_term, sumR. ev. interval. }
  apply Rabs_le_inv in H. lra.
Qed.

Lemma f1s_bound_20 : 1 - / IZR 20 <= f1s 20 <= 1.
Proof.
  rewrite f1s_closed_form by (clear; lia).
  assert (H : Rabs (f1s_closed 20 - (1 - / IZR 20 / 2)) <= / IZR 20 / 2).
  { unfold f1s_closed, f1_term, sumR. ev. interval. }
  apply Rabs_le_inv in H. lra.
Qed.

Lemma f1s_bound_29 : 1 - / IZR 29 <= f1s 29 <= 1.
Proof.
  rewrite f1s_closed_form by (clear; lia).
  assert (H : Rabs (f1s_closed 29 - (1 - / IZR 29 / 2)) <= / IZR 29 / 2).
  { unfold f1s_closed, f1_term, sumR. ev. interval. }
  apply Rabs_le_inv in H. lra.
Qed.

Lemma f1s_bound_36 : 1 - / IZR 36 <= f1s 36 <= 1.
Proof.
  rewrite f1s_closed_form by (clear; lia).
  assert (H : Rabs (f1s_closed 36 - (1 - / IZR 36 / 2)) <= / IZR 36 / 2).
  { unfold f1s_closed, f1_term, sumR. ev. interval. }
  apply Rabs_le_inv in H. lra.
Qed.

Lemma f1s_bound_45 : 1 - / IZR 45 <= f1s 45 <= 1.
Proof.
  rewrite f1s_closed_form by (clear; lia).
  assert (H : Rabs (f1s_closed 45 - (1 - / IZR 45 / 2)) <= / IZR 45 / 2).
  { unfold f1s_closed, f1_term, sumR. ev. interval. }
  apply Rabs_le_inv in H. lra.
Qed.

Lemma f1s_bound_52 : 1 - / IZR 52 <= f1s 52 <= 1.
Proof.
  rewrite f1s_closed_form by (clear; lia).
  assert (H : Rabs (f1s_closed 52 - (1 - / IZR 52 / 2)) <= / IZR 52 / 2).
  { unfold f1s_closed, f1_term, sumR. ev. interval. }
  apply Rabs_le_inv in H. lra.
Qed.

Lemma f1s_bound_61 : 1 - / IZR 61 <= f1s 61 <= 1.
Proof.
  rewrite f1s_closed_form by (clear; lia).
  assert (H : Rabs (f1s_closed 61 - (1 - / IZR 61 / 2)) <= / IZR 61 / 2).
  { unfold f1s_closed, f1_term, sumR. ev. interval. }
  apply Rabs_le_inv in H. lra.
Qed.
