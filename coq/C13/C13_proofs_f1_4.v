(* C13 (3): Fourier1 per-direction factor f1s n enclosed by interval arithmetic, n in [1, 2, 4, 13, 21, 28]
   (file generated once by a script, split for parallel compilation; independent of /repo). *)
From Coq Require Import ZArith List Reals Lra.
From Interval Require Import Tactic.
From Flocq Require Import Raux.
From P Require Import C13_gen C13_model C13_proofs_weights.
Open Scope R_scope.

Lemma f1s_bound_1 : 1 - / IZR 1 <= f1s 1 <= 1.
Proof.
  assert (H : Rabs (f1s 1 - (1 - / IZR 1 / 2)) <= / IZR 1 / 2).
  { unfold f1s, fourier1_dir, sumR. ev. interval. }
  apply Rabs_le_inv in H. lra.
Qed.

Lemma f1s_bound_2 : 1 - / IZR 2 <= f1s 2 <= 1.
Proof.
  assert (H : Rabs (f1s 2 - (1 - / IZR 2 / 2)) <= / IZR 2 / 2).
  { unfold f1s, fourier1_dir, sumR. ev. interval. }
  apply Rabs_le_inv in H. lra.
Qed.

Lemma f1s_bound_4 : 1 - / IZR 4 <= f1s 4 <= 1.
Proof.
  assert (H : Rabs (f1s 4 - (1 - / IZR 4 / 2)) <= / IZR 4 / 2).
  { unfold f1s, fourier1_dir, sumR. ev. interval. }
  apply Rabs_le_inv in H. lra.
Qed.

Lemma f1s_bound_13 : 1 - / IZR 13 <= f1s 13 <= 1.
Proof.
  assert (H : Rabs (f1s 13 - (1 - / IZR 13 / 2)) <= / IZR 13 / 2).
  { unfold f1s, fourier1_dir, sumR. ev. interval. }
  apply Rabs_le_inv in H. lra.
Qed.

Lemma f1s_bound_21 : 1 - / IZR 21 <= f1s 21 <= 1.
Proof.
  assert (H : Rabs (f1s 21 - (1 - / IZR 21 / 2)) <= / IZR 21 / 2).
  { unfold f1s, fourier1_dir, sumR. ev. interval. }
  apply Rabs_le_inv in H. lra.
Qed.

Lemma f1s_bound_28 : 1 - / IZR 28 <= f1s 28 <= 1.
Proof.
  assert (H : Rabs (f1s 28 - (1 - / IZR 28 / 2)) <= / IZR 28 / 2).
  { unfold f1s, fourier1_dir, sumR. ev. interval. }
  apply Rabs_le_inv in H. lra.
Qed.
