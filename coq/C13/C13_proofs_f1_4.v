(* C13 (3): Fourier1 per-direction factor f1s n enclosed by interval arithmetic on its closed form, n in [5, 12, 21, 28, 37, 44, 53, 60]
   (file generated once by a script, split for parallel compilation; independent of /repo). *)
From Coq Require Import ZArith List Lia Reals Lra.
From Interval Require Import Tactic.
From Flocq Require Import Raux.
From P Require Import C13_gen C13_model C13_proofs_weights C13_proofs_f1c.
Open Scope R_scope.

Lemma f1s_bound_5 : 1 - / IZR 5 <= f1s 5 <= 1.
Proof.
  rewrite f1s_closed_form by (clear; lia).
  assert (H : Rabs (f1s_closed 5 - (1 - / IZR 5 / 2)) <= / IZR 5 / 2).
  { unfold f1s_closed, f1_term, sumR. ev. interval. }
  apply Rabs_le_inv in H. lra.
Qed.

Lemma f1s_bound_12 : 1 - / IZR 12 <= f1s 12 <= 1.
Proof.
  rewrite f1s_closed_form by (clear; lia).
  assert (H : Rabs (f1s_closed 12 - (1 - / IZR 12 / 2)) <= / IZR 12 / 2).
  { unfold f1s_closed, f1_term, sumR. ev. interval. }
  apply Rabs_le_inv in H. lra.
Qed.

Lemma f1s_bound_21 : 1 - / IZR 21 <= f1s 21 <= 1.
Proof.
  rewrite f1s_closed_form by (clear; lia).
  assert (H : Rabs (f1s_closed 21 - (1 - / IZR 21 / 2)) <= / IZR 21 / 2).
  { unfold f1s_closed, f1_term, sumR. ev. interval. }
  apply Rabs_le_inv in H. lra.
Qed.

Lemma f1s_bound_28 : 1 - / IZR 28 <= f1s 28 <= 1.
Proof.
  rewrite f1s_closed_form by (clear; lia).
  assert (H : Rabs (f1s_closed 28 - (1 - / IZR 28 / 2)) <= / IZR 28 / 2).
  { unfold f1s_closed, f1_term, sumR. ev. interval. }
  apply Rabs_le_inv in H. lra.
Qed.

Lemma f1s_bound_37 : 1 - / IZR 37 <= f1s 37 <= 1.
Proof.
  rewrite f1s_closed_form by (clear; lia).
  assert (H : Rabs (f1s_closed 37 - (1 - / IZR 37 / 2)) <= / IZR 37 / 2).
  { unfold f1s_closed, f1_term, sumR. ev. interval. }
  apply Rabs_le_inv in H. lra.
Qed.

Lemma f1s_bound_44 : 1 - / IZR 44 <= f1s 44 <= 1.
Proof.
  rewrite f1s_closed_form by (clear; lia).
  assert (H : Rabs (f1s_closed 44 - (1 - / IZR 44 / 2)) <= / IZR 44 / 2).
  { unfold f1s_closed, f1_term, sumR. ev. interval. }
  apply Rabs_le_inv in H. lra.
Qed.

Lemma f1s_bound_53 : 1 - / IZR 53 <= f1s 53 <= 1.
Proof.
  rewrite f1s_closed_form by (clear; lia).
  assert (H : Rabs (f1s_closed 53 - (1 - / IZR 53 / 2)) <= / IZR 53 / 2).
  { unfold f1s_closed, f1_term, sumR. ev. interval. }
  apply Rabs_le_inv in H. lra.
Qed.

Lemma f1s_bound_60 : 1 - / IZR 60 <= f1s 60 <= 1.
Proof.
  rewrite f1s_closed_form by (clear; lia).
  assert (H : Rabs (f1s_closed 60 - (1 - / IZR 60 / 2)) <= / IZR 60 / 2).
  { unfold f1s_closed, f1_term, sumR. ev. interval. }
  apply Rabs_le_inv in H. lra.
Qed.
