(* C13 property theorems, part 3: constant weight schemes (statements only; proofs are in C13_proofs_*.v).
   coordinates_to_index{2,3} / index_to_coordinates{2,3} are GENERATED from src/grid/cubic.py on every run.
   The obligations are spread over C13_props*.v so that Print Assumptions runs in parallel. *)
From Coq Require Import ZArith List Reals.
From Flocq Require Import Raux Generic_fmt.
From P Require Import C13_gen C13_model C13_proofs_weights C13_proofs_f1c.
Import ListNotations.

(* ------------------------------------------------------------------ (3) weight schemes *)
Theorem weights_sum_bound3 : forall s a0 a1 a2 n0 n1 n2,
  (1 <= n0)%Z -> (1 <= n1)%Z -> (1 <= n2)%Z -> volume3 ROps a0 a1 a2 n0 n1 n2 <> 0%R ->
  (Rabs (nsum ROps (weights3 ROps s a0 a1 a2 n0 n1 n2) / volume3 ROps a0 a1 a2 n0 n1 n2 - 1)
  <= 1 / IZR n0 + 1 / IZR n1 + 1 / IZR n2)%R.
Proof. exact weights_sum_bound3_lemma. Qed.
Print Assumptions weights_sum_bound3.

Theorem weights_sum_bound2 : forall s a0 a1 n0 n1,
  (1 <= n0)%Z -> (1 <= n1)%Z -> volume2 ROps a0 a1 n0 n1 <> 0%R ->
  (Rabs (nsum ROps (weights2 ROps s a0 a1 n0 n1) / volume2 ROps a0 a1 n0 n1 - 1) <= 1 / IZR n0 + 1 / IZR n1)%R.
Proof. exact weights_sum_bound2_lemma. Qed.
Print Assumptions weights_sum_bound2.

Theorem weights_length : forall s a0 a1 a2 n0 n1 n2, (0 <= n0)%Z -> (0 <= n1)%Z -> (0 <= n2)%Z ->
  Z.of_nat (length (weights3 ROps s a0 a1 a2 n0 n1 n2)) = (n0 * n1 * n2)%Z /\
  forall b0 b1, Z.of_nat (length (weights2 ROps s b0 b1 n0 n1)) = (n0 * n1)%Z.
Proof. exact weights_length_lemma. Qed.
Print Assumptions weights_length.

(* Fourier1, all shapes: sum(weights)/volume is the product over the directions of a closed-form single sum
   (f1s_closed n = 2/(n+1) sum_{p=1..n} (1-cos p pi)/(p pi) (cos(t/2) - cos((n+1/2)t)) / (2 sin(t/2)), t = p pi/(n+1));
   the numerical bound on that factor is the partial theorem in C13_props_f1a.v / C13_props_f1b.v *)
Theorem fourier1_sum_factorises : forall vol n0 n1 n2, (1 <= n0)%Z -> (1 <= n1)%Z -> (1 <= n2)%Z -> vol <> 0%R ->
  (sumR (fourier1_weights3 vol n0 n1 n2) / vol = f1s_closed n0 * f1s_closed n1 * f1s_closed n2 /\
   sumR (fourier1_weights2 vol n0 n1) / vol = f1s_closed n0 * f1s_closed n1)%R.
Proof. exact fourier1_sum_factorises_lemma. Qed.
Print Assumptions fourier1_sum_factorises.
