(* C13 property theorem at full strength, closest_point (statement only).  This file alone fails to compile when the code does
   not satisfy the clause; C13_refuted_closest.v then explains the failure and the harness reports the concrete failing input. *)
From Coq Require Import ZArith List Reals.
From Flocq Require Import Raux Generic_fmt.
From P Require Import C13_gen C13_model C13_proofs_box C13_proofs_closestfull.
Import ListNotations.

(* orthogonal axes of either sign, any query point, 3-D and 2-D: the returned coordinates lie in the grid, the index is
   their flat index, and no grid node is nearer to the query point (closest_coord_gen is generated from the source) *)
Theorem closest_is_nearest : (
  (forall o0 o1 o2 d0 d1 d2 n0 n1 n2 p0 p1 p2, d0 <> 0 -> d1 <> 0 -> d2 <> 0 -> (1 <= n0)%Z -> (1 <= n1)%Z -> (1 <= n2)%Z ->
     let '(c0, c1, c2, idx) := closest3 ROps (o0, o1, o2) d0 d1 d2 n0 n1 n2 (p0, p1, p2) in
     (0 <= c0 < n0)%Z /\ (0 <= c1 < n1)%Z /\ (0 <= c2 < n2)%Z /\
     idx = coordinates_to_index3 n0 n1 n2 c0 c1 c2 /\ (0 <= idx < n0 * n1 * n2)%Z /\
     forall i j k : Z, (0 <= i < n0)%Z -> (0 <= j < n1)%Z -> (0 <= k < n2)%Z ->
       dist2_3 (p0, p1, p2) (node3 (o0, o1, o2) d0 d1 d2 c0 c1 c2) <= dist2_3 (p0, p1, p2) (node3 (o0, o1, o2) d0 d1 d2 i j k)) /\
  (forall o0 o1 d0 d1 n0 n1 p0 p1, d0 <> 0 -> d1 <> 0 -> (1 <= n0)%Z -> (1 <= n1)%Z ->
     let '(c0, c1, idx) := closest2 ROps (o0, o1) d0 d1 n0 n1 (p0, p1) in
     (0 <= c0 < n0)%Z /\ (0 <= c1 < n1)%Z /\
     idx = coordinates_to_index2 n0 n1 c0 c1 /\ (0 <= idx < n0 * n1)%Z /\
     forall i j : Z, (0 <= i < n0)%Z -> (0 <= j < n1)%Z ->
       dist2_2 (p0, p1) (node2 (o0, o1) d0 d1 c0 c1) <= dist2_2 (p0, p1) (node2 (o0, o1) d0 d1 i j)))%R.
Proof. exact closest_is_nearest_lemma. Qed.
Print Assumptions closest_is_nearest.
