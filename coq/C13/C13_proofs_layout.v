(* C13 (2): lexicographic tensor layout of points and kron weights; separable integrands. *)
From Coq Require Import ZArith List Lia Reals Lra.
From P Require Import C13_gen C13_model C13_proofs_index.
Import ListNotations.

(* ------------------------------------------------------------------ lists of equal-length blocks *)
Lemma flat_map_nth_uniform {A B} (f : A -> list B) (m : nat) : forall (l : list A),
  (forall a, In a l -> length (f a) = m) ->
  forall q r d da, (q < length l)%nat -> (r < m)%nat ->
  nth (r + m * q) (flat_map f l) d = nth r (f (nth q l da)) d.
Proof.
  induction l as [|a l IH]; intros Hlen q r d da Hq Hr; [cbn in Hq; lia|].
  cbn [flat_map]. destruct q as [|q].
  - rewrite Nat.mul_0_r, Nat.add_0_r. cbn [nth]. apply app_nth1. rewrite Hlen; [exact Hr|now left].
  - replace (r + m * S q)%nat with (length (f a) + (r + m * q))%nat
      by (rewrite (Hlen a (or_introl eq_refl)); lia).
    rewrite app_nth2_plus. cbn [nth]. apply IH; [intros; apply Hlen; now right|cbn in Hq; lia|exact Hr].
Qed.

Lemma flat_map_length_uniform {A B} (f : A -> list B) (m : nat) : forall (l : list A),
  (forall a, In a l -> length (f a) = m) -> length (flat_map f l) = (length l * m)%nat.
Proof.
  induction l as [|a l IH]; intros Hlen; [reflexivity|].
  cbn [flat_map length]. rewrite app_length, IH, (Hlen a (or_introl eq_refl)); [lia|].
  intros; apply Hlen; now right.
Qed.

Lemma zrange_length n : length (zrange n) = n.
Proof. unfold zrange. now rewrite map_length, seq_length. Qed.

Lemma zrange_nth n i d : (i < n)%nat -> nth i (zrange n) d = Z.of_nat i.
Proof.
  intros H. unfold zrange. rewrite (nth_indep _ d (Z.of_nat 0)) by (rewrite map_length, seq_length; exact H).
  rewrite map_nth, seq_nth by exact H. reflexivity.
Qed.

(* ------------------------------------------------------------------ lex2 / lex3 *)
Lemma lex2_length {A} (f : Z -> Z -> A) n0 n1 : length (lex2 f n0 n1) = (n0 * n1)%nat.
Proof.
  unfold lex2. rewrite (flat_map_length_uniform _ n1), zrange_length; [reflexivity|].
  intros; now rewrite map_length, zrange_length.
Qed.

Lemma lex2_nth {A} (f : Z -> Z -> A) n0 n1 i j d : (i < n0)%nat -> (j < n1)%nat ->
  nth (j + n1 * i) (lex2 f n0 n1) d = f (Z.of_nat i) (Z.of_nat j).
Proof.
  intros Hi Hj. unfold lex2.
  rewrite (flat_map_nth_uniform _ n1) with (da := 0%Z);
    [|intros; now rewrite map_length, zrange_length|now rewrite zrange_length|exact Hj].
  rewrite (zrange_nth n0 i) by exact Hi.
  rewrite (nth_indep _ d (f (Z.of_nat i) 0%Z)) by (now rewrite map_length, zrange_length).
  rewrite (map_nth (fun j0 => f (Z.of_nat i) j0)), zrange_nth by exact Hj. reflexivity.
Qed.

Lemma lex3_as_lex2 {A} (f : Z -> Z -> Z -> A) n0 n1 n2 :
  lex3 f n0 n1 n2 = flat_map (fun i => lex2 (f i) n1 n2) (zrange n0).
Proof. reflexivity. Qed.

Lemma lex3_length {A} (f : Z -> Z -> Z -> A) n0 n1 n2 : length (lex3 f n0 n1 n2) = (n0 * n1 * n2)%nat.
Proof.
  rewrite lex3_as_lex2, (flat_map_length_uniform _ (n1 * n2)), zrange_length; [lia|].
  intros; apply lex2_length.
Qed.

Lemma lex3_nth {A} (f : Z -> Z -> Z -> A) n0 n1 n2 i j k d : (i < n0)%nat -> (j < n1)%nat -> (k < n2)%nat ->
  nth (k + n2 * (j + n1 * i)) (lex3 f n0 n1 n2) d = f (Z.of_nat i) (Z.of_nat j) (Z.of_nat k).
Proof.
  intros Hi Hj Hk. rewrite lex3_as_lex2.
  replace (k + n2 * (j + n1 * i))%nat with ((k + n2 * j) + (n1 * n2) * i)%nat by lia.
  rewrite (flat_map_nth_uniform _ (n1 * n2)) with (da := 0%Z);
    [|intros; apply lex2_length|now rewrite zrange_length|nia].
  rewrite (zrange_nth n0 i) by exact Hi. apply lex2_nth; assumption.
Qed.

(* ------------------------------------------------------------------ UniformGrid layout, through the code's own index map *)
Ltac nonneg := repeat first [lia | apply Z.add_nonneg_nonneg | apply Z.mul_nonneg_nonneg].

Lemma to_nat_index3 n0 n1 n2 i j k : (0 <= i < n0)%Z -> (0 <= j < n1)%Z -> (0 <= k < n2)%Z ->
  Z.to_nat (coordinates_to_index3 n0 n1 n2 i j k) =
  (Z.to_nat k + Z.to_nat n2 * (Z.to_nat j + Z.to_nat n1 * Z.to_nat i))%nat.
Proof.
  intros Hi Hj Hk. rewrite c2i3_spec.
  rewrite Z2Nat.inj_add, Z2Nat.inj_mul, Z2Nat.inj_add, Z2Nat.inj_mul; try reflexivity; nonneg.
Qed.

Lemma to_nat_index2 n0 n1 i j : (0 <= i < n0)%Z -> (0 <= j < n1)%Z ->
  Z.to_nat (coordinates_to_index2 n0 n1 i j) = (Z.to_nat j + Z.to_nat n1 * Z.to_nat i)%nat.
Proof.
  intros Hi Hj. rewrite c2i2_spec. rewrite Z2Nat.inj_add, Z2Nat.inj_mul; try reflexivity; nonneg.
Qed.

Lemma layout3_lemma : forall (T : Type) (add : T -> T -> T) (smul : Z -> T -> T) (o a1 a2 a3 d : T) n0 n1 n2 i j k,
  (0 <= i < n0)%Z -> (0 <= j < n1)%Z -> (0 <= k < n2)%Z ->
  nth (Z.to_nat (coordinates_to_index3 n0 n1 n2 i j k))
      (uniform_points3 add smul o a1 a2 a3 (Z.to_nat n0) (Z.to_nat n1) (Z.to_nat n2)) d
  = add (add (add (smul i a1) (smul j a2)) (smul k a3)) o.
Proof.
  intros T add smul o a1 a2 a3 d n0 n1 n2 i j k Hi Hj Hk.
  rewrite to_nat_index3 by assumption. unfold uniform_points3.
  rewrite lex3_nth by lia. unfold lattice3. rewrite !Z2Nat.id by lia. reflexivity.
Qed.

Lemma layout2_lemma : forall (T : Type) (add : T -> T -> T) (smul : Z -> T -> T) (o a1 a2 d : T) n0 n1 i j,
  (0 <= i < n0)%Z -> (0 <= j < n1)%Z ->
  nth (Z.to_nat (coordinates_to_index2 n0 n1 i j))
      (uniform_points2 add smul o a1 a2 (Z.to_nat n0) (Z.to_nat n1)) d
  = add (add (smul i a1) (smul j a2)) o.
Proof.
  intros T add smul o a1 a2 d n0 n1 i j Hi Hj.
  rewrite to_nat_index2 by assumption. unfold uniform_points2.
  rewrite lex2_nth by lia. unfold lattice2. rewrite !Z2Nat.id by lia. reflexivity.
Qed.

Lemma uniform_length_lemma : forall (T : Type) (add : T -> T -> T) (smul : Z -> T -> T) (o a1 a2 a3 : T) n0 n1 n2,
  (0 <= n0)%Z -> (0 <= n1)%Z -> (0 <= n2)%Z ->
  Z.of_nat (length (uniform_points3 add smul o a1 a2 a3 (Z.to_nat n0) (Z.to_nat n1) (Z.to_nat n2))) = (n0 * n1 * n2)%Z /\
  Z.of_nat (length (uniform_points2 add smul o a1 a2 (Z.to_nat n0) (Z.to_nat n1))) = (n0 * n1)%Z.
Proof.
  intros. unfold uniform_points3, uniform_points2. rewrite lex3_length, lex2_length.
  rewrite !Nat2Z.inj_mul, !Z2Nat.id by lia. split; reflexivity.
Qed.

(* ------------------------------------------------------------------ Tensor1DGrids: points and kron weights *)
Lemma tensor_points2_nth {A B} (xs : list A) (ys : list B) i j (dx : A) (dy : B) d :
  (i < length xs)%nat -> (j < length ys)%nat ->
  nth (j + length ys * i) (flat_map (fun x => map (fun y => (x, y)) ys) xs) d = (nth i xs dx, nth j ys dy).
Proof.
  intros Hi Hj.
  rewrite (flat_map_nth_uniform _ (length ys)) with (da := dx);
    [|intros; now rewrite map_length|exact Hi|exact Hj].
  rewrite (nth_indep _ d (nth i xs dx, dy)) by (now rewrite map_length).
  now rewrite (map_nth (fun y => (nth i xs dx, y))).
Qed.

Lemma tensor_points2_length {A B} (xs : list A) (ys : list B) :
  length (flat_map (fun x => map (fun y => (x, y)) ys) xs) = (length xs * length ys)%nat.
Proof. apply flat_map_length_uniform. intros; now rewrite map_length. Qed.

Lemma tensor_points3_assoc {A} (xs ys zs : list A) :
  tensor_points3 xs ys zs =
  map (fun p : A * A * A => p) (flat_map (fun xy : A * A => map (fun z => (xy, z)) zs) (tensor_points2 xs ys)).
Proof.
  rewrite map_id. unfold tensor_points3, tensor_points2.
  induction xs as [|x xs IH]; [reflexivity|].
  cbn [flat_map]. rewrite flat_map_app, <- IH. f_equal.
  clear. induction ys as [|y ys IH]; [reflexivity|]. cbn [flat_map map]. now rewrite IH.
Qed.

Lemma tensor_points3_nth_lemma : forall (A : Type) (xs ys zs : list A) i j k (dx : A) d,
  (i < length xs)%nat -> (j < length ys)%nat -> (k < length zs)%nat ->
  nth (k + length zs * (j + length ys * i)) (tensor_points3 xs ys zs) d = (nth i xs dx, nth j ys dx, nth k zs dx).
Proof.
  intros A xs ys zs i j k dx d Hi Hj Hk. rewrite tensor_points3_assoc, map_id.
  rewrite (tensor_points2_nth (tensor_points2 xs ys) zs (j + length ys * i) k (dx, dx) dx);
    [|unfold tensor_points2; rewrite tensor_points2_length; nia|exact Hk].
  unfold tensor_points2. now rewrite (tensor_points2_nth xs ys i j dx dx) by assumption.
Qed.

Lemma tensor_points2_nth_lemma : forall (A : Type) (xs ys : list A) i j (dx : A) d,
  (i < length xs)%nat -> (j < length ys)%nat ->
  nth (j + length ys * i) (tensor_points2 xs ys) d = (nth i xs dx, nth j ys dx).
Proof. intros. unfold tensor_points2. now apply tensor_points2_nth. Qed.

Lemma kron_length {A} (mul : A -> A -> A) a b : length (kron mul a b) = (length a * length b)%nat.
Proof. unfold kron. apply flat_map_length_uniform. intros; now rewrite map_length. Qed.

Lemma kron_nth {A} (mul : A -> A -> A) a b i j d : (i < length a)%nat -> (j < length b)%nat ->
  nth (j + length b * i) (kron mul a b) d = mul (nth i a d) (nth j b d).
Proof.
  intros Hi Hj. unfold kron.
  rewrite (flat_map_nth_uniform _ (length b)) with (da := d);
    [|intros; now rewrite map_length|exact Hi|exact Hj].
  rewrite (nth_indep _ d (mul (nth i a d) d)) by (now rewrite map_length).
  now rewrite (map_nth (fun y => mul (nth i a d) y)).
Qed.

Lemma tensor_weights3_nth_lemma : forall (A : Type) (mul : A -> A -> A) (wx wy wz : list A) i j k d,
  (i < length wx)%nat -> (j < length wy)%nat -> (k < length wz)%nat ->
  nth (k + length wz * (j + length wy * i)) (tensor_weights3 mul wx wy wz) d
  = mul (mul (nth i wx d) (nth j wy d)) (nth k wz d).
Proof.
  intros A mul wx wy wz i j k d Hi Hj Hk. unfold tensor_weights3.
  rewrite kron_nth; [|rewrite kron_length; nia|exact Hk]. now rewrite kron_nth.
Qed.

Lemma tensor_lengths_lemma : forall (A : Type) (mul : A -> A -> A) (xs ys zs wx wy wz : list A),
  length (tensor_points3 xs ys zs) = (length xs * length ys * length zs)%nat /\
  length (tensor_weights3 mul wx wy wz) = (length wx * length wy * length wz)%nat /\
  length (tensor_points2 xs ys) = (length xs * length ys)%nat /\
  length (tensor_weights2 mul wx wy) = (length wx * length wy)%nat.
Proof.
  intros. repeat split.
  - rewrite tensor_points3_assoc, map_length, tensor_points2_length. unfold tensor_points2.
    now rewrite tensor_points2_length.
  - unfold tensor_weights3. now rewrite !kron_length.
  - unfold tensor_points2. apply tensor_points2_length.
  - apply kron_length.
Qed.

(* ------------------------------------------------------------------ separable integrands *)
Open Scope R_scope.

(* Grid.integrate on the real instance is the plain weighted sum *)
Definition wsum {A} (w : list R) (x : list A) (f : A -> R) : R :=
  fold_right Rplus 0 (map (fun p => fst p * f (snd p)) (combine w x)).

Lemma integrate_wsum {A} (w : list R) (pts : list A) (f : A -> R) :
  integrate ROps w (map f pts) = wsum w pts f.
Proof.
  unfold integrate, ndot, nsum, wsum. cbn [ROps nadd nzero nmul].
  revert pts; induction w as [|a w IH]; intros [|p pts]; cbn; try reflexivity. now rewrite IH.
Qed.

Lemma wsum_app {A} w1 w2 (x1 x2 : list A) f : length w1 = length x1 ->
  wsum (w1 ++ w2) (x1 ++ x2) f = wsum w1 x1 f + wsum w2 x2 f.
Proof.
  unfold wsum. revert x1; induction w1 as [|a w1 IH]; intros [|p x1] H; cbn in *; try discriminate; [lra|].
  rewrite IH by congruence. lra.
Qed.

Lemma wsum_block {A B} (a : R) (x : A) (b : list R) (ys : list B) (f : A -> R) (g : B -> R) :
  wsum (map (fun y => a * y) b) (map (fun y => (x, y)) ys) (fun p => f (fst p) * g (snd p))
  = a * f x * wsum b ys g.
Proof.
  unfold wsum. revert ys; induction b as [|c b IH]; intros [|y ys]; cbn; try lra.
  rewrite IH. lra.
Qed.

Lemma separable2 {A B} (a b : list R) (xs : list A) (ys : list B) (f : A -> R) (g : B -> R) :
  length a = length xs -> length b = length ys ->
  wsum (kron Rmult a b) (flat_map (fun x => map (fun y => (x, y)) ys) xs) (fun p => f (fst p) * g (snd p))
  = wsum a xs f * wsum b ys g.
Proof.
  intros Ha Hb. unfold kron. revert xs Ha; induction a as [|c a IH]; intros [|x xs] Ha; cbn in Ha; try discriminate.
  - unfold wsum; cbn; lra.
  - cbn [flat_map]. rewrite wsum_app by (now rewrite !map_length).
    rewrite wsum_block, IH by congruence. unfold wsum at 3. cbn. unfold wsum. lra.
Qed.

Lemma tensor_separable2_lemma : forall (wx wy xs ys : list R) (f g : R -> R),
  length wx = length xs -> length wy = length ys ->
  integrate ROps (tensor_weights2 Rmult wx wy) (map (fun p => f (fst p) * g (snd p)) (tensor_points2 xs ys))
  = integrate ROps wx (map f xs) * integrate ROps wy (map g ys).
Proof.
  intros. rewrite !integrate_wsum. unfold tensor_weights2, tensor_points2. now apply separable2.
Qed.

Lemma tensor_separable3_lemma : forall (wx wy wz xs ys zs : list R) (f g h : R -> R),
  length wx = length xs -> length wy = length ys -> length wz = length zs ->
  integrate ROps (tensor_weights3 Rmult wx wy wz)
            (map (fun p => f (fst (fst p)) * g (snd (fst p)) * h (snd p)) (tensor_points3 xs ys zs))
  = integrate ROps wx (map f xs) * integrate ROps wy (map g ys) * integrate ROps wz (map h zs).
Proof.
  intros wx wy wz xs ys zs f g h Hx Hy Hz. rewrite !integrate_wsum.
  rewrite tensor_points3_assoc, map_id. unfold tensor_weights3.
  rewrite (separable2 (kron Rmult wx wy) wz (tensor_points2 xs ys) zs (fun q => f (fst q) * g (snd q)) h);
    [|rewrite kron_length; unfold tensor_points2; rewrite tensor_points2_length; congruence|exact Hz].
  unfold tensor_points2. now rewrite separable2.
Qed.

(* sums over a lexicographic enumeration of a product factor into the product of the 1-D sums
   (used for the Fourier schemes) *)
Lemma sumR_app l1 l2 : sumR (l1 ++ l2) = sumR l1 + sumR l2.
Proof. unfold sumR. induction l1; cbn; [lra|]. rewrite IHl1. lra. Qed.

Lemma sumR_map_scal {A} (c : R) (f : A -> R) l : sumR (map (fun x => c * f x) l) = c * sumR (map f l).
Proof. unfold sumR. induction l; cbn; [lra|]. rewrite IHl. lra. Qed.

Lemma sumR_flat_map {A} (f : A -> list R) l : sumR (flat_map f l) = sumR (map (fun a => sumR (f a)) l).
Proof. induction l; cbn; [reflexivity|]. rewrite sumR_app, IHl. reflexivity. Qed.

Lemma sumR_lex2_prod (a b : Z -> R) n0 n1 :
  sumR (lex2 (fun i j => a i * b j) n0 n1) = sumR (map a (zrange n0)) * sumR (map b (zrange n1)).
Proof.
  unfold lex2. rewrite sumR_flat_map.
  rewrite (map_ext _ (fun i => sumR (map b (zrange n1)) * a i)).
  - rewrite sumR_map_scal. lra.
  - intros i. rewrite sumR_map_scal. lra.
Qed.

Lemma sumR_lex3_prod (a b c : Z -> R) n0 n1 n2 :
  sumR (lex3 (fun i j k => a i * b j * c k) n0 n1 n2)
  = sumR (map a (zrange n0)) * sumR (map b (zrange n1)) * sumR (map c (zrange n2)).
Proof.
  rewrite lex3_as_lex2, sumR_flat_map.
  rewrite (map_ext _ (fun i => (sumR (map b (zrange n1)) * sumR (map c (zrange n2))) * a i)).
  - rewrite sumR_map_scal. lra.
  - intros i. rewrite (sumR_lex2_prod (fun j => a i * b j) c).
    rewrite sumR_map_scal. lra.
Qed.

Lemma lex3_ext {A} (f g : Z -> Z -> Z -> A) n0 n1 n2 : (forall i j k, f i j k = g i j k) ->
  lex3 f n0 n1 n2 = lex3 g n0 n1 n2.
Proof.
  intros H. unfold lex3. apply flat_map_ext; intros i. apply flat_map_ext; intros j. apply map_ext; intros k. apply H.
Qed.
