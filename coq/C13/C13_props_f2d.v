(* C13 property theorem at full strength, Fourier2 in two dimensions (statement only).  This file alone fails to compile
   when the scheme cannot be constructed in 2-D; C13_refuted_f2d.v then explains the failure. *)
From Coq Require Import ZArith List Reals.
From P Require Import C13_gen C13_model C13_proofs_f2d.
Import ListNotations.

Theorem fourier2_2d_constructs : forall vol n0 n1, (0 <= n0)%Z -> (0 <= n1)%Z ->
  exists w, fourier2_weights vol [n0; n1] = Some w /\ Z.of_nat (length w) = (n0 * n1)%Z.
Proof. exact fourier2_2d_constructs_lemma. Qed.
Print Assumptions fourier2_2d_constructs.
