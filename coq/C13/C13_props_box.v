(* C13 property theorems, parts 4-6: from_molecule, closest_point, cube data (statements only; proofs are in C13_proofs_*.v).
   coordinates_to_index{2,3} / index_to_coordinates{2,3} are GENERATED from src/grid/cubic.py on every run.
   The obligations are spread over C13_props*.v so that Print Assumptions runs in parallel. *)
From Coq Require Import ZArith List Reals.
From Flocq Require Import Raux Generic_fmt.
From P Require Import C13_gen C13_model C13_proofs_index C13_proofs_box C13_proofs_cube.
Import ListNotations.

(* ------------------------------------------------------------------ (4) from_molecule(rotate=False) *)
(* holds whichever point the box is centred on (pinned commit: centre of nuclear charge; repaired: middle of the extent) *)
Theorem box_margin_partial : forall zs xs spacing ext x, (0 < spacing)%R -> In x xs ->
  (ext - Rabs (com_axis ROps zs xs - mid_axis xs) <= margin_lo ROps zs xs spacing ext x /\
   (ext - spacing) - Rabs (com_axis ROps zs xs - mid_axis xs) <= margin_hi ROps zs xs spacing ext x)%R.
Proof. exact box_margin_partial_lemma. Qed.
Print Assumptions box_margin_partial.

Theorem box_contains_nuclei_symmetric_partial : forall zs xs spacing ext x, (0 < spacing)%R -> In x xs ->
  com_axis ROps zs xs = mid_axis xs ->
  (ext - spacing <= margin_lo ROps zs xs spacing ext x /\ ext - spacing <= margin_hi ROps zs xs spacing ext x)%R.
Proof. exact box_contains_symmetric_lemma. Qed.
Print Assumptions box_contains_nuclei_symmetric_partial.

(* full strength: box_contains_nuclei in C13_props_boxfull.v (refutation for the pinned commit: C13_refuted_box.v) *)

(* ------------------------------------------------------------------ (5) closest_point *)
Theorem closest_is_nearest3_partial : forall o0 o1 o2 d0 d1 d2 n0 n1 n2 p0 p1 p2,
  (0 < d0 -> 0 < d1 -> 0 < d2 ->
  - / 2 < (p0 - o0) / d0 < IZR n0 - / 2 -> - / 2 < (p1 - o1) / d1 < IZR n1 - / 2 -> - / 2 < (p2 - o2) / d2 < IZR n2 - / 2 ->
  let '(c0, c1, c2, idx) := closest3 ROps (o0, o1, o2) d0 d1 d2 n0 n1 n2 (p0, p1, p2) in
  (0 <= c0 < n0)%Z /\ (0 <= c1 < n1)%Z /\ (0 <= c2 < n2)%Z /\
  idx = coordinates_to_index3 n0 n1 n2 c0 c1 c2 /\ (0 <= idx < n0 * n1 * n2)%Z /\
  forall i j k : Z, dist2_3 (p0, p1, p2) (node3 (o0, o1, o2) d0 d1 d2 c0 c1 c2)
                    <= dist2_3 (p0, p1, p2) (node3 (o0, o1, o2) d0 d1 d2 i j k))%R.
Proof. exact closest_is_nearest3_lemma. Qed.
Print Assumptions closest_is_nearest3_partial.

Theorem closest_is_nearest2_partial : forall o0 o1 d0 d1 n0 n1 p0 p1,
  (0 < d0 -> 0 < d1 ->
  - / 2 < (p0 - o0) / d0 < IZR n0 - / 2 -> - / 2 < (p1 - o1) / d1 < IZR n1 - / 2 ->
  let '(c0, c1, idx) := closest2 ROps (o0, o1) d0 d1 n0 n1 (p0, p1) in
  (0 <= c0 < n0)%Z /\ (0 <= c1 < n1)%Z /\
  idx = coordinates_to_index2 n0 n1 c0 c1 /\ (0 <= idx < n0 * n1)%Z /\
  forall i j : Z, dist2_2 (p0, p1) (node2 (o0, o1) d0 d1 c0 c1) <= dist2_2 (p0, p1) (node2 (o0, o1) d0 d1 i j))%R.
Proof. exact closest_is_nearest2_lemma. Qed.
Print Assumptions closest_is_nearest2_partial.

(* full strength: closest_is_nearest in C13_props_closestfull.v (refutation for the pinned commit: C13_refuted_closest.v) *)

(* ------------------------------------------------------------------ (6, partial) cube data block *)
Theorem cube_data_roundtrip_partial : forall (A : Type) (data : list A),
  cube_read (cube_rows data) = data /\ Forall (fun r => (1 <= length r <= 6)%nat) (cube_rows data).
Proof. exact cube_data_roundtrip_lemma. Qed.
Print Assumptions cube_data_roundtrip_partial.
