(* C13 (3), full strength for the clause "every documented weighting scheme constructs in both dimensions":
   goes through when the flag fourier2_2d_ok of C13_gen.v (directed witness on the implementation) is true. *)
From Coq Require Import ZArith List Reals.
From P Require Import C13_num C13_gen C13_model C13_proofs_layout.
Import ListNotations.

Lemma fourier2_2d_constructs_lemma : forall vol n0 n1, (0 <= n0)%Z -> (0 <= n1)%Z ->
  exists w, fourier2_weights vol [n0; n1] = Some w /\ Z.of_nat (length w) = (n0 * n1)%Z.
Proof.
  intros vol n0 n1 H0 H1. exists (fourier2_weights2 vol n0 n1). split; [reflexivity|].
  unfold fourier2_weights2. rewrite lex2_length, Nat2Z.inj_mul, !Z2Nat.id by assumption. reflexivity.
Qed.
