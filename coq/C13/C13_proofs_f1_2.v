(* C13 (3): Fourier1 per-direction factor f1s n enclosed by interval arithmetic, n in [8, 11, 19, 30]
   (file generated once by a script, split for parallel compilation; independent of /repo). *)
From Coq Require Import ZArith List Reals Lra.
From Interval Require Import Tactic.
From Flocq Require Import Raux.
From P Require Import C13_gen C13_model C13_proofs_weights.
Open Scope R_scope.

Lemma f1s_bound_8 : 1 - / IZR 8 <= f1s 8 <= 1.
Proof.
  assert (H : Rabs (f1s 8 - (1 - / IZR 8 / 2)) <= / IZR 8 / 2).
  { unfold f1s, fourier1_dir, sumR. ev. interval. }
  apply Rabs_le_inv in H. lra.
Qed.

Lemma f1s_bound_11 : 1 - / IZR 11 <= f1s 11 <= 1.
Proof.
  assert (H : Rabs (f1s 11 - (1 - / IZR 11 / 2)) <= / IZR 11 / 2).
  { unfold f1s, fourier1_dir, sumR. ev. interval. }
  apply Rabs_le_inv in H. lra.
Qed.

Lemma f1s_bound_19 : 1 - / IZR 19 <= f1s 19 <= 1.
Proof.
  assert (H : Rabs (f1s 19 - (1 - / IZR 19 / 2)) <= / IZR 19 / 2).
  { unfold f1s, fourier1_dir, sumR. ev. interval. }
  apply Rabs_le_inv in H. lra.
Qed.

Lemma f1s_bound_30 : 1 - / IZR 30 <= f1s 30 <= 1.
Proof.
  assert (H : Rabs (f1s 30 - (1 - / IZR 30 / 2)) <= / IZR 30 / 2).
  { unfold f1s, fourier1_dir, sumR. ev. interval. }
  apply Rabs_le_inv in H. lra.
Qed.
