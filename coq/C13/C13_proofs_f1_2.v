(* C13 (3): Fourier1 per-direction factor f1s n enclosed by interval arithmetic on its closed form, n in [3, 14, 19, 30, 35, 46, 51, 62]
   (file generated once by a script, split for parallel compilation; independent of /repo). *)
From Coq Require Import ZArith List Lia Reals Lra.
From Interval Require Import Tactic.
From Flocq Require Import Raux.
From P Require Import C13_gen C13_model C13_proofs_weights C13_proofs_f1c.
Open Scope R_scope.

Lemma f1s_bound_3 : 1 - / IZR 3 <= f1s 3 <= 1.
Proof.
  rewrite f1s_closed_form by (clear; lia).
  assert (H : Rabs (f1s_closed 3 - (1 - / IZR 3 / 2)) <= / IZR 3 / 2).
  { unfold f1s_closed, f1_term, sumR. ev. interval. }
  apply Rabs_le_inv in H. lra.
Qed.

Lemma f1s_bound_14 : 1 - / IZR 14 <= f1s 14 <= 1.
Proof.
  rewrite f1s_closed_form by (clear; lia).
  assert (H : Rabs (f1s_closed 14 - (1 - / IZR 14 / 2)) <= / IZR 14 / 2).
  { unfold f1s_closed, f1_term, sumR. ev. interval. }
  apply Rabs_le_inv in H. lra.
Qed.

Lemma f1s_bound_19 : 1 - / IZR 19 <= f1s 19 <= 1.
Proof.
  rewrite f1s_closed_form by (clear; lia).
  assert (H : Rabs (f1s_closed 19 - (1 - / IZR 19 / 2)) <= / IZR 19 / 2).
  { unfold f1s_closed, f1_term, sumR. ev. interval. }
  apply Rabs_le_inv in H. lra.
Qed.

Lemma f1s_bound_30 : 1 - / IZR 30 <= f1s 30 <= 1.
Proof.
  rewrite f1s_closed_form by (clear; lia).
  assert (H : Rabs (f1s_closed 30 - (1 - / IZR 30 / 2)) <= / IZR 30 / 2).
  { unfold f1s_closed, f1_term, sumR. ev. interval. }
  apply Rabs_le_inv in H. lra.
Qed.

Lemma f1s_bound_35 : 1 - / IZR 35 <= f1s 35 <= 1.
Proof.
  rewrite f1s_closed_form by (clear; lia).
  assert (H : Rabs (f1s_closed 35 - (1 - / IZR 35 / 2)) <= / IZR 35 / 2).
  { unfold f1s_closed, f1_term, sumR. ev. interval. }
  apply Rabs_le_inv in H. lra.
Qed.

Lemma f1s_bound_46 : 1 - / IZR 46 <= f1s 46 <= 1.
Proof.
  rewrite f1s_closed_form by (clear; lia).
  assert (H : Rabs (f1s_closed 46 - (1 - / IZR 46 / 2)) <= / IZR 46 / 2).
  { unfold f1s_closed, f1_term, sumR. ev. interval. }
  apply Rabs_le_inv in H. lra.
Qed.

Lemma f1s_bound_51 : 1 - / IZR 51 <= f1s 51 <= 1.
Proof.
  rewrite f1s_closed_form by (clear; lia).
  assert (H : Rabs (f1s_closed 51 - (1 - / IZR 51 / 2)) <= / IZR 51 / 2).
  { unfold f1s_closed, f1_term, sumR. ev. interval. }
  apply Rabs_le_inv in H. lra.
Qed.

Lemma f1s_bound_62 : 1 - / IZR 62 <= f1s 62 <= 1.
Proof.
  rewrite f1s_closed_form by (clear; lia).
  assert (H : Rabs (f1s_closed 62 - (1 - / IZR 62 / 2)) <= / IZR 62 / 2).
  { unfold f1s_closed, f1_term, sumR. ev. interval. }
  apply Rabs_le_inv in H. lra.
Qed.
