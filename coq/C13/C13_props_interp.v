(* C13 property theorems, part 6: interpolation (statements only; proofs are in C13_proofs_interp.v).
   The 1-D spline is an oracle: `spline nodes values t nu` stands for scipy's CubicSpline(nodes, values)(t, nu); its
   exactness on cubics (hypothesis below, with dmono := dmono_std) is validated numerically on every run. *)
From Coq Require Import List Reals.
From Coquelicot Require Import Coquelicot.
From P Require Import C13_proofs_interp.
Import ListNotations.
Open Scope R_scope.

(* nested z-, y-, x-splines over the interior nodes reproduce every polynomial of degree <= 3 in each variable and
   every partial derivative of it, at ANY evaluation point, for any (non-uniform) nodes, at least four per direction *)
Theorem tricubic_reproduced : forall (dmono : nat -> nat -> R -> R) (spline : list R -> list R -> R -> nat -> R),
  (forall (nodes : list R) c0 c1 c2 c3 t nu, (4 <= length nodes)%nat ->
     spline nodes (map (cubic c0 c1 c2 c3) nodes) t nu = dcubic dmono c0 c1 c2 c3 nu t) ->
  forall (C : nat -> nat -> nat -> R) xs ys zs nx ny nz x y z,
  (4 <= length xs)%nat -> (4 <= length ys)%nat -> (4 <= length zs)%nat ->
  interpolate_model spline xs ys zs (tricubic C) nx ny nz x y z = dtricubic dmono C nx ny nz x y z.
Proof. exact tricubic_reproduced_lemma. Qed.
Print Assumptions tricubic_reproduced.

(* dmono_std c nu is the nu-th derivative of t^c (so dtricubic dmono_std C nx ny nz is the partial derivative) *)
Theorem dmono_std_derivative : forall c nu t, (c <= 3)%nat -> (nu <= 3)%nat ->
  dmono_std c 0 t = t ^ c /\ is_derive (dmono_std c nu) t (dmono_std c (S nu) t).
Proof. exact dmono_std_derivative_lemma. Qed.
Print Assumptions dmono_std_derivative.

(* logarithmic variant: derivatives of exp(g) of orders 1..3 from the derivatives of g (the Bell-polynomial formula
   the code evaluates with sympy); higher orders are not proved *)
Theorem log_variant_chain_rule_partial : forall (g g1 g2 g3 : R -> R) (x : R),
  (forall t, is_derive g t (g1 t)) -> (forall t, is_derive g1 t (g2 t)) -> (forall t, is_derive g2 t (g3 t)) ->
  let f := fun t => exp (g t) in
  let f1 := fun t => exp (g t) * g1 t in
  let f2 := fun t => exp (g t) * (g2 t + g1 t ^ 2) in
  let f3 := fun t => exp (g t) * (g3 t + 3 * g1 t * g2 t + g1 t ^ 3) in
  is_derive f x (f1 x) /\ is_derive f1 x (f2 x) /\ is_derive f2 x (f3 x).
Proof. exact log_variant_chain_rule_lemma. Qed.
Print Assumptions log_variant_chain_rule_partial.
