(* C13 property theorem at full strength, from_molecule(rotate=False) (statement only).  This file alone fails to compile when the code does
   not satisfy the clause; C13_refuted_box.v then explains the failure and the harness reports the concrete failing input. *)
From Coq Require Import ZArith List Reals.
From Flocq Require Import Raux Generic_fmt.
From P Require Import C13_gen C13_model C13_proofs_box C13_proofs_boxfull.
Import ListNotations.

(* every nucleus keeps at least extension - spacing to the first and to the last plane of grid points, every direction,
   any molecule (shape_axis / origin_axis are generated from the source) *)
Theorem box_contains_nuclei : forall zs xs spacing ext x, (0 < spacing)%R -> In x xs ->
  (ext - spacing <= margin_lo ROps zs xs spacing ext x /\ ext - spacing <= margin_hi ROps zs xs spacing ext x)%R.
Proof. exact box_contains_nuclei_lemma. Qed.
Print Assumptions box_contains_nuclei.
