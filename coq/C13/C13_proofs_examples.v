(* C13: the hypotheses of the theorems are satisfiable on non-trivial instances (and the models compute). *)
From Coq Require Import ZArith List Lia QArith Reals Lra.
From Flocq Require Import Raux.
From P Require Import C13_gen C13_model C13_proofs_index C13_proofs_layout C13_proofs_weights C13_proofs_box.
Import ListNotations.

(* non-cubic shape (2,3,5): index round trip at an interior point and at the last point *)
Example ex_index : index_to_coordinates3 2 3 5 (coordinates_to_index3 2 3 5 1 2 3) = Some (1, 2, 3)%Z /\
                   coordinates_to_index3 2 3 5 1 2 4 = 29%Z /\ index_to_coordinates2 4 7 27 = Some (3, 6)%Z.
Proof. repeat split; reflexivity. Qed.

(* skewed axes, shape (2,3,5): the point at (1,2,3) *)
Example ex_layout :
  nth (Z.to_nat (coordinates_to_index3 2 3 5 1 2 3))
      (uniform_points3 zadd3 zsmul3 (10, 20, 30)%Z (1, 1, 0)%Z (0, 2, 0)%Z (0, 1, 3)%Z 2 3 5) (0, 0, 0)%Z
  = (11, 28, 39)%Z.
Proof. reflexivity. Qed.

Example ex_kron : tensor_weights3 Z.mul [1; 2]%Z [3; 5; 7]%Z [11; 13]%Z
                  = [33; 39; 55; 65; 77; 91; 66; 78; 110; 130; 154; 182]%Z.
Proof. reflexivity. Qed.

(* a skewed box has a non-zero volume (hypothesis of weights_sum_bound3) *)
Example ex_volume : volume3 ROps (1, 1, 0)%R (0, 2, 0)%R (0, 1, 3)%R 2 3 5 <> 0%R.
Proof.
  unfold volume3, dot3, cross3, vscale3, zz. cbn [ROps nadd nsub nmul nabs nofZ].
  apply Rgt_not_eq. apply Rabs_pos_lt. lra.
Qed.

(* exact rational execution of the same model *)
Example ex_weights_Q : weights2 QOps Trapezoid (1, 0)%Q (0, 1)%Q 2%Z 3%Z = repeat (1 # 2)%Q 6%nat.
Proof. reflexivity. Qed.

(* a homonuclear diatomic: the centre of charge is the middle of the extent (hypothesis of the symmetric case) *)
Example ex_symmetric : com_axis ROps [8; 8]%R [-1; 1]%R = mid_axis [-1; 1]%R.
Proof.
  unfold com_axis, mid_axis, ndot, nsum, lmax, lmin. cbn [ROps nadd nmul ndiv nzero nmax nmin fold_right map combine fst snd].
  rewrite Rmax_left, Rmin_right by lra. field.
Qed.

(* a query point inside the box satisfies the hypotheses of closest_is_nearest3_partial *)
Example ex_closest_hyp : (0 < 1 / 4 /\ - / 2 < (3 / 8 - (-1)) / (1 / 4) < IZR 7 - / 2)%R.
Proof. split; [lra|]. split; lra. Qed.

Example ex_closest_Q : closest3 QOps (0, 0, 0)%Q 1%Q 1%Q 1%Q 3%Z 4%Z 5%Z ((5 # 2), (1 # 2), (7 # 2))%Q = (2, 0, 4, 44)%Z.
Proof. reflexivity. Qed.

Example ex_box_Q : shape_axis QOps [8; 8]%Q [-1; 1]%Q (1 # 4)%Q 2%Q = 24%Z /\
                   Qeq (origin_axis QOps [8; 8]%Q [-1; 1]%Q (1 # 4)%Q 2%Q) (-3)%Q.
Proof. split; reflexivity. Qed.
