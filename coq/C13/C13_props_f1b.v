(* C13 property theorems, Fourier1 part (2-D) (statements only). *)
From Coq Require Import ZArith List Reals.
From P Require Import C13_gen C13_model C13_proofs_weights C13_proofs_f1.
Import ListNotations.

(* partial: at most 64 points per direction (enclosures by interval arithmetic, one per n) *)
Theorem fourier1_sum_bound2_partial : forall vol n0 n1,
  (1 <= n0 <= 64)%Z -> (1 <= n1 <= 64)%Z -> vol <> 0%R ->
  (Rabs (sumR (fourier1_weights2 vol n0 n1) / vol - 1) <= 1 / IZR n0 + 1 / IZR n1)%R.
Proof. exact fourier1_sum_bound2_partial_lemma. Qed.
Print Assumptions fourier1_sum_bound2_partial.
