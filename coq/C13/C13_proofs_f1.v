(* C13 (3): Fourier1 sum bound for every shape with at most 32 points per direction (partial: the bound on the
   number of points is in the statement). *)
From Coq Require Import ZArith List Lia Reals Lra.
From P Require Import C13_gen C13_model C13_proofs_weights C13_proofs_f1_0 C13_proofs_f1_1 C13_proofs_f1_2 C13_proofs_f1_3 C13_proofs_f1_4 C13_proofs_f1_5 C13_proofs_f1_6 C13_proofs_f1_7.
Open Scope R_scope.

Lemma f1s_bounds n : (1 <= n <= 32)%Z -> 1 - / IZR n <= f1s n <= 1.
Proof.
  intros H.
  assert (C : n = 1%Z \/ n = 2%Z \/ n = 3%Z \/ n = 4%Z \/ n = 5%Z \/ n = 6%Z \/ n = 7%Z \/ n = 8%Z \/ n = 9%Z \/ n = 10%Z \/ n = 11%Z \/ n = 12%Z \/ n = 13%Z \/ n = 14%Z \/ n = 15%Z \/ n = 16%Z \/ n = 17%Z \/ n = 18%Z \/ n = 19%Z \/ n = 20%Z \/ n = 21%Z \/ n = 22%Z \/ n = 23%Z \/ n = 24%Z \/ n = 25%Z \/ n = 26%Z \/ n = 27%Z \/ n = 28%Z \/ n = 29%Z \/ n = 30%Z \/ n = 31%Z \/ n = 32%Z) by lia.
  repeat (destruct C as [-> | C]); [exact f1s_bound_1 | exact f1s_bound_2 | exact f1s_bound_3 | exact f1s_bound_4 | exact f1s_bound_5 | exact f1s_bound_6 | exact f1s_bound_7 | exact f1s_bound_8 | exact f1s_bound_9 | exact f1s_bound_10 | exact f1s_bound_11 | exact f1s_bound_12 | exact f1s_bound_13 | exact f1s_bound_14 | exact f1s_bound_15 | exact f1s_bound_16 | exact f1s_bound_17 | exact f1s_bound_18 | exact f1s_bound_19 | exact f1s_bound_20 | exact f1s_bound_21 | exact f1s_bound_22 | exact f1s_bound_23 | exact f1s_bound_24 | exact f1s_bound_25 | exact f1s_bound_26 | exact f1s_bound_27 | exact f1s_bound_28 | exact f1s_bound_29 | exact f1s_bound_30 | exact f1s_bound_31 | subst n; exact f1s_bound_32].
Qed.

Lemma fourier1_sum_bound3_partial_lemma : forall vol n0 n1 n2,
  (1 <= n0 <= 32)%Z -> (1 <= n1 <= 32)%Z -> (1 <= n2 <= 32)%Z -> vol <> 0 ->
  Rabs (sumR (fourier1_weights3 vol n0 n1 n2) / vol - 1) <= 1 / IZR n0 + 1 / IZR n1 + 1 / IZR n2.
Proof.
  intros vol n0 n1 n2 H0 H1 H2 Hv.
  apply fourier1_from_factors3; try lia; try assumption; apply f1s_bounds; assumption.
Qed.

Lemma fourier1_sum_bound2_partial_lemma : forall vol n0 n1,
  (1 <= n0 <= 32)%Z -> (1 <= n1 <= 32)%Z -> vol <> 0 ->
  Rabs (sumR (fourier1_weights2 vol n0 n1) / vol - 1) <= 1 / IZR n0 + 1 / IZR n1.
Proof.
  intros vol n0 n1 H0 H1 Hv.
  apply fourier1_from_factors2; try lia; try assumption; apply f1s_bounds; assumption.
Qed.
