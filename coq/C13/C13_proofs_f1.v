(* C13 (3): Fourier1 sum bound for every shape with at most 64 points per direction (partial: the bound on the
   number of points is in the statement). *)
From Coq Require Import ZArith List Lia Reals Lra.
From P Require Import C13_gen C13_model C13_proofs_weights C13_proofs_f1_0 C13_proofs_f1_1 C13_proofs_f1_2 C13_proofs_f1_3 C13_proofs_f1_4 C13_proofs_f1_5 C13_proofs_f1_6 C13_proofs_f1_7.
Open Scope R_scope.

Lemma f1s_bounds n : (1 <= n <= 64)%Z -> 1 - / IZR n <= f1s n <= 1.
Proof.
  intros H.
  assert (C : n = 1%Z \/ n = 2%Z \/ n = 3%Z \/ n = 4%Z \/ n = 5%Z \/ n = 6%Z \/ n = 7%Z \/ n = 8%Z \/ n = 9%Z \/ n = 10%Z \/ n = 11%Z \/ n = 12%Z \/ n = 13%Z \/ n = 14%Z \/ n = 15%Z \/ n = 16%Z \/ n = 17%Z \/ n = 18%Z \/ n = 19%Z \/ n = 20%Z \/ n = 21%Z \/ n = 22%Z \/ n = 23%Z \/ n = 24%Z \/ n = 25%Z \/ n = 26%Z \/ n = 27%Z \/ n = 28%Z \/ n = 29%Z \/ n = 30%Z \/ n = 31%Z \/ n = 32%Z \/ n = 33%Z \/ n = 34%Z \/ n = 35%Z \/ n = 36%Z \/ n = 37%Z \/ n = 38%Z \/ n = 39%Z \/ n = 40%Z \/ n = 41%Z \/ n = 42%Z \/ n = 43%Z \/ n = 44%Z \/ n = 45%Z \/ n = 46%Z \/ n = 47%Z \/ n = 48%Z \/ n = 49%Z \/ n = 50%Z \/ n = 51%Z \/ n = 52%Z \/ n = 53%Z \/ n = 54%Z \/ n = 55%Z \/ n = 56%Z \/ n = 57%Z \/ n = 58%Z \/ n = 59%Z \/ n = 60%Z \/ n = 61%Z \/ n = 62%Z \/ n = 63%Z \/ n = 64%Z) by lia.
  repeat (destruct C as [-> | C]); [exact f1s_bound_1 | exact f1s_bound_2 | exact f1s_bound_3 | exact f1s_bound_4 | exact f1s_bound_5 | exact f1s_bound_6 | exact f1s_bound_7 | exact f1s_bound_8 | exact f1s_bound_9 | exact f1s_bound_10 | exact f1s_bound_11 | exact f1s_bound_12 | exact f1s_bound_13 | exact f1s_bound_14 | exact f1s_bound_15 | exact f1s_bound_16 | exact f1s_bound_17 | exact f1s_bound_18 | exact f1s_bound_19 | exact f1s_bound_20 | exact f1s_bound_21 | exact f1s_bound_22 | exact f1s_bound_23 | exact f1s_bound_24 | exact f1s_bound_25 | exact f1s_bound_26 | exact f1s_bound_27 | exact f1s_bound_28 | exact f1s_bound_29 | exact f1s_bound_30 | exact f1s_bound_31 | exact f1s_bound_32 | exact f1s_bound_33 | exact f1s_bound_34 | exact f1s_bound_35 | exact f1s_bound_36 | exact f1s_bound_37 | exact f1s_bound_38 | exact f1s_bound_39 | exact f1s_bound_40 | exact f1s_bound_41 | exact f1s_bound_42 | exact f1s_bound_43 | exact f1s_bound_44 | exact f1s_bound_45 | exact f1s_bound_46 | exact f1s_bound_47 | exact f1s_bound_48 | exact f1s_bound_49 | exact f1s_bound_50 | exact f1s_bound_51 | exact f1s_bound_52 | exact f1s_bound_53 | exact f1s_bound_54 | exact f1s_bound_55 | exact f1s_bound_56 | exact f1s_bound_57 | exact f1s_bound_58 | exact f1s_bound_59 | exact f1s_bound_60 | exact f1s_bound_61 | exact f1s_bound_62 | exact f1s_bound_63 | subst n; exact f1s_bound_64].
Qed.

Lemma fourier1_sum_bound3_partial_lemma : forall vol n0 n1 n2,
  (1 <= n0 <= 64)%Z -> (1 <= n1 <= 64)%Z -> (1 <= n2 <= 64)%Z -> vol <> 0 ->
  Rabs (sumR (fourier1_weights3 vol n0 n1 n2) / vol - 1) <= 1 / IZR n0 + 1 / IZR n1 + 1 / IZR n2.
Proof.
  intros vol n0 n1 n2 H0 H1 H2 Hv.
  apply fourier1_from_factors3; try lia; try assumption; apply f1s_bounds; assumption.
Qed.

Lemma fourier1_sum_bound2_partial_lemma : forall vol n0 n1,
  (1 <= n0 <= 64)%Z -> (1 <= n1 <= 64)%Z -> vol <> 0 ->
  Rabs (sumR (fourier1_weights2 vol n0 n1) / vol - 1) <= 1 / IZR n0 + 1 / IZR n1.
Proof.
  intros vol n0 n1 H0 H1 Hv.
  apply fourier1_from_factors2; try lia; try assumption; apply f1s_bounds; assumption.
Qed.
