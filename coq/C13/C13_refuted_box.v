(* Compiled to explain a failure of box_contains_nuclei (C13_props_boxfull.v): with the box arithmetic generated from
   the source at the pinned commit (origin = centre of nuclear charge - half the box) the property is false.
   This file is expected NOT to compile once from_molecule is repaired. *)
From Coq Require Import ZArith List Lia Reals Lra.
From Flocq Require Import Raux Generic_fmt.
From P Require Import C13_num C13_gen C13_model C13_proofs_box.
Import ListNotations.
Open Scope R_scope.

(* the property itself is false for the model: H at 0, Hg (Z=80) at 10, spacing 1/5.
   With extension 5 the first grid plane is only 10/81 below the hydrogen (4.8 was promised);
   with extension 2 the hydrogen is outside the box altogether. *)
Lemma rmax_10_0 : Rmax 10 0 = 10. Proof. apply Rmax_left; lra. Qed.
Lemma rmin_10_0 : Rmin 10 0 = 0. Proof. apply Rmin_right; lra. Qed.

Lemma box_refuted_lemma :
  let zs := [1; 80] in let xs := [0; 10] in let spacing := 1 / 5 in
  (Forall (fun z => 0 < z) zs /\ 0 < spacing /\ In 0 xs) /\
  margin_lo ROps zs xs spacing 5 0 = 10 / 81 /\ 10 / 81 < 5 - spacing /\
  margin_lo ROps zs xs spacing 2 0 = 10 - 800 / 81 - 3 /\ 10 - 800 / 81 - 3 < 0.
Proof.
  cbv zeta. split; [repeat split; try lra; [repeat constructor; lra|now left]|].
  unfold margin_lo, origin_axis, shape_axis, origin_axis_gen, shape_axis_gen, com_axis, ndot, nsum, lmax, lmin, zz.
  cbn [ROps nadd nsub nmul ndiv none nzero nofZ nceil nmax nmin fold_right map combine fst snd].
  rewrite rmax_10_0, rmin_10_0.
  replace ((10 - 0 + 2 * 5) / (1 / 5)) with (IZR 100) by (simpl; field).
  replace ((10 - 0 + 2 * 2) / (1 / 5)) with (IZR 70) by (simpl; field).
  rewrite !Zceil_IZR. repeat split; try lra; field.
Qed.
