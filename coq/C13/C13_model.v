(* C13: executable hand models of src/grid/cubic.py (no proofs in this file).
   Generic over the number type through a record of operations: theorems are stated on the instance ROps
   (real numbers), the correspondence with the implementation is evaluated on the instance QOps
   (exact rationals; floats enter as exact dyadics).  Integer index arithmetic is NOT modelled here: it is
   generated from the source (C13_gen.v). *)
From Coq Require Import ZArith List Bool QArith Qround Qabs Qminmax Reals.
From Flocq Require Import Raux Generic_fmt.
From P Require Export C13_num.
From P Require Import C13_gen.
Import ListNotations.

(* ------------------------------------------------------------------ lexicographic enumeration *)
Definition zrange (n : nat) : list Z := map Z.of_nat (seq 0 n).

(* [f i j k | i <- 0..n0-1, j <- 0..n1-1, k <- 0..n2-1], last index fastest *)
Definition lex3 {A} (f : Z -> Z -> Z -> A) (n0 n1 n2 : nat) : list A :=
  flat_map (fun i => flat_map (fun j => map (fun k => f i j k) (zrange n2)) (zrange n1)) (zrange n0).
Definition lex2 {A} (f : Z -> Z -> A) (n0 n1 : nat) : list A :=
  flat_map (fun i => map (fun j => f i j) (zrange n1)) (zrange n0).

(* ------------------------------------------------------------------ UniformGrid.__init__: points
   coords = all (i,j,k) in lexicographic order (meshgrid + swapaxes + reshape, or reshape order="F" in 2-D)
   points = coords.T.dot(axes) + origin, i.e. row c is (i*a1 + j*a2 + k*a3) + origin                     *)
Section Layout.
  Context {T : Type} (add : T -> T -> T) (smul : Z -> T -> T).
  Definition lattice3 (o a1 a2 a3 : T) (i j k : Z) : T := add (add (add (smul i a1) (smul j a2)) (smul k a3)) o.
  Definition lattice2 (o a1 a2 : T) (i j : Z) : T := add (add (smul i a1) (smul j a2)) o.
  Definition uniform_points3 (o a1 a2 a3 : T) (n0 n1 n2 : nat) : list T := lex3 (lattice3 o a1 a2 a3) n0 n1 n2.
  Definition uniform_points2 (o a1 a2 : T) (n0 n1 : nat) : list T := lex2 (lattice2 o a1 a2) n0 n1.
End Layout.

(* ------------------------------------------------------------------ Tensor1DGrids.__init__
   points: meshgrid(x, y, z, indexing="ij") stacked, reshaped (3,-1), transposed;
   weights: kron(kron(wx, wy), wz)                                                                       *)
Definition tensor_points3 {A} (xs ys zs : list A) : list (A * A * A) :=
  flat_map (fun x => flat_map (fun y => map (fun z => (x, y, z)) zs) ys) xs.
Definition tensor_points2 {A} (xs ys : list A) : list (A * A) :=
  flat_map (fun x => map (fun y => (x, y)) ys) xs.
Definition kron {A} (mul : A -> A -> A) (a b : list A) : list A :=
  flat_map (fun x => map (fun y => mul x y) b) a.
Definition tensor_weights3 {A} (mul : A -> A -> A) (wx wy wz : list A) : list A := kron mul (kron mul wx wy) wz.
Definition tensor_weights2 {A} (mul : A -> A -> A) (wx wy : list A) : list A := kron mul wx wy.

Section Num.
  Context {T : Type} (o : NumOps T).
  Local Notation "a +! b" := (nadd o a b) (at level 50, left associativity).
  Local Notation "a -! b" := (nsub o a b) (at level 50, left associativity).
  Local Notation "a *! b" := (nmul o a b) (at level 40, left associativity).
  Local Notation "a /! b" := (ndiv o a b) (at level 40, left associativity).
  Definition zz (n : Z) : T := nofZ o n.

  Definition nsum (l : list T) : T := fold_right (nadd o) (nzero o) l.
  Definition ndot (a b : list T) : T := nsum (map (fun p => fst p *! snd p) (combine a b)).

  (* -------------------------------------------------------------- UniformGrid._calculate_volume
     3-D: | (s0 a0 x s1 a1) . s2 a2 |        2-D: | det [s0 a0; s1 a1] |                                *)
  Definition vec3 := (T * T * T)%type.
  Definition vscale3 (s : T) (v : vec3) : vec3 := let '(x, y, z) := v in (s *! x, s *! y, s *! z).
  Definition cross3 (u v : vec3) : vec3 :=
    let '(u0, u1, u2) := u in let '(v0, v1, v2) := v in
    (u1 *! v2 -! u2 *! v1, u2 *! v0 -! u0 *! v2, u0 *! v1 -! u1 *! v0).
  Definition dot3 (u v : vec3) : T :=
    let '(u0, u1, u2) := u in let '(v0, v1, v2) := v in u0 *! v0 +! u1 *! v1 +! u2 *! v2.
  Definition volume3 (a0 a1 a2 : vec3) (n0 n1 n2 : Z) : T :=
    nabs o (dot3 (cross3 (vscale3 (zz n0) a0) (vscale3 (zz n1) a1)) (vscale3 (zz n2) a2)).
  Definition vec2 := (T * T)%type.
  Definition volume2 (a0 a1 : vec2) (n0 n1 : Z) : T :=
    let '(a00, a01) := a0 in let '(a10, a11) := a1 in
    nabs o ((zz n0 *! a00) *! (zz n1 *! a11) -! (zz n0 *! a01) *! (zz n1 *! a10)).

  (* -------------------------------------------------------------- _choose_weight_scheme, constant schemes *)
  Inductive scheme := Rectangle | Trapezoid | Alternative.
  (* value of every weight, given the box volume and the shape *)
  Definition const_weight (s : scheme) (vol : T) (shape : list Z) : T :=
    match s with
    | Rectangle => vol /! (none o *! zz (fold_right Z.mul 1%Z shape))
    | Trapezoid => vol /! fold_right (fun n acc => (zz n +! none o) *! acc) (none o) shape
    | Alternative =>
        (* _calculate_alternative_volume: volume * prod((shape - 1) / shape);  ones * alt_volume / prod(shape) *)
        (vol *! fold_right (fun n acc => ((zz n -! none o) /! zz n) *! acc) (none o) shape)
          /! zz (fold_right Z.mul 1%Z shape)
    end.
  Definition const_weights (s : scheme) (vol : T) (shape : list Z) : list T :=
    repeat (const_weight s vol shape) (Z.to_nat (fold_right Z.mul 1%Z shape)).
  Definition weights3 (s : scheme) (a0 a1 a2 : vec3) (n0 n1 n2 : Z) : list T :=
    const_weights s (volume3 a0 a1 a2 n0 n1 n2) [n0; n1; n2].
  Definition weights2 (s : scheme) (a0 a1 : vec2) (n0 n1 : Z) : list T :=
    const_weights s (volume2 a0 a1 n0 n1) [n0; n1].

  (* -------------------------------------------------------------- Grid.integrate: einsum("i,i", weights, values) *)
  Definition integrate (weights values : list T) : T := ndot weights values.

  (* -------------------------------------------------------------- UniformGrid.from_molecule, rotate=False
     one Cartesian direction at a time (axes = diag(spacing)):
       com    = dot(atcorenums, x) / sum(atcorenums)           (hand model: com_axis)
       shape, origin = generated from the source, as functions of com, max x, min x, spacing, extension    *)
  Definition lmax (l : list T) : T := match l with [] => nzero o | x :: r => fold_right (nmax o) x r end.
  Definition lmin (l : list T) : T := match l with [] => nzero o | x :: r => fold_right (nmin o) x r end.
  Definition com_axis (zs xs : list T) : T := ndot zs xs /! nsum zs.
  (* shape and origin of the box: GENERATED from the source (C13_gen.v: shape_axis_gen, origin_axis_gen) *)
  Definition shape_axis (zs xs : list T) (spacing ext : T) : Z :=
    shape_axis_gen o (com_axis zs xs) (lmax xs) (lmin xs) spacing ext.
  Definition origin_axis (zs xs : list T) (spacing ext : T) : T :=
    origin_axis_gen o (com_axis zs xs) (lmax xs) (lmin xs) spacing ext.
  (* distance from a nucleus at x to the first / last plane of grid points in this direction *)
  Definition margin_lo (zs xs : list T) (spacing ext x : T) : T := x -! origin_axis zs xs spacing ext.
  Definition margin_hi (zs xs : list T) (spacing ext x : T) : T :=
    (origin_axis zs xs spacing ext +! zz (shape_axis zs xs spacing ext - 1) *! spacing) -! x.

  (* -------------------------------------------------------------- UniformGrid.closest_point(which="closest")
     only for a diagonal axes matrix (otherwise ValueError); the integer coordinate of one direction is GENERATED
     from the source (C13_gen.v: closest_coord_gen p orig d n)                                               *)
  Definition closest3 (orig : vec3) (d0 d1 d2 : T) (n0 n1 n2 : Z) (p : vec3) : Z * Z * Z * Z :=
    let '(o0, o1, o2) := orig in let '(p0, p1, p2) := p in
    let c0 := closest_coord_gen o p0 o0 d0 n0 in let c1 := closest_coord_gen o p1 o1 d1 n1 in
    let c2 := closest_coord_gen o p2 o2 d2 n2 in
    (c0, c1, c2, coordinates_to_index3 n0 n1 n2 c0 c1 c2).
  Definition closest2 (orig : vec2) (d0 d1 : T) (n0 n1 : Z) (p : vec2) : Z * Z * Z :=
    let '(o0, o1) := orig in let '(p0, p1) := p in
    let c0 := closest_coord_gen o p0 o0 d0 n0 in let c1 := closest_coord_gen o p1 o1 d1 n1 in
    (c0, c1, coordinates_to_index2 n0 n1 c0 c1).
End Num.

(* ------------------------------------------------------------------ Fourier schemes (real numbers only) *)
Open Scope R_scope.
Definition sumR (l : list R) : R := fold_right Rplus 0 l.
Definition zrange1 (n : nat) : list Z := map Z.of_nat (seq 1 n).     (* 1..n *)

(* Fourier1, one direction: weight_dir[i-1] = sum_{p=1..n} sin(i p pi/(n+1)) (1-cos(p pi))/(p pi), i = 1..n *)
Definition fourier1_dir (n : Z) (i : Z) : R :=
  sumR (map (fun p => sin (IZR (i * p) * PI / (IZR n + 1)) * ((1 - cos (IZR p * PI)) / (IZR p * PI)))
            (zrange1 (Z.to_nat n))).
Definition fourier1_weights3 (vol : R) (n0 n1 n2 : Z) : list R :=
  lex3 (fun i j k => 2 ^ 3 * vol / ((IZR n0 + 1) * ((IZR n1 + 1) * ((IZR n2 + 1) * 1)))
                     * fourier1_dir n0 (i + 1) * fourier1_dir n1 (j + 1) * fourier1_dir n2 (k + 1))
       (Z.to_nat n0) (Z.to_nat n1) (Z.to_nat n2).
Definition fourier1_weights2 (vol : R) (n0 n1 : Z) : list R :=
  lex2 (fun i j => 2 ^ 2 * vol / ((IZR n0 + 1) * ((IZR n1 + 1) * 1))
                   * fourier1_dir n0 (i + 1) * fourier1_dir n1 (j + 1))
       (Z.to_nat n0) (Z.to_nat n1).

(* Fourier2, one direction (i = 1..n):
   4 * sum_{p=1..n-1} sin((2 i - 1)/n * p * pi) * sin(p pi/2)^2 / p / (pi n)
   + 2 sin(pi n/2)^2 sin((i - 0.5) pi) / (n^2 pi)                                                        *)
Definition fourier2_dir (n : Z) (i : Z) : R :=
  4 * sumR (map (fun p => sin ((2 * IZR i - 1) / IZR n * IZR p * PI) * ((sin (IZR p * PI / 2)) ^ 2 / IZR p))
                (zrange1 (Z.to_nat (n - 1)))) / (PI * IZR n)
  + 2 * (sin (PI * IZR n / 2)) ^ 2 * sin ((IZR i - 1 / 2) * PI) / ((IZR n) ^ 2 * PI).
Definition alt_volume (vol : R) (shape : list Z) : R :=
  vol * fold_right (fun n acc => ((IZR n - 1) / IZR n) * acc) 1 shape.
(* 3-D: einsum("ijk,i,j,k->ijk", ones, wx, wy, wz) * alt_volume.
   2-D: either einsum("ij,i,j->ij", ones, wx, wy) * alt_volume, or - when the code reads shape[2] - IndexError
   (modelled as None); which one applies is the flag fourier2_2d_ok of C13_gen.v, decided on every run by a directed
   witness (constructing the 4x4 grid) and validated by the correspondence on all other 2-D shapes. *)
Definition fourier2_weights3 (vol : R) (n0 n1 n2 : Z) : list R :=
  lex3 (fun i j k => 1 * fourier2_dir n0 (i + 1) * fourier2_dir n1 (j + 1) * fourier2_dir n2 (k + 1)
                     * alt_volume vol [n0; n1; n2])
       (Z.to_nat n0) (Z.to_nat n1) (Z.to_nat n2).
Definition fourier2_weights2 (vol : R) (n0 n1 : Z) : list R :=
  lex2 (fun i j => 1 * fourier2_dir n0 (i + 1) * fourier2_dir n1 (j + 1) * alt_volume vol [n0; n1])
       (Z.to_nat n0) (Z.to_nat n1).
Definition fourier2_weights (vol : R) (shape : list Z) : option (list R) :=
  match shape with
  | [n0; n1; n2] => Some (fourier2_weights3 vol n0 n1 n2)
  | [n0; n1] => if fourier2_2d_ok then Some (fourier2_weights2 vol n0 n1) else None
  | _ => None
  end.

(* ------------------------------------------------------------------ cube file data block: 6 values per line *)
Fixpoint chunks {A} (fuel : nat) (m : nat) (l : list A) : list (list A) :=
  match fuel with
  | O => []
  | S f => match l with [] => [] | _ => firstn m l :: chunks f m (skipn m l) end
  end.
Definition cube_rows {A} (data : list A) : list (list A) := chunks (length data) 6 data.
Definition cube_read {A} (rows : list (list A)) : list A := concat rows.

(* ------------------------------------------------------------------ execution helpers for the correspondence cases *)
Definition zadd3 (a b : Z * Z * Z) : Z * Z * Z :=
  let '(a0, a1, a2) := a in let '(b0, b1, b2) := b in (a0 + b0, a1 + b1, a2 + b2)%Z.
Definition zsmul3 (s : Z) (a : Z * Z * Z) : Z * Z * Z := let '(a0, a1, a2) := a in (s * a0, s * a1, s * a2)%Z.
Definition zadd2 (a b : Z * Z) : Z * Z := let '(a0, a1) := a in let '(b0, b1) := b in (a0 + b0, a1 + b1)%Z.
Definition zsmul2 (s : Z) (a : Z * Z) : Z * Z := let '(a0, a1) := a in (s * a0, s * a1)%Z.
Definition z3eqb (a b : Z * Z * Z) : bool :=
  let '(a0, a1, a2) := a in let '(b0, b1, b2) := b in ((a0 =? b0) && (a1 =? b1) && (a2 =? b2))%Z.
Definition z2eqb (a b : Z * Z) : bool := let '(a0, a1) := a in let '(b0, b1) := b in ((a0 =? b0) && (a1 =? b1))%Z.
Fixpoint list_eqb {A} (eqb : A -> A -> bool) (a b : list A) : bool :=
  match a, b with [] , [] => true | x :: r, y :: s => eqb x y && list_eqb eqb r s | _, _ => false end.
Definition oz3eqb (a b : option (Z * Z * Z)) : bool :=
  match a, b with Some x, Some y => z3eqb x y | None, None => true | _, _ => false end.
Definition oz2eqb (a b : option (Z * Z)) : bool :=
  match a, b with Some x, Some y => z2eqb x y | None, None => true | _, _ => false end.
(* |a - b| <= tol * max(1, |b|) on exact rationals *)
Definition Qclose (tol a b : Q) : bool := Qle_bool (Qabs (a - b)) (tol * Qmax 1 (Qabs b)).
(* exhaustive index-map check for one shape against the implementation's answers:
   fwd = flat indices returned for all (i,j,k) in lexicographic order; bwd = coordinates returned for 0..N-1 *)
Definition check_index3 (n0 n1 n2 : Z) (fwd : list Z) (bwd : list (option (Z * Z * Z))) : bool :=
  list_eqb Z.eqb (lex3 (coordinates_to_index3 n0 n1 n2) (Z.to_nat n0) (Z.to_nat n1) (Z.to_nat n2)) fwd &&
  list_eqb oz3eqb (map (index_to_coordinates3 n0 n1 n2) (zrange (length bwd))) bwd.
Definition check_index2 (n0 n1 : Z) (fwd : list Z) (bwd : list (option (Z * Z))) : bool :=
  list_eqb Z.eqb (lex2 (coordinates_to_index2 n0 n1) (Z.to_nat n0) (Z.to_nat n1)) fwd &&
  list_eqb oz2eqb (map (index_to_coordinates2 n0 n1) (zrange (length bwd))) bwd.
