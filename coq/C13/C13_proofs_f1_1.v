(* C13 (3): Fourier1 per-direction factor f1s n enclosed by interval arithmetic on its closed form, n in [2, 15, 18, 31, 34, 47, 50, 63]
   (file generated once by a script, split for parallel compilation; independent of /repo). *)
From Coq Require Import ZArith List Lia Reals Lra.
From Interval Require Import Tactic.
From Flocq Require Import Raux.
From P Require Import C13_gen C13_model C13_proofs_weights C13_proofs_f1c.
Open Scope R_scope.

Lemma f1s_bound_2 : 1 - / IZR 2 <= f1s 2 <= 1.
Proof.
  rewrite f1s_closed_form by (clear; lia).
  assert (H : Rabs (f1s_closed 2 - (1 - / IZR 2 / 2)) <= / IZR 2 / 2).
  { unfold f1s_closed, f1_term, sumR. ev. interval. }
  apply Rabs_le_inv in H. lra.
Qed.

Lemma f1s_bound_15 : 1 - / IZR 15 <= f1s 15 <= 1.
Proof.
  rewrite f1s_closed_form by (clear; lia).
  assert (H : Rabs (f1s_closed 15 - (1 - / IZR 15 / 2)) <= / IZR 15 / 2).
  { unfold f1s_closed, f1_term, sumR. ev. interval. }
  apply Rabs_le_inv in H. lra.
Qed.

Lemma f1s_bound_18 : 1 - / IZR 18 <= f1s 18 <= 1.
Proof.
  rewrite f1s_closed_form by (clear; lia).
  assert (H : Rabs (f1s_closed 18 - (1 - / IZR 18 / 2)) <= / IZR 18 / 2).
  { unfold f1s_closed, f1_term, sumR. ev. interval. }
  apply Rabs_le_inv in H. lra.
Qed.

Lemma f1s_bound_31 : 1 - / IZR 31 <= f1s 31 <= 1.
Proof.
  rewrite f1s_closed_form by (clear; lia).
  assert (H : Rabs (f1s_closed 31 - (1 - / IZR 31 / 2)) <= / IZR 31 / 2).
  { unfold f1s_closed, f1_term, sumR. ev. interval. }
  apply Rabs_le_inv in H. lra.
Qed.

Lemma f1s_bound_34 : 1 - / IZR 34 <= f1s 34 <= 1.
Proof.
  rewrite f1s_closed_form by (clear; lia).
  assert (H : Rabs (f1s_closed 34 - (1 - / IZR 34 / 2)) <= / IZR 34 / 2).
  { unfold f1s_closed, f1_term, sumR. ev. interval. }
  apply Rabs_le_inv in H. lra.
Qed.

Lemma f1s_bound_47 : 1 - / IZR 47 <= f1s 47 <= 1.
Proof.
  rewrite f1s_closed_form by (clear; lia).
  assert (H : Rabs (f1s_closed 47 - (1 - / IZR 47 / 2)) <= / IZR 47 / 2).
  { unfold f1s_closed, f1_term, sumR. ev. interval. }
  apply Rabs_le_inv in H. lra.
Qed.

Lemma f1s_bound_50 : 1 - / IZR 50 <= f1s 50 <= 1.
Proof.
  rewrite f1s_closed_form by (clear; lia).
  assert (H : Rabs (f1s_closed 50 - (1 - / IZR 50 / 2)) <= / IZR 50 / 2).
  { unfold f1s_closed, f1_term, sumR. ev. interval. }
  apply Rabs_le_inv in H. lra.
Qed.

Lemma f1s_bound_63 : 1 - / IZR 63 <= f1s 63 <= 1.
Proof.
  rewrite f1s_closed_form by (clear; lia).
  assert (H : Rabs (f1s_closed 63 - (1 - / IZR 63 / 2)) <= / IZR 63 / 2).
  { unfold f1s_closed, f1_term, sumR. ev. interval. }
  apply Rabs_le_inv in H. lra.
Qed.
