(* C13 (3): Fourier1 per-direction factor f1s n enclosed by interval arithmetic, n in [7, 10, 18, 31]
   (file generated once by a script, split for parallel compilation; independent of /repo). *)
From Coq Require Import ZArith List Reals Lra.
From Interval Require Import Tactic.
From Flocq Require Import Raux.
From P Require Import C13_gen C13_model C13_proofs_weights.
Open Scope R_scope.

Lemma f1s_bound_7 : 1 - / IZR 7 <= f1s 7 <= 1.
Proof.
  assert (H : Rabs (f1s 7 - (1 - / IZR 7 / 2)) <= / IZR 7 / 2).
  { unfold f1s, fourier1_dir, sumR. ev. interval. }
  apply Rabs_le_inv in H. lra.
Qed.

Lemma f1s_bound_10 : 1 - / IZR 10 <= f1s 10 <= 1.
Proof.
  assert (H : Rabs (f1s 10 - (1 - / IZR 10 / 2)) <= / IZR 10 / 2).
  { unfold f1s, fourier1_dir, sumR. ev. interval. }
  apply Rabs_le_inv in H. lra.
Qed.

Lemma f1s_bound_18 : 1 - / IZR 18 <= f1s 18 <= 1.
Proof.
  assert (H : Rabs (f1s 18 - (1 - / IZR 18 / 2)) <= / IZR 18 / 2).
  { unfold f1s, fourier1_dir, sumR. ev. interval. }
  apply Rabs_le_inv in H. lra.
Qed.

Lemma f1s_bound_31 : 1 - / IZR 31 <= f1s 31 <= 1.
Proof.
  assert (H : Rabs (f1s 31 - (1 - / IZR 31 / 2)) <= / IZR 31 / 2).
  { unfold f1s, fourier1_dir, sumR. ev. interval. }
  apply Rabs_le_inv in H. lra.
Qed.
