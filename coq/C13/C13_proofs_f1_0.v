(* C13 (3): Fourier1 per-direction factor f1s n enclosed by interval arithmetic on its closed form, n in [1, 16, 17, 32, 33, 48, 49, 64]
   (file generated once by a script, split for parallel compilation; independent of /repo). *)
From Coq Require Import ZArith List Lia Reals Lra.
From Interval Require Import Tactic.
From Flocq Require Import Raux.
From P Require Import C13_gen C13_model C13_proofs_weights C13_proofs_f1c.
Open Scope R_scope.

Lemma f1s_bound_1 : 1 - / IZR 1 <= f1s 1 <= 1.
Proof.
  rewrite f1s_closed_form by (clear; lia).
  assert (H : Rabs (f1s_closed 1 - (1 - / IZR 1 / 2)) <= / IZR 1 / 2).
  { unfold f1s_closed, f1_term, sumR. ev. interval. }
  apply Rabs_le_inv in H. lra.
Qed.

Lemma f1s_bound_16 : 1 - / IZR 16 <= f1s 16 <= 1.
Proof.
  rewrite f1s_closed_form by (clear; lia).
  assert (H : Rabs (f1s_closed 16 - (1 - / IZR 16 / 2)) <= / IZR 16 / 2).
  { unfold f1s_closed, f1_term, sumR. ev. interval. }
  apply Rabs_le_inv in H. lra.
Qed.

Lemma f1s_bound_17 : 1 - / IZR 17 <= f1s 17 <= 1.
Proof.
  rewrite f1s_closed_form by (clear; lia).
  assert (H : Rabs (f1s_closed 17 - (1 - / IZR 17 / 2)) <= / IZR 17 / 2).
  { unfold f1s_closed, f1_term, sumR. ev. interval. }
  apply Rabs_le_inv in H. lra.
Qed.

Lemma f1s_bound_32 : 1 - / IZR 32 <= f1s 32 <= 1.
Proof.
  rewrite f1s_closed_form by (clear; lia).
  assert (H : Rabs (f1s_closed 32 - (1 - / IZR 32 / 2)) <= / IZR 32 / 2).
  { unfold f1s_closed, f1_term, sumR. ev. interval. }
  apply Rabs_le_inv in H. lra.
Qed.

Lemma f1s_bound_33 : 1 - / IZR 33 <= f1s 33 <= 1.
Proof.
  rewrite f1s_closed_form by (clear; lia).
  assert (H : Rabs (f1s_closed 33 - (1 - / IZR 33 / 2)) <= / IZR 33 / 2).
  { unfold f1s_closed, f1_term, sumR. ev. interval. }
  apply Rabs_le_inv in H. lra.
Qed.

Lemma f1s_bound_48 : 1 - / IZR 48 <= f1s 48 <= 1.
Proof.
  rewrite f1s_closed_form by (clear; lia).
  assert (H : Rabs (f1s_closed 48 - (1 - / IZR 48 / 2)) <= / IZR 48 / 2).
  { unfold f1s_closed, f1_term, sumR. ev. interval. }
  apply Rabs_le_inv in H. lra.
Qed.

Lemma f1s_bound_49 : 1 - / IZR 49 <= f1s 49 <= 1.
Proof.
  rewrite f1s_closed_form by (clear; lia).
  assert (H : Rabs (f1s_closed 49 - (1 - / IZR 49 / 2)) <= / IZR 49 / 2).
  { unfold f1s_closed, f1_term, sumR. ev. interval. }
  apply Rabs_le_inv in H. lra.
Qed.

Lemma f1s_bound_64 : 1 - / IZR 64 <= f1s 64 <= 1.
Proof.
  rewrite f1s_closed_form by (clear; lia).
  assert (H : Rabs (f1s_closed 64 - (1 - / IZR 64 / 2)) <= / IZR 64 / 2).
  { unfold f1s_closed, f1_term, sumR. ev. interval. }
  apply Rabs_le_inv in H. lra.
Qed.
