(* C13 (3): Fourier1 per-direction factor f1s n enclosed by interval arithmetic, n in [5, 9, 17, 32]
   (file generated once by a script, split for parallel compilation; independent of /repo). *)
From Coq Require Import ZArith List Reals Lra.
From Interval Require Import Tactic.
From Flocq Require Import Raux.
From P Require Import C13_gen C13_model C13_proofs_weights.
Open Scope R_scope.

Lemma f1s_bound_5 : 1 - / IZR 5 <= f1s 5 <= 1.
Proof.
  assert (H : Rabs (f1s 5 - (1 - / IZR 5 / 2)) <= / IZR 5 / 2).
  { unfold f1s, fourier1_dir, sumR. ev. interval. }
  apply Rabs_le_inv in H. lra.
Qed.

Lemma f1s_bound_9 : 1 - / IZR 9 <= f1s 9 <= 1.
Proof.
  assert (H : Rabs (f1s 9 - (1 - / IZR 9 / 2)) <= / IZR 9 / 2).
  { unfold f1s, fourier1_dir, sumR. ev. interval. }
  apply Rabs_le_inv in H. lra.
Qed.

Lemma f1s_bound_17 : 1 - / IZR 17 <= f1s 17 <= 1.
Proof.
  assert (H : Rabs (f1s 17 - (1 - / IZR 17 / 2)) <= / IZR 17 / 2).
  { unfold f1s, fourier1_dir, sumR. ev. interval. }
  apply Rabs_le_inv in H. lra.
Qed.

Lemma f1s_bound_32 : 1 - / IZR 32 <= f1s 32 <= 1.
Proof.
  assert (H : Rabs (f1s 32 - (1 - / IZR 32 / 2)) <= / IZR 32 / 2).
  { unfold f1s, fourier1_dir, sumR. ev. interval. }
  apply Rabs_le_inv in H. lra.
Qed.
