(* C13 (3): Fourier1 per-direction factor f1s n enclosed by interval arithmetic on its closed form, n in [6, 11, 22, 27, 38, 43, 54, 59]
   (file generated once by a script, split for parallel compilation; independent of /repo). *)
From Coq Require Import ZArith List Lia Reals Lra.
From Interval Require Import Tactic.
From Flocq Require Import Raux.
From P Require Import C13_gen C13_model C13_proofs_weights C13_proofs_f1c.
Open Scope R_scope.

Lemma f1s_bound_6 : 1 - / IZR 6 <= f1s 6 <= 1.
Proof.
  rewrite f1s_closed_form by (clear; lia).
  assert (H : Rabs (f1s_closed 6 - (1 - / IZR 6 / 2)) <= / IZR 6 / 2).
  { unfold f1s_closed, f1_term, sumR. ev. interval. }
  apply Rabs_le_inv in H. lra.
Qed.

Lemma f1s_bound_11 : 1 - / IZR 11 <= f1s 11 <= 1.
Proof.
  rewrite f1s_closed_form by (clear; lia).
  assert (H : Rabs (f1s_closed 11 - (1 - / IZR 11 / 2)) <= / IZR 11 / 2).
  { unfold f1s_closed, f1_term, sumR. ev. interval. }
  apply Rabs_le_inv in H. lra.
Qed.

Lemma f1s_bound_22 : 1 - / IZR 22 <= f1s 22 <= 1.
Proof.
  rewrite f1s_closed_form by (clear; lia).
  assert (H : Rabs (f1s_closed 22 - (1 - / IZR 22 / 2)) <= / IZR 22 / 2).
  { unfold f1s_closed, f1_term, sumR. ev. interval. }
  apply Rabs_le_inv in H. lra.
Qed.

Lemma f1s_bound_27 : 1 - / IZR 27 <= f1s 27 <= 1.
Proof.
  rewrite f1s_closed_form by (clear; lia).
  assert (H : Rabs (f1s_closed 27 - (1 - / IZR 27 / 2)) <= / IZR 27 / 2).
  { unfold f1s_closed, f1_term, sumR. ev. interval. }
  apply Rabs_le_inv in H. lra.
Qed.

Lemma f1s_bound_38 : 1 - / IZR 38 <= f1s 38 <= 1.
Proof.
  rewrite f1s_closed_form by (clear; lia).
  assert (H : Rabs (f1s_closed 38 - (1 - / IZR 38 / 2)) <= / IZR 38 / 2).
  { unfold f1s_closed, f1_term, sumR. ev. interval. }
  apply Rabs_le_inv in H. lra.
Qed.

Lemma f1s_bound_43 : 1 - / IZR 43 <= f1s 43 <= 1.
Proof.
  rewrite f1s_closed_form by (clear; lia).
  assert (H : Rabs (f1s_closed 43 - (1 - / IZR 43 / 2)) <= / IZR 43 / 2).
  { unfold f1s_closed, f1_term, sumR. ev. interval. }
  apply Rabs_le_inv in H. lra.
Qed.

Lemma f1s_bound_54 : 1 - / IZR 54 <= f1s 54 <= 1.
Proof.
  rewrite f1s_closed_form by (clear; lia).
  assert (H : Rabs (f1s_closed 54 - (1 - / IZR 54 / 2)) <= / IZR 54 / 2).
  { unfold f1s_closed, f1_term, sumR. ev. interval. }
  apply Rabs_le_inv in H. lra.
Qed.

Lemma f1s_bound_59 : 1 - / IZR 59 <= f1s 59 <= 1.
Proof.
  rewrite f1s_closed_form by (clear; lia).
  assert (H : Rabs (f1s_closed 59 - (1 - / IZR 59 / 2)) <= / IZR 59 / 2).
  { unfold f1s_closed, f1_term, sumR. ev. interval. }
  apply Rabs_le_inv in H. lra.
Qed.
