(* C13 (3): Fourier1 per-direction factor f1s n enclosed by interval arithmetic, n in [3, 14, 22, 27]
   (file generated once by a script, split for parallel compilation; independent of /repo). *)
From Coq Require Import ZArith List Reals Lra.
From Interval Require Import Tactic.
From Flocq Require Import Raux.
From P Require Import C13_gen C13_model C13_proofs_weights.
Open Scope R_scope.

Lemma f1s_bound_3 : 1 - / IZR 3 <= f1s 3 <= 1.
Proof.
  assert (H : Rabs (f1s 3 - (1 - / IZR 3 / 2)) <= / IZR 3 / 2).
  { unfold f1s, fourier1_dir, sumR. ev. interval. }
  apply Rabs_le_inv in H. lra.
Qed.

Lemma f1s_bound_14 : 1 - / IZR 14 <= f1s 14 <= 1.
Proof.
  assert (H : Rabs (f1s 14 - (1 - / IZR 14 / 2)) <= / IZR 14 / 2).
  { unfold f1s, fourier1_dir, sumR. ev. interval. }
  apply Rabs_le_inv in H. lra.
Qed.

Lemma f1s_bound_22 : 1 - / IZR 22 <= f1s 22 <= 1.
Proof.
  assert (H : Rabs (f1s 22 - (1 - / IZR 22 / 2)) <= / IZR 22 / 2).
  { unfold f1s, fourier1_dir, sumR. ev. interval. }
  apply Rabs_le_inv in H. lra.
Qed.

Lemma f1s_bound_27 : 1 - / IZR 27 <= f1s 27 <= 1.
Proof.
  assert (H : Rabs (f1s 27 - (1 - / IZR 27 / 2)) <= / IZR 27 / 2).
  { unfold f1s, fourier1_dir, sumR. ev. interval. }
  apply Rabs_le_inv in H. lra.
Qed.
