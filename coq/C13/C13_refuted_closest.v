(* Compiled to explain a failure of closest_is_nearest (C13_props_closestfull.v): with the coordinate computation
   generated from closest_point at the pinned commit (step = norm of the axis, no clipping) the property is false.
   This file is expected NOT to compile once closest_point is repaired. *)
From Coq Require Import ZArith List Lia Reals Lra.
From Flocq Require Import Raux Generic_fmt.
From P Require Import C13_num C13_gen C13_model C13_proofs_box.
Import ListNotations.
Open Scope R_scope.

(* outside the hypotheses of closest_is_nearest3_partial the query is wrong:
   (a) an orthogonal axis pointing in the negative direction: the grid node (1,0,0) of the 3x3x3 grid with
       axes diag(-1,1,1) is mapped to coordinates (-1,0,0), flat index -9 (the node has index 9);
   (b) a query point outside the box: on the 3x4x5 unit grid the point (0,0,7) is mapped to flat index 7,
       which is the node (0,1,2) at squared distance 26, while the node (0,0,4) is at squared distance 9. *)
Lemma rint_IZR (n : Z) (x : R) : x = IZR n -> rint x = n.
Proof.
  intros ->. apply Znearest_imp. replace (IZR n - IZR n) with 0 by ring. rewrite Rabs_R0. lra.
Qed.

Lemma closest_refuted_lemma :
  (closest3 ROps (0, 0, 0) (-1) 1 1 3 3 3 (node3 (0, 0, 0) (-1) 1 1 1 0 0) = (-1, 0, 0, -9)%Z /\
   coordinates_to_index3 3 3 3 1 0 0 = 9%Z) /\
  (closest3 ROps (0, 0, 0) 1 1 1 3 4 5 (0, 0, 7) = (0, 0, 7, coordinates_to_index3 3 4 5 0 1 2)%Z /\
   dist2_3 (0, 0, 7) (node3 (0, 0, 0) 1 1 1 0 0 4) < dist2_3 (0, 0, 7) (node3 (0, 0, 0) 1 1 1 0 1 2)).
Proof.
  assert (A1 : Rabs (-1) = 1) by (rewrite Rabs_left; lra).
  assert (A2 : Rabs 1 = 1) by (apply Rabs_pos_eq; lra).
  unfold closest3, closest_coord_gen, node3, dist2_3. cbn [ROps nsub ndiv nabs nrint]. rewrite A1, A2.
  rewrite (rint_IZR (-1) ((0 + 1 * -1 - 0) / 1)) by lra.
  rewrite (rint_IZR 0 ((0 + 0 * 1 - 0) / 1)) by lra.
  rewrite (rint_IZR 0 ((0 - 0) / 1)) by lra.
  rewrite (rint_IZR 7 ((7 - 0) / 1)) by lra.
  repeat split. lra.
Qed.
