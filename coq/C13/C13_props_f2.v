(* C13 property theorems, part 3b: Fourier2 (statements only; proofs are in C13_proofs_*.v).
   coordinates_to_index{2,3} / index_to_coordinates{2,3} are GENERATED from src/grid/cubic.py on every run.
   The obligations are spread over C13_props*.v so that Print Assumptions runs in parallel. *)
From Coq Require Import ZArith List Reals.
From Flocq Require Import Raux Generic_fmt.
From P Require Import C13_gen C13_model C13_proofs_weights.
Import ListNotations.

(* the scheme "Fourier2" violates the bound (weights sum to ~0 on the 4x4x4 unit grid) ... *)
Theorem fourier2_refuted :
  exists n0 n1 n2 : Z, (1 <= n0)%Z /\ (1 <= n1)%Z /\ (1 <= n2)%Z /\
    (let vol := volume3 ROps (1, 0, 0) (0, 1, 0) (0, 0, 1) n0 n1 n2 in
    vol <> 0 /\
    ~ Rabs (sumR (fourier2_weights3 vol n0 n1 n2) / vol - 1) <= 1 / IZR n0 + 1 / IZR n1 + 1 / IZR n2)%R.
Proof. exact fourier2_refuted_lemma. Qed.
Print Assumptions fourier2_refuted.

(* constructibility in two dimensions: fourier2_2d_constructs in C13_props_f2d.v (refutation: C13_refuted_f2d.v) *)
