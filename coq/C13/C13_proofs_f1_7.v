(* C13 (3): Fourier1 per-direction factor f1s n enclosed by interval arithmetic on its closed form, n in [8, 9, 24, 25, 40, 41, 56, 57]
   (file generated once by a script, split for parallel compilation; independent of /repo). *)
From Coq Require Import ZArith List Lia Reals Lra.
From Interval Require Import Tactic.
From Flocq Require Import Raux.
From P Require Import C13_gen C13_model C13_proofs_weights C13_proofs_f1c.
Open Scope R_scope.

Lemma f1s_bound_8 : 1 - / IZR 8 <= f1s 8 <= 1.
Proof.
  rewrite f1s_closed_form by (clear; lia).
  assert (H : Rabs (f1s_closed 8 - (1 - / IZR 8 / 2)) <= / IZR 8 / 2).
  { unfold f1s_closed, f1_term, sumR. ev. interval. }
  apply Rabs_le_inv in H. lra.
Qed.

Lemma f1s_bound_9 : 1 - / IZR 9 <= f1s 9 <= 1.
Proof.
  rewrite f1s_closed_form by (clear; lia).
  assert (H : Rabs (f1s_closed 9 - (1 - / IZR 9 / 2)) <= / IZR 9 / 2).
  { unfold f1s_closed, f1_term, sumR. ev. interval. }
  apply Rabs_le_inv in H. lra.
Qed.

Lemma f1s_bound_24 : 1 - / IZR 24 <= f1s 24 <= 1.
Proof.
  rewrite f1s_closed_form by (clear; lia).
  assert (H : Rabs (f1s_closed 24 - (1 - / IZR 24 / 2)) <= / IZR 24 / 2).
  { unfold f1s_closed, f1_term, sumR. ev. interval. }
  apply Rabs_le_inv in H. lra.
Qed.

Lemma f1s_bound_25 : 1 - / IZR 25 <= f1s 25 <= 1.
Proof.
  rewrite f1s_closed_form by (clear; lia).
  assert (H : Rabs (f1s_closed 25 - (1 - / IZR 25 / 2)) <= / IZR 25 / 2).
  { unfold f1s_closed, f1_term, sumR. ev. interval. }
  apply Rabs_le_inv in H. lra.
Qed.

Lemma f1s_bound_40 : 1 - / IZR 40 <= f1s 40 <= 1.
Proof.
  rewrite f1s_closed_form by (clear; lia).
  assert (H : Rabs (f1s_closed 40 - (1 - / IZR 40 / 2)) <= / IZR 40 / 2).
  { unfold f1s_closed, f1_term, sumR. ev. interval. }
  apply Rabs_le_inv in H. lra.
Qed.

Lemma f1s_bound_41 : 1 - / IZR 41 <= f1s 41 <= 1.
Proof.
  rewrite f1s_closed_form by (clear; lia).
  assert (H : Rabs (f1s_closed 41 - (1 - / IZR 41 / 2)) <= / IZR 41 / 2).
  { unfold f1s_closed, f1_term, sumR. ev. interval. }
  apply Rabs_le_inv in H. lra.
Qed.

Lemma f1s_bound_56 : 1 - / IZR 56 <= f1s 56 <= 1.
Proof.
  rewrite f1s_closed_form by (clear; lia).
  assert (H : Rabs (f1s_closed 56 - (1 - / IZR 56 / 2)) <= / IZR 56 / 2).
  { unfold f1s_closed, f1_term, sumR. ev. interval. }
  apply Rabs_le_inv in H. lra.
Qed.

Lemma f1s_bound_57 : 1 - / IZR 57 <= f1s 57 <= 1.
Proof.
  rewrite f1s_closed_form by (clear; lia).
  assert (H : Rabs (f1s_closed 57 - (1 - / IZR 57 / 2)) <= / IZR 57 / 2).
  { unfold f1s_closed, f1_term, sumR. ev. interval. }
  apply Rabs_le_inv in H. lra.
Qed.
