(* C13 (3): Fourier1 per-direction factor f1s n enclosed by interval arithmetic, n in [16, 24, 25]
   (file generated once by a script, split for parallel compilation; independent of /repo). *)
From Coq Require Import ZArith List Reals Lra.
From Interval Require Import Tactic.
From Flocq Require Import Raux.
From P Require Import C13_gen C13_model C13_proofs_weights.
Open Scope R_scope.

Lemma f1s_bound_16 : 1 - / IZR 16 <= f1s 16 <= 1.
Proof.
  assert (H : Rabs (f1s 16 - (1 - / IZR 16 / 2)) <= / IZR 16 / 2).
  { unfold f1s, fourier1_dir, sumR. ev. interval. }
  apply Rabs_le_inv in H. lra.
Qed.

Lemma f1s_bound_24 : 1 - / IZR 24 <= f1s 24 <= 1.
Proof.
  assert (H : Rabs (f1s 24 - (1 - / IZR 24 / 2)) <= / IZR 24 / 2).
  { unfold f1s, fourier1_dir, sumR. ev. interval. }
  apply Rabs_le_inv in H. lra.
Qed.

Lemma f1s_bound_25 : 1 - / IZR 25 <= f1s 25 <= 1.
Proof.
  assert (H : Rabs (f1s 25 - (1 - / IZR 25 / 2)) <= / IZR 25 / 2).
  { unfold f1s, fourier1_dir, sumR. ev. interval. }
  apply Rabs_le_inv in H. lra.
Qed.
