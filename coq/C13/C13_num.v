(* C13: the record of number operations shared by the generated definitions (C13_gen.v) and the hand models
   (C13_model.v): theorems are stated on the instance ROps (real numbers), the correspondence with the
   implementation is evaluated on the instance QOps (exact rationals; floats enter as exact dyadics).
   Repo-independent; no proofs in this file. *)
From Coq Require Import ZArith List Bool QArith Qround Qabs Qminmax Reals.
From Flocq Require Import Raux Generic_fmt.
Import ListNotations.

(* ------------------------------------------------------------------ numbers *)
Record NumOps (T : Type) := {
  nzero : T; none : T; nadd : T -> T -> T; nsub : T -> T -> T; nmul : T -> T -> T; ndiv : T -> T -> T;
  nabs : T -> T; nofZ : Z -> T; nmax : T -> T -> T; nmin : T -> T -> T;
  nceil : T -> Z;     (* np.ceil *)
  nrint : T -> Z      (* np.rint: nearest integer, ties to even *)
}.
Arguments nzero {T}. Arguments none {T}. Arguments nadd {T}. Arguments nsub {T}. Arguments nmul {T}.
Arguments ndiv {T}. Arguments nabs {T}. Arguments nofZ {T}. Arguments nmax {T}. Arguments nmin {T}.
Arguments nceil {T}. Arguments nrint {T}.

Definition ROps : NumOps R :=
  {| nzero := 0%R; none := 1%R; nadd := Rplus; nsub := Rminus; nmul := Rmult; ndiv := Rdiv; nabs := Rabs;
     nofZ := IZR; nmax := Rmax; nmin := Rmin; nceil := Zceil;
     nrint := Znearest (fun x => negb (Z.even x)) |}.

Definition Qrint (q : Q) : Z :=
  let f := Qfloor q in
  match Qcompare (q - inject_Z f) (1 # 2) with
  | Lt => f
  | Gt => (f + 1)%Z
  | Eq => if Z.even f then f else (f + 1)%Z
  end.
Definition QOps : NumOps Q :=
  {| nzero := 0%Q; none := 1%Q; nadd := fun a b => Qred (Qplus a b); nsub := fun a b => Qred (Qminus a b);
     nmul := fun a b => Qred (Qmult a b); ndiv := fun a b => Qred (Qdiv a b); nabs := Qabs;
     nofZ := inject_Z; nmax := Qmax; nmin := Qmin; nceil := Qceiling; nrint := Qrint |}.
