(* C13 (6): nested-spline interpolation reproduces tricubic polynomials and their partial derivatives.
   The 1-D spline is an ORACLE (Section variable): scipy's CubicSpline(nodes, values)(x, nu).  Its only assumed
   property - exactness on cubic polynomials when there are at least four nodes - is validated numerically by the
   harness on every run.  The model of `_HyperRectangleGrid.interpolate(method="cubic", use_log=False)`:
     z_spline(i, j)   = spline over the interior z nodes of the values f(x_i, y_j, z_k), evaluated at z with nu_z
     y_spline(i)      = spline over the interior y nodes of the z_spline(i, j), evaluated at y with nu_y
     x_spline         = spline over the interior x nodes of the y_spline(i), evaluated at x with nu_x            *)
From Coq Require Import List Reals Lra Lia.
From Coquelicot Require Import Coquelicot.
Import ListNotations.
Open Scope R_scope.

Section Interp.
  (* nu-th derivative of the monomial t^c at t (c = 0..3), left abstract in the tensor argument *)
  Variable dmono : nat -> nat -> R -> R.
  Definition cubic (c0 c1 c2 c3 t : R) : R := c0 + c1 * t + c2 * t ^ 2 + c3 * t ^ 3.
  Definition dcubic (c0 c1 c2 c3 : R) (nu : nat) (t : R) : R :=
    c0 * dmono 0 nu t + c1 * dmono 1 nu t + c2 * dmono 2 nu t + c3 * dmono 3 nu t.

  Variable spline : list R -> list R -> R -> nat -> R.      (* nodes, values, evaluation point, derivative order *)
  Hypothesis spline_exact : forall (nodes : list R) c0 c1 c2 c3 t nu, (4 <= length nodes)%nat ->
    spline nodes (map (cubic c0 c1 c2 c3) nodes) t nu = dcubic c0 c1 c2 c3 nu t.

  Definition interpolate_model (xs ys zs : list R) (f : R -> R -> R -> R) (nx ny nz : nat) (x y z : R) : R :=
    spline xs (map (fun xi => spline ys (map (fun yj => spline zs (map (fun zk => f xi yj zk) zs) z nz) ys) y ny) xs) x nx.

  (* a polynomial of degree <= 3 in each variable, coefficients C a b c of x^a y^b z^c *)
  Variable C : nat -> nat -> nat -> R.
  Definition sum4 (g : nat -> R) : R := g 0%nat + g 1%nat + g 2%nat + g 3%nat.
  Definition tricubic (x y z : R) : R := sum4 (fun a => sum4 (fun b => sum4 (fun c => C a b c * x ^ a * y ^ b * z ^ c))).
  Definition dtricubic (nx ny nz : nat) (x y z : R) : R :=
    sum4 (fun a => sum4 (fun b => sum4 (fun c => C a b c * dmono a nx x * dmono b ny y * dmono c nz z))).

  Lemma tricubic_reproduced_lemma : forall xs ys zs nx ny nz x y z,
    (4 <= length xs)%nat -> (4 <= length ys)%nat -> (4 <= length zs)%nat ->
    interpolate_model xs ys zs tricubic nx ny nz x y z = dtricubic nx ny nz x y z.
  Proof.
    intros xs ys zs nx ny nz x y z Hx Hy Hz. unfold interpolate_model.
    (* innermost: along z *)
    assert (Ez : forall xi yj, spline zs (map (fun zk => tricubic xi yj zk) zs) z nz =
                 dcubic (sum4 (fun a => sum4 (fun b => C a b 0 * xi ^ a * yj ^ b)))
                        (sum4 (fun a => sum4 (fun b => C a b 1 * xi ^ a * yj ^ b)))
                        (sum4 (fun a => sum4 (fun b => C a b 2 * xi ^ a * yj ^ b)))
                        (sum4 (fun a => sum4 (fun b => C a b 3 * xi ^ a * yj ^ b))) nz z).
    { intros xi yj. rewrite <- (spline_exact zs) by exact Hz. f_equal. apply map_ext. intros zk.
      unfold tricubic, cubic, sum4. ring. }
    (* middle: along y *)
    assert (Ey : forall xi, spline ys (map (fun yj => spline zs (map (fun zk => tricubic xi yj zk) zs) z nz) ys) y ny =
                 dcubic (sum4 (fun a => sum4 (fun c => C a 0 c * xi ^ a * dmono c nz z)))
                        (sum4 (fun a => sum4 (fun c => C a 1 c * xi ^ a * dmono c nz z)))
                        (sum4 (fun a => sum4 (fun c => C a 2 c * xi ^ a * dmono c nz z)))
                        (sum4 (fun a => sum4 (fun c => C a 3 c * xi ^ a * dmono c nz z))) ny y).
    { intros xi. rewrite <- (spline_exact ys) by exact Hy. f_equal. apply map_ext. intros yj.
      rewrite Ez. unfold dcubic, cubic, sum4. ring. }
    (* outermost: along x *)
    rewrite (map_ext _ _ Ey).
    transitivity (dcubic (sum4 (fun b => sum4 (fun c => C 0 b c * dmono b ny y * dmono c nz z)))
                         (sum4 (fun b => sum4 (fun c => C 1 b c * dmono b ny y * dmono c nz z)))
                         (sum4 (fun b => sum4 (fun c => C 2 b c * dmono b ny y * dmono c nz z)))
                         (sum4 (fun b => sum4 (fun c => C 3 b c * dmono b ny y * dmono c nz z))) nx x).
    - rewrite <- (spline_exact xs) by exact Hx. f_equal. apply map_ext. intros xi.
      unfold dcubic, cubic, sum4. ring.
    - unfold dcubic, dtricubic, sum4. ring.
  Qed.
End Interp.

(* the concrete derivative of a monomial: dmono c nu t = c (c-1) ... (c-nu+1) t^(c-nu), 0 when nu > c *)
Fixpoint ffact (c nu : nat) : nat := match nu with O => 1%nat | S m => (c * ffact (c - 1) m)%nat end.
Definition dmono_std (c nu : nat) (t : R) : R := if Nat.leb nu c then INR (ffact c nu) * t ^ (c - nu) else 0.

Lemma dmono_std_0 c t : dmono_std c 0 t = t ^ c.
Proof. unfold dmono_std. cbn [Nat.leb ffact]. rewrite Nat.sub_0_r. simpl. lra. Qed.

Lemma dmono_std_is_derive c nu t : (c <= 3)%nat -> (nu <= 3)%nat ->
  is_derive (dmono_std c nu) t (dmono_std c (S nu) t).
Proof.
  intros Hc Hn.
  assert (Cc : (c = 0 \/ c = 1 \/ c = 2 \/ c = 3)%nat) by lia.
  assert (Cn : (nu = 0 \/ nu = 1 \/ nu = 2 \/ nu = 3)%nat) by lia.
  destruct Cc as [-> | [-> | [-> | ->]]], Cn as [-> | [-> | [-> | ->]]]; unfold dmono_std; cbn [Nat.leb ffact Nat.sub Nat.mul Nat.add];
    auto_derive; try exact I; simpl; ring.
Qed.

Lemma dmono_std_derivative_lemma : forall c nu t, (c <= 3)%nat -> (nu <= 3)%nat ->
  dmono_std c 0 t = t ^ c /\ is_derive (dmono_std c nu) t (dmono_std c (S nu) t).
Proof. intros c nu t Hc Hn. split; [apply dmono_std_0|now apply dmono_std_is_derive]. Qed.

(* with use_log=True the code interpolates g = log f and returns exp(g) times the complete Bell polynomial of the
   derivatives of g; orders 1..3 of that chain rule: *)
Lemma log_variant_chain_rule_lemma : forall (g g1 g2 g3 : R -> R) (x : R),
  (forall t, is_derive g t (g1 t)) -> (forall t, is_derive g1 t (g2 t)) -> (forall t, is_derive g2 t (g3 t)) ->
  let f := fun t => exp (g t) in
  let f1 := fun t => exp (g t) * g1 t in
  let f2 := fun t => exp (g t) * (g2 t + g1 t ^ 2) in
  let f3 := fun t => exp (g t) * (g3 t + 3 * g1 t * g2 t + g1 t ^ 3) in
  is_derive f x (f1 x) /\ is_derive f1 x (f2 x) /\ is_derive f2 x (f3 x).
Proof.
  intros g g1 g2 g3 x D1 D2 D3 f f1 f2 f3. unfold f, f1, f2, f3.
  assert (E0 : ex_derive g x) by (exists (g1 x); apply D1).
  assert (E1 : ex_derive g1 x) by (exists (g2 x); apply D2).
  assert (E2 : ex_derive g2 x) by (exists (g3 x); apply D3).
  split; [|split];
    (auto_derive; [repeat split; assumption |
      repeat match goal with |- context [Derive ?h x] =>
        first [ rewrite (is_derive_unique h x (g1 x) (D1 x)) | rewrite (is_derive_unique h x (g2 x) (D2 x))
              | rewrite (is_derive_unique h x (g3 x) (D3 x)) ] end; ring]).
Qed.
