(* C13 (3): weight schemes of UniformGrid._choose_weight_scheme. *)
From Coq Require Import ZArith List Lia Reals Lra.
From Interval Require Import Tactic.
From Flocq Require Import Raux.
From P Require Import C13_gen C13_model C13_proofs_index C13_proofs_layout.
Import ListNotations.
Open Scope R_scope.

Ltac ev := cbv -[IZR sin cos PI Rabs Rdiv Rminus Rplus Rmult Rinv Ropp Rle Rlt pow].

(* ------------------------------------------------------------------ elementary inequalities *)
Lemma prod_bound3 u v w : 0 <= u <= 1 -> 0 <= v <= 1 -> 0 <= w <= 1 ->
  Rabs ((1 - u) * (1 - v) * (1 - w) - 1) <= u + v + w.
Proof.
  intros Hu Hv Hw.
  assert (0 <= u * v) by (apply Rmult_le_pos; lra).
  assert (0 <= u * w) by (apply Rmult_le_pos; lra).
  assert (0 <= v * w) by (apply Rmult_le_pos; lra).
  assert (0 <= u * v * (1 - w)) by (apply Rmult_le_pos; lra).
  assert (0 <= (1 - u) * (1 - v)) by (apply Rmult_le_pos; lra).
  assert (0 <= (1 - u) * (1 - v) * (1 - w)) by (apply Rmult_le_pos; lra).
  assert ((1 - u) * (1 - v) <= 1) by nra.
  assert ((1 - u) * (1 - v) * (1 - w) <= 1) by nra.
  rewrite Rabs_left1 by lra.
  replace (- ((1 - u) * (1 - v) * (1 - w) - 1)) with (u + v + w - (u * w + v * w + u * v * (1 - w))) by ring.
  lra.
Qed.

Lemma prod_bound2 u v : 0 <= u <= 1 -> 0 <= v <= 1 -> Rabs ((1 - u) * (1 - v) - 1) <= u + v.
Proof.
  intros Hu Hv. pose proof (prod_bound3 u v 0 Hu Hv ltac:(lra)) as H.
  replace ((1 - u) * (1 - v) * (1 - 0)) with ((1 - u) * (1 - v)) in H by ring. lra.
Qed.

Lemma inv_bounds n : (1 <= n)%Z -> 0 <= / IZR n <= 1 /\ 0 <= / (IZR n + 1) <= / IZR n /\ 0 < IZR n.
Proof.
  intros H. apply IZR_le in H. assert (0 < IZR n) by lra.
  assert (0 < / IZR n) by (now apply Rinv_0_lt_compat).
  assert (/ IZR n <= 1) by (rewrite <- Rinv_1; apply Rinv_le_contravar; lra).
  assert (0 < / (IZR n + 1)) by (apply Rinv_0_lt_compat; lra).
  assert (/ (IZR n + 1) <= / IZR n) by (apply Rinv_le_contravar; lra).
  lra.
Qed.

Lemma sum_repeat (w : R) n : nsum ROps (repeat w n) = INR n * w.
Proof.
  unfold nsum. cbn [ROps nadd nzero]. induction n as [|n IH]; [cbn; lra|].
  cbn [repeat fold_right]. rewrite IH, S_INR. lra.
Qed.

Lemma INR_to_nat z : (0 <= z)%Z -> INR (Z.to_nat z) = IZR z.
Proof. intros. now rewrite INR_IZR_INZ, Z2Nat.id. Qed.

(* ------------------------------------------------------------------ constant schemes: sum of the weights over the volume *)
Lemma const_ratio3 s vol n0 n1 n2 : (1 <= n0)%Z -> (1 <= n1)%Z -> (1 <= n2)%Z -> vol <> 0 ->
  nsum ROps (const_weights ROps s vol [n0; n1; n2]) / vol =
  match s with
  | Rectangle => 1
  | Trapezoid => (1 - / (IZR n0 + 1)) * (1 - / (IZR n1 + 1)) * (1 - / (IZR n2 + 1))
  | Alternative => (1 - / IZR n0) * (1 - / IZR n1) * (1 - / IZR n2)
  end.
Proof.
  intros H0 H1 H2 Hv. unfold const_weights. rewrite sum_repeat.
  cbn [fold_right]. rewrite INR_to_nat by nia.
  destruct (inv_bounds n0 H0) as (_ & _ & P0), (inv_bounds n1 H1) as (_ & _ & P1), (inv_bounds n2 H2) as (_ & _ & P2).
  unfold const_weight, zz. cbn [ROps nadd nsub nmul ndiv none nofZ fold_right].
  rewrite !mult_IZR. destruct s; field; repeat split; lra.
Qed.

Lemma const_ratio2 s vol n0 n1 : (1 <= n0)%Z -> (1 <= n1)%Z -> vol <> 0 ->
  nsum ROps (const_weights ROps s vol [n0; n1]) / vol =
  match s with
  | Rectangle => 1
  | Trapezoid => (1 - / (IZR n0 + 1)) * (1 - / (IZR n1 + 1))
  | Alternative => (1 - / IZR n0) * (1 - / IZR n1)
  end.
Proof.
  intros H0 H1 Hv. unfold const_weights. rewrite sum_repeat.
  cbn [fold_right]. rewrite INR_to_nat by nia.
  destruct (inv_bounds n0 H0) as (_ & _ & P0), (inv_bounds n1 H1) as (_ & _ & P1).
  unfold const_weight, zz. cbn [ROps nadd nsub nmul ndiv none nofZ fold_right].
  rewrite !mult_IZR. destruct s; field; repeat split; lra.
Qed.

Lemma weights_sum_bound3_lemma : forall s a0 a1 a2 n0 n1 n2,
  (1 <= n0)%Z -> (1 <= n1)%Z -> (1 <= n2)%Z -> volume3 ROps a0 a1 a2 n0 n1 n2 <> 0 ->
  Rabs (nsum ROps (weights3 ROps s a0 a1 a2 n0 n1 n2) / volume3 ROps a0 a1 a2 n0 n1 n2 - 1)
  <= 1 / IZR n0 + 1 / IZR n1 + 1 / IZR n2.
Proof.
  intros s a0 a1 a2 n0 n1 n2 H0 H1 H2 Hv. unfold weights3. rewrite const_ratio3 by assumption.
  destruct (inv_bounds n0 H0) as (A0 & B0 & _), (inv_bounds n1 H1) as (A1 & B1 & _), (inv_bounds n2 H2) as (A2 & B2 & _).
  unfold Rdiv. rewrite !Rmult_1_l. destruct s.
  - replace (1 - 1) with 0 by ring. rewrite Rabs_R0. lra.
  - eapply Rle_trans; [apply prod_bound3; lra|lra].
  - apply prod_bound3; lra.
Qed.

Lemma weights_sum_bound2_lemma : forall s a0 a1 n0 n1,
  (1 <= n0)%Z -> (1 <= n1)%Z -> volume2 ROps a0 a1 n0 n1 <> 0 ->
  Rabs (nsum ROps (weights2 ROps s a0 a1 n0 n1) / volume2 ROps a0 a1 n0 n1 - 1) <= 1 / IZR n0 + 1 / IZR n1.
Proof.
  intros s a0 a1 n0 n1 H0 H1 Hv. unfold weights2. rewrite const_ratio2 by assumption.
  destruct (inv_bounds n0 H0) as (A0 & B0 & _), (inv_bounds n1 H1) as (A1 & B1 & _).
  unfold Rdiv. rewrite !Rmult_1_l. destruct s.
  - replace (1 - 1) with 0 by ring. rewrite Rabs_R0. lra.
  - eapply Rle_trans; [apply prod_bound2; lra|lra].
  - apply prod_bound2; lra.
Qed.

Lemma weights_length_lemma : forall s a0 a1 a2 n0 n1 n2, (0 <= n0)%Z -> (0 <= n1)%Z -> (0 <= n2)%Z ->
  Z.of_nat (length (weights3 ROps s a0 a1 a2 n0 n1 n2)) = (n0 * n1 * n2)%Z /\
  forall b0 b1, Z.of_nat (length (weights2 ROps s b0 b1 n0 n1)) = (n0 * n1)%Z.
Proof.
  intros. split; [|intros]; unfold weights3, weights2, const_weights; rewrite repeat_length; cbn [fold_right];
    rewrite Z2Nat.id by nia; ring.
Qed.

(* the volume is the absolute determinant of the scaled axes: for an axis-aligned box it is the product of the edges *)
Lemma volume_diag_lemma : forall d0 d1 d2 n0 n1 n2,
  volume3 ROps (d0, 0, 0) (0, d1, 0) (0, 0, d2) n0 n1 n2 = Rabs ((IZR n0 * d0) * (IZR n1 * d1) * (IZR n2 * d2)) /\
  volume2 ROps (d0, 0) (0, d1) n0 n1 = Rabs ((IZR n0 * d0) * (IZR n1 * d1)).
Proof.
  intros. unfold volume3, volume2, dot3, cross3, vscale3, zz. cbn [ROps nadd nsub nmul nabs nofZ].
  split; f_equal; ring.
Qed.

(* ------------------------------------------------------------------ Fourier1 *)
(* sum of the weights over the volume factors into one factor per direction *)
Definition f1s (n : Z) : R := 2 / (IZR n + 1) * sumR (map (fourier1_dir n) (zrange1 (Z.to_nat n))).

Lemma zrange1_shift n : zrange1 n = map (fun i => (i + 1)%Z) (zrange n).
Proof.
  unfold zrange1, zrange. rewrite map_map, <- seq_shift, map_map.
  apply map_ext. intros. lia.
Qed.

Lemma f1s_alt n : f1s n = 2 / (IZR n + 1) * sumR (map (fun i => fourier1_dir n (i + 1)) (zrange (Z.to_nat n))).
Proof. unfold f1s. now rewrite zrange1_shift, map_map. Qed.

Lemma fourier1_ratio3 vol n0 n1 n2 : (1 <= n0)%Z -> (1 <= n1)%Z -> (1 <= n2)%Z -> vol <> 0 ->
  sumR (fourier1_weights3 vol n0 n1 n2) / vol = f1s n0 * f1s n1 * f1s n2.
Proof.
  intros H0 H1 H2 Hv. unfold fourier1_weights3.
  rewrite (sumR_lex3_prod
             (fun i => 2 ^ 3 * vol / ((IZR n0 + 1) * ((IZR n1 + 1) * ((IZR n2 + 1) * 1))) * fourier1_dir n0 (i + 1))
             (fun j => fourier1_dir n1 (j + 1)) (fun k => fourier1_dir n2 (k + 1))).
  rewrite sumR_map_scal, !f1s_alt.
  destruct (inv_bounds n0 H0) as (_ & _ & P0), (inv_bounds n1 H1) as (_ & _ & P1), (inv_bounds n2 H2) as (_ & _ & P2).
  field. repeat split; lra.
Qed.

Lemma fourier1_ratio2 vol n0 n1 : (1 <= n0)%Z -> (1 <= n1)%Z -> vol <> 0 ->
  sumR (fourier1_weights2 vol n0 n1) / vol = f1s n0 * f1s n1.
Proof.
  intros H0 H1 Hv. unfold fourier1_weights2.
  rewrite (sumR_lex2_prod
             (fun i => 2 ^ 2 * vol / ((IZR n0 + 1) * ((IZR n1 + 1) * 1)) * fourier1_dir n0 (i + 1))
             (fun j => fourier1_dir n1 (j + 1))).
  rewrite sumR_map_scal, !f1s_alt.
  destruct (inv_bounds n0 H0) as (_ & _ & P0), (inv_bounds n1 H1) as (_ & _ & P1).
  field. repeat split; lra.
Qed.

(* from per-direction enclosures to the bound *)
Lemma fourier1_from_factors3 vol n0 n1 n2 : (1 <= n0)%Z -> (1 <= n1)%Z -> (1 <= n2)%Z -> vol <> 0 ->
  1 - / IZR n0 <= f1s n0 <= 1 -> 1 - / IZR n1 <= f1s n1 <= 1 -> 1 - / IZR n2 <= f1s n2 <= 1 ->
  Rabs (sumR (fourier1_weights3 vol n0 n1 n2) / vol - 1) <= 1 / IZR n0 + 1 / IZR n1 + 1 / IZR n2.
Proof.
  intros H0 H1 H2 Hv F0 F1 F2. rewrite fourier1_ratio3 by assumption.
  destruct (inv_bounds n0 H0) as (A0 & _ & _), (inv_bounds n1 H1) as (A1 & _ & _), (inv_bounds n2 H2) as (A2 & _ & _).
  replace (f1s n0 * f1s n1 * f1s n2) with ((1 - (1 - f1s n0)) * (1 - (1 - f1s n1)) * (1 - (1 - f1s n2))) by ring.
  eapply Rle_trans; [apply prod_bound3; lra|lra].
Qed.

Lemma fourier1_from_factors2 vol n0 n1 : (1 <= n0)%Z -> (1 <= n1)%Z -> vol <> 0 ->
  1 - / IZR n0 <= f1s n0 <= 1 -> 1 - / IZR n1 <= f1s n1 <= 1 ->
  Rabs (sumR (fourier1_weights2 vol n0 n1) / vol - 1) <= 1 / IZR n0 + 1 / IZR n1.
Proof.
  intros H0 H1 Hv F0 F1. rewrite fourier1_ratio2 by assumption.
  destruct (inv_bounds n0 H0) as (A0 & _ & _), (inv_bounds n1 H1) as (A1 & _ & _).
  replace (f1s n0 * f1s n1) with ((1 - (1 - f1s n0)) * (1 - (1 - f1s n1))) by ring.
  eapply Rle_trans; [apply prod_bound2; lra|lra].
Qed.

(* ------------------------------------------------------------------ Fourier2 *)
Definition f2s (n : Z) : R := sumR (map (fourier2_dir n) (zrange1 (Z.to_nat n))).

Lemma f2s_alt n : f2s n = sumR (map (fun i => fourier2_dir n (i + 1)) (zrange (Z.to_nat n))).
Proof. unfold f2s. now rewrite zrange1_shift, map_map. Qed.

Lemma fourier2_sum3 vol n0 n1 n2 :
  sumR (fourier2_weights3 vol n0 n1 n2) = f2s n0 * f2s n1 * f2s n2 * alt_volume vol [n0; n1; n2].
Proof.
  unfold fourier2_weights3.
  rewrite (lex3_ext _ (fun i j k => (alt_volume vol [n0; n1; n2] * fourier2_dir n0 (i + 1)) * fourier2_dir n1 (j + 1) * fourier2_dir n2 (k + 1)))
    by (intros; ring).
  rewrite (sumR_lex3_prod (fun i => alt_volume vol [n0; n1; n2] * fourier2_dir n0 (i + 1))
                          (fun j => fourier2_dir n1 (j + 1)) (fun k => fourier2_dir n2 (k + 1))).
  rewrite sumR_map_scal, !f2s_alt. ring.
Qed.

Lemma f2s_4_small : Rabs (f2s 4) <= 1 / 1000000.
Proof. unfold f2s, fourier2_dir, sumR. ev. interval with (i_prec 60). Qed.

(* the documented scheme "Fourier2" does not integrate constants: on the 4x4x4 unit grid the weights sum to
   (numerically) zero instead of the volume 64, and in two dimensions the scheme cannot be constructed at all *)
Lemma fourier2_refuted_lemma :
  exists n0 n1 n2 : Z, (1 <= n0)%Z /\ (1 <= n1)%Z /\ (1 <= n2)%Z /\
    let vol := volume3 ROps (1, 0, 0) (0, 1, 0) (0, 0, 1) n0 n1 n2 in
    vol <> 0 /\
    ~ Rabs (sumR (fourier2_weights3 vol n0 n1 n2) / vol - 1) <= 1 / IZR n0 + 1 / IZR n1 + 1 / IZR n2.
Proof.
  exists 4%Z, 4%Z, 4%Z. repeat split; try lia.
  - destruct (volume_diag_lemma 1 1 1 4 4 4) as [-> _]. intros E. revert E. apply Rgt_not_eq.
    interval.
  - cbv zeta. destruct (volume_diag_lemma 1 1 1 4 4 4) as [-> _].
    replace (Rabs (IZR 4 * 1 * (IZR 4 * 1) * (IZR 4 * 1))) with 64 by (rewrite Rabs_pos_eq; lra).
    rewrite fourier2_sum3. unfold alt_volume. cbn [fold_right].
    pose proof f2s_4_small as S. set (s := f2s 4) in *. intros H.
    assert (Hs : -1/1000000 <= s <= 1/1000000) by (apply Rabs_le_inv in S; lra).
    assert (-1/1000000 <= s * s * s <= 1/1000000).
    { assert (0 <= s * s <= 1) by nra. nra. }
    apply Rabs_le_inv in H. lra.
Qed.
