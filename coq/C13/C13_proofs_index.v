(* C13 (1): index maps.  Proofs about the definitions generated from cubic.py (C13_gen.v). *)
From Coq Require Import ZArith Lia Bool.
From P Require Import C13_gen.
Open Scope Z_scope.

Ltac splits := repeat match goal with |- _ /\ _ => split end.

(* ---- pure arithmetic: mixed-radix digits are unique ---- *)
Lemma radix_unique n a b a' b' : 0 <= b < n -> 0 <= b' < n -> b + n * a = b' + n * a' -> a = a' /\ b = b'.
Proof. intros. assert (a = a') by nia. subst. lia. Qed.

Lemma radix_range n m a b : 0 <= b < n -> 0 <= a < m -> 0 <= b + n * a < n * m.
Proof. intros. nia. Qed.

(* ---- the generated maps, characterised ---- *)
Lemma c2i3_spec n0 n1 n2 i j k : coordinates_to_index3 n0 n1 n2 i j k = k + n2 * (j + n1 * i).
Proof. unfold coordinates_to_index3. ring. Qed.

Lemma c2i2_spec n0 n1 i j : coordinates_to_index2 n0 n1 i j = j + n1 * i.
Proof. unfold coordinates_to_index2. ring. Qed.

Lemma i2c3_char n0 n1 n2 idx : 0 < n1 -> 0 < n2 -> 0 <= idx ->
  exists i j k, index_to_coordinates3 n0 n1 n2 idx = Some (i, j, k) /\
                idx = k + n2 * (j + n1 * i) /\ 0 <= k < n2 /\ 0 <= j < n1 /\ 0 <= i.
Proof.
  intros H1 H2 Hi. unfold index_to_coordinates3.
  destruct (negb (idx >=? 0)) eqn:G; [apply negb_true_iff in G; lia|].
  eexists _, _, _. split; [reflexivity|].
  assert (HP : 0 < n1 * n2) by nia.
  set (P := n1 * n2) in *.
  pose proof (Z.div_mod idx P ltac:(lia)) as E1. pose proof (Z.mod_pos_bound idx P HP) as B1.
  pose proof (Z.div_pos idx P Hi HP) as Q1.
  set (q := idx / P) in *. set (r := idx mod P) in *.
  replace (idx - P * q) with r by lia.
  pose proof (Z.div_mod r n2 ltac:(lia)) as E2. pose proof (Z.mod_pos_bound r n2 H2) as B2.
  pose proof (Z.div_pos r n2 ltac:(lia) H2) as Q2.
  assert (Q3 : r / n2 < n1) by (apply Z.div_lt_upper_bound; subst P; lia).
  set (q2 := r / n2) in *. set (r2 := r mod n2) in *.
  repeat split; try lia; subst P; nia.
Qed.

Lemma i2c2_char n0 n1 idx : 0 < n1 -> 0 <= idx ->
  exists i j, index_to_coordinates2 n0 n1 idx = Some (i, j) /\ idx = j + n1 * i /\ 0 <= j < n1 /\ 0 <= i.
Proof.
  intros H1 Hi. unfold index_to_coordinates2.
  destruct (negb (idx >=? 0)) eqn:G; [apply negb_true_iff in G; lia|].
  eexists _, _. split; [reflexivity|].
  pose proof (Z.div_mod idx n1 ltac:(lia)) as E1. pose proof (Z.mod_pos_bound idx n1 H1) as B1.
  pose proof (Z.div_pos idx n1 Hi H1) as Q1.
  set (q := idx / n1) in *. set (r := idx mod n1) in *.
  repeat split; lia.
Qed.

(* ---- round trips ---- *)
Lemma index_roundtrip3_lemma : forall n0 n1 n2 i j k,
  0 <= i -> 0 <= j < n1 -> 0 <= k < n2 ->
  index_to_coordinates3 n0 n1 n2 (coordinates_to_index3 n0 n1 n2 i j k) = Some (i, j, k).
Proof.
  intros n0 n1 n2 i j k Hi Hj Hk. rewrite c2i3_spec.
  assert (0 <= n1 * i) by (apply Z.mul_nonneg_nonneg; lia).
  assert (0 <= n2 * (j + n1 * i)) by (apply Z.mul_nonneg_nonneg; lia).
  assert (Hidx : 0 <= k + n2 * (j + n1 * i)) by lia.
  destruct (i2c3_char n0 n1 n2 _ ltac:(lia) ltac:(lia) Hidx) as (i' & j' & k' & E & Eq & Bk & Bj & Bi).
  rewrite E.
  destruct (radix_unique n2 (j + n1 * i) k (j' + n1 * i') k' Hk Bk Eq) as [Eq2 ->].
  destruct (radix_unique n1 i j i' j' Hj Bj Eq2) as [-> ->]. reflexivity.
Qed.

Lemma coords_roundtrip3_lemma : forall n0 n1 n2 idx, 0 < n1 -> 0 < n2 -> 0 <= idx ->
  exists i j k, index_to_coordinates3 n0 n1 n2 idx = Some (i, j, k) /\
    coordinates_to_index3 n0 n1 n2 i j k = idx /\ 0 <= j < n1 /\ 0 <= k < n2 /\
    0 <= i /\ (idx < n0 * n1 * n2 -> i < n0).
Proof.
  intros n0 n1 n2 idx H1 H2 Hi.
  destruct (i2c3_char n0 n1 n2 idx H1 H2 Hi) as (i & j & k & E & Eq & Bk & Bj & Bi).
  exists i, j, k. rewrite c2i3_spec. splits; try lia; [exact E|]. intros Hlt.
  destruct (Z_lt_ge_dec i n0) as [|Hge]; [assumption|exfalso].
  assert (n1 * n0 <= n1 * i) by nia. assert (n2 * (n1 * n0) <= n2 * (j + n1 * i)) by nia. nia.
Qed.

Lemma index_range3_lemma : forall n0 n1 n2 i j k, 0 <= i < n0 -> 0 <= j < n1 -> 0 <= k < n2 ->
  0 <= coordinates_to_index3 n0 n1 n2 i j k < n0 * n1 * n2.
Proof.
  intros. rewrite c2i3_spec.
  pose proof (radix_range n1 n0 i j ltac:(lia) ltac:(lia)).
  pose proof (radix_range n2 (n1 * n0) (j + n1 * i) k ltac:(lia) ltac:(lia)).
  replace (n0 * n1 * n2) with (n2 * (n1 * n0)) by ring. lia.
Qed.

Lemma index_roundtrip2_lemma : forall n0 n1 i j, 0 <= i -> 0 <= j < n1 ->
  index_to_coordinates2 n0 n1 (coordinates_to_index2 n0 n1 i j) = Some (i, j).
Proof.
  intros n0 n1 i j Hi Hj. rewrite c2i2_spec.
  assert (0 <= n1 * i) by (apply Z.mul_nonneg_nonneg; lia).
  assert (Hidx : 0 <= j + n1 * i) by lia.
  destruct (i2c2_char n0 n1 _ ltac:(lia) Hidx) as (i' & j' & E & Eq & Bj & Bi). rewrite E.
  destruct (radix_unique n1 i j i' j' Hj Bj Eq) as [-> ->]. reflexivity.
Qed.

Lemma coords_roundtrip2_lemma : forall n0 n1 idx, 0 < n1 -> 0 <= idx ->
  exists i j, index_to_coordinates2 n0 n1 idx = Some (i, j) /\
    coordinates_to_index2 n0 n1 i j = idx /\ 0 <= j < n1 /\ 0 <= i /\ (idx < n0 * n1 -> i < n0).
Proof.
  intros n0 n1 idx H1 Hi.
  destruct (i2c2_char n0 n1 idx H1 Hi) as (i & j & E & Eq & Bj & Bi).
  exists i, j. rewrite c2i2_spec. splits; try lia; [exact E|]. intros Hlt.
  destruct (Z_lt_ge_dec i n0) as [|Hge]; [assumption|exfalso]. nia.
Qed.

Lemma index_range2_lemma : forall n0 n1 i j, 0 <= i < n0 -> 0 <= j < n1 ->
  0 <= coordinates_to_index2 n0 n1 i j < n0 * n1.
Proof.
  intros. rewrite c2i2_spec. pose proof (radix_range n1 n0 i j ltac:(lia) ltac:(lia)).
  replace (n0 * n1) with (n1 * n0) by ring. lia.
Qed.

(* a negative flat index is rejected, never mapped to coordinates *)
Lemma negative_index_rejected_lemma : forall n0 n1 n2 idx, idx < 0 ->
  index_to_coordinates3 n0 n1 n2 idx = None /\ index_to_coordinates2 n0 n1 idx = None.
Proof.
  intros. unfold index_to_coordinates3, index_to_coordinates2.
  destruct (negb (idx >=? 0)) eqn:G; [split; reflexivity|]. apply negb_false_iff in G. lia.
Qed.

(* last index runs fastest: neighbours along the last axis are adjacent in memory,
   one step along axis 1 jumps n2, one step along axis 0 jumps n1*n2 *)
Lemma strides3_lemma : forall n0 n1 n2 i j k,
  coordinates_to_index3 n0 n1 n2 i j (k + 1) = coordinates_to_index3 n0 n1 n2 i j k + 1 /\
  coordinates_to_index3 n0 n1 n2 i (j + 1) k = coordinates_to_index3 n0 n1 n2 i j k + n2 /\
  coordinates_to_index3 n0 n1 n2 (i + 1) j k = coordinates_to_index3 n0 n1 n2 i j k + n1 * n2.
Proof. intros. rewrite !c2i3_spec. repeat split; ring. Qed.

Lemma strides2_lemma : forall n0 n1 i j,
  coordinates_to_index2 n0 n1 i (j + 1) = coordinates_to_index2 n0 n1 i j + 1 /\
  coordinates_to_index2 n0 n1 (i + 1) j = coordinates_to_index2 n0 n1 i j + n1.
Proof. intros. rewrite !c2i2_spec. split; ring. Qed.
