(* C13 (3): closed form of the Fourier1 per-direction factor.
     sum_{i=1..n} sin(i t) = (cos(t/2) - cos((n+1/2) t)) / (2 sin(t/2))            (telescoping)
   so f1s n, a double sum with n^2 sines, equals a single sum with n terms (f1s_closed n), for EVERY n >= 1.
   The per-n interval enclosures (C13_proofs_f1_*.v) are done on the closed form. *)
From Coq Require Import ZArith List Lia Reals Lra.
From P Require Import C13_gen C13_model C13_proofs_layout C13_proofs_weights.
Import ListNotations.
Open Scope R_scope.

Lemma two_sin_sin a b : 2 * sin a * sin b = cos (a - b) - cos (a + b).
Proof. rewrite cos_minus, cos_plus. ring. Qed.

Lemma zrange1_S n : zrange1 (S n) = zrange1 n ++ [Z.of_nat (S n)].
Proof. unfold zrange1. rewrite seq_S, map_app. reflexivity. Qed.

Lemma sin_sum_telescope (t : R) (n : nat) :
  2 * sin (t / 2) * sumR (map (fun i => sin (IZR i * t)) (zrange1 n)) = cos (t / 2) - cos ((INR n + / 2) * t).
Proof.
  induction n as [|n IH].
  - cbn. replace ((0 + / 2) * t) with (t / 2) by field. ring.
  - rewrite zrange1_S, map_app, sumR_app, Rmult_plus_distr_l, IH. cbn [map sumR fold_right].
    rewrite Rplus_0_r, two_sin_sin, <- INR_IZR_INZ, S_INR.
    replace (t / 2 - (INR n + 1) * t) with (- ((INR n + / 2) * t)) by field.
    replace (t / 2 + (INR n + 1) * t) with ((INR n + 1 + / 2) * t) by field.
    rewrite cos_neg. ring.
Qed.

Lemma sumR_cons x l : sumR (x :: l) = x + sumR l.
Proof. reflexivity. Qed.

Lemma sumR_zeros {B} (lb : list B) : sumR (map (fun _ => 0) lb) = 0.
Proof. induction lb as [|b lb IH]; [reflexivity|]. cbn [map]. rewrite sumR_cons, IH. lra. Qed.

Lemma sumR_map_plus {B} (f g : B -> R) lb : sumR (map (fun b => f b + g b) lb) = sumR (map f lb) + sumR (map g lb).
Proof. induction lb as [|b lb IH]; [cbn; lra|]. cbn [map]. rewrite !sumR_cons, IH. lra. Qed.

Lemma sumR_swap {A B} (f : A -> B -> R) (la : list A) (lb : list B) :
  sumR (map (fun a => sumR (map (fun b => f a b) lb)) la) = sumR (map (fun b => sumR (map (fun a => f a b) la)) lb).
Proof.
  induction la as [|a la IH]; cbn [map].
  - rewrite sumR_zeros. reflexivity.
  - rewrite sumR_cons, IH.
    rewrite (map_ext (fun b => sumR (f a b :: map (fun a0 => f a0 b) la)) (fun b => f a b + sumR (map (fun a0 => f a0 b) la)))
      by (intros; apply sumR_cons).
    now rewrite sumR_map_plus.
Qed.

(* one term of the closed form: p = 1..n *)
Definition f1_term (n p : Z) : R :=
  (1 - cos (IZR p * PI)) / (IZR p * PI)
  * ((cos (IZR p * PI / (IZR n + 1) / 2) - cos ((IZR n + / 2) * (IZR p * PI / (IZR n + 1))))
     / (2 * sin (IZR p * PI / (IZR n + 1) / 2))).
Definition f1s_closed (n : Z) : R := 2 / (IZR n + 1) * sumR (map (f1_term n) (zrange1 (Z.to_nat n))).

Lemma zrange1_in n p : In p (zrange1 n) -> (1 <= p <= Z.of_nat n)%Z.
Proof. unfold zrange1. rewrite in_map_iff. intros (k & <- & Hk). apply in_seq in Hk. lia. Qed.

Lemma sumR_ext {A} (f g : A -> R) l : (forall a, In a l -> f a = g a) -> sumR (map f l) = sumR (map g l).
Proof.
  induction l as [|a l IH]; intros H; [reflexivity|]. cbn [map]. rewrite !sumR_cons.
  rewrite (H a (or_introl eq_refl)), IH; [reflexivity|]. intros; apply H; now right.
Qed.

Lemma f1s_closed_form n : (1 <= n)%Z -> f1s n = f1s_closed n.
Proof.
  intros Hn. unfold f1s, f1s_closed. f_equal. unfold fourier1_dir.
  set (N := Z.to_nat n). assert (HN : IZR n = INR N) by (unfold N; rewrite INR_IZR_INZ, Z2Nat.id by lia; reflexivity).
  assert (Hpos : 0 < IZR n + 1) by (apply IZR_le in Hn; lra).
  rewrite (sumR_swap (fun i p => sin (IZR (i * p) * PI / (IZR n + 1)) * ((1 - cos (IZR p * PI)) / (IZR p * PI)))).
  apply sumR_ext. intros p Hp. apply zrange1_in in Hp.
  assert (Hp1 : 1 <= IZR p) by (apply IZR_le; lia).
  assert (Hp2 : IZR p <= IZR n) by (apply IZR_le; unfold N in Hp; rewrite Z2Nat.id in Hp by lia; lia).
  set (t := IZR p * PI / (IZR n + 1)).
  assert (Ht : 0 < t / 2 < PI).
  { pose proof PI_RGT_0. unfold t. split.
    - apply Rdiv_lt_0_compat; [|lra]. apply Rdiv_lt_0_compat; [|lra]. apply Rmult_lt_0_compat; lra.
    - apply Rmult_lt_reg_r with (2 * (IZR n + 1)); [lra|]. field_simplify; [|lra]. nra. }
  assert (Hs : sin (t / 2) <> 0) by (apply Rgt_not_eq, sin_gt_0; lra).
  rewrite (sumR_ext _ (fun i => ((1 - cos (IZR p * PI)) / (IZR p * PI)) * sin (IZR i * t))).
  2:{ intros i _. rewrite mult_IZR. unfold t. replace (IZR i * IZR p * PI / (IZR n + 1)) with (IZR i * (IZR p * PI / (IZR n + 1))) by (field; lra). ring. }
  rewrite sumR_map_scal. unfold f1_term. fold t. f_equal.
  pose proof (sin_sum_telescope t N) as T. rewrite <- HN in T. rewrite <- T. field. exact Hs.
Qed.

(* all shapes: the relative weight sum of Fourier1 is the product of the closed-form factors *)
Lemma fourier1_sum_factorises_lemma : forall vol n0 n1 n2, (1 <= n0)%Z -> (1 <= n1)%Z -> (1 <= n2)%Z -> vol <> 0 ->
  sumR (fourier1_weights3 vol n0 n1 n2) / vol = f1s_closed n0 * f1s_closed n1 * f1s_closed n2 /\
  sumR (fourier1_weights2 vol n0 n1) / vol = f1s_closed n0 * f1s_closed n1.
Proof.
  intros vol n0 n1 n2 H0 H1 H2 Hv.
  rewrite fourier1_ratio3, fourier1_ratio2, !f1s_closed_form by assumption. split; reflexivity.
Qed.
