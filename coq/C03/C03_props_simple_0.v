(* C03 property theorems: statements only; every proof is `exact <lemma>` from the C03_proofs_* files,
   which are checked against the definitions regenerated from src/grid/rtransform.py on every run. *)
From Coq Require Import Reals.
From Coquelicot Require Import Coquelicot.
From P Require Import C03_gen C03_proofs_simple.
Open Scope R_scope.

Theorem C03_Becke_inv_tf rmin R_ x :
  R_ <> 0 -> -1 < x < 1 -> Becke_inverse rmin R_ (Becke_transform rmin R_ x) = x.
Proof. exact (Becke_inv_tf rmin R_ x). Qed.
Print Assumptions C03_Becke_inv_tf.

Theorem C03_Becke_d2 rmin R_ x :
  -1 < x < 1 -> is_derive (Becke_deriv rmin R_) x (Becke_deriv2 rmin R_ x).
Proof. exact (Becke_d2 rmin R_ x). Qed.
Print Assumptions C03_Becke_d2.

Theorem C03_Becke_inv_range rmin R_ r :
  0 < R_ -> rmin < r -> -1 < Becke_inverse rmin R_ r < 1.
Proof. exact (Becke_inv_range rmin R_ r). Qed.
Print Assumptions C03_Becke_inv_range.

Theorem C03_LinearFinite_inv_tf rmin rmax x :
  rmax <> rmin -> LinearFinite_inverse rmin rmax (LinearFinite_transform rmin rmax x) = x.
Proof. exact (LinearFinite_inv_tf rmin rmax x). Qed.
Print Assumptions C03_LinearFinite_inv_tf.

Theorem C03_LinearFinite_d2 rmin rmax x :
  is_derive (LinearFinite_deriv rmin rmax) x (LinearFinite_deriv2 rmin rmax x).
Proof. exact (LinearFinite_d2 rmin rmax x). Qed.
Print Assumptions C03_LinearFinite_d2.

Theorem C03_LinearFinite_ends rmin rmax :
  LinearFinite_transform rmin rmax (-1) = rmin /\ LinearFinite_transform rmin rmax 1 = rmax.
Proof. exact (LinearFinite_ends rmin rmax). Qed.
Print Assumptions C03_LinearFinite_ends.

Theorem C03_Identity_inv_tf x :
  Identity_inverse (Identity_transform x) = x.
Proof. exact (Identity_inv_tf x). Qed.
Print Assumptions C03_Identity_inv_tf.

Theorem C03_Identity_d2 x :
  is_derive Identity_deriv x (Identity_deriv2 x).
Proof. exact (Identity_d2 x). Qed.
Print Assumptions C03_Identity_d2.

Theorem C03_Identity_deriv_pos x :
  0 < Identity_deriv x.
Proof. exact (Identity_deriv_pos x). Qed.
Print Assumptions C03_Identity_deriv_pos.

Theorem C03_LinearInfinite_d1 rmin rmax b x :
  b <> 0 -> is_derive (LinearInfinite_transform rmin rmax b) x (LinearInfinite_deriv rmin rmax b x).
Proof. exact (LinearInfinite_d1 rmin rmax b x). Qed.
Print Assumptions C03_LinearInfinite_d1.

Theorem C03_LinearInfinite_ends rmin rmax b :
  b <> 0 ->
  LinearInfinite_transform rmin rmax b 0 = rmin /\ LinearInfinite_transform rmin rmax b b = rmax.
Proof. exact (LinearInfinite_ends rmin rmax b). Qed.
Print Assumptions C03_LinearInfinite_ends.

Theorem C03_Hyperbolic_tf_inv a b r :
  0 < a -> 0 < b -> 0 <= r ->
  Hyperbolic_transform a b (Hyperbolic_inverse a b r) = r.
Proof. exact (Hyperbolic_tf_inv a b r). Qed.
Print Assumptions C03_Hyperbolic_tf_inv.

Theorem C03_Hyperbolic_d3 a b x :
  0 < 1 - b * x -> is_derive (Hyperbolic_deriv2 a b) x (Hyperbolic_deriv3 a b x).
Proof. exact (Hyperbolic_d3 a b x). Qed.
Print Assumptions C03_Hyperbolic_d3.

Theorem C03_MultiExp_inv_tf rmin R_ x :
  R_ <> 0 -> -1 < x < 1 -> MultiExp_inverse rmin R_ (MultiExp_transform rmin R_ x) = x.
Proof. exact (MultiExp_inv_tf rmin R_ x). Qed.
Print Assumptions C03_MultiExp_inv_tf.

Theorem C03_MultiExp_d2 rmin R_ x :
  -1 < x < 1 -> is_derive (MultiExp_deriv rmin R_) x (MultiExp_deriv2 rmin R_ x).
Proof. exact (MultiExp_d2 rmin R_ x). Qed.
Print Assumptions C03_MultiExp_d2.

Theorem C03_MultiExp_right_end rmin R_ :
  MultiExp_transform rmin R_ 1 = rmin.
Proof. exact (MultiExp_right_end rmin R_). Qed.
Print Assumptions C03_MultiExp_right_end.
