From Coq Require Import Reals Lra.
From Coquelicot Require Import Coquelicot.
From VLib Require Import RealTac.
From P Require Import C03_gen.
Open Scope R_scope.

(* BaseTransform.deriv_inverse / deriv2_inverse / deriv3_inverse and InverseRTransform.deriv/deriv2/deriv3
   (generated definitions) are the first three derivatives of the inverse map. *)
Section Generic.
  Variables (f f1 f2 f3 g : R -> R) (I J : R -> Prop).
  Hypothesis J_open : forall r, J r -> locally r J.
  Hypothesis fwd : forall x, I x -> is_derive f x (f1 x) /\ is_derive f1 x (f2 x) /\ is_derive f2 x (f3 x) /\ f1 x <> 0.
  Hypothesis gJ : forall r, J r -> I (g r) /\ f (g r) = r.
  Hypothesis g_diff : forall r, J r -> ex_derive g r.

  Lemma Base_inverse_derivs r : J r ->
    is_derive g r (Base_deriv_inverse f g f1 f2 f3 r) /\
    is_derive (Base_deriv_inverse f g f1 f2 f3) r (Base_deriv2_inverse f g f1 f2 f3 r) /\
    is_derive (Base_deriv2_inverse f g f1 f2 f3) r (Base_deriv3_inverse f g f1 f2 f3 r).
  Proof.
    intros Hr. split; [|split].
    - exact (inv_d1 f f1 f2 f3 g I J J_open fwd gJ g_diff r Hr).
    - exact (inv_d2 f f1 f2 f3 g I J J_open fwd gJ g_diff r Hr).
    - exact (inv_d3 f f1 f2 f3 g I J J_open fwd gJ g_diff r Hr).
  Qed.

  Lemma InverseRTransform_derivs r : J r ->
    Inverse_transform f g f1 f2 f3 r = g r /\ Inverse_inverse f g f1 f2 f3 (g r) = r /\
    is_derive (Inverse_transform f g f1 f2 f3) r (Inverse_deriv f g f1 f2 f3 r) /\
    is_derive (Inverse_deriv f g f1 f2 f3) r (Inverse_deriv2 f g f1 f2 f3 r) /\
    is_derive (Inverse_deriv2 f g f1 f2 f3) r (Inverse_deriv3 f g f1 f2 f3 r).
  Proof.
    intros Hr. split; [reflexivity|]. split; [exact (proj2 (gJ r Hr))|]. split; [|split].
    - exact (inv_d1 f f1 f2 f3 g I J J_open fwd gJ g_diff r Hr).
    - exact (inv_d2 f f1 f2 f3 g I J J_open fwd gJ g_diff r Hr).
    - exact (inv_d3 f f1 f2 f3 g I J J_open fwd gJ g_diff r Hr).
  Qed.
End Generic.
