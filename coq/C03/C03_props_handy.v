(* C03 property theorems: statements only; every proof is `exact <lemma>` from the C03_proofs_* files,
   which are checked against the definitions regenerated from src/grid/rtransform.py on every run. *)
From Coq Require Import Reals.
From Coquelicot Require Import Coquelicot.
From P Require Import C03_gen C03_proofs_handy.
Open Scope R_scope.

Theorem C03_Handy_d1 rmin R_ m x :
  -1 < x < 1 -> is_derive (Handy_transform rmin R_ m) x (Handy_deriv rmin R_ m x).
Proof. exact (Handy_d1 rmin R_ m x). Qed.
Print Assumptions C03_Handy_d1.

Theorem C03_Handy_d2 rmin R_ m x :
  -1 < x < 1 -> is_derive (Handy_deriv rmin R_ m) x (Handy_deriv2 rmin R_ m x).
Proof. exact (Handy_d2 rmin R_ m x). Qed.
Print Assumptions C03_Handy_d2.

Theorem C03_Handy_d3 rmin R_ m x :
  -1 < x < 1 -> is_derive (Handy_deriv2 rmin R_ m) x (Handy_deriv3 rmin R_ m x).
Proof. exact (Handy_d3 rmin R_ m x). Qed.
Print Assumptions C03_Handy_d3.

Theorem C03_Handy_inv_tf rmin R_ m x :
  0 < R_ -> 0 < m -> -1 < x < 1 ->
  Handy_inverse rmin R_ m (Handy_transform rmin R_ m x) = x.
Proof. exact (Handy_inv_tf rmin R_ m x). Qed.
Print Assumptions C03_Handy_inv_tf.

Theorem C03_Handy_tf_inv rmin R_ m r :
  0 < R_ -> 0 < m -> rmin < r ->
  Handy_transform rmin R_ m (Handy_inverse rmin R_ m r) = r.
Proof. exact (Handy_tf_inv rmin R_ m r). Qed.
Print Assumptions C03_Handy_tf_inv.

Theorem C03_Handy_deriv_pos rmin R_ m x :
  0 < R_ -> 0 < m -> -1 < x < 1 -> 0 < Handy_deriv rmin R_ m x.
Proof. exact (Handy_deriv_pos rmin R_ m x). Qed.
Print Assumptions C03_Handy_deriv_pos.

Theorem C03_Handy_range rmin R_ m x :
  0 < R_ -> -1 < x < 1 -> rmin < Handy_transform rmin R_ m x.
Proof. exact (Handy_range rmin R_ m x). Qed.
Print Assumptions C03_Handy_range.
