(* C03 property theorems: statements only; every proof is `exact <lemma>` from the C03_proofs_* files,
   which are checked against the definitions regenerated from src/grid/rtransform.py on every run. *)
From Coq Require Import Reals.
From Coquelicot Require Import Coquelicot.
From P Require Import C03_gen C03_proofs_simple.
Open Scope R_scope.

Theorem C03_Becke_tf_inv rmin R_ r :
  R_ <> 0 -> r - rmin + R_ <> 0 -> Becke_transform rmin R_ (Becke_inverse rmin R_ r) = r.
Proof. exact (Becke_tf_inv rmin R_ r). Qed.
Print Assumptions C03_Becke_tf_inv.

Theorem C03_Becke_d3 rmin R_ x :
  -1 < x < 1 -> is_derive (Becke_deriv2 rmin R_) x (Becke_deriv3 rmin R_ x).
Proof. exact (Becke_d3 rmin R_ x). Qed.
Print Assumptions C03_Becke_d3.

Theorem C03_Becke_deriv_pos rmin R_ x :
  0 < R_ -> -1 < x < 1 -> 0 < Becke_deriv rmin R_ x.
Proof. exact (Becke_deriv_pos rmin R_ x). Qed.
Print Assumptions C03_Becke_deriv_pos.

Theorem C03_LinearFinite_tf_inv rmin rmax r :
  rmax <> rmin -> LinearFinite_transform rmin rmax (LinearFinite_inverse rmin rmax r) = r.
Proof. exact (LinearFinite_tf_inv rmin rmax r). Qed.
Print Assumptions C03_LinearFinite_tf_inv.

Theorem C03_LinearFinite_d3 rmin rmax x :
  is_derive (LinearFinite_deriv2 rmin rmax) x (LinearFinite_deriv3 rmin rmax x).
Proof. exact (LinearFinite_d3 rmin rmax x). Qed.
Print Assumptions C03_LinearFinite_d3.

Theorem C03_LinearFinite_range rmin rmax x :
  rmin < rmax -> -1 < x < 1 -> rmin < LinearFinite_transform rmin rmax x < rmax.
Proof. exact (LinearFinite_range rmin rmax x). Qed.
Print Assumptions C03_LinearFinite_range.

Theorem C03_Identity_tf_inv x :
  Identity_transform (Identity_inverse x) = x.
Proof. exact (Identity_tf_inv x). Qed.
Print Assumptions C03_Identity_tf_inv.

Theorem C03_Identity_d3 x :
  is_derive Identity_deriv2 x (Identity_deriv3 x).
Proof. exact (Identity_d3 x). Qed.
Print Assumptions C03_Identity_d3.

Theorem C03_LinearInfinite_inv_tf rmin rmax b x :
  rmin < rmax -> b <> 0 ->
  LinearInfinite_inverse rmin rmax b (LinearInfinite_transform rmin rmax b x) = x.
Proof. exact (LinearInfinite_inv_tf rmin rmax b x). Qed.
Print Assumptions C03_LinearInfinite_inv_tf.

Theorem C03_LinearInfinite_d2 rmin rmax b x :
  is_derive (LinearInfinite_deriv rmin rmax b) x (LinearInfinite_deriv2 rmin rmax b x).
Proof. exact (LinearInfinite_d2 rmin rmax b x). Qed.
Print Assumptions C03_LinearInfinite_d2.

Theorem C03_LinearInfinite_deriv_pos rmin rmax b x :
  rmin < rmax -> 0 < b -> 0 < LinearInfinite_deriv rmin rmax b x.
Proof. exact (LinearInfinite_deriv_pos rmin rmax b x). Qed.
Print Assumptions C03_LinearInfinite_deriv_pos.

Theorem C03_Hyperbolic_d1 a b x :
  0 < 1 - b * x -> is_derive (Hyperbolic_transform a b) x (Hyperbolic_deriv a b x).
Proof. exact (Hyperbolic_d1 a b x). Qed.
Print Assumptions C03_Hyperbolic_d1.

Theorem C03_Hyperbolic_deriv_pos a b x :
  0 < a -> 0 < 1 - b * x -> 0 < Hyperbolic_deriv a b x.
Proof. exact (Hyperbolic_deriv_pos a b x). Qed.
Print Assumptions C03_Hyperbolic_deriv_pos.

Theorem C03_MultiExp_tf_inv rmin R_ r :
  R_ <> 0 -> MultiExp_transform rmin R_ (MultiExp_inverse rmin R_ r) = r.
Proof. exact (MultiExp_tf_inv rmin R_ r). Qed.
Print Assumptions C03_MultiExp_tf_inv.

Theorem C03_MultiExp_d3 rmin R_ x :
  -1 < x < 1 -> is_derive (MultiExp_deriv2 rmin R_) x (MultiExp_deriv3 rmin R_ x).
Proof. exact (MultiExp_d3 rmin R_ x). Qed.
Print Assumptions C03_MultiExp_d3.
