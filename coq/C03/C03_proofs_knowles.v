From Coq Require Import Reals Lra.
From Coquelicot Require Import Coquelicot.
From VLib Require Import RealTac.
From P Require Import C03_gen.
Open Scope R_scope.

Lemma exp_m_lndiv m a c : 0 < a -> 0 < c -> exp (m * ln (a / c)) = exp (m * ln a) / exp (m * ln c).
Proof. intros Ha Hc. exact (Rpower_div a c m Ha Hc). Qed.

(* ---------------- Knowles ---------------- *)
Lemma Knowles_q_lt k x : 0 < k -> -1 < x < 1 -> 0 < Rpower (1 + x) k < Rpower 2 k.
Proof. intros Hk Hx. split; [apply Rpower_pos|apply Rlt_Rpower_l; lra]. Qed.

Lemma Knowles_arg k x : 0 < k -> -1 < x < 1 -> 0 < 1 - Rpower ((x + 1) / 2) k < 1.
Proof.
  intros Hk Hx. pose proof (Rpower_pos ((x + 1) / 2) k).
  assert (Rpower ((x + 1) / 2) k < 1) by (apply Rpower_lt_1; lra). lra.
Qed.

Lemma Knowles_inv_tf rmin R_ k x : R_ <> 0 -> 0 < k -> -1 < x < 1 ->
  Knowles_inverse rmin R_ k (Knowles_transform rmin R_ k x) = x.
Proof.
  intros HR Hk Hx. unfold Knowles_inverse, Knowles_transform. cbv zeta.
  pose proof (Knowles_arg k x Hk Hx) as Ha.
  set (A := 1 - Rpower ((x + 1) / 2) k) in *.
  replace ((rmin - (- R_ * ln A + rmin)) / R_) with (ln A) by (field; exact HR).
  rewrite exp_ln by lra. unfold A.
  replace (1 - (1 - Rpower ((x + 1) / 2) k)) with (Rpower ((x + 1) / 2) k) by ring.
  rewrite Rpower_inv_k by lra. field.
Qed.

Lemma Knowles_tf_inv rmin R_ k r : 0 < R_ -> 0 < k -> rmin < r ->
  Knowles_transform rmin R_ k (Knowles_inverse rmin R_ k r) = r.
Proof.
  intros HR Hk Hr. unfold Knowles_inverse, Knowles_transform. cbv zeta.
  assert (He : 0 < exp ((rmin - r) / R_) < 1).
  { split; [apply exp_pos|]. rewrite <- exp_0. apply exp_increasing.
    assert (0 < (r - rmin) / R_) by (apply Rdiv_lt_0_compat; lra).
    replace ((rmin - r) / R_) with (- ((r - rmin) / R_)) by (field; lra). lra. }
  set (E := exp ((rmin - r) / R_)) in *.
  replace ((-1 + 2 * Rpower (1 - E) (1 / k) + 1) / 2) with (Rpower (1 - E) (1 / k)) by field.
  rewrite Rpower_inv_k' by lra.
  replace (1 - (1 - E)) with E by ring.
  unfold E. rewrite ln_exp. field. lra.
Qed.

Lemma Knowles_d1 rmin R_ k x : 0 < k -> -1 < x < 1 ->
  is_derive (Knowles_transform rmin R_ k) x (Knowles_deriv rmin R_ k x).
Proof.
  intros Hk Hx. unfold Knowles_transform, Knowles_deriv. cbv zeta.
  destruct (Knowles_q_lt k x Hk Hx) as [H3 H2]. pose proof (Knowles_arg k x Hk Hx) as [Ha _].
  replace (1 + x) with (x + 1) in * by ring.
  rewrite Rpower_sub1 by lra.
  revert Ha. rewrite (Rpower_div (x + 1) 2 k) by lra. revert H2 H3. unfold Rpower. intros H2 H3 Ha.
  pose proof (exp_pos (k * ln 2)) as HT.
  set (E := exp (k * ln (x + 1))) in *. set (T := exp (k * ln 2)) in *.
  assert (Hd : E / T < 1) by lra.
  auto_derive; fold ((x + 1) / 2); rewrite (exp_m_lndiv k (x + 1) 2) by lra; fold E; fold T;
  match goal with
  | |- _ = _ => field; repeat split; lra
  | |- _ => repeat split; try exact I; lra
  end.
Qed.

Ltac knowles_setup k x Hk Hx :=
  cbv zeta; destruct (Knowles_q_lt k x Hk Hx) as [H3 H2];
  replace (1 + x) with (x + 1) in * by ring;
  rewrite ?Rpower_sub1, ?Rpower_sub2, ?Rpower_sub3, ?Rpower_2k, ?Rpower_4_k by lra;
  revert H2 H3; unfold Rpower; intros H2 H3;
  pose proof (exp_pos (k * ln 2)) as HT;
  set (E := exp (k * ln (x + 1))) in *; set (T := exp (k * ln 2)) in *.
Ltac knowles_post k x E :=
  replace (1 + x) with (x + 1) by ring;
  rewrite ?(exp_km1 k (x + 1)), ?(exp_km2 k (x + 1)), ?(exp_km3 k (x + 1)), ?(exp_2k k (x + 1)) by lra; fold E.

Lemma Knowles_d2 rmin R_ k x : 0 < k -> -1 < x < 1 ->
  is_derive (Knowles_deriv rmin R_ k) x (Knowles_deriv2 rmin R_ k x).
Proof.
  intros Hk Hx. unfold Knowles_deriv, Knowles_deriv2. knowles_setup k x Hk Hx.
  auto_derive; knowles_post k x E.
  - repeat split; try exact I; lra.
  - field. repeat split; lra.
Qed.

Lemma Knowles_d3 rmin R_ k x : 0 < k -> -1 < x < 1 ->
  is_derive (Knowles_deriv2 rmin R_ k) x (Knowles_deriv3 rmin R_ k x).
Proof.
  intros Hk Hx. unfold Knowles_deriv3, Knowles_deriv2. knowles_setup k x Hk Hx.
  auto_derive; knowles_post k x E.
  - repeat split; try exact I; try lra. apply Rgt_not_eq. assert (0 < T - E) by lra. nra.
  - field. repeat split; lra.
Qed.

Lemma Knowles_deriv_pos rmin R_ k x : 0 < R_ -> 0 < k -> -1 < x < 1 -> 0 < Knowles_deriv rmin R_ k x.
Proof.
  intros HR Hk Hx. unfold Knowles_deriv. cbv zeta. destruct (Knowles_q_lt k x Hk Hx) as [H3 H2].
  apply Rdiv_lt_0_compat; [|lra]. apply Rmult_lt_0_compat; [nra|apply Rpower_pos].
Qed.

Lemma Knowles_range rmin R_ k x : 0 < R_ -> 0 < k -> -1 < x < 1 -> rmin < Knowles_transform rmin R_ k x.
Proof.
  intros HR Hk Hx. unfold Knowles_transform. cbv zeta. pose proof (Knowles_arg k x Hk Hx) as [A1 A2].
  assert (ln (1 - Rpower ((x + 1) / 2) k) < 0) by (rewrite <- ln_1; apply ln_increasing; lra). nra.
Qed.

Example Knowles_nonvacuous : 0 < 5/2 /\ -1 < 1/4 < 1.
Proof. lra. Qed.
