From Coq Require Import Reals Lra.
From Coquelicot Require Import Coquelicot.
From VLib Require Import RealTac.
From P Require Import C03_gen.
Open Scope R_scope.

(* ---------------- Knowles ---------------- *)
Lemma Knowles_q_lt k x : 0 < k -> -1 < x < 1 -> 0 < Rpower (1 + x) k < Rpower 2 k.
Proof. intros Hk Hx. split; [apply Rpower_pos|apply Rlt_Rpower_l; lra]. Qed.

Lemma Knowles_arg k x : 0 < k -> -1 < x < 1 -> 0 < 1 - Rpower 2 (- k) * Rpower (x + 1) k < 1.
Proof.
  intros Hk Hx. rewrite Rpower_neg. replace (x + 1) with (1 + x) by ring.
  destruct (Knowles_q_lt k x Hk Hx) as [H1 H2]. pose proof (Rpower_pos 2 k) as H3.
  assert (E : / Rpower 2 k * Rpower (1 + x) k = Rpower (1 + x) k / Rpower 2 k) by (field; lra). rewrite E.
  assert (0 < Rpower (1 + x) k / Rpower 2 k) by (apply Rdiv_lt_0_compat; lra).
  assert (Rpower (1 + x) k / Rpower 2 k < 1).
  { apply Rmult_lt_reg_r with (Rpower 2 k); [lra|]. unfold Rdiv. rewrite Rmult_assoc, Rinv_l by lra. lra. }
  lra.
Qed.

Lemma Knowles_inv_tf rmin R_ k x : R_ <> 0 -> 0 < k -> -1 < x < 1 ->
  Knowles_inverse rmin R_ k (Knowles_transform rmin R_ k x) = x.
Proof.
  intros HR Hk Hx. unfold Knowles_inverse, Knowles_transform. cbv zeta.
  pose proof (Knowles_arg k x Hk Hx) as Ha.
  set (A := 1 - Rpower 2 (- k) * Rpower (x + 1) k) in *.
  replace ((rmin - (- R_ * ln A + rmin)) / R_) with (ln A) by (field; exact HR).
  rewrite exp_ln by lra. unfold A. 
  replace (1 - (1 - Rpower 2 (- k) * Rpower (x + 1) k)) with (Rpower 2 (- k) * Rpower (x + 1) k) by ring.
  rewrite Rpower_neg.
  replace (/ Rpower 2 k * Rpower (x + 1) k) with (Rpower ((x + 1) / 2) k) by (rewrite Rpower_div by lra; field; apply Rgt_not_eq, Rpower_pos).
  rewrite Rpower_inv_k by lra. field.
Qed.

Lemma Knowles_tf_inv rmin R_ k r : 0 < R_ -> 0 < k -> rmin < r ->
  Knowles_transform rmin R_ k (Knowles_inverse rmin R_ k r) = r.
Proof.
  intros HR Hk Hr. unfold Knowles_inverse, Knowles_transform. cbv zeta.
  assert (He : 0 < exp ((rmin - r) / R_) < 1).
  { split; [apply exp_pos|]. rewrite <- exp_0. apply exp_increasing.
    assert (0 < (r - rmin) / R_) by (apply Rdiv_lt_0_compat; lra).
    replace ((rmin - r) / R_) with (- ((r - rmin) / R_)) by (field; lra). lra. }
  set (E := exp ((rmin - r) / R_)) in *.
  replace (-1 + 2 * Rpower (1 - E) (1 / k) + 1) with (2 * Rpower (1 - E) (1 / k)) by ring.
  rewrite <- Rpower_mult_distr by (try apply Rpower_pos; lra).
  rewrite Rpower_inv_k' by lra.
  rewrite Rpower_neg. replace (1 - / Rpower 2 k * (Rpower 2 k * (1 - E))) with E by (field; apply Rgt_not_eq, Rpower_pos).
  unfold E. rewrite ln_exp. field. lra.
Qed.

Lemma Knowles_d1 rmin R_ k x : 0 < k -> -1 < x < 1 ->
  is_derive (Knowles_transform rmin R_ k) x (Knowles_deriv rmin R_ k x).
Proof.
  intros Hk Hx. unfold Knowles_transform, Knowles_deriv. cbv zeta.
  destruct (Knowles_q_lt k x Hk Hx) as [H3 H2]. pose proof (Knowles_arg k x Hk Hx) as [Ha _].
  replace (1 + x) with (x + 1) in * by ring.
  rewrite Rpower_sub1 by lra.
  revert H2 H3 Ha. rewrite Rpower_neg. unfold Rpower. intros H2 H3 Ha.
  pose proof (exp_pos (k * ln 2)) as HT.
  set (E := exp (k * ln (x + 1))) in *. set (T := exp (k * ln 2)) in *.
  auto_derive; fold E.
  - repeat split; try exact I; lra.
  - field. repeat split; lra.
Qed.

Ltac knowles_setup k x Hk Hx :=
  cbv zeta; destruct (Knowles_q_lt k x Hk Hx) as [H3 H2];
  replace (1 + x) with (x + 1) in * by ring;
  rewrite ?Rpower_sub1, ?Rpower_sub2, ?Rpower_sub3, ?Rpower_2k, ?Rpower_4_k by lra;
  revert H2 H3; unfold Rpower; intros H2 H3;
  pose proof (exp_pos (k * ln 2)) as HT;
  set (E := exp (k * ln (x + 1))) in *; set (T := exp (k * ln 2)) in *.
Ltac knowles_post k x E :=
  replace (1 + x) with (x + 1) by ring;
  rewrite ?(exp_km1 k (x + 1)), ?(exp_km2 k (x + 1)), ?(exp_km3 k (x + 1)), ?(exp_2k k (x + 1)) by lra; fold E.

Lemma Knowles_d2 rmin R_ k x : 0 < k -> -1 < x < 1 ->
  is_derive (Knowles_deriv rmin R_ k) x (Knowles_deriv2 rmin R_ k x).
Proof.
  intros Hk Hx. unfold Knowles_deriv, Knowles_deriv2. knowles_setup k x Hk Hx.
  auto_derive; knowles_post k x E.
  - repeat split; try exact I; lra.
  - field. repeat split; lra.
Qed.

Lemma Knowles_d3 rmin R_ k x : 0 < k -> -1 < x < 1 ->
  is_derive (Knowles_deriv2 rmin R_ k) x (Knowles_deriv3 rmin R_ k x).
Proof.
  intros Hk Hx. unfold Knowles_deriv3, Knowles_deriv2. knowles_setup k x Hk Hx.
  auto_derive; knowles_post k x E.
  - repeat split; try exact I; try lra. apply Rgt_not_eq. assert (0 < T - E) by lra. nra.
  - field. repeat split; lra.
Qed.

Lemma Knowles_deriv_pos rmin R_ k x : 0 < R_ -> 0 < k -> -1 < x < 1 -> 0 < Knowles_deriv rmin R_ k x.
Proof.
  intros HR Hk Hx. unfold Knowles_deriv. cbv zeta. destruct (Knowles_q_lt k x Hk Hx) as [H3 H2].
  apply Rdiv_lt_0_compat; [|lra]. apply Rmult_lt_0_compat; [nra|apply Rpower_pos].
Qed.

Lemma Knowles_range rmin R_ k x : 0 < R_ -> 0 < k -> -1 < x < 1 -> rmin < Knowles_transform rmin R_ k x.
Proof.
  intros HR Hk Hx. unfold Knowles_transform. cbv zeta. pose proof (Knowles_arg k x Hk Hx) as [A1 A2].
  assert (ln (1 - Rpower 2 (- k) * Rpower (x + 1) k) < 0) by (rewrite <- ln_1; apply ln_increasing; lra). nra.
Qed.

Example Knowles_nonvacuous : 0 < 5/2 /\ -1 < 1/4 < 1.
Proof. lra. Qed.
