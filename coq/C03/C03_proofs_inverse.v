From Coq Require Import Reals Lra.
From Coquelicot Require Import Coquelicot.
From VLib Require Import RealTac.
From P Require Import C03_gen C03_proofs_simple C03_proofs_exp_power C03_proofs_knowles C03_proofs_handy C03_proofs_generic.
Open Scope R_scope.

Lemma locally_gt a r : a < r -> locally r (fun t => a < t).
Proof. intros H. exists (mkposreal (r - a) ltac:(lra)). intros t Ht. apply Rabs_lt_between' in Ht. simpl in Ht. lra. Qed.
Lemma locally_between a b r : a < r < b -> locally r (fun t => a < t < b).
Proof. intros H. assert (Hp : 0 < Rmin (r - a) (b - r)) by (apply Rmin_pos; lra).
  exists (mkposreal _ Hp). intros t Ht. apply Rabs_lt_between' in Ht. simpl in Ht.
  pose proof (Rmin_l (r - a) (b - r)). pose proof (Rmin_r (r - a) (b - r)). lra. Qed.

(* ---------------- Becke ---------------- *)
Lemma Becke_inverse_derivs rmin R_ r : 0 < R_ -> rmin < r ->
  let f := Becke_transform rmin R_ in let g := Becke_inverse rmin R_ in
  let f1 := Becke_deriv rmin R_ in let f2 := Becke_deriv2 rmin R_ in let f3 := Becke_deriv3 rmin R_ in
  is_derive g r (Base_deriv_inverse f g f1 f2 f3 r) /\
  is_derive (Base_deriv_inverse f g f1 f2 f3) r (Base_deriv2_inverse f g f1 f2 f3 r) /\
  is_derive (Base_deriv2_inverse f g f1 f2 f3) r (Base_deriv3_inverse f g f1 f2 f3 r).
Proof.
  intros HR Hr. cbv zeta.
  apply (Base_inverse_derivs _ _ _ _ _ (fun x => -1 < x < 1) (fun t => rmin < t)).
  - intros t Ht. now apply locally_gt.
  - intros x Hx. split; [apply Becke_d1|split; [apply Becke_d2|split; [apply Becke_d3|]]]; try exact Hx.
    apply Rgt_not_eq. now apply Becke_deriv_pos.
  - intros t Ht. split; [now apply Becke_inv_range|]. apply Becke_tf_inv; lra.
  - intros t Ht. unfold Becke_inverse. auto_derive. lra.
  - exact Hr.
Qed.

Ltac inst_derivs d1 d2 d3 := split; [apply d1|split; [apply d2|split; [apply d3|]]]; try assumption; try lra.

(* ---------------- MultiExp (decreasing) ---------------- *)
Lemma MultiExp_inv_range rmin R_ r : 0 < R_ -> rmin < r -> -1 < MultiExp_inverse rmin R_ r < 1.
Proof.
  intros HR Hr. unfold MultiExp_inverse. pose proof (exp_pos (- (r - rmin) / R_)).
  assert (exp (- (r - rmin) / R_) < 1).
  { rewrite <- exp_0. apply exp_increasing. assert (0 < (r - rmin) / R_) by (apply Rdiv_lt_0_compat; lra).
    replace (- (r - rmin) / R_) with (- ((r - rmin) / R_)) by (field; lra). lra. }
  lra.
Qed.
Lemma MultiExp_inverse_derivs rmin R_ r : 0 < R_ -> rmin < r ->
  let f := MultiExp_transform rmin R_ in let g := MultiExp_inverse rmin R_ in
  let f1 := MultiExp_deriv rmin R_ in let f2 := MultiExp_deriv2 rmin R_ in let f3 := MultiExp_deriv3 rmin R_ in
  is_derive g r (Base_deriv_inverse f g f1 f2 f3 r) /\
  is_derive (Base_deriv_inverse f g f1 f2 f3) r (Base_deriv2_inverse f g f1 f2 f3 r) /\
  is_derive (Base_deriv2_inverse f g f1 f2 f3) r (Base_deriv3_inverse f g f1 f2 f3 r).
Proof.
  intros HR Hr. cbv zeta.
  apply (Base_inverse_derivs _ _ _ _ _ (fun x => -1 < x < 1) (fun t => rmin < t)).
  - intros t Ht. now apply locally_gt.
  - intros x Hx. inst_derivs MultiExp_d1 MultiExp_d2 MultiExp_d3.
    apply Rlt_not_eq. now apply MultiExp_deriv_neg.
  - intros t Ht. split; [now apply MultiExp_inv_range|]. apply MultiExp_tf_inv; lra.
  - intros t Ht. unfold MultiExp_inverse. auto_derive. lra.
  - exact Hr.
Qed.

(* ---------------- Knowles ---------------- *)
Lemma Knowles_inv_range rmin R_ k r : 0 < R_ -> 0 < k -> rmin < r -> -1 < Knowles_inverse rmin R_ k r < 1.
Proof.
  intros HR Hk Hr. unfold Knowles_inverse.
  assert (He : 0 < exp ((rmin - r) / R_) < 1).
  { split; [apply exp_pos|]. rewrite <- exp_0. apply exp_increasing.
    assert (0 < (r - rmin) / R_) by (apply Rdiv_lt_0_compat; lra).
    replace ((rmin - r) / R_) with (- ((r - rmin) / R_)) by (field; lra). lra. }
  pose proof (Rpower_pos (1 - exp ((rmin - r) / R_)) (1 / k)).
  assert (Rpower (1 - exp ((rmin - r) / R_)) (1 / k) < 1).
  { apply Rpower_lt_1; [lra|]. apply Rdiv_lt_0_compat; lra. }
  lra.
Qed.
Lemma Knowles_inverse_derivs rmin R_ k r : 0 < R_ -> 0 < k -> rmin < r ->
  let f := Knowles_transform rmin R_ k in let g := Knowles_inverse rmin R_ k in
  let f1 := Knowles_deriv rmin R_ k in let f2 := Knowles_deriv2 rmin R_ k in let f3 := Knowles_deriv3 rmin R_ k in
  is_derive g r (Base_deriv_inverse f g f1 f2 f3 r) /\
  is_derive (Base_deriv_inverse f g f1 f2 f3) r (Base_deriv2_inverse f g f1 f2 f3 r) /\
  is_derive (Base_deriv2_inverse f g f1 f2 f3) r (Base_deriv3_inverse f g f1 f2 f3 r).
Proof.
  intros HR Hk Hr. cbv zeta.
  apply (Base_inverse_derivs _ _ _ _ _ (fun x => -1 < x < 1) (fun t => rmin < t)).
  - intros t Ht. now apply locally_gt.
  - intros x Hx. inst_derivs Knowles_d1 Knowles_d2 Knowles_d3.
    apply Rgt_not_eq. now apply Knowles_deriv_pos.
  - intros t Ht. split; [now apply Knowles_inv_range|]. now apply Knowles_tf_inv.
  - intros t Ht. unfold Knowles_inverse, Rpower. auto_derive.
    assert (exp ((rmin - t) / R_) < 1); [|unfold Rminus, Rdiv in *; repeat split; try exact I; lra]. rewrite <- exp_0. apply exp_increasing.
    assert (0 < (t - rmin) / R_) by (apply Rdiv_lt_0_compat; lra).
    replace ((rmin - t) / R_) with (- ((t - rmin) / R_)) by (field; lra). lra.
  - exact Hr.
Qed.

(* ---------------- Handy ---------------- *)
Lemma Handy_inv_range rmin R_ m r : 0 < R_ -> rmin < r -> -1 < Handy_inverse rmin R_ m r < 1.
Proof.
  intros HR Hr. unfold Handy_inverse. cbv zeta.
  pose proof (Rpower_pos (r - rmin) (1 / m)) as H1. pose proof (Rpower_pos R_ (1 / m)) as H2.
  set (S := Rpower (r - rmin) (1 / m)) in *. set (T := Rpower R_ (1 / m)) in *.
  split; apply Rmult_lt_reg_r with (S + T); try lra; unfold Rdiv; rewrite Rmult_assoc, Rinv_l by lra; lra.
Qed.
Lemma Handy_inverse_derivs rmin R_ m r : 0 < R_ -> 0 < m -> rmin < r ->
  let f := Handy_transform rmin R_ m in let g := Handy_inverse rmin R_ m in
  let f1 := Handy_deriv rmin R_ m in let f2 := Handy_deriv2 rmin R_ m in let f3 := Handy_deriv3 rmin R_ m in
  is_derive g r (Base_deriv_inverse f g f1 f2 f3 r) /\
  is_derive (Base_deriv_inverse f g f1 f2 f3) r (Base_deriv2_inverse f g f1 f2 f3 r) /\
  is_derive (Base_deriv2_inverse f g f1 f2 f3) r (Base_deriv3_inverse f g f1 f2 f3 r).
Proof.
  intros HR Hm Hr. cbv zeta.
  apply (Base_inverse_derivs _ _ _ _ _ (fun x => -1 < x < 1) (fun t => rmin < t)).
  - intros t Ht. now apply locally_gt.
  - intros x Hx. inst_derivs Handy_d1 Handy_d2 Handy_d3.
    apply Rgt_not_eq. now apply Handy_deriv_pos.
  - intros t Ht. split; [now apply Handy_inv_range|]. now apply Handy_tf_inv.
  - intros t Ht. unfold Handy_inverse, Rpower. cbv zeta. auto_derive.
    pose proof (exp_pos (1 / m * ln (t - rmin))). pose proof (exp_pos (1 / m * ln R_)).
    unfold Rminus, Rdiv in *. repeat split; try exact I; try lra. all: try (apply Rgt_not_eq; lra).
  - exact Hr.
Qed.
