From Coq Require Import Reals Lra.
From Coquelicot Require Import Coquelicot.
From VLib Require Import RealTac.
From P Require Import C03_gen C03_proofs_handymod.
Open Scope R_scope.

Lemma HandyMod_d3_lemma rmin rmax m x : -1 < x < 1 -> HandyMod_D rmin rmax m x <> 0 ->
  is_derive (HandyMod_deriv2 rmin rmax m) x (HandyMod_deriv3 rmin rmax m x).
Proof.
  intros Hx HD. unfold HandyMod_D in HD. unfold HandyMod_deriv2, HandyMod_deriv3. revert HD. hm_setup m x. intros HD.
  auto_derive; hm_post m x Q; hm_finish HD.
Qed.
