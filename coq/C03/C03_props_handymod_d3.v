(* Separate file: on a tree where HandyModRTransform.deriv3 is wrong this obligation fails alone. *)
From Coq Require Import Reals.
From Coquelicot Require Import Coquelicot.
From P Require Import C03_gen C03_proofs_handymod C03_proofs_handymod_d3.
Open Scope R_scope.

Theorem C03_HandyMod_d3 rmin rmax m x : -1 < x < 1 -> HandyMod_D rmin rmax m x <> 0 ->
  is_derive (HandyMod_deriv2 rmin rmax m) x (HandyMod_deriv3 rmin rmax m x).
Proof. exact (HandyMod_d3_lemma rmin rmax m x). Qed.
Print Assumptions C03_HandyMod_d3.
