(* C03 property theorems: statements only; every proof is `exact <lemma>` from the C03_proofs_* files,
   which are checked against the definitions regenerated from src/grid/rtransform.py on every run. *)
From Coq Require Import Reals.
From Coquelicot Require Import Coquelicot.
From P Require Import C03_gen C03_proofs_knowles.
Open Scope R_scope.

Theorem C03_Knowles_inv_tf rmin R_ k x :
  R_ <> 0 -> 0 < k -> -1 < x < 1 ->
  Knowles_inverse rmin R_ k (Knowles_transform rmin R_ k x) = x.
Proof. exact (Knowles_inv_tf rmin R_ k x). Qed.
Print Assumptions C03_Knowles_inv_tf.

Theorem C03_Knowles_tf_inv rmin R_ k r :
  0 < R_ -> 0 < k -> rmin < r ->
  Knowles_transform rmin R_ k (Knowles_inverse rmin R_ k r) = r.
Proof. exact (Knowles_tf_inv rmin R_ k r). Qed.
Print Assumptions C03_Knowles_tf_inv.

Theorem C03_Knowles_d1 rmin R_ k x :
  0 < k -> -1 < x < 1 ->
  is_derive (Knowles_transform rmin R_ k) x (Knowles_deriv rmin R_ k x).
Proof. exact (Knowles_d1 rmin R_ k x). Qed.
Print Assumptions C03_Knowles_d1.

Theorem C03_Knowles_d2 rmin R_ k x :
  0 < k -> -1 < x < 1 ->
  is_derive (Knowles_deriv rmin R_ k) x (Knowles_deriv2 rmin R_ k x).
Proof. exact (Knowles_d2 rmin R_ k x). Qed.
Print Assumptions C03_Knowles_d2.

Theorem C03_Knowles_d3 rmin R_ k x :
  0 < k -> -1 < x < 1 ->
  is_derive (Knowles_deriv2 rmin R_ k) x (Knowles_deriv3 rmin R_ k x).
Proof. exact (Knowles_d3 rmin R_ k x). Qed.
Print Assumptions C03_Knowles_d3.

Theorem C03_Knowles_deriv_pos rmin R_ k x :
  0 < R_ -> 0 < k -> -1 < x < 1 -> 0 < Knowles_deriv rmin R_ k x.
Proof. exact (Knowles_deriv_pos rmin R_ k x). Qed.
Print Assumptions C03_Knowles_deriv_pos.

Theorem C03_Knowles_range rmin R_ k x :
  0 < R_ -> 0 < k -> -1 < x < 1 -> rmin < Knowles_transform rmin R_ k x.
Proof. exact (Knowles_range rmin R_ k x). Qed.
Print Assumptions C03_Knowles_range.
