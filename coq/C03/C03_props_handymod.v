(* C03 property theorems: statements only; every proof is `exact <lemma>` from the C03_proofs_* files,
   which are checked against the definitions regenerated from src/grid/rtransform.py on every run. *)
From Coq Require Import Reals.
From Coquelicot Require Import Coquelicot.
From P Require Import C03_gen C03_proofs_handymod.
Open Scope R_scope.

Theorem C03_HandyMod_d1 rmin rmax m x :
  -1 < x < 1 -> HandyMod_D rmin rmax m x <> 0 ->
  is_derive (HandyMod_transform rmin rmax m) x (HandyMod_deriv rmin rmax m x).
Proof. exact (HandyMod_d1 rmin rmax m x). Qed.
Print Assumptions C03_HandyMod_d1.

Theorem C03_HandyMod_d2 rmin rmax m x :
  -1 < x < 1 -> HandyMod_D rmin rmax m x <> 0 ->
  is_derive (HandyMod_deriv rmin rmax m) x (HandyMod_deriv2 rmin rmax m x).
Proof. exact (HandyMod_d2 rmin rmax m x). Qed.
Print Assumptions C03_HandyMod_d2.

Theorem C03_HandyMod_D_pos rmin rmax m x :
  0 < m -> Rpower 2 m - 1 < rmax - rmin -> -1 < x < 1 -> 0 < HandyMod_D rmin rmax m x.
Proof. exact (HandyMod_D_pos rmin rmax m x). Qed.
Print Assumptions C03_HandyMod_D_pos.

Theorem C03_HandyMod_deriv_pos rmin rmax m x :
  0 < m -> 0 < rmax - rmin -> Rpower 2 m - 1 < rmax - rmin -> -1 < x < 1 ->
  0 < HandyMod_deriv rmin rmax m x.
Proof. exact (HandyMod_deriv_pos rmin rmax m x). Qed.
Print Assumptions C03_HandyMod_deriv_pos.

Theorem C03_HandyMod_inv_tf rmin rmax m x :
  0 < m -> 0 < rmax - rmin -> Rpower 2 m - 1 < rmax - rmin -> -1 < x < 1 ->
  HandyMod_inverse rmin rmax m (HandyMod_transform rmin rmax m x) = x.
Proof. exact (HandyMod_inv_tf rmin rmax m x). Qed.
Print Assumptions C03_HandyMod_inv_tf.
