(* C03 property theorems: statements only; every proof is `exact <lemma>` from the C03_proofs_* files,
   which are checked against the definitions regenerated from src/grid/rtransform.py on every run. *)
From Coq Require Import Reals.
From Coquelicot Require Import Coquelicot.
From P Require Import C03_gen C03_proofs_inverse C03_proofs_generic.
Open Scope R_scope.

Theorem C03_Becke_inverse_derivs rmin R_ r :
  0 < R_ -> rmin < r ->
  let f := Becke_transform rmin R_ in let g := Becke_inverse rmin R_ in
  let f1 := Becke_deriv rmin R_ in let f2 := Becke_deriv2 rmin R_ in let f3 := Becke_deriv3 rmin R_ in
  is_derive g r (Base_deriv_inverse f g f1 f2 f3 r) /\
  is_derive (Base_deriv_inverse f g f1 f2 f3) r (Base_deriv2_inverse f g f1 f2 f3 r) /\
  is_derive (Base_deriv2_inverse f g f1 f2 f3) r (Base_deriv3_inverse f g f1 f2 f3 r).
Proof. exact (Becke_inverse_derivs rmin R_ r). Qed.
Print Assumptions C03_Becke_inverse_derivs.

Theorem C03_MultiExp_inv_range rmin R_ r :
  0 < R_ -> rmin < r -> -1 < MultiExp_inverse rmin R_ r < 1.
Proof. exact (MultiExp_inv_range rmin R_ r). Qed.
Print Assumptions C03_MultiExp_inv_range.

Theorem C03_MultiExp_inverse_derivs rmin R_ r :
  0 < R_ -> rmin < r ->
  let f := MultiExp_transform rmin R_ in let g := MultiExp_inverse rmin R_ in
  let f1 := MultiExp_deriv rmin R_ in let f2 := MultiExp_deriv2 rmin R_ in let f3 := MultiExp_deriv3 rmin R_ in
  is_derive g r (Base_deriv_inverse f g f1 f2 f3 r) /\
  is_derive (Base_deriv_inverse f g f1 f2 f3) r (Base_deriv2_inverse f g f1 f2 f3 r) /\
  is_derive (Base_deriv2_inverse f g f1 f2 f3) r (Base_deriv3_inverse f g f1 f2 f3 r).
Proof. exact (MultiExp_inverse_derivs rmin R_ r). Qed.
Print Assumptions C03_MultiExp_inverse_derivs.

Theorem C03_Knowles_inv_range rmin R_ k r :
  0 < R_ -> 0 < k -> rmin < r -> -1 < Knowles_inverse rmin R_ k r < 1.
Proof. exact (Knowles_inv_range rmin R_ k r). Qed.
Print Assumptions C03_Knowles_inv_range.

Theorem C03_Knowles_inverse_derivs rmin R_ k r :
  0 < R_ -> 0 < k -> rmin < r ->
  let f := Knowles_transform rmin R_ k in let g := Knowles_inverse rmin R_ k in
  let f1 := Knowles_deriv rmin R_ k in let f2 := Knowles_deriv2 rmin R_ k in let f3 := Knowles_deriv3 rmin R_ k in
  is_derive g r (Base_deriv_inverse f g f1 f2 f3 r) /\
  is_derive (Base_deriv_inverse f g f1 f2 f3) r (Base_deriv2_inverse f g f1 f2 f3 r) /\
  is_derive (Base_deriv2_inverse f g f1 f2 f3) r (Base_deriv3_inverse f g f1 f2 f3 r).
Proof. exact (Knowles_inverse_derivs rmin R_ k r). Qed.
Print Assumptions C03_Knowles_inverse_derivs.

Theorem C03_Handy_inv_range rmin R_ m r :
  0 < R_ -> rmin < r -> -1 < Handy_inverse rmin R_ m r < 1.
Proof. exact (Handy_inv_range rmin R_ m r). Qed.
Print Assumptions C03_Handy_inv_range.

Theorem C03_Handy_inverse_derivs rmin R_ m r :
  0 < R_ -> 0 < m -> rmin < r ->
  let f := Handy_transform rmin R_ m in let g := Handy_inverse rmin R_ m in
  let f1 := Handy_deriv rmin R_ m in let f2 := Handy_deriv2 rmin R_ m in let f3 := Handy_deriv3 rmin R_ m in
  is_derive g r (Base_deriv_inverse f g f1 f2 f3 r) /\
  is_derive (Base_deriv_inverse f g f1 f2 f3) r (Base_deriv2_inverse f g f1 f2 f3 r) /\
  is_derive (Base_deriv2_inverse f g f1 f2 f3) r (Base_deriv3_inverse f g f1 f2 f3 r).
Proof. exact (Handy_inverse_derivs rmin R_ m r). Qed.
Print Assumptions C03_Handy_inverse_derivs.
