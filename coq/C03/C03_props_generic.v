(* C03 property theorems: statements only; every proof is `exact <lemma>` from the C03_proofs_* files,
   which are checked against the definitions regenerated from src/grid/rtransform.py on every run. *)
From Coq Require Import Reals.
From Coquelicot Require Import Coquelicot.
From P Require Import C03_gen C03_proofs_generic.
Open Scope R_scope.
Theorem C03_Base_inverse_derivs : forall (f f1 f2 f3 g : R -> R) (I J : R -> Prop),
  (forall r, J r -> locally r J) ->
  (forall x, I x -> is_derive f x (f1 x) /\ is_derive f1 x (f2 x) /\ is_derive f2 x (f3 x) /\ f1 x <> 0) ->
  (forall r, J r -> I (g r) /\ f (g r) = r) -> (forall r, J r -> ex_derive g r) ->
  forall r, J r ->
    is_derive g r (Base_deriv_inverse f g f1 f2 f3 r) /\
    is_derive (Base_deriv_inverse f g f1 f2 f3) r (Base_deriv2_inverse f g f1 f2 f3 r) /\
    is_derive (Base_deriv2_inverse f g f1 f2 f3) r (Base_deriv3_inverse f g f1 f2 f3 r).
Proof. exact Base_inverse_derivs. Qed.
Print Assumptions C03_Base_inverse_derivs.

Theorem C03_InverseRTransform_derivs : forall (f f1 f2 f3 g : R -> R) (I J : R -> Prop),
  (forall r, J r -> locally r J) ->
  (forall x, I x -> is_derive f x (f1 x) /\ is_derive f1 x (f2 x) /\ is_derive f2 x (f3 x) /\ f1 x <> 0) ->
  (forall r, J r -> I (g r) /\ f (g r) = r) -> (forall r, J r -> ex_derive g r) ->
  forall r, J r ->
    Inverse_transform f g f1 f2 f3 r = g r /\ Inverse_inverse f g f1 f2 f3 (g r) = r /\
    is_derive (Inverse_transform f g f1 f2 f3) r (Inverse_deriv f g f1 f2 f3 r) /\
    is_derive (Inverse_deriv f g f1 f2 f3) r (Inverse_deriv2 f g f1 f2 f3 r) /\
    is_derive (Inverse_deriv2 f g f1 f2 f3) r (Inverse_deriv3 f g f1 f2 f3 r).
Proof. exact InverseRTransform_derivs. Qed.
Print Assumptions C03_InverseRTransform_derivs.
