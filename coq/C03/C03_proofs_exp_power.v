From Coq Require Import Reals Lra.
From Coquelicot Require Import Coquelicot.
From VLib Require Import RealTac.
From P Require Import C03_gen.
Open Scope R_scope.

(* ---------------- Exp ---------------- *)
Lemma Exp_alpha_pos rmin rmax b : 0 < rmin < rmax -> 0 < b -> 0 < ln (rmax / rmin) / b.
Proof. intros H Hb. apply Rdiv_lt_0_compat; [|exact Hb]. rewrite <- ln_1. apply ln_increasing; [lra|].
  apply Rmult_lt_reg_r with rmin; [lra|]. unfold Rdiv. rewrite Rmult_assoc, Rinv_l by lra. lra. Qed.
Lemma Exp_inv_tf rmin rmax b x : 0 < rmin < rmax -> 0 < b -> Exp_inverse rmin rmax b (Exp_transform rmin rmax b x) = x.
Proof. intros H Hb. pose proof (Exp_alpha_pos _ _ _ H Hb) as Ha. unfold Exp_inverse, Exp_transform. cbv zeta.
  set (al := ln (rmax / rmin) / b) in *.
  replace (rmin * exp (x * al) / rmin) with (exp (x * al)) by (field; lra). rewrite ln_exp. field. lra. Qed.
Lemma Exp_tf_inv rmin rmax b r : 0 < rmin < rmax -> 0 < b -> 0 < r -> Exp_transform rmin rmax b (Exp_inverse rmin rmax b r) = r.
Proof. intros H Hb Hr. pose proof (Exp_alpha_pos _ _ _ H Hb) as Ha. unfold Exp_inverse, Exp_transform. cbv zeta.
  set (al := ln (rmax / rmin) / b) in *.
  replace (ln (r / rmin) / al * al) with (ln (r / rmin)) by (field; lra).
  rewrite exp_ln; [field; lra|]. apply Rdiv_lt_0_compat; lra. Qed.
Lemma Exp_d1 rmin rmax b x : is_derive (Exp_transform rmin rmax b) x (Exp_deriv rmin rmax b x).
Proof. unfold Exp_deriv, Exp_transform. cbv zeta. auto_derive; [exact I|ring]. Qed.
Lemma Exp_d2 rmin rmax b x : is_derive (Exp_deriv rmin rmax b) x (Exp_deriv2 rmin rmax b x).
Proof. unfold Exp_deriv2, Exp_deriv, Exp_transform. cbv zeta. auto_derive; [exact I|ring]. Qed.
Lemma Exp_d3 rmin rmax b x : is_derive (Exp_deriv2 rmin rmax b) x (Exp_deriv3 rmin rmax b x).
Proof. unfold Exp_deriv3, Exp_deriv2, Exp_deriv, Exp_transform. cbv zeta. auto_derive; [exact I|ring]. Qed.
Lemma Exp_deriv_pos rmin rmax b x : 0 < rmin < rmax -> 0 < b -> 0 < Exp_deriv rmin rmax b x.
Proof. intros H Hb. pose proof (Exp_alpha_pos _ _ _ H Hb) as Ha. unfold Exp_deriv, Exp_transform. cbv zeta.
  apply Rmult_lt_0_compat; [|exact Ha]. apply Rmult_lt_0_compat; [lra|apply exp_pos]. Qed.
Lemma Exp_ends rmin rmax b : 0 < rmin < rmax -> 0 < b ->
  Exp_transform rmin rmax b 0 = rmin /\ Exp_transform rmin rmax b b = rmax.
Proof. intros H Hb. unfold Exp_transform. cbv zeta. split.
  - rewrite Rmult_0_l, exp_0. ring.
  - replace (b * (ln (rmax / rmin) / b)) with (ln (rmax / rmin)) by (field; lra).
    rewrite exp_ln; [field; lra|]. apply Rdiv_lt_0_compat; lra. Qed.

(* ---------------- Power ---------------- *)
Lemma Power_power_pos rmin rmax b : 0 < rmin < rmax -> 0 < b -> 0 < (ln rmax - ln rmin) / ln (b + 1).
Proof. intros H Hb. apply Rdiv_lt_0_compat.
  - assert (ln rmin < ln rmax) by (apply ln_increasing; lra). lra.
  - rewrite <- ln_1. apply ln_increasing; lra. Qed.
Lemma Power_inv_tf rmin rmax b x : 0 < rmin < rmax -> 0 < b -> -1 < x ->
  Power_inverse rmin rmax b (Power_transform rmin rmax b x) = x.
Proof. intros H Hb Hx. pose proof (Power_power_pos _ _ _ H Hb) as Hp. unfold Power_inverse, Power_transform. cbv zeta.
  set (p := (ln rmax - ln rmin) / ln (b + 1)) in *.
  replace (rmin * Rpower (x + 1) p / rmin) with (Rpower (x + 1) p) by (field; lra).
  rewrite Rpower_inv_k by lra. ring. Qed.
Lemma Power_tf_inv rmin rmax b r : 0 < rmin < rmax -> 0 < b -> 0 < r ->
  Power_transform rmin rmax b (Power_inverse rmin rmax b r) = r.
Proof. intros H Hb Hr. pose proof (Power_power_pos _ _ _ H Hb) as Hp. unfold Power_inverse, Power_transform. cbv zeta.
  set (p := (ln rmax - ln rmin) / ln (b + 1)) in *.
  replace (Rpower (r / rmin) (1 / p) - 1 + 1) with (Rpower (r / rmin) (1 / p)) by ring.
  rewrite Rpower_inv_k'; [field; lra| |lra]. apply Rdiv_lt_0_compat; lra. Qed.
Lemma Power_d1 rmin rmax b x : -1 < x -> is_derive (Power_transform rmin rmax b) x (Power_deriv rmin rmax b x).
Proof. intros Hx. unfold Power_deriv, Power_transform. cbv zeta.
  set (p := (ln rmax - ln rmin) / ln (b + 1)). rewrite Rpower_sub1 by lra.
  unfold Rpower. auto_derive; [lra|]. field. lra. Qed.
Lemma Power_d2 rmin rmax b x : -1 < x -> is_derive (Power_deriv rmin rmax b) x (Power_deriv2 rmin rmax b x).
Proof. intros Hx. unfold Power_deriv, Power_deriv2. cbv zeta.
  set (p := (ln rmax - ln rmin) / ln (b + 1)). rewrite Rpower_sub2 by lra.
  unfold Rpower. auto_derive; [lra|].
  replace ((p - 1) * ln (x + 1)) with (p * ln (x + 1) + - ln (x + 1)) by ring.
  rewrite exp_plus, exp_Ropp, exp_ln by lra. field. lra. Qed.
Lemma Power_d3 rmin rmax b x : -1 < x -> is_derive (Power_deriv2 rmin rmax b) x (Power_deriv3 rmin rmax b x).
Proof. intros Hx. unfold Power_deriv3, Power_deriv2. cbv zeta.
  set (p := (ln rmax - ln rmin) / ln (b + 1)). rewrite Rpower_sub3 by lra.
  unfold Rpower. auto_derive; [lra|].
  replace ((p - 2) * ln (x + 1)) with (p * ln (x + 1) + - (2 * ln (x + 1))) by ring.
  rewrite exp_plus, exp_Ropp. replace (2 * ln (x+1)) with (ln (x+1) + ln (x+1)) by ring. rewrite exp_plus, exp_ln by lra.
  field. lra. Qed.
Lemma Power_deriv_pos rmin rmax b x : 0 < rmin < rmax -> 0 < b -> -1 < x -> 0 < Power_deriv rmin rmax b x.
Proof. intros H Hb Hx. pose proof (Power_power_pos _ _ _ H Hb) as Hp. unfold Power_deriv. cbv zeta.
  apply Rmult_lt_0_compat; [apply Rmult_lt_0_compat; lra|apply Rpower_pos]. Qed.
Lemma Power_ends rmin rmax b : 0 < rmin < rmax -> 0 < b ->
  Power_transform rmin rmax b 0 = rmin /\ Power_transform rmin rmax b b = rmax.
Proof. intros H Hb. unfold Power_transform. cbv zeta. split.
  - replace (0 + 1) with 1 by ring. unfold Rpower. rewrite ln_1, Rmult_0_r, exp_0. ring.
  - assert (L : 0 < ln (b + 1)) by (rewrite <- ln_1; apply ln_increasing; lra).
    unfold Rpower. replace ((ln rmax - ln rmin) / ln (b + 1) * ln (b + 1)) with (ln rmax + - ln rmin) by (field; lra).
    rewrite exp_plus, exp_Ropp, !exp_ln by lra. field. lra. Qed.
