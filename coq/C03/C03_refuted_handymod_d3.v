(* Compiled only to explain a failure of HandyMod_d3: the code's third derivative is not the derivative of its second. *)
From Coq Require Import Reals Lra.
From Coquelicot Require Import Coquelicot.
From Interval Require Import Tactic.
From VLib Require Import RealTac.
From P Require Import C03_gen C03_proofs_handymod.
Open Scope R_scope.

(* the third derivative with the constant term of the bracket corrected: two_m^2 instead of 2*two_m *)
Definition HandyMod_deriv3_true (p_rmin p_rmax p_m : R) (v_x : R) : R :=
  (let v_two_m := (Rpower 2 p_m) in
   (let v_size_r := (p_rmax - p_rmin) in
   ((- (((((p_m * v_two_m) * v_size_r) * ((v_two_m - v_size_r) - 1)) * (Rpower (1 + v_x) (p_m - 3))) * ((((((v_two_m ^ 2) * (p_m - 2)) * (p_m - 1)) * (((1 - v_two_m) + v_size_r) ^ 2)) + ((((((Rpower 2 (p_m + 2)) * (p_m - 1)) * (p_m + 1)) * ((v_two_m - 1) - v_size_r)) * (v_two_m - v_size_r)) * (Rpower (1 + v_x) p_m))) + ((((p_m + 2) * (p_m + 1)) * ((v_two_m - v_size_r) ^ 2)) * (Rpower (v_x + 1) (2 * p_m)))))) / (((v_two_m * ((1 - v_two_m) + v_size_r)) + ((v_two_m - v_size_r) * (Rpower (1 + v_x) p_m))) ^ 4)))).

Lemma HandyMod_d3_true rmin rmax m x : -1 < x < 1 -> HandyMod_D rmin rmax m x <> 0 ->
  is_derive (HandyMod_deriv2 rmin rmax m) x (HandyMod_deriv3_true rmin rmax m x).
Proof.
  intros Hx HD. unfold HandyMod_D in HD. unfold HandyMod_deriv2, HandyMod_deriv3_true. revert HD. hm_setup m x. intros HD.
  auto_derive; hm_post m x Q; hm_finish HD.
Qed.

(* witness: rmin = 0, rmax = 10, m = 3, x = 0 *)
Lemma HandyMod_d3_refuted_lemma : exists rmin rmax m x, 0 < m /\ rmin <= rmax /\ -1 < x < 1 /\ HandyMod_D rmin rmax m x <> 0 /\
  ~ is_derive (HandyMod_deriv2 rmin rmax m) x (HandyMod_deriv3 rmin rmax m x).
Proof.
  exists 0, 10, 3, 0. split; [lra|]. split; [lra|]. split; [lra|].
  assert (HD : HandyMod_D 0 10 3 0 <> 0).
  { apply Rgt_not_eq. unfold HandyMod_D. interval. }
  split; [exact HD|]. intros H.
  pose proof (HandyMod_d3_true 0 10 3 0 ltac:(lra) HD) as Ht.
  pose proof (is_derive_unique _ _ _ H) as E1. pose proof (is_derive_unique _ _ _ Ht) as E2.
  assert (Hne : HandyMod_deriv3 0 10 3 0 - HandyMod_deriv3_true 0 10 3 0 > 1/100 \/ HandyMod_deriv3 0 10 3 0 - HandyMod_deriv3_true 0 10 3 0 < -1/100).
  { unfold HandyMod_deriv3, HandyMod_deriv3_true. cbv zeta. first [left; interval | right; interval]. }
  rewrite <- E1, <- E2 in Hne. lra.
Qed.
