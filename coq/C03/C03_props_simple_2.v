(* C03 property theorems: statements only; every proof is `exact <lemma>` from the C03_proofs_* files,
   which are checked against the definitions regenerated from src/grid/rtransform.py on every run. *)
From Coq Require Import Reals.
From Coquelicot Require Import Coquelicot.
From P Require Import C03_gen C03_proofs_simple.
Open Scope R_scope.

Theorem C03_Becke_d1 rmin R_ x :
  -1 < x < 1 -> is_derive (Becke_transform rmin R_) x (Becke_deriv rmin R_ x).
Proof. exact (Becke_d1 rmin R_ x). Qed.
Print Assumptions C03_Becke_d1.

Theorem C03_Becke_range rmin R_ x :
  0 < R_ -> -1 < x < 1 -> rmin < Becke_transform rmin R_ x.
Proof. exact (Becke_range rmin R_ x). Qed.
Print Assumptions C03_Becke_range.

Theorem C03_Becke_left_end rmin R_ :
  Becke_transform rmin R_ (-1) = rmin.
Proof. exact (Becke_left_end rmin R_). Qed.
Print Assumptions C03_Becke_left_end.

Theorem C03_LinearFinite_d1 rmin rmax x :
  is_derive (LinearFinite_transform rmin rmax) x (LinearFinite_deriv rmin rmax x).
Proof. exact (LinearFinite_d1 rmin rmax x). Qed.
Print Assumptions C03_LinearFinite_d1.

Theorem C03_LinearFinite_scalar_branches rmin rmax x :
  LinearFinite_deriv_scalar rmin rmax x = LinearFinite_deriv rmin rmax x /\
  LinearFinite_deriv2_scalar rmin rmax x = LinearFinite_deriv2 rmin rmax x /\
  LinearFinite_deriv3_scalar rmin rmax x = LinearFinite_deriv3 rmin rmax x.
Proof. exact (LinearFinite_scalar_branches rmin rmax x). Qed.
Print Assumptions C03_LinearFinite_scalar_branches.

Theorem C03_LinearFinite_deriv_pos rmin rmax x :
  rmin < rmax -> 0 < LinearFinite_deriv rmin rmax x.
Proof. exact (LinearFinite_deriv_pos rmin rmax x). Qed.
Print Assumptions C03_LinearFinite_deriv_pos.

Theorem C03_Identity_d1 x :
  is_derive Identity_transform x (Identity_deriv x).
Proof. exact (Identity_d1 x). Qed.
Print Assumptions C03_Identity_d1.

Theorem C03_Identity_scalar_branches x :
  Identity_deriv_scalar x = Identity_deriv x /\ Identity_deriv2_scalar x = Identity_deriv2 x /\
  Identity_deriv3_scalar x = Identity_deriv3 x.
Proof. exact (Identity_scalar_branches x). Qed.
Print Assumptions C03_Identity_scalar_branches.

Theorem C03_LinearInfinite_tf_inv rmin rmax b r :
  rmin < rmax -> b <> 0 ->
  LinearInfinite_transform rmin rmax b (LinearInfinite_inverse rmin rmax b r) = r.
Proof. exact (LinearInfinite_tf_inv rmin rmax b r). Qed.
Print Assumptions C03_LinearInfinite_tf_inv.

Theorem C03_LinearInfinite_d3 rmin rmax b x :
  is_derive (LinearInfinite_deriv2 rmin rmax b) x (LinearInfinite_deriv3 rmin rmax b x).
Proof. exact (LinearInfinite_d3 rmin rmax b x). Qed.
Print Assumptions C03_LinearInfinite_d3.

Theorem C03_Hyperbolic_inv_tf a b x :
  0 < a -> 0 < b -> 0 < 1 - b * x ->
  Hyperbolic_inverse a b (Hyperbolic_transform a b x) = x.
Proof. exact (Hyperbolic_inv_tf a b x). Qed.
Print Assumptions C03_Hyperbolic_inv_tf.

Theorem C03_Hyperbolic_d2 a b x :
  0 < 1 - b * x -> is_derive (Hyperbolic_deriv a b) x (Hyperbolic_deriv2 a b x).
Proof. exact (Hyperbolic_d2 a b x). Qed.
Print Assumptions C03_Hyperbolic_d2.

Theorem C03_Hyperbolic_left_end a b :
  Hyperbolic_transform a b 0 = 0.
Proof. exact (Hyperbolic_left_end a b). Qed.
Print Assumptions C03_Hyperbolic_left_end.

Theorem C03_MultiExp_d1 rmin R_ x :
  -1 < x < 1 -> is_derive (MultiExp_transform rmin R_) x (MultiExp_deriv rmin R_ x).
Proof. exact (MultiExp_d1 rmin R_ x). Qed.
Print Assumptions C03_MultiExp_d1.

Theorem C03_MultiExp_deriv_neg rmin R_ x :
  0 < R_ -> -1 < x < 1 -> MultiExp_deriv rmin R_ x < 0.
Proof. exact (MultiExp_deriv_neg rmin R_ x). Qed.
Print Assumptions C03_MultiExp_deriv_neg.
