(* C03 property theorems: statements only; every proof is `exact <lemma>` from the C03_proofs_* files,
   which are checked against the definitions regenerated from src/grid/rtransform.py on every run. *)
From Coq Require Import Reals.
From Coquelicot Require Import Coquelicot.
From P Require Import C03_gen C03_proofs_exp_power.
Open Scope R_scope.

Theorem C03_Exp_inv_tf rmin rmax b x :
  0 < rmin < rmax -> 0 < b -> Exp_inverse rmin rmax b (Exp_transform rmin rmax b x) = x.
Proof. exact (Exp_inv_tf rmin rmax b x). Qed.
Print Assumptions C03_Exp_inv_tf.

Theorem C03_Exp_tf_inv rmin rmax b r :
  0 < rmin < rmax -> 0 < b -> 0 < r -> Exp_transform rmin rmax b (Exp_inverse rmin rmax b r) = r.
Proof. exact (Exp_tf_inv rmin rmax b r). Qed.
Print Assumptions C03_Exp_tf_inv.

Theorem C03_Exp_d1 rmin rmax b x :
  is_derive (Exp_transform rmin rmax b) x (Exp_deriv rmin rmax b x).
Proof. exact (Exp_d1 rmin rmax b x). Qed.
Print Assumptions C03_Exp_d1.

Theorem C03_Exp_d2 rmin rmax b x :
  is_derive (Exp_deriv rmin rmax b) x (Exp_deriv2 rmin rmax b x).
Proof. exact (Exp_d2 rmin rmax b x). Qed.
Print Assumptions C03_Exp_d2.

Theorem C03_Exp_d3 rmin rmax b x :
  is_derive (Exp_deriv2 rmin rmax b) x (Exp_deriv3 rmin rmax b x).
Proof. exact (Exp_d3 rmin rmax b x). Qed.
Print Assumptions C03_Exp_d3.

Theorem C03_Exp_deriv_pos rmin rmax b x :
  0 < rmin < rmax -> 0 < b -> 0 < Exp_deriv rmin rmax b x.
Proof. exact (Exp_deriv_pos rmin rmax b x). Qed.
Print Assumptions C03_Exp_deriv_pos.

Theorem C03_Exp_ends rmin rmax b :
  0 < rmin < rmax -> 0 < b ->
  Exp_transform rmin rmax b 0 = rmin /\ Exp_transform rmin rmax b b = rmax.
Proof. exact (Exp_ends rmin rmax b). Qed.
Print Assumptions C03_Exp_ends.

Theorem C03_Power_inv_tf rmin rmax b x :
  0 < rmin < rmax -> 0 < b -> -1 < x ->
  Power_inverse rmin rmax b (Power_transform rmin rmax b x) = x.
Proof. exact (Power_inv_tf rmin rmax b x). Qed.
Print Assumptions C03_Power_inv_tf.

Theorem C03_Power_tf_inv rmin rmax b r :
  0 < rmin < rmax -> 0 < b -> 0 < r ->
  Power_transform rmin rmax b (Power_inverse rmin rmax b r) = r.
Proof. exact (Power_tf_inv rmin rmax b r). Qed.
Print Assumptions C03_Power_tf_inv.

Theorem C03_Power_d1 rmin rmax b x :
  -1 < x -> is_derive (Power_transform rmin rmax b) x (Power_deriv rmin rmax b x).
Proof. exact (Power_d1 rmin rmax b x). Qed.
Print Assumptions C03_Power_d1.

Theorem C03_Power_d2 rmin rmax b x :
  -1 < x -> is_derive (Power_deriv rmin rmax b) x (Power_deriv2 rmin rmax b x).
Proof. exact (Power_d2 rmin rmax b x). Qed.
Print Assumptions C03_Power_d2.

Theorem C03_Power_d3 rmin rmax b x :
  -1 < x -> is_derive (Power_deriv2 rmin rmax b) x (Power_deriv3 rmin rmax b x).
Proof. exact (Power_d3 rmin rmax b x). Qed.
Print Assumptions C03_Power_d3.

Theorem C03_Power_deriv_pos rmin rmax b x :
  0 < rmin < rmax -> 0 < b -> -1 < x -> 0 < Power_deriv rmin rmax b x.
Proof. exact (Power_deriv_pos rmin rmax b x). Qed.
Print Assumptions C03_Power_deriv_pos.

Theorem C03_Power_ends rmin rmax b :
  0 < rmin < rmax -> 0 < b ->
  Power_transform rmin rmax b 0 = rmin /\ Power_transform rmin rmax b b = rmax.
Proof. exact (Power_ends rmin rmax b). Qed.
Print Assumptions C03_Power_ends.
