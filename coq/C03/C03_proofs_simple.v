From Coq Require Import Reals Lra.
From Coquelicot Require Import Coquelicot.
From VLib Require Import RealTac.
From P Require Import C03_gen.
Open Scope R_scope.

(* ---------------- Becke ---------------- *)
Lemma Becke_inv_tf rmin R_ x : R_ <> 0 -> -1 < x < 1 -> Becke_inverse rmin R_ (Becke_transform rmin R_ x) = x.
Proof. intros HR Hx. unfold Becke_inverse, Becke_transform. cbv zeta. field. repeat split; nz. Qed.
Lemma Becke_tf_inv rmin R_ r : R_ <> 0 -> r - rmin + R_ <> 0 -> Becke_transform rmin R_ (Becke_inverse rmin R_ r) = r.
Proof. intros HR Hr. unfold Becke_inverse, Becke_transform. cbv zeta. field. repeat split; nz. Qed.
Lemma Becke_d1 rmin R_ x : -1 < x < 1 -> is_derive (Becke_transform rmin R_) x (Becke_deriv rmin R_ x).
Proof. intros Hx. unfold Becke_transform, Becke_deriv. cbv zeta. dsolve. Qed.
Lemma Becke_d2 rmin R_ x : -1 < x < 1 -> is_derive (Becke_deriv rmin R_) x (Becke_deriv2 rmin R_ x).
Proof. intros Hx. unfold Becke_deriv2, Becke_deriv. cbv zeta. dsolve. Qed.
Lemma Becke_d3 rmin R_ x : -1 < x < 1 -> is_derive (Becke_deriv2 rmin R_) x (Becke_deriv3 rmin R_ x).
Proof. intros Hx. unfold Becke_deriv2, Becke_deriv3. cbv zeta. dsolve. Qed.
Lemma Becke_range rmin R_ x : 0 < R_ -> -1 < x < 1 -> rmin < Becke_transform rmin R_ x.
Proof. intros HR Hx. unfold Becke_transform. cbv zeta. assert (0 < R_ * (1 + x) / (1 - x)); [|lra].
  apply Rdiv_lt_0_compat; nra. Qed.
Lemma Becke_inv_range rmin R_ r : 0 < R_ -> rmin < r -> -1 < Becke_inverse rmin R_ r < 1.
Proof. intros HR Hr. unfold Becke_inverse. assert (H : 0 < r - rmin + R_) by lra. split.
  - apply Rmult_lt_reg_r with (r - rmin + R_); [exact H|]. unfold Rdiv. rewrite Rmult_assoc, Rinv_l by lra. lra.
  - apply Rmult_lt_reg_r with (r - rmin + R_); [exact H|]. unfold Rdiv. rewrite Rmult_assoc, Rinv_l by lra. lra.
Qed.
Lemma Becke_deriv_pos rmin R_ x : 0 < R_ -> -1 < x < 1 -> 0 < Becke_deriv rmin R_ x.
Proof. intros HR Hx. unfold Becke_deriv. cbv zeta. apply Rdiv_lt_0_compat; nra. Qed.
Lemma Becke_left_end rmin R_ : Becke_transform rmin R_ (-1) = rmin.
Proof. unfold Becke_transform. cbv zeta. field. Qed.

(* ---------------- LinearFinite ---------------- *)
Lemma LinearFinite_inv_tf rmin rmax x : rmax <> rmin -> LinearFinite_inverse rmin rmax (LinearFinite_transform rmin rmax x) = x.
Proof. intros H. unfold LinearFinite_inverse, LinearFinite_transform. field. nz. Qed.
Lemma LinearFinite_tf_inv rmin rmax r : rmax <> rmin -> LinearFinite_transform rmin rmax (LinearFinite_inverse rmin rmax r) = r.
Proof. intros H. unfold LinearFinite_inverse, LinearFinite_transform. field. nz. Qed.
Lemma LinearFinite_d1 rmin rmax x : is_derive (LinearFinite_transform rmin rmax) x (LinearFinite_deriv rmin rmax x).
Proof. unfold LinearFinite_transform, LinearFinite_deriv. dsolve. Qed.
Lemma LinearFinite_d2 rmin rmax x : is_derive (LinearFinite_deriv rmin rmax) x (LinearFinite_deriv2 rmin rmax x).
Proof. unfold LinearFinite_deriv2, LinearFinite_deriv. dsolve. Qed.
Lemma LinearFinite_d3 rmin rmax x : is_derive (LinearFinite_deriv2 rmin rmax) x (LinearFinite_deriv3 rmin rmax x).
Proof. unfold LinearFinite_deriv2, LinearFinite_deriv3. dsolve. Qed.
Lemma LinearFinite_scalar_branches rmin rmax x :
  LinearFinite_deriv_scalar rmin rmax x = LinearFinite_deriv rmin rmax x /\
  LinearFinite_deriv2_scalar rmin rmax x = LinearFinite_deriv2 rmin rmax x /\
  LinearFinite_deriv3_scalar rmin rmax x = LinearFinite_deriv3 rmin rmax x.
Proof. unfold LinearFinite_deriv_scalar, LinearFinite_deriv, LinearFinite_deriv2_scalar, LinearFinite_deriv2,
  LinearFinite_deriv3_scalar, LinearFinite_deriv3. repeat split; try reflexivity; field. Qed.
Lemma LinearFinite_ends rmin rmax : LinearFinite_transform rmin rmax (-1) = rmin /\ LinearFinite_transform rmin rmax 1 = rmax.
Proof. unfold LinearFinite_transform. split; field. Qed.
Lemma LinearFinite_range rmin rmax x : rmin < rmax -> -1 < x < 1 -> rmin < LinearFinite_transform rmin rmax x < rmax.
Proof. intros H Hx. unfold LinearFinite_transform. split; nra. Qed.
Lemma LinearFinite_deriv_pos rmin rmax x : rmin < rmax -> 0 < LinearFinite_deriv rmin rmax x.
Proof. intros H. unfold LinearFinite_deriv. lra. Qed.

(* ---------------- Identity ---------------- *)
Lemma Identity_inv_tf x : Identity_inverse (Identity_transform x) = x.
Proof. reflexivity. Qed.
Lemma Identity_tf_inv x : Identity_transform (Identity_inverse x) = x.
Proof. reflexivity. Qed.
Lemma Identity_d1 x : is_derive Identity_transform x (Identity_deriv x).
Proof. unfold Identity_transform, Identity_deriv. dsolve. Qed.
Lemma Identity_d2 x : is_derive Identity_deriv x (Identity_deriv2 x).
Proof. unfold Identity_deriv2, Identity_deriv. dsolve. Qed.
Lemma Identity_d3 x : is_derive Identity_deriv2 x (Identity_deriv3 x).
Proof. unfold Identity_deriv2, Identity_deriv3. dsolve. Qed.
Lemma Identity_scalar_branches x : Identity_deriv_scalar x = Identity_deriv x /\ Identity_deriv2_scalar x = Identity_deriv2 x /\
  Identity_deriv3_scalar x = Identity_deriv3 x.
Proof. repeat split. Qed.
Lemma Identity_deriv_pos x : 0 < Identity_deriv x.
Proof. unfold Identity_deriv. lra. Qed.

(* ---------------- LinearInfinite ---------------- *)
Lemma LinearInfinite_inv_tf rmin rmax b x : rmin < rmax -> b <> 0 ->
  LinearInfinite_inverse rmin rmax b (LinearInfinite_transform rmin rmax b x) = x.
Proof. intros H Hb. unfold LinearInfinite_inverse, LinearInfinite_transform. cbv zeta. field. repeat split; nz. Qed.
Lemma LinearInfinite_tf_inv rmin rmax b r : rmin < rmax -> b <> 0 ->
  LinearInfinite_transform rmin rmax b (LinearInfinite_inverse rmin rmax b r) = r.
Proof. intros H Hb. unfold LinearInfinite_inverse, LinearInfinite_transform. cbv zeta. field. repeat split; nz. Qed.
Lemma LinearInfinite_d1 rmin rmax b x : b <> 0 -> is_derive (LinearInfinite_transform rmin rmax b) x (LinearInfinite_deriv rmin rmax b x).
Proof. intros Hb. unfold LinearInfinite_transform, LinearInfinite_deriv. cbv zeta. auto_derive; [exact I|field; exact Hb]. Qed.
Lemma LinearInfinite_d2 rmin rmax b x : is_derive (LinearInfinite_deriv rmin rmax b) x (LinearInfinite_deriv2 rmin rmax b x).
Proof. unfold LinearInfinite_deriv2, LinearInfinite_deriv. cbv zeta. auto_derive; [exact I|ring]. Qed.
Lemma LinearInfinite_d3 rmin rmax b x : is_derive (LinearInfinite_deriv2 rmin rmax b) x (LinearInfinite_deriv3 rmin rmax b x).
Proof. unfold LinearInfinite_deriv2, LinearInfinite_deriv3. auto_derive; [exact I|ring]. Qed.
Lemma LinearInfinite_ends rmin rmax b : b <> 0 ->
  LinearInfinite_transform rmin rmax b 0 = rmin /\ LinearInfinite_transform rmin rmax b b = rmax.
Proof. intros Hb. unfold LinearInfinite_transform. cbv zeta. split; field; exact Hb. Qed.
Lemma LinearInfinite_deriv_pos rmin rmax b x : rmin < rmax -> 0 < b -> 0 < LinearInfinite_deriv rmin rmax b x.
Proof. intros H Hb. unfold LinearInfinite_deriv. cbv zeta. rewrite Rmult_1_l. apply Rdiv_lt_0_compat; lra. Qed.

(* ---------------- Hyperbolic ---------------- *)
Lemma Hyperbolic_inv_tf a b x : 0 < a -> 0 < b -> 0 < 1 - b * x ->
  Hyperbolic_inverse a b (Hyperbolic_transform a b x) = x.
Proof. intros Ha Hb Hx. unfold Hyperbolic_inverse, Hyperbolic_transform. field. repeat split; nz. Qed.
Lemma Hyperbolic_tf_inv a b r : 0 < a -> 0 < b -> 0 <= r ->
  Hyperbolic_transform a b (Hyperbolic_inverse a b r) = r.
Proof. intros Ha Hb Hr. unfold Hyperbolic_inverse, Hyperbolic_transform. field. repeat split; nz. Qed.
Lemma Hyperbolic_d1 a b x : 0 < 1 - b * x -> is_derive (Hyperbolic_transform a b) x (Hyperbolic_deriv a b x).
Proof. intros Hx. unfold Hyperbolic_transform, Hyperbolic_deriv. cbv zeta. dsolve. Qed.
Lemma Hyperbolic_d2 a b x : 0 < 1 - b * x -> is_derive (Hyperbolic_deriv a b) x (Hyperbolic_deriv2 a b x).
Proof. intros Hx. unfold Hyperbolic_deriv2, Hyperbolic_deriv. cbv zeta. dsolve. Qed.
Lemma Hyperbolic_d3 a b x : 0 < 1 - b * x -> is_derive (Hyperbolic_deriv2 a b) x (Hyperbolic_deriv3 a b x).
Proof. intros Hx. unfold Hyperbolic_deriv2, Hyperbolic_deriv3. cbv zeta. dsolve. Qed.
Lemma Hyperbolic_deriv_pos a b x : 0 < a -> 0 < 1 - b * x -> 0 < Hyperbolic_deriv a b x.
Proof. intros Ha Hx. unfold Hyperbolic_deriv. cbv zeta. assert (0 < 1 / (1 - b * x)) by (apply Rdiv_lt_0_compat; lra).
  apply Rmult_lt_0_compat; [apply Rmult_lt_0_compat|]; assumption. Qed.
Lemma Hyperbolic_left_end a b : Hyperbolic_transform a b 0 = 0.
Proof. unfold Hyperbolic_transform. field_simplify; lra. Qed.

(* ---------------- MultiExp ---------------- *)
Lemma MultiExp_inv_tf rmin R_ x : R_ <> 0 -> -1 < x < 1 -> MultiExp_inverse rmin R_ (MultiExp_transform rmin R_ x) = x.
Proof. intros HR Hx. unfold MultiExp_inverse, MultiExp_transform. cbv zeta.
  replace (- (- R_ * ln ((x + 1) / 2) + rmin - rmin) / R_) with (ln ((x + 1) / 2)) by (field; exact HR).
  rewrite exp_ln by lra. field. Qed.
Lemma MultiExp_tf_inv rmin R_ r : R_ <> 0 -> MultiExp_transform rmin R_ (MultiExp_inverse rmin R_ r) = r.
Proof. intros HR. unfold MultiExp_inverse, MultiExp_transform. cbv zeta.
  replace ((2 * exp (- (r - rmin) / R_) - 1 + 1) / 2) with (exp (- (r - rmin) / R_)) by field.
  rewrite ln_exp. field. exact HR. Qed.
Lemma MultiExp_d1 rmin R_ x : -1 < x < 1 -> is_derive (MultiExp_transform rmin R_) x (MultiExp_deriv rmin R_ x).
Proof. intros Hx. unfold MultiExp_transform, MultiExp_deriv. cbv zeta. dsolve. Qed.
Lemma MultiExp_d2 rmin R_ x : -1 < x < 1 -> is_derive (MultiExp_deriv rmin R_) x (MultiExp_deriv2 rmin R_ x).
Proof. intros Hx. unfold MultiExp_deriv2, MultiExp_deriv. cbv zeta. dsolve. Qed.
Lemma MultiExp_d3 rmin R_ x : -1 < x < 1 -> is_derive (MultiExp_deriv2 rmin R_) x (MultiExp_deriv3 rmin R_ x).
Proof. intros Hx. unfold MultiExp_deriv2, MultiExp_deriv3. cbv zeta. dsolve. Qed.
(* the multi-exponential map is DEcreasing *)
Lemma MultiExp_deriv_neg rmin R_ x : 0 < R_ -> -1 < x < 1 -> MultiExp_deriv rmin R_ x < 0.
Proof. intros HR Hx. unfold MultiExp_deriv. assert (0 < R_ / (1 + x)) by (apply Rdiv_lt_0_compat; lra).
  replace (- R_ / (1 + x)) with (- (R_ / (1 + x))) by (field; lra). lra. Qed.
Lemma MultiExp_right_end rmin R_ : MultiExp_transform rmin R_ 1 = rmin.
Proof. unfold MultiExp_transform. cbv zeta. replace ((1 + 1) / 2) with 1 by field. rewrite ln_1. ring. Qed.
