From Coq Require Import Reals Lra.
From Coquelicot Require Import Coquelicot.
From VLib Require Import RealTac.
From P Require Import C03_gen.
Open Scope R_scope.

Lemma exp_m_lndiv m a c : 0 < a -> 0 < c -> exp (m * ln (a / c)) = exp (m * ln a) / exp (m * ln c).
Proof. intros Ha Hc. exact (Rpower_div a c m Ha Hc). Qed.

(* ---------------- Handy ---------------- *)
Ltac handy_post m x A C :=
  fold (1 - x); fold ((1 + x) / (1 - x));
  rewrite ?(exp_m_lndiv m (1 + x) (1 - x)), ?(exp_km1 m (1 + x)), ?(exp_km2 m (1 + x)), ?(exp_km3 m (1 + x)),
          ?(exp_kp1 m (1 - x)), ?(exp_kp2 m (1 - x)), ?(exp_kp3 m (1 - x)) by lra; fold A; fold C.

Lemma Handy_d1 rmin R_ m x : -1 < x < 1 -> is_derive (Handy_transform rmin R_ m) x (Handy_deriv rmin R_ m x).
Proof.
  intros Hx. unfold Handy_transform, Handy_deriv. cbv zeta.
  rewrite Rpower_sub1, Rpower_add1 by lra. unfold Rpower.
  pose proof (exp_pos (m * ln (1 + x))) as HA. pose proof (exp_pos (m * ln (1 - x))) as HC.
  set (A := exp (m * ln (1 + x))) in *. set (C := exp (m * ln (1 - x))) in *.
  auto_derive; handy_post m x A C.
  - repeat split; try exact I; try lra. apply Rdiv_lt_0_compat; lra.
  - field. repeat split; lra.
Qed.
Lemma Handy_d2 rmin R_ m x : -1 < x < 1 -> is_derive (Handy_deriv rmin R_ m) x (Handy_deriv2 rmin R_ m x).
Proof.
  intros Hx. unfold Handy_deriv2, Handy_deriv. cbv zeta.
  rewrite Rpower_sub2, Rpower_add2 by lra. unfold Rpower.
  pose proof (exp_pos (m * ln (1 + x))) as HA. pose proof (exp_pos (m * ln (1 - x))) as HC.
  set (A := exp (m * ln (1 + x))) in *. set (C := exp (m * ln (1 - x))) in *.
  auto_derive; handy_post m x A C.
  - repeat split; try exact I; try lra. apply Rgt_not_eq. apply Rmult_lt_0_compat; lra.
  - field. repeat split; lra.
Qed.
Lemma Handy_d3 rmin R_ m x : -1 < x < 1 -> is_derive (Handy_deriv2 rmin R_ m) x (Handy_deriv3 rmin R_ m x).
Proof.
  intros Hx. unfold Handy_deriv2, Handy_deriv3. cbv zeta.
  rewrite Rpower_sub3, Rpower_add3 by lra. unfold Rpower.
  pose proof (exp_pos (m * ln (1 + x))) as HA. pose proof (exp_pos (m * ln (1 - x))) as HC.
  set (A := exp (m * ln (1 + x))) in *. set (C := exp (m * ln (1 - x))) in *.
  auto_derive; handy_post m x A C.
  - repeat split; try exact I; try lra. apply Rgt_not_eq. apply Rmult_lt_0_compat; try lra. nra.
  - field. repeat split; lra.
Qed.

Lemma Handy_inv_tf rmin R_ m x : 0 < R_ -> 0 < m -> -1 < x < 1 ->
  Handy_inverse rmin R_ m (Handy_transform rmin R_ m x) = x.
Proof.
  intros HR Hm Hx. unfold Handy_inverse, Handy_transform. cbv zeta.
  assert (Hq : 0 < (1 + x) / (1 - x)) by (apply Rdiv_lt_0_compat; lra).
  set (q := (1 + x) / (1 - x)) in *.
  replace (R_ * Rpower q m + rmin - rmin) with (R_ * Rpower q m) by ring.
  rewrite <- Rpower_mult_distr by (try apply Rpower_pos; lra).
  rewrite Rpower_inv_k by lra.
  pose proof (Rpower_pos R_ (1 / m)) as HT. set (T := Rpower R_ (1 / m)) in *.
  unfold q. field. repeat split; try lra; nz.
Qed.

Lemma Handy_tf_inv rmin R_ m r : 0 < R_ -> 0 < m -> rmin < r ->
  Handy_transform rmin R_ m (Handy_inverse rmin R_ m r) = r.
Proof.
  intros HR Hm Hr. unfold Handy_inverse, Handy_transform. cbv zeta.
  pose proof (Rpower_pos R_ (1 / m)) as HT. pose proof (Rpower_pos (r - rmin) (1 / m)) as HS.
  assert (E1 : Rpower (Rpower R_ (1 / m)) m = R_) by (apply Rpower_inv_k'; lra).
  assert (E2 : Rpower (Rpower (r - rmin) (1 / m)) m = r - rmin) by (apply Rpower_inv_k'; lra).
  set (T := Rpower R_ (1 / m)) in *. set (S := Rpower (r - rmin) (1 / m)) in *.
  replace ((1 + (S - T) / (S + T)) / (1 - (S - T) / (S + T))) with (S / T) by (field; repeat split; lra).
  rewrite Rpower_div by lra. rewrite E1, E2. field. lra.
Qed.

Lemma Handy_deriv_pos rmin R_ m x : 0 < R_ -> 0 < m -> -1 < x < 1 -> 0 < Handy_deriv rmin R_ m x.
Proof.
  intros HR Hm Hx. unfold Handy_deriv. cbv zeta.
  apply Rdiv_lt_0_compat; [|apply Rpower_pos]. apply Rmult_lt_0_compat; [nra|apply Rpower_pos].
Qed.

Lemma Handy_range rmin R_ m x : 0 < R_ -> -1 < x < 1 -> rmin < Handy_transform rmin R_ m x.
Proof.
  intros HR Hx. unfold Handy_transform. cbv zeta. pose proof (Rpower_pos ((1 + x) / (1 - x)) m). nra.
Qed.
