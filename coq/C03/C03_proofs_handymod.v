From Coq Require Import Reals Lra.
From Coquelicot Require Import Coquelicot.
From VLib Require Import RealTac.
From P Require Import C03_gen.
Open Scope R_scope.

(* ---------------- HandyMod ---------------- *)
(* common denominator  D = 2^m (1 - 2^m + s) + (2^m - s) (1+x)^m,   s = rmax - rmin *)
Definition HandyMod_D (rmin rmax m x : R) : R :=
  Rpower 2 m * (1 - Rpower 2 m + (rmax - rmin)) + (Rpower 2 m - (rmax - rmin)) * Rpower (1 + x) m.

Ltac hm_setup m x :=
  cbv zeta; rewrite ?Rpower_sub1, ?Rpower_sub2, ?Rpower_sub3, ?(Rpower_add2 2 m) by lra;
  replace (x + 1) with (1 + x) in * by ring; rewrite ?Rpower_2k;
  unfold Rpower;
  pose proof (exp_pos (m * ln 2)) as HT; pose proof (exp_pos (m * ln (1 + x))) as HQ;
  set (Q := exp (m * ln (1 + x))) in *; set (T := exp (m * ln 2)) in *.
Ltac hm_post m x Q :=
  rewrite ?(exp_km1 m (1 + x)), ?(exp_km2 m (1 + x)), ?(exp_km3 m (1 + x)) by lra; fold Q.

Ltac hm_nz HD := first [ lra | exact I | exact HD | (let Z := fresh in intro Z; apply HD; rewrite <- Z; ring)
   | apply pow_nonzero; hm_nz HD | apply Rmult_integral_contrapositive_currified; hm_nz HD ].
Ltac hm_finish HD := match goal with
  | |- _ = _ => field; repeat split; hm_nz HD
  | |- _ => repeat split; hm_nz HD end.

Lemma HandyMod_d1 rmin rmax m x : -1 < x < 1 -> HandyMod_D rmin rmax m x <> 0 ->
  is_derive (HandyMod_transform rmin rmax m) x (HandyMod_deriv rmin rmax m x).
Proof.
  intros Hx HD. unfold HandyMod_D in HD. unfold HandyMod_transform, HandyMod_deriv. revert HD. hm_setup m x. intros HD.
  auto_derive; hm_post m x Q; hm_finish HD.
Qed.

Lemma HandyMod_d2 rmin rmax m x : -1 < x < 1 -> HandyMod_D rmin rmax m x <> 0 ->
  is_derive (HandyMod_deriv rmin rmax m) x (HandyMod_deriv2 rmin rmax m x).
Proof.
  intros Hx HD. unfold HandyMod_D in HD. unfold HandyMod_deriv2, HandyMod_deriv. revert HD. hm_setup m x. intros HD.
  auto_derive; hm_post m x Q; hm_finish HD.
Qed.
Lemma HandyMod_D_pos rmin rmax m x : 0 < m -> Rpower 2 m - 1 < rmax - rmin -> -1 < x < 1 -> 0 < HandyMod_D rmin rmax m x.
Proof.
  intros Hm Hs Hx. unfold HandyMod_D.
  assert (HQ : 0 < Rpower (1 + x) m < Rpower 2 m) by (split; [apply Rpower_pos|apply Rlt_Rpower_l; lra]).
  pose proof (Rpower_pos 2 m) as HT. set (T := Rpower 2 m) in *. set (Q := Rpower (1 + x) m) in *. set (s := rmax - rmin) in *.
  (* linear in Q: positive at Q=0 and at Q=T *)
  destruct (Rle_lt_dec s T) as [Hle|Hgt].
  - assert (0 <= (T - s) * Q) by (apply Rmult_le_pos; lra). nra.
  - assert ((T - s) * Q > (T - s) * T) by (apply Rmult_lt_gt_compat_neg_l; lra). nra.
Qed.

Lemma HandyMod_deriv_pos rmin rmax m x : 0 < m -> 0 < rmax - rmin -> Rpower 2 m - 1 < rmax - rmin -> -1 < x < 1 ->
  0 < HandyMod_deriv rmin rmax m x.
Proof.
  intros Hm Hs0 Hs Hx. pose proof (HandyMod_D_pos rmin rmax m x Hm Hs Hx) as HD. unfold HandyMod_D in HD.
  unfold HandyMod_deriv. cbv zeta. pose proof (Rpower_pos 2 m) as HT. pose proof (Rpower_pos (1 + x) (m - 1)) as HQ1.
  set (T := Rpower 2 m) in *. set (s := rmax - rmin) in *.
  apply Rdiv_lt_0_compat; [|apply pow_lt; exact HD].
  replace (- (m * T * (T - s - 1) * s * Rpower (1 + x) (m - 1))) with (m * T * (s + 1 - T) * s * Rpower (1 + x) (m - 1)) by ring.
  repeat apply Rmult_lt_0_compat; lra.
Qed.

Lemma HandyMod_inv_tf rmin rmax m x : 0 < m -> 0 < rmax - rmin -> Rpower 2 m - 1 < rmax - rmin -> -1 < x < 1 ->
  HandyMod_inverse rmin rmax m (HandyMod_transform rmin rmax m x) = x.
Proof.
  intros Hm Hs0 Hs Hx. pose proof (HandyMod_D_pos rmin rmax m x Hm Hs Hx) as HD. unfold HandyMod_D in HD.
  unfold HandyMod_inverse, HandyMod_transform. cbv zeta.
  pose proof (Rpower_pos 2 m) as HT. pose proof (Rpower_pos (1 + x) m) as HQ.
  assert (EQ : Rpower ((1 + x) / 2) m = Rpower (1 + x) m / Rpower 2 m) by (apply Rpower_div; lra).
  set (T := Rpower 2 m) in *. set (Q := Rpower (1 + x) m) in *. set (s := rmax - rmin) in *.
  assert (HD' : T * (1 - T + s) - Q * (s - T) <> 0) by (apply Rgt_not_eq; lra).
  replace ((Q * s / (T * (1 - T + s) - Q * (s - T)) + rmin - rmin) * (s - T + 1) /
           ((Q * s / (T * (1 - T + s) - Q * (s - T)) + rmin - rmin) * (s - T) + s)) with (Q / T).
  - rewrite <- EQ. rewrite Rpower_inv_k by lra. field.
  - field. repeat split; try lra. 
    match goal with |- ?e <> 0 => replace e with (s * T * (1 - T + s)) by ring end.
    apply Rgt_not_eq. repeat apply Rmult_lt_0_compat; lra.
Qed.
