(* C09 — final forms of the statements (C09_props.v only restates them). *)
From Coq Require Import List Arith Bool Reals Lra Lia.
From Coquelicot Require Import Coquelicot.
From P Require Import C09_model C09_proofs_alg C09_proofs_interp C09_proofs_deriv.
Import ListNotations.
Open Scope R_scope.

Lemma sqrt4pi_pos : 0 < sqrt (4 * PI).
Proof. apply sqrt_lt_R0. pose proof PI_RGT_0. lra. Qed.

Lemma angular_integral_exact_lemma (D : Type) (eps_small : R) (Y : nat -> D -> R) (g : list (shell R D)) K cs :
  0 < eps_small -> (forall d, Y 0%nat d = / sqrt (4 * PI)) -> wf_grid Y g -> band_ok g K -> (1 <= K)%nat ->
  length cs = length g ->
  int_ang ROps eps_small g (band_grid Y g K cs) = map (fun c => sqrt (4 * PI) * c 0%nat) cs.
Proof.
  intros He H0 Hwf Hb HK Hl. pose proof sqrt4pi_pos as Hp.
  rewrite (angular_integral_lemma eps_small He Y (/ sqrt (4 * PI)) g K cs H0) by (try assumption; apply Rinv_neq_0_compat; lra).
  apply map_ext. intros c. field. lra.
Qed.

(* derivatives: the three modes of the closure at one point *)
Lemma derivatives_radial_lemma eps_small Yf spl (g : list (shell R dir)) fvals nu r th ph :
  length fvals = length g -> spl_deriv spl (radii g) -> ((nu < 2)%nat \/ ~ In r (radii g)) ->
  is_derive (fun t => F eps_small Yf spl g fvals nu t th ph) r (F eps_small Yf spl g fvals (S nu) r th ph).
Proof. apply radial_derivative_lemma. Qed.

Lemma derivatives_cartesian_lemma eps_small eps_jac Yf dYtf dYpf spl (g : list (shell R dir)) fvals r th ph :
  0 < eps_jac -> eps_jac <= Rabs r -> eps_jac <= Rabs ph -> sin ph <> 0 ->
  let '(dr, dt, dp) := interp_sph ROps eps_small (Yd Yf) (dYtd dYtf) (dYpd dYpf) spl g fvals r (th, ph) in
  let '(gx, gy, gz) := interp_cart ROps eps_small eps_jac (Yd Yf) (dYtd dYtf) (dYpd dYpf) sintd costd sinpd cospd phid spl g fvals r (th, ph) in
  dr = gx * (sin ph * cos th) + gy * (sin ph * sin th) + gz * cos ph /\
  dt = gx * (- r * sin ph * sin th) + gy * (r * sin ph * cos th) + gz * 0 /\
  dp = gx * (r * cos ph * cos th) + gy * (r * cos ph * sin th) + gz * (- r * sin ph).
Proof.
  intros He Hr Hp Hs. unfold interp_sph, interp_cart, p_cart.
  apply (cart_solves_chain_rule_lemma eps_jac He _ _ _ r th ph Hr Hp Hs).
Qed.
