(* C09 — final forms of the statements (C09_props.v only restates them). *)
From Coq Require Import List Arith Bool Reals Lra Lia.
From Coquelicot Require Import Coquelicot.
From P Require Import C09_model C09_proofs_alg C09_proofs_interp C09_proofs_deriv.
Import ListNotations.
Open Scope R_scope.

Lemma sqrt4pi_pos : 0 < sqrt (4 * PI).
Proof. apply sqrt_lt_R0. pose proof PI_RGT_0. lra. Qed.

Lemma angular_integral_exact_lemma (D : Type) (eps_small : R) (Y : nat -> D -> R) (g : list (shell R D)) K cs :
  0 < eps_small -> (forall d, Y 0%nat d = / sqrt (4 * PI)) -> wf_grid Y g -> band_ok g K -> (1 <= K)%nat ->
  length cs = length g ->
  int_ang ROps eps_small g (band_grid Y g K cs) = map (fun c => sqrt (4 * PI) * c 0%nat) cs.
Proof.
  intros He H0 Hwf Hb HK Hl. pose proof sqrt4pi_pos as Hp.
  rewrite (angular_integral_lemma eps_small He Y (/ sqrt (4 * PI)) g K cs H0) by (try assumption; apply Rinv_neq_0_compat; lra).
  apply map_ext. intros c. field. lra.
Qed.

(* derivatives: the three modes of the closure at one point *)
Lemma derivatives_radial_lemma eps_small Yf spl (g : list (shell R dir)) fvals nu r th ph :
  length fvals = length g -> spl_deriv spl (radii g) -> ((nu < 2)%nat \/ ~ In r (radii g)) ->
  is_derive (fun t => F eps_small Yf spl g fvals nu t th ph) r (F eps_small Yf spl g fvals (S nu) r th ph).
Proof. apply radial_derivative_lemma. Qed.

Lemma derivatives_cartesian_lemma eps_small eps_jac Yf dYtf dYpf spl (g : list (shell R dir)) fvals r th ph :
  0 < eps_jac -> eps_jac <= Rabs r -> eps_jac <= Rabs ph -> sin ph <> 0 ->
  let '(dr, dt, dp) := interp_sph ROps eps_small (Yd Yf) (dYtd dYtf) (dYpd dYpf) spl g fvals r (th, ph) in
  let '(gx, gy, gz) := interp_cart ROps eps_small eps_jac (Yd Yf) (dYtd dYtf) (dYpd dYpf) sintd costd sinpd cospd phid spl g fvals r (th, ph) in
  dr = gx * (sin ph * cos th) + gy * (sin ph * sin th) + gz * cos ph /\
  dt = gx * (- r * sin ph * sin th) + gy * (r * sin ph * cos th) + gz * 0 /\
  dp = gx * (r * cos ph * cos th) + gy * (r * cos ph * sin th) + gz * (- r * sin ph).
Proof.
  intros He Hr Hp Hs. unfold interp_sph, interp_cart, p_cart.
  apply (cart_solves_chain_rule_lemma eps_jac He _ _ _ r th ph Hr Hp Hs).
Qed.

(* ---- statements of C09_props.v that need a line of glue *)
Lemma reweighted_sum_is_integral_final :
  forall (D : Type) (eps_small : R) (g : list (shell R D)) (fvals : list (list R)),
  0 < eps_small -> (forall s, In s g -> wf_shell s) ->
  sum ROps (map2 (fun s v => s_r s * s_r s * s_w s * v) g (int_ang ROps eps_small g fvals)) = grid_integrate ROps g fvals.
Proof. intros D eps g fvals He. exact (reweighted_sum_lemma eps He g fvals). Qed.

Lemma components_recovered_final :
  forall (D : Type) (eps_small : R) (Y : nat -> D -> R) (g : list (shell R D)) (K : nat) (cs : list (nat -> R)),
  0 < eps_small -> wf_grid Y g -> band_ok g K -> length cs = length g ->
  rad_comps ROps eps_small Y g (band_grid Y g K cs)
  = map (fun k => map (fun c => if (k <? K)%nat then c k else 0) cs) (seq 0 (nbasis g)).
Proof. intros D eps Y g K cs He. exact (components_recovered_lemma eps He Y g K cs). Qed.

Lemma interpolant_at_grid_points_final :
  forall (D : Type) (eps_small : R) (Y : nat -> D -> R) (spl : list R -> list R -> R -> nat -> R) (y00 : R)
         (g : list (shell R D)) (K : nat) (cs : list (nat -> R)) (i j : nat) (s0 : shell R D) (c0 : nat -> R) (d0 : D),
  0 < eps_small -> wf_grid Y g -> band_ok g K -> length cs = length g -> spl_knots spl (radii g) -> (i < length g)%nat ->
  let s := nth i g s0 in let c := nth i cs c0 in
  (j < length (s_pdirs s))%nat -> (j < length (basis_dirs ROps s))%nat ->
  (is0 ROps (s_r s) = false \/ ((forall d, Y 0%nat d = y00) /\ forall k, (1 <= k < K)%nat -> c k = 0)) ->
  interp_value ROps eps_small Y spl g (band_grid Y g K cs) (s_r s) (nth j (s_pdirs s) d0) 0
  = nth j (nth i (band_grid Y g K cs) []) 0.
Proof. intros D eps Y spl y00 g K cs i j s0 c0 d0 He. exact (interp_at_grid_points_lemma eps He Y spl y00 g K cs i j s0 c0 d0). Qed.

Lemma interpolant_def_final :
  forall (D : Type) (eps_small : R) (Y : nat -> D -> R) (spl : list R -> list R -> R -> nat -> R)
         (g : list (shell R D)) (K : nat) (cs : list (nat -> R)) (r : R) (d : D) (nu : nat),
  0 < eps_small -> wf_grid Y g -> band_ok g K -> length cs = length g -> g <> [] -> spl_linear spl (radii g) ->
  interp_value ROps eps_small Y spl g (band_grid Y g K cs) r d nu
  = sumn K (fun k => spl (radii g) (map (fun c => c k) cs) r nu * Y k d).
Proof. intros D eps Y spl g K cs r d nu He. exact (interpolant_def_lemma eps He Y spl g K cs r d nu). Qed.

Lemma closure_modes_final :
  forall (D : Type) (eps_small eps_jac : R) (Y dYt dYp : nat -> D -> R) (sint cost sinp cosp phi : D -> R)
         (spl : list R -> list R -> R -> nat -> R) (g : list (shell R D)) fvals (pts : list (R * D)) nu sph,
  let I := interpolate ROps eps_small eps_jac Y dYt dYp sint cost sinp cosp phi spl g fvals pts in
  I 0%nat sph false = Vals (map (fun p => interp_value ROps eps_small Y spl g fvals (fst p) (snd p) 0) pts) /\
  I nu sph true = Vals (map (fun p => interp_value ROps eps_small Y spl g fvals (fst p) (snd p) nu) pts) /\
  I 1%nat true false
    = Flat (map (fun p => fst (fst (interp_sph ROps eps_small Y dYt dYp spl g fvals (fst p) (snd p)))) pts
            ++ map (fun p => snd (fst (interp_sph ROps eps_small Y dYt dYp spl g fvals (fst p) (snd p)))) pts
            ++ map (fun p => snd (interp_sph ROps eps_small Y dYt dYp spl g fvals (fst p) (snd p))) pts) /\
  I 1%nat false false
    = Rows (map (fun p => interp_cart ROps eps_small eps_jac Y dYt dYp sint cost sinp cosp phi spl g fvals (fst p) (snd p)) pts) /\
  I (S (S nu)) sph false = Err.
Proof.
  intros D e1 e2 Y dYt dYp st ct sp cp ph spl g fvals pts nu sph I. unfold I.
  exact (conj (interpolate_values0 e1 Y spl e2 dYt dYp st ct sp cp ph g fvals pts sph false)
        (conj (interpolate_values e1 Y spl e2 dYt dYp st ct sp cp ph g fvals pts nu sph (or_intror Logic.I))
        (conj (interpolate_spherical e1 Y spl e2 dYt dYp st ct sp cp ph g fvals pts)
        (conj (interpolate_cartesian e1 Y spl e2 dYt dYp st ct sp cp ph g fvals pts)
              (interpolate_higher_rejected e1 Y spl e2 dYt dYp st ct sp cp ph g fvals pts nu sph))))).
Qed.

Lemma derivatives_consistent_spherical_final :
  forall (eps_small : R) (Yf dYtf dYpf : nat -> R -> R -> R) (spl : list R -> list R -> R -> nat -> R)
         (g : list (shell R dir)) (fvals : list (list R)) (r th ph : R),
  length fvals = length g -> spl_deriv spl (radii g) ->
  (forall k, (k < nbasis g)%nat -> is_derive (fun t => Yf k t ph) th (dYtf k th ph)) ->
  (forall k, (k < nbasis g)%nat -> is_derive (fun t => Yf k th t) ph (dYpf k th ph)) ->
  let '(dr, dt, dp) := interp_sph ROps eps_small (Yd Yf) (dYtd dYtf) (dYpd dYpf) spl g fvals r (th, ph) in
  is_derive (fun t => F eps_small Yf spl g fvals 0 t th ph) r dr /\
  is_derive (fun t => F eps_small Yf spl g fvals 0 r t ph) th dt /\
  is_derive (fun t => F eps_small Yf spl g fvals 0 r th t) ph dp.
Proof. intros e Yf dYtf dYpf spl g fvals r th ph. exact (spherical_derivative_lemma e Yf dYtf dYpf spl g fvals r th ph). Qed.

Lemma jacobian_inverse_final :
  forall (eps_jac gx gy gz r th ph : R), 0 < eps_jac -> eps_jac <= Rabs r -> eps_jac <= Rabs ph -> sin ph <> 0 ->
  sph_to_cart ROps eps_jac sintd costd sinpd cospd phid
      (gx * (sin ph * cos th) + gy * (sin ph * sin th) + gz * cos ph)
      (gx * (- r * sin ph * sin th) + gy * (r * sin ph * cos th) + gz * 0)
      (gx * (r * cos ph * cos th) + gy * (r * cos ph * sin th) + gz * (- r * sin ph)) r (th, ph) = (gx, gy, gz).
Proof. intros e gx gy gz r th ph He. exact (jacobian_inverse_lemma e He gx gy gz r th ph). Qed.

Lemma derivatives_consistent_cartesian_refuted_final :
  forall eps_jac : R, 0 < eps_jac ->
  (exists gx gy gz r, 0 < r /\
     sph_to_cart ROps eps_jac sintd costd sinpd cospd phid
       (gx * (sin 0 * cos 0) + gy * (sin 0 * sin 0) + gz * cos 0)
       (gx * (- r * sin 0 * sin 0) + gy * (r * sin 0 * cos 0) + gz * 0)
       (gx * (r * cos 0 * cos 0) + gy * (r * cos 0 * sin 0) + gz * (- r * sin 0)) r (0, 0) <> (gx, gy, gz)) /\
  (exists gx gy gz,
     sph_to_cart ROps eps_jac sintd costd sinpd cospd phid
       (gx * (sin 0 * cos 0) + gy * (sin 0 * sin 0) + gz * cos 0) 0 0 0 (0, 0) <> (gx, gy, gz)).
Proof. intros e He. exact (conj (cartesian_axis_refuted_lemma e He) (cartesian_centre_refuted_lemma e He)). Qed.

Lemma average_integrates_back_final :
  forall (D : Type) (eps_small fourpi : R) (spl : list R -> list R -> R -> nat -> R) (g : list (shell R D)) (fvals : list (list R)),
  0 < eps_small -> fourpi <> 0 -> (forall s, In s g -> wf_shell s) -> length fvals = length g -> spl_knots spl (radii g) ->
  radial_integral ROps g (fun r => fourpi * (r * r) * spherical_average ROps eps_small fourpi spl g fvals r 0)
  = grid_integrate ROps g fvals.
Proof. intros D e fp spl g fvals He. exact (average_integrates_back_lemma e He spl fp g fvals). Qed.

Lemma mol_is_sum_of_atoms_final :
  forall (D : Type) (eps_small eps_jac : R) (Y dYt dYp : nat -> D -> R) (sint cost sinp cosp phi : D -> R)
         (spl : list R -> list R -> R -> nat -> R) (atoms : list (atom (T := R) (D := D))) (ps : list (R * D)) sph ro,
  atoms <> [] -> length ps = length atoms ->
  mol_interpolate ROps eps_small eps_jac Y dYt dYp sint cost sinp cosp phi spl atoms (map (fun p => [p]) ps) 0 sph ro
  = Vals [sum ROps (map2 (fun a p => interp_value ROps eps_small Y spl (a_grid a) (weighted a) (fst p) (snd p) 0) atoms ps)] /\
  let gs := map2 (fun a p => interp_cart ROps eps_small eps_jac Y dYt dYp sint cost sinp cosp phi spl (a_grid a) (weighted a) (fst p) (snd p)) atoms ps in
  mol_interpolate ROps eps_small eps_jac Y dYt dYp sint cost sinp cosp phi spl atoms (map (fun p => [p]) ps) 1 false false
  = Rows [(sum ROps (map (fun v => fst (fst v)) gs), sum ROps (map (fun v => snd (fst v)) gs), sum ROps (map snd gs))].
Proof.
  intros D e1 e2 Y dYt dYp st ct sp cp ph spl atoms ps sph ro Ha Hl.
  exact (conj (mol_value_lemma e1 Y spl e2 dYt dYp st ct sp cp ph atoms ps sph ro Ha Hl)
              (mol_gradient_lemma e1 Y spl e2 dYt dYp st ct sp cp ph atoms ps Ha Hl)).
Qed.
