(* C09 property theorems (statements only; the proofs are in C09_proofs_*.v).
   Model: C09_model.v instantiated at the reals (ROps).  A grid is a list of shells; `band_grid Y g K cs` are the values on
   the grid of  f = sum_{k < K} c_i(k) Y_k  with an arbitrary coefficient table cs (one row c_i per shell i, i.e. the
   values g_lm(r_i); k enumerates (l, m) in the order of generate_real_spherical_harmonics, so K = (L+1)^2 means l <= L);
   `band_ok g K` says K <= (d_i/2 + 1)^2 on every shell, i.e. L <= min_i d_i / 2;  `wf_grid Y g`: radial weights non-zero
   and, on every shell, sum_a w_a Y_k(a) Y_k'(a) = delta_kk' for l, l' <= d_i/2 (C02 for the product degree).
   `spl` is scipy's CubicSpline with the hypotheses spl_knots / spl_linear / spl_deriv for the radial nodes of the grid. *)
From Coq Require Import Reals List Arith Bool.
From Coquelicot Require Import Coquelicot.
From P Require Import C09_model C09_proofs_alg C09_proofs_interp C09_proofs_deriv C09_proofs_main.
Import ListNotations.
Open Scope R_scope.

(* integrating out the angles gives sqrt(4 pi) g_00(r_i) on every shell (both branches of the code: r < eps and r >= eps) *)
Theorem angular_integral_exact :
  forall (D : Type) (eps_small : R) (Y : nat -> D -> R) (g : list (shell R D)) (K : nat) (cs : list (nat -> R)),
  0 < eps_small -> (forall d, Y 0%nat d = / sqrt (4 * PI)) -> wf_grid Y g -> band_ok g K -> (1 <= K)%nat ->
  length cs = length g ->
  int_ang ROps eps_small g (band_grid Y g K cs) = map (fun c => sqrt (4 * PI) * c 0%nat) cs.
Proof. exact angular_integral_exact_lemma. Qed.
Print Assumptions angular_integral_exact.

(* re-weighted by r_i^2 w_i the shell values sum to Grid.integrate — for ANY function values *)
Theorem reweighted_sum_is_integral :
  forall (D : Type) (eps_small : R) (g : list (shell R D)) (fvals : list (list R)),
  0 < eps_small -> (forall s, In s g -> wf_shell s) ->
  sum ROps (map2 (fun s v => s_r s * s_r s * s_w s * v) g (int_ang ROps eps_small g fvals)) = grid_integrate ROps g fvals.
Proof. exact reweighted_sum_is_integral_final. Qed.
Print Assumptions reweighted_sum_is_integral.

(* the array handed to spline k is exactly (g_k(r_i))_i for l <= L and zero for the other rows — uniform and mixed degrees *)
Theorem components_recovered :
  forall (D : Type) (eps_small : R) (Y : nat -> D -> R) (g : list (shell R D)) (K : nat) (cs : list (nat -> R)),
  0 < eps_small -> wf_grid Y g -> band_ok g K -> length cs = length g ->
  rad_comps ROps eps_small Y g (band_grid Y g K cs)
  = map (fun k => map (fun c => if (k <? K)%nat then c k else 0) cs) (seq 0 (nbasis g)).
Proof. exact components_recovered_final. Qed.
Print Assumptions components_recovered.

(* the interpolant reproduces f at grid point j of shell i (r_i <> 0, or f single-valued at the centre) *)
Theorem interpolant_at_grid_points :
  forall (D : Type) (eps_small : R) (Y : nat -> D -> R) (spl : list R -> list R -> R -> nat -> R) (y00 : R)
         (g : list (shell R D)) (K : nat) (cs : list (nat -> R)) (i j : nat) (s0 : shell R D) (c0 : nat -> R) (d0 : D),
  0 < eps_small -> wf_grid Y g -> band_ok g K -> length cs = length g -> spl_knots spl (radii g) -> (i < length g)%nat ->
  let s := nth i g s0 in let c := nth i cs c0 in
  (j < length (s_pdirs s))%nat -> (j < length (basis_dirs ROps s))%nat ->
  (is0 ROps (s_r s) = false \/ ((forall d, Y 0%nat d = y00) /\ forall k, (1 <= k < K)%nat -> c k = 0)) ->
  interp_value ROps eps_small Y spl g (band_grid Y g K cs) (s_r s) (nth j (s_pdirs s) d0) 0
  = nth j (nth i (band_grid Y g K cs) []) 0.
Proof. exact interpolant_at_grid_points_final. Qed.
Print Assumptions interpolant_at_grid_points.

(* at an arbitrary point the value (nu = 0) / nu-th radial derivative is sum_{l <= L} spline_lm(r, nu) Y_lm(direction), the
   splines being those through the recovered g_lm(r_i) *)
Theorem interpolant_def :
  forall (D : Type) (eps_small : R) (Y : nat -> D -> R) (spl : list R -> list R -> R -> nat -> R)
         (g : list (shell R D)) (K : nat) (cs : list (nat -> R)) (r : R) (d : D) (nu : nat),
  0 < eps_small -> wf_grid Y g -> band_ok g K -> length cs = length g -> g <> [] -> spl_linear spl (radii g) ->
  interp_value ROps eps_small Y spl g (band_grid Y g K cs) r d nu
  = sumn K (fun k => spl (radii g) (map (fun c => c k) cs) r nu * Y k d).
Proof. exact interpolant_def_final. Qed.
Print Assumptions interpolant_def.

(* what the closure returns, array level: values / hstack of the spherical derivatives / Cartesian rows / ValueError *)
Theorem closure_modes :
  forall (D : Type) (eps_small eps_jac : R) (Y dYt dYp : nat -> D -> R) (sint cost sinp cosp phi : D -> R)
         (spl : list R -> list R -> R -> nat -> R) (g : list (shell R D)) fvals (pts : list (R * D)) nu sph,
  let I := interpolate ROps eps_small eps_jac Y dYt dYp sint cost sinp cosp phi spl g fvals pts in
  I 0%nat sph false = Vals (map (fun p => interp_value ROps eps_small Y spl g fvals (fst p) (snd p) 0) pts) /\
  I nu sph true = Vals (map (fun p => interp_value ROps eps_small Y spl g fvals (fst p) (snd p) nu) pts) /\
  I 1%nat true false
    = Flat (map (fun p => fst (fst (interp_sph ROps eps_small Y dYt dYp spl g fvals (fst p) (snd p)))) pts
            ++ map (fun p => snd (fst (interp_sph ROps eps_small Y dYt dYp spl g fvals (fst p) (snd p)))) pts
            ++ map (fun p => snd (interp_sph ROps eps_small Y dYt dYp spl g fvals (fst p) (snd p))) pts) /\
  I 1%nat false false
    = Rows (map (fun p => interp_cart ROps eps_small eps_jac Y dYt dYp sint cost sinp cosp phi spl g fvals (fst p) (snd p)) pts) /\
  I (S (S nu)) sph false = Err.
Proof. exact closure_modes_final. Qed.
Print Assumptions closure_modes.

(* F nu r theta phi = what the closure returns with deriv = nu, only_radial_deriv (nu = 0: the interpolant), for ANY function
   values: each returned radial derivative is the derivative of the previous one *)
Theorem derivatives_consistent_radial :
  forall (eps_small : R) (Yf : nat -> R -> R -> R) (spl : list R -> list R -> R -> nat -> R)
         (g : list (shell R dir)) (fvals : list (list R)) (nu : nat) (r th ph : R),
  length fvals = length g -> spl_deriv spl (radii g) -> ((nu < 2)%nat \/ ~ In r (radii g)) ->
  is_derive (fun t => F eps_small Yf spl g fvals nu t th ph) r (F eps_small Yf spl g fvals (S nu) r th ph).
Proof. exact derivatives_radial_lemma. Qed.
Print Assumptions derivatives_consistent_radial.

(* deriv = 1, deriv_spherical: the three returned numbers are the partial derivatives of the interpolant in (r, theta, phi),
   wherever the derivative routine returns the partial derivatives of the harmonics (C08: away from the poles) *)
Theorem derivatives_consistent_spherical :
  forall (eps_small : R) (Yf dYtf dYpf : nat -> R -> R -> R) (spl : list R -> list R -> R -> nat -> R)
         (g : list (shell R dir)) (fvals : list (list R)) (r th ph : R),
  length fvals = length g -> spl_deriv spl (radii g) ->
  (forall k, (k < nbasis g)%nat -> is_derive (fun t => Yf k t ph) th (dYtf k th ph)) ->
  (forall k, (k < nbasis g)%nat -> is_derive (fun t => Yf k th t) ph (dYpf k th ph)) ->
  let '(dr, dt, dp) := interp_sph ROps eps_small (Yd Yf) (dYtd dYtf) (dYpd dYpf) spl g fvals r (th, ph) in
  is_derive (fun t => F eps_small Yf spl g fvals 0 t th ph) r dr /\
  is_derive (fun t => F eps_small Yf spl g fvals 0 r t ph) th dt /\
  is_derive (fun t => F eps_small Yf spl g fvals 0 r th t) ph dp.
Proof. exact derivatives_consistent_spherical_final. Qed.
Print Assumptions derivatives_consistent_spherical.

(* partial derivatives of the spherical parametrisation x = r sin(phi) cos(theta), ... (the coefficients of the chain rule) *)
Theorem param_partials : forall r th ph,
  is_derive (fun t => px t th ph) r (sin ph * cos th) /\ is_derive (fun t => py t th ph) r (sin ph * sin th) /\
  is_derive (fun t => pz t th ph) r (cos ph) /\
  is_derive (fun t => px r t ph) th (- r * sin ph * sin th) /\ is_derive (fun t => py r t ph) th (r * sin ph * cos th) /\
  is_derive (fun t => pz r t ph) th 0 /\
  is_derive (fun t => px r th t) ph (r * cos ph * cos th) /\ is_derive (fun t => py r th t) ph (r * cos ph * sin th) /\
  is_derive (fun t => pz r th t) ph (- r * sin ph).
Proof. exact param_partials_lemma. Qed.
Print Assumptions param_partials.

(* deriv = 1 (Cartesian), away from the centre and the polar axis: the returned (gx, gy, gz) solves the chain rule
   d/dq F = gx dx/dq + gy dy/dq + gz dz/dq for q = r, theta, phi, where (dr, dt, dp) are the returned spherical derivatives *)
Theorem derivatives_consistent_cartesian_partial :
  forall (eps_small eps_jac : R) (Yf dYtf dYpf : nat -> R -> R -> R) (spl : list R -> list R -> R -> nat -> R)
         (g : list (shell R dir)) (fvals : list (list R)) (r th ph : R),
  0 < eps_jac -> eps_jac <= Rabs r -> eps_jac <= Rabs ph -> sin ph <> 0 ->
  let '(dr, dt, dp) := interp_sph ROps eps_small (Yd Yf) (dYtd dYtf) (dYpd dYpf) spl g fvals r (th, ph) in
  let '(gx, gy, gz) := interp_cart ROps eps_small eps_jac (Yd Yf) (dYtd dYtf) (dYpd dYpf) sintd costd sinpd cospd phid spl g fvals r (th, ph) in
  dr = gx * (sin ph * cos th) + gy * (sin ph * sin th) + gz * cos ph /\
  dt = gx * (- r * sin ph * sin th) + gy * (r * sin ph * cos th) + gz * 0 /\
  dp = gx * (r * cos ph * cos th) + gy * (r * cos ph * sin th) + gz * (- r * sin ph).
Proof. exact derivatives_cartesian_lemma. Qed.
Print Assumptions derivatives_consistent_cartesian_partial.

(* ... and it is the only solution: the routine's matrix inverts the transposed Jacobian of the parametrisation *)
Theorem jacobian_inverse :
  forall (eps_jac gx gy gz r th ph : R), 0 < eps_jac -> eps_jac <= Rabs r -> eps_jac <= Rabs ph -> sin ph <> 0 ->
  sph_to_cart ROps eps_jac sintd costd sinpd cospd phid
      (gx * (sin ph * cos th) + gy * (sin ph * sin th) + gz * cos ph)
      (gx * (- r * sin ph * sin th) + gy * (r * sin ph * cos th) + gz * 0)
      (gx * (r * cos ph * cos th) + gy * (r * cos ph * sin th) + gz * (- r * sin ph)) r (th, ph) = (gx, gy, gz).
Proof. exact jacobian_inverse_final. Qed.
Print Assumptions jacobian_inverse.

(* the full-strength statement (all points) is false of the faithful model: on the polar axis the theta column is zeroed
   and the y-component of a gradient is lost; at the centre only the z-component survives *)
Theorem derivatives_consistent_cartesian_refuted :
  forall eps_jac : R, 0 < eps_jac ->
  (exists gx gy gz r, 0 < r /\
     sph_to_cart ROps eps_jac sintd costd sinpd cospd phid
       (gx * (sin 0 * cos 0) + gy * (sin 0 * sin 0) + gz * cos 0)
       (gx * (- r * sin 0 * sin 0) + gy * (r * sin 0 * cos 0) + gz * 0)
       (gx * (r * cos 0 * cos 0) + gy * (r * cos 0 * sin 0) + gz * (- r * sin 0)) r (0, 0) <> (gx, gy, gz)) /\
  (exists gx gy gz,
     sph_to_cart ROps eps_jac sintd costd sinpd cospd phid
       (gx * (sin 0 * cos 0) + gy * (sin 0 * sin 0) + gz * cos 0) 0 0 0 (0, 0) <> (gx, gy, gz)).
Proof. exact derivatives_consistent_cartesian_refuted_final. Qed.
Print Assumptions derivatives_consistent_cartesian_refuted.

(* spherical_average: the radial quadrature of 4 pi r^2 f_avg(r) is the grid integral — for ANY function values *)
Theorem average_integrates_back :
  forall (D : Type) (eps_small fourpi : R) (spl : list R -> list R -> R -> nat -> R) (g : list (shell R D)) (fvals : list (list R)),
  0 < eps_small -> fourpi <> 0 -> (forall s, In s g -> wf_shell s) -> length fvals = length g -> spl_knots spl (radii g) ->
  radial_integral ROps g (fun r => fourpi * (r * r) * spherical_average ROps eps_small fourpi spl g fvals r 0)
  = grid_integrate ROps g fvals.
Proof. exact average_integrates_back_final. Qed.
Print Assumptions average_integrates_back.

(* MolGrid.interpolate at one point (ps = its spherical coordinates about each atom's centre): the value is the sum over
   the atoms of the atomic interpolants of aim_weights * f, the Cartesian gradient is the sum of their gradients *)
Theorem mol_is_sum_of_atoms :
  forall (D : Type) (eps_small eps_jac : R) (Y dYt dYp : nat -> D -> R) (sint cost sinp cosp phi : D -> R)
         (spl : list R -> list R -> R -> nat -> R) (atoms : list (atom (T := R) (D := D))) (ps : list (R * D)) sph ro,
  atoms <> [] -> length ps = length atoms ->
  mol_interpolate ROps eps_small eps_jac Y dYt dYp sint cost sinp cosp phi spl atoms (map (fun p => [p]) ps) 0 sph ro
  = Vals [sum ROps (map2 (fun a p => interp_value ROps eps_small Y spl (a_grid a) (weighted a) (fst p) (snd p) 0) atoms ps)] /\
  let gs := map2 (fun a p => interp_cart ROps eps_small eps_jac Y dYt dYp sint cost sinp cosp phi spl (a_grid a) (weighted a) (fst p) (snd p)) atoms ps in
  mol_interpolate ROps eps_small eps_jac Y dYt dYp sint cost sinp cosp phi spl atoms (map (fun p => [p]) ps) 1 false false
  = Rows [(sum ROps (map (fun v => fst (fst v)) gs), sum ROps (map (fun v => snd (fst v)) gs), sum ROps (map snd gs))].
Proof. exact mol_is_sum_of_atoms_final. Qed.
Print Assumptions mol_is_sum_of_atoms.
