(* C09 — executable instance of the model at exact rationals (Bignums.BigQ) for the correspondence with the
   implementation.  A direction carries the values the implementation's own sub-routines return for it (harmonics,
   their derivatives, sines / cosines, phi); spline values are supplied by the recorded CubicSpline objects.
   No proofs in this file. *)
From Coq Require Import List ZArith Bool Sint63.
From Bignums Require Import BigQ.
From P Require Import C09_model C09_gen.
Import ListNotations.

Definition qltb (x y : bigQ) : bool := match BigQ.compare x y with Lt => true | _ => false end.
Definition QOps : NumOps bigQ := MkOps bigQ 0%bigQ 1%bigQ BigQ.add BigQ.sub BigQ.mul BigQ.div qltb.

(* m * 2^e *)
Definition dy (m e : Z) : bigQ :=
  if (0 <=? e)%Z then BigQ.Qz (BigZ.of_Z (m * 2 ^ e)) else BigQ.Qq (BigZ.of_Z m) (BigN.of_N (Z.to_N (2 ^ (- e)))).
(* data arrive as primitive (signed 63-bit) integer literals, which Coq parses natively: mantissa and exponent of a double *)
Definition dq (m e : int) : bigQ := dy (Sint63.to_Z m) (Sint63.to_Z e).
Fixpoint dl (l : list int) : list bigQ :=
  match l with
  | m :: e :: r => dq m e :: dl r
  | _ => []
  end.
Definition of_nd (p : Z * Z) : bigQ := BigQ.Qq (BigZ.of_Z (fst p)) (BigN.of_N (Z.to_N (snd p))).
Definition eps_small_q : bigQ := of_nd eps_small_nd.
Definition eps_jac_q : bigQ := of_nd eps_jac_nd.
Definition fourpi_q : bigQ := dy (fst fourpi_me) (snd fourpi_me).

Record ddata := DD { dd_Y : list bigQ; dd_dYt : list bigQ; dd_dYp : list bigQ;
                     dd_st : bigQ; dd_ct : bigQ; dd_sp : bigQ; dd_cp : bigQ; dd_phi : bigQ }.
(* a direction of a grid point: only the harmonics are needed *)
Definition mkd (ys : list bigQ) : ddata := DD ys [] [] 0%bigQ 0%bigQ 0%bigQ 0%bigQ 0%bigQ.
(* a missing entry yields a poison value so that the comparison fails *)
Definition poison : bigQ := BigQ.power 10%bigQ 30.
Definition Yq (k : nat) (d : ddata) : bigQ := nth k (dd_Y d) poison.
Definition dYtq (k : nat) (d : ddata) : bigQ := nth k (dd_dYt d) poison.
Definition dYpq (k : nat) (d : ddata) : bigQ := nth k (dd_dYp d) poison.

Definition gridq := list (shell bigQ ddata).
Definition int_ang_q (g : gridq) (fvals : list (list bigQ)) : list bigQ :=
  map BigQ.red (int_ang QOps eps_small_q g fvals).
Definition rad_comps_q (g : gridq) (fvals : list (list bigQ)) : list (list bigQ) :=
  map (map BigQ.red) (rad_comps QOps eps_small_q Yq g fvals).
Definition sph_avg_q (g : gridq) (fvals : list (list bigQ)) : list bigQ :=
  map BigQ.red (sph_avg_data QOps eps_small_q fourpi_q g fvals).
Definition grid_integrate_q (g : gridq) (fvals : list (list bigQ)) : bigQ := BigQ.red (grid_integrate QOps g fvals).
Definition assemble_q (pts : list (bigQ * ddata)) (rvs rcs : list (list bigQ)) (deriv : nat) (sph ro : bool) : res bigQ :=
  interp_assemble QOps eps_jac_q Yq dYtq dYpq dd_st dd_ct dd_sp dd_cp dd_phi pts rvs rcs deriv sph ro.
Definition weighted_q (f aim : list (list bigQ)) : list (list bigQ) := map2 (map2 BigQ.mul) f aim.
Definition mol_combine_q (outs : list (res bigQ)) : res bigQ := mol_combine QOps outs.
(* which spline evaluations the closure performs: the list of nu, in order (each for every spline) *)
Definition spline_calls (deriv : nat) (ro : bool) : list nat :=
  if negb ro && (deriv =? 1) then [deriv; 0%nat] else [deriv].

(* ---- comparisons with a tolerance *)
Definition qleb (x y : bigQ) : bool := match BigQ.compare x y with Gt => false | _ => true end.
Definition qabs (x : bigQ) : bigQ := if qleb 0%bigQ x then x else BigQ.opp x.
Definition qclose (tol x y : bigQ) : bool := qleb (qabs (BigQ.sub x y)) tol.
Fixpoint qvec_close (tol : bigQ) (a b : list bigQ) : bool :=
  match a, b with [], [] => true | x :: a', y :: b' => qclose tol x y && qvec_close tol a' b' | _, _ => false end.
Fixpoint qrows_close (tol : bigQ) (a b : list (list bigQ)) : bool :=
  match a, b with [], [] => true | x :: a', y :: b' => qvec_close tol x y && qrows_close tol a' b' | _, _ => false end.
Fixpoint q3_close (tol : bigQ) (a b : list (bigQ * bigQ * bigQ)) : bool :=
  match a, b with
  | [], [] => true
  | (x1, x2, x3) :: a', (y1, y2, y3) :: b' => qclose tol x1 y1 && qclose tol x2 y2 && qclose tol x3 y3 && q3_close tol a' b'
  | _, _ => false
  end.
Definition res_close (tol : bigQ) (a b : res bigQ) : bool :=
  match a, b with
  | Vals x, Vals y => qvec_close tol x y
  | Flat x, Flat y => qvec_close tol x y
  | Rows x, Rows y => q3_close tol x y
  | Err, Err => true
  | _, _ => false
  end.
Fixpoint qvec_eqb (a b : list bigQ) : bool :=
  match a, b with [], [] => true | x :: a', y :: b' => BigQ.eqb x y && qvec_eqb a' b' | _, _ => false end.
