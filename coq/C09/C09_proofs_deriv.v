(* C09 — the derivatives returned by the closure of AtomGrid.interpolate are derivatives of the interpolant it returns.
   Directions are pairs (theta, phi); F(r, theta, phi) = sum_k spline_k(r) Y_k(theta, phi) for ANY function values. *)
From Coq Require Import List Arith Bool Reals Lra Lia.
From Coquelicot Require Import Coquelicot.
From P Require Import C09_model C09_proofs_alg C09_proofs_interp.
Import ListNotations.
Open Scope R_scope.

(* CubicSpline(x, y)(t, nu + 1) is the derivative of t |-> CubicSpline(x, y)(t, nu): everywhere for nu = 0, 1 (the spline
   is C^2), away from the knots for nu >= 2 *)
Definition spl_deriv (spl : list R -> list R -> R -> nat -> R) (xs : list R) : Prop :=
  forall y t nu, length y = length xs -> ((nu < 2)%nat \/ ~ In t xs) ->
    is_derive (fun u => spl xs y u nu) t (spl xs y t (S nu)).

Lemma deriv_dot_l (fs : list (R -> R)) (fs' : list R) (bs : list R) r :
  Forall2 (fun f f' => is_derive f r f') fs fs' ->
  is_derive (fun t => rdot (map (fun f : R -> R => f t) fs) bs) r (rdot fs' bs).
Proof.
  intros H. revert bs. induction H as [|f f' fs fs' Hf _ IH]; intros bs.
  - cbn. apply (is_derive_const 0 r).
  - destruct bs as [|b bs].
    + apply (is_derive_ext (fun _ => 0)); [intros t; rewrite rdot_nil_r; reflexivity|].
      rewrite rdot_nil_r. apply (is_derive_const 0 r).
    + apply (is_derive_ext (fun t => plus (b * f t) (rdot (map (fun f : R -> R => f t) fs) bs))).
      * intros t. cbn [map]. rewrite rdot_cons. unfold plus. simpl. ring.
      * replace (rdot (f' :: fs') (b :: bs)) with (plus (b * f') (rdot fs' bs)) by (rewrite rdot_cons; unfold plus; simpl; ring).
        apply (is_derive_plus (fun t => b * f t) _ r (b * f') (rdot fs' bs)).
        -- apply is_derive_scal. exact Hf.
        -- apply IH.
Qed.
Lemma deriv_dot_r (xs : list R) (bs : list (R -> R)) (bs' : list R) r :
  Forall2 (fun f f' => is_derive f r f') bs bs' ->
  is_derive (fun t => rdot xs (map (fun f : R -> R => f t) bs)) r (rdot xs bs').
Proof.
  intros H. revert xs. induction H as [|f f' fs fs' Hf _ IH]; intros xs.
  - apply (is_derive_ext (fun _ => 0)); [intros t; cbn [map]; rewrite rdot_nil_r; reflexivity|].
    rewrite rdot_nil_r. apply (is_derive_const 0 r).
  - destruct xs as [|x xs].
    + cbn. apply (is_derive_const 0 r).
    + apply (is_derive_ext (fun t => plus (x * f t) (rdot xs (map (fun f : R -> R => f t) fs)))).
      * intros t. cbn [map]. rewrite rdot_cons. reflexivity.
      * rewrite rdot_cons. apply (is_derive_plus (fun t => x * f t) _ r (x * f') (rdot xs fs')).
        -- apply is_derive_scal. exact Hf.
        -- apply IH.
Qed.
Lemma Forall2_map_in {A B C} (P : B -> C -> Prop) (f : A -> B) (h : A -> C) (l : list A) :
  (forall x, In x l -> P (f x) (h x)) -> Forall2 P (map f l) (map h l).
Proof. induction l as [|x l IH]; intros H; [constructor|]. cbn [map]. constructor; [apply H; left; reflexivity|apply IH; intros; apply H; right; assumption]. Qed.

(* ------------------------------------------------------------------ spherical parametrisation *)
Definition px (r th ph : R) : R := r * (sin ph * cos th).
Definition py (r th ph : R) : R := r * (sin ph * sin th).
Definition pz (r th ph : R) : R := r * cos ph.
Lemma param_partials_lemma r th ph :
  is_derive (fun t => px t th ph) r (sin ph * cos th) /\ is_derive (fun t => py t th ph) r (sin ph * sin th) /\
  is_derive (fun t => pz t th ph) r (cos ph) /\
  is_derive (fun t => px r t ph) th (- r * sin ph * sin th) /\ is_derive (fun t => py r t ph) th (r * sin ph * cos th) /\
  is_derive (fun t => pz r t ph) th 0 /\
  is_derive (fun t => px r th t) ph (r * cos ph * cos th) /\ is_derive (fun t => py r th t) ph (r * cos ph * sin th) /\
  is_derive (fun t => pz r th t) ph (- r * sin ph).
Proof. unfold px, py, pz. repeat match goal with |- _ /\ _ => split end; (auto_derive; [exact I|ring]). Qed.

Section Deriv.
Variables eps_small eps_jac : R.
Hypothesis eps_jac_pos : 0 < eps_jac.
Variables Yf dYtf dYpf : nat -> R -> R -> R.
Variable spl : list R -> list R -> R -> nat -> R.

Definition dir := (R * R)%type.                       (* (theta, phi) *)
Definition Yd (k : nat) (d : dir) : R := Yf k (fst d) (snd d).
Definition dYtd (k : nat) (d : dir) : R := dYtf k (fst d) (snd d).
Definition dYpd (k : nat) (d : dir) : R := dYpf k (fst d) (snd d).
Definition sintd (d : dir) : R := sin (fst d).
Definition costd (d : dir) : R := cos (fst d).
Definition sinpd (d : dir) : R := sin (snd d).
Definition cospd (d : dir) : R := cos (snd d).
Definition phid (d : dir) : R := snd d.
Notation shellR := (shell R dir).

(* the interpolant and its radial derivatives as returned with deriv = nu, only_radial_deriv = True *)
Definition F (g : list shellR) fvals (nu : nat) (r th ph : R) : R := interp_value ROps eps_small Yd spl g fvals r (th, ph) nu.

Lemma rows_length (g : list shellR) fvals : length fvals = length g ->
  List.Forall (fun y => length y = length (radii g)) (rad_comps ROps eps_small Yd g fvals).
Proof.
  intros Hl. unfold rad_comps. apply Forall_forall. intros y Hy. apply in_map_iff in Hy. destruct Hy as (k & <- & _).
  unfold radii. rewrite map_length. apply map2_length. exact Hl.
Qed.

Lemma radial_derivative_lemma (g : list shellR) fvals nu r th ph : length fvals = length g -> spl_deriv spl (radii g) ->
  ((nu < 2)%nat \/ ~ In r (radii g)) ->
  is_derive (fun t => F g fvals nu t th ph) r (F g fvals (S nu) r th ph).
Proof.
  intros Hl Hd Hnu. unfold F, interp_value, spline_vals, spline_of, p_value.
  set (ys := rad_comps ROps eps_small Yd g fvals). pose proof (rows_length g fvals Hl) as Hrows. fold ys in Hrows.
  apply (is_derive_ext (fun t => rdot (map (fun f : R -> R => f t) (map (fun y t => spl (radii g) y t nu) ys)) (ycol Yd (length ys) (th, ph)))).
  - intros t. rewrite map_map, map_length. reflexivity.
  - rewrite map_length. rewrite <- (map_map (fun y t => spl (radii g) y t (S nu)) (fun f : R -> R => f r)).
    replace (map (fun f : R -> R => f r) (map (fun y t => spl (radii g) y t (S nu)) ys))
      with (map (fun y => spl (radii g) y r (S nu)) ys) by (rewrite map_map; reflexivity).
    apply deriv_dot_l. apply Forall2_map_in. intros y Hy. apply Hd; [|exact Hnu].
    rewrite Forall_forall in Hrows. apply Hrows. exact Hy.
Qed.

(* spherical derivatives: (d/dr, d/dtheta, d/dphi) of F at (r, theta, phi), given that the derivative routine returns the
   partial derivatives of the harmonics at (theta, phi) *)
Lemma spherical_derivative_lemma (g : list shellR) fvals r th ph : length fvals = length g -> spl_deriv spl (radii g) ->
  (forall k, (k < nbasis g)%nat -> is_derive (fun t => Yf k t ph) th (dYtf k th ph)) ->
  (forall k, (k < nbasis g)%nat -> is_derive (fun t => Yf k th t) ph (dYpf k th ph)) ->
  let '(dr, dt, dp) := interp_sph ROps eps_small Yd dYtd dYpd spl g fvals r (th, ph) in
  is_derive (fun t => F g fvals 0 t th ph) r dr /\ is_derive (fun t => F g fvals 0 r t ph) th dt /\
  is_derive (fun t => F g fvals 0 r th t) ph dp.
Proof.
  intros Hl Hd Ht Hp. unfold interp_sph. split; [|split].
  - apply (radial_derivative_lemma g fvals 0 r th ph Hl Hd). left. lia.
  - unfold F, interp_value, p_value, p_dtheta. set (rc := spline_vals ROps eps_small Yd spl g fvals r 0).
    assert (Hn : length rc = nbasis g) by (unfold rc, spline_vals, rad_comps; rewrite !map_length, seq_length; reflexivity).
    unfold ycol. rewrite Hn.
    apply (is_derive_ext (fun t => rdot rc (map (fun f : R -> R => f t) (map (fun k t => Yf k t ph) (seq 0 (nbasis g)))))).
    + intros t. rewrite map_map. reflexivity.
    + apply deriv_dot_r. apply Forall2_map_in. intros k Hk. apply in_seq in Hk. unfold dYtd. cbn [fst snd]. apply Ht. lia.
  - unfold F, interp_value, p_value, p_dphi. set (rc := spline_vals ROps eps_small Yd spl g fvals r 0).
    assert (Hn : length rc = nbasis g) by (unfold rc, spline_vals, rad_comps; rewrite !map_length, seq_length; reflexivity).
    unfold ycol. rewrite Hn.
    apply (is_derive_ext (fun t => rdot rc (map (fun f : R -> R => f t) (map (fun k t => Yf k th t) (seq 0 (nbasis g)))))).
    + intros t. rewrite map_map. reflexivity.
    + apply deriv_dot_r. apply Forall2_map_in. intros k Hk. apply in_seq in Hk. unfold dYpd. cbn [fst snd]. apply Hp. lia.
Qed.

(* ------------------------------------------------------------------ convert_derivative_from_spherical_to_cartesian *)
Notation s2c := (sph_to_cart ROps eps_jac sintd costd sinpd cospd phid).

Lemma abs_R x : abs ROps x = Rabs x.
Proof.
  unfold abs, opp. cbn [ltb zero sub ROps]. unfold Rabs. destruct (Rcase_abs x) as [H|H].
  - apply Rltb_true in H. rewrite H. ring.
  - destruct (Rltb x 0) eqn:E; [apply Rltb_true in E; lra|reflexivity].
Qed.

(* away from the centre and the polar axis the returned vector solves the chain-rule system  J^T g = (dr, dt, dp) ... *)
Lemma cart_solves_chain_rule_lemma dr dt dp r th ph : eps_jac <= Rabs r -> eps_jac <= Rabs ph -> sin ph <> 0 ->
  let '(gx, gy, gz) := s2c dr dt dp r (th, ph) in
  dr = gx * (sin ph * cos th) + gy * (sin ph * sin th) + gz * cos ph /\
  dt = gx * (- r * sin ph * sin th) + gy * (r * sin ph * cos th) + gz * 0 /\
  dp = gx * (r * cos ph * cos th) + gy * (r * cos ph * sin th) + gz * (- r * sin ph).
Proof.
  intros Hr Hph Hs. unfold sph_to_cart. rewrite !abs_R. unfold phid, sintd, costd, sinpd, cospd. cbn [fst snd ltb ROps].
  assert (Er : Rltb (Rabs r) eps_jac = false) by (apply Rltb_false; exact Hr).
  assert (Ep : Rltb (Rabs ph) eps_jac = false) by (apply Rltb_false; exact Hph).
  rewrite Er, Ep. cbn [orb]. unfold opp. cbn [add sub mul div zero ROps].
  assert (Hr0 : r <> 0) by (intros E; rewrite E, Rabs_R0 in Hr; lra).
  pose proof (sin2_cos2 th) as H1. pose proof (sin2_cos2 ph) as H2. unfold Rsqr in *.
  generalize dependent (sin ph). generalize (cos ph). generalize dependent (sin th). generalize (cos th).
  intros ct st H1 cp sp Hs H2.
  assert (H1' : st ^ 2 = 1 - ct ^ 2) by lra. assert (H2' : cp ^ 2 = 1 - sp ^ 2) by lra.
  repeat split; field_simplify_eq; first [ ring [H1' H2'] | repeat split; assumption ].
Qed.

(* ... and that system has no other solution: J^{-T} J^T = identity *)
Lemma jacobian_inverse_lemma gx gy gz r th ph : eps_jac <= Rabs r -> eps_jac <= Rabs ph -> sin ph <> 0 ->
  s2c (gx * (sin ph * cos th) + gy * (sin ph * sin th) + gz * cos ph)
      (gx * (- r * sin ph * sin th) + gy * (r * sin ph * cos th) + gz * 0)
      (gx * (r * cos ph * cos th) + gy * (r * cos ph * sin th) + gz * (- r * sin ph)) r (th, ph) = (gx, gy, gz).
Proof.
  intros Hr Hph Hs. unfold sph_to_cart. rewrite !abs_R. unfold phid, sintd, costd, sinpd, cospd. cbn [fst snd ltb ROps].
  assert (Er : Rltb (Rabs r) eps_jac = false) by (apply Rltb_false; exact Hr).
  assert (Ep : Rltb (Rabs ph) eps_jac = false) by (apply Rltb_false; exact Hph).
  rewrite Er, Ep. cbn [orb]. unfold opp. cbn [add sub mul div zero ROps].
  assert (Hr0 : r <> 0) by (intros E; rewrite E, Rabs_R0 in Hr; lra).
  pose proof (sin2_cos2 th) as H1. pose proof (sin2_cos2 ph) as H2. unfold Rsqr in *.
  generalize dependent (sin ph). generalize (cos ph). generalize dependent (sin th). generalize (cos th).
  intros ct st H1 cp sp Hs H2.
  assert (H1' : st ^ 2 = 1 - ct ^ 2) by lra. assert (H2' : cp ^ 2 = 1 - sp ^ 2) by lra.
  f_equal; [f_equal|]; field_simplify_eq; first [ ring [H1' H2'] | repeat split; assumption ].
Qed.

(* on the polar axis (phi = 0, where convert_cart_to_sph reports theta = 0) the routine zeroes the theta column: the
   y-component of a Cartesian gradient is lost — it returns (0, 0, 0) for the spherical image of g = (0, 1, 0) *)
Lemma cartesian_axis_refuted_lemma : exists gx gy gz r, 0 < r /\
  s2c (gx * (sin 0 * cos 0) + gy * (sin 0 * sin 0) + gz * cos 0)
      (gx * (- r * sin 0 * sin 0) + gy * (r * sin 0 * cos 0) + gz * 0)
      (gx * (r * cos 0 * cos 0) + gy * (r * cos 0 * sin 0) + gz * (- r * sin 0)) r (0, 0) <> (gx, gy, gz).
Proof.
  exists 0, 1, 0, (1 + eps_jac). split; [lra|].
  unfold sph_to_cart. rewrite !abs_R. unfold phid, sintd, costd, sinpd, cospd. cbn [fst snd ltb ROps].
  rewrite sin_0, cos_0, Rabs_R0.
  assert (Ep : Rltb 0 eps_jac = true) by (apply Rltb_true; exact eps_jac_pos). rewrite Ep, orb_true_r.
  assert (Er : Rltb (Rabs (1 + eps_jac)) eps_jac = false) by (apply Rltb_false; rewrite Rabs_pos_eq; lra). rewrite Er.
  unfold opp. cbn [add sub mul div zero ROps]. intros E. injection E as E1 E2 E3. revert E2. 
  replace ((0 * 1) * (0 * (0 * 1) + 1 * (0 * 0) + 0 * 1) + 0 * (0 * (- (1 + eps_jac) * 0 * 0) + 1 * ((1 + eps_jac) * 0 * 1) + 0 * 0)
           + 0 * 1 / (1 + eps_jac) * (0 * ((1 + eps_jac) * 1 * 1) + 1 * ((1 + eps_jac) * 1 * 0) + 0 * (- (1 + eps_jac) * 0))) with 0.
  - lra.
  - field. lra.
Qed.

(* at the centre (r = 0, where convert_cart_to_sph reports theta = phi = 0) both angular columns are zeroed: only the
   z-component survives *)
Lemma cartesian_centre_refuted_lemma : exists gx gy gz,
  s2c (gx * (sin 0 * cos 0) + gy * (sin 0 * sin 0) + gz * cos 0) 0 0 0 (0, 0) <> (gx, gy, gz).
Proof.
  exists 1, 0, 0. unfold sph_to_cart. rewrite !abs_R. unfold phid, sintd, costd, sinpd, cospd. cbn [fst snd ltb ROps].
  rewrite sin_0, cos_0, Rabs_R0.
  assert (Ep : Rltb 0 eps_jac = true) by (apply Rltb_true; exact eps_jac_pos). rewrite Ep. cbn [orb].
  unfold opp. cbn [add sub mul div zero ROps]. intros E. injection E as E1 E2 E3. revert E1. 
  replace (1 * 0 * (1 * (0 * 1) + 0 * (0 * 0) + 0 * 1) + 0 * 0 + 0 * 0) with 0 by ring. lra.
Qed.

End Deriv.
