(* C09 — algebraic part at the reals: discrete orthonormality of the shell quadratures implies exact recovery of the
   radial components, of the angular integrals and of the function at the grid points. *)
From Coq Require Import List Arith Bool Reals Lra Lia.
From P Require Import C09_model.
Import ListNotations.
Open Scope R_scope.

Definition Rltb (a b : R) : bool := if Rlt_dec a b then true else false.
Definition ROps : NumOps R := MkOps R 0 1 Rplus Rminus Rmult Rdiv Rltb.

Lemma Rltb_true a b : Rltb a b = true <-> a < b.
Proof. unfold Rltb. destruct (Rlt_dec a b); split; intros; try assumption; try reflexivity; try discriminate; contradiction. Qed.
Lemma Rltb_false a b : Rltb a b = false <-> b <= a.
Proof. unfold Rltb. destruct (Rlt_dec a b); split; intros; try discriminate; try reflexivity; lra. Qed.

Notation rsum := (sum ROps).
Notation rdot := (dot ROps).
Definition sumn (n : nat) (f : nat -> R) : R := rsum (map f (seq 0 n)).

(* ------------------------------------------------------------------ list / sum lemmas *)
Lemma rsum_cons x l : rsum (x :: l) = x + rsum l.
Proof. reflexivity. Qed.
Lemma rsum_app a b : rsum (a ++ b) = rsum a + rsum b.
Proof. induction a as [|x a IH]; [rewrite app_nil_l; change (rsum []) with 0; ring|]. rewrite <- app_comm_cons, !rsum_cons, IH. ring. Qed.
Lemma rdot_cons x a y b : rdot (x :: a) (y :: b) = x * y + rdot a b.
Proof. reflexivity. Qed.
Lemma rdot_nil_l b : rdot [] b = 0.
Proof. reflexivity. Qed.
Lemma rdot_nil_r a : rdot a [] = 0.
Proof. destruct a; reflexivity. Qed.

Lemma sumn_S n f : sumn (S n) f = sumn n f + f n.
Proof. unfold sumn. rewrite seq_S, map_app, rsum_app. cbn [map Nat.add]. rewrite rsum_cons. change (rsum []) with 0. ring. Qed.
Lemma sumn_0 f : sumn 0 f = 0.
Proof. reflexivity. Qed.
Lemma sumn_ext_lt n f g : (forall k, (k < n)%nat -> f k = g k) -> sumn n f = sumn n g.
Proof. induction n as [|n IH]; intros H; [reflexivity|]. rewrite !sumn_S, IH, H by (intros; try apply H; lia). reflexivity. Qed.
Lemma sumn_plus n f g : sumn n (fun k => f k + g k) = sumn n f + sumn n g.
Proof. induction n as [|n IH]; [rewrite !sumn_0; ring|]. rewrite !sumn_S, IH. ring. Qed.
Lemma sumn_scal n a f : sumn n (fun k => f k * a) = sumn n f * a.
Proof. induction n as [|n IH]; [rewrite !sumn_0; ring|]. rewrite !sumn_S, IH. ring. Qed.
Lemma sumn_zero n : sumn n (fun _ => 0) = 0.
Proof. induction n as [|n IH]; [reflexivity|]. rewrite sumn_S, IH. ring. Qed.
Lemma sumn_delta n c k : sumn n (fun k' => c k' * (if (k =? k')%nat then 1 else 0)) = if (k <? n)%nat then c k else 0.
Proof.
  induction n as [|n IH]; [reflexivity|]. rewrite sumn_S, IH.
  destruct (Nat.ltb_spec k n), (Nat.ltb_spec k (S n)), (Nat.eqb_spec k n); try lia; subst; ring.
Qed.
(* a sum whose terms vanish from K on *)
Lemma sumn_trunc n K a b : (K <= n)%nat ->
  sumn n (fun k => (if (k <? K)%nat then a k else 0) * b k) = sumn K (fun k => a k * b k).
Proof.
  intros H. induction n as [|n IH]; [replace K with 0%nat by lia; reflexivity|].
  destruct (Nat.eq_dec K (S n)) as [E|E].
  - subst K. apply sumn_ext_lt. intros k Hk. destruct (Nat.ltb_spec k (S n)); [reflexivity|lia].
  - rewrite sumn_S, IH by lia. destruct (Nat.ltb_spec n K); [lia|]. ring.
Qed.
Lemma rdot_map_seq n a b : rdot (map a (seq 0 n)) (map b (seq 0 n)) = sumn n (fun k => a k * b k).
Proof.
  unfold sumn. generalize 0%nat. induction n as [|n IH]; intros s; [reflexivity|].
  cbn [seq map]. rewrite rdot_cons, rsum_cons, IH. reflexivity.
Qed.

Lemma map2_map2_r {A B C E} (F : A -> C -> E) (G : A -> B -> C) (g : list A) (cs : list B) :
  map2 F g (map2 G g cs) = map2 (fun s c => F s (G s c)) g cs.
Proof. revert cs. induction g as [|s g IH]; intros [|c cs]; try reflexivity. cbn [map2]. rewrite IH. reflexivity. Qed.
Lemma map2_ext_in {A B C} (F G : A -> B -> C) (g : list A) (cs : list B) :
  (forall s, In s g -> forall c, F s c = G s c) -> map2 F g cs = map2 G g cs.
Proof.
  revert cs. induction g as [|s g IH]; intros [|c cs] H; try reflexivity. cbn [map2].
  rewrite H by (left; reflexivity). rewrite IH by (intros; apply H; [right; assumption]). reflexivity.
Qed.
Lemma map2_const_l {A B C} (h : B -> C) (g : list A) (cs : list B) :
  length cs = length g -> map2 (fun _ c => h c) g cs = map h cs.
Proof. revert cs. induction g as [|s g IH]; intros [|c cs] H; try discriminate; try reflexivity. cbn [map2 map]. rewrite IH by (simpl in H; lia). reflexivity. Qed.
Lemma map2_length {A B C} (F : A -> B -> C) (a : list A) (b : list B) : length b = length a -> length (map2 F a b) = length a.
Proof. revert b. induction a as [|x a IH]; intros [|y b] H; try discriminate; try reflexivity. cbn [map2 length]. rewrite IH by (simpl in H; lia). reflexivity. Qed.
Lemma nth_map2 {A B C} (F : A -> B -> C) (a : list A) (b : list B) i da db dc :
  (i < length a)%nat -> length b = length a -> nth i (map2 F a b) dc = F (nth i a da) (nth i b db).
Proof.
  revert b i. induction a as [|x a IH]; intros [|y b] i Hi H; simpl in *; try lia.
  destruct i as [|i]; [reflexivity|]. apply IH; lia.
Qed.

(* ------------------------------------------------------------------ the shell quadrature *)
Section Alg.
Context {D : Type}.
Variable eps_small : R.
Hypothesis eps_pos : 0 < eps_small.
Variable Y : nat -> D -> R.

Notation shellR := (shell R D).

(* sum_j aw_j Y_k(d_j) Y_k'(d_j) *)
Definition gram (ds : list D) (aw : list R) (k k' : nat) : R := rdot (map (fun d => Y k d * Y k' d) ds) aw.
(* "angular grid i integrates products Y_lm Y_l'm' exactly for l, l' <= d_i / 2" (C02 for the product degree),
   on the directions the basis is evaluated at *)
Definition ortho (s : shellR) : Prop :=
  forall k k', (k < nsph (s_deg s))%nat -> (k' < nsph (s_deg s))%nat ->
    gram (basis_dirs ROps s) (s_aw s) k k' = if (k =? k')%nat then 1 else 0.
Definition wf_shell (s : shellR) : Prop := s_w s <> 0.

(* a band-limited function on one shell: sum_{k < K} c_k Y_k(direction) *)
Definition band (K : nat) (c : nat -> R) (ds : list D) : list R := map (fun d => sumn K (fun k => c k * Y k d)) ds.
Definition coef (K : nat) (k : nat) (c : nat -> R) : R := if (k <? K)%nat then c k else 0.

Lemma rdot_scale vals aw a : rdot vals (map (fun x => x * a) aw) = rdot vals aw * a.
Proof.
  revert aw. induction vals as [|v vals IH]; intros [|x aw]; try (cbn; ring).
  cbn [map]. rewrite !rdot_cons, IH. ring.
Qed.

Lemma shell_weights_R (s : shellR) : shell_weights ROps s = map (fun a => a * (s_w s * (s_r s * s_r s))) (s_aw s).
Proof. unfold shell_weights, sq. apply map_ext. intros a. cbn. ring. Qed.

(* both branches of integrate_angular_coordinates compute the angular quadrature sum_j aw_j v_j *)
Lemma int_ang_shell_R (s : shellR) vals : wf_shell s -> int_ang_shell ROps eps_small s vals = rdot vals (s_aw s).
Proof.
  intros Hw. unfold int_ang_shell, small. cbn [ltb ROps]. destruct (Rltb (s_r s) eps_small) eqn:E; [reflexivity|].
  apply Rltb_false in E. rewrite shell_weights_R, rdot_scale. unfold sq. cbn [div mul ROps]. unfold wf_shell in Hw.
  field. split; [exact Hw|lra].
Qed.

Lemma proj_band ds aw K c k :
  rdot (map2 (fun d f => mul ROps (Y k d) f) ds (band K c ds)) aw = sumn K (fun k' => c k' * gram ds aw k k').
Proof.
  unfold band, gram. revert aw. induction ds as [|d ds IH]; intros aw.
  - cbn [map map2]. rewrite rdot_nil_l. symmetry. erewrite sumn_ext_lt; [apply sumn_zero|]. intros; cbn; ring.
  - destruct aw as [|a aw].
    + rewrite rdot_nil_r. symmetry. erewrite sumn_ext_lt; [apply sumn_zero|]. intros. rewrite rdot_nil_r. ring.
    + cbn [map map2]. rewrite rdot_cons, IH. cbn [mul ROps].
      rewrite (Rmult_comm (Y k d) _), Rmult_assoc, <- sumn_scal, <- sumn_plus. apply sumn_ext_lt. intros k' _.
      cbn [map]. rewrite rdot_cons. ring.
Qed.

Lemma proj_band_ortho (s : shellR) K c k : ortho s -> (K <= nsph (s_deg s))%nat -> (k < nsph (s_deg s))%nat ->
  rdot (map2 (fun d f => mul ROps (Y k d) f) (basis_dirs ROps s) (band K c (basis_dirs ROps s))) (s_aw s) = coef K k c.
Proof.
  intros Ho HK Hk. rewrite proj_band.
  erewrite sumn_ext_lt; [apply sumn_delta|]. intros k' Hk'. cbn beta. rewrite Ho by lia. reflexivity.
Qed.

(* one entry of the array handed to spline k *)
Lemma rad_comp_shell_band lm (s : shellR) K c k : wf_shell s -> ortho s -> (K <= nsph (s_deg s))%nat -> (k < nsph lm)%nat ->
  rad_comp_shell ROps eps_small Y lm s (band K c (basis_dirs ROps s)) k = coef K k c.
Proof.
  intros Hw Ho HK Hk. unfold rad_comp_shell.
  destruct (Nat.eqb_spec (s_deg s) lm) as [E|E]; cbn [negb andb].
  - rewrite int_ang_shell_R by exact Hw. apply proj_band_ortho; try assumption. rewrite E. exact Hk.
  - destruct (Nat.leb_spec (nsph (s_deg s)) k) as [L|L].
    + unfold coef. destruct (Nat.ltb_spec k K); [lia|reflexivity].
    + rewrite int_ang_shell_R by exact Hw. apply proj_band_ortho; assumption.
Qed.

(* a band-limited function on the whole grid, one coefficient table row per shell *)
Definition band_grid (g : list shellR) (K : nat) (cs : list (nat -> R)) : list (list R) :=
  map2 (fun s c => band K c (basis_dirs ROps s)) g cs.
Definition band_ok (g : list shellR) (K : nat) : Prop := forall s, In s g -> (K <= nsph (s_deg s))%nat.
Definition wf_grid (g : list shellR) : Prop := forall s, In s g -> wf_shell s /\ ortho s.

Lemma components_recovered_lemma g K cs : wf_grid g -> band_ok g K -> length cs = length g ->
  rad_comps ROps eps_small Y g (band_grid g K cs) = map (fun k => map (coef K k) cs) (seq 0 (nbasis g)).
Proof.
  intros Hwf Hb Hl. unfold rad_comps, band_grid. apply map_ext_in. intros k Hk. apply in_seq in Hk.
  rewrite map2_map2_r.
  rewrite (map2_ext_in _ (fun _ c => coef K k c)).
  - apply map2_const_l. exact Hl.
  - intros s Hs c. destruct (Hwf s Hs). apply rad_comp_shell_band; try assumption; [apply Hb; assumption|unfold nbasis in Hk; lia].
Qed.

(* ------------------------------------------------------------------ angular integrals *)
Lemma rdot_const_factor y00 ds (h : D -> R) aw : (forall d, Y 0 d = y00) ->
  rdot (map2 (fun d f => mul ROps (Y 0 d) f) ds (map h ds)) aw = y00 * rdot (map h ds) aw.
Proof.
  intros H0. revert aw. induction ds as [|d ds IH]; intros [|a aw]; try (cbn; ring).
  cbn [map map2]. rewrite !rdot_cons, IH, H0. cbn [mul ROps]. ring.
Qed.

Lemma int_ang_band_shell y00 (s : shellR) K c : (forall d, Y 0 d = y00) -> y00 <> 0 -> wf_shell s -> ortho s ->
  (1 <= K <= nsph (s_deg s))%nat ->
  int_ang_shell ROps eps_small s (band K c (basis_dirs ROps s)) = c 0%nat / y00.
Proof.
  intros H0 Hy Hw Ho HK. rewrite int_ang_shell_R by exact Hw.
  assert (E : y00 * rdot (band K c (basis_dirs ROps s)) (s_aw s) = coef K 0 c).
  { unfold band at 1. rewrite <- rdot_const_factor by exact H0. apply proj_band_ortho; try assumption; lia. }
  unfold coef in E. destruct (Nat.ltb_spec 0 K); [|lia]. rewrite <- E. field. exact Hy.
Qed.

Lemma angular_integral_lemma y00 g K cs : (forall d, Y 0 d = y00) -> y00 <> 0 -> wf_grid g -> band_ok g K -> (1 <= K)%nat ->
  length cs = length g ->
  int_ang ROps eps_small g (band_grid g K cs) = map (fun c => c 0%nat / y00) cs.
Proof.
  intros H0 Hy Hwf Hb HK Hl. unfold int_ang, band_grid. rewrite map2_map2_r.
  rewrite (map2_ext_in _ (fun _ c => c 0%nat / y00)).
  - apply map2_const_l. exact Hl.
  - intros s Hs c. destruct (Hwf s Hs). apply int_ang_band_shell; try assumption. split; [exact HK|apply Hb; exact Hs].
Qed.

(* sum_i r_i^2 w_i * (angular integral on shell i) = Grid.integrate(f), for ANY function values *)
Lemma reweighted_sum_lemma g fvals : (forall s, In s g -> wf_shell s) ->
  rsum (map2 (fun s v => s_r s * s_r s * s_w s * v) g (int_ang ROps eps_small g fvals)) = grid_integrate ROps g fvals.
Proof.
  intros Hwf. unfold int_ang, grid_integrate. rewrite map2_map2_r. f_equal. apply map2_ext_in. intros s Hs fv.
  rewrite int_ang_shell_R by (apply Hwf; exact Hs). rewrite shell_weights_R, rdot_scale. ring.
Qed.

End Alg.
