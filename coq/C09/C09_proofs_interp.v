(* C09 — the spline-dependent part: interpolant at the grid points and at arbitrary points, spherical average,
   molecular interpolation.  The cubic spline is the oracle `spl`; its hypotheses are stated for the abscissae
   actually used (the radial nodes of the grid). *)
From Coq Require Import List Arith Bool Reals Lra Lia.
From P Require Import C09_model C09_proofs_alg.
Import ListNotations.
Open Scope R_scope.

(* hypotheses on scipy.interpolate.CubicSpline(x = xs, y)(t, nu), validated numerically on every run *)
Definition spl_knots (spl : list R -> list R -> R -> nat -> R) (xs : list R) : Prop :=
  forall y i, length y = length xs -> (i < length xs)%nat -> spl xs y (nth i xs 0) 0%nat = nth i y 0.
Definition spl_linear (spl : list R -> list R -> R -> nat -> R) (xs : list R) : Prop :=
  forall a y1 y2 t nu, length y1 = length xs -> length y2 = length xs ->
    spl xs (map2 (fun u v => a * u + v) y1 y2) t nu = a * spl xs y1 t nu + spl xs y2 t nu.

Lemma map2_map_diag {A B C E} (F : A -> C -> E) (G : B -> C) (p : A -> B) (g : list A) :
  map (fun s => F s (G (p s))) g = map2 F g (map G (map p g)).
Proof. induction g as [|s g IH]; [reflexivity|]. cbn [map map2]. rewrite IH. reflexivity. Qed.
Lemma map2_map_r {A B C E} (F : A -> C -> E) (q : B -> C) (g : list A) (l : list B) :
  map2 F g (map q l) = map2 (fun s v => F s (q v)) g l.
Proof. revert l. induction g as [|s g IH]; intros [|v l]; try reflexivity. cbn [map map2]. rewrite IH. reflexivity. Qed.
Lemma map2_maps {A B C E} (F : B -> C -> E) (a : A -> B) (b : A -> C) (l : list A) :
  map2 F (map a l) (map b l) = map (fun x => F (a x) (b x)) l.
Proof. induction l as [|x l IH]; [reflexivity|]. cbn [map map2]. rewrite IH. reflexivity. Qed.
Lemma nth_map_any {A B} (f : A -> B) (l : list A) i da db : (i < length l)%nat -> nth i (map f l) db = f (nth i l da).
Proof. intros H. rewrite (nth_indep _ db (f da)) by (rewrite map_length; exact H). apply map_nth. Qed.

Lemma spl_at_knots spl xs y : spl_knots spl xs -> length y = length xs -> map (fun r => spl xs y r 0%nat) xs = y.
Proof.
  intros Hk Hl. apply (nth_ext _ _ 0 0); [rewrite map_length; symmetry; exact Hl|].
  intros i Hi. rewrite map_length in Hi. rewrite (nth_map_any _ _ _ 0) by exact Hi. apply Hk; assumption.
Qed.
Lemma spl_zero spl xs (cs : list (nat -> R)) t nu : spl_linear spl xs -> length cs = length xs ->
  spl xs (map (fun _ => 0) cs) t nu = 0.
Proof.
  intros Hl Hc. pose proof (Hl 1 (map (fun _ => 0) cs) (map (fun _ => 0) cs) t nu) as H.
  rewrite !map_length in H. specialize (H Hc Hc).
  rewrite map2_maps in H.
  replace (map (fun _ : nat -> R => 1 * 0 + 0) cs) with (map (fun _ : nat -> R => 0) cs) in H by (apply map_ext; intros; ring).
  set (X := spl xs (map (fun _ : nat -> R => 0) cs) t nu) in *. clearbody X. lra.
Qed.

Lemma sumn_only0 K (f : nat -> R) : (forall k, (1 <= k < K)%nat -> f k = 0) -> sumn K f = if (K =? 0)%nat then 0 else f 0%nat.
Proof.
  intros H. induction K as [|K IH]; [reflexivity|]. rewrite sumn_S, IH by (intros; apply H; lia).
  destruct K as [|K]; [cbn; ring|]. rewrite (H (S K)) by lia. cbn [Nat.eqb]. ring.
Qed.

Section Interp.
Context {D : Type}.
Variable eps_small : R.
Hypothesis eps_pos : 0 < eps_small.
Variable Y : nat -> D -> R.
Variable spl : list R -> list R -> R -> nat -> R.
Notation shellR := (shell R D).

Lemma lmax_in (g : list shellR) : g <> [] -> exists s, In s g /\ s_deg s = lmax g.
Proof.
  induction g as [|s g IH]; [congruence|]. intros _. destruct g as [|s' g].
  - exists s. split; [left; reflexivity|]. unfold lmax. cbn. lia.
  - destruct IH as (t & Ht & Et); [discriminate|]. unfold lmax in *. cbn [map fold_right] in *.
    destruct (Nat.max_spec (s_deg s) (Nat.max (s_deg s') (fold_right Nat.max 0%nat (map s_deg g)))) as [[_ E]|[_ E]]; rewrite E.
    + exists t. split; [right; exact Ht|exact Et].
    + exists s. split; [left; reflexivity|reflexivity].
Qed.
Lemma band_le_nbasis (g : list shellR) K : g <> [] -> band_ok g K -> (K <= nbasis g)%nat.
Proof. intros Hg Hb. destruct (lmax_in g Hg) as (s & Hs & E). unfold nbasis. rewrite <- E. apply Hb. exact Hs. Qed.

(* value returned for (r, d) with deriv = nu (only_radial_deriv when nu > 0): sum_k spline_k(r, nu) * Y_k(d), where
   spline k was built from row k of the recovered components *)
Lemma interp_value_band g K cs r d nu : wf_grid Y g -> band_ok g K -> length cs = length g ->
  interp_value ROps eps_small Y spl g (band_grid Y g K cs) r d nu
  = sumn (nbasis g) (fun k => spl (radii g) (map (coef K k) cs) r nu * Y k d).
Proof.
  intros Hwf Hb Hl. unfold interp_value, spline_vals, spline_of, p_value.
  rewrite (components_recovered_lemma eps_small eps_pos Y g K cs Hwf Hb Hl).
  rewrite !map_map, map_length, seq_length. unfold ycol. apply rdot_map_seq.
Qed.

Lemma interpolant_def_lemma g K cs r d nu : wf_grid Y g -> band_ok g K -> length cs = length g -> g <> [] ->
  spl_linear spl (radii g) ->
  interp_value ROps eps_small Y spl g (band_grid Y g K cs) r d nu
  = sumn K (fun k => spl (radii g) (map (fun c => c k) cs) r nu * Y k d).
Proof.
  intros Hwf Hb Hl Hg Hlin. rewrite interp_value_band by assumption.
  rewrite <- (sumn_trunc (nbasis g) K (fun k => spl (radii g) (map (fun c => c k) cs) r nu) (fun k => Y k d))
    by (apply band_le_nbasis; assumption).
  apply sumn_ext_lt. intros k _. f_equal. unfold coef. destruct (Nat.ltb_spec k K); [reflexivity|].
  apply spl_zero; [exact Hlin|]. unfold radii. rewrite map_length. exact Hl.
Qed.

Lemma interp_at_grid_points_lemma y00 g K cs i j (s0 : shellR) c0 d0 :
  wf_grid Y g -> band_ok g K -> length cs = length g -> spl_knots spl (radii g) -> (i < length g)%nat ->
  let s := nth i g s0 in let c := nth i cs c0 in
  (j < length (s_pdirs s))%nat -> (j < length (basis_dirs ROps s))%nat ->
  (is0 ROps (s_r s) = false \/ ((forall d, Y 0%nat d = y00) /\ forall k, (1 <= k < K)%nat -> c k = 0)) ->
  interp_value ROps eps_small Y spl g (band_grid Y g K cs) (s_r s) (nth j (s_pdirs s) d0) 0
  = nth j (nth i (band_grid Y g K cs) []) 0.
Proof.
  intros Hwf Hb Hl Hk Hi s c Hj Hj' Hcase.
  assert (Hg : g <> []) by (intros E; rewrite E in Hi; simpl in Hi; lia).
  rewrite interp_value_band by assumption.
  assert (Er : s_r s = nth i (radii g) 0) by (unfold radii, s; symmetry; apply nth_map_any; exact Hi).
  rewrite (sumn_ext_lt _ _ (fun k => coef K k c * Y k (nth j (s_pdirs s) d0))).
  2:{ intros k _. f_equal. rewrite Er, Hk; [|rewrite map_length; unfold radii; rewrite map_length; exact Hl|unfold radii; rewrite map_length; exact Hi].
      apply nth_map_any. rewrite Hl. exact Hi. }
  unfold coef. rewrite sumn_trunc by (apply band_le_nbasis; assumption).
  unfold band_grid. rewrite (nth_map2 _ g cs i s0 c0 []) by (assumption || exact Hi). fold s c.
  unfold band. rewrite (nth_map_any _ _ _ d0) by exact Hj'.
  destruct Hcase as [Hz|[H0 Hc]].
  - unfold basis_dirs. rewrite Hz. reflexivity.
  - rewrite !sumn_only0 by (intros k Hk'; rewrite Hc by exact Hk'; ring). rewrite !H0. reflexivity.
Qed.

(* spherical_average: radial quadrature of 4 pi r^2 f_avg(r) gives back the grid integral, for ANY function values *)
Lemma average_integrates_back_lemma fourpi (g : list shellR) fvals : fourpi <> 0 -> (forall s, In s g -> wf_shell s) ->
  length fvals = length g -> spl_knots spl (radii g) ->
  radial_integral ROps g (fun r => fourpi * (r * r) * spherical_average ROps eps_small fourpi spl g fvals r 0)
  = grid_integrate ROps g fvals.
Proof.
  intros Hp Hwf Hl Hk. rewrite <- (reweighted_sum_lemma eps_small eps_pos g fvals Hwf).
  unfold radial_integral, spherical_average, spline_of. f_equal.
  rewrite (map2_map_diag (fun s a => mul ROps (s_w s) (fourpi * (s_r s * s_r s) * a))
                         (fun r => spl (radii g) (sph_avg_data ROps eps_small fourpi g fvals) r 0%nat) s_r g).
  fold (radii g). rewrite spl_at_knots; [|exact Hk|].
  - unfold sph_avg_data. rewrite map2_map_r. apply map2_ext_in. intros s _ v. cbn [mul div ROps]. field. exact Hp.
  - unfold sph_avg_data, int_ang, radii. rewrite !map_length. apply map2_length. exact Hl.
Qed.

(* ------------------------------------------------------------------ array level = point level *)
Variables (eps_jac : R) (dYt dYp : nat -> D -> R) (sint cost sinp cosp phi : D -> R).
Notation interpolateR := (interpolate ROps eps_small eps_jac Y dYt dYp sint cost sinp cosp phi spl).

Lemma interpolate_values g fvals pts nu sph : (nu = 0%nat \/ True) ->
  interpolateR g fvals pts nu sph true
  = Vals (map (fun p => interp_value ROps eps_small Y spl g fvals (fst p) (snd p) nu) pts).
Proof.
  intros _. unfold interpolate, interp_assemble. cbn [negb andb]. f_equal.
  rewrite map2_maps. reflexivity.
Qed.
Lemma interpolate_values0 g fvals pts sph ro :
  interpolateR g fvals pts 0 sph ro
  = Vals (map (fun p => interp_value ROps eps_small Y spl g fvals (fst p) (snd p) 0) pts).
Proof.
  unfold interpolate, interp_assemble. cbn [Nat.eqb negb andb]. rewrite !andb_false_r. f_equal.
  rewrite map2_maps. reflexivity.
Qed.
Lemma interpolate_spherical g fvals pts :
  interpolateR g fvals pts 1 true false
  = Flat (map (fun p => fst (fst (interp_sph ROps eps_small Y dYt dYp spl g fvals (fst p) (snd p)))) pts
          ++ map (fun p => snd (fst (interp_sph ROps eps_small Y dYt dYp spl g fvals (fst p) (snd p)))) pts
          ++ map (fun p => snd (interp_sph ROps eps_small Y dYt dYp spl g fvals (fst p) (snd p))) pts).
Proof.
  unfold interpolate, interp_assemble. cbn [Nat.eqb negb andb]. f_equal.
  rewrite !map2_maps. reflexivity.
Qed.
Lemma interpolate_cartesian g fvals pts :
  interpolateR g fvals pts 1 false false
  = Rows (map (fun p => interp_cart ROps eps_small eps_jac Y dYt dYp sint cost sinp cosp phi spl g fvals (fst p) (snd p)) pts).
Proof.
  unfold interpolate, interp_assemble. cbn [Nat.eqb negb andb]. f_equal.
  induction pts as [|p pts IH]; [reflexivity|]. cbn [map combine map2]. rewrite IH. reflexivity.
Qed.
Lemma interpolate_higher_rejected g fvals pts nu sph : interpolateR g fvals pts (S (S nu)) sph false = Err.
Proof. reflexivity. Qed.

(* ------------------------------------------------------------------ MolGrid.interpolate *)
Notation mol := (mol_interpolate ROps eps_small eps_jac Y dYt dYp sint cost sinp cosp phi spl).
Notation atomR := (atom (T := R) (D := D)).
Definition weighted (a : atomR) : list (list R) := map2 (map2 Rmult) (a_f a) (a_aim a).

Lemma fold_vals (vs : list R) x : fold_left (res_add ROps) (map (fun v => Vals [v]) vs) (Vals [x]) = Vals [x + rsum vs].
Proof.
  revert x. induction vs as [|v vs IH]; intros x; [cbn; replace (x + 0) with x by ring; reflexivity|].
  cbn [map fold_left res_add map2]. cbn [add ROps]. rewrite IH, rsum_cons. replace (x + v + rsum vs) with (x + (v + rsum vs)) by ring. reflexivity.
Qed.
Lemma fold_rows (vs : list (R * R * R)) x :
  fold_left (res_add ROps) (map (fun v => Rows [v]) vs) (Rows [x])
  = Rows [(fst (fst x) + rsum (map (fun v => fst (fst v)) vs), snd (fst x) + rsum (map (fun v => snd (fst v)) vs),
           snd x + rsum (map snd vs))].
Proof.
  revert x. induction vs as [|[[v1 v2] v3] vs IH]; intros [[x1 x2] x3].
  - cbn. replace (x1 + 0) with x1 by ring. replace (x2 + 0) with x2 by ring. replace (x3 + 0) with x3 by ring. reflexivity.
  - cbn [map fold_left res_add map2 add3]. cbn [add ROps]. rewrite IH. cbn [fst snd]. rewrite !rsum_cons.
    replace (x1 + v1 + rsum (map (fun v => fst (fst v)) vs)) with (x1 + (v1 + rsum (map (fun v => fst (fst v)) vs))) by ring.
    replace (x2 + v2 + rsum (map (fun v => snd (fst v)) vs)) with (x2 + (v2 + rsum (map (fun v => snd (fst v)) vs))) by ring.
    replace (x3 + v3 + rsum (map snd vs)) with (x3 + (v3 + rsum (map snd vs))) by ring. reflexivity.
Qed.

(* one evaluation point; ps = its spherical coordinates about each atom's centre *)
Lemma mol_value_lemma (atoms : list atomR) (ps : list (R * D)) sph ro : atoms <> [] -> length ps = length atoms ->
  mol atoms (map (fun p => [p]) ps) 0 sph ro
  = Vals [rsum (map2 (fun a p => interp_value ROps eps_small Y spl (a_grid a) (weighted a) (fst p) (snd p) 0) atoms ps)].
Proof.
  intros Ha Hl. unfold mol_interpolate, mol_combine.
  assert (E : map2 (fun (a : atomR) pts => atom_interp ROps eps_small eps_jac Y dYt dYp sint cost sinp cosp phi spl a pts 0 sph ro)
                   atoms (map (fun p => [p]) ps)
              = map (fun v => Vals [v])
                  (map2 (fun a p => interp_value ROps eps_small Y spl (a_grid a) (weighted a) (fst p) (snd p) 0) atoms ps)).
  { clear Ha. revert ps Hl. induction atoms as [|a atoms IH]; intros [|p ps] Hl; try discriminate; [reflexivity|].
    cbn [map map2]. rewrite IH by (simpl in Hl; lia). f_equal. unfold atom_interp. rewrite interpolate_values0. reflexivity. }
  rewrite E. destruct atoms as [|a atoms]; [congruence|]. destruct ps as [|p ps]; [discriminate|].
  cbn [map2 map]. rewrite fold_vals, rsum_cons. reflexivity.
Qed.

Lemma mol_gradient_lemma (atoms : list atomR) (ps : list (R * D)) : atoms <> [] -> length ps = length atoms ->
  let gs := map2 (fun a p => interp_cart ROps eps_small eps_jac Y dYt dYp sint cost sinp cosp phi spl (a_grid a) (weighted a) (fst p) (snd p)) atoms ps in
  mol atoms (map (fun p => [p]) ps) 1 false false
  = Rows [(rsum (map (fun v => fst (fst v)) gs), rsum (map (fun v => snd (fst v)) gs), rsum (map snd gs))].
Proof.
  intros Ha Hl gs. unfold mol_interpolate, mol_combine.
  assert (E : map2 (fun (a : atomR) pts => atom_interp ROps eps_small eps_jac Y dYt dYp sint cost sinp cosp phi spl a pts 1 false false)
                   atoms (map (fun p => [p]) ps) = map (fun v => Rows [v]) gs).
  { unfold gs. clear Ha gs. revert ps Hl. induction atoms as [|a atoms IH]; intros [|p ps] Hl; try discriminate; [reflexivity|].
    cbn [map map2]. rewrite IH by (simpl in Hl; lia). f_equal. }
  rewrite E. unfold gs. destruct atoms as [|a atoms]; [congruence|]. destruct ps as [|p ps]; [discriminate|].
  cbn [map2 map]. rewrite fold_rows. cbn [map]. rewrite !rsum_cons. reflexivity.
Qed.

End Interp.
