(* C09 — executable model of the harmonic decomposition / interpolation routines of
   grid.atomgrid.AtomGrid (integrate_angular_coordinates, radial_component_splines, spherical_average,
   interpolate and the closure it returns), of grid.utils.convert_derivative_from_spherical_to_cartesian and of
   grid.molgrid.MolGrid.interpolate.

   Hand-written, generic in the number type T (record of operations) and in the type D of directions: the theorems
   (C09_proofs*.v / C09_props*.v) are stated at R, the correspondence with the implementation is executed at exact
   rationals (Bignums.BigQ) by vm_compute (C09_model_exec.v).  The thresholds 1e-8 / 1e-10 are read from the source on
   every run (C09_gen.v) and passed in as eps_small / eps_jac.

   Oracles (Section variables; their hypotheses are stated in the proofs and validated numerically on every run):
     Y k d          row k of generate_real_spherical_harmonics(l_max // 2, theta, phi) at the direction d
     dYt, dYp       rows of generate_derivative_real_spherical_harmonics (d/dtheta, d/dphi)
     sint cost sinp cosp phi   np.sin(theta), np.cos(theta), np.sin(phi), np.cos(phi), phi of the direction
     spl x y t nu   scipy.interpolate.CubicSpline(x=x, y=y)(t, nu)
   A direction is whatever convert_cart_to_sph reports for a point (theta, phi); the radius is kept separately.
   No proofs in this file. *)
From Coq Require Import List Arith Bool.
Import ListNotations.

Record NumOps (T : Type) := MkOps {
  zero : T; one : T;
  add : T -> T -> T; sub : T -> T -> T; mul : T -> T -> T; div : T -> T -> T;
  ltb : T -> T -> bool }.
Arguments zero {T} _.
Arguments one {T} _.
Arguments add {T} _ _ _.
Arguments sub {T} _ _ _.
Arguments mul {T} _ _ _.
Arguments div {T} _ _ _.
Arguments ltb {T} _ _ _.

Fixpoint map2 {A B C} (f : A -> B -> C) (a : list A) (b : list B) : list C :=
  match a, b with
  | x :: r, y :: s => f x y :: map2 f r s
  | _, _ => []
  end.

(* one spherical shell of an atomic grid:
     s_r, s_w   radial node and radial weight (rgrid.points[i], rgrid.weights[i])
     s_deg      the degree actually used (self._degs[i])
     s_aw       weights of AngularGrid(degree=s_deg, method)
     s_pdirs    directions of the shell's points as convert_cart_to_sph reports them (rotated; all (0,0) when s_r = 0)
     s_cdirs    directions of the un-rotated AngularGrid(degree=s_deg, method).points ("canonical" angles)        *)
Record shell (T D : Type) := Shell {
  s_r : T; s_w : T; s_deg : nat; s_aw : list T; s_pdirs : list D; s_cdirs : list D }.
Arguments Shell {T D} _ _ _ _ _ _.
Arguments s_r {T D} _.
Arguments s_w {T D} _.
Arguments s_deg {T D} _.
Arguments s_aw {T D} _.
Arguments s_pdirs {T D} _.
Arguments s_cdirs {T D} _.

(* what the closures return: values (M,), the hstack of the three spherical derivative arrays (3M,),
   Cartesian gradients (M, 3), or ValueError *)
Inductive res (T : Type) := Vals (v : list T) | Flat (v : list T) | Rows (v : list (T * T * T)) | Err.
Arguments Vals {T} _.
Arguments Flat {T} _.
Arguments Rows {T} _.
Arguments Err {T}.

Section Model.
Context {T D : Type} (o : NumOps T).
Variables (eps_small eps_jac fourpi : T).
Variable Y : nat -> D -> T.
Variables dYt dYp : nat -> D -> T.
Variables sint cost sinp cosp phi : D -> T.
Variable spl : list T -> list T -> T -> nat -> T.

Definition opp (x : T) : T := sub o (zero o) x.
Definition abs (x : T) : T := if ltb o x (zero o) then opp x else x.          (* np.abs *)
Definition is0 (x : T) : bool := negb (ltb o x (zero o)) && negb (ltb o (zero o) x).   (* x == 0.0 *)
Definition sum (l : list T) : T := fold_right (add o) (zero o) l.             (* np.sum *)
Definition dot (a b : list T) : T := sum (map2 (mul o) a b).                  (* np.sum(a * b) / einsum *)
Definition sq (x : T) : T := mul o x x.

Definition grid := list (shell T D).
Definition radii (g : grid) : list T := map s_r g.                             (* rgrid.points *)
Definition rweights (g : grid) : list T := map s_w g.                          (* rgrid.weights *)

(* _generate_atomic_grid: weights = angular weights * rgrid.weights[i] * rgrid.points[i] ** 2 *)
Definition shell_weights (s : shell T D) : list T :=
  map (fun a => mul o (mul o a (s_w s)) (sq (s_r s))) (s_aw s).
(* Grid.integrate over the atomic grid, shell by shell *)
Definition grid_integrate (g : grid) (fvals : list (list T)) : T :=
  sum (map2 (fun s fv => dot fv (shell_weights s)) g fvals).

(* ---------------------------------------------------------------- integrate_angular_coordinates
   one shell:  sum(func_vals * self.weights) / (r**2 * w);  for r < 1e-8 the angular grid is regenerated and
   the value is sum(func_vals * agrid.weights) *)
Definition small (r : T) : bool := ltb o r eps_small.
Definition int_ang_shell (s : shell T D) (vals : list T) : T :=
  if small (s_r s) then dot vals (s_aw s)
  else div o (dot vals (shell_weights s)) (mul o (sq (s_r s)) (s_w s)).
Definition int_ang (g : grid) (fvals : list (list T)) : list T := map2 int_ang_shell g fvals.

(* ---------------------------------------------------------------- radial_component_splines *)
(* convert_cartesian_to_spherical() without arguments: canonical angles on shells with r == 0.0 *)
Definition basis_dirs (s : shell T D) : list D := if is0 (s_r s) then s_cdirs s else s_pdirs s.
Definition lmax (g : grid) : nat := fold_right Nat.max 0 (map s_deg g).        (* np.max(self._degs) *)
Definition nsph (deg : nat) : nat := (deg / 2 + 1) * (deg / 2 + 1).            (* (deg // 2 + 1) ** 2 *)
Definition nbasis (g : grid) : nat := nsph (lmax g).
(* values = basis * func_vals; integrate_angular_coordinates(values); zero the rows >= (deg//2+1)**2 of
   shells whose degree differs from l_max *)
Definition rad_comp_shell (lm : nat) (s : shell T D) (fv : list T) (k : nat) : T :=
  let v := int_ang_shell s (map2 (fun d f => mul o (Y k d) f) (basis_dirs s) fv) in
  if negb (s_deg s =? lm) && (nsph (s_deg s) <=? k) then zero o else v.
(* row k = the y-array handed to CubicSpline number k *)
Definition rad_comps (g : grid) (fvals : list (list T)) : list (list T) :=
  map (fun k => map2 (fun s fv => rad_comp_shell (lmax g) s fv k) g fvals) (seq 0 (nbasis g)).
Definition spline_of (g : grid) (y : list T) : T -> nat -> T := spl (radii g) y.

(* ---------------------------------------------------------------- spherical_average *)
Definition sph_avg_data (g : grid) (fvals : list (list T)) : list T :=
  map (fun v => div o v fourpi) (int_ang g fvals).
Definition spherical_average (g : grid) (fvals : list (list T)) : T -> nat -> T :=
  spline_of g (sph_avg_data g fvals).
(* OneDGrid.integrate(4 pi r^2 avg(r)) over the radial grid *)
Definition radial_integral (g : grid) (h : T -> T) : T :=
  sum (map (fun s => mul o (s_w s) (h (s_r s))) g).

(* ---------------------------------------------------------------- convert_derivative_from_spherical_to_cartesian *)
Definition sph_to_cart (dr dt dp r : T) (d : D) : T * T * T :=
  let rs := ltb o (abs r) eps_jac in
  let ps := ltb o (abs (phi d)) eps_jac in
  let j00 := mul o (cost d) (sinp d) in
  let j10 := mul o (sint d) (sinp d) in
  let j20 := cosp d in
  let j01 := if rs || ps then zero o else div o (opp (sint d)) (mul o r (sinp d)) in
  let j11 := if rs || ps then zero o else div o (cost d) (mul o r (sinp d)) in
  let j21 := zero o in
  let j02 := if rs then zero o else div o (mul o (cost d) (cosp d)) r in
  let j12 := if rs then zero o else div o (mul o (sint d) (cosp d)) r in
  let j22 := if rs then zero o else div o (opp (sinp d)) r in
  (add o (add o (mul o j00 dr) (mul o j01 dt)) (mul o j02 dp),
   add o (add o (mul o j10 dr) (mul o j11 dt)) (mul o j12 dp),
   add o (add o (mul o j20 dr) (mul o j21 dt)) (mul o j22 dp)).

(* ---------------------------------------------------------------- the closure returned by interpolate *)
Definition ycol (f : nat -> D -> T) (n : nat) (d : D) : list T := map (fun k => f k d) (seq 0 n).

(* the arithmetic after the spline evaluations, one point (r, d):
     rv = [spline(r, deriv) for spline in splines],  rc = [spline(r, 0) for spline in splines] *)
Definition p_value (rv : list T) (d : D) : T := dot rv (ycol Y (length rv) d).
Definition p_dtheta (rc : list T) (d : D) : T := dot rc (ycol dYt (length rc) d).
Definition p_dphi (rc : list T) (d : D) : T := dot rc (ycol dYp (length rc) d).
Definition p_cart (rv rc : list T) (r : T) (d : D) : T * T * T :=
  sph_to_cart (p_value rv d) (p_dtheta rc d) (p_dphi rc d) r d.

(* array level: pts = rows of convert_cartesian_to_spherical(points); rvs / rcs = per point spline values *)
Definition interp_assemble (pts : list (T * D)) (rvs rcs : list (list T)) (deriv : nat) (sph ro : bool) : res T :=
  let ds := map snd pts in
  if negb ro && (deriv =? 1) then
    if sph then Flat (map2 p_value rvs ds ++ map2 p_dtheta rcs ds ++ map2 p_dphi rcs ds)
    else Rows (map2 (fun rvrc p => p_cart (fst rvrc) (snd rvrc) (fst p) (snd p)) (combine rvs rcs) pts)
  else if negb ro && negb (deriv =? 0) then Err
  else Vals (map2 p_value rvs ds).

Definition spline_vals (g : grid) (fvals : list (list T)) (r : T) (nu : nat) : list T :=
  map (fun y => spline_of g y r nu) (rad_comps g fvals).

(* AtomGrid.interpolate(func_vals)(points, deriv, deriv_spherical, only_radial_deriv) *)
Definition interpolate (g : grid) (fvals : list (list T)) (pts : list (T * D)) (deriv : nat) (sph ro : bool) : res T :=
  interp_assemble pts (map (fun p => spline_vals g fvals (fst p) deriv) pts)
                      (map (fun p => spline_vals g fvals (fst p) 0) pts) deriv sph ro.

(* single point views used in the statements *)
Definition interp_value (g : grid) (fvals : list (list T)) (r : T) (d : D) (nu : nat) : T :=
  p_value (spline_vals g fvals r nu) d.
Definition interp_sph (g : grid) (fvals : list (list T)) (r : T) (d : D) : T * T * T :=
  (p_value (spline_vals g fvals r 1) d, p_dtheta (spline_vals g fvals r 0) d, p_dphi (spline_vals g fvals r 0) d).
Definition interp_cart (g : grid) (fvals : list (list T)) (r : T) (d : D) : T * T * T :=
  p_cart (spline_vals g fvals r 1) (spline_vals g fvals r 0) r d.

(* ---------------------------------------------------------------- MolGrid.interpolate
   one atom = (atomic grid, aim weights on its points, function values on its points), shell-wise;
   locs = for each atom the spherical coordinates of the evaluation points about that atom's centre.
     func_vals_atom = func_vals * aim_weights;  output = f_0(points,...);  for f in rest: output += f(points,...) *)
Definition atom := (grid * list (list T) * list (list T))%type.
Definition a_grid (a : atom) : grid := fst (fst a).
Definition a_aim (a : atom) : list (list T) := snd (fst a).
Definition a_f (a : atom) : list (list T) := snd a.
Definition add3 (a b : T * T * T) : T * T * T :=
  let '(a1, a2, a3) := a in let '(b1, b2, b3) := b in (add o a1 b1, add o a2 b2, add o a3 b3).
Definition res_add (a b : res T) : res T :=
  match a, b with
  | Vals x, Vals y => Vals (map2 (add o) x y)
  | Flat x, Flat y => Flat (map2 (add o) x y)
  | Rows x, Rows y => Rows (map2 add3 x y)
  | _, _ => Err
  end.
Definition atom_interp (a : atom) (pts : list (T * D)) (deriv : nat) (sph ro : bool) : res T :=
  interpolate (a_grid a) (map2 (map2 (mul o)) (a_f a) (a_aim a)) pts deriv sph ro.
(* output = interpolate_funcs[0](...);  for interpolate in interpolate_funcs[1:]: output += interpolate(...) *)
Definition mol_combine (outs : list (res T)) : res T :=
  match outs with
  | [] => Err
  | x :: rest => fold_left res_add rest x
  end.
Definition mol_interpolate (atoms : list atom) (locs : list (list (T * D))) (deriv : nat) (sph ro : bool) : res T :=
  mol_combine (map2 (fun a pts => atom_interp a pts deriv sph ro) atoms locs).

End Model.
