(* C09 — the hypotheses of the theorems are satisfiable on non-trivial instances.
   Octahedral shell: directions 0..5 = +x, -x, +y, -y, +z, -z with weights 2/9 (x, y pairs) and 1/18 (z pair);
   "harmonics" Y_0 = 1, Y_1 = 3 z, Y_2 = 3/2 x, Y_3 = 3/2 y are orthonormal for these weights (l <= 1, degree 3);
   a two-point shell (+z, -z, weights 1/2) integrates Y_0^2 only (degree 1).  Spline through two knots: the chord. *)
From Coq Require Import List Arith Bool Reals Lra Lia.
From Coquelicot Require Import Coquelicot.
From P Require Import C09_model C09_proofs_alg C09_proofs_interp C09_proofs_deriv C09_proofs_main.
Import ListNotations.
Open Scope R_scope.

Definition ex_x (d : nat) : R := match d with 0%nat => 1 | 1%nat => -1 | _ => 0 end.
Definition ex_y (d : nat) : R := match d with 2%nat => 1 | 3%nat => -1 | _ => 0 end.
Definition ex_z (d : nat) : R := match d with 4%nat => 1 | 5%nat => -1 | _ => 0 end.
Definition exY (k d : nat) : R :=
  match k with 0%nat => 1 | 1%nat => 3 * ex_z d | 2%nat => 3 / 2 * ex_x d | 3%nat => 3 / 2 * ex_y d | _ => 0 end.
Definition ex_eps : R := 1 / 100000000.
Definition ex_aw : list R := [2 / 9; 2 / 9; 2 / 9; 2 / 9; 1 / 18; 1 / 18].
Definition ex_octa (r w : R) : shell R nat := Shell r w 3 ex_aw [0; 1; 2; 3; 4; 5]%nat [].
Definition ex_pair (r w : R) : shell R nat := Shell r w 1 [1 / 2; 1 / 2] [4; 5]%nat [].
Definition ex_mixed : list (shell R nat) := [ex_octa 1 (1 / 2); ex_pair 2 1].          (* degrees 3 and 1 *)
Definition ex_uniform : list (shell R nat) := [ex_octa 1 (1 / 2); ex_octa 2 1].        (* degree 3 on both shells *)
(* CubicSpline stand-in for the knots [1; 2]: the chord and its derivatives *)
Definition ex_spl (x y : list R) (t : R) (nu : nat) : R :=
  match y with
  | [y0; y1] => match nu with 0%nat => y0 + (y1 - y0) * (t - 1) | 1%nat => y1 - y0 | _ => 0 end
  | _ => 0
  end.

Lemma ex_is0_false r : 0 < r -> is0 ROps r = false.
Proof. intros H. unfold is0. cbn [ltb zero ROps]. assert (E : Rltb 0 r = true) by (apply Rltb_true; exact H). rewrite E. apply andb_false_r. Qed.

Lemma ex_ortho_octa r w : 0 < r -> ortho exY (ex_octa r w).
Proof.
  intros Hr k k' Hk Hk'. unfold basis_dirs. rewrite ex_is0_false by (cbn; exact Hr). cbn [s_deg ex_octa nsph Nat.div] in Hk, Hk'.
  change (nsph 3) with 4%nat in *.
  destruct k as [|[|[|[|k]]]]; try lia; destruct k' as [|[|[|[|k']]]]; try lia;
    unfold gram; cbn [s_pdirs s_aw ex_octa map exY ex_x ex_y ex_z Nat.eqb]; unfold ex_aw; rewrite ?rdot_cons, ?rdot_nil_l; lra.
Qed.
Lemma ex_ortho_pair r w : 0 < r -> ortho exY (ex_pair r w).
Proof.
  intros Hr k k' Hk Hk'. unfold basis_dirs. rewrite ex_is0_false by (cbn; exact Hr).
  change (nsph (s_deg (ex_pair r w))) with 1%nat in *. replace k with 0%nat by lia. replace k' with 0%nat by lia.
  unfold gram; cbn [s_pdirs s_aw ex_pair map exY Nat.eqb]; rewrite ?rdot_cons, ?rdot_nil_l; lra.
Qed.

(* hypotheses of angular-free theorems (components_recovered, interpolant_*, reweighted_sum, average): mixed degrees, K = 1 *)
Example hypotheses_satisfiable_mixed :
  0 < ex_eps /\ wf_grid exY ex_mixed /\ band_ok ex_mixed 1 /\ ex_mixed <> [] /\
  length [(fun k : nat => INR k + 2); (fun _ : nat => 5)] = length ex_mixed.
Proof.
  split; [unfold ex_eps; lra|]. split; [|split; [|split; [discriminate|reflexivity]]].
  - intros s [<-|[<-|[]]]; (split; [unfold wf_shell; cbn; lra|]); [apply ex_ortho_octa|apply ex_ortho_pair]; lra.
  - intros s [<-|[<-|[]]]; cbv; lia.
Qed.
(* uniform degrees, all of l <= 1 (K = 4) *)
Example hypotheses_satisfiable_uniform :
  wf_grid exY ex_uniform /\ band_ok ex_uniform 4 /\ nbasis ex_uniform = 4%nat.
Proof.
  split; [|split; [|reflexivity]].
  - intros s [<-|[<-|[]]]; (split; [unfold wf_shell; cbn; lra|]); apply ex_ortho_octa; lra.
  - intros s [<-|[<-|[]]]; cbv; lia.
Qed.
(* a non-vacuous instance of the conclusion: the arrays handed to the four splines for g(r_1) = (1,2,3,4), g(r_2) = (5,6,7,8) *)
Example components_recovered_instance :
  rad_comps ROps ex_eps exY ex_uniform
    (band_grid exY ex_uniform 4 [(fun k => INR k + 1); (fun k => INR k + 5)])
  = [[1; 5]; [2; 6]; [3; 7]; [4; 8]].
Proof.
  destruct hypotheses_satisfiable_uniform as (Hwf & Hb & Hn).
  rewrite (components_recovered_lemma ex_eps) by (try assumption; try reflexivity; unfold ex_eps; lra).
  rewrite Hn. cbn. repeat f_equal; ring.
Qed.

(* spline hypotheses on the knots of these grids *)
Example spline_hypotheses_satisfiable :
  radii ex_mixed = [1; 2] /\ spl_knots ex_spl [1; 2] /\ spl_linear ex_spl [1; 2] /\ spl_deriv ex_spl [1; 2].
Proof.
  split; [reflexivity|]. split; [|split].
  - intros y i Hy Hi. destruct y as [|y0 [|y1 [|? ?]]]; try discriminate. destruct i as [|[|i]]; cbn in *; try lia; ring.
  - intros a y1 y2 t nu H1 H2. destruct y1 as [|a0 [|a1 [|? ?]]]; try discriminate. destruct y2 as [|b0 [|b1 [|? ?]]]; try discriminate.
    cbn. destruct nu as [|[|nu]]; ring.
  - intros y t nu Hy _. destruct y as [|y0 [|y1 [|? ?]]]; try discriminate. unfold ex_spl.
    destruct nu as [|[|nu]]; (auto_derive; [exact I|ring]).
Qed.

(* the normalisation hypothesis of angular_integral_exact: Y_0 = 1/sqrt(4 pi) with two points of weight 2 pi *)
Definition exY0 (k d : nat) : R := match k with 0%nat => / sqrt (4 * PI) | _ => 0 end.
Definition ex_sphere : list (shell R nat) := [Shell 1 1 1 [2 * PI; 2 * PI] [0; 1]%nat []; Shell 2 3 1 [2 * PI; 2 * PI] [0; 1]%nat []].
Example angular_integral_hypotheses_satisfiable :
  (forall d, exY0 0 d = / sqrt (4 * PI)) /\ wf_grid exY0 ex_sphere /\ band_ok ex_sphere 1.
Proof.
  split; [reflexivity|]. split.
  - assert (Hs : / sqrt (4 * PI) * / sqrt (4 * PI) = / (4 * PI)).
    { rewrite <- Rinv_mult. rewrite sqrt_sqrt; [reflexivity|]. pose proof PI_RGT_0. lra. }
    assert (Hp : 4 * PI <> 0) by (pose proof PI_RGT_0; lra).
    intros s [<-|[<-|[]]]; (split; [unfold wf_shell; cbn; lra|]); intros k k' Hk Hk'; unfold basis_dirs;
      rewrite ex_is0_false by (cbn; lra); change (nsph _) with 1%nat in Hk, Hk';
      replace k with 0%nat by lia; replace k' with 0%nat by lia;
      unfold gram; cbn [s_pdirs s_aw map exY0 Nat.eqb]; rewrite ?rdot_cons, ?rdot_nil_l; rewrite Hs; field; pose proof PI_RGT_0; lra.
  - intros s [<-|[<-|[]]]; cbv; lia.
Qed.

(* the hypotheses of derivatives_consistent_spherical: a family with its partial derivatives *)
Example harmonic_derivative_hypotheses_satisfiable :
  let Yf := fun (k : nat) (t p : R) => INR k * (sin p * cos t) + cos p in
  let dYtf := fun (k : nat) (t p : R) => INR k * (sin p * - sin t) in
  let dYpf := fun (k : nat) (t p : R) => INR k * (cos p * cos t) - sin p in
  forall k th ph, is_derive (fun t => Yf k t ph) th (dYtf k th ph) /\ is_derive (fun t => Yf k th t) ph (dYpf k th ph).
Proof. intros Yf dYtf dYpf k th ph. unfold Yf, dYtf, dYpf. split; (auto_derive; [exact I|ring]). Qed.
