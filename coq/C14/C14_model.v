(* C14 executable models (no proofs here).
   - the documented order lists (what the docstrings prescribe),
   - the order assembly of Grid.moments over the translated generator gen_orders (C14_gen.v, regenerated each run),
   - Grid.moments and dipole_moment_of_molecule, generic over a record of number operations; |v| and the
     solid-harmonic routine are parameters (oracles). *)
From Coq Require Import String ZArith List Bool.
From P Require Import C14_model_base C14_gen.
Import ListNotations.
Open Scope Z_scope.

(* ------------------------------------------------------------------ documented order lists *)
(* Cartesian exponent tuples of total degree l, lexicographically descending *)
Definition cart1 (l : Z) : list (list Z) := [[l]].
Definition cart2 (l : Z) : list (list Z) := map (fun mx => [mx; l - mx]) (range_down l (-1)).
Definition cart3 (l : Z) : list (list Z) :=
  flat_map (fun mx => map (fun my => [mx; my; l - mx - my]) (range_down (l - mx) (-1))) (range_down l (-1)).
Definition cart_orders (dim l : Z) : list (list Z) :=
  if dim =? 1 then cart1 l else if dim =? 2 then cart2 l else cart3 l.
(* m = 0, 1, -1, 2, -2, ..., l, -l *)
Definition horton_ms (l : Z) : list Z := map horton_m (range_up 0 (2 * l + 1)).
Definition pure_orders (l : Z) : list (list Z) := map (fun m => [l; m]) (horton_ms l).
(* (n, l, m) for l = 0..n-1, m in Horton order *)
Definition pure_radial_orders (n : Z) : list (list Z) :=
  flat_map (fun l => map (fun m => [n; l; m]) (horton_ms l)) (range_up 0 n).

(* ------------------------------------------------------------------ order assembly in Grid.moments *)
(*  orders = range(0, L+1)  (range(1, L+1) for pure-radial)
    all_orders = gen(orders[0]); for l in orders[1:]: all_orders = np.vstack((all_orders, gen(l)))        *)
Definition order_range (ty : string) (L : Z) : list Z :=
  if String.eqb ty "pure-radial" then range_up 1 (L + 1) else range_up 0 (L + 1).

Definition stack_step (ty : string) (dim : Z) (acc : res) (l : Z) : res :=
  bind_arr acc (fun a => bind_arr (gen_orders l ty dim) (fun b => vstack2 a b)).

Definition all_orders (L : Z) (ty : string) (dim : Z) : res :=
  match order_range ty L with
  | [] => Crash                                  (* orders[0] raises IndexError *)
  | l0 :: rest => fold_left (stack_step ty dim) rest (gen_orders l0 ty dim)
  end.

(* ------------------------------------------------------------------ numbers *)
Record NumOps (T : Type) := mkOps {
  n0 : T; n1 : T; nadd : T -> T -> T; nsub : T -> T -> T; nmul : T -> T -> T; ndiv : T -> T -> T }.
Arguments n0 {T}. Arguments n1 {T}. Arguments nadd {T}. Arguments nsub {T}. Arguments nmul {T}. Arguments ndiv {T}.

Fixpoint map2 {A B C : Type} (f : A -> B -> C) (a : list A) (b : list B) : list C :=
  match a, b with x :: a', y :: b' => f x y :: map2 f a' b' | _, _ => [] end.

Section Moments.
Context {T : Type} (o : NumOps T).
Variable norm : list T -> T.              (* |v| : np.linalg.norm of one displaced point *)
Variable solid : Z -> list T -> list T.   (* column of solid_harmonics(l_max, convert_cart_to_sph(.)) for one displaced point *)

Fixpoint npow (x : T) (n : nat) : T := match n with O => n1 o | S k => nmul o x (npow x k) end.
Definition zpow (x : T) (e : Z) : T := npow x (Z.to_nat e).
Definition nsum (l : list T) : T := fold_right (nadd o) (n0 o) l.
Definition nprod (l : list T) : T := fold_right (nmul o) (n1 o) l.
(* einsum("n,n,n->", a, f, w) *)
Fixpoint dot3 (a f w : list T) : T :=
  match a, f, w with
  | x :: a', y :: f', u :: w' => nadd o (nmul o (nmul o x y) u) (dot3 a' f' w')
  | _, _, _ => n0 o
  end.
Definition vsub (p c : list T) : list T := map2 (nsub o) p c.     (* self.points - center, one row *)

(* the basis function of one output row, as a function of the displaced point *)
Definition basis_cart (e : list Z) (v : list T) : T := nprod (map2 zpow v e).
Definition basis_radial (n : Z) (v : list T) : T := zpow (norm v) n.
Definition basis_pure (L : Z) (r : nat) (v : list T) : T := nth r (solid L v) (n0 o).
(* indices = l**2; indices[m > 0] += 2*m - 1; indices[m <= 0] += 2*|m| *)
Definition sidx (l m : Z) : nat := Z.to_nat (l * l + hidx m).
Definition basis_pure_radial (L : Z) (nlm : list Z) (v : list T) : T :=
  match nlm with
  | [n; l; m] => nmul o (zpow (norm v) n) (nth (sidx l m) (solid L v) (n0 o))
  | _ => n0 o
  end.

Definition is_pure (ty : string) : bool := String.eqb ty "pure" || String.eqb ty "pure-radial".

Definition row_funs (L : Z) (ty : string) (dim : nat) (ao : arr) : option (list (list T -> T)) :=
  if String.eqb ty "cartesian" then
    match ao with
    | A2 rows => if all_len dim rows then Some (map basis_cart rows) else None
    | A1 _ => None
    end
  else if String.eqb ty "radial" then Some (map basis_radial (concat (rows_of ao)))     (* np.ravel *)
  else if String.eqb ty "pure" then
    if Nat.eqb dim 3 then Some (map (basis_pure L) (seq 0 (Z.to_nat ((L + 1) * (L + 1))))) else None
  else if String.eqb ty "pure-radial" then
    match ao with
    | A2 rows => if Nat.eqb dim 3 && all_len 3 rows then Some (map (basis_pure_radial L) rows) else None
    | A1 _ => None
    end
  else None.

(* np.array(integrals).T : integrals is (centres x rows) *)
Definition transpose (nrows : nat) (cols : list (list T)) : list (list T) :=
  map (fun r => map (fun col => nth r col (n0 o)) cols) (seq 0 nrows).

(* Grid.moments(L, centers, f, ty, return_orders=True); dim = points.shape[1]; None = an exception *)
Definition moments (dim : nat) (L : Z) (ty : string) (pts : list (list T)) (w : list T)
           (cs : list (list T)) (f : list T) : option (list (list T) * arr) :=
  if negb (forallb (fun c => Nat.eqb (length c) dim) cs) then None else
  if negb (Nat.eqb (length f) (length pts)) then None else
  if String.eqb ty "pure-radial" && (L =? 0) then None else
  match all_orders L ty (Z.of_nat dim) with
  | Crash => None
  | Ret ao =>
      match row_funs L ty dim ao with
      | None => None
      | Some bs =>
          let integrals := map (fun c => let vs := map (fun p => vsub p c) pts in
                                         map (fun b => dot3 (map b vs) f w) bs) cs in
          Some (transpose (length bs) integrals, ao)
      end
  end.

Definition entry (M : list (list T)) (r c : nat) : T := nth c (nth r M []) (n0 o).

(* the quadrature  sum_i g(p_i) f_i w_i *)
Definition quad (g : list T -> T) (pts : list (list T)) (f w : list T) : T := dot3 (map g pts) f w.

(* dipole_moment_of_molecule(grid, rho, coords, charges); masses = [isotopic_masses[q] for q in charges] *)
Definition center_of_mass (coords : list (list T)) (masses : list T) : list T :=
  map (fun k => ndiv o (nsum (map2 (fun Ra m => nmul o (nth k Ra (n0 o)) m) coords masses)) (nsum masses)) (seq 0 3).

Definition dipole (pts : list (list T)) (w rho : list T) (coords : list (list T)) (charges masses : list T)
  : option (list T) :=
  let com := center_of_mass coords masses in
  match moments 3 1 "cartesian" pts w [com] rho with
  | Some (M, ao) =>
      let nuc := map (fun e => nsum (map2 (fun Ra q => nmul o (basis_cart e (vsub Ra com)) q) coords charges))
                     (rows_of ao) in
      (* (result - integrals.T).flatten()[1:] *)
      Some (tl (map2 (nsub o) nuc (map (fun row => nth 0 row (n0 o)) M)))
  | None => None
  end.
End Moments.

(* ------------------------------------------------------------------ executable instance: Z (exact for integer grids) *)
Definition ZOps : NumOps Z := mkOps Z 0 1 Z.add Z.sub Z.mul Z.div.

Fixpoint zlist_eqb (a b : list Z) : bool :=
  match a, b with [], [] => true | x :: a', y :: b' => (x =? y) && zlist_eqb a' b' | _, _ => false end.
Fixpoint zrows_eqb (a b : list (list Z)) : bool :=
  match a, b with [], [] => true | x :: a', y :: b' => zlist_eqb x y && zrows_eqb a' b' | _, _ => false end.
Definition arr_eqb (a b : arr) : bool :=
  match a, b with A1 x, A1 y => zlist_eqb x y | A2 x, A2 y => zrows_eqb x y | _, _ => false end.
Definition res_eqb (a b : res) : bool :=
  match a, b with Crash, Crash => true | Ret x, Ret y => arr_eqb x y | _, _ => false end.
Definition zmom_eqb (a b : option (list (list Z) * arr)) : bool :=
  match a, b with
  | None, None => true
  | Some (m1, o1), Some (m2, o2) => zrows_eqb m1 m2 && arr_eqb o1 o2
  | _, _ => false
  end.
