(* C14 property theorems (statements only; proofs are in C14_proofs.v / C14_proofs_real.v).
   gen_orders is the translation of generate_orders_horton_order regenerated from /repo on every run (C14_gen.v);
   all_orders / moments / dipole are the models of Grid.moments and dipole_moment_of_molecule (C14_model.v).
   The Cartesian order theorems are in C14_props_dim1_*.v (one of two variants, see tools/props/c14.py). *)
From Coq Require Import String ZArith List Bool Sorted Reals.
From P Require Import C14_model_base C14_gen C14_model C14_proofs C14_proofs_real.
Import ListNotations.
Open Scope Z_scope.

(* pure orders: for every degree L the generator returns exactly (L, m) with m = 0, 1, -1, 2, -2, ..., L, -L
   (position k holds m = horton_m k), and the rows of pure moments up to L are these blocks for l = 0..L:
   exactly the (l, m) with 0 <= l <= L, |m| <= l, each once *)
Theorem orders_pure_spec : forall dim L, 0 <= L ->
  gen_orders L "pure" dim = Ret (A2 (map (fun m => [L; m]) (horton_ms L))) /\
  length (horton_ms L) = Z.to_nat (2 * L + 1) /\
  (forall k, 0 <= k < 2 * L + 1 -> nth (Z.to_nat k) (horton_ms L) 0 = horton_m k) /\
  (forall m, In m (horton_ms L) <-> - L <= m <= L) /\
  all_orders L "pure" dim = Ret (A2 (flat_map pure_orders (range_up 0 (L + 1)))) /\
  (forall t, In t (flat_map pure_orders (range_up 0 (L + 1))) <-> exists l m, t = [l; m] /\ 0 <= l <= L /\ - l <= m <= l) /\
  NoDup (flat_map pure_orders (range_up 0 (L + 1))).
Proof. exact orders_pure_lemma. Qed.
Print Assumptions orders_pure_spec.

(* Horton order spelled out: 0, then for j >= 1 position 2j-1 holds +j and position 2j holds -j *)
Theorem horton_order_values : horton_m 0 = 0 /\ forall j, 1 <= j -> horton_m (2 * j - 1) = j /\ horton_m (2 * j) = - j.
Proof. exact horton_m_values. Qed.
Print Assumptions horton_order_values.

(* pure-radial orders: (N, l, m) for l = 0..N-1 and m in Horton order; the rows of pure-radial moments up to N are
   these blocks for n = 1..N: exactly the (n, l, m) with 1 <= n <= N, 0 <= l < n, |m| <= l, each once *)
Theorem orders_pure_radial_spec : forall dim N, 1 <= N ->
  gen_orders N "pure-radial" dim = Ret (A2 (flat_map (fun l => map (fun m => [N; l; m]) (horton_ms l)) (range_up 0 N))) /\
  all_orders N "pure-radial" dim = Ret (A2 (flat_map pure_radial_orders (range_up 1 (N + 1)))) /\
  (forall t, In t (flat_map pure_radial_orders (range_up 1 (N + 1))) <->
             exists n l m, t = [n; l; m] /\ 1 <= n <= N /\ 0 <= l < n /\ - l <= m <= l) /\
  NoDup (flat_map pure_radial_orders (range_up 1 (N + 1))).
Proof. exact orders_pure_radial_lemma. Qed.
Print Assumptions orders_pure_radial_spec.

(* radial orders: [L]; the rows of radial moments up to L are 0, 1, ..., L (1-D array of one element when L = 0) *)
Theorem orders_radial_spec : forall dim L, 0 <= L ->
  gen_orders L "radial" dim = Ret (A1 [L]) /\
  exists a, all_orders L "radial" dim = Ret a /\ rows_of a = map (fun l => [l]) (range_up 0 (L + 1)) /\
            (L = 0 -> a = A1 [0]) /\ (0 < L -> a = A2 (map (fun l => [l]) (range_up 0 (L + 1)))).
Proof. exact orders_radial_lemma. Qed.
Print Assumptions orders_radial_spec.

(* the row index the code computes (l^2 + 2m-1 | 2|m|, offset 1^2+...+(n-1)^2 for pure-radial) is the position of
   (l, m) resp. (n, l, m) in the returned order list, and the only position *)
Theorem row_index_spec :
  (forall L l m, 0 <= l <= L -> - l <= m <= l ->
     nth (Z.to_nat (l * l + hidx m)) (all_pure L) [] = [l; m] /\
     forall r, (r < length (all_pure L))%nat -> nth r (all_pure L) [] = [l; m] -> r = Z.to_nat (l * l + hidx m)) /\
  (forall N n l m, 1 <= n <= N -> 0 <= l < n -> - l <= m <= l ->
     nth (Z.to_nat (sqoff n + l * l + hidx m)) (all_pure_radial N) [] = [n; l; m] /\
     forall r, (r < length (all_pure_radial N))%nat -> nth r (all_pure_radial N) [] = [n; l; m] ->
               r = Z.to_nat (sqoff n + l * l + hidx m)) /\
  (forall L, 0 <= L -> length (all_pure L) = Z.to_nat ((L + 1) * (L + 1))) /\
  sqoff 1 = 0 /\ (forall n, 1 <= n -> sqoff (n + 1) = sqoff n + n * n) /\
  (forall m, horton_m (hidx m) = m) /\ (forall k, 0 <= k -> hidx (horton_m k) = k).
Proof. exact row_index_lemma. Qed.
Print Assumptions row_index_spec.

(* Cartesian moments, any number type, dimension, number of centres, grid: whenever the order assembly returns rows
   of `dim` exponents, entry [r, c] is  sum_i prod_k (p_i - R_c)_k ^ (rows[r])_k * f_i * w_i  and the returned
   order array is `rows` *)
Theorem entry_is_quadrature_cartesian :
  forall (T : Type) (o : NumOps T) (norm : list T -> T) (solid : Z -> list T -> list T)
         dim L rows pts w cs f,
  all_orders L "cartesian" (Z.of_nat dim) = Ret (A2 rows) -> Forall (fun e => length e = dim) rows ->
  Forall (fun c => length c = dim) cs -> length f = length pts ->
  exists M, moments o norm solid dim L "cartesian" pts w cs f = Some (M, A2 rows) /\ length M = length rows /\
    forall r c, (r < length rows)%nat -> (c < length cs)%nat ->
      entry o M r c = quad o (fun p => nprod o (map2 (zpow o) (vsub o p (nth c cs [])) (nth r rows []))) pts f w.
Proof. exact @entry_cartesian. Qed.
Print Assumptions entry_is_quadrature_cartesian.

(* radial moments: row n, centre c is  sum_i |p_i - R_c|^n f_i w_i *)
Theorem entry_is_quadrature_radial :
  forall (T : Type) (o : NumOps T) (norm : list T -> T) (solid : Z -> list T -> list T) dim L pts w cs f,
  0 <= L -> Forall (fun c => length c = dim) cs -> length f = length pts ->
  exists M a, moments o norm solid dim L "radial" pts w cs f = Some (M, a) /\
    rows_of a = map (fun l => [l]) (range_up 0 (L + 1)) /\ length M = Z.to_nat (L + 1) /\
    forall n c, 0 <= n <= L -> (c < length cs)%nat ->
      entry o M (Z.to_nat n) c = quad o (fun p => zpow o (norm (vsub o p (nth c cs []))) n) pts f w.
Proof. exact @entry_radial. Qed.
Print Assumptions entry_is_quadrature_radial.

(* pure moments, relative to the harmonic oracle (solid l_max v returns S l m v at row l^2 + hidx m):
   the row of (l, m) named by the returned order list holds  sum_i S_l^m(p_i - R_c) f_i w_i *)
Theorem entry_is_quadrature_pure :
  forall (T : Type) (o : NumOps T) (norm : list T -> T) (solid : Z -> list T -> list T) (S : Z -> Z -> list T -> T),
  (forall lmax v l m, 0 <= l <= lmax -> - l <= m <= l -> nth (sidx l m) (solid lmax v) (n0 o) = S l m v) ->
  forall L pts w cs f, 0 <= L -> Forall (fun c => length c = 3%nat) cs -> length f = length pts ->
  exists M, moments o norm solid 3 L "pure" pts w cs f = Some (M, A2 (all_pure L)) /\ length M = length (all_pure L) /\
    forall l m c, 0 <= l <= L -> - l <= m <= l -> (c < length cs)%nat ->
      nth (sidx l m) (all_pure L) [] = [l; m] /\
      entry o M (sidx l m) c = quad o (fun p => S l m (vsub o p (nth c cs []))) pts f w.
Proof. exact @entry_pure. Qed.
Print Assumptions entry_is_quadrature_pure.

(* pure-radial moments: the row of (n, l, m) holds  sum_i |p_i - R_c|^n S_l^m(p_i - R_c) f_i w_i *)
Theorem entry_is_quadrature_pure_radial :
  forall (T : Type) (o : NumOps T) (norm : list T -> T) (solid : Z -> list T -> list T) (S : Z -> Z -> list T -> T),
  (forall lmax v l m, 0 <= l <= lmax -> - l <= m <= l -> nth (sidx l m) (solid lmax v) (n0 o) = S l m v) ->
  forall N pts w cs f, 1 <= N -> Forall (fun c => length c = 3%nat) cs -> length f = length pts ->
  exists M, moments o norm solid 3 N "pure-radial" pts w cs f = Some (M, A2 (all_pure_radial N)) /\
    length M = length (all_pure_radial N) /\
    forall n l m c, 1 <= n <= N -> 0 <= l < n -> - l <= m <= l -> (c < length cs)%nat ->
      let r := Z.to_nat (sqoff n + l * l + hidx m) in
      nth r (all_pure_radial N) [] = [n; l; m] /\
      entry o M r c = quad o (fun p => let v := vsub o p (nth c cs []) in nmul o (zpow o (norm v) n) (S l m v)) pts f w.
Proof. exact @entry_pure_radial. Qed.
Print Assumptions entry_is_quadrature_pure_radial.

(* dipole helper over the reals: component k is  sum_a Z_a (R_a - C)_k - sum_i (p_i - C)_k rho_i w_i  with
   C = sum_a m_a R_a / sum_a m_a  (components in the order x, y, z) *)
Theorem dipole_spec :
  forall (norm : list R -> R) (solid : Z -> list R -> list R) pts w rho coords charges masses,
  Forall (fun p => length p = 3%nat) pts -> Forall (fun p => length p = 3%nat) coords -> length rho = length pts ->
  let C := center_of_mass ROps coords masses in
  (forall k, (k < 3)%nat ->
     nth k C 0%R = (nsum ROps (map2 (fun Ra m => nth k Ra 0 * m) coords masses) / nsum ROps masses)%R) /\
  dipole ROps norm solid pts w rho coords charges masses =
    Some (map (fun k => (nsum ROps (map2 (fun Ra q => (nth k Ra 0 - nth k C 0) * q) coords charges)
                         - quad ROps (fun p => nth k p 0 - nth k C 0) pts rho w)%R) [0; 1; 2]%nat).
Proof.
  intros norm solid pts w rho coords charges masses Hp Hc Hr C.
  split; [intros k Hk; now apply center_of_mass_spec | exact (dipole_spec_lemma norm solid pts w rho coords charges masses Hp Hc Hr)].
Qed.
Print Assumptions dipole_spec.
