(* C14 executable instance at exact rationals (Bignums.BigQ) for the correspondence of radial / pure / pure-radial
   moments and the dipole helper.  |v| and the solid harmonics are oracle tables: values computed by the harness with an
   independent closed-form implementation at the exact displaced points.  No proofs in this file. *)
From Coq Require Import String ZArith List Bool.
From Bignums Require Import BigQ.
From P Require Import C14_model_base C14_gen C14_model.
Import ListNotations.

Definition QOps : NumOps bigQ := mkOps bigQ 0%bigQ 1%bigQ BigQ.add BigQ.sub BigQ.mul BigQ.div.

Fixpoint qvec_eqb (a b : list bigQ) : bool :=
  match a, b with [] , [] => true | x :: a', y :: b' => BigQ.eqb x y && qvec_eqb a' b' | _, _ => false end.

(* one table row: displaced point, its norm, its solid-harmonic column (rows l^2 + hidx m) *)
Definition otab := list (list bigQ * bigQ * list bigQ).
Fixpoint olookup (t : otab) (v : list bigQ) : option (bigQ * list bigQ) :=
  match t with
  | [] => None
  | (k, n, col) :: r => if qvec_eqb k v then Some (n, col) else olookup r v
  end.
(* a missing key yields a poison value so that the comparison fails *)
Definition poison : bigQ := BigQ.power 10%bigQ 30.
Definition tnorm (t : otab) (v : list bigQ) : bigQ := match olookup t v with Some (n, _) => n | None => poison end.
Definition tsolid (t : otab) (lmax : Z) (v : list bigQ) : list bigQ :=
  match olookup t v with Some (_, col) => firstn (Z.to_nat ((lmax + 1) * (lmax + 1))) col | None => [] end.

Definition qleb (x y : bigQ) : bool := match BigQ.compare x y with Gt => false | _ => true end.
Definition qabs (x : bigQ) : bigQ := if qleb 0%bigQ x then x else BigQ.opp x.
Definition qclose (tol x y : bigQ) : bool := qleb (qabs (BigQ.sub x y)) tol.
Fixpoint qvec_close (tol : bigQ) (a b : list bigQ) : bool :=
  match a, b with [], [] => true | x :: a', y :: b' => qclose tol x y && qvec_close tol a' b' | _, _ => false end.
(* rows with one tolerance per row *)
Fixpoint qrows_close (tols : list bigQ) (a b : list (list bigQ)) : bool :=
  match tols, a, b with
  | [], [], [] => true
  | t :: ts, x :: a', y :: b' => qvec_close t x y && qrows_close ts a' b'
  | _, _, _ => false
  end.
Definition qmom_close (tols : list bigQ) (a : option (list (list bigQ) * arr)) (b : option (list (list bigQ) * arr)) : bool :=
  match a, b with
  | None, None => true
  | Some (m1, o1), Some (m2, o2) => qrows_close tols m1 m2 && arr_eqb o1 o2
  | _, _ => false
  end.
Definition qopt_close (tol : bigQ) (a b : option (list bigQ)) : bool :=
  match a, b with None, None => true | Some x, Some y => qvec_close tol x y | _, _ => false end.
