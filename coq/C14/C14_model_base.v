(* C14 base vocabulary shared by the generated translation (C14_gen.v) and the hand models.
   No proofs in this file. *)
From Coq Require Import String ZArith List Bool.
Import ListNotations.
Open Scope Z_scope.

(* integer NumPy arrays that occur in the order generators: 1-D and 2-D *)
Inductive arr := A1 (xs : list Z) | A2 (rows : list (list Z)).
(* result of a call: any raised exception is Crash *)
Inductive res := Crash | Ret (a : arr).

(* range(a, b)  and  range(a, b, -1) *)
Definition range_up (a b : Z) : list Z := map (fun i => a + Z.of_nat i) (seq 0 (Z.to_nat (b - a))).
Definition range_down (a b : Z) : list Z := map (fun i => a - Z.of_nat i) (seq 0 (Z.to_nat (a - b))).

Fixpoint all_len (n : nat) (rows : list (list Z)) : bool :=
  match rows with [] => true | r :: t => Nat.eqb (length r) n && all_len n t end.

(* np.array(list_of_int_lists, dtype=int): [] -> shape (0,), equal-length rows -> 2-D, ragged -> ValueError *)
Definition np_array2 (rows : list (list Z)) : res :=
  match rows with
  | [] => Ret (A1 [])
  | r :: t => if all_len (length r) t then Ret (A2 rows) else Crash
  end.

(* np.array([n]) *)
Definition np_array1 (xs : list Z) : res := Ret (A1 xs).

(* np.arange(a, b, dtype=<existing integer dtype>) *)
Definition np_arange (a b : Z) : res := Ret (A1 (range_up a b)).

Definition bind_arr (r : res) (k : arr -> res) : res := match r with Crash => Crash | Ret a => k a end.

(* rows of an array as np.vstack / np.atleast_2d sees them *)
Definition rows_of (a : arr) : list (list Z) := match a with A1 xs => [xs] | A2 rows => rows end.

(* np.vstack((a, b)): column counts must agree *)
Definition vstack2 (a b : arr) : res :=
  match rows_of a, rows_of b with
  | ra :: ta, rb :: tb =>
      if Nat.eqb (length ra) (length rb) && all_len (length ra) ta && all_len (length rb) tb
      then Ret (A2 (rows_of a ++ rows_of b)) else Crash
  | _, _ => Crash    (* a 2-D array with zero rows never occurs here *)
  end.

Definition zsum (l : list Z) : Z := fold_right Z.add 0 l.

(* Horton order of m within a degree: position k = 0,1,2,3,4,... holds m = 0,1,-1,2,-2,... *)
Definition horton_m (k : Z) : Z := if Z.odd k then (k + 1) / 2 else - (k / 2).
(* the index arithmetic of the code: 2m-1 for m>0, 2|m| otherwise *)
Definition hidx (m : Z) : Z := if 0 <? m then 2 * m - 1 else 2 * Z.abs m.
