(* C14: proofs. Conformance of the translated order generator (C14_gen.v, regenerated from /repo each run) with the
   documented order lists for every order; row positions; Grid.moments entries are quadratures. *)
From Coq Require Import String ZArith List Bool Lia Sorted.
From P Require Import C14_model_base C14_gen C14_model.
Import ListNotations. Open Scope Z_scope.
Arguments range_up : simpl never.
Arguments range_down : simpl never.
Arguments np_array2 : simpl never.

(* ---------- generic list lemmas *)
Lemma fold_left_app_flat_map {A B} (f : A -> list B) l acc :
  fold_left (fun acc x => acc ++ f x) l acc = acc ++ flat_map f l.
Proof. revert acc; induction l; intros; cbn. now rewrite app_nil_r. rewrite IHl, <- app_assoc. reflexivity. Qed.

Lemma fold_left_ext {A B} (f g : A -> B -> A) l a :
  (forall a x, f a x = g a x) -> fold_left f l a = fold_left g l a.
Proof. intros H. revert a; induction l; intros; cbn; [reflexivity|]. rewrite H. apply IHl. Qed.

Lemma flat_map_single {A B} (g : A -> B) l : flat_map (fun x => [g x]) l = map g l.
Proof. induction l; cbn; congruence. Qed.

Lemma flat_map_ext_in {A B} (f g : A -> list B) l : (forall x, In x l -> f x = g x) -> flat_map f l = flat_map g l.
Proof. induction l; cbn; intros H; [reflexivity|]. rewrite H by now left. f_equal. apply IHl. intros; apply H; now right. Qed.

(* ---------- ranges *)
Lemma range_up_nil a b : b <= a -> range_up a b = [].
Proof. intros. unfold range_up. replace (Z.to_nat (b - a)) with O by lia. reflexivity. Qed.

Lemma range_up_cons a b : a < b -> range_up a b = a :: range_up (a + 1) b.
Proof.
  intros. unfold range_up. replace (Z.to_nat (b - a)) with (S (Z.to_nat (b - (a + 1)))) by lia.
  cbn [seq map]. f_equal. lia. rewrite <- seq_shift, map_map. apply map_ext. intros; lia.
Qed.

Lemma range_up_snoc a b : a <= b -> range_up a (b + 1) = range_up a b ++ [b].
Proof.
  intros. unfold range_up. replace (Z.to_nat (b + 1 - a)) with (S (Z.to_nat (b - a))) by lia.
  rewrite seq_S, map_app. cbn. do 2 f_equal. lia.
Qed.

Lemma range_down_nil a b : a <= b -> range_down a b = [].
Proof. intros. unfold range_down. replace (Z.to_nat (a - b)) with O by lia. reflexivity. Qed.

Lemma range_down_cons a b : b < a -> range_down a b = a :: range_down (a - 1) b.
Proof.
  intros. unfold range_down. replace (Z.to_nat (a - b)) with (S (Z.to_nat (a - 1 - b))) by lia.
  cbn [seq map]. f_equal. lia. rewrite <- seq_shift, map_map. apply map_ext. intros; lia.
Qed.

Lemma In_range_up x a b : In x (range_up a b) <-> a <= x < b.
Proof.
  unfold range_up. rewrite in_map_iff. split.
  - intros (i & <- & Hi). apply in_seq in Hi. lia.
  - intros H. exists (Z.to_nat (x - a)). split; [lia|]. apply in_seq. lia.
Qed.

Lemma In_range_down x a b : In x (range_down a b) <-> b < x <= a.
Proof.
  unfold range_down. rewrite in_map_iff. split.
  - intros (i & <- & Hi). apply in_seq in Hi. lia.
  - intros H. exists (Z.to_nat (a - x)). split; [lia|]. apply in_seq. lia.
Qed.

Lemma length_range_up a b : length (range_up a b) = Z.to_nat (b - a).
Proof. unfold range_up. now rewrite map_length, seq_length. Qed.

Lemma range_up_sorted a b : StronglySorted Z.lt (range_up a b).
Proof.
  remember (Z.to_nat (b - a)) as n eqn:E. revert a E. induction n; intros.
  - rewrite range_up_nil by lia. constructor.
  - rewrite range_up_cons by lia. constructor. apply IHn; lia.
    apply Forall_forall. intros x Hx. apply In_range_up in Hx. lia.
Qed.

Lemma range_down_sorted a b : StronglySorted Z.gt (range_down a b).
Proof.
  remember (Z.to_nat (a - b)) as n eqn:E. revert a E. induction n; intros.
  - rewrite range_down_nil by lia. constructor.
  - rewrite range_down_cons by lia. constructor. apply IHn; lia.
    apply Forall_forall. intros x Hx. apply In_range_down in Hx. lia.
Qed.

(* induction on a non-negative Z *)
Lemma Z_nonneg_ind (P : Z -> Prop) : P 0 -> (forall n, 0 <= n -> P n -> P (n + 1)) -> forall n, 0 <= n -> P n.
Proof. intros H0 HS n Hn. apply natlike_ind; auto. Qed.

(* ---------- sortedness of block lists *)
Lemma SS_app {A} (R : A -> A -> Prop) l1 l2 :
  StronglySorted R l1 -> StronglySorted R l2 -> (forall a b, In a l1 -> In b l2 -> R a b) ->
  StronglySorted R (l1 ++ l2).
Proof.
  induction l1; cbn; intros H1 H2 H; [assumption|].
  inversion H1; subst. constructor.
  - apply IHl1; auto.
  - apply Forall_forall. intros x Hx. apply in_app_or in Hx as [Hx|Hx].
    + rewrite Forall_forall in H5. auto.
    + apply H; auto.
Qed.

Lemma SS_flat_map {I A} (RI : I -> I -> Prop) (R : A -> A -> Prop) (f : I -> list A) l :
  StronglySorted RI l ->
  (forall i, In i l -> StronglySorted R (f i)) ->
  (forall i j a b, In i l -> In j l -> RI i j -> In a (f i) -> In b (f j) -> R a b) ->
  StronglySorted R (flat_map f l).
Proof.
  induction l; cbn; intros Hl Hf HR; [constructor|].
  inversion Hl; subst. apply SS_app.
  - apply Hf; now left.
  - apply IHl; [assumption | intros; apply Hf; now right |].
    intros i j x y Hi Hj. apply HR; now right.
  - intros x y Hx Hy. apply in_flat_map in Hy as (j & Hj & Hy).
    rewrite Forall_forall in H2. apply (HR a j); auto using in_eq, in_cons.
Qed.

Lemma SS_map {I A} (RI : I -> I -> Prop) (R : A -> A -> Prop) (g : I -> A) l :
  StronglySorted RI l -> (forall i j, In i l -> In j l -> RI i j -> R (g i) (g j)) -> StronglySorted R (map g l).
Proof.
  induction l; cbn; intros Hl HR; [constructor|]. inversion Hl; subst. constructor.
  - apply IHl; auto using in_cons.
  - apply Forall_forall. intros x Hx. apply in_map_iff in Hx as (j & <- & Hj).
    rewrite Forall_forall in H2. apply HR; auto using in_eq, in_cons.
Qed.

Lemma SS_NoDup {A} (R : A -> A -> Prop) l : (forall x, ~ R x x) -> StronglySorted R l -> NoDup l.
Proof.
  intros Hirr. induction 1; constructor; auto.
  intros Hin. rewrite Forall_forall in H0. exact (Hirr _ (H0 _ Hin)).
Qed.
(* ---------- arrays *)
Lemma all_len_Forall n rows : all_len n rows = true <-> Forall (fun r => length r = n) rows.
Proof.
  induction rows; cbn; [split; auto|]. rewrite andb_true_iff, Nat.eqb_eq, IHrows. split.
  - intros []; constructor; auto.
  - inversion 1; auto.
Qed.

Lemma np_array2_ok n rows : rows <> [] -> Forall (fun r => length r = n) rows -> np_array2 rows = Ret (A2 rows).
Proof.
  destruct rows as [|r t]; [congruence|]. intros _ H. inversion H; subst. unfold np_array2.
  replace (all_len (length r) t) with true; [reflexivity|]. symmetry. now apply all_len_Forall.
Qed.

Lemma bind_ret r : bind_arr r (fun a => Ret a) = r.
Proof. now destruct r. Qed.

Lemma vstack2_ok n a b : rows_of a <> [] -> rows_of b <> [] ->
  Forall (fun r => length r = n) (rows_of a) -> Forall (fun r => length r = n) (rows_of b) ->
  vstack2 a b = Ret (A2 (rows_of a ++ rows_of b)).
Proof.
  unfold vstack2. destruct (rows_of a) as [|ra ta]; [congruence|]. destruct (rows_of b) as [|rb tb]; [congruence|].
  intros _ _ Ha Hb. inversion Ha; subst. inversion Hb; subst.
  replace (length ra =? length rb)%nat with true by (symmetry; apply Nat.eqb_eq; congruence).
  replace (all_len (length ra) ta) with true by (symmetry; now apply all_len_Forall).
  replace (all_len (length rb) tb) with true by (symmetry; apply all_len_Forall; rewrite H1; assumption).
  reflexivity.
Qed.

(* ---------- order assembly of Grid.moments *)
Lemma all_orders_base ty dim s : (forall L, order_range ty L = range_up s (L + 1)) ->
  all_orders s ty dim = gen_orders s ty dim.
Proof.
  intros H. unfold all_orders. rewrite H, range_up_cons by lia. rewrite range_up_nil by lia. reflexivity.
Qed.

Lemma all_orders_step ty dim s L : (forall L, order_range ty L = range_up s (L + 1)) -> s <= L ->
  all_orders (L + 1) ty dim = stack_step ty dim (all_orders L ty dim) (L + 1).
Proof.
  intros H HL. unfold all_orders. rewrite !H. rewrite (range_up_cons s (L + 1 + 1)), (range_up_cons s (L + 1)) by lia.
  rewrite range_up_snoc by lia. now rewrite fold_left_app.
Qed.

Lemma all_orders_negative ty dim L : L < 0 -> all_orders L ty dim = Crash.
Proof.
  intros. unfold all_orders, order_range. destruct (String.eqb ty "pure-radial"); now rewrite range_up_nil by lia.
Qed.

Lemma all_orders_blocks ty dim s n (blk : Z -> list (list Z)) :
  (forall L, order_range ty L = range_up s (L + 1)) ->
  (forall l, s <= l -> exists a, gen_orders l ty dim = Ret a /\ rows_of a = blk l /\ blk l <> [] /\
                               Forall (fun r => length r = n) (blk l)) ->
  forall L, s <= L -> exists a, all_orders L ty dim = Ret a /\ rows_of a = flat_map blk (range_up s (L + 1)) /\
                               (s < L -> a = A2 (flat_map blk (range_up s (L + 1)))) /\
                               (L = s -> gen_orders s ty dim = Ret a) /\
                               rows_of a <> [] /\ Forall (fun r => length r = n) (rows_of a).
Proof.
  intros Hr Hg L HL. replace L with (s + (L - s)) by lia. generalize (L - s) (ltac:(lia) : 0 <= L - s).
  apply Z_nonneg_ind.
  - rewrite Z.add_0_r. destruct (Hg s ltac:(lia)) as (a & Ha & Hra & Hne & Hall). exists a.
    rewrite (all_orders_base _ _ s Hr), range_up_cons, range_up_nil by lia. cbn [flat_map]. rewrite app_nil_r.
    rewrite Hra. repeat split; auto. lia.
  - intros k Hk (a & Ha & Hra & _ & _ & Hne & Hall).
    replace (s + (k + 1)) with (s + k + 1) by lia.
    rewrite (all_orders_step _ _ s) by (auto; lia). rewrite Ha. unfold stack_step. cbn [bind_arr].
    destruct (Hg (s + k + 1) ltac:(lia)) as (b & Hb & Hrb & Hnb & Hallb). rewrite Hb. cbn [bind_arr].
    rewrite (vstack2_ok n) by (rewrite ?Hrb; auto). eexists. split; [reflexivity|].
    assert (E : rows_of a ++ rows_of b = flat_map blk (range_up s (s + k + 1 + 1))).
    { rewrite (range_up_snoc s (s + k + 1)) by lia. rewrite flat_map_app. cbn [flat_map]. rewrite app_nil_r. congruence. }
    cbn [rows_of]. rewrite E. repeat split; auto; try lia.
    + rewrite <- E. destruct (rows_of a); [congruence|discriminate].
    + rewrite <- E. apply Forall_app. split; auto. now rewrite Hrb.
Qed.
(* ---------- specification vocabulary *)
(* strict lexicographic "greater than" on exponent tuples *)
Fixpoint lex_gt (a b : list Z) : Prop :=
  match a, b with x :: a', y :: b' => x > y \/ (x = y /\ lex_gt a' b') | _, _ => False end.
(* the row order of Cartesian moments: total degree ascending, then lexicographically descending *)
Definition deg_lex (a b : list Z) : Prop := zsum a < zsum b \/ (zsum a = zsum b /\ lex_gt a b).
Definition is_exponents (dim : Z) (t : list Z) : Prop := Z.of_nat (length t) = dim /\ Forall (fun e => 0 <= e) t.

Lemma lex_gt_irrefl a : ~ lex_gt a a.
Proof. induction a; cbn; [tauto|]. intros [H|[_ H]]; [lia|auto]. Qed.
Lemma deg_lex_irrefl a : ~ deg_lex a a.
Proof. intros [H|[_ H]]; [lia|]. exact (lex_gt_irrefl _ H). Qed.

(* ---------- Cartesian generator = documented list, every order *)
Lemma gen_cart3 L : gen_orders L "cartesian" 3 = np_array2 (cart3 L).
Proof.
  unfold gen_orders. cbn. rewrite bind_ret. f_equal. unfold cart3.
  erewrite fold_left_ext; [|intros; apply fold_left_app_flat_map].
  rewrite fold_left_app_flat_map. cbn [app]. apply flat_map_ext_in. intros. apply flat_map_single.
Qed.

Lemma gen_cart2 L : gen_orders L "cartesian" 2 = np_array2 (cart2 L).
Proof.
  unfold gen_orders. cbn. rewrite bind_ret. f_equal. unfold cart2.
  rewrite (fold_left_app_flat_map (fun m_x => [[m_x; L - m_x]])). cbn [app]. apply flat_map_single.
Qed.

Lemma cart3_In L t : In t (cart3 L) <-> exists a b c, t = [a; b; c] /\ 0 <= a /\ 0 <= b /\ 0 <= c /\ a + b + c = L.
Proof.
  unfold cart3. rewrite in_flat_map. split.
  - intros (a & Ha & Ht). apply in_map_iff in Ht as (b & <- & Hb). apply In_range_down in Ha, Hb.
    exists a, b, (L - a - b). repeat split; lia.
  - intros (a & b & c & -> & ? & ? & ? & ?). exists a. split; [apply In_range_down; lia|].
    apply in_map_iff. exists b. split; [f_equal; f_equal; f_equal; lia | apply In_range_down; lia].
Qed.

Lemma cart2_In L t : In t (cart2 L) <-> exists a b, t = [a; b] /\ 0 <= a /\ 0 <= b /\ a + b = L.
Proof.
  unfold cart2. rewrite in_map_iff. split.
  - intros (a & <- & Ha). apply In_range_down in Ha. exists a, (L - a). repeat split; lia.
  - intros (a & b & -> & ? & ? & ?). exists a. split; [f_equal; f_equal; lia | apply In_range_down; lia].
Qed.

Lemma cart3_sorted L : StronglySorted lex_gt (cart3 L).
Proof.
  unfold cart3. apply (SS_flat_map Z.gt); [apply range_down_sorted| |].
  - intros a _. apply (SS_map Z.gt); [apply range_down_sorted|]. intros b b' _ _ Hb. cbn. right. split; [reflexivity|]. left. exact Hb.
  - intros a a' x y _ _ Ha Hx Hy. apply in_map_iff in Hx as (b & <- & _). apply in_map_iff in Hy as (b' & <- & _).
    cbn. left. exact Ha.
Qed.

Lemma cart2_sorted L : StronglySorted lex_gt (cart2 L).
Proof.
  unfold cart2. apply (SS_map Z.gt); [apply range_down_sorted|]. intros a a' _ _ Ha. cbn. left. exact Ha.
Qed.

Ltac inv_forall := repeat match goal with H : Forall _ (_ :: _) |- _ => apply Forall_cons_iff in H; destruct H end.

Lemma cart_orders_In dim L t : dim = 1 \/ dim = 2 \/ dim = 3 -> 0 <= L ->
  (In t (cart_orders dim L) <-> is_exponents dim t /\ zsum t = L).
Proof.
  unfold is_exponents. intros [->|[->| ->]] HL; cbn [cart_orders Z.eqb Pos.eqb].
  - unfold cart1. cbn [In]. split.
    + intros [<-|[]]. cbn. repeat split; auto. lia.
    + intros [[Hlen Hpos] Hs]. destruct t as [|a [|? ?]]; cbn in Hlen; try lia. cbn in Hs. left. f_equal. lia.
  - rewrite cart2_In. split.
    + intros (a & b & -> & ? & ? & ?). cbn. repeat split; auto. lia.
    + intros [[Hlen Hpos] Hs]. destruct t as [|a [|b [|? ?]]]; cbn in Hlen; try lia.
      inv_forall. cbn in Hs. exists a, b. repeat split; auto; lia.
  - rewrite cart3_In. split.
    + intros (a & b & c & -> & ? & ? & ? & ?). cbn. repeat split; auto. lia.
    + intros [[Hlen Hpos] Hs]. destruct t as [|a [|b [|c [|? ?]]]]; cbn in Hlen; try lia.
      inv_forall. cbn in Hs. exists a, b, c. repeat split; auto; lia.
Qed.

Lemma cart_orders_sorted dim L : StronglySorted lex_gt (cart_orders dim L).
Proof.
  unfold cart_orders. destruct (dim =? 1); [repeat constructor|]. destruct (dim =? 2); [apply cart2_sorted | apply cart3_sorted].
Qed.

Lemma cart_orders_wf dim L : dim = 1 \/ dim = 2 \/ dim = 3 -> 0 <= L ->
  cart_orders dim L <> [] /\ Forall (fun r => length r = Z.to_nat dim) (cart_orders dim L).
Proof.
  intros Hd HL. split.
  - assert (exists t, In t (cart_orders dim L)) as [t Hin].
    { destruct Hd as [->|[->| ->]]; [exists [L] | exists [L; 0] | exists [L; 0; 0]]; apply cart_orders_In; auto;
      unfold is_exponents; cbn; (repeat split; try lia); repeat constructor; lia. }
    intros E. rewrite E in Hin. destruct Hin.
  - apply Forall_forall. intros t Ht. apply cart_orders_In in Ht; auto. destruct Ht as [[Hl _] _]. lia.
Qed.

(* dims 2 and 3 (as translated today); dimension 1 is in the dim1 variant file *)
Lemma gen_cart23 dim L : dim = 2 \/ dim = 3 -> 0 <= L -> gen_orders L "cartesian" dim = Ret (A2 (cart_orders dim L)).
Proof.
  intros Hd HL. destruct (cart_orders_wf dim L) as [Hne Hall]; [tauto|assumption|].
  destruct Hd as [-> | ->]; [rewrite gen_cart2 | rewrite gen_cart3]; exact (np_array2_ok _ _ Hne Hall).
Qed.

(* all rows of Grid.moments(L, ..., "cartesian") in `dim` dimensions, given the per-order conformance *)
Definition all_cart (dim L : Z) : list (list Z) := flat_map (cart_orders dim) (range_up 0 (L + 1)).

Lemma all_orders_cart dim : dim = 1 \/ dim = 2 \/ dim = 3 ->
  (forall l, 0 <= l -> gen_orders l "cartesian" dim = Ret (A2 (cart_orders dim l))) ->
  forall L, 0 <= L -> all_orders L "cartesian" dim = Ret (A2 (all_cart dim L)).
Proof.
  intros Hd Hg L HL.
  destruct (all_orders_blocks "cartesian" dim 0 (Z.to_nat dim) (cart_orders dim)) with (L := L)
    as (a & Ha & Hra & Hbig & Hsmall & _); auto.
  - intros l Hl. exists (A2 (cart_orders dim l)). destruct (cart_orders_wf dim l Hd Hl). auto.
  - rewrite Ha. f_equal. destruct (Z.eq_dec L 0) as [->|].
    + specialize (Hsmall eq_refl). rewrite Hg in Hsmall by lia. inversion Hsmall; subst.
      unfold all_cart. rewrite range_up_cons, range_up_nil by lia. cbn. now rewrite app_nil_r.
    + apply Hbig. lia.
Qed.

Lemma all_cart_In dim L t : dim = 1 \/ dim = 2 \/ dim = 3 -> 0 <= L ->
  (In t (all_cart dim L) <-> is_exponents dim t /\ zsum t <= L).
Proof.
  intros Hd HL. unfold all_cart. rewrite in_flat_map. split.
  - intros (l & Hl & Ht). apply In_range_up in Hl. apply cart_orders_In in Ht; auto; [|lia]. destruct Ht. split; auto. lia.
  - intros [He Hs]. assert (0 <= zsum t).
    { destruct He as [_ Hp]. clear -Hp. unfold zsum. induction Hp; cbn [fold_right]; lia. }
    exists (zsum t). split; [apply In_range_up; lia|]. apply cart_orders_In; auto.
Qed.

Lemma all_cart_sorted dim L : dim = 1 \/ dim = 2 \/ dim = 3 -> StronglySorted deg_lex (all_cart dim L).
Proof.
  intros Hd. unfold all_cart. apply (SS_flat_map Z.lt); [apply range_up_sorted| |].
  - intros l Hl. apply In_range_up in Hl.
    assert (Hs := cart_orders_sorted dim l).
    assert (Hin : forall t, In t (cart_orders dim l) -> zsum t = l) by (intros t Ht; apply cart_orders_In in Ht; auto; [tauto|lia]).
    revert Hs Hin. generalize (cart_orders dim l). induction 1; intros Hin; constructor.
    + apply IHHs. intros; apply Hin; now right.
    + rewrite Forall_forall in *. intros x Hx. right. split; [|auto]. rewrite !Hin; auto; [now right | now left].
  - intros l l' x y Hl Hl' Hlt Hx Hy. apply In_range_up in Hl, Hl'.
    apply cart_orders_In in Hx, Hy; auto; try lia. left. lia.
Qed.
(* ---------- Horton order of m *)
Lemma horton_m_odd j : horton_m (2 * j - 1) = j.
Proof.
  unfold horton_m. replace (2 * j - 1) with (1 + 2 * (j - 1)) by lia. rewrite Z.odd_add_mul_2. cbn [Z.odd].
  replace (1 + 2 * (j - 1) + 1) with (j * 2) by lia. apply Z.div_mul. lia.
Qed.
Lemma horton_m_even j : horton_m (2 * j) = - j.
Proof.
  unfold horton_m. replace (2 * j) with (0 + 2 * j) at 1 by lia. rewrite Z.odd_add_mul_2. cbn [Z.odd].
  replace (2 * j) with (j * 2) by lia. now rewrite Z.div_mul by lia.
Qed.
Lemma horton_m_hidx m : horton_m (hidx m) = m.
Proof.
  unfold hidx. destruct (Z.ltb_spec 0 m).
  - apply horton_m_odd.
  - rewrite horton_m_even. lia.
Qed.
Lemma hidx_horton_m k : 0 <= k -> hidx (horton_m k) = k.
Proof.
  intros Hk. destruct (Z.Even_or_Odd k) as [[j ->]|[j ->]].
  - rewrite horton_m_even. unfold hidx. destruct (Z.ltb_spec 0 (- j)); lia.
  - replace (2 * j + 1) with (2 * (j + 1) - 1) by lia. rewrite horton_m_odd. unfold hidx. destruct (Z.ltb_spec 0 (j + 1)); lia.
Qed.
Lemma hidx_range l m : - l <= m <= l -> 0 <= hidx m < 2 * l + 1.
Proof. unfold hidx. destruct (Z.ltb_spec 0 m); lia. Qed.
Lemma horton_m_range l k : 0 <= k < 2 * l + 1 -> - l <= horton_m k <= l.
Proof.
  intros Hk. destruct (Z.Even_or_Odd k) as [[j ->]|[j ->]].
  - rewrite horton_m_even. lia.
  - replace (2 * j + 1) with (2 * (j + 1) - 1) by lia. rewrite horton_m_odd. lia.
Qed.

Lemma horton_ms_In l m : 0 <= l -> (In m (horton_ms l) <-> - l <= m <= l).
Proof.
  intros Hl. unfold horton_ms. rewrite in_map_iff. split.
  - intros (k & <- & Hk). apply In_range_up in Hk. apply horton_m_range. lia.
  - intros Hm. exists (hidx m). split; [apply horton_m_hidx|]. apply In_range_up. pose proof (hidx_range l m Hm). lia.
Qed.

(* the loop  [g 0]; for x in 1..l: [g x; g (-x)]  enumerates g over m = 0,1,-1,...,l,-l *)
Lemma horton_block {A} (g : Z -> A) l : 0 <= l ->
  [g 0] ++ flat_map (fun x => [g x; g (- x)]) (range_up 1 (l + 1)) = map g (horton_ms l).
Proof.
  unfold horton_ms. revert l. apply Z_nonneg_ind.
  - rewrite range_up_nil by lia. rewrite range_up_cons, range_up_nil by lia. reflexivity.
  - intros l Hl IH. rewrite (range_up_snoc 1 (l + 1)) by lia. rewrite flat_map_app, app_assoc, IH.
    replace (2 * (l + 1) + 1) with (2 * l + 1 + 1 + 1) by lia.
    rewrite (range_up_snoc 0 (2 * l + 1 + 1)), (range_up_snoc 0 (2 * l + 1)) by lia.
    rewrite !map_app. cbn [map flat_map app]. rewrite <- app_assoc. cbn [app]. do 2 f_equal.
    + f_equal. replace (2 * l + 1) with (2 * (l + 1) - 1) by lia. now rewrite horton_m_odd.
    + do 2 f_equal. replace (2 * l + 1 + 1) with (2 * (l + 1)) by lia. now rewrite horton_m_even.
Qed.

Lemma horton_block_if {A} (g : Z -> A) l : 0 <= l ->
  flat_map (fun m => if negb (m =? 0) then [g m; g (- m)] else [g m]) (range_up 0 (l + 1)) = map g (horton_ms l).
Proof.
  intros Hl. rewrite <- horton_block by assumption. rewrite range_up_cons by lia. cbn [flat_map Z.eqb negb]. f_equal.
  apply flat_map_ext_in. intros x Hx. apply In_range_up in Hx. destruct (Z.eqb_spec x 0); [lia|reflexivity].
Qed.

Lemma fold_left_ext_in {A B} (f g : A -> B -> A) l a :
  (forall a x, In x l -> f a x = g a x) -> fold_left f l a = fold_left g l a.
Proof.
  revert a; induction l; intros a0 H; cbn; [reflexivity|]. rewrite H by now left. apply IHl. intros; apply H; now right.
Qed.

(* ---------- pure, pure-radial, radial generators = documented lists, every order *)
Lemma pure_orders_wf l : 0 <= l -> pure_orders l <> [] /\ Forall (fun r => length r = 2%nat) (pure_orders l).
Proof.
  intros Hl. unfold pure_orders, horton_ms. rewrite range_up_cons by lia. split; [discriminate|].
  apply Forall_forall. intros r Hr. rewrite map_map in Hr. apply in_map_iff in Hr as (k & <- & _). reflexivity.
Qed.

Lemma gen_pure dim L : 0 <= L -> gen_orders L "pure" dim = Ret (A2 (pure_orders L)).
Proof.
  intros HL. unfold gen_orders. cbn. rewrite bind_ret.
  rewrite (fold_left_app_flat_map (fun x => [[L; x]; [L; - x]])).
  rewrite (horton_block (fun m => [L; m])) by assumption. fold (pure_orders L).
  destruct (pure_orders_wf L HL). eapply np_array2_ok; eauto.
Qed.

Lemma pure_radial_orders_wf n : 1 <= n ->
  pure_radial_orders n <> [] /\ Forall (fun r => length r = 3%nat) (pure_radial_orders n).
Proof.
  intros Hn. unfold pure_radial_orders. split.
  - rewrite range_up_cons by lia. cbn [flat_map]. unfold horton_ms at 1. rewrite range_up_cons by lia. discriminate.
  - apply Forall_forall. intros r Hr. apply in_flat_map in Hr as (l & _ & Hr). apply in_map_iff in Hr as (m & <- & _). reflexivity.
Qed.

Lemma gen_pure_radial dim n : 1 <= n -> gen_orders n "pure-radial" dim = Ret (A2 (pure_radial_orders n)).
Proof.
  intros Hn. unfold gen_orders. cbn. rewrite bind_ret.
  erewrite fold_left_ext_in.
  2:{ intros acc l Hl. apply In_range_up in Hl.
      erewrite (fold_left_ext _ (fun o m => o ++ (if negb (m =? 0) then [[n; l; m]; [n; l; - m]] else [[n; l; m]]))).
      2:{ intros o m. now destruct (negb (m =? 0)). }
      rewrite fold_left_app_flat_map. rewrite (horton_block_if (fun m => [n; l; m])) by lia. reflexivity. }
  rewrite (fold_left_app_flat_map (fun l => map (fun m => [n; l; m]) (horton_ms l))). cbn [app].
  fold (pure_radial_orders n). destruct (pure_radial_orders_wf n Hn). eapply np_array2_ok; eauto.
Qed.

Lemma gen_radial dim L : gen_orders L "radial" dim = Ret (A1 [L]).
Proof. reflexivity. Qed.

Definition all_pure (L : Z) : list (list Z) := flat_map pure_orders (range_up 0 (L + 1)).
Definition all_pure_radial (N : Z) : list (list Z) := flat_map pure_radial_orders (range_up 1 (N + 1)).
Definition all_radial (L : Z) : list (list Z) := map (fun l => [l]) (range_up 0 (L + 1)).

Lemma all_orders_pure dim L : 0 <= L -> all_orders L "pure" dim = Ret (A2 (all_pure L)).
Proof.
  intros HL.
  destruct (all_orders_blocks "pure" dim 0 2%nat pure_orders) with (L := L) as (a & Ha & Hra & Hbig & Hsmall & _); auto.
  - intros l Hl. exists (A2 (pure_orders l)). destruct (pure_orders_wf l Hl). rewrite gen_pure by assumption. auto.
  - rewrite Ha. f_equal. destruct (Z.eq_dec L 0) as [->|].
    + specialize (Hsmall eq_refl). rewrite gen_pure in Hsmall by lia. inversion Hsmall; subst.
      unfold all_pure. rewrite range_up_cons, range_up_nil by lia. cbn [flat_map]. now rewrite app_nil_r.
    + apply Hbig. lia.
Qed.

Lemma all_orders_pure_radial dim N : 1 <= N -> all_orders N "pure-radial" dim = Ret (A2 (all_pure_radial N)).
Proof.
  intros HN.
  destruct (all_orders_blocks "pure-radial" dim 1 3%nat pure_radial_orders) with (L := N) as (a & Ha & Hra & Hbig & Hsmall & _); auto.
  - intros l Hl. exists (A2 (pure_radial_orders l)). destruct (pure_radial_orders_wf l Hl). rewrite gen_pure_radial by assumption. auto.
  - rewrite Ha. f_equal. destruct (Z.eq_dec N 1) as [->|].
    + specialize (Hsmall eq_refl). rewrite gen_pure_radial in Hsmall by lia. inversion Hsmall; subst.
      unfold all_pure_radial. rewrite range_up_cons, range_up_nil by lia. cbn [flat_map]. now rewrite app_nil_r.
    + apply Hbig. lia.
Qed.

Lemma all_orders_radial dim L : 0 <= L ->
  exists a, all_orders L "radial" dim = Ret a /\ rows_of a = all_radial L /\
            (L = 0 -> a = A1 [0]) /\ (0 < L -> a = A2 (all_radial L)).
Proof.
  intros HL.
  destruct (all_orders_blocks "radial" dim 0 1%nat (fun l => [[l]])) with (L := L) as (a & Ha & Hra & Hbig & Hsmall & _); auto.
  - intros l Hl. exists (A1 [l]). repeat split; auto. discriminate.
  - exists a. rewrite flat_map_single in Hra, Hbig. repeat split; auto.
    intros ->. specialize (Hsmall eq_refl). rewrite gen_radial in Hsmall. now inversion Hsmall.
Qed.
(* ---------- positions of rows *)
Lemma range_up_app s l e : s <= l <= e -> range_up s e = range_up s l ++ range_up l e.
Proof.
  intros H. replace e with (l + (e - l)) by lia. generalize (e - l) (ltac:(lia) : 0 <= e - l). apply Z_nonneg_ind.
  - rewrite Z.add_0_r, (range_up_nil l l) by lia. now rewrite app_nil_r.
  - intros n Hn IH. replace (l + (n + 1)) with (l + n + 1) by lia. rewrite !(range_up_snoc _ (l + n)) by lia.
    rewrite IH. now rewrite <- app_assoc.
Qed.

Lemma range_up_split s l L : s <= l <= L -> range_up s (L + 1) = range_up s l ++ l :: range_up (l + 1) (L + 1).
Proof. intros H. rewrite (range_up_app s l (L + 1)) by lia. now rewrite (range_up_cons l) by lia. Qed.

Lemma nth_blocks {A} (blk : Z -> list A) s L l k d : s <= l <= L -> (k < length (blk l))%nat ->
  nth (length (flat_map blk (range_up s l)) + k) (flat_map blk (range_up s (L + 1))) d = nth k (blk l) d.
Proof.
  intros H Hk. rewrite (range_up_split s l L H), flat_map_app, app_nth2_plus. cbn [flat_map]. now apply app_nth1.
Qed.

Lemma length_horton_ms l : 0 <= l -> length (horton_ms l) = Z.to_nat (2 * l + 1).
Proof. intros. unfold horton_ms. rewrite map_length, length_range_up. lia. Qed.

Lemma length_pure_orders l : 0 <= l -> length (pure_orders l) = Z.to_nat (2 * l + 1).
Proof. intros. unfold pure_orders. now rewrite map_length, length_horton_ms. Qed.

Lemma length_all_pure_prefix l : 0 <= l -> length (flat_map pure_orders (range_up 0 l)) = Z.to_nat (l * l).
Proof.
  revert l. apply Z_nonneg_ind; [reflexivity|]. intros l Hl IH.
  rewrite range_up_snoc, flat_map_app, app_length, IH by lia. cbn [flat_map]. rewrite app_nil_r, length_pure_orders by lia. nia.
Qed.

Lemma length_all_pure L : 0 <= L -> length (all_pure L) = Z.to_nat ((L + 1) * (L + 1)).
Proof. intros. unfold all_pure. apply length_all_pure_prefix. lia. Qed.

Lemma nth_map_lt {A B} (f : A -> B) l i d d' : (i < length l)%nat -> nth i (map f l) d = f (nth i l d').
Proof. intros H. rewrite (nth_indep _ d (f d')) by now rewrite map_length. apply map_nth. Qed.

Lemma nth_range_up a b k d : 0 <= k < b - a -> nth (Z.to_nat k) (range_up a b) d = a + k.
Proof.
  intros H. unfold range_up. rewrite (nth_map_lt _ _ _ _ O) by (rewrite seq_length; lia). rewrite seq_nth by lia. lia.
Qed.

Lemma nth_horton_ms l k : 0 <= k < 2 * l + 1 -> nth (Z.to_nat k) (horton_ms l) 0 = horton_m k.
Proof.
  intros Hk. unfold horton_ms. rewrite (nth_map_lt _ _ _ _ 0) by (rewrite length_range_up; lia).
  rewrite nth_range_up by lia. f_equal.
Qed.

Lemma nth_pure_orders l m : 0 <= l -> - l <= m <= l -> nth (Z.to_nat (hidx m)) (pure_orders l) [] = [l; m].
Proof.
  intros Hl Hm. pose proof (hidx_range l m Hm). unfold pure_orders.
  rewrite (nth_map_lt _ _ _ _ 0) by (rewrite length_horton_ms; lia). now rewrite nth_horton_ms, horton_m_hidx.
Qed.

(* row_index: position of (l, m) in the rows of pure moments *)
Lemma all_pure_nth L l m : 0 <= l <= L -> - l <= m <= l -> nth (Z.to_nat (l * l + hidx m)) (all_pure L) [] = [l; m].
Proof.
  intros Hl Hm. pose proof (hidx_range l m Hm).
  replace (Z.to_nat (l * l + hidx m)) with (length (flat_map pure_orders (range_up 0 l)) + Z.to_nat (hidx m))%nat
    by (rewrite length_all_pure_prefix; nia).
  unfold all_pure. rewrite nth_blocks; [|lia|rewrite length_pure_orders; lia]. apply nth_pure_orders; lia.
Qed.

Lemma all_pure_In L t : 0 <= L -> (In t (all_pure L) <-> exists l m, t = [l; m] /\ 0 <= l <= L /\ - l <= m <= l).
Proof.
  intros HL. unfold all_pure. rewrite in_flat_map. split.
  - intros (l & Hl & Ht). apply In_range_up in Hl. unfold pure_orders in Ht. apply in_map_iff in Ht as (m & <- & Hm).
    apply horton_ms_In in Hm; [|lia]. exists l, m. repeat split; lia.
  - intros (l & m & -> & Hl & Hm). exists l. split; [apply In_range_up; lia|]. unfold pure_orders. apply in_map_iff.
    exists m. split; [reflexivity|]. apply horton_ms_In; lia.
Qed.

(* pure-radial *)
Lemma length_pure_radial_orders n : 0 <= n -> length (pure_radial_orders n) = Z.to_nat (n * n).
Proof.
  intros Hn. unfold pure_radial_orders. rewrite <- (length_all_pure_prefix n Hn).
  generalize (range_up 0 n). induction l; cbn [flat_map]; [reflexivity|].
  rewrite !app_length, IHl. f_equal. unfold pure_orders. now rewrite !map_length.
Qed.

(* number of rows before the block of n:  1^2 + ... + (n-1)^2 *)
Definition sqoff (n : Z) : Z := (n - 1) * n * (2 * n - 1) / 6.

Lemma sqoff_step n : 1 <= n -> sqoff (n + 1) = sqoff n + n * n.
Proof.
  intros Hn. unfold sqoff. replace ((n + 1 - 1) * (n + 1) * (2 * (n + 1) - 1)) with ((n - 1) * n * (2 * n - 1) + (n * n) * 6) by ring.
  rewrite Z.div_add by lia. reflexivity.
Qed.

Lemma length_all_pure_radial_prefix n : 1 <= n -> length (flat_map pure_radial_orders (range_up 1 n)) = Z.to_nat (sqoff n).
Proof.
  intros Hn. replace n with (1 + (n - 1)) by lia. generalize (n - 1) (ltac:(lia) : 0 <= n - 1). apply Z_nonneg_ind; [reflexivity|].
  intros k Hk IH. replace (1 + (k + 1)) with (1 + k + 1) by lia.
  rewrite range_up_snoc, flat_map_app, app_length, IH by lia. cbn [flat_map]. rewrite app_nil_r, length_pure_radial_orders by lia.
  rewrite sqoff_step by lia. assert (0 <= sqoff (1 + k)) by (unfold sqoff; apply Z.div_pos; nia). nia.
Qed.

Lemma nth_pure_radial_orders n l m : 0 <= l < n -> - l <= m <= l ->
  nth (Z.to_nat (l * l + hidx m)) (pure_radial_orders n) [] = [n; l; m].
Proof.
  intros Hl Hm. unfold pure_radial_orders.
  assert (E : flat_map (fun l0 => map (fun m0 => [n; l0; m0]) (horton_ms l0)) (range_up 0 n) = map (cons n) (all_pure (n - 1))).
  { unfold all_pure. replace (n - 1 + 1) with n by lia. generalize (range_up 0 n). induction l0; cbn [flat_map map]; [reflexivity|].
    rewrite map_app, IHl0. f_equal. unfold pure_orders. now rewrite map_map. }
  rewrite E.
  assert (Hlt : (Z.to_nat (l * l + hidx m) < length (all_pure (n - 1)))%nat).
  { rewrite length_all_pure by lia. pose proof (hidx_range l m Hm). nia. }
  rewrite (nth_map_lt _ _ _ _ []) by assumption. f_equal. apply all_pure_nth; lia.
Qed.

Lemma all_pure_radial_nth N n l m : 1 <= n <= N -> 0 <= l < n -> - l <= m <= l ->
  nth (Z.to_nat (sqoff n + l * l + hidx m)) (all_pure_radial N) [] = [n; l; m].
Proof.
  intros Hn Hl Hm. pose proof (hidx_range l m Hm).
  assert (0 <= sqoff n) by (unfold sqoff; apply Z.div_pos; nia).
  replace (Z.to_nat (sqoff n + l * l + hidx m)) with
    (length (flat_map pure_radial_orders (range_up 1 n)) + Z.to_nat (l * l + hidx m))%nat
    by (rewrite length_all_pure_radial_prefix; nia).
  unfold all_pure_radial. rewrite nth_blocks; [|lia|rewrite length_pure_radial_orders; nia]. now apply nth_pure_radial_orders.
Qed.

Lemma length_all_pure_radial N : 1 <= N -> length (all_pure_radial N) = Z.to_nat (sqoff (N + 1)).
Proof. intros. unfold all_pure_radial. apply length_all_pure_radial_prefix. lia. Qed.

Lemma all_pure_radial_In N t : 1 <= N ->
  (In t (all_pure_radial N) <-> exists n l m, t = [n; l; m] /\ 1 <= n <= N /\ 0 <= l < n /\ - l <= m <= l).
Proof.
  intros HN. unfold all_pure_radial, pure_radial_orders. rewrite in_flat_map. split.
  - intros (n & Hn & Ht). apply In_range_up in Hn. apply in_flat_map in Ht as (l & Hl & Ht). apply In_range_up in Hl.
    apply in_map_iff in Ht as (m & <- & Hm). apply horton_ms_In in Hm; [|lia]. exists n, l, m. repeat split; lia.
  - intros (n & l & m & -> & Hn & Hl & Hm). exists n. split; [apply In_range_up; lia|]. apply in_flat_map.
    exists l. split; [apply In_range_up; lia|]. apply in_map_iff. exists m. split; [reflexivity|]. apply horton_ms_In; lia.
Qed.

(* uniqueness of positions: a list whose every entry is determined by an injective index function has no duplicates *)
Lemma NoDup_by_key {A} (key : A -> Z) (l : list A) (d : A) :
  (forall i, (i < length l)%nat -> key (nth i l d) = Z.of_nat i) -> NoDup l.
Proof.
  intros H. apply (NoDup_nth l d). intros i j Hi Hj E. apply (f_equal key) in E. rewrite !H in E by assumption. lia.
Qed.
(* ---------- no duplicates / uniqueness of positions *)
Definition pure_key (t : list Z) : Z := match t with [l; m] => l * l + hidx m | _ => -1 end.
Definition pure_radial_key (t : list Z) : Z := match t with [n; l; m] => sqoff n + l * l + hidx m | _ => -1 end.

Lemma horton_ms_sorted l : 0 <= l -> StronglySorted (fun a b => hidx a < hidx b) (horton_ms l).
Proof.
  intros Hl. unfold horton_ms. apply (SS_map Z.lt); [apply range_up_sorted|].
  intros i j Hi Hj Hij. apply In_range_up in Hi, Hj. rewrite !hidx_horton_m by lia. exact Hij.
Qed.

Lemma all_pure_sorted L : StronglySorted (fun a b => pure_key a < pure_key b) (all_pure L).
Proof.
  unfold all_pure. apply (SS_flat_map Z.lt); [apply range_up_sorted| |].
  - intros l Hl. apply In_range_up in Hl. unfold pure_orders.
    apply (SS_map (fun a b => hidx a < hidx b)); [apply horton_ms_sorted; lia|]. intros a b _ _ H. cbn. lia.
  - intros l l' x y Hl Hl' Hlt Hx Hy. apply In_range_up in Hl, Hl'. unfold pure_orders in Hx, Hy.
    apply in_map_iff in Hx as (m & <- & Hm). apply in_map_iff in Hy as (m' & <- & Hm').
    apply horton_ms_In in Hm, Hm'; try lia. cbn. pose proof (hidx_range l m Hm). pose proof (hidx_range l' m' Hm'). nia.
Qed.

Lemma sqoff_nonneg n : 1 <= n -> 0 <= sqoff n.
Proof. intros. unfold sqoff. apply Z.div_pos; nia. Qed.

Lemma sqoff_mono n n' : 1 <= n <= n' -> sqoff n <= sqoff n'.
Proof.
  intros H. replace n' with (n + (n' - n)) by lia. generalize (n' - n) (ltac:(lia) : 0 <= n' - n). apply Z_nonneg_ind.
  - rewrite Z.add_0_r. lia.
  - intros k Hk IH. replace (n + (k + 1)) with (n + k + 1) by lia. rewrite sqoff_step by lia. nia.
Qed.

Lemma all_pure_radial_sorted N : StronglySorted (fun a b => pure_radial_key a < pure_radial_key b) (all_pure_radial N).
Proof.
  unfold all_pure_radial. apply (SS_flat_map Z.lt); [apply range_up_sorted| |].
  - intros n Hn. apply In_range_up in Hn. unfold pure_radial_orders. apply (SS_flat_map Z.lt); [apply range_up_sorted| |].
    + intros l Hl. apply In_range_up in Hl.
      apply (SS_map (fun a b => hidx a < hidx b)); [apply horton_ms_sorted; lia|]. intros a b _ _ H. cbn. lia.
    + intros l l' x y Hl Hl' Hlt Hx Hy. apply In_range_up in Hl, Hl'.
      apply in_map_iff in Hx as (m & <- & Hm). apply in_map_iff in Hy as (m' & <- & Hm').
      apply horton_ms_In in Hm, Hm'; try lia. cbn. pose proof (hidx_range l m Hm). pose proof (hidx_range l' m' Hm'). nia.
  - intros n n' x y Hn Hn' Hlt Hx Hy. apply In_range_up in Hn, Hn'. unfold pure_radial_orders in Hx, Hy.
    apply in_flat_map in Hx as (l & Hl & Hx). apply in_flat_map in Hy as (l' & Hl' & Hy). apply In_range_up in Hl, Hl'.
    apply in_map_iff in Hx as (m & <- & Hm). apply in_map_iff in Hy as (m' & <- & Hm').
    apply horton_ms_In in Hm, Hm'; try lia. cbn. pose proof (hidx_range l m Hm). pose proof (hidx_range l' m' Hm').
    pose proof (sqoff_step n ltac:(lia)). pose proof (sqoff_mono (n + 1) n' ltac:(lia)). nia.
Qed.

Lemma position_unique {A} (l : list A) d i j : NoDup l -> (i < length l)%nat -> (j < length l)%nat ->
  nth i l d = nth j l d -> i = j.
Proof. intros H. now apply NoDup_nth. Qed.

Lemma all_pure_NoDup L : NoDup (all_pure L).
Proof. apply (SS_NoDup _ _ (fun x => Z.lt_irrefl (pure_key x)) (all_pure_sorted L)). Qed.
Lemma all_pure_radial_NoDup N : NoDup (all_pure_radial N).
Proof. apply (SS_NoDup _ _ (fun x => Z.lt_irrefl (pure_radial_key x)) (all_pure_radial_sorted N)). Qed.

(* ---------- Grid.moments: every entry is the quadrature of its row's basis function about its centre *)
Section MomentsFacts.
Context {T : Type} (o : NumOps T).
Variable norm : list T -> T.
Variable solid : Z -> list T -> list T.
Notation moments := (moments o norm solid).
Notation row_funs := (row_funs o norm solid).

Lemma nth_seq_map {B} (g : nat -> B) n r d : (r < n)%nat -> nth r (map g (seq 0 n)) d = g r.
Proof. intros H. rewrite (nth_map_lt _ _ _ _ O) by now rewrite seq_length. now rewrite seq_nth. Qed.

Lemma moments_entry dim L ty pts w cs f M ao : moments dim L ty pts w cs f = Some (M, ao) ->
  exists bs, all_orders L ty (Z.of_nat dim) = Ret ao /\ row_funs L ty dim ao = Some bs /\ length M = length bs /\
    forall r c, (r < length bs)%nat -> (c < length cs)%nat ->
      entry o M r c = quad o (fun p => nth r bs (fun _ => n0 o) (vsub o p (nth c cs []))) pts f w.
Proof.
  unfold C14_model.moments.
  destruct (negb (forallb _ cs)); [discriminate|]. destruct (negb (length f =? length pts)%nat); [discriminate|].
  destruct (_ && _); [discriminate|]. destruct (all_orders L ty (Z.of_nat dim)) as [|ao'] eqn:Ea; [discriminate|].
  destruct (row_funs L ty dim ao') as [bs|] eqn:Eb; [|discriminate]. intros E. inversion E; subst ao. clear E.
  exists bs. repeat split; auto.
  - unfold transpose. now rewrite map_length, seq_length.
  - intros r c Hr Hc. unfold entry, transpose, quad. rewrite nth_seq_map by assumption.
    rewrite (nth_map_lt _ _ _ _ []) by now rewrite map_length.
    rewrite (nth_map_lt _ _ _ _ []) by assumption.
    rewrite (nth_map_lt _ _ _ _ (fun _ => n0 o)) by assumption. now rewrite map_map.
Qed.

Lemma moments_defined dim L ty pts w cs f ao bs :
  Forall (fun c => length c = dim) cs -> length f = length pts -> (ty = "pure-radial"%string -> L <> 0) ->
  all_orders L ty (Z.of_nat dim) = Ret ao -> row_funs L ty dim ao = Some bs ->
  exists M, moments dim L ty pts w cs f = Some (M, ao).
Proof.
  intros Hcs Hf Hpr Ha Hb. unfold C14_model.moments.
  replace (forallb (fun c => (length c =? dim)%nat) cs) with true.
  2:{ symmetry. apply forallb_forall. rewrite Forall_forall in Hcs. intros c Hc. apply Nat.eqb_eq. auto. }
  rewrite Hf, Nat.eqb_refl. cbn [negb].
  replace ((ty =? "pure-radial")%string && (L =? 0)) with false.
  2:{ symmetry. apply andb_false_iff. destruct (String.eqb_spec ty "pure-radial"); [right|now left]. apply Z.eqb_neq. auto. }
  rewrite Ha, Hb. eauto.
Qed.

(* Cartesian: rows are exponent tuples, the basis is the monomial prod_k v_k^(e_k) *)
Lemma entry_cartesian dim L rows pts w cs f :
  all_orders L "cartesian" (Z.of_nat dim) = Ret (A2 rows) -> Forall (fun e => length e = dim) rows ->
  Forall (fun c => length c = dim) cs -> length f = length pts ->
  exists M, moments dim L "cartesian" pts w cs f = Some (M, A2 rows) /\ length M = length rows /\
    forall r c, (r < length rows)%nat -> (c < length cs)%nat ->
      entry o M r c = quad o (fun p => basis_cart o (nth r rows []) (vsub o p (nth c cs []))) pts f w.
Proof.
  intros Ha Hrows Hcs Hf.
  assert (Hb : row_funs L "cartesian" dim (A2 rows) = Some (map (basis_cart o) rows)).
  { unfold C14_model.row_funs. cbn [String.eqb Ascii.eqb Bool.eqb]. cbn. now rewrite (proj2 (all_len_Forall dim rows) Hrows). }
  destruct (moments_defined dim L "cartesian" pts w cs f _ _ Hcs Hf ltac:(discriminate) Ha Hb) as [M HM].
  exists M. split; [exact HM|]. destruct (moments_entry _ _ _ _ _ _ _ _ _ HM) as (bs & _ & Hb' & Hlen & Hent).
  rewrite Hb in Hb'. inversion Hb'; subst bs. rewrite map_length in *. split; [exact Hlen|].
  intros r c Hr Hc. rewrite Hent by assumption. unfold quad. f_equal. apply map_ext. intros p.
  now rewrite (nth_map_lt _ _ _ _ []) by assumption.
Qed.

(* radial: row n holds |r - R|^n *)
Lemma entry_radial dim L pts w cs f : 0 <= L ->
  Forall (fun c => length c = dim) cs -> length f = length pts ->
  exists M a, moments dim L "radial" pts w cs f = Some (M, a) /\ rows_of a = all_radial L /\
    length M = Z.to_nat (L + 1) /\
    forall n c, 0 <= n <= L -> (c < length cs)%nat ->
      entry o M (Z.to_nat n) c = quad o (fun p => zpow o (norm (vsub o p (nth c cs []))) n) pts f w.
Proof.
  intros HL Hcs Hf. destruct (all_orders_radial (Z.of_nat dim) L HL) as (a & Ha & Hra & _).
  assert (Hb : row_funs L "radial" dim a = Some (map (basis_radial o norm) (range_up 0 (L + 1)))).
  { unfold C14_model.row_funs. cbn. rewrite Hra. unfold all_radial. do 2 f_equal.
    generalize (range_up 0 (L + 1)). induction l; cbn; congruence. }
  destruct (moments_defined dim L "radial" pts w cs f _ _ Hcs Hf ltac:(discriminate) Ha Hb) as [M HM].
  exists M, a. split; [exact HM|]. split; [exact Hra|].
  destruct (moments_entry _ _ _ _ _ _ _ _ _ HM) as (bs & _ & Hb' & Hlen & Hent).
  rewrite Hb in Hb'. inversion Hb'; subst bs. rewrite map_length, length_range_up in *.
  split; [rewrite Hlen; f_equal; lia|]. intros n c Hn Hc. rewrite Hent by (auto; lia). unfold quad. f_equal. apply map_ext. intros p.
  rewrite (nth_map_lt _ _ _ _ 0) by (rewrite length_range_up; lia). rewrite nth_range_up by lia. reflexivity.
Qed.

(* oracle hypothesis: the solid-harmonic routine returns, for every l <= l_max, the regular solid harmonic
   S l m at row l^2 + hidx m (the library's documented layout) *)
Variable S : Z -> Z -> list T -> T.
Hypothesis solid_rows : forall lmax v l m, 0 <= l <= lmax -> - l <= m <= l ->
  nth (sidx l m) (solid lmax v) (n0 o) = S l m v.

Lemma entry_pure L pts w cs f : 0 <= L ->
  Forall (fun c => length c = 3%nat) cs -> length f = length pts ->
  exists M, moments 3 L "pure" pts w cs f = Some (M, A2 (all_pure L)) /\ length M = length (all_pure L) /\
    forall l m c, 0 <= l <= L -> - l <= m <= l -> (c < length cs)%nat ->
      nth (sidx l m) (all_pure L) [] = [l; m] /\
      entry o M (sidx l m) c = quad o (fun p => S l m (vsub o p (nth c cs []))) pts f w.
Proof.
  intros HL Hcs Hf. pose proof (all_orders_pure 3 L HL) as Ha.
  assert (Hb : row_funs L "pure" 3 (A2 (all_pure L)) = Some (map (basis_pure o solid L) (seq 0 (Z.to_nat ((L + 1) * (L + 1)))))) by reflexivity.
  destruct (moments_defined 3 L "pure" pts w cs f _ _ Hcs Hf ltac:(discriminate) Ha Hb) as [M HM].
  exists M. split; [exact HM|]. destruct (moments_entry _ _ _ _ _ _ _ _ _ HM) as (bs & _ & Hb' & Hlen & Hent).
  rewrite Hb in Hb'. inversion Hb'; subst bs. rewrite map_length, seq_length in *.
  split; [now rewrite length_all_pure|]. intros l m c Hl Hm Hc. split; [now apply all_pure_nth|].
  assert (Hlt : (sidx l m < Z.to_nat ((L + 1) * (L + 1)))%nat) by (unfold sidx; pose proof (hidx_range l m Hm); nia).
  rewrite Hent by assumption. unfold quad. f_equal. apply map_ext. intros p.
  rewrite nth_seq_map by assumption. unfold basis_pure. now apply solid_rows.
Qed.

Lemma entry_pure_radial N pts w cs f : 1 <= N ->
  Forall (fun c => length c = 3%nat) cs -> length f = length pts ->
  exists M, moments 3 N "pure-radial" pts w cs f = Some (M, A2 (all_pure_radial N)) /\
    length M = length (all_pure_radial N) /\
    forall n l m c, 1 <= n <= N -> 0 <= l < n -> - l <= m <= l -> (c < length cs)%nat ->
      let r := Z.to_nat (sqoff n + l * l + hidx m) in
      nth r (all_pure_radial N) [] = [n; l; m] /\
      entry o M r c = quad o (fun p => let v := vsub o p (nth c cs []) in nmul o (zpow o (norm v) n) (S l m v)) pts f w.
Proof.
  intros HN Hcs Hf. pose proof (all_orders_pure_radial 3 N HN) as Ha.
  assert (Hall : Forall (fun r => length r = 3%nat) (all_pure_radial N)).
  { apply Forall_forall. intros t Ht. apply all_pure_radial_In in Ht as (n & l & m & -> & _); auto. }
  assert (Hb : row_funs N "pure-radial" 3 (A2 (all_pure_radial N)) = Some (map (basis_pure_radial o norm solid N) (all_pure_radial N))).
  { unfold C14_model.row_funs. cbn. now rewrite (proj2 (all_len_Forall 3 _) Hall). }
  destruct (moments_defined 3 N "pure-radial" pts w cs f _ _ Hcs Hf ltac:(lia) Ha Hb) as [M HM].
  exists M. split; [exact HM|]. destruct (moments_entry _ _ _ _ _ _ _ _ _ HM) as (bs & _ & Hb' & Hlen & Hent).
  rewrite Hb in Hb'. inversion Hb'; subst bs. rewrite map_length in *. split; [exact Hlen|].
  intros n l m c Hn Hl Hm Hc r. pose proof (all_pure_radial_nth N n l m Hn Hl Hm) as Hnth. fold r in Hnth. split; [exact Hnth|].
  assert (Hlt : (r < length (all_pure_radial N))%nat).
  { rewrite length_all_pure_radial by assumption. subst r. pose proof (hidx_range l m Hm). pose proof (sqoff_nonneg n ltac:(lia)).
    pose proof (sqoff_step n ltac:(lia)). pose proof (sqoff_mono (n + 1) (N + 1) ltac:(lia)). nia. }
  rewrite Hent by assumption. unfold quad. f_equal. apply map_ext. intros p.
  rewrite (nth_map_lt _ _ _ _ []) by assumption. rewrite Hnth. cbn [basis_pure_radial]. f_equal. apply solid_rows; lia.
Qed.
End MomentsFacts.
(* ---------- statements assembled for the props files *)
Lemma all_pure_pos_unique L r l m : 0 <= L -> (r < length (all_pure L))%nat -> nth r (all_pure L) [] = [l; m] ->
  r = Z.to_nat (l * l + hidx m).
Proof.
  intros HL Hr E. assert (Hin : In [l; m] (all_pure L)) by (rewrite <- E; now apply nth_In).
  apply all_pure_In in Hin as (l' & m' & E' & Hl & Hm); auto. inversion E'; subst l' m'.
  apply (position_unique (all_pure L) [] _ _ (all_pure_NoDup L) Hr).
  - rewrite length_all_pure by lia. pose proof (hidx_range l m Hm). nia.
  - now rewrite all_pure_nth.
Qed.

Lemma all_pure_radial_pos_unique N r n l m : 1 <= N -> (r < length (all_pure_radial N))%nat ->
  nth r (all_pure_radial N) [] = [n; l; m] -> r = Z.to_nat (sqoff n + l * l + hidx m).
Proof.
  intros HN Hr E. assert (Hin : In [n; l; m] (all_pure_radial N)) by (rewrite <- E; now apply nth_In).
  apply all_pure_radial_In in Hin as (n' & l' & m' & E' & Hn & Hl & Hm); auto. inversion E'; subst n' l' m'.
  apply (position_unique (all_pure_radial N) [] _ _ (all_pure_radial_NoDup N) Hr).
  - rewrite length_all_pure_radial by assumption. pose proof (hidx_range l m Hm). pose proof (sqoff_nonneg n ltac:(lia)).
    pose proof (sqoff_step n ltac:(lia)). pose proof (sqoff_mono (n + 1) (N + 1) ltac:(lia)). nia.
  - now rewrite all_pure_radial_nth.
Qed.

(* Cartesian orders in dimension `dim`, given per-order conformance of the translated generator *)
Lemma orders_cartesian_for dim : dim = 1 \/ dim = 2 \/ dim = 3 ->
  (forall l, 0 <= l -> gen_orders l "cartesian" dim = Ret (A2 (cart_orders dim l))) ->
  forall L, 0 <= L ->
  (exists rows, gen_orders L "cartesian" dim = Ret (A2 rows) /\
     (forall t, In t rows <-> is_exponents dim t /\ zsum t = L) /\ StronglySorted lex_gt rows /\ NoDup rows) /\
  (exists rows, all_orders L "cartesian" dim = Ret (A2 rows) /\
     (forall t, In t rows <-> is_exponents dim t /\ zsum t <= L) /\ StronglySorted deg_lex rows /\ NoDup rows).
Proof.
  intros Hd Hg L HL. split.
  - exists (cart_orders dim L). split; [auto|]. split; [intros; now apply cart_orders_In|].
    split; [apply cart_orders_sorted|]. exact (SS_NoDup _ _ lex_gt_irrefl (cart_orders_sorted dim L)).
  - exists (all_cart dim L). split; [now apply all_orders_cart|]. split; [intros; now apply all_cart_In|].
    split; [now apply all_cart_sorted|]. exact (SS_NoDup _ _ deg_lex_irrefl (all_cart_sorted dim L Hd)).
Qed.

Lemma orders_pure_lemma dim L : 0 <= L ->
  gen_orders L "pure" dim = Ret (A2 (map (fun m => [L; m]) (horton_ms L))) /\
  length (horton_ms L) = Z.to_nat (2 * L + 1) /\
  (forall k, 0 <= k < 2 * L + 1 -> nth (Z.to_nat k) (horton_ms L) 0 = horton_m k) /\
  (forall m, In m (horton_ms L) <-> - L <= m <= L) /\
  all_orders L "pure" dim = Ret (A2 (flat_map pure_orders (range_up 0 (L + 1)))) /\
  (forall t, In t (flat_map pure_orders (range_up 0 (L + 1))) <-> exists l m, t = [l; m] /\ 0 <= l <= L /\ - l <= m <= l) /\
  NoDup (flat_map pure_orders (range_up 0 (L + 1))).
Proof.
  intros HL. split; [now apply gen_pure|]. split; [now apply length_horton_ms|]. split; [intros; now apply nth_horton_ms|].
  split; [intros; now apply horton_ms_In|]. split; [now apply all_orders_pure|]. split; [intros; now apply all_pure_In|].
  apply all_pure_NoDup.
Qed.

Lemma horton_m_values : horton_m 0 = 0 /\ forall j, 1 <= j -> horton_m (2 * j - 1) = j /\ horton_m (2 * j) = - j.
Proof. split; [reflexivity|]. intros j _. split; [apply horton_m_odd | apply horton_m_even]. Qed.

Lemma orders_pure_radial_lemma dim N : 1 <= N ->
  gen_orders N "pure-radial" dim = Ret (A2 (flat_map (fun l => map (fun m => [N; l; m]) (horton_ms l)) (range_up 0 N))) /\
  all_orders N "pure-radial" dim = Ret (A2 (flat_map pure_radial_orders (range_up 1 (N + 1)))) /\
  (forall t, In t (flat_map pure_radial_orders (range_up 1 (N + 1))) <->
             exists n l m, t = [n; l; m] /\ 1 <= n <= N /\ 0 <= l < n /\ - l <= m <= l) /\
  NoDup (flat_map pure_radial_orders (range_up 1 (N + 1))).
Proof.
  intros HN. split; [now apply gen_pure_radial|]. split; [now apply all_orders_pure_radial|].
  split; [intros; now apply all_pure_radial_In|]. apply all_pure_radial_NoDup.
Qed.

Lemma orders_radial_lemma dim L : 0 <= L ->
  gen_orders L "radial" dim = Ret (A1 [L]) /\
  exists a, all_orders L "radial" dim = Ret a /\ rows_of a = map (fun l => [l]) (range_up 0 (L + 1)) /\
            (L = 0 -> a = A1 [0]) /\ (0 < L -> a = A2 (map (fun l => [l]) (range_up 0 (L + 1)))).
Proof. intros HL. split; [reflexivity|]. now apply all_orders_radial. Qed.

Lemma row_index_lemma :
  (forall L l m, 0 <= l <= L -> - l <= m <= l ->
     nth (Z.to_nat (l * l + hidx m)) (all_pure L) [] = [l; m] /\
     forall r, (r < length (all_pure L))%nat -> nth r (all_pure L) [] = [l; m] -> r = Z.to_nat (l * l + hidx m)) /\
  (forall N n l m, 1 <= n <= N -> 0 <= l < n -> - l <= m <= l ->
     nth (Z.to_nat (sqoff n + l * l + hidx m)) (all_pure_radial N) [] = [n; l; m] /\
     forall r, (r < length (all_pure_radial N))%nat -> nth r (all_pure_radial N) [] = [n; l; m] ->
               r = Z.to_nat (sqoff n + l * l + hidx m)) /\
  (forall L, 0 <= L -> length (all_pure L) = Z.to_nat ((L + 1) * (L + 1))) /\
  sqoff 1 = 0 /\ (forall n, 1 <= n -> sqoff (n + 1) = sqoff n + n * n) /\
  (forall m, horton_m (hidx m) = m) /\ (forall k, 0 <= k -> hidx (horton_m k) = k).
Proof.
  split; [|split; [|split; [|split; [|split; [|split]]]]].
  - intros L l m Hl Hm. split; [now apply all_pure_nth|]. intros r Hr E. apply (all_pure_pos_unique L); auto; lia.
  - intros N n l m Hn Hl Hm. split; [now apply all_pure_radial_nth|]. intros r Hr E. apply (all_pure_radial_pos_unique N); auto; lia.
  - apply length_all_pure.
  - reflexivity.
  - apply sqoff_step.
  - apply horton_m_hidx.
  - apply hidx_horton_m.
Qed.

(* ---------- the hypotheses are satisfiable / non-trivial instances *)
Example solid_rows_satisfiable {T} (o : NumOps T) (S : Z -> Z -> list T -> T) :
  exists solid : Z -> list T -> list T, forall lmax v l m, 0 <= l <= lmax -> - l <= m <= l ->
    nth (sidx l m) (solid lmax v) (n0 o) = S l m v.
Proof.
  exists (fun lmax v => map (fun t => match t with [l; m] => S l m v | _ => n0 o end) (all_pure lmax)).
  intros lmax v l m Hl Hm. unfold sidx. pose proof (hidx_range l m Hm).
  rewrite (nth_map_lt _ _ _ _ []) by (rewrite length_all_pure by lia; nia). now rewrite all_pure_nth.
Qed.

Example moments_cartesian_example :
  moments ZOps (fun _ => 0) (fun _ _ => []) 2 2 "cartesian" [[1; 2]; [2; -1]] [1; 1] [[0; 1]; [1; 1]] [1; 3]
  = Some ([[4; 4]; [7; 3]; [-5; -5]; [13; 3]; [-11; -6]; [13; 13]], A2 [[0; 0]; [1; 0]; [0; 1]; [2; 0]; [1; 1]; [0; 2]]).
Proof. vm_compute. reflexivity. Qed.

Example orders_examples :
  gen_orders 2 "cartesian" 3 = Ret (A2 [[2; 0; 0]; [1; 1; 0]; [1; 0; 1]; [0; 2; 0]; [0; 1; 1]; [0; 0; 2]]) /\
  gen_orders 2 "pure" 3 = Ret (A2 [[2; 0]; [2; 1]; [2; -1]; [2; 2]; [2; -2]]) /\
  gen_orders 2 "pure-radial" 3 = Ret (A2 [[2; 0; 0]; [2; 1; 0]; [2; 1; 1]; [2; 1; -1]]) /\
  all_orders 2 "pure-radial" 3 = Ret (A2 [[1; 0; 0]; [2; 0; 0]; [2; 1; 0]; [2; 1; 1]; [2; 1; -1]]) /\
  nth (Z.to_nat (sqoff 2 + 1 * 1 + hidx (-1))) (all_pure_radial 2) [] = [2; 1; -1].
Proof. vm_compute. repeat split; reflexivity. Qed.
