(* C14: instance at the reals, and the dipole helper. *)
From Coq Require Import String ZArith List Bool Lia Reals Lra.
From P Require Import C14_model_base C14_gen C14_model C14_proofs.
Import ListNotations.
Open Scope R_scope.

Definition ROps : NumOps R := mkOps R 0 1 Rplus Rminus Rmult Rdiv.
(* Euclidean norm of a displacement vector *)
Definition Rnorm (v : list R) : R := sqrt (fold_right Rplus 0 (map (fun x => x * x) v)).

Lemma all_orders_1_cart3 : all_orders 1 "cartesian" 3 = Ret (A2 [[0; 0; 0]; [1; 0; 0]; [0; 1; 0]; [0; 0; 1]]%Z).
Proof. vm_compute. reflexivity. Qed.

Section Dipole.
Variable norm : list R -> R.
Variable solid : Z -> list R -> list R.

Definition comp (k : nat) (v : list R) : R := nth k v 0.

(* the documented formula, component k:  sum_a Z_a (R_a - C)_k  -  sum_i (p_i - C)_k rho_i w_i *)
Definition dipole_component (k : nat) (C : list R) (pts : list (list R)) (w rho : list R)
           (coords : list (list R)) (charges : list R) : R :=
  nsum ROps (map2 (fun Ra q => (comp k Ra - comp k C) * q) coords charges)
  - quad ROps (fun p => comp k p - comp k C) pts rho w.

Lemma nuc_unit e k cx cy cz coords charges :
  (e, k) = ([1; 0; 0]%Z, 0%nat) \/ (e, k) = ([0; 1; 0]%Z, 1%nat) \/ (e, k) = ([0; 0; 1]%Z, 2%nat) ->
  Forall (fun p => length p = 3%nat) coords ->
  nsum ROps (map2 (fun Ra q => nmul ROps (basis_cart ROps e (vsub ROps Ra [cx; cy; cz])) q) coords charges)
  = nsum ROps (map2 (fun Ra q => (comp k Ra - comp k [cx; cy; cz]) * q) coords charges).
Proof.
  intros He Hc. revert charges. induction Hc as [|p coords Hp Hc IH]; intros charges; [reflexivity|].
  destruct charges as [|q charges]; [reflexivity|]. cbn [map2 nsum fold_right]. unfold nsum in IH. rewrite IH. f_equal.
  destruct p as [|a [|b [|c [|? ?]]]]; try discriminate.
  destruct He as [He|[He|He]]; inversion He; subst; cbn; change (Pos.to_nat 1) with 1%nat; cbn; ring.
Qed.

Lemma quad_unit e k cx cy cz pts rho w :
  (e, k) = ([1; 0; 0]%Z, 0%nat) \/ (e, k) = ([0; 1; 0]%Z, 1%nat) \/ (e, k) = ([0; 0; 1]%Z, 2%nat) ->
  Forall (fun p => length p = 3%nat) pts ->
  dot3 ROps (map (fun p => basis_cart ROps e (vsub ROps p [cx; cy; cz])) pts) rho w
  = quad ROps (fun p => comp k p - comp k [cx; cy; cz]) pts rho w.
Proof.
  intros He Hc. unfold quad. revert rho w. induction Hc as [|p pts Hp Hc IH]; intros rho w; [reflexivity|].
  destruct rho as [|r rho]; [reflexivity|]. destruct w as [|u w]; [reflexivity|]. cbn [map dot3]. rewrite IH. f_equal.
  destruct p as [|a [|b [|c [|? ?]]]]; try discriminate.
  destruct He as [He|[He|He]]; inversion He; subst; cbn; change (Pos.to_nat 1) with 1%nat; cbn; ring.
Qed.

Lemma dipole_spec_lemma pts w rho coords charges masses :
  Forall (fun p => length p = 3%nat) pts -> Forall (fun p => length p = 3%nat) coords -> length rho = length pts ->
  let C := center_of_mass ROps coords masses in
  dipole ROps norm solid pts w rho coords charges masses =
    Some [dipole_component 0 C pts w rho coords charges;
          dipole_component 1 C pts w rho coords charges;
          dipole_component 2 C pts w rho coords charges].
Proof.
  intros Hp Hc Hr C. unfold dipole. fold C.
  assert (EC : exists cx cy cz, C = [cx; cy; cz]) by (unfold C, center_of_mass; cbn [map seq]; eauto).
  destruct EC as (cx & cy & cz & EC). rewrite EC.
  unfold moments. cbn [forallb length Nat.eqb andb negb]. rewrite Hr, Nat.eqb_refl. cbn [negb].
  change (Z.of_nat 3) with 3%Z. cbn [String.eqb Ascii.eqb Bool.eqb andb]. rewrite all_orders_1_cart3.
  cbn [row_funs String.eqb Ascii.eqb Bool.eqb all_len length Nat.eqb andb map transpose seq nth rows_of tl map2].
  cbn [nsub ROps]. rewrite !map_map.
  rewrite (nuc_unit [1; 0; 0]%Z 0%nat), (nuc_unit [0; 1; 0]%Z 1%nat), (nuc_unit [0; 0; 1]%Z 2%nat) by auto.
  rewrite (quad_unit [1; 0; 0]%Z 0%nat), (quad_unit [0; 1; 0]%Z 1%nat), (quad_unit [0; 0; 1]%Z 2%nat) by auto.
  reflexivity.
Qed.
End Dipole.

(* the centre used by the helper is the mass-weighted mean of the nuclear positions *)
Lemma center_of_mass_spec coords masses k : (k < 3)%nat ->
  nth k (center_of_mass ROps coords masses) 0
  = nsum ROps (map2 (fun Ra m => nth k Ra 0 * m) coords masses) / nsum ROps masses.
Proof. intros H. destruct k as [|[|[|k]]]; try lia; reflexivity. Qed.
