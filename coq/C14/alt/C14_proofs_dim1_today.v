(* C14, Cartesian orders, variant for a source whose 1-D generator does not return the documented list
   (selected by tools/props/c14.py when generate_orders_horton_order(3, "cartesian", 1) != [[3]];
   always accompanied by a reported failing input). *)
From Coq Require Import String ZArith List Bool Lia Sorted.
From P Require Import C14_model_base C14_gen C14_model C14_proofs.
Import ListNotations.
Open Scope Z_scope.

Lemma orders_cartesian_1d_refuted_lemma :
  exists L, 0 <= L /\ gen_orders L "cartesian" 1 <> Ret (A2 [[L]]) /\
            forall a, all_orders L "cartesian" 1 = Ret a -> rows_of a <> map (fun l => [l]) (range_up 0 (L + 1)).
Proof.
  exists 1. split; [lia|]. split.
  - vm_compute. discriminate.
  - intros a. vm_compute. intros E. first [discriminate E | inversion E; subst a; vm_compute; discriminate].
Qed.

Lemma orders_cartesian_partial_lemma dim L : dim = 2 \/ dim = 3 -> 0 <= L ->
  (exists rows, gen_orders L "cartesian" dim = Ret (A2 rows) /\
     (forall t, In t rows <-> is_exponents dim t /\ zsum t = L) /\ StronglySorted lex_gt rows /\ NoDup rows) /\
  (exists rows, all_orders L "cartesian" dim = Ret (A2 rows) /\
     (forall t, In t rows <-> is_exponents dim t /\ zsum t <= L) /\ StronglySorted deg_lex rows /\ NoDup rows).
Proof.
  intros Hd HL. apply orders_cartesian_for; [tauto| |assumption]. intros l Hl. now apply gen_cart23.
Qed.
