(* C14, Cartesian orders, variant for a source whose 1-D generator returns the documented list [[L]]. *)
From Coq Require Import String ZArith List Bool Lia Sorted.
From P Require Import C14_model_base C14_gen C14_model C14_proofs.
Import ListNotations.
Open Scope Z_scope.

Lemma gen_cart1 L : gen_orders L "cartesian" 1 = Ret (A2 (cart_orders 1 L)).
Proof. reflexivity. Qed.

Lemma orders_cartesian_lemma dim L : dim = 1 \/ dim = 2 \/ dim = 3 -> 0 <= L ->
  (exists rows, gen_orders L "cartesian" dim = Ret (A2 rows) /\
     (forall t, In t rows <-> is_exponents dim t /\ zsum t = L) /\ StronglySorted lex_gt rows /\ NoDup rows) /\
  (exists rows, all_orders L "cartesian" dim = Ret (A2 rows) /\
     (forall t, In t rows <-> is_exponents dim t /\ zsum t <= L) /\ StronglySorted deg_lex rows /\ NoDup rows).
Proof.
  intros Hd HL. apply orders_cartesian_for; [assumption| |assumption]. intros l Hl.
  destruct Hd as [->|Hd]; [apply gen_cart1 | now apply gen_cart23].
Qed.
