(* C14 Cartesian order theorems, variant for a source whose 1-D generator returns the documented list. *)
From Coq Require Import String ZArith List Bool Sorted.
From P Require Import C14_model_base C14_gen C14_model C14_proofs C14_proofs_dim1_fixed.
Import ListNotations.
Open Scope Z_scope.

(* dimensions 1, 2 and 3, every order L: the generator returns exactly the exponent tuples of total degree L, in
   lexicographically descending order, duplicate-free; the rows of Cartesian moments up to L are exactly the tuples of
   total degree 0..L, ordered by total degree ascending and lexicographically descending within a degree *)
Theorem orders_cartesian_spec : forall dim L, dim = 1 \/ dim = 2 \/ dim = 3 -> 0 <= L ->
  (exists rows, gen_orders L "cartesian" dim = Ret (A2 rows) /\
     (forall t, In t rows <-> is_exponents dim t /\ zsum t = L) /\ StronglySorted lex_gt rows /\ NoDup rows) /\
  (exists rows, all_orders L "cartesian" dim = Ret (A2 rows) /\
     (forall t, In t rows <-> is_exponents dim t /\ zsum t <= L) /\ StronglySorted deg_lex rows /\ NoDup rows).
Proof. exact orders_cartesian_lemma. Qed.
Print Assumptions orders_cartesian_spec.
