(* C14 Cartesian order theorems, variant for a source whose 1-D generator does not return the documented list. *)
From Coq Require Import String ZArith List Bool Sorted.
From P Require Import C14_model_base C14_gen C14_model C14_proofs C14_proofs_dim1_today.
Import ListNotations.
Open Scope Z_scope.

(* dimensions 2 and 3, every order L: the generator returns exactly the exponent tuples of total degree L, in
   lexicographically descending order, duplicate-free; the rows of Cartesian moments up to L are exactly the tuples of
   total degree 0..L, ordered by total degree ascending and lexicographically descending within a degree *)
Theorem orders_cartesian_spec_partial : forall dim L, dim = 2 \/ dim = 3 -> 0 <= L ->
  (exists rows, gen_orders L "cartesian" dim = Ret (A2 rows) /\
     (forall t, In t rows <-> is_exponents dim t /\ zsum t = L) /\ StronglySorted lex_gt rows /\ NoDup rows) /\
  (exists rows, all_orders L "cartesian" dim = Ret (A2 rows) /\
     (forall t, In t rows <-> is_exponents dim t /\ zsum t <= L) /\ StronglySorted deg_lex rows /\ NoDup rows).
Proof. exact orders_cartesian_partial_lemma. Qed.
Print Assumptions orders_cartesian_spec_partial.

(* dimension 1 fails: some order for which the generator does not return [[L]] and Grid.moments has no rows 0..L *)
Theorem orders_cartesian_1d_refuted :
  exists L, 0 <= L /\ gen_orders L "cartesian" 1 <> Ret (A2 [[L]]) /\
            forall a, all_orders L "cartesian" 1 = Ret a -> rows_of a <> map (fun l => [l]) (range_up 0 (L + 1)).
Proof. exact orders_cartesian_1d_refuted_lemma. Qed.
Print Assumptions orders_cartesian_1d_refuted.
