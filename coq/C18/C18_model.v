(* C18 — executable model of grid.ngrid.MultiDomainGrid (src/grid/ngrid.py) and of the parts of
   grid.basegrid.Grid it uses (.points, .weights, .size, .integrate).

   Hand-written, generic in the number type through a record of operations: the theorems
   (C18_proofs.v / C18_props.v) are stated for every commutative semiring (so at R and at Z), the
   correspondence with the implementation is executed at Z by vm_compute.
   No proofs in this file. *)
From Coq Require Import List Arith NArith ZArith Bool Ring_theory.
Import ListNotations.

Record NumOps (T : Type) := MkOps { zero : T; one : T; add : T -> T -> T; mul : T -> T -> T }.
Arguments zero {T} _.
Arguments one {T} _.
Arguments add {T} _ _ _.
Arguments mul {T} _ _ _.

(* the laws assumed of the number type: a commutative semiring (R, Z, Q, ... are instances) *)
Definition semiring {T} (o : NumOps T) : Prop := semi_ring_theory (zero o) (one o) (add o) (mul o) eq.

Definition ZOps : NumOps Z := MkOps Z 0%Z 1%Z Z.add Z.mul.

(* ------------------------------------------------------------------ list helpers *)
Fixpoint map2 {A B C} (f : A -> B -> C) (a : list A) (b : list B) : list C :=
  match a, b with
  | x :: r, y :: s => f x y :: map2 f r s
  | _, _ => []
  end.

(* itertools.product of the iterables ls: the last iterable advances fastest *)
Fixpoint product {A} (ls : list (list A)) : list (list A) :=
  match ls with
  | [] => [[]]
  | l :: r => flat_map (fun x => map (cons x) (product r)) l
  end.

(* the reference implementation in the CPython documentation of itertools.product:
     result = [[]]
     for pool in pools: result = [x+[y] for x in result for y in pool]                      *)
Definition product_py {A} (pools : list (list A)) : list (list A) :=
  fold_left (fun result pool => flat_map (fun x => map (fun y => x ++ [y]) pool) result) pools [[]].

(* row-major (mixed radix, last digit fastest) position of the index tuple `is` for pool sizes `dims` *)
Fixpoint flat_index (dims ixs : list nat) : nat :=
  match dims, ixs with
  | _ :: ds, i :: r => i * fold_right Nat.mul 1 ds + flat_index ds r
  | _, _ => 0
  end.

(* _chunked_iterator(iterator, size):
     while True:
         chunk = list(islice(iterator, size))
         if not chunk: break
         yield chunk
   `fuel` bounds the number of loop iterations; S (length l) is always enough when size >= 1, and
   with size = 0 the loop stops at once (as the Python code does). *)
Fixpoint chunks_aux {A} (fuel c : nat) (l : list A) : list (list A) :=
  match fuel with
  | O => []
  | S k => match firstn c l with
           | [] => []
           | ch => ch :: chunks_aux k c (skipn c l)
           end
  end.
Definition chunks {A} (c : nat) (l : list A) : list (list A) := chunks_aux (S (length l)) c l.

(* l[j] = f(l[j]) (nothing happens when j is out of range) *)
Fixpoint upd {A} (j : nat) (f : A -> A) (l : list A) : list A :=
  match l, j with
  | [], _ => []
  | x :: r, O => f x :: r
  | x :: r, S k => x :: upd k f r
  end.

Section Model.
Context {T : Type} (o : NumOps T).

Definition sum (l : list T) : T := fold_right (add o) (zero o) l.        (* np.sum *)
Definition prodl (l : list T) : T := fold_right (mul o) (one o) l.       (* np.prod *)

(* ------------------------------------------------------------------ basegrid.Grid *)
Definition point := list T.             (* one coordinate for a 1-D grid, three for a 3-D grid *)
Record grid := Grid { gpts : list point; gwts : list T }.
Definition wf_grid (g : grid) : Prop := length (gpts g) = length (gwts g).   (* Grid.__init__ check *)
Definition wf_gridb (g : grid) : bool := length (gpts g) =? length (gwts g).
Definition gsize (g : grid) : nat := length (gwts g).                         (* Grid.size = weights.size *)
(* Grid.integrate(values) = einsum("i,i", weights, values) *)
Definition grid_integrate (g : grid) (vals : list T) : T := sum (map2 (mul o) (gwts g) vals).

(* ------------------------------------------------------------------ ngrid.MultiDomainGrid *)
Record mdgrid := MD { grid_list : list grid; ndom : option nat }.

(* __init__: the argument checks (grid_list is a list of Grid objects is a typing matter here) *)
Definition md_init (gl : list grid) (nd : option Z) : option mdgrid :=
  if length gl =? 0 then None
  else match nd with
       | None => Some (MD gl None)
       | Some k => if negb (length gl =? 1) then None
                   else if (k <? 1)%Z then None
                   else Some (MD gl (Some (Z.to_nat k)))
       end.
Definition md_valid (m : mdgrid) : Prop :=
  grid_list m <> [] /\ forall k, ndom m = Some k -> length (grid_list m) = 1 /\ 1 <= k.

Definition empty_grid := Grid [] [].
Definition g_first (m : mdgrid) : grid := hd empty_grid (grid_list m).       (* grid_list[0]  *)
Definition g_last (m : mdgrid) : grid := last (grid_list m) empty_grid.      (* grid_list[-1] *)

(* num_domains property *)
Definition num_domains (m : mdgrid) : nat :=
  match ndom m with Some k => k | None => length (grid_list m) end.

(* `len(self.grid_list) == 1 and self.num_domains is not None` — the property num_domains is never None *)
Definition single (m : mdgrid) : bool := length (grid_list m) =? 1.

(* size property *)
Definition md_size (m : mdgrid) : N :=
  if single m then N.pow (N.of_nat (gsize (g_first m))) (N.of_nat (num_domains m))
  else fold_right N.mul 1%N (map (fun g => N.of_nat (gsize g)) (grid_list m)).

(* points property (a generator; here the list of its items) *)
Definition md_points (m : mdgrid) : list (list point) :=
  if single m then product (repeat (gpts (g_first m)) (num_domains m))
  else product (map gpts (grid_list m)).

(* weights property *)
Definition md_weights (m : mdgrid) : list T :=
  map prodl (if single m then product (repeat (gwts (g_first m)) (num_domains m))
             else product (map gwts (grid_list m))).

(* integrate(f, non_vectorized=True, integration_chunk_size=c) *)
Definition integrate_nonvec (m : mdgrid) (f : list point -> T) (c : nat) : T :=
  let chunked_weights := chunks c (md_weights m) in
  let values := map f (md_points m) in
  let chunked_values := chunks c values in
  fold_left (fun acc wv => add o acc (sum (map2 (mul o) (snd wv) (fst wv))))
            (combine chunked_weights chunked_values) (zero o).

(* integrate(f) (vectorised).  `fv pre X` is the user's callable applied to the fixed leading
   arguments `pre` and the array X of all points of the last grid; it returns one value per row of X. *)
Definition integrate_vec (m : mdgrid) (fv : list point -> list point -> list T) : T :=
  if num_domains m =? 1 then grid_integrate (g_first m) (fv [] (gpts (g_first m)))
  else
    let pre_weights_combinations :=
      if single m then product (repeat (gwts (g_first m)) (num_domains m - 1))
      else product (map gwts (removelast (grid_list m))) in
    let pre_points_combinations :=
      if single m then product (repeat (gpts (g_first m)) (num_domains m - 1))
      else product (map gpts (removelast (grid_list m))) in
    let pre_weights := map prodl pre_weights_combinations in
    fold_left (fun acc pw =>
                 add o acc (mul o (snd pw) (grid_integrate (g_last m) (fv (fst pw) (gpts (g_last m))))))
              (combine pre_points_combinations pre_weights) (zero o).

(* the callable is a correct vectorisation of the point-wise integrand f *)
Definition vectorises (fv : list point -> list point -> list T) (f : list point -> T) : Prop :=
  forall pre X, fv pre X = map (fun x => f (pre ++ [x])) X.

(* ------------------------------------------------------------------ specification side *)
(* the list of integration domains the object stands for *)
Definition domains (m : mdgrid) : list grid :=
  if single m then repeat (g_first m) (num_domains m) else grid_list m.

(* iterated quadrature: sum_i1 w_i1 ( sum_i2 w_i2 ( ... f(p_i1, p_i2, ...) ) ) *)
Fixpoint nested_sum (gs : list grid) (f : list point -> T) : T :=
  match gs with
  | [] => f []
  | g :: r => sum (map2 (fun p w => mul o w (nested_sum r (fun xs => f (p :: xs)))) (gpts g) (gwts g))
  end.

(* nested sum over all combinations of (product of the weights) * (function value) *)
Fixpoint flat_sum (gs : list grid) (wacc : T) (f : list point -> T) : T :=
  match gs with
  | [] => mul o wacc (f [])
  | g :: r => sum (map2 (fun p w => flat_sum r (mul o wacc w) (fun xs => f (p :: xs))) (gpts g) (gwts g))
  end.

(* separable integrand f1(x1) * f2(x2) * ... *)
Definition separable (fs : list (point -> T)) (xs : list point) : T :=
  prodl (map2 (fun f x => f x) fs xs).
Definition single_integral (g : grid) (f : point -> T) : T := grid_integrate g (map f (gpts g)).

(* ------------------------------------------------------------------ histories on one object
   The MultiDomainGrid keeps references to its component grids and nothing else: every observation reads the
   component grids as they are at the time of the call.  State changes between calls:
     g.weights = w   (Grid.weights setter: same shape required; also the in-place forms g.weights[...] = w, g.weights *= a)
     g.points = p    (Grid.points setter: same shape required)
     md.grid_list[j] = g'                                                                                        *)
Inductive op :=
| SetWeights (j : nat) (w : list T)
| SetPoints (j : nat) (p : list point)
| ReplaceGrid (j : nat) (g : grid).

Definition apply_op (m : mdgrid) (a : op) : mdgrid :=
  match a with
  | SetWeights j w => MD (upd j (fun g => Grid (gpts g) w) (grid_list m)) (ndom m)
  | SetPoints j p => MD (upd j (fun g => Grid p (gwts g)) (grid_list m)) (ndom m)
  | ReplaceGrid j g => MD (upd j (fun _ => g) (grid_list m)) (ndom m)
  end.
Definition run_history (m : mdgrid) (ops : list op) : mdgrid := fold_left apply_op ops m.

(* what the setters / a replacement by a Grid object guarantee *)
Definition op_ok (m : mdgrid) (a : op) : Prop :=
  match a with
  | SetWeights j w => exists g, nth_error (grid_list m) j = Some g /\ length w = length (gwts g)
  | SetPoints j p => exists g, nth_error (grid_list m) j = Some g /\ length p = length (gpts g)
  | ReplaceGrid j g => j < length (grid_list m) /\ wf_grid g
  end.
Fixpoint history_ok (m : mdgrid) (ops : list op) : Prop :=
  match ops with
  | [] => True
  | a :: r => op_ok m a /\ history_ok (apply_op m a) r
  end.

(* ------------------------------------------------------------------ integrands as data *)
(* coefficient * prod_j coordinate(domain d_j, component c_j) ^ e_j *)
Definition monomial := (T * list (nat * nat * nat))%type.
Fixpoint powT (x : T) (e : nat) : T := match e with O => one o | S k => mul o x (powT x k) end.
Definition coord (xs : list point) (d c : nat) : T := nth c (nth d xs []) (zero o).
Definition mono_eval (xs : list point) (m : monomial) : T :=
  mul o (fst m) (prodl (map (fun dce => match dce with (d, c, e) => powT (coord xs d c) e end) (snd m))).
Definition poly_eval (p : list monomial) (xs : list point) : T := sum (map (mono_eval xs) p).
Definition poly_vec (p : list monomial) (pre X : list point) : list T :=
  map (fun x => poly_eval p (pre ++ [x])) X.

End Model.

Arguments Grid {T} _ _.
Arguments MD {T} _ _.
Arguments gpts {T} _.
Arguments gwts {T} _.
Arguments grid_list {T} _.
Arguments ndom {T} _.
Arguments wf_grid {T} _.
Arguments wf_gridb {T} _.
Arguments gsize {T} _.
Arguments md_valid {T} _.
Arguments md_init {T} _ _.
Arguments g_first {T} _.
Arguments g_last {T} _.
Arguments num_domains {T} _.
Arguments single {T} _.
Arguments md_size {T} _.
Arguments md_points {T} _.
Arguments domains {T} _.
Arguments empty_grid {T}.
Arguments SetWeights {T} _ _.
Arguments SetPoints {T} _ _.
Arguments ReplaceGrid {T} _ _.
Arguments apply_op {T} _ _.
Arguments run_history {T} _ _.
Arguments op_ok {T} _ _.
Arguments history_ok {T} _ _.
