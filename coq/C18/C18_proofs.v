(* C18 — proofs about the model in C18_model.v.  Everything is proved for an arbitrary commutative
   semiring (stdlib `semi_ring_theory`), by induction: no bound on the number of domains, the grid
   sizes, the point dimensions or the chunk size. *)
From Coq Require Import List Arith NArith ZArith Bool Lia Ring Ring_theory Reals.
From P Require Import C18_model.
Import ListNotations.

(* ================================================================== lists *)
Section Lists.
Context {A B C : Type}.

Lemma map2_combine (f : A -> B -> C) a b :
  map2 f a b = map (fun xy => f (fst xy) (snd xy)) (combine a b).
Proof. revert b; induction a as [|x a IH]; intros [|y b]; cbn; try reflexivity. now rewrite IH. Qed.

Lemma map2_length (f : A -> B -> C) a b : length a = length b -> length (map2 f a b) = length a.
Proof. revert b; induction a as [|x a IH]; intros [|y b] H; cbn in *; try lia. rewrite IH; lia. Qed.

Lemma map2_firstn (f : A -> B -> C) n a b : map2 f (firstn n a) (firstn n b) = firstn n (map2 f a b).
Proof.
  revert a b; induction n as [|n IH]; intros a b; [reflexivity|].
  destruct a as [|x a], b as [|y b]; cbn; try reflexivity. now rewrite IH.
Qed.

Lemma map2_skipn (f : A -> B -> C) n a b : length a = length b ->
  map2 f (skipn n a) (skipn n b) = skipn n (map2 f a b).
Proof.
  revert a b; induction n as [|n IH]; intros a b H; [reflexivity|].
  destruct a as [|x a], b as [|y b]; cbn in *; try reflexivity; try lia. apply IH; lia.
Qed.

Lemma combine_app (a a' : list A) (b b' : list B) : length a = length b ->
  combine (a ++ a') (b ++ b') = combine a b ++ combine a' b'.
Proof. revert b; induction a as [|x a IH]; intros [|y b] H; cbn in *; try lia; [reflexivity|]. rewrite IH; [reflexivity|lia]. Qed.
End Lists.

Lemma map2_map_l {A A' B C} (f : A' -> B -> C) (g : A -> A') a b :
  map2 f (map g a) b = map2 (fun x y => f (g x) y) a b.
Proof. revert b; induction a as [|x a IH]; intros [|y b]; cbn; try reflexivity. now rewrite IH. Qed.

Lemma map2_map_r {A B B' C} (f : A -> B' -> C) (g : B -> B') a b :
  map2 f a (map g b) = map2 (fun x y => f x (g y)) a b.
Proof. revert b; induction a as [|x a IH]; intros [|y b]; cbn; try reflexivity. now rewrite IH. Qed.

Lemma map2_swap {A B C} (f : A -> B -> C) a b : map2 f a b = map2 (fun y x => f x y) b a.
Proof. revert b; induction a as [|x a IH]; intros [|y b]; cbn; try reflexivity. now rewrite IH. Qed.

Lemma map2_ext {A B C} (f g : A -> B -> C) a b : (forall x y, f x y = g x y) -> map2 f a b = map2 g a b.
Proof. intros E. revert b; induction a as [|x a IH]; intros [|y b]; cbn; try reflexivity. now rewrite IH, E. Qed.

Lemma combine_flat_map {X Y U V} (F : X -> list U) (G : Y -> list V) l1 l2 :
  (forall x y, length (F x) = length (G y)) ->
  combine (flat_map F l1) (flat_map G l2) =
  flat_map (fun xy => combine (F (fst xy)) (G (snd xy))) (combine l1 l2).
Proof.
  intros HL. revert l2; induction l1 as [|x l1 IH]; intros [|y l2]; cbn; try reflexivity.
  - now destruct (F x ++ flat_map F l1).
  - rewrite combine_app by apply HL. now rewrite IH.
Qed.

Lemma repeat_map {A B} (f : A -> B) x n : map f (repeat x n) = repeat (f x) n.
Proof. induction n; cbn; congruence. Qed.

Lemma repeat_snoc {A} (x : A) n : repeat x (S n) = repeat x n ++ [x].
Proof. induction n; cbn in *; congruence. Qed.

Lemma removelast_repeat {A} (x : A) n : removelast (repeat x (S n)) = repeat x n.
Proof. rewrite repeat_snoc. apply removelast_last. Qed.

Lemma last_repeat {A} (x d : A) n : last (repeat x (S n)) d = x.
Proof. rewrite repeat_snoc. apply last_last. Qed.

Lemma flat_map_nth_block {X Y} (F : X -> list Y) (n : nat) l i j dx d :
  (forall x, length (F x) = n) -> i < length l -> j < n ->
  nth (i * n + j) (flat_map F l) d = nth j (F (nth i l dx)) d.
Proof.
  intros HF. revert i; induction l as [|x l IH]; intros i Hi Hj; cbn in Hi; [lia|].
  cbn [flat_map]. destruct i as [|i].
  - cbn [Nat.mul Nat.add nth]. apply app_nth1. rewrite HF. exact Hj.
  - rewrite app_nth2 by (rewrite HF; cbn; lia). rewrite HF.
    replace (S i * n + j - n) with (i * n + j) by (cbn; lia). cbn [nth]. apply IH; [lia|exact Hj].
Qed.

(* ================================================================== itertools.product *)
Section Product.
Context {A : Type}.

Lemma product_length (ls : list (list A)) :
  length (product ls) = fold_right Nat.mul 1 (map (@length A) ls).
Proof.
  induction ls as [|l r IH]; [reflexivity|]. cbn [product map fold_right]. rewrite <- IH.
  induction l as [|x l IHl]; [reflexivity|]. cbn. rewrite app_length, map_length, IHl. reflexivity.
Qed.

Lemma In_product (ls : list (list A)) xs : In xs (product ls) <-> Forall2 (@In A) xs ls.
Proof.
  revert xs; induction ls as [|l r IH]; intros xs; cbn.
  - split; [intros [<-|[]]; constructor | intros H; inversion H; now left].
  - rewrite in_flat_map. split.
    + intros (x & Hx & Hin). apply in_map_iff in Hin as (t & <- & Ht). constructor; [assumption|now apply IH].
    + intros H. inversion H as [|x t ? ? Hx Ht]; subst. exists x. split; [assumption|].
      apply in_map. now apply IH.
Qed.

(* the documented reference implementation enumerates in the same order *)
Lemma product_py_acc (pools acc : list (list A)) :
  fold_left (fun result pool => flat_map (fun x => map (fun y => x ++ [y]) pool) result) pools acc =
  flat_map (fun x => map (app x) (product pools)) acc.
Proof.
  revert acc; induction pools as [|l r IH]; intros acc; cbn [fold_left product].
  - induction acc as [|x acc IHa]; [reflexivity|]. cbn [flat_map map]. rewrite app_nil_r. cbn [app]. f_equal. exact IHa.
  - rewrite IH. induction acc as [|x acc IHa]; [reflexivity|]. cbn [flat_map].
    rewrite flat_map_app, IHa. f_equal.
    clear. induction l as [|y l IHl]; [reflexivity|]. cbn [map flat_map].
    rewrite map_app, <- IHl. f_equal. rewrite map_map. apply map_ext. intros t. now rewrite <- app_assoc.
Qed.

Lemma product_py_eq_lemma (pools : list (list A)) : product_py pools = product pools.
Proof.
  unfold product_py. rewrite product_py_acc. cbn [flat_map]. rewrite app_nil_r.
  transitivity (map (fun t : list A => t) (product pools)); [apply map_ext; reflexivity|apply map_id].
Qed.

Lemma flat_index_lt (ls : list (list A)) ixs :
  Forall2 (fun i l => i < length l) ixs ls ->
  flat_index (map (@length A) ls) ixs < fold_right Nat.mul 1 (map (@length A) ls).
Proof.
  induction 1 as [|i l ixs ls Hi _ IH]; cbn; [lia|].
  set (P := fold_right Nat.mul 1 (map (@length A) ls)) in *.
  set (j := flat_index (map (@length A) ls) ixs) in *. nia.
Qed.

Lemma product_nth_lemma (ls : list (list A)) ixs (d : A) (dd : list A) :
  Forall2 (fun i l => i < length l) ixs ls ->
  nth (flat_index (map (@length A) ls) ixs) (product ls) dd = map2 (fun i l => nth i l d) ixs ls.
Proof.
  induction 1 as [|i l ixs ls Hi Hr IH]; [reflexivity|].
  cbn [map flat_index product map2].
  rewrite (flat_map_nth_block _ (fold_right Nat.mul 1 (map (@length A) ls)) l i _ d dd).
  - pose proof (flat_index_lt _ _ Hr) as Hlt. rewrite <- product_length in Hlt.
    rewrite (nth_indep _ dd (nth i l d :: dd)) by now rewrite map_length.
    rewrite (map_nth (cons (nth i l d))). now rewrite IH.
  - intros x. now rewrite map_length, product_length.
  - exact Hi.
  - now apply flat_index_lt.
Qed.
End Product.

(* ================================================================== chunked iterator *)
Section Chunks.
Context {A : Type}.

Lemma firstn_nonnil c (x : A) l : 1 <= c -> firstn c (x :: l) = x :: firstn (c - 1) l.
Proof. destruct c; [lia|]. cbn. now rewrite Nat.sub_0_r. Qed.

Lemma chunks_aux_fuel c : 1 <= c -> forall n m (l : list A), length l < n -> length l < m ->
  chunks_aux n c l = chunks_aux m c l.
Proof.
  intros Hc. induction n as [|n IH]; intros m l Hn Hm; [lia|]. destruct m as [|m]; [lia|].
  cbn [chunks_aux]. destruct l as [|x l]; [now destruct c|].
  rewrite firstn_nonnil by exact Hc. f_equal.
  apply IH; rewrite skipn_length; cbn [length] in *; lia.
Qed.

Lemma chunks_aux_S n c (l : list A) :
  chunks_aux (S n) c l = match firstn c l with [] => [] | ch => ch :: chunks_aux n c (skipn c l) end.
Proof. reflexivity. Qed.

Lemma chunks_unfold_lemma c (l : list A) : 1 <= c ->
  chunks c l = match l with [] => [] | _ => firstn c l :: chunks c (skipn c l) end.
Proof.
  intros Hc. destruct l as [|x l]; [now destruct c|]. unfold chunks.
  etransitivity; [apply chunks_aux_S|]. rewrite firstn_nonnil by exact Hc. f_equal.
  apply chunks_aux_fuel; [exact Hc| |lia]. rewrite skipn_length. cbn [length]. lia.
Qed.

Lemma chunks_ind (c : nat) (P : list A -> Prop) : 1 <= c ->
  P [] -> (forall l, l <> [] -> P (skipn c l) -> P l) -> forall l, P l.
Proof.
  intros Hc H0 Hs l. remember (length l) as n eqn:E. revert l E.
  induction n as [n IH] using lt_wf_ind. intros l E. destruct l as [|x l]; [exact H0|].
  apply Hs; [discriminate|]. apply (IH (length (skipn c (x :: l)))); [|reflexivity].
  rewrite skipn_length. subst n. cbn [length]. lia.
Qed.

Lemma chunks_concat_lemma c (l : list A) : 1 <= c -> concat (chunks c l) = l.
Proof.
  intros Hc. revert l. apply (chunks_ind c); [exact Hc|now rewrite chunks_unfold_lemma|intros l Hne IH].
  rewrite chunks_unfold_lemma by exact Hc. destruct l as [|x l]; [congruence|].
  cbn [concat]. rewrite IH. apply firstn_skipn.
Qed.

(* every chunk is non-empty and at most c long; every chunk except the last is exactly c long *)
Lemma chunks_shape_lemma c (l : list A) : 1 <= c ->
  Forall (fun ch => 1 <= length ch <= c) (chunks c l) /\
  forall i, S i < length (chunks c l) -> length (nth i (chunks c l) []) = c.
Proof.
  intros Hc. revert l. apply (chunks_ind c); [exact Hc| |intros l Hne IH].
  - rewrite chunks_unfold_lemma by exact Hc. split; [constructor|cbn; lia].
  - rewrite chunks_unfold_lemma by exact Hc. destruct l as [|x l]; [congruence|]. destruct IH as [IH1 IH2].
    split.
    + constructor; [|exact IH1]. rewrite firstn_length. cbn [length]. lia.
    + intros [|i] Hi; cbn [nth length] in *.
      * rewrite firstn_length. apply Nat.min_l.
        destruct (chunks c (skipn c (x :: l))) as [|ch rest] eqn:E; [cbn in Hi; lia|].
        rewrite chunks_unfold_lemma in E by exact Hc.
        destruct (skipn c (x :: l)) as [|y s] eqn:Es; [discriminate|].
        assert (length (skipn c (x :: l)) >= 1) by (rewrite Es; cbn; lia).
        rewrite skipn_length in H. lia.
      * apply IH2. lia.
Qed.

Lemma chunks_count_lemma c (l : list A) : 1 <= c -> length (chunks c l) = (length l + c - 1) / c.
Proof.
  intros Hc. revert l. apply (chunks_ind c); [exact Hc| |intros l Hne IH].
  - rewrite chunks_unfold_lemma by exact Hc. cbn [length]. symmetry. apply Nat.div_small. lia.
  - rewrite chunks_unfold_lemma by exact Hc. destruct l as [|x l]; [congruence|].
    cbn [length]. rewrite IH, skipn_length. cbn [length].
    destruct (le_lt_dec (S (length l)) c) as [Hle|Hgt].
    + replace (S (length l) - c) with 0 by lia. rewrite (Nat.div_small (0 + c - 1)) by lia.
      apply (Nat.div_unique _ c 1 (S (length l) - 1)); lia.
    + replace (S (length l) + c - 1) with ((S (length l) - c + c - 1) + 1 * c) by lia.
      rewrite Nat.div_add by lia. lia.
Qed.

Lemma chunks_zero_lemma (l : list A) : chunks 0 l = [].
Proof. reflexivity. Qed.
End Chunks.

Lemma map_flat_map {A B C} (f : B -> C) (g : A -> list B) l :
  map f (flat_map g l) = flat_map (fun x => map f (g x)) l.
Proof. induction l as [|x l IH]; [reflexivity|]. cbn. now rewrite map_app, IH. Qed.

Lemma combine_map {A A' B B'} (f : A -> A') (g : B -> B') a b :
  combine (map f a) (map g b) = map (fun xy => (f (fst xy), g (snd xy))) (combine a b).
Proof. revert b; induction a as [|x a IH]; intros [|y b]; cbn; try reflexivity. now rewrite IH. Qed.

Lemma Forall_repeat {A} (P : A -> Prop) x n : P x -> Forall P (repeat x n).
Proof. intros H. induction n; cbn; constructor; assumption. Qed.

(* ================================================================== sums over a commutative semiring *)
Section Algebra.
Context {T : Type} (o : NumOps T).
Variable srt : semi_ring_theory (zero o) (one o) (add o) (mul o) eq.
Add Ring Tring : srt.

Local Notation "x ⊕ y" := (add o x y) (at level 50, left associativity).
Local Notation "x ⊗ y" := (mul o x y) (at level 40, left associativity).
Local Notation sum := (sum o).
Local Notation prodl := (prodl o).
Local Notation nested_sum := (nested_sum o).
Local Notation flat_sum := (flat_sum o).
Local Notation grid := (grid (T := T)).
Local Notation point := (point (T := T)).

Lemma sum_nil : sum [] = zero o. Proof. reflexivity. Qed.
Lemma sum_cons x l : sum (x :: l) = x ⊕ sum l. Proof. reflexivity. Qed.
Lemma prodl_cons x l : prodl (x :: l) = x ⊗ prodl l. Proof. reflexivity. Qed.

Lemma sum_app a b : sum (a ++ b) = sum a ⊕ sum b.
Proof. induction a as [|x a IH]; cbn [app]; rewrite ?sum_nil, ?sum_cons; [ring|rewrite IH; ring]. Qed.

Lemma sum_map_ext {A} (f g : A -> T) l : (forall x, f x = g x) -> sum (map f l) = sum (map g l).
Proof. intros E. f_equal. apply map_ext. exact E. Qed.

Lemma sum_scal {A} (c : T) (g : A -> T) l : sum (map (fun x => c ⊗ g x) l) = c ⊗ sum (map g l).
Proof. induction l as [|x l IH]; cbn [map]; rewrite ?sum_nil, ?sum_cons; [ring|rewrite IH; ring]. Qed.

Lemma sum_scal_r {A} (c : T) (g : A -> T) l : sum (map (fun x => g x ⊗ c) l) = sum (map g l) ⊗ c.
Proof. induction l as [|x l IH]; cbn [map]; rewrite ?sum_nil, ?sum_cons; [ring|rewrite IH; ring]. Qed.

Lemma sum_flat_map {A} (F : A -> list T) l : sum (flat_map F l) = sum (map (fun x => sum (F x)) l).
Proof. induction l as [|x l IH]; [reflexivity|]. cbn [flat_map map]. now rewrite sum_app, sum_cons, IH. Qed.

Lemma fold_left_sum {A} (g : A -> T) l a : fold_left (fun acc x => acc ⊕ g x) l a = a ⊕ sum (map g l).
Proof.
  revert a; induction l as [|x l IH]; intros a; cbn [fold_left map]; rewrite ?sum_nil, ?sum_cons; [ring|].
  rewrite IH. ring.
Qed.

(* ------------------------------------------------------------------ weighted product enumeration *)
Fixpoint wproduct (gs : list grid) : list (list point * T) :=
  match gs with
  | [] => [([], one o)]
  | g :: r => flat_map (fun pw => map (fun qv => (fst pw :: fst qv, snd pw ⊗ snd qv)) (wproduct r))
                       (combine (gpts g) (gwts g))
  end.

Lemma wf_lengths (gs : list grid) : Forall wf_grid gs ->
  map (@length _) (map gpts gs) = map (@length _) (map gwts gs).
Proof. induction 1 as [|g r Hg _ IH]; [reflexivity|]. cbn [map]. now rewrite IH, Hg. Qed.

Lemma combine_product (gs : list grid) : Forall wf_grid gs ->
  combine (product (map gpts gs)) (map prodl (product (map gwts gs))) = wproduct gs.
Proof.
  induction 1 as [|g r Hg Hr IH]; [reflexivity|]. cbn [map product wproduct].
  rewrite map_flat_map, combine_flat_map.
  2:{ intros x y. rewrite !map_length, !product_length. f_equal. now apply wf_lengths. }
  apply flat_map_ext. intros [p w]. cbn [fst snd]. rewrite map_map.
  rewrite (map_ext (fun t => prodl (w :: t)) (fun t => w ⊗ prodl t)) by reflexivity.
  rewrite <- (map_map prodl (fun v => w ⊗ v)), combine_map, IH. reflexivity.
Qed.

Lemma wproduct_nested (gs : list grid) : forall h,
  sum (map (fun pw => snd pw ⊗ h (fst pw)) (wproduct gs)) = nested_sum gs h.
Proof.
  induction gs as [|g r IH]; intros h.
  - cbn [wproduct map fst snd nested_sum]. rewrite sum_cons, sum_nil. ring.
  - cbn [wproduct nested_sum]. rewrite map_flat_map, sum_flat_map, map2_combine.
    apply sum_map_ext. intros [p w]. cbn [fst snd]. rewrite map_map. cbn [fst snd].
    rewrite <- (IH (fun xs => h (p :: xs))), <- sum_scal. apply sum_map_ext. intros qv. ring.
Qed.

Lemma nested_sum_ext (gs : list grid) : forall f g, (forall xs, f xs = g xs) -> nested_sum gs f = nested_sum gs g.
Proof.
  induction gs as [|g0 r IH]; intros f g E; cbn [C18_model.nested_sum]; [apply E|].
  f_equal. apply map2_ext. intros p w. f_equal. apply IH. intros xs. apply E.
Qed.

Lemma nested_sum_scal (gs : list grid) : forall a f, nested_sum gs (fun xs => a ⊗ f xs) = a ⊗ nested_sum gs f.
Proof.
  induction gs as [|g r IH]; intros a f; cbn [C18_model.nested_sum]; [reflexivity|].
  rewrite !map2_combine, <- sum_scal. apply sum_map_ext. intros [p w]. cbn [fst snd].
  rewrite (IH a (fun xs => f (p :: xs))). ring.
Qed.

Lemma nested_sum_app (a b : list grid) : forall f,
  nested_sum (a ++ b) f = nested_sum a (fun xs => nested_sum b (fun ys => f (xs ++ ys))).
Proof.
  induction a as [|g r IH]; intros f; [reflexivity|]. cbn [app C18_model.nested_sum].
  f_equal. apply map2_ext. intros p w. f_equal. apply (IH (fun xs => f (p :: xs))).
Qed.

Lemma flat_sum_nested (gs : list grid) : forall a f, flat_sum gs a f = a ⊗ nested_sum gs f.
Proof.
  induction gs as [|g r IH]; intros a f; cbn [C18_model.flat_sum C18_model.nested_sum]; [reflexivity|].
  rewrite !map2_combine, <- sum_scal. apply sum_map_ext. intros [p w]. cbn [fst snd].
  rewrite IH. ring.
Qed.

(* sum over the enumerated points and weights in lock-step = iterated quadrature *)
Lemma enumerated_nested (gs : list grid) f : Forall wf_grid gs ->
  sum (map2 (fun p w => f p ⊗ w) (product (map gpts gs)) (map prodl (product (map gwts gs)))) = nested_sum gs f.
Proof.
  intros Hwf. rewrite map2_combine, combine_product by exact Hwf. rewrite <- wproduct_nested.
  apply sum_map_ext. intros pw. ring.
Qed.

(* ------------------------------------------------------------------ the object and its domains *)
Lemma md_points_domains (m : @mdgrid T) : md_points m = product (map gpts (domains m)).
Proof. unfold md_points, domains. destruct (single m); [now rewrite repeat_map|reflexivity]. Qed.

Lemma md_weights_domains (m : @mdgrid T) : md_weights o m = map prodl (product (map gwts (domains m))).
Proof. unfold md_weights, domains. destruct (single m); [now rewrite repeat_map|reflexivity]. Qed.

Lemma wf_domains (m : @mdgrid T) : Forall wf_grid (grid_list m) -> Forall wf_grid (domains m).
Proof.
  intros H. unfold domains, single, g_first. destruct (grid_list m) as [|g [|g' r]]; cbn; try exact H.
  apply Forall_repeat. now inversion H.
Qed.

Lemma md_lengths (m : @mdgrid T) : Forall wf_grid (grid_list m) -> length (md_points m) = length (md_weights o m).
Proof.
  intros H. rewrite md_points_domains, md_weights_domains, map_length, !product_length.
  f_equal. apply wf_lengths. now apply wf_domains.
Qed.

Lemma md_size_domains (m : @mdgrid T) :
  md_size m = fold_right N.mul 1%N (map (fun g => N.of_nat (gsize g)) (domains m)).
Proof.
  unfold md_size, domains. destruct (single m); [|reflexivity].
  induction (num_domains m) as [|k IH]; [reflexivity|].
  rewrite Nat2N.inj_succ, N.pow_succ_r'. cbn [repeat map fold_right]. now rewrite IH.
Qed.

Lemma size_spec_lemma (m : @mdgrid T) : Forall wf_grid (grid_list m) ->
  md_size m = N.of_nat (length (md_points m)) /\ md_size m = N.of_nat (length (md_weights o m)) /\
  md_size m = fold_right N.mul 1%N (map (fun g => N.of_nat (gsize g)) (domains m)).
Proof.
  intros H. rewrite md_lengths by exact H. rewrite md_size_domains, md_weights_domains, map_length, product_length.
  repeat split. all: induction (domains m) as [|g r IH]; [reflexivity|]; cbn [map fold_right]; rewrite IH;
    unfold gsize; now rewrite Nat2N.inj_mul.
Qed.

(* ------------------------------------------------------------------ non-vectorised route *)
Lemma chunk_dot c : 1 <= c -> forall (W V : list T) acc, length W = length V ->
  fold_left (fun acc wv => acc ⊕ sum (map2 (mul o) (snd wv) (fst wv))) (combine (chunks c W) (chunks c V)) acc
  = acc ⊕ sum (map2 (mul o) V W).
Proof.
  intros Hc W. pattern W. revert W. apply (chunks_ind c); [exact Hc| |].
  - intros [|v V] acc E; [|discriminate]. rewrite chunks_unfold_lemma by exact Hc.
    cbn [combine fold_left map2]. rewrite sum_nil. ring.
  - intros W Hne IH V acc E. rewrite (chunks_unfold_lemma c W), (chunks_unfold_lemma c V) by exact Hc.
    destruct W as [|w W]; [congruence|]. destruct V as [|v V]; [discriminate|].
    cbn [combine fold_left fst snd]. rewrite IH by (rewrite !skipn_length; congruence).
    rewrite map2_firstn, map2_skipn by congruence.
    set (L := map2 (mul o) (v :: V) (w :: W)).
    assert (EL : sum L = sum (firstn c L) ⊕ sum (skipn c L)) by (now rewrite <- sum_app, firstn_skipn).
    rewrite EL. ring.
Qed.

Lemma nonvec_flat_lemma (m : @mdgrid T) f c : 1 <= c -> Forall wf_grid (grid_list m) ->
  integrate_nonvec o m f c = sum (map2 (fun p w => f p ⊗ w) (md_points m) (md_weights o m)).
Proof.
  intros Hc H. unfold integrate_nonvec. rewrite chunk_dot; [|exact Hc|now rewrite map_length, md_lengths].
  rewrite map2_map_l. ring.
Qed.

Lemma nonvec_nested_lemma (m : @mdgrid T) f c : 1 <= c -> Forall wf_grid (grid_list m) ->
  integrate_nonvec o m f c = nested_sum (domains m) f.
Proof.
  intros Hc H. rewrite nonvec_flat_lemma by assumption. rewrite md_points_domains, md_weights_domains.
  apply enumerated_nested. now apply wf_domains.
Qed.

Lemma nonvec_chunk_independent_lemma (m : @mdgrid T) f c c' : 1 <= c -> 1 <= c' -> Forall wf_grid (grid_list m) ->
  integrate_nonvec o m f c = integrate_nonvec o m f c'.
Proof. intros. now rewrite !nonvec_flat_lemma. Qed.

Lemma nonvec_chunk_zero (m : @mdgrid T) f : integrate_nonvec o m f 0 = zero o.
Proof. reflexivity. Qed.

(* ------------------------------------------------------------------ vectorised route *)
Lemma single_nested (g : grid) (h : list point -> T) :
  grid_integrate o g (map (fun x => h [x]) (gpts g)) = nested_sum [g] h.
Proof.
  unfold grid_integrate. cbn [C18_model.nested_sum]. rewrite map2_map_r, map2_swap. reflexivity.
Qed.

Lemma vec_core (pre : list grid) (g : grid) fv f : vectorises fv f -> Forall wf_grid pre ->
  fold_left (fun acc pw => acc ⊕ snd pw ⊗ grid_integrate o g (fv (fst pw) (gpts g)))
            (combine (product (map gpts pre)) (map prodl (product (map gwts pre)))) (zero o)
  = nested_sum (pre ++ [g]) f.
Proof.
  intros Hv Hwf. rewrite fold_left_sum, combine_product by exact Hwf.
  rewrite nested_sum_app, <- wproduct_nested.
  transitivity (sum (map (fun pw => snd pw ⊗ nested_sum [g] (fun ys => f (fst pw ++ ys))) (wproduct pre))); [|reflexivity].
  rewrite (sum_map_ext _ (fun pw => snd pw ⊗ nested_sum [g] (fun ys => f (fst pw ++ ys)))); [ring|].
  intros pw. rewrite Hv. now rewrite (single_nested g (fun ys => f (fst pw ++ ys))).
Qed.

Lemma domains_valid_split (m : @mdgrid T) : md_valid m -> num_domains m <> 1 ->
  domains m = (if single m then repeat (g_first m) (num_domains m - 1) else removelast (grid_list m)) ++ [g_last m].
Proof.
  intros [Hne Hnd] H1. unfold domains, single, g_first, g_last, num_domains in *.
  destruct (grid_list m) as [|g [|g' r]] eqn:E; [congruence| |].
  - cbn [length Nat.eqb hd last]. destruct (ndom m) as [k|] eqn:Ek.
    + destruct (Hnd k eq_refl) as [_ Hk]. destruct k as [|k]; [lia|].
      rewrite repeat_snoc. now replace (S k - 1) with k by lia.
    + cbn in H1. congruence.
  - cbn [length Nat.eqb]. rewrite <- E. apply app_removelast_last. congruence.
Qed.

Lemma domains_valid_one (m : @mdgrid T) : md_valid m -> num_domains m = 1 -> domains m = [g_first m].
Proof.
  intros [Hne Hnd] H1. unfold domains, single, g_first, num_domains in *.
  destruct (grid_list m) as [|g [|g' r]] eqn:E; [congruence| |].
  - cbn [length Nat.eqb hd] in *. now rewrite H1.
  - destruct (ndom m) as [k|] eqn:Ek; [|cbn in H1; lia].
    destruct (Hnd k eq_refl) as [Hl _]. cbn in Hl. lia.
Qed.

Lemma vec_nested_lemma (m : @mdgrid T) fv f : vectorises fv f -> md_valid m -> Forall wf_grid (grid_list m) ->
  integrate_vec o m fv = nested_sum (domains m) f.
Proof.
  intros Hv Hval Hwf. unfold integrate_vec. destruct (num_domains m =? 1) eqn:E1.
  - apply Nat.eqb_eq in E1. rewrite (domains_valid_one m Hval E1), Hv.
    exact (single_nested (g_first m) f).
  - apply Nat.eqb_neq in E1. rewrite (domains_valid_split m Hval E1).
    pose proof (wf_domains m Hwf) as Hd. rewrite (domains_valid_split m Hval E1) in Hd.
    apply Forall_app in Hd as [Hpre _].
    destruct (single m).
    + rewrite <- (repeat_map gpts), <- (repeat_map gwts). now apply vec_core.
    + now apply vec_core.
Qed.

Lemma nonvec_vec_lemma (m : @mdgrid T) fv f c : vectorises fv f -> md_valid m -> Forall wf_grid (grid_list m) ->
  1 <= c -> integrate_nonvec o m f c = integrate_vec o m fv.
Proof. intros Hv Hval Hwf Hc. now rewrite (vec_nested_lemma m fv f), nonvec_nested_lemma. Qed.

(* ------------------------------------------------------------------ separable integrands *)
Lemma separable_nested (gs : list grid) : forall fs, length fs = length gs ->
  nested_sum gs (separable o fs) = prodl (map2 (single_integral o) gs fs).
Proof.
  induction gs as [|g r IH]; intros [|f1 fs] E; try discriminate; [reflexivity|].
  cbn [C18_model.nested_sum map2]. rewrite prodl_cons, <- IH by (cbn in E; lia).
  unfold single_integral, grid_integrate. rewrite map2_map_r, (map2_swap _ (gwts g)).
  rewrite !map2_combine, <- sum_scal_r. apply sum_map_ext. intros [p w]. cbn [fst snd].
  rewrite (nested_sum_ext r _ (fun xs => f1 p ⊗ separable o fs xs)) by reflexivity.
  rewrite nested_sum_scal. ring.
Qed.

(* ------------------------------------------------------------------ order *)
Lemma order_spec_lemma (m : @mdgrid T) ixs : Forall wf_grid (grid_list m) ->
  Forall2 (fun i g => i < gsize g) ixs (domains m) ->
  let idx := flat_index (map gsize (domains m)) ixs in
  idx < length (md_points m) /\
  nth idx (md_points m) [] = map2 (fun i g => nth i (gpts g) []) ixs (domains m) /\
  nth idx (md_weights o m) (zero o) = prodl (map2 (fun i g => nth i (gwts g) (zero o)) ixs (domains m)).
Proof.
  intros Hwf HF idx. pose proof (wf_domains m Hwf) as Hd.
  assert (EW : map gsize (domains m) = map (@length _) (map gwts (domains m))) by (now rewrite map_map).
  assert (EP : map gsize (domains m) = map (@length _) (map gpts (domains m))) by (now rewrite wf_lengths, map_map).
  assert (FW : Forall2 (fun i (l : list T) => i < length l) ixs (map gwts (domains m))).
  { clear -HF. induction HF; cbn; constructor; assumption. }
  assert (FP : Forall2 (fun i (l : list point) => i < length l) ixs (map gpts (domains m))).
  { clear -HF Hd. induction HF as [|i g ixs gs Hi _ IH]; cbn; constructor.
    - inversion Hd; subst. unfold gsize in Hi. congruence.
    - apply IH. now inversion Hd. }
  assert (Hlt : idx < length (md_points m)).
  { rewrite md_points_domains, product_length. unfold idx. rewrite EP. now apply flat_index_lt. }
  split; [exact Hlt|]. split.
  - rewrite md_points_domains. unfold idx. rewrite EP, (product_nth_lemma (map gpts (domains m)) ixs ([] : point) [] FP).
    clear. revert ixs. induction (domains m) as [|g r IH]; intros [|i ixs]; cbn; try reflexivity. now rewrite IH.
  - rewrite md_weights_domains.
    rewrite (nth_indep _ (zero o) (prodl [])) by (rewrite <- md_weights_domains, <- md_lengths by exact Hwf; exact Hlt).
    rewrite map_nth. unfold idx. rewrite EW, (product_nth_lemma (map gwts (domains m)) ixs (zero o) [] FW). f_equal.
    clear. revert ixs. induction (domains m) as [|g r IH]; intros [|i ixs]; cbn; try reflexivity. now rewrite IH.
Qed.

(* ------------------------------------------------------------------ repeated-grid mode *)
Lemma repeat_domains (g : grid) k : 1 <= k ->
  domains (MD [g] (Some k)) = repeat g k /\ domains (MD (repeat g k) None) = repeat g k.
Proof.
  intros Hk. split; [reflexivity|]. unfold domains, single, num_domains, g_first. cbn [grid_list ndom].
  rewrite repeat_length. destruct k as [|[|k]]; [lia|reflexivity|reflexivity].
Qed.

Lemma repeat_is_copies_lemma (g : grid) k : 1 <= k ->
  let m := MD [g] (Some k) in let m' := MD (repeat g k) None in
  num_domains m = num_domains m' /\ md_points m = md_points m' /\ md_weights o m = md_weights o m' /\
  md_size m = md_size m' /\
  (forall f c, integrate_nonvec o m f c = integrate_nonvec o m' f c) /\
  (forall fv, integrate_vec o m fv = integrate_vec o m' fv).
Proof.
  intros Hk m m'. destruct (repeat_domains g k Hk) as [D1 D2]. fold m in D1. fold m' in D2.
  assert (EP : md_points m = md_points m') by (now rewrite !md_points_domains, D1, D2).
  assert (EW : md_weights o m = md_weights o m') by (now rewrite !md_weights_domains, D1, D2).
  repeat split.
  - unfold num_domains. cbn. now rewrite repeat_length.
  - exact EP.
  - exact EW.
  - now rewrite !md_size_domains, D1, D2.
  - intros f c. unfold integrate_nonvec. now rewrite EP, EW.
  - intros fv. unfold integrate_vec, m, m', num_domains, single, g_first, g_last. cbn [grid_list ndom].
    rewrite repeat_length. destruct k as [|[|k]]; [lia|reflexivity|].
    cbn [length Nat.eqb hd last]. rewrite removelast_repeat, last_repeat.
    replace (S (S k) - 1) with (S k) by lia. rewrite !repeat_map. reflexivity.
Qed.

(* ------------------------------------------------------------------ corollaries at the object level *)
Lemma flat_sum_one (gs : list grid) f : flat_sum gs (one o) f = nested_sum gs f.
Proof. rewrite flat_sum_nested. ring. Qed.

Lemma domains_length (m : @mdgrid T) : md_valid m -> length (domains m) = num_domains m.
Proof.
  intros [Hne Hnd]. unfold domains, single, num_domains. destruct (length (grid_list m) =? 1) eqn:E.
  - apply repeat_length.
  - destruct (ndom m) as [k|]; [|reflexivity]. destruct (Hnd k eq_refl) as [Hl _].
    apply Nat.eqb_neq in E. congruence.
Qed.

Lemma separable_md_lemma (m : @mdgrid T) fs fv c : md_valid m -> Forall wf_grid (grid_list m) ->
  length fs = num_domains m -> vectorises fv (separable o fs) -> 1 <= c ->
  integrate_vec o m fv = prodl (map2 (single_integral o) (domains m) fs) /\
  integrate_nonvec o m (separable o fs) c = prodl (map2 (single_integral o) (domains m) fs).
Proof.
  intros Hval Hwf Hl Hv Hc. rewrite (vec_nested_lemma m fv _ Hv Hval Hwf), nonvec_nested_lemma by assumption.
  rewrite separable_nested by (now rewrite domains_length). split; reflexivity.
Qed.

End Algebra.

(* ================================================================== histories on one object *)
Lemma upd_length {A} j (f : A -> A) l : length (upd j f l) = length l.
Proof. revert j; induction l as [|x l IH]; intros [|j]; cbn; try reflexivity. now rewrite IH. Qed.

Lemma Forall_upd {A} (P : A -> Prop) j f (l : list A) :
  Forall P l -> (forall x, nth_error l j = Some x -> P (f x)) -> Forall P (upd j f l).
Proof.
  revert j; induction l as [|x l IH]; intros [|j] H Hf; cbn; try exact H; inversion H; subst; constructor; auto.
Qed.

Section History.
Context {T : Type}.

Lemma wf_nth (gl : list (@grid T)) j g : Forall wf_grid gl -> nth_error gl j = Some g -> wf_grid g.
Proof. intros H E. rewrite Forall_forall in H. apply H. eapply nth_error_In. exact E. Qed.

Lemma apply_op_wf (m : @mdgrid T) a : Forall wf_grid (grid_list m) -> op_ok m a ->
  Forall wf_grid (grid_list (apply_op m a)).
Proof.
  intros H Hok. destruct a as [j w|j p|j g]; cbn [apply_op grid_list].
  - destruct Hok as (g & Hg & Hl). apply Forall_upd; [exact H|]. intros x Hx. rewrite Hg in Hx. inversion Hx; subst x.
    pose proof (wf_nth _ _ _ H Hg) as Hw. unfold wf_grid in *. cbn. congruence.
  - destruct Hok as (g & Hg & Hl). apply Forall_upd; [exact H|]. intros x Hx. rewrite Hg in Hx. inversion Hx; subst x.
    pose proof (wf_nth _ _ _ H Hg) as Hw. unfold wf_grid in *. cbn. congruence.
  - destruct Hok as [_ Hg]. apply Forall_upd; [exact H|]. intros x _. exact Hg.
Qed.

Lemma apply_op_valid (m : @mdgrid T) a : md_valid m -> md_valid (apply_op m a).
Proof.
  intros [Hne Hnd].
  assert (G : forall j (f : @grid T -> @grid T), upd j f (grid_list m) <> []).
  { intros j f E. apply (f_equal (@length _)) in E. rewrite upd_length in E. destruct (grid_list m); [congruence|discriminate]. }
  destruct a as [j w|j p|j g]; (split; cbn [apply_op grid_list ndom]; [apply G|intros k Hk; rewrite upd_length; now apply Hnd]).
Qed.

Lemma run_preserves ops : forall (m : @mdgrid T), Forall wf_grid (grid_list m) -> md_valid m -> history_ok m ops ->
  Forall wf_grid (grid_list (run_history m ops)) /\ md_valid (run_history m ops).
Proof.
  induction ops as [|a r IH]; intros m Hwf Hval Hok; [now split|].
  destruct Hok as [Ha Hr]. cbn [run_history fold_left]. apply IH; [now apply apply_op_wf|now apply apply_op_valid|exact Hr].
Qed.
End History.

(* after any history of setter calls / grid replacements, every route still gives the iterated quadrature over the
   component grids AS THEY ARE NOW, and size / points / weights describe the current product set *)
Lemma history_routes_agree_lemma (T : Type) (o : NumOps T) : semiring o ->
  forall (m0 : mdgrid) (ops : list op) (fv : list point -> list point -> list T) (f : list point -> T) (c : nat),
  Forall wf_grid (grid_list m0) -> md_valid m0 -> history_ok m0 ops -> vectorises fv f -> 1 <= c ->
  let m := run_history m0 ops in
  integrate_vec o m fv = nested_sum o (domains m) f /\
  integrate_nonvec o m f c = nested_sum o (domains m) f /\
  md_size m = N.of_nat (length (md_points m)) /\ length (md_points m) = length (md_weights o m).
Proof.
  intros S m0 ops fv f c Hwf Hval Hok Hv Hc m.
  destruct (run_preserves ops m0 Hwf Hval Hok) as [Hwf' Hval']. fold m in Hwf', Hval'.
  split; [now apply vec_nested_lemma|]. split; [now apply nonvec_nested_lemma|].
  split; [now apply (size_spec_lemma o)|now apply md_lengths].
Qed.

(* ================================================================== combined statements used by C18_props.v *)
Lemma product_order_lemma (A : Type) (ls : list (list A)) (ixs : list nat) (d : A) (dd : list A) :
  Forall2 (fun i l => i < length l) ixs ls ->
  length (product ls) = fold_right Nat.mul 1 (map (@length A) ls) /\
  flat_index (map (@length A) ls) ixs < length (product ls) /\
  nth (flat_index (map (@length A) ls) ixs) (product ls) dd = map2 (fun i l => nth i l d) ixs ls.
Proof.
  intros H. split; [apply product_length|]. split; [rewrite product_length; now apply flat_index_lt|].
  now apply product_nth_lemma.
Qed.

Lemma chunks_shape_full_lemma (A : Type) (c : nat) (l : list A) : 1 <= c ->
  (Forall (fun ch => 1 <= length ch <= c) (chunks c l) /\
   forall i, S i < length (chunks c l) -> length (nth i (chunks c l) []) = c) /\
  length (chunks c l) = (length l + c - 1) / c.
Proof. intros H. split; [now apply chunks_shape_lemma|now apply chunks_count_lemma]. Qed.

Lemma nonvec_chunk_independent_full (T : Type) (o : NumOps T) : semiring o ->
  forall (m : mdgrid) (f : list point -> T) (c c' : nat), 1 <= c -> 1 <= c' -> Forall wf_grid (grid_list m) ->
  integrate_nonvec o m f c = integrate_nonvec o m f c' /\
  integrate_nonvec o m f c = sum o (map2 (fun p w => mul o (f p) w) (md_points m) (md_weights o m)).
Proof.
  intros S m f c c' H1 H2 Hwf. split; [now apply nonvec_chunk_independent_lemma|now apply nonvec_flat_lemma].
Qed.

Lemma nonvec_eq_nested_full (T : Type) (o : NumOps T) : semiring o ->
  forall (m : mdgrid) (f : list point -> T) (c : nat), 1 <= c -> Forall wf_grid (grid_list m) ->
  integrate_nonvec o m f c = nested_sum o (domains m) f /\
  integrate_nonvec o m f c = flat_sum o (domains m) (one o) f.
Proof.
  intros S m f c H1 Hwf. rewrite flat_sum_one by exact S. split; now apply nonvec_nested_lemma.
Qed.

(* ================================================================== instances *)
Definition ROps : NumOps R := MkOps R 0%R 1%R Rplus Rmult.

Lemma Z_semiring_lemma : semiring ZOps.
Proof. unfold semiring, ZOps; cbn [zero one add mul]; constructor; intros; ring. Qed.

Lemma R_semiring_lemma : semiring ROps.
Proof. unfold semiring, ROps; cbn [zero one add mul]; constructor; intros; ring. Qed.

Lemma poly_vectorises {T} (o : NumOps T) p : vectorises (poly_vec o p) (poly_eval o p).
Proof. intros pre X. reflexivity. Qed.

(* the three routes at R, in one statement *)
Lemma routes_agree_R_lemma (m : @mdgrid R) fv f c : vectorises fv f -> md_valid m -> Forall wf_grid (grid_list m) ->
  (1 <= c)%nat ->
  integrate_nonvec ROps m f c = nested_sum ROps (domains m) f /\
  integrate_vec ROps m fv = nested_sum ROps (domains m) f /\
  integrate_nonvec ROps m f c = fold_right Rplus 0%R (map2 (fun p w => (f p * w)%R) (md_points m) (md_weights ROps m)).
Proof.
  intros Hv Hval Hwf Hc. repeat split.
  - now apply (nonvec_nested_lemma ROps R_semiring_lemma).
  - now apply (vec_nested_lemma ROps R_semiring_lemma).
  - now apply (nonvec_flat_lemma ROps R_semiring_lemma).
Qed.

(* ================================================================== non-vacuity examples (at Z) *)
Local Open Scope Z_scope.
(* a 1-D grid with 2 points, a 3-D grid with 3 points (one negative weight), a 1-D grid with 2 points *)
Definition exA : grid := Grid [[1]; [2]] [1; 3].
Definition exB : grid := Grid [[1; 2; 3]; [4; 5; 6]; [0; 1; 0]] [2; 1; -1].
Definition exC : grid := Grid [[-1]; [3]] [2; 5].
Definition exM : mdgrid := MD [exA; exB] None.
Definition exM3 : mdgrid := MD [exA; exB; exC] None.
Definition exRep : mdgrid := MD [exB] (Some 3%nat).
(* x1 * y2[0] + y2[2]   and   x1 * y2[1]^2 * z3 - 2 * y2[2] *)
Definition exP : list (monomial (T := Z)) := [(1, [(0, 0, 1); (1, 0, 1)]%nat); (1, [(1, 2, 1)]%nat)].
Definition exP3 : list (monomial (T := Z)) := [(1, [(0, 0, 1); (1, 1, 2); (2, 0, 1)]%nat); (-2, [(1, 2, 1)]%nat)].

Example ex_hypotheses :
  Forall wf_grid (grid_list exM3) /\ md_valid exM3 /\ Forall wf_grid (grid_list exRep) /\ md_valid exRep /\
  vectorises (poly_vec ZOps exP3) (poly_eval ZOps exP3) /\ semiring ZOps.
Proof.
  split; [repeat constructor|]. split; [split; [discriminate|intros k E; discriminate]|].
  split; [repeat constructor|]. split; [split; [discriminate|intros k E; inversion E; cbn; lia]|].
  split; [apply poly_vectorises|apply Z_semiring_lemma].
Qed.

Example ex_chunks : chunks 4 [1; 2; 3; 4; 5; 6] = [[1; 2; 3; 4]; [5; 6]] /\ chunks 7 [1; 2; 3] = [[1; 2; 3]] /\
  chunks 1 [1; 2] = [[1]; [2]] /\ chunks 3 [1; 2; 3; 4; 5; 6] = [[1; 2; 3]; [4; 5; 6]] /\ chunks 0 [1; 2] = [].
Proof. vm_compute. repeat split. Qed.

Example ex_product : product [[1; 2]; [3; 4; 5]] = [[1; 3]; [1; 4]; [1; 5]; [2; 3]; [2; 4]; [2; 5]] /\
  product_py [[1; 2]; [3; 4; 5]] = product [[1; 2]; [3; 4; 5]] /\
  nth (flat_index [2; 3]%nat [1; 2]%nat) (product [[1; 2]; [3; 4; 5]]) [] = [2; 5].
Proof. vm_compute. repeat split. Qed.

(* same value (90; checked against the implementation: 90.0) on all routes and chunk sizes, not trivially 0 *)
Example ex_routes :
  integrate_nonvec ZOps exM (poly_eval ZOps exP) 4 = 90 /\ integrate_nonvec ZOps exM (poly_eval ZOps exP) 1 = 90 /\
  integrate_nonvec ZOps exM (poly_eval ZOps exP) 7 = 90 /\ integrate_vec ZOps exM (poly_vec ZOps exP) = 90 /\
  nested_sum ZOps (domains exM) (poly_eval ZOps exP) = 90 /\ flat_sum ZOps (domains exM) 1 (poly_eval ZOps exP) = 90 /\
  integrate_nonvec ZOps exM3 (poly_eval ZOps exP3) 5 = integrate_vec ZOps exM3 (poly_vec ZOps exP3) /\
  integrate_vec ZOps exM3 (poly_vec ZOps exP3) = 2240 /\
  integrate_nonvec ZOps exRep (poly_eval ZOps exP3) 4 = integrate_vec ZOps exRep (poly_vec ZOps exP3) /\
  integrate_vec ZOps exRep (poly_vec ZOps exP3) <> 0.
Proof. vm_compute. repeat split; discriminate. Qed.

Example ex_size_order : md_size exM3 = 12%N /\ md_size exRep = 27%N /\ length (md_points exRep) = 27%nat /\
  md_points exM = [[[1]; [1; 2; 3]]; [[1]; [4; 5; 6]]; [[1]; [0; 1; 0]]; [[2]; [1; 2; 3]]; [[2]; [4; 5; 6]]; [[2]; [0; 1; 0]]] /\
  md_weights ZOps exM = [2; 1; -1; 6; 3; -3] /\
  md_points exRep = md_points (MD [exB; exB; exB] None) /\ domains exRep = [exB; exB; exB].
Proof. vm_compute. repeat split. Qed.

Example ex_separable :
  let fs := [(fun p : point => nth 0%nat p 0); (fun p : point => nth 1%nat p 0 * nth 1%nat p 0 + 1)] in
  nested_sum ZOps (domains exM) (separable ZOps fs) = 7 * 34 /\
  prodl ZOps (map2 (single_integral ZOps) (domains exM) fs) = 7 * 34.
Proof. vm_compute. repeat split. Qed.

Example ex_init : md_init [exA; exB] None = Some exM /\ md_init [exB] (Some 3) = Some exRep /\
  md_init (T := Z) [] None = None /\ md_init [exA; exB] (Some 2) = None /\ md_init [exA] (Some 0) = None /\
  md_init [exA] (Some (-1)) = None.
Proof. vm_compute. repeat split. Qed.

(* a history: integrate, re-weight the FIRST grid, move the points of the second, integrate again *)
Example ex_history :
  let ops := [SetWeights 0%nat [5; -2]; SetPoints 1%nat [[0; 0; 1]; [2; 2; 2]; [1; 0; 3]]] in
  history_ok exM ops /\
  integrate_vec ZOps exM (poly_vec ZOps exP) = 90 /\
  integrate_vec ZOps (run_history exM ops) (poly_vec ZOps exP) = 4 /\
  integrate_nonvec ZOps (run_history exM ops) (poly_eval ZOps exP) 4 = 4 /\
  md_weights ZOps (run_history exM ops) = [10; 5; -5; -4; -2; 2].
Proof.
  cbv zeta. split.
  - cbn. split; [exists exA; split; reflexivity|]. split; [exists exB; split; reflexivity|exact I].
  - vm_compute. repeat split.
Qed.
