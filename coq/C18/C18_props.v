(* C18 property theorems (statements only; proofs are in C18_proofs.v).
   `semiring o` = the number type with its 0, 1, +, * is a commutative semiring; R and Z are instances
   (R_is_semiring, Z_is_semiring), so every statement below holds verbatim at R. *)
From Coq Require Import List Arith NArith ZArith Reals.
From P Require Import C18_model C18_proofs.
Import ListNotations.
Local Open Scope nat_scope.

Theorem R_is_semiring : semiring ROps.
Proof. exact R_semiring_lemma. Qed.
Print Assumptions R_is_semiring.

Theorem Z_is_semiring : semiring ZOps.
Proof. exact Z_semiring_lemma. Qed.
Print Assumptions Z_is_semiring.

(* ---- itertools.product: the recursive model is the documented reference implementation; it contains
   exactly the combinations of one element per pool; the combination with indices (i1,..,ik) sits at the
   mixed-radix position with the LAST index fastest *)
Theorem product_py_eq : forall (A : Type) (pools : list (list A)), product_py pools = product pools.
Proof. exact @product_py_eq_lemma. Qed.
Print Assumptions product_py_eq.

Theorem product_set : forall (A : Type) (ls : list (list A)) (xs : list A),
  In xs (product ls) <-> Forall2 (@In A) xs ls.
Proof. exact @In_product. Qed.
Print Assumptions product_set.

Theorem product_order : forall (A : Type) (ls : list (list A)) (ixs : list nat) (d : A) (dd : list A),
  Forall2 (fun i l => i < length l) ixs ls ->
  length (product ls) = fold_right Nat.mul 1 (map (@length A) ls) /\
  flat_index (map (@length A) ls) ixs < length (product ls) /\
  nth (flat_index (map (@length A) ls) ixs) (product ls) dd = map2 (fun i l => nth i l d) ixs ls.
Proof. exact product_order_lemma. Qed.
Print Assumptions product_order.

(* ---- _chunked_iterator *)
Theorem chunks_concat : forall (A : Type) (c : nat) (l : list A), 1 <= c -> concat (chunks c l) = l.
Proof. exact @chunks_concat_lemma. Qed.
Print Assumptions chunks_concat.

Theorem chunks_shape : forall (A : Type) (c : nat) (l : list A), 1 <= c ->
  (Forall (fun ch => 1 <= length ch <= c) (chunks c l) /\
   forall i, S i < length (chunks c l) -> length (nth i (chunks c l) []) = c) /\
  length (chunks c l) = (length l + c - 1) / c.
Proof. exact chunks_shape_full_lemma. Qed.
Print Assumptions chunks_shape.

(* ---- non-vectorised route: every chunk size >= 1 (dividing the total or not, larger than the total or not)
   gives the plain sum over the enumerated points and weights taken in lock-step *)
Theorem nonvec_chunk_independent : forall (T : Type) (o : NumOps T), semiring o ->
  forall (m : mdgrid) (f : list point -> T) (c c' : nat), 1 <= c -> 1 <= c' -> Forall wf_grid (grid_list m) ->
  integrate_nonvec o m f c = integrate_nonvec o m f c' /\
  integrate_nonvec o m f c = sum o (map2 (fun p w => mul o (f p) w) (md_points m) (md_weights o m)).
Proof. exact nonvec_chunk_independent_full. Qed.
Print Assumptions nonvec_chunk_independent.

(* ... which is the iterated quadrature sum_i1 w_i1 (sum_i2 w_i2 (... f(p_i1, p_i2, ...))) over the domains, and the
   nested sum over all combinations of (product of the weights) * (function value) *)
Theorem nonvec_eq_nested : forall (T : Type) (o : NumOps T), semiring o ->
  forall (m : mdgrid) (f : list point -> T) (c : nat), 1 <= c -> Forall wf_grid (grid_list m) ->
  integrate_nonvec o m f c = nested_sum o (domains m) f /\
  integrate_nonvec o m f c = flat_sum o (domains m) (one o) f.
Proof. exact nonvec_eq_nested_full. Qed.
Print Assumptions nonvec_eq_nested.

(* ---- vectorised route (partial application over the last domain) *)
Theorem vec_eq_nested : forall (T : Type) (o : NumOps T), semiring o ->
  forall (m : mdgrid) (fv : list point -> list point -> list T) (f : list point -> T),
  vectorises fv f -> md_valid m -> Forall wf_grid (grid_list m) ->
  integrate_vec o m fv = nested_sum o (domains m) f.
Proof. exact @vec_nested_lemma. Qed.
Print Assumptions vec_eq_nested.

Theorem nonvec_eq_vec : forall (T : Type) (o : NumOps T), semiring o ->
  forall (m : mdgrid) (fv : list point -> list point -> list T) (f : list point -> T) (c : nat),
  vectorises fv f -> md_valid m -> Forall wf_grid (grid_list m) -> 1 <= c ->
  integrate_nonvec o m f c = integrate_vec o m fv.
Proof. exact @nonvec_vec_lemma. Qed.
Print Assumptions nonvec_eq_vec.

(* ---- separable integrands f1(x1)*...*fk(xk): product of the single-grid integrals, on both routes *)
Theorem separable_product : forall (T : Type) (o : NumOps T), semiring o ->
  forall (m : mdgrid) (fs : list (point -> T)) (fv : list point -> list point -> list T) (c : nat),
  md_valid m -> Forall wf_grid (grid_list m) -> length fs = num_domains m ->
  vectorises fv (separable o fs) -> 1 <= c ->
  integrate_vec o m fv = prodl o (map2 (single_integral o) (domains m) fs) /\
  integrate_nonvec o m (separable o fs) c = prodl o (map2 (single_integral o) (domains m) fs).
Proof. exact @separable_md_lemma. Qed.
Print Assumptions separable_product.

(* ---- size = number of enumerated points = number of enumerated weights = product of the domain sizes *)
Theorem size_spec : forall (T : Type) (o : NumOps T) (m : mdgrid), Forall wf_grid (grid_list m) ->
  md_size m = N.of_nat (length (md_points m)) /\ md_size m = N.of_nat (length (md_weights o m)) /\
  md_size m = fold_right N.mul 1%N (map (fun g => N.of_nat (gsize g)) (domains m)).
Proof. exact @size_spec_lemma. Qed.
Print Assumptions size_spec.

(* ---- order: the combination (i1,..,ik) of node indices is enumerated at the mixed-radix position (last domain
   fastest), the point there is the tuple of the chosen nodes and the weight there is the product of their weights *)
Theorem order_spec : forall (T : Type) (o : NumOps T) (m : mdgrid) (ixs : list nat),
  Forall wf_grid (grid_list m) -> Forall2 (fun i g => i < gsize g) ixs (domains m) ->
  let idx := flat_index (map gsize (domains m)) ixs in
  idx < length (md_points m) /\
  nth idx (md_points m) [] = map2 (fun i g => nth i (gpts g) []) ixs (domains m) /\
  nth idx (md_weights o m) (zero o) = prodl o (map2 (fun i g => nth i (gwts g) (zero o)) ixs (domains m)).
Proof. exact @order_spec_lemma. Qed.
Print Assumptions order_spec.

(* ---- repeated-grid mode is the list of k copies, observably *)
Theorem repeat_is_copies : forall (T : Type) (o : NumOps T) (g : grid) (k : nat), 1 <= k ->
  let m := MD [g] (Some k) in let m' := MD (repeat g k) None in
  num_domains m = num_domains m' /\ md_points m = md_points m' /\ md_weights o m = md_weights o m' /\
  md_size m = md_size m' /\
  (forall f c, integrate_nonvec o m f c = integrate_nonvec o m' f c) /\
  (forall fv, integrate_vec o m fv = integrate_vec o m' fv).
Proof. exact @repeat_is_copies_lemma. Qed.
Print Assumptions repeat_is_copies.

(* ---- the headline at R *)
Theorem routes_agree_R : forall (m : mdgrid) (fv : list point -> list point -> list R) (f : list point -> R) (c : nat),
  vectorises fv f -> md_valid m -> Forall wf_grid (grid_list m) -> 1 <= c ->
  integrate_nonvec ROps m f c = nested_sum ROps (domains m) f /\
  integrate_vec ROps m fv = nested_sum ROps (domains m) f /\
  integrate_nonvec ROps m f c = fold_right Rplus 0%R (map2 (fun p w => (f p * w)%R) (md_points m) (md_weights ROps m)).
Proof. exact routes_agree_R_lemma. Qed.
Print Assumptions routes_agree_R.

(* ---- histories on one object: the observations are a function of the component grids as they are at the time of the
   call (no state is remembered between calls) *)
Theorem history_routes_agree : forall (T : Type) (o : NumOps T), semiring o ->
  forall (m0 : mdgrid) (ops : list op) (fv : list point -> list point -> list T) (f : list point -> T) (c : nat),
  Forall wf_grid (grid_list m0) -> md_valid m0 -> history_ok m0 ops -> vectorises fv f -> 1 <= c ->
  let m := run_history m0 ops in
  integrate_vec o m fv = nested_sum o (domains m) f /\
  integrate_nonvec o m f c = nested_sum o (domains m) f /\
  md_size m = N.of_nat (length (md_points m)) /\ length (md_points m) = length (md_weights o m).
Proof. exact history_routes_agree_lemma. Qed.
Print Assumptions history_routes_agree.
