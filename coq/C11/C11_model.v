(* C11: executable model of PeriodicGrid.__init__ / PeriodicGrid.get_localgrid (src/grid/periodicgrid.py),
   generic in the number type (record NumOps): theorems at R (C11_proofs.v), execution at bigQ (harness).
   No proofs in this file.

   Vectors are triples (dimension <= 3, unused components zero).  A = real-space lattice vectors (rows of
   realvecs), B = reciprocal vectors (rows of recivecs).  The reciprocal vectors are an input of the model:
   the code obtains them from an SVD pseudo-inverse (or 1/a on the 1-D path); the theorems assume
   b_k . a_l = delta_kl and the harness validates that on every run.  The k-d tree ball query is the
   parameter [ball]. *)
From Coq Require Import ZArith List Bool.
Import ListNotations.

Record NumOps (T : Type) := mkOps {
  n0 : T; nadd : T -> T -> T; nsub : T -> T -> T; nmul : T -> T -> T;
  nleb : T -> T -> bool; nofZ : Z -> T; nfloor : T -> Z; nceil : T -> Z }.
Arguments n0 {T}. Arguments nadd {T}. Arguments nsub {T}. Arguments nmul {T}.
Arguments nleb {T}. Arguments nofZ {T}. Arguments nfloor {T}. Arguments nceil {T}.

Definition null {X} (l : list X) : bool := match l with [] => true | _ => false end.

(* inclusive integer range lo..hi (empty when hi < lo) *)
Definition zrange (lo hi : Z) : list Z :=
  map (fun i => (lo + Z.of_nat i)%Z) (seq 0 (Z.to_nat (hi - lo + 1))).

(* itertools.product over the ranges: first range is the outermost loop *)
Fixpoint product (rs : list (list Z)) : list (list Z) :=
  match rs with
  | [] => [[]]
  | r :: rs' => flat_map (fun x => map (cons x) (product rs')) r
  end.

Section Model.
Context {T W : Type} (O : NumOps T) (wd : W).
Definition vec : Type := (T * T * T)%type.
Definition item : Type := (nat * vec * W)%type.      (* parent index, stored position, weight *)

Local Infix "+!" := (nadd O) (at level 50, left associativity).
Local Infix "-!" := (nsub O) (at level 50, left associativity).
Local Infix "*!" := (nmul O) (at level 40, left associativity).
Local Infix "<=?!" := (nleb O) (at level 70).

Definition v0 : vec := (n0 O, n0 O, n0 O).
Definition vadd (u v : vec) : vec := let '(a, b, c) := u in let '(d, e, f) := v in (a +! d, b +! e, c +! f).
Definition vsub (u v : vec) : vec := let '(a, b, c) := u in let '(d, e, f) := v in (a -! d, b -! e, c -! f).
Definition vscale (s : T) (v : vec) : vec := let '(d, e, f) := v in (s *! d, s *! e, s *! f).
Definition dot (u v : vec) : T := let '(a, b, c) := u in let '(d, e, f) := v in a *! d +! b *! e +! c *! f.
Definition norm2 (v : vec) : T := dot v v.

(* ilc @ realvecs *)
Fixpoint lincomb (j : list Z) (A : list vec) : vec :=
  match j, A with
  | jk :: j', a :: A' => vadd (vscale (nofZ O jk) a) (lincomb j' A')
  | _, _ => v0
  end.

(* points @ recivecs.T, one row *)
Definition fracs (B : list vec) (p : vec) : list T := map (fun b => dot b p) B.

Definition nmin (a b : T) : T := if a <=?! b then a else b.
Definition nmax (a b : T) : T := if a <=?! b then b else a.
Definition lmin (l : list T) : T := match l with [] => n0 O | x :: r => fold_left nmin r x end.
Definition lmax (l : list T) : T := match l with [] => n0 O | x :: r => fold_left nmax r x end.
Definition col (k : nat) (fr : list (list T)) : list T := map (fun f => nth k f (n0 O)) fr.

(* -------- __init__ : (stored point, fractional coordinates used for frac_intvls) per grid point ------ *)
(* wrap and realvecs.size > 0:  frac_shift = -floor(frac); frac += frac_shift; points += frac_shift @ realvecs *)
Definition wrap1 (A : list vec) (pf : vec * list T) : vec * list T :=
  let '(p, f) := pf in
  (vadd p (lincomb (map (fun x => Z.opp (nfloor O x)) f) A),
   map (fun x => x -! nofZ O (nfloor O x)) f).

Definition build (A B : list vec) (wrap : bool) (pts : list vec) : list (vec * list T) :=
  let g := map (fun p => (p, fracs B p)) pts in
  if wrap && negb (null A) then map (wrap1 A) g else g.

(* -------- get_localgrid, part B: the integer bounds ---------------------------------------------------
   general path:  ilc_min_k = ceil (lo_k - fc_k - r / s_k),  ilc_max_k = floor(hi_k - fc_k + r / s_k),
   s_k = 1 / |b_k|, i.e. r / s_k = sqrt (r^2 (b_k . b_k)) =: sqrt m.  For an integer j:
       ceil (x - sqrt m) <= j   <->   x - j <= 0  \/  (x - j)^2 <= m         (no square root needed)
       j <= floor (y + sqrt m)  <->   j - y <= 0  \/  (j - y)^2 <= m
   (equivalence with the literal ceil/floor/sqrt formula: C11_proofs.range_is_code_formula).
   The candidates are cut from an interval that certainly contains the answer:
   (Z.sqrt (ceil m) + 1)^2 > m. *)
Definition in_lo (x m : T) (j : Z) : bool :=
  let d := x -! nofZ O j in (d <=?! n0 O) || (d *! d <=?! m).
Definition in_hi (y m : T) (j : Z) : bool :=
  let d := nofZ O j -! y in (d <=?! n0 O) || (d *! d <=?! m).
Definition range (lo hi fc m : T) : list Z :=
  let x := lo -! fc in
  let y := hi -! fc in
  let K := (Z.sqrt (nceil O m) + 1)%Z in
  filter (fun j => in_lo x m j && in_hi y m j) (zrange (nfloor O x - K) (nceil O y + K)).

Definition ranges (B : list vec) (g : list (vec * list T)) (c : vec) (r : T) : list (list Z) :=
  let fr := map snd g in
  map (fun kb : nat * vec => let (k, b) := kb in
         range (lmin (col k fr)) (lmax (col k fr)) (dot b c) (r *! r *! dot b b))
      (combine (seq 0 (length B)) B).

(* 1-D path (points.ndim == 1): recivecs = 1 / realvecs, spacings = abs(1 / recivecs),
   ilc_min = ceil (lo - b c - r / s) with r / s = r |b|,  ilc_max = floor (hi - b c + r |b|) *)
Definition nabs (x : T) : T := if n0 O <=?! x then x else n0 O -! x.
Definition range1d (lo hi fc rb : T) : list Z :=
  let x := lo -! fc -! rb in
  let y := hi -! fc +! rb in
  filter (fun j => (x <=?! nofZ O j) && (nofZ O j <=?! y)) (zrange (nfloor O x) (nceil O y)).

Definition ranges1d (b : T) (g : list (vec * list T)) (c r : T) : list (list Z) :=
  let fr := map snd g in
  [range1d (lmin (col 0 fr)) (lmax (col 0 fr)) (b *! c) (r *! nabs b)].

(* -------- get_localgrid, part C: loop over the displaced centres -------------------------------------- *)
Variable ball : list vec -> vec -> T -> list nat.     (* cKDTree(points).query_ball_point(center, r, p=2) *)

Definition gather (A : list vec) (pts : list vec) (wts : list W) (c : vec) (r : T)
                  (box : list (list Z)) : list item :=
  flat_map (fun ilc => let d := lincomb ilc A in
              map (fun i => (i, vsub (nth i pts v0) d, nth i wts wd)) (ball pts (vadd c d) r)) box.

(* an empty range in some direction gives an empty product, no image found gives the empty LocalGrid *)
Definition finish (A : list vec) (pts : list vec) (wts : list W) (c : vec) (r : T)
                  (rs : list (list Z)) : list item :=
  gather A pts wts c r (product rs).

(* PeriodicGrid(points(N,M), weights, realvecs(K,M), wrap).get_localgrid(c, r) *)
Definition local (A B : list vec) (wrap : bool) (pts : list vec) (wts : list W) (c : vec) (r : T)
  : list item :=
  let g := build A B wrap pts in
  finish A (map fst g) wts c r (ranges B g c r).

(* PeriodicGrid(points(N,), weights, realvecs(1,) or None, wrap).get_localgrid(c, r);
   scalars are embedded as (x, 0, 0); B = [(1/a, 0, 0)]; without lattice vectors frac_intvls has no rows *)
Definition local1d (A B : list vec) (wrap : bool) (pts : list vec) (wts : list W) (c : vec) (r : T)
  : list item :=
  let g := build A B wrap pts in
  finish A (map fst g) wts c r
         (match B with [] => [] | b :: _ => ranges1d (fst (fst b)) g (fst (fst c)) r end).

(* stored points of the grid object (PeriodicGrid.points) *)
Definition stored_points (A B : list vec) (wrap : bool) (pts : list vec) : list vec :=
  map fst (build A B wrap pts).

End Model.

(* the ball query as an exact filter (the executable stand-in for the k-d tree; it satisfies the
   hypotheses the theorems make about [ball]: C11_proofs.exact_ball_spec) *)
Definition exact_ball {T} (O : NumOps T) (pts : list (vec (T:=T))) (c : vec (T:=T)) (r : T) : list nat :=
  filter (fun i => nleb O (norm2 O (vsub O (nth i pts (v0 O)) c)) (nmul O r r)) (seq 0 (length pts)).
