(* C11: proofs about the model of PeriodicGrid.get_localgrid at the real numbers. *)
From Coq Require Import ZArith List Bool Lia Reals Lra Psatz.
From Flocq Require Import Raux.
From P Require Import C11_model.
Import ListNotations.
Open Scope R_scope.

(* ------------------------------------------------------------------ the real instance *)
Definition Rleb (a b : R) : bool := if Rle_dec a b then true else false.
Definition ROps : NumOps R := mkOps R 0 Rplus Rminus Rmult Rleb IZR Zfloor Zceil.

Lemma Rleb_true a b : Rleb a b = true <-> a <= b.
Proof. unfold Rleb. destruct (Rle_dec a b); split; intros; try assumption; try reflexivity; try discriminate; contradiction. Qed.
Lemma Rleb_false a b : Rleb a b = false <-> b < a.
Proof. unfold Rleb. destruct (Rle_dec a b); split; intros; try discriminate; try lra; reflexivity. Qed.

Notation rvec := (vec (T:=R)).
Notation ritem W := (item (T:=R) (W:=W)).
Notation radd := (vadd ROps).
Notation rsub := (vsub ROps).
Notation rdot := (dot ROps).
Notation rnorm2 := (norm2 ROps).
Notation rlin := (lincomb ROps).
Notation rv0 := (v0 ROps).

Ltac vring := unfold vadd, vsub, vscale, v0, dot, norm2; cbn; repeat (match goal with |- (_, _) = (_, _) => apply f_equal2 end); ring.

(* ------------------------------------------------------------------ lists *)
Lemma zrange_in lo hi x : In x (zrange lo hi) <-> (lo <= x <= hi)%Z.
Proof.
  unfold zrange. rewrite in_map_iff. split.
  - intros [i [<- Hi]]. apply in_seq in Hi. lia.
  - intros H. exists (Z.to_nat (x - lo)). split; [lia|]. apply in_seq. lia.
Qed.

Lemma NoDup_map_inj {X Y} (f : X -> Y) l : (forall a b, In a l -> In b l -> f a = f b -> a = b) -> NoDup l -> NoDup (map f l).
Proof.
  intros Hinj H. induction H as [|a l Hn Hd IH]; cbn; constructor.
  - intros Hin. apply in_map_iff in Hin as [b [Hb Hbl]]. apply Hn.
    rewrite (Hinj a b); [exact Hbl|now left|now right|now symmetry].
  - apply IH. intros; apply Hinj; try (now right); assumption.
Qed.

Lemma zrange_nodup lo hi : NoDup (zrange lo hi).
Proof. unfold zrange. apply NoDup_map_inj; [|apply seq_NoDup]. intros a b _ _ H. lia. Qed.

Lemma NoDup_filter' {X} (f : X -> bool) l : NoDup l -> NoDup (filter f l).
Proof. apply NoDup_filter. Qed.

Lemma in_product j rs : In j (product rs) <-> Forall2 (fun x r => In x r) j rs.
Proof.
  revert j; induction rs as [|r rs IH]; intros j; cbn [product].
  - split; [intros [<-|[]]; constructor | intros H; inversion H; now left].
  - rewrite in_flat_map. split.
    + intros [x [Hx Hj]]. apply in_map_iff in Hj as [j' [<- Hj']]. constructor; [exact Hx | now apply IH].
    + intros H. inversion H as [|x r' j' rs' Hx Hj']; subst. exists x. split; [exact Hx|].
      apply in_map_iff. exists j'. split; [reflexivity | now apply IH].
Qed.

Lemma product_length j rs : In j (product rs) -> length j = length rs.
Proof. rewrite in_product. intros H. induction H; cbn; congruence. Qed.

Lemma NoDup_flat_map {X Y} (f : X -> list Y) l :
  NoDup l -> (forall x, In x l -> NoDup (f x)) ->
  (forall x y z, In x l -> In y l -> In z (f x) -> In z (f y) -> x = y) ->
  NoDup (flat_map f l).
Proof.
  intros Hl. induction Hl as [|a l Hn Hd IH]; intros Hf Hdis; cbn; [constructor|].
  assert (Hnd : forall l1 l2 : list Y, NoDup l1 -> NoDup l2 -> (forall z, In z l1 -> In z l2 -> False) -> NoDup (l1 ++ l2)).
  { intros l1; induction l1 as [|u l1 IH1]; intros l2 H1 H2 Hd12; cbn; [exact H2|].
    inversion H1; subst. constructor.
    - rewrite in_app_iff. intros [Hu|Hu]; [contradiction | apply (Hd12 u); [now left|exact Hu]].
    - apply IH1; try assumption. intros z Hz1 Hz2. apply (Hd12 z); [now right|exact Hz2]. }
  apply Hnd.
  - apply Hf. now left.
  - apply IH; [intros; apply Hf; now right | intros x y z Hx Hy; apply Hdis; now right].
  - intros z Hz1 Hz2. apply in_flat_map in Hz2 as [y [Hy Hz2]].
    assert (a = y) by (apply (Hdis a y z); [now left|now right|assumption|assumption]). subst. contradiction.
Qed.

Lemma product_nodup rs : (forall r, In r rs -> NoDup r) -> NoDup (product rs).
Proof.
  induction rs as [|r rs IH]; intros H; cbn [product]; [repeat constructor; intros []|].
  apply NoDup_flat_map.
  - apply H. now left.
  - intros x _. apply NoDup_map_inj; [intros a b _ _ E; now inversion E | apply IH; intros; apply H; now right].
  - intros x y z _ _ Hx Hy. apply in_map_iff in Hx as [u [<- _]]. apply in_map_iff in Hy as [v [E _]]. now inversion E.
Qed.

Lemma null_nil {X} (l : list X) : null l = true <-> l = [].
Proof. destruct l; cbn; split; intros; try reflexivity; discriminate. Qed.

Lemma no_member_nil {X} (l : list X) : (forall x, ~ In x l) -> l = [].
Proof. destruct l as [|a l]; [reflexivity|]. intros H. exfalso. apply (H a). now left. Qed.

(* ------------------------------------------------------------------ vectors over R *)
Lemma radd_0_r v : radd v rv0 = v.
Proof. destruct v as [[a b] c]. vring. Qed.

Lemma rdot_add_r b u v : rdot b (radd u v) = rdot b u + rdot b v.
Proof. destruct b as [[? ?] ?], u as [[? ?] ?], v as [[? ?] ?]. cbn. ring. Qed.
Lemma rdot_sub_r b u v : rdot b (rsub u v) = rdot b u - rdot b v.
Proof. destruct b as [[? ?] ?], u as [[? ?] ?], v as [[? ?] ?]. cbn. ring. Qed.
Lemma rdot_scale_r b s v : rdot b (vscale ROps s v) = s * rdot b v.
Proof. destruct b as [[? ?] ?], v as [[? ?] ?]. cbn. ring. Qed.
Lemma rdot_0_r b : rdot b rv0 = 0.
Proof. destruct b as [[? ?] ?]. cbn. ring. Qed.

(* Cauchy-Schwarz (Lagrange identity) *)
Lemma cauchy_schwarz b v : (rdot b v) * (rdot b v) <= rnorm2 b * rnorm2 v.
Proof.
  destruct b as [[b1 b2] b3], v as [[v1 v2] v3]. cbn.
  assert (H : (b1*b1+b2*b2+b3*b3)*(v1*v1+v2*v2+v3*v3) - (b1*v1+b2*v2+b3*v3)*(b1*v1+b2*v2+b3*v3)
              = (b1*v2-b2*v1)*(b1*v2-b2*v1) + (b1*v3-b3*v1)*(b1*v3-b3*v1) + (b2*v3-b3*v2)*(b2*v3-b3*v2)) by ring.
  pose proof (Rle_0_sqr (b1*v2-b2*v1)). pose proof (Rle_0_sqr (b1*v3-b3*v1)). pose proof (Rle_0_sqr (b2*v3-b3*v2)).
  unfold Rsqr in *. lra.
Qed.

Lemma rnorm2_nonneg v : 0 <= rnorm2 v.
Proof. destruct v as [[a b] c]. cbn. pose proof (Rle_0_sqr a). pose proof (Rle_0_sqr b). pose proof (Rle_0_sqr c). unfold Rsqr in *. lra. Qed.

(* duality  b_k . a_l = delta_kl  (recivecs @ realvecs.T = identity) *)
Definition dual (B A : list rvec) : Prop :=
  length B = length A /\
  forall k l, (k < length A)%nat -> (l < length A)%nat ->
    rdot (nth k B rv0) (nth l A rv0) = if Nat.eqb k l then 1 else 0.

Lemma rdot_lincomb_zero b : forall A j, (forall l, (l < length A)%nat -> rdot b (nth l A rv0) = 0) -> rdot b (rlin j A) = 0.
Proof.
  induction A as [|a A IH]; intros j H; destruct j as [|j0 j]; cbn [lincomb]; try apply rdot_0_r.
  rewrite rdot_add_r, rdot_scale_r. pose proof (H 0%nat ltac:(cbn; lia)) as H0. cbn [nth] in H0. rewrite H0.
  rewrite IH; [cbn; ring|].
  intros l Hl. apply (H (S l)). cbn; lia.
Qed.

Lemma rdot_lincomb_pick b : forall A j k, length j = length A -> (k < length A)%nat ->
  (forall l, (l < length A)%nat -> rdot b (nth l A rv0) = if Nat.eqb k l then 1 else 0) ->
  rdot b (rlin j A) = IZR (nth k j 0%Z).
Proof.
  induction A as [|a A IH]; intros j k Hlen Hk H; [cbn in Hk; lia|].
  destruct j as [|j0 j]; [discriminate|]. cbn [lincomb]. rewrite rdot_add_r, rdot_scale_r.
  pose proof (H 0%nat ltac:(cbn; lia)) as H0. cbn [nth] in H0. rewrite H0.
  destruct k as [|k].
  - cbn [Nat.eqb nth]. rewrite rdot_lincomb_zero; [cbn; ring|].
    intros l Hl. apply (H (S l)). cbn; lia.
  - cbn [Nat.eqb nth]. rewrite (IH j k); [cbn; ring | cbn in Hlen; lia | cbn in Hk; lia |].
    intros l Hl. apply (H (S l)). cbn; lia.
Qed.

Lemma dual_pick B A j k : dual B A -> length j = length A -> (k < length A)%nat ->
  rdot (nth k B rv0) (rlin j A) = IZR (nth k j 0%Z).
Proof. intros [_ H] Hj Hk. apply rdot_lincomb_pick; try assumption. intros l Hl. now apply H. Qed.

(* independent lattice vectors: the translation determines the integer coefficients *)
Lemma lincomb_inj B A j j' : dual B A -> length j = length A -> length j' = length A ->
  rlin j A = rlin j' A -> j = j'.
Proof.
  intros Hd Hj Hj' E. apply (nth_ext _ _ 0%Z 0%Z); [congruence|]. intros k Hk. rewrite Hj in Hk.
  apply eq_IZR. rewrite <- (dual_pick B A j k Hd Hj Hk), <- (dual_pick B A j' k Hd Hj' Hk). now rewrite E.
Qed.

Lemma nth_fracs B p k : (k < length B)%nat -> nth k (fracs ROps B p) 0 = rdot (nth k B rv0) p.
Proof.
  intros Hk. unfold fracs. rewrite (nth_indep _ 0 (rdot rv0 p)) by (rewrite map_length; exact Hk).
  apply (map_nth (fun b => rdot b p)).
Qed.

(* ------------------------------------------------------------------ min / max *)
Lemma fold_nmin_le r : forall a, fold_left (nmin ROps) r a <= a /\ forall x, In x r -> fold_left (nmin ROps) r a <= x.
Proof.
  induction r as [|y r IH]; intros a; cbn [fold_left]; [split; [lra|intros ? []]|].
  destruct (IH (nmin ROps a y)) as [H1 H2].
  assert (Hm : nmin ROps a y <= a /\ nmin ROps a y <= y).
  { unfold nmin. cbn [nleb ROps]. destruct (Rleb a y) eqn:E; [apply Rleb_true in E|apply Rleb_false in E]; lra. }
  split; [lra|]. intros x [<-|Hx]; [lra | now apply H2].
Qed.
Lemma fold_nmax_ge r : forall a, a <= fold_left (nmax ROps) r a /\ forall x, In x r -> x <= fold_left (nmax ROps) r a.
Proof.
  induction r as [|y r IH]; intros a; cbn [fold_left]; [split; [lra|intros ? []]|].
  destruct (IH (nmax ROps a y)) as [H1 H2].
  assert (Hm : a <= nmax ROps a y /\ y <= nmax ROps a y).
  { unfold nmax. cbn [nleb ROps]. destruct (Rleb a y) eqn:E; [apply Rleb_true in E|apply Rleb_false in E]; lra. }
  split; [lra|]. intros x [<-|Hx]; [lra | now apply H2].
Qed.
Lemma lmin_le l x : In x l -> lmin ROps l <= x.
Proof. destruct l as [|a r]; [intros []|]. cbn [lmin]. destruct (fold_nmin_le r a) as [H1 H2]. intros [<-|H]; [exact H1|now apply H2]. Qed.
Lemma lmax_ge l x : In x l -> x <= lmax ROps l.
Proof. destruct l as [|a r]; [intros []|]. cbn [lmax]. destruct (fold_nmax_ge r a) as [H1 H2]. intros [<-|H]; [exact H1|now apply H2]. Qed.

(* ------------------------------------------------------------------ the integer range of one lattice direction *)
Lemma in_lo_spec x m j : in_lo ROps x m j = true <-> (x - IZR j <= 0 \/ (x - IZR j) * (x - IZR j) <= m).
Proof. unfold in_lo. cbn [nleb nsub nmul nofZ n0 ROps]. rewrite orb_true_iff, !Rleb_true. reflexivity. Qed.
Lemma in_hi_spec y m j : in_hi ROps y m j = true <-> (IZR j - y <= 0 \/ (IZR j - y) * (IZR j - y) <= m).
Proof. unfold in_hi. cbn [nleb nsub nmul nofZ n0 ROps]. rewrite orb_true_iff, !Rleb_true. reflexivity. Qed.

Lemma sqrt_bound m : 0 <= m -> let K := (Z.sqrt (Zceil m) + 1)%Z in 0 < IZR K /\ m < IZR K * IZR K.
Proof.
  intros Hm K. pose proof (Zceil_ub m) as Hc.
  assert (Hc0 : (0 <= Zceil m)%Z) by (apply le_IZR; lra).
  pose proof (Z.sqrt_spec (Zceil m) Hc0) as [_ Hs]. pose proof (Z.sqrt_nonneg (Zceil m)).
  assert (HK : (Zceil m < K * K)%Z) by (unfold K; lia).
  apply IZR_lt in HK. rewrite mult_IZR in HK. split; [apply IZR_lt; unfold K; lia | lra].
Qed.

Lemma range_in lo hi fc m j : 0 <= m ->
  In j (range ROps lo hi fc m) <-> in_lo ROps (lo - fc) m j = true /\ in_hi ROps (hi - fc) m j = true.
Proof.
  intros Hm. unfold range. cbn [nsub nfloor nceil ROps]. rewrite filter_In, andb_true_iff. split; [tauto|].
  intros [Hlo Hhi]. split; [|tauto]. apply zrange_in.
  destruct (sqrt_bound m Hm) as [HK0 HK]. set (K := (Z.sqrt (Zceil m) + 1)%Z) in *.
  apply in_lo_spec in Hlo. apply in_hi_spec in Hhi.
  pose proof (Zfloor_lb (lo - fc)). pose proof (Zceil_ub (hi - fc)).
  split.
  - assert (IZR (Zfloor (lo - fc)) - IZR K < IZR j + 1) by (destruct Hlo; nra).
    rewrite <- minus_IZR, <- plus_IZR in H1. apply lt_IZR in H1. lia.
  - assert (IZR j - 1 < IZR (Zceil (hi - fc)) + IZR K) by (destruct Hhi; nra).
    rewrite <- minus_IZR, <- plus_IZR in H1. apply lt_IZR in H1. lia.
Qed.

Lemma Zceil_le_iff y j : (Zceil y <= j)%Z <-> y <= IZR j.
Proof. split; [intros H; apply IZR_le in H; pose proof (Zceil_ub y); lra | apply Zceil_glb]. Qed.
Lemma Zfloor_ge_iff y j : (j <= Zfloor y)%Z <-> IZR j <= y.
Proof. split; [intros H; apply IZR_le in H; pose proof (Zfloor_lb y); lra | apply Zfloor_lub]. Qed.

(* the range of the model is the code's  ceil(lo - fc - r/s) .. floor(hi - fc + r/s)  with s = 1/|b| *)
Lemma range_is_code_formula_lemma lo hi fc r bb j : 0 <= r -> 0 < bb ->
  let s := 1 / sqrt bb in
  In j (range ROps lo hi fc (r * r * bb)) <->
  (Zceil (lo - fc - r / s) <= j <= Zfloor (hi - fc + r / s))%Z.
Proof.
  intros Hr Hbb s. assert (Hm : 0 <= r * r * bb) by nra.
  rewrite (range_in _ _ _ _ _ Hm), in_lo_spec, in_hi_spec, Zceil_le_iff, Zfloor_ge_iff.
  pose proof (sqrt_lt_R0 bb Hbb) as Hs. pose proof (sqrt_sqrt bb (Rlt_le _ _ Hbb)) as Hss.
  assert (Hq : r / s = r * sqrt bb) by (unfold s; field; lra). rewrite Hq.
  set (q := sqrt bb) in *. assert (Hrq : 0 <= r * q) by nra.
  assert (Hm2 : r * r * bb = (r * q) * (r * q)) by (rewrite <- Hss; ring). rewrite Hm2.
  set (u := r * q) in *. split.
  - intros [[H1|H1] [H2|H2]]; split; nra.
  - intros [H1 H2]. split.
    + destruct (Rle_dec (lo - fc - IZR j) 0); [now left|right; nra].
    + destruct (Rle_dec (IZR j - (hi - fc)) 0); [now left|right; nra].
Qed.

Lemma range_nodup lo hi fc m : NoDup (range ROps lo hi fc m).
Proof. unfold range. apply NoDup_filter, zrange_nodup. Qed.

Lemma range1d_in lo hi fc rb j :
  In j (range1d ROps lo hi fc rb) <-> lo - fc - rb <= IZR j <= hi - fc + rb.
Proof.
  unfold range1d. cbn [nsub nadd nleb nofZ nfloor nceil ROps]. rewrite filter_In, andb_true_iff, !Rleb_true, zrange_in.
  split; [tauto|]. intros [H1 H2]. split; [|tauto]. split; apply le_IZR.
  - pose proof (Zfloor_lb (lo - fc - rb)); lra.
  - pose proof (Zceil_ub (hi - fc + rb)); lra.
Qed.
Lemma range1d_nodup lo hi fc rb : NoDup (range1d ROps lo hi fc rb).
Proof. unfold range1d. apply NoDup_filter, zrange_nodup. Qed.

(* ------------------------------------------------------------------ more list / vector helpers *)
Lemma nth_map_lt {X Y} (f : X -> Y) l i dx dy : (i < length l)%nat -> nth i (map f l) dy = f (nth i l dx).
Proof. intros H. rewrite (nth_indep _ dy (f dx)) by (rewrite map_length; exact H). apply map_nth. Qed.

Lemma Forall2_nth {X Y} (P : X -> Y -> Prop) dx dy : forall l1 l2, length l1 = length l2 ->
  (forall k, (k < length l1)%nat -> P (nth k l1 dx) (nth k l2 dy)) -> Forall2 P l1 l2.
Proof.
  induction l1 as [|a l1 IH]; intros [|b l2] Hl H; try discriminate; constructor.
  - apply (H 0%nat). cbn; lia.
  - apply IH; [cbn in Hl; lia|]. intros k Hk. apply (H (S k)). cbn; lia.
Qed.

Lemma Forall2_nth_inv {X Y} (P : X -> Y -> Prop) dx dy l1 l2 : Forall2 P l1 l2 ->
  forall k, (k < length l1)%nat -> P (nth k l1 dx) (nth k l2 dy).
Proof. intros H. induction H; intros k Hk; [cbn in Hk; lia|]. destruct k; cbn; [assumption|apply IHForall2; cbn in Hk; lia]. Qed.

Lemma map_flat_map' {X Y Z} (f : Y -> Z) (g : X -> list Y) l : map f (flat_map g l) = flat_map (fun x => map f (g x)) l.
Proof. induction l as [|a l IH]; cbn; [reflexivity|]. now rewrite map_app, IH. Qed.

Lemma product_null rs : In [] rs -> product rs = [].
Proof.
  induction rs as [|r rs IH]; intros H; [destruct H|]. cbn [product]. destruct H as [->|H]; [reflexivity|].
  rewrite (IH H). induction r; cbn; auto.
Qed.

Definition zsub (z j : list Z) : list Z := map (fun ab : Z * Z => (fst ab - snd ab)%Z) (combine z j).

Lemma rsub_sub_add u d c : rsub (rsub u d) c = rsub u (radd c d).
Proof. destruct u as [[? ?] ?], d as [[? ?] ?], c as [[? ?] ?]. vring. Qed.
Lemma radd_sub_cancel p z j : rsub (radd p z) (rsub z j) = radd p j.
Proof. destruct p as [[? ?] ?], z as [[? ?] ?], j as [[? ?] ?]. vring. Qed.
Lemma radd_sub_assoc p z d : rsub (radd p z) d = radd p (rsub z d).
Proof. destruct p as [[? ?] ?], z as [[? ?] ?], d as [[? ?] ?]. vring. Qed.
Lemma rsub_inj_r u d d' : rsub u d = rsub u d' -> d = d'.
Proof.
  destruct u as [[u1 u2] u3], d as [[d1 d2] d3], d' as [[e1 e2] e3]. cbn. intros E. inversion E.
  assert (d1 = e1) by lra. assert (d2 = e2) by lra. assert (d3 = e3) by lra. subst. reflexivity.
Qed.
Lemma rlin_step_sub z0 j0 a X Y :
  radd (vscale ROps (IZR (z0 - j0)) a) (rsub X Y) = rsub (radd (vscale ROps (IZR z0) a) X) (radd (vscale ROps (IZR j0) a) Y).
Proof. destruct a as [[? ?] ?], X as [[? ?] ?], Y as [[? ?] ?]. cbn. rewrite minus_IZR. f_equal; [f_equal|]; ring. Qed.
Lemma rsub_0_0 : rsub rv0 rv0 = rv0.
Proof. cbn. replace (0 - 0) with 0 by ring. reflexivity. Qed.

Lemma rlin_zsub : forall A z j, length z = length A -> length j = length A ->
  rlin (zsub z j) A = rsub (rlin z A) (rlin j A).
Proof.
  induction A as [|a A IH]; intros z j Hz Hj.
  - destruct z, j; try discriminate. cbn [zsub combine map lincomb]. now rewrite rsub_0_0.
  - destruct z as [|z0 z], j as [|j0 j]; try discriminate. unfold zsub. cbn [combine map lincomb fst snd nofZ ROps].
    fold (zsub z j). rewrite IH by (cbn in *; lia). apply rlin_step_sub.
Qed.
Lemma zsub_length z j : length z = length j -> length (zsub z j) = length j.
Proof. intros H. unfold zsub. rewrite map_length, combine_length. lia. Qed.

Lemma rlin_zeros : forall A, rlin (repeat 0%Z (length A)) A = rv0.
Proof.
  induction A as [|a A IH]; [reflexivity|]. cbn [length repeat lincomb]. rewrite IH.
  destruct a as [[? ?] ?]. vring.
Qed.
Lemma rlin_opp : forall A j, length j = length A -> rsub rv0 (rlin j A) = rlin (map Z.opp j) A.
Proof.
  induction A as [|a A IH]; intros j Hj; destruct j as [|j0 j]; try discriminate; cbn [map lincomb]; [apply rsub_0_0|].
  rewrite <- IH by (cbn in *; lia). cbn [nofZ ROps]. rewrite opp_IZR.
  destruct a as [[? ?] ?]. destruct (rlin j A) as [[? ?] ?]. vring.
Qed.

(* ------------------------------------------------------------------ the constructor *)
Definition consistent (B : list rvec) (g : list (rvec * list R)) : Prop :=
  forall pf, In pf g -> snd pf = fracs ROps B (fst pf).

Definition lat_equiv (A pts pts' : list rvec) : Prop :=
  length pts' = length pts /\
  forall i, (i < length pts)%nat -> exists z, length z = length A /\ nth i pts' rv0 = radd (nth i pts rv0) (rlin z A).

Lemma fracs_length B p : length (fracs ROps B p) = length B.
Proof. unfold fracs. apply map_length. Qed.

Lemma wrap1_consistent A B p : dual B A ->
  let w := wrap1 ROps A (p, fracs ROps B p) in snd w = fracs ROps B (fst w).
Proof.
  intros Hd. pose proof Hd as [Hl _]. cbn [wrap1 fst snd].
  apply (nth_ext _ _ 0 0); [now rewrite map_length, !fracs_length|].
  intros k Hk. rewrite map_length, fracs_length in Hk.
  rewrite (nth_map_lt _ _ _ 0 0) by (now rewrite fracs_length).
  rewrite !nth_fracs by exact Hk. rewrite rdot_add_r.
  rewrite (dual_pick B A) by (first [assumption | lia | now rewrite map_length, fracs_length]).
  rewrite (nth_map_lt _ _ _ 0 0%Z) by (now rewrite fracs_length).
  rewrite opp_IZR, ?nth_fracs by exact Hk. cbn [nsub nofZ nfloor ROps]. ring.
Qed.

Lemma build_consistent A B wrap pts : dual B A -> consistent B (build ROps A B wrap pts).
Proof.
  intros Hd pf. unfold build. destruct (wrap && negb (null A)).
  - rewrite map_map. intros H. apply in_map_iff in H as [p [<- _]]. now apply wrap1_consistent.
  - intros H. apply in_map_iff in H as [p [<- _]]. reflexivity.
Qed.

Lemma build_lat_equiv A B wrap pts : length B = length A -> lat_equiv A pts (map fst (build ROps A B wrap pts)).
Proof.
  intros Hl. unfold build. destruct (wrap && negb (null A)); split.
  - now rewrite !map_length.
  - intros i Hi. rewrite !map_map. rewrite (nth_map_lt _ _ _ rv0 rv0) by exact Hi. cbn [wrap1 fst].
    eexists. split; [|reflexivity]. now rewrite map_length, fracs_length.
  - now rewrite !map_length.
  - intros i Hi. rewrite map_map. cbn [fst]. rewrite map_id. exists (repeat 0%Z (length A)). split; [apply repeat_length|].
    now rewrite rlin_zeros, radd_0_r.
Qed.

Lemma ranges_length B g c r : length (ranges ROps B g c r) = length B.
Proof. unfold ranges. now rewrite map_length, combine_length, seq_length, Nat.min_id. Qed.

Lemma nth_ranges B g c r k : (k < length B)%nat ->
  nth k (ranges ROps B g c r) [] =
  range ROps (lmin ROps (col ROps k (map snd g))) (lmax ROps (col ROps k (map snd g)))
        (rdot (nth k B rv0) c) (r * r * rdot (nth k B rv0) (nth k B rv0)).
Proof.
  intros Hk. unfold ranges.
  rewrite (nth_map_lt _ _ _ (0%nat, rv0) []) by (now rewrite combine_length, seq_length, Nat.min_id).
  rewrite combine_nth by apply seq_length. rewrite seq_nth by exact Hk. reflexivity.
Qed.

(* ------------------------------------------------------------------ the local grid *)
Section Theorems.
Context {W : Type} (wd : W).
(* the k-d tree ball query: a black box with the documented contract (validated against
   scipy.spatial.cKDTree.query_ball_point on every run) *)
Variable ball : list rvec -> rvec -> R -> list nat.
Hypothesis ball_spec : forall pts c r i, 0 <= r ->
  (In i (ball pts c r) <-> (i < length pts)%nat /\ rnorm2 (rsub (nth i pts rv0) c) <= r * r).
Hypothesis ball_nodup : forall pts c r, NoDup (ball pts c r).

(* the property's own description of the local grid: (parent index, position, weight) *)
Definition spec_item (A pts : list rvec) (wts : list W) (c : rvec) (r : R) (it : ritem W) : Prop :=
  let '(i, q, w) := it in
  (i < length pts)%nat /\ w = nth i wts wd /\
  exists j, length j = length A /\ q = radd (nth i pts rv0) (rlin j A) /\ rnorm2 (rsub q c) <= r * r.

Lemma gather_in A pts wts c r box i q w :
  In (i, q, w) (gather ROps wd ball A pts wts c r box) <->
  exists ilc, In ilc box /\ In i (ball pts (radd c (rlin ilc A)) r) /\
              q = rsub (nth i pts rv0) (rlin ilc A) /\ w = nth i wts wd.
Proof.
  unfold gather. rewrite in_flat_map. split.
  - intros [ilc [Hb H]]. apply in_map_iff in H as [i' [E Hi]]. inversion E; subst. exists ilc. auto.
  - intros [ilc [Hb [Hi [-> ->]]]]. exists ilc. split; [exact Hb|]. apply in_map_iff. exists i. auto.
Qed.

Lemma finish_exact A B pts pts' wts c r rs :
  dual B A -> 0 <= r -> lat_equiv A pts pts' -> length rs = length A ->
  (forall ilc i, length ilc = length A -> In i (ball pts' (radd c (rlin ilc A)) r) -> In ilc (product rs)) ->
  forall it, In it (finish ROps wd ball A pts' wts c r rs) <-> spec_item A pts wts c r it.
Proof.
  intros Hd Hr [Hlen Hlat] Hrs Hc [[i q] w]. unfold finish. rewrite gather_in. split.
  - intros [ilc [Hb [Hi [-> ->]]]]. apply (ball_spec _ _ _ _ Hr) in Hi as [Hi Hn]. rewrite Hlen in Hi.
    destruct (Hlat i Hi) as [z [Hz Hp]]. cbn. split; [exact Hi|]. split; [reflexivity|].
    assert (Hl : length ilc = length A) by (rewrite <- Hrs; now apply product_length).
    exists (zsub z ilc). split; [rewrite zsub_length; congruence|].
    rewrite rlin_zsub by assumption. split; [rewrite Hp; apply radd_sub_assoc|].
    rewrite rsub_sub_add. exact Hn.
  - cbn. intros [Hi [-> [j [Hj [-> Hn]]]]]. destruct (Hlat i Hi) as [z [Hz Hp]].
    assert (Hq : radd (nth i pts rv0) (rlin j A) = rsub (nth i pts' rv0) (rlin (zsub z j) A)).
    { rewrite rlin_zsub by assumption. now rewrite Hp, radd_sub_cancel. }
    assert (Hball : In i (ball pts' (radd c (rlin (zsub z j) A)) r)).
    { apply (ball_spec _ _ _ _ Hr). split; [now rewrite Hlen|]. rewrite <- rsub_sub_add, <- Hq. exact Hn. }
    exists (zsub z j). repeat split; try assumption.
    apply (Hc _ i); [rewrite zsub_length; congruence | exact Hball].
Qed.

Lemma finish_nodup A B pts wts c r rs :
  dual B A -> length rs = length A -> (forall x, In x rs -> NoDup x) ->
  NoDup (map fst (finish ROps wd ball A pts wts c r rs)).
Proof.
  intros Hd Hrs Hnd. unfold finish, gather. rewrite map_flat_map'.
  apply NoDup_flat_map.
  - now apply product_nodup.
  - intros ilc _. rewrite map_map. cbn [fst]. apply NoDup_map_inj; [|apply ball_nodup].
    intros a b _ _ E. now inversion E.
  - intros x y z Hx Hy Hzx Hzy. rewrite map_map in Hzx, Hzy. cbn [fst] in Hzx, Hzy.
    apply in_map_iff in Hzx as [i [<- _]]. apply in_map_iff in Hzy as [i' [E _]]. inversion E; subst.
    apply rsub_inj_r in H1. apply (lincomb_inj B A); try assumption; try (symmetry; assumption);
      rewrite <- Hrs; now apply product_length.
Qed.

(* completeness of the enumerated box (general path): Cauchy-Schwarz *)
Lemma ranges_complete A B g c r :
  dual B A -> 0 <= r -> consistent B g ->
  forall ilc i, length ilc = length A -> In i (ball (map fst g) (radd c (rlin ilc A)) r) ->
  In ilc (product (ranges ROps B g c r)).
Proof.
  intros Hd Hr Hg ilc i Hl Hi. pose proof Hd as [HlB _].
  apply (ball_spec _ _ _ _ Hr) in Hi as [Hi Hn]. rewrite map_length in Hi.
  set (pf := nth i g (rv0, [])). assert (Hin : In pf g) by (apply nth_In; exact Hi).
  rewrite (nth_map_lt _ _ _ (rv0, []) rv0) in Hn by exact Hi. fold pf in Hn.
  pose proof (Hg pf Hin) as Hf.
  apply in_product. apply (Forall2_nth _ 0%Z []); [rewrite ranges_length; congruence|].
  intros k Hk. rewrite Hl, <- HlB in Hk. rewrite nth_ranges by exact Hk.
  set (b := nth k B rv0). set (v := rsub (fst pf) (radd c (rlin ilc A))) in *.
  assert (Hbb : 0 <= rdot b b) by apply rnorm2_nonneg.
  assert (Hm : 0 <= r * r * rdot b b) by nra.
  pose proof (cauchy_schwarz b v) as Hcs. unfold norm2 in Hcs. fold (rnorm2 v) in Hcs.
  assert (Ht : rdot b v = nth k (snd pf) 0 - rdot b c - IZR (nth k ilc 0%Z)).
  { unfold v. rewrite rdot_sub_r, rdot_add_r. unfold b. rewrite (dual_pick B A) by (first [assumption | lia]).
    rewrite Hf, nth_fracs by exact Hk. ring. }
  assert (Hfk : In (nth k (snd pf) 0) (col ROps k (map snd g))).
  { unfold col. rewrite map_map. apply in_map_iff. exists pf. split; [reflexivity|exact Hin]. }
  pose proof (lmin_le _ _ Hfk) as Hlo. pose proof (lmax_ge _ _ Hfk) as Hhi.
  pose proof (rnorm2_nonneg v) as Hv0.
  assert (Hsq : rdot b v * rdot b v <= r * r * rdot b b) by nra.
  apply (range_in _ _ _ _ _ Hm). rewrite in_lo_spec, in_hi_spec.
  set (t := rdot b v) in *. set (fk := nth k (snd pf) 0) in *. set (fc := rdot b c) in *.
  set (jk := IZR (nth k ilc 0%Z)) in *. set (lo := lmin ROps _) in *. set (hi := lmax ROps _) in *.
  split.
  - destruct (Rle_dec (lo - fc - jk) 0); [now left|right]. nra.
  - destruct (Rle_dec (jk - (hi - fc)) 0); [now left|right]. nra.
Qed.

Lemma ranges_nodup B g c r x : In x (ranges ROps B g c r) -> NoDup x.
Proof. unfold ranges. intros H. apply in_map_iff in H as [[k b] [<- _]]. apply range_nodup. Qed.

(* ---------------- general path: PeriodicGrid(points(N,M), ...).get_localgrid ------------------------ *)
Lemma local_exact A B wrap pts wts c r : dual B A -> 0 <= r ->
  forall it, In it (local ROps wd ball A B wrap pts wts c r) <-> spec_item A pts wts c r it.
Proof.
  intros Hd Hr. unfold local. pose proof Hd as [HlB _].
  apply (finish_exact A B); try assumption.
  - now apply build_lat_equiv.
  - now rewrite ranges_length.
  - apply ranges_complete; try assumption. now apply build_consistent.
Qed.

Lemma local_nodup A B wrap pts wts c r : dual B A ->
  NoDup (map fst (local ROps wd ball A B wrap pts wts c r)).
Proof.
  intros Hd. unfold local. pose proof Hd as [HlB _]. apply (finish_nodup A B); try assumption.
  - now rewrite ranges_length.
  - apply ranges_nodup.
Qed.

Lemma local_wrap_irrelevant A B pts wts c r : dual B A -> 0 <= r ->
  forall it, In it (local ROps wd ball A B true pts wts c r) <->
             In it (local ROps wd ball A B false pts wts c r).
Proof. intros Hd Hr it. now rewrite !(local_exact A B _ pts wts c r Hd Hr). Qed.

Lemma rsub_0_r v : rsub v rv0 = v.
Proof. destruct v as [[? ?] ?]. vring. Qed.

Lemma finish_no_lattice pts wts c r :
  finish ROps wd ball [] pts wts c r [] = map (fun i => (i, nth i pts rv0, nth i wts wd)) (ball pts c r).
Proof.
  unfold finish. cbn [product gather flat_map lincomb]. rewrite app_nil_r, radd_0_r.
  apply map_ext. intros i. now rewrite rsub_0_r.
Qed.

Lemma build_no_lattice B wrap pts : map fst (build ROps [] B wrap pts) = pts.
Proof. unfold build. cbn [null negb]. rewrite andb_false_r, map_map. cbn [fst]. apply map_id. Qed.

Lemma local_no_lattice wrap pts wts c r :
  local ROps wd ball [] [] wrap pts wts c r =
  map (fun i => (i, nth i pts rv0, nth i wts wd)) (ball pts c r).
Proof. unfold local. rewrite build_no_lattice. unfold ranges. cbn [length seq combine map]. apply finish_no_lattice. Qed.

Lemma local1d_no_lattice wrap pts wts c r :
  local1d ROps wd ball [] [] wrap pts wts c r =
  map (fun i => (i, nth i pts rv0, nth i wts wd)) (ball pts c r).
Proof. unfold local1d. rewrite build_no_lattice. apply finish_no_lattice. Qed.

(* ---------------- 1-D path: PeriodicGrid(points(N,), weights, realvecs(1,)) ------------------------- *)
Lemma sq_le_of_le d u : 0 < d -> d <= u -> d * d <= u * u.
Proof. intros. assert (0 <= (u - d) * (u + d)) by (apply Rmult_le_pos; lra). nra. Qed.
Lemma le_of_sq_le d u : 0 <= u -> d * d <= u * u -> d <= u.
Proof. intros. destruct (Rle_dec d u); [assumption|]. assert (0 < (d - u) * (d + u)) by (apply Rmult_lt_0_compat; lra). nra. Qed.

Lemma range1d_general_iff lo hi fc fc' u m j : 0 <= u -> fc' = fc -> m = u * u ->
  In j (range1d ROps lo hi fc u) <-> In j (range ROps lo hi fc' m).
Proof.
  intros Hu -> ->. assert (Hm : 0 <= u * u) by nra.
  rewrite range1d_in, (range_in _ _ _ _ _ Hm), in_lo_spec, in_hi_spec. split.
  - intros [H1 H2]. split.
    + destruct (Rle_dec (lo - fc - IZR j) 0); [now left|right]. apply sq_le_of_le; lra.
    + destruct (Rle_dec (IZR j - (hi - fc)) 0); [now left|right]. apply sq_le_of_le; lra.
  - intros [H1 H2]. split.
    + destruct H1 as [H1|H1]; [lra|]. apply le_of_sq_le in H1; lra.
    + destruct H2 as [H2|H2]; [lra|]. apply le_of_sq_le in H2; lra.
Qed.

Lemma nabs_R x : nabs ROps x = Rabs x.
Proof.
  unfold nabs. cbn [nleb nsub n0 ROps]. destruct (Rleb 0 x) eqn:E.
  - apply Rleb_true in E. now rewrite Rabs_pos_eq.
  - apply Rleb_false in E. rewrite Rabs_left by exact E. ring.
Qed.

Definition e1 (x : R) : rvec := (x, 0, 0).

Lemma dual_1d a b : b * a = 1 -> dual [e1 b] [e1 a].
Proof.
  intros H. split; [reflexivity|]. intros [|k] [|l] Hk Hl; cbn in Hk, Hl; try lia. cbn. rewrite <- H. ring.
Qed.

(* any sign of the lattice vector: the spacing is |1/b| *)
Lemma ranges1d_complete a b g c r :
  b * a = 1 -> 0 <= r -> consistent [e1 b] g ->
  forall ilc i, length ilc = length [e1 a] -> In i (ball (map fst g) (radd c (rlin ilc [e1 a])) r) ->
  In ilc (product (ranges1d ROps b g (fst (fst c)) r)).
Proof.
  intros Hab Hr Hg ilc i Hl Hi.
  pose proof (ranges_complete [e1 a] [e1 b] g c r (dual_1d a b Hab) Hr Hg ilc i Hl Hi) as H.
  apply in_product in H. apply in_product. unfold ranges in H. unfold ranges1d.
  cbn [length seq combine map] in H. inversion H as [|j r1 js rs Hj Hjs]; subst. constructor; [|exact Hjs].
  cbn [nmul ROps]. rewrite nabs_R. eapply range1d_general_iff; [| | |exact Hj].
  - pose proof (Rabs_pos b). nra.
  - destruct c as [[c1 c2] c3]. cbn. ring.
  - cbn. replace (r * Rabs b * (r * Rabs b)) with (r * r * (Rabs b * Rabs b)) by ring.
    replace (Rabs b * Rabs b) with (b * b); [ring|]. fold (Rsqr (Rabs b)). rewrite <- Rsqr_abs. reflexivity.
Qed.

Lemma local1d_exact a b wrap pts wts c r : b * a = 1 -> 0 <= r ->
  forall it, In it (local1d ROps wd ball [e1 a] [e1 b] wrap pts wts c r) <-> spec_item [e1 a] pts wts c r it.
Proof.
  intros Hab Hr. unfold local1d. cbn [e1 fst].
  apply (finish_exact [e1 a] [e1 b]); try assumption.
  - now apply dual_1d.
  - now apply build_lat_equiv.
  - reflexivity.
  - apply (ranges1d_complete a b); try assumption. apply build_consistent. now apply dual_1d.
Qed.

Lemma local1d_nodup a b wrap pts wts c r : b * a = 1 ->
  NoDup (map fst (local1d ROps wd ball [e1 a] [e1 b] wrap pts wts c r)).
Proof.
  intros Hab. unfold local1d. cbn [e1 fst]. apply (finish_nodup [e1 a] [e1 b]).
  - now apply dual_1d.
  - reflexivity.
  - intros x [<-|[]]. apply range1d_nodup.
Qed.
End Theorems.

(* ------------------------------------------------------------------ the ball-query contract is satisfiable *)
Definition ball_ok (ball : list rvec -> rvec -> R -> list nat) : Prop :=
  (forall pts c r i, 0 <= r ->
     (In i (ball pts c r) <-> (i < length pts)%nat /\ rnorm2 (rsub (nth i pts rv0) c) <= r * r)) /\
  (forall pts c r, NoDup (ball pts c r)).

Lemma exact_ball_ok : ball_ok (exact_ball ROps).
Proof.
  split.
  - intros pts c r i _. unfold exact_ball. rewrite filter_In, in_seq. cbn [nleb nmul ROps]. rewrite Rleb_true. split.
    + intros [[_ H] Hn]. split; [lia|exact Hn].
    + intros [H Hn]. split; [lia|exact Hn].
  - intros pts c r. unfold exact_ball. apply NoDup_filter, seq_NoDup.
Qed.

Definition rnorm (v : rvec) : R := sqrt (rnorm2 v).

Lemma rnorm_le v r : 0 <= r -> (rnorm v <= r <-> rnorm2 v <= r * r).
Proof.
  intros Hr. unfold rnorm. pose proof (rnorm2_nonneg v) as Hv. split; intros H.
  - rewrite <- (sqrt_sqrt (rnorm2 v) Hv). pose proof (sqrt_pos (rnorm2 v)). nra.
  - apply sqrt_le_1_alt in H. rewrite sqrt_square in H by exact Hr. exact H.
Qed.

(* the box of centre displacements enumerated by get_localgrid (general path) *)
Definition image_box (A B : list rvec) (wrap : bool) (pts : list rvec) (c : rvec) (r : R) : list (list Z) :=
  product (ranges ROps B (build ROps A B wrap pts) c r).

Lemma rsub_opp_shift p c J : rsub p (radd c (rsub rv0 J)) = rsub (radd p J) c.
Proof. destruct p as [[? ?] ?], c as [[? ?] ?], J as [[? ?] ?]. vring. Qed.

Lemma complete_lemma : forall (A B : list rvec) wrap pts c r, dual B A -> 0 <= r ->
  forall i (j : list Z), (i < length pts)%nat -> length j = length A ->
  rnorm (rsub (radd (nth i (stored_points ROps A B wrap pts) rv0) (rlin j A)) c) <= r ->
  In (map Z.opp j) (image_box A B wrap pts c r).
Proof.
  intros A B wrap pts c r Hd Hr i j Hi Hj Hn. destruct exact_ball_ok as [Hs Hnd].
  unfold image_box. apply (ranges_complete (exact_ball ROps) Hs A B _ c r Hd Hr (build_consistent A B wrap pts Hd) _ i).
  - now rewrite map_length.
  - apply (Hs _ _ _ _ Hr). destruct Hd as [HlB _]. destruct (build_lat_equiv A B wrap pts HlB) as [Hlen _]. split; [now rewrite Hlen|].
    rewrite <- rlin_opp by exact Hj. rewrite rsub_opp_shift. apply (rnorm_le _ _ Hr). exact Hn.
Qed.

Lemma range_is_code_formula_all A B wrap pts c r k j : dual B A -> 0 <= r -> (k < length A)%nat ->
  let g := build ROps A B wrap pts in
  let b := nth k B rv0 in
  let s := 1 / sqrt (rdot b b) in                                   (* spacings[k] *)
  let lo := lmin ROps (col ROps k (map snd g)) in                   (* frac_intvls[k, 0] *)
  let hi := lmax ROps (col ROps k (map snd g)) in                   (* frac_intvls[k, 1] *)
  In j (nth k (ranges ROps B g c r) []) <->
  (Zceil (lo - rdot b c - r / s) <= j <= Zfloor (hi - rdot b c + r / s))%Z.
Proof.
  intros Hd Hr Hk g b s lo hi. pose proof Hd as [HlB Hdd]. rewrite nth_ranges by lia.
  apply range_is_code_formula_lemma; [exact Hr|].
  pose proof (Hdd k k Hk Hk) as H1. rewrite Nat.eqb_refl in H1.
  pose proof (cauchy_schwarz b (nth k A rv0)) as Hcs. fold b in H1. rewrite H1 in Hcs.
  pose proof (rnorm2_nonneg b). pose proof (rnorm2_nonneg (nth k A rv0)). unfold norm2 in *.
  destruct (Rle_lt_or_eq_dec 0 (rdot b b)) as [Hp|Hz]; [assumption|exact Hp|]. rewrite <- Hz in Hcs. lra.
Qed.

(* 1-D path: the range is ceil(lo - b c - r/s) .. floor(hi - b c + r/s) with s = |1/b| *)
Lemma range1d_is_code_formula_lemma lo hi b c r j : b <> 0 ->
  let s := Rabs (1 / b) in
  In j (range1d ROps lo hi (b * c) (r * nabs ROps b)) <->
  (Zceil (lo - b * c - r / s) <= j <= Zfloor (hi - b * c + r / s))%Z.
Proof.
  intros Hb s. rewrite range1d_in, Zceil_le_iff, Zfloor_ge_iff, nabs_R.
  assert (E : r / s = r * Rabs b).
  { unfold s. unfold Rdiv at 2. rewrite Rmult_1_l, Rabs_inv. field. now apply Rabs_no_R0. }
  rewrite E. reflexivity.
Qed.

(* ------------------------------------------------------------------ final statements (used by C11_props.v) *)
Section Final.
Context {W : Type} (wd : W).
Variable ball : list rvec -> rvec -> R -> list nat.
Hypothesis Hball : ball_ok ball.
Let bs := proj1 Hball.
Let bn := proj2 Hball.

Lemma local_grid_exact_lemma A B wrap pts wts c r : dual B A -> 0 <= r ->
  forall i q w, In (i, q, w) (local ROps wd ball A B wrap pts wts c r) <->
    ((i < length pts)%nat /\ w = nth i wts wd /\
     exists j, length j = length A /\ q = radd (nth i pts rv0) (rlin j A) /\ rnorm (rsub q c) <= r).
Proof.
  intros Hd Hr i q w. rewrite (local_exact wd ball bs A B wrap pts wts c r Hd Hr). cbn.
  split; intros [H1 [H2 [j [H3 [H4 H5]]]]]; (split; [exact H1|split; [exact H2|]]); exists j; (split; [exact H3|split; [exact H4|]]);
    now apply (rnorm_le _ _ Hr).
Qed.

Lemma sound_lemma A B wrap pts wts c r : dual B A -> 0 <= r ->
  forall i q w, In (i, q, w) (local ROps wd ball A B wrap pts wts c r) ->
  exists j, length j = length A /\ q = radd (nth i pts rv0) (rlin j A) /\ rnorm (rsub q c) <= r.
Proof. intros Hd Hr i q w H. apply (local_grid_exact_lemma A B wrap pts wts c r Hd Hr) in H. tauto. Qed.

Lemma weights_indices_parent_lemma A B wrap pts wts c r : dual B A -> 0 <= r ->
  forall i q w, In (i, q, w) (local ROps wd ball A B wrap pts wts c r) ->
  (i < length pts)%nat /\ w = nth i wts wd.
Proof. intros Hd Hr i q w H. apply (local_grid_exact_lemma A B wrap pts wts c r Hd Hr) in H. tauto. Qed.

Lemma rsub_as_add p J : rsub p J = radd p (rsub rv0 J).
Proof. destruct p as [[? ?] ?], J as [[? ?] ?]. vring. Qed.

Lemma position_lemma A B wrap pts wts c r : dual B A -> 0 <= r ->
  forall i q w, In (i, q, w) (local ROps wd ball A B wrap pts wts c r) ->
  (exists j, length j = length A /\ q = radd (nth i pts rv0) (rlin j A)) /\
  (exists j, length j = length A /\ q = radd (nth i (stored_points ROps A B wrap pts) rv0) (rlin j A)).
Proof.
  intros Hd Hr i q w H. split.
  - apply (sound_lemma A B wrap pts wts c r Hd Hr) in H as [j [H1 [H2 _]]]. now exists j.
  - unfold local in H. cbv zeta in H. unfold finish in H. apply gather_in in H. destruct H as [ilc [Hb [_ [Hq _]]]].
    apply product_length in Hb. rewrite ranges_length in Hb. destruct Hd as [HlB _].
    exists (map Z.opp ilc). split; [rewrite map_length; congruence|].
    rewrite <- rlin_opp by congruence. rewrite Hq. apply rsub_as_add.
Qed.

Lemma no_duplicates_lemma A B wrap pts wts c r : dual B A ->
  NoDup (map fst (local ROps wd ball A B wrap pts wts c r)).
Proof. intros Hd. now apply (local_nodup wd ball bn). Qed.

Lemma wrap_irrelevant_lemma A B pts wts c r : dual B A -> 0 <= r ->
  forall it, In it (local ROps wd ball A B true pts wts c r) <->
             In it (local ROps wd ball A B false pts wts c r).
Proof. intros Hd Hr. now apply (local_wrap_irrelevant wd ball bs). Qed.

(* a sphere containing no image gives the empty local grid *)
Lemma empty_sphere_lemma A B wrap pts wts c r : dual B A -> 0 <= r ->
  (forall i j, (i < length pts)%nat -> length j = length A ->
               ~ rnorm (rsub (radd (nth i pts rv0) (rlin j A)) c) <= r) ->
  local ROps wd ball A B wrap pts wts c r = [].
Proof.
  intros Hd Hr He. apply no_member_nil. intros [[i q] w] H.
  apply (local_grid_exact_lemma A B wrap pts wts c r Hd Hr) in H as [H1 [_ [j [H3 [-> H5]]]]].
  now apply (He i j).
Qed.

Lemma path1d_exact_lemma a b wrap pts wts c r : b * a = 1 -> 0 <= r ->
  (forall i q w, In (i, q, w) (local1d ROps wd ball [e1 a] [e1 b] wrap pts wts c r) <->
    ((i < length pts)%nat /\ w = nth i wts wd /\
     exists j, length j = 1%nat /\ q = radd (nth i pts rv0) (rlin j [e1 a]) /\ rnorm (rsub q c) <= r)) /\
  NoDup (map fst (local1d ROps wd ball [e1 a] [e1 b] wrap pts wts c r)).
Proof.
  intros Hab Hr. split; [|now apply (local1d_nodup wd ball bn)].
  intros i q w. rewrite (local1d_exact wd ball bs a b wrap pts wts c r Hab Hr). cbn.
  split; intros [H1 [H2 [j [H3 [H4 H5]]]]]; (split; [exact H1|split; [exact H2|]]); exists j; (split; [exact H3|split; [exact H4|]]);
    now apply (rnorm_le _ _ Hr).
Qed.
End Final.

(* statements whose proofs do not need the ball contract, in the uniform shape used by C11_props.v *)
Lemma no_lattice_lemma_b : forall W (wd : W) ball, ball_ok ball -> forall wrap pts wts c r,
  local ROps wd ball [] [] wrap pts wts c r = map (fun i => (i, nth i pts rv0, nth i wts wd)) (ball pts c r) /\
  local1d ROps wd ball [] [] wrap pts wts c r = map (fun i => (i, nth i pts rv0, nth i wts wd)) (ball pts c r).
Proof. intros W wd ball _ wrap pts wts c r. split; [apply local_no_lattice | apply local1d_no_lattice]. Qed.

(* ------------------------------------------------------------------ the hypotheses are satisfiable *)
(* a skewed 2-D cell a1 = (1,0), a2 = (7,1) with its reciprocal vectors; a 3-D cell with a negative vector *)
Example dual_skew_2d : dual [(1, -7, 0); (0, 1, 0)] [(1, 0, 0); (7, 1, 0)].
Proof.
  split; [reflexivity|]. intros [|[|k]] [|[|l]] Hk Hl; cbn in Hk, Hl; try lia; cbn; ring.
Qed.
Example dual_neg_3d : dual [(1/2, 0, 0); (1/4, -1/2, 0); (0, 0, -1)] [(2, 1, 0); (0, -2, 0); (0, 0, -1)].
Proof.
  split; [reflexivity|]. intros [|[|[|k]]] [|[|[|l]]] Hk Hl; cbn in Hk, Hl; try lia; cbn; field.
Qed.
Example dual_neg_1d : dual [e1 (-1/4)] [e1 (-4)].
Proof. apply dual_1d. lra. Qed.
Example ball_contract_satisfiable : exists ball, ball_ok ball.
Proof. exists (exact_ball ROps). apply exact_ball_ok. Qed.
(* a non-empty sphere exists for the skewed cell, with an image exactly on the sphere (|(0,1)| = 1) *)
Example sphere_nonempty_skew :
  rnorm (rsub (radd (0, 0, 0) (rlin [(-7)%Z; 1%Z] [(1, 0, 0); (7, 1, 0)])) (0, 0, 0)) <= 1.
Proof. apply rnorm_le; [lra|]. cbn. lra. Qed.
(* an empty sphere exists: the hypothesis of empty_sphere_gives_empty_grid is satisfiable *)
Example sphere_empty_example : forall i j, (i < 1)%nat -> length j = 1%nat ->
  ~ rnorm (rsub (radd (nth i [e1 0] rv0) (rlin j [e1 10])) (e1 5)) <= 1.
Proof.
  intros i j Hi Hj H. apply rnorm_le in H; [|lra]. assert (i = 0%nat) by lia. subst.
  destruct j as [|j0 [|? ?]]; try discriminate. cbn in H.
  destruct (Z_le_gt_dec j0 0) as [Hz|Hz].
  - apply IZR_le in Hz. nra.
  - assert (Hz' : (1 <= j0)%Z) by lia. apply IZR_le in Hz'. nra.
Qed.
