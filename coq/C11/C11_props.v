(* C11 property theorems (statements only; proofs are in C11_proofs.v).
   Model: C11_model.v (local = 2-D array path of PeriodicGrid.get_localgrid, local1d = 1-D array path),
   mirroring the source after the fixes of the empty-sphere / negative 1-D vector / 1-D no-lattice defects.
   Vectors are triples of reals (dimension <= 3), A = lattice vectors, B = reciprocal vectors with
   dual B A (b_k . a_l = delta_kl); ball = the k-d tree ball query with contract ball_ok. *)
From Coq Require Import ZArith List Bool Reals.
From Flocq Require Import Raux.
From P Require Import C11_model C11_proofs.
Import ListNotations.
Open Scope R_scope.

(* every pair (grid point i, lattice translation sum_k j_k a_k) inside the sphere has its centre displacement
   -j inside the enumerated box; any number of lattice vectors, any orientation/sign, wrapped or not *)
Theorem complete : forall (A B : list rvec) wrap pts c r, dual B A -> 0 <= r ->
  forall i (j : list Z), (i < length pts)%nat -> length j = length A ->
  rnorm (rsub (radd (nth i (stored_points ROps A B wrap pts) rv0) (rlin j A)) c) <= r ->
  In (map Z.opp j) (image_box A B wrap pts c r).
Proof. exact complete_lemma. Qed.
Print Assumptions complete.

(* the ranges of the model are the code's ceil(min_k - c_k - r/s_k) .. floor(max_k - c_k + r/s_k), s_k = 1/|b_k| *)
Theorem range_is_code_formula : forall A B wrap pts c r k j, dual B A -> 0 <= r -> (k < length A)%nat ->
  let g := build ROps A B wrap pts in
  let b := nth k B rv0 in
  let s := 1 / sqrt (rdot b b) in
  let lo := lmin ROps (col ROps k (map snd g)) in
  let hi := lmax ROps (col ROps k (map snd g)) in
  In j (nth k (ranges ROps B g c r) []) <->
  (Zceil (lo - rdot b c - r / s) <= j <= Zfloor (hi - rdot b c + r / s))%Z.
Proof. exact range_is_code_formula_all. Qed.
Print Assumptions range_is_code_formula.

(* 1-D array path: the range is the code's ceil(lo - b c - r/s) .. floor(hi - b c + r/s), s = abs(1/b) *)
Theorem range1d_is_code_formula : forall lo hi b c r j, b <> 0 ->
  let s := Rabs (1 / b) in
  In j (range1d ROps lo hi (b * c) (r * nabs ROps b)) <->
  (Zceil (lo - b * c - r / s) <= j <= Zfloor (hi - b * c + r / s))%Z.
Proof. exact range1d_is_code_formula_lemma. Qed.
Print Assumptions range1d_is_code_formula.

(* the local grid is exactly the set of (parent index, parent point + lattice translation, parent weight)
   with the translated point within the radius (closed ball) *)
Theorem local_grid_exact : forall W (wd : W) ball, ball_ok ball ->
  forall A B wrap pts wts c r, dual B A -> 0 <= r ->
  forall i q w, In (i, q, w) (local ROps wd ball A B wrap pts wts c r) <->
    ((i < length pts)%nat /\ w = nth i wts wd /\
     exists j, length j = length A /\ q = radd (nth i pts rv0) (rlin j A) /\ rnorm (rsub q c) <= r).
Proof. exact (@local_grid_exact_lemma). Qed.
Print Assumptions local_grid_exact.

Theorem sound : forall W (wd : W) ball, ball_ok ball ->
  forall A B wrap pts wts c r, dual B A -> 0 <= r ->
  forall i q w, In (i, q, w) (local ROps wd ball A B wrap pts wts c r) ->
  exists j, length j = length A /\ q = radd (nth i pts rv0) (rlin j A) /\ rnorm (rsub q c) <= r.
Proof. exact (@sound_lemma). Qed.
Print Assumptions sound.

(* each (grid point, translation) once: no two entries share parent index and position *)
Theorem no_duplicates : forall W (wd : W) ball, ball_ok ball ->
  forall A B wrap pts wts c r, dual B A ->
  NoDup (map fst (local ROps wd ball A B wrap pts wts c r)).
Proof. exact (@no_duplicates_lemma). Qed.
Print Assumptions no_duplicates.

Theorem position_is_parent_plus_translation : forall W (wd : W) ball, ball_ok ball ->
  forall A B wrap pts wts c r, dual B A -> 0 <= r ->
  forall i q w, In (i, q, w) (local ROps wd ball A B wrap pts wts c r) ->
  (exists j, length j = length A /\ q = radd (nth i pts rv0) (rlin j A)) /\
  (exists j, length j = length A /\ q = radd (nth i (stored_points ROps A B wrap pts) rv0) (rlin j A)).
Proof. exact (@position_lemma). Qed.
Print Assumptions position_is_parent_plus_translation.

Theorem weights_indices_parent : forall W (wd : W) ball, ball_ok ball ->
  forall A B wrap pts wts c r, dual B A -> 0 <= r ->
  forall i q w, In (i, q, w) (local ROps wd ball A B wrap pts wts c r) ->
  (i < length pts)%nat /\ w = nth i wts wd.
Proof. exact (@weights_indices_parent_lemma). Qed.
Print Assumptions weights_indices_parent.

Theorem wrap_irrelevant : forall W (wd : W) ball, ball_ok ball ->
  forall A B pts wts c r, dual B A -> 0 <= r ->
  forall it, In it (local ROps wd ball A B true pts wts c r) <->
             In it (local ROps wd ball A B false pts wts c r).
Proof. exact (@wrap_irrelevant_lemma). Qed.
Print Assumptions wrap_irrelevant.

(* without lattice vectors (both array layouts): the plain grid's local grid
   (points[indices], weights[indices], indices) *)
Theorem no_lattice_is_plain_grid : forall W (wd : W) ball, ball_ok ball -> forall wrap pts wts c r,
  local ROps wd ball [] [] wrap pts wts c r = map (fun i => (i, nth i pts rv0, nth i wts wd)) (ball pts c r) /\
  local1d ROps wd ball [] [] wrap pts wts c r = map (fun i => (i, nth i pts rv0, nth i wts wd)) (ball pts c r).
Proof. exact no_lattice_lemma_b. Qed.
Print Assumptions no_lattice_is_plain_grid.

(* a sphere containing no image gives the empty local grid (no exception) *)
Theorem empty_sphere_gives_empty_grid : forall W (wd : W) ball, ball_ok ball ->
  forall A B wrap pts wts c r, dual B A -> 0 <= r ->
  (forall i j, (i < length pts)%nat -> length j = length A ->
               ~ rnorm (rsub (radd (nth i pts rv0) (rlin j A)) c) <= r) ->
  local ROps wd ball A B wrap pts wts c r = [].
Proof. exact (@empty_sphere_lemma). Qed.
Print Assumptions empty_sphere_gives_empty_grid.

(* 1-D array path with a lattice vector of either sign: exact and duplicate-free *)
Theorem path1d_exact : forall W (wd : W) ball, ball_ok ball ->
  forall a b wrap pts wts c r, b * a = 1 -> 0 <= r ->
  (forall i q w, In (i, q, w) (local1d ROps wd ball [e1 a] [e1 b] wrap pts wts c r) <->
    ((i < length pts)%nat /\ w = nth i wts wd /\
     exists j, length j = 1%nat /\ q = radd (nth i pts rv0) (rlin j [e1 a]) /\ rnorm (rsub q c) <= r)) /\
  NoDup (map fst (local1d ROps wd ball [e1 a] [e1 b] wrap pts wts c r)).
Proof. exact (@path1d_exact_lemma). Qed.
Print Assumptions path1d_exact.

(* the contract assumed of the k-d tree is satisfied by the exact filter used for execution *)
Theorem ball_contract_exact_filter : ball_ok (exact_ball ROps).
Proof. exact exact_ball_ok. Qed.
Print Assumptions ball_contract_exact_filter.
