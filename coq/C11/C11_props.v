(* C11 property theorems (statements only; proofs are in C11_proofs.v).
   Model: C11_model.v (local = 2-D array path of PeriodicGrid.get_localgrid, local1d = 1-D array path).
   Vectors are triples of reals (dimension <= 3), A = lattice vectors, B = reciprocal vectors with
   dual B A (b_k . a_l = delta_kl); ball = the k-d tree ball query with contract ball_ok. *)
From Coq Require Import ZArith List Bool Reals.
From Flocq Require Import Raux.
From P Require Import C11_model C11_proofs.
Import ListNotations.
Open Scope R_scope.

(* every pair (grid point i, lattice translation sum_k j_k a_k) inside the sphere has its centre displacement
   -j inside the enumerated box; any number of lattice vectors, any orientation/sign, wrapped or not *)
Theorem complete : forall (A B : list rvec) wrap pts c r, dual B A -> 0 <= r ->
  forall i (j : list Z), (i < length pts)%nat -> length j = length A ->
  rnorm (rsub (radd (nth i (stored_points ROps A B wrap pts) rv0) (rlin j A)) c) <= r ->
  In (map Z.opp j) (image_box A B wrap pts c r).
Proof. exact complete_lemma. Qed.
Print Assumptions complete.

(* the ranges of the model are the code's ceil(min_k - c_k - r/s_k) .. floor(max_k - c_k + r/s_k), s_k = 1/|b_k| *)
Theorem range_is_code_formula : forall A B wrap pts c r k j, dual B A -> 0 <= r -> (k < length A)%nat ->
  let g := build ROps A B wrap pts in
  let b := nth k B rv0 in
  let s := 1 / sqrt (rdot b b) in
  let lo := lmin ROps (col ROps k (map snd g)) in
  let hi := lmax ROps (col ROps k (map snd g)) in
  In j (nth k (ranges ROps B g c r) []) <->
  (Zceil (lo - rdot b c - r / s) <= j <= Zfloor (hi - rdot b c + r / s))%Z.
Proof. exact range_is_code_formula_all. Qed.
Print Assumptions range_is_code_formula.

(* the local grid is exactly the set of (parent index, parent point + lattice translation, parent weight)
   with the translated point within the radius (errors of the model count as the empty list: see
   ok_iff_sphere_nonempty / empty_refuted) *)
Theorem local_grid_exact : forall W (wd : W) ball, ball_ok ball ->
  forall A B wrap pts wts c r, dual B A -> 0 <= r ->
  forall i q w, In (i, q, w) (items (local ROps wd ball A B wrap pts wts c r)) <->
    ((i < length pts)%nat /\ w = nth i wts wd /\
     exists j, length j = length A /\ q = radd (nth i pts rv0) (rlin j A) /\ rnorm (rsub q c) <= r).
Proof. exact (@local_grid_exact_lemma). Qed.
Print Assumptions local_grid_exact.

Theorem sound : forall W (wd : W) ball, ball_ok ball ->
  forall A B wrap pts wts c r, dual B A -> 0 <= r ->
  forall i q w, In (i, q, w) (items (local ROps wd ball A B wrap pts wts c r)) ->
  exists j, length j = length A /\ q = radd (nth i pts rv0) (rlin j A) /\ rnorm (rsub q c) <= r.
Proof. exact (@sound_lemma). Qed.
Print Assumptions sound.

(* each (grid point, translation) once: no two entries share parent index and position *)
Theorem no_duplicates : forall W (wd : W) ball, ball_ok ball ->
  forall A B wrap pts wts c r, dual B A ->
  NoDup (map fst (items (local ROps wd ball A B wrap pts wts c r))).
Proof. exact (@no_duplicates_lemma). Qed.
Print Assumptions no_duplicates.

Theorem position_is_parent_plus_translation : forall W (wd : W) ball, ball_ok ball ->
  forall A B wrap pts wts c r, dual B A -> 0 <= r ->
  forall i q w, In (i, q, w) (items (local ROps wd ball A B wrap pts wts c r)) ->
  (exists j, length j = length A /\ q = radd (nth i pts rv0) (rlin j A)) /\
  (exists j, length j = length A /\ q = radd (nth i (stored_points ROps A B wrap pts) rv0) (rlin j A)).
Proof. exact (@position_lemma). Qed.
Print Assumptions position_is_parent_plus_translation.

Theorem weights_indices_parent : forall W (wd : W) ball, ball_ok ball ->
  forall A B wrap pts wts c r, dual B A -> 0 <= r ->
  forall i q w, In (i, q, w) (items (local ROps wd ball A B wrap pts wts c r)) ->
  (i < length pts)%nat /\ w = nth i wts wd.
Proof. exact (@weights_indices_parent_lemma). Qed.
Print Assumptions weights_indices_parent.

Theorem wrap_irrelevant : forall W (wd : W) ball, ball_ok ball ->
  forall A B pts wts c r, dual B A -> 0 <= r ->
  (forall it, In it (items (local ROps wd ball A B true pts wts c r)) <->
              In it (items (local ROps wd ball A B false pts wts c r))) /\
  is_ok (local ROps wd ball A B true pts wts c r) = is_ok (local ROps wd ball A B false pts wts c r).
Proof. exact (@wrap_irrelevant_lemma). Qed.
Print Assumptions wrap_irrelevant.

(* without lattice vectors: the plain grid's local grid (points[indices], weights[indices], indices) *)
Theorem no_lattice_is_plain_grid : forall W (wd : W) ball, ball_ok ball ->
  forall wrap pts wts c r,
  items (local ROps wd ball [] [] wrap pts wts c r) =
  map (fun i => (i, nth i pts rv0, nth i wts wd)) (ball pts c r).
Proof. exact no_lattice_lemma_b. Qed.
Print Assumptions no_lattice_is_plain_grid.

(* the model returns a grid iff the sphere contains at least one image ... *)
Theorem ok_iff_sphere_nonempty : forall W (wd : W) ball, ball_ok ball ->
  forall A B wrap pts wts c r, dual B A -> 0 <= r ->
  (is_ok (local ROps wd ball A B wrap pts wts c r) = true <->
   exists i j, (i < length pts)%nat /\ length j = length A /\
               rnorm (rsub (radd (nth i pts rv0) (rlin j A)) c) <= r).
Proof. exact (@ok_iff_nonempty_lemma). Qed.
Print Assumptions ok_iff_sphere_nonempty.

(* ... so "for spheres containing no image" fails on the pinned code: it raises instead of returning an
   empty local grid (AssertionError when a range is empty, ValueError from np.concatenate otherwise) *)
Theorem empty_refuted : forall W (wd : W) ball, ball_ok ball ->
  (forall A B wrap pts wts c r, dual B A -> 0 <= r ->
     (forall i j, (i < length pts)%nat -> length j = length A ->
                  ~ rnorm (rsub (radd (nth i pts rv0) (rlin j A)) c) <= r) ->
     is_ok (local ROps wd ball A B wrap pts wts c r) = false) /\
  (forall w, dual [e1 (1/10)] [e1 10] /\ local ROps wd ball [e1 10] [e1 (1/10)] false [e1 0] [w] (e1 5) 1 = AssertFail) /\
  (forall w, dual [] [] /\ local ROps wd ball [] [] false [e1 0] [w] (e1 5) 1 = EmptyConcat).
Proof. exact (@empty_refuted_lemma). Qed.
Print Assumptions empty_refuted.

(* 1-D array path with a positive lattice vector: exact and duplicate-free *)
Theorem path1d_exact : forall W (wd : W) ball, ball_ok ball ->
  forall a b wrap pts wts c r, b * a = 1 -> 0 < a -> 0 <= r ->
  (forall i q w, In (i, q, w) (items (local1d ROps wd ball [e1 a] [e1 b] wrap pts wts c r)) <->
    ((i < length pts)%nat /\ w = nth i wts wd /\
     exists j, length j = 1%nat /\ q = radd (nth i pts rv0) (rlin j [e1 a]) /\ rnorm (rsub q c) <= r)) /\
  NoDup (map fst (items (local1d ROps wd ball [e1 a] [e1 b] wrap pts wts c r))).
Proof. exact (@path1d_exact_lemma). Qed.
Print Assumptions path1d_exact.

(* 1-D array path, negative lattice vector a = -4: point 1, centre 1, radius 7/2 (the point itself is in the
   sphere) raises the assertion: the path uses the signed 1/b as spacing *)
Theorem neg_1d_refuted : forall W (wd : W) ball, ball_ok ball -> forall w,
  (-1/4) * (-4) = 1 /\
  local1d ROps wd ball [e1 (-4)] [e1 (-1/4)] false [e1 1] [w] (e1 1) (7/2) = AssertFail /\
  rnorm (rsub (radd (e1 1) (rlin [0%Z] [e1 (-4)])) (e1 1)) <= 7/2.
Proof. exact neg_1d_refuted_lemma_b. Qed.
Print Assumptions neg_1d_refuted.

(* 1-D array path without lattice vectors: the constructor raises on every input *)
Theorem no_lattice_1d_refuted : forall W (wd : W) ball, ball_ok ball -> forall wrap pts wts c r,
  local1d ROps wd ball [] [] wrap pts wts c r = Broadcast.
Proof. exact no_lattice_1d_refuted_lemma_b. Qed.
Print Assumptions no_lattice_1d_refuted.

(* the contract assumed of the k-d tree is satisfied by the exact filter used for execution *)
Theorem ball_contract_exact_filter : ball_ok (exact_ball ROps).
Proof. exact exact_ball_ok. Qed.
Print Assumptions ball_contract_exact_filter.
