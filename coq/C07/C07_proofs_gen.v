(* C07 — facts about the normalisation statements of MolGrid.from_pruned as re-translated from the current
   source (C07_gen.v: norm_sectors_gen).  These go through on the pinned code and on the repaired code. *)
From Coq Require Import List Arith ZArith Bool Lia.
From P Require Import C07_model C07_gen C07_proofs.
Import ListNotations.

Lemma norm_gen_list_ok : forall RV : Type, norm_list_ok (@norm_sectors_gen RV).
Proof. intros RV. split; intros; [reflexivity | destruct d; reflexivity]. Qed.

Section Gen.
Context {RG CT RAD RV DP : Type}.
Variable default_params : Z -> option DP.

Lemma fanout_pruned_gen_lemma : forall atnums (atcoords : list CT) (radius : radius_arg RAD) (r_sectors : list (list RV)) d s
  (rgrid : rgrid_arg RG) rotate calls,
  list_forms d s ->
  (from_pruned_fanout default_params atnums atcoords radius r_sectors d s rgrid rotate = Some calls <->
   length atnums = length atcoords /\ sec_lengths_ok d s (length atcoords) (length r_sectors) /\
   length calls = length atnums /\
   forall i a, nth_error atnums i = Some a ->
     exists rad ra rs dd ss c,
       nth_error calls i = Some (PrunedCall rad ra rs dd ss c rotate) /\
       rgrid_for default_params rgrid i a rad /\ radius_for radius (length atcoords) i ra /\
       nth_error r_sectors i = Some rs /\ sectors_for d s (length atcoords) i dd ss /\
       nth_error atcoords i = Some c).
Proof. intros. apply fanout_pruned_lemma; [apply norm_gen_list_ok | assumption]. Qed.

Lemma fanout_pruned_gen_documented_lemma : forall atnums (atcoords : list CT) (radius : radius_arg RAD) (r_sectors : list (list RV)) d s
  (rgrid : rgrid_arg RG) rotate,
  list_forms d s ->
  from_pruned_fanout default_params atnums atcoords radius r_sectors d s rgrid rotate =
  from_pruned_documented default_params atnums atcoords radius r_sectors d s rgrid rotate.
Proof. intros. apply fanout_pruned_documented_lemma; [apply norm_gen_list_ok | assumption]. Qed.

End Gen.
