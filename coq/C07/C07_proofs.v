(* C07 — proofs about the model of MolGrid (C07_model.v). *)
From Coq Require Import List Arith ZArith Bool Lia Ring_theory Reals Lra.
From P Require Import C07_model.
Import ListNotations.
Local Open Scope nat_scope.

(* ------------------------------------------------------------------ generic list facts *)
Lemma set_nth_app_mid : forall A (a b : list A) x y, set_nth (length a) x (a ++ y :: b) = a ++ x :: b.
Proof. induction a; intros; cbn; [reflexivity | now rewrite IHa]. Qed.

Lemma set_nth_length : forall A i (x : A) l, length (set_nth i x l) = length l.
Proof. induction i; destruct l; cbn; auto. Qed.

Lemma firstn_app_exact : forall A (a b : list A), firstn (length a) (a ++ b) = a.
Proof. induction a; intros; cbn; [now destruct b | now rewrite IHa]. Qed.

Lemma skipn_app_exact : forall A (a b : list A), skipn (length a) (a ++ b) = b.
Proof. induction a; intros; cbn; auto. Qed.

Lemma skipn_app_plus : forall A (a b : list A) k, skipn (length a + k) (a ++ b) = skipn k b.
Proof. induction a; intros; cbn; auto. Qed.

Lemma skipn_repeat : forall A (x : A) k n, skipn k (repeat x n) = repeat x (n - k).
Proof. induction k; destruct n; cbn; auto. Qed.

Lemma repeat_S_split : forall A (x : A) n, 0 < n -> repeat x n = x :: repeat x (n - 1).
Proof. destruct n; intros; [lia | cbn; now rewrite Nat.sub_0_r]. Qed.

Lemma slice_app_exact : forall A (a b c : list A),
  slice (length a) (length a + length b) (a ++ b ++ c) = b.
Proof.
  intros. unfold slice. rewrite skipn_app_exact.
  replace (length a + length b - length a) with (length b) by lia. apply firstn_app_exact.
Qed.

Lemma map2_length : forall A B C (f : A -> B -> C) a b, length (map2 f a b) = Nat.min (length a) (length b).
Proof. induction a; destruct b; cbn; auto. Qed.

Lemma map2_app : forall A B C (f : A -> B -> C) a1 a2 b,
  map2 f (a1 ++ a2) b = map2 f a1 (firstn (length a1) b) ++ map2 f a2 (skipn (length a1) b).
Proof.
  induction a1; intros; cbn; [reflexivity|].
  destruct b; cbn.
  - now destruct a2.
  - now rewrite IHa1.
Qed.

Lemma firstn_map2 : forall A B C (f : A -> B -> C) k a b,
  firstn k (map2 f a b) = map2 f (firstn k a) (firstn k b).
Proof. induction k; intros; cbn; [reflexivity|]. destruct a, b; cbn; auto. now rewrite IHk. Qed.

Lemma skipn_map2 : forall A B C (f : A -> B -> C) k a b,
  skipn k (map2 f a b) = map2 f (skipn k a) (skipn k b).
Proof.
  induction k; intros; cbn; [reflexivity|]. destruct a as [|x a], b as [|y b]; cbn; auto.
  now destruct (skipn k a).
Qed.

Lemma slice_map2 : forall A B C (f : A -> B -> C) i j a b,
  slice i j (map2 f a b) = map2 f (slice i j a) (slice i j b).
Proof. intros. unfold slice. now rewrite skipn_map2, firstn_map2. Qed.

Lemma skipn_add : forall A s a (l : list A), skipn a (skipn s l) = skipn (s + a) l.
Proof. induction s; intros; cbn; [reflexivity|]. destruct l; [now destruct a | apply IHs]. Qed.

Lemma slice_skipn : forall A (l : list A) s a b, slice a b (skipn s l) = slice (s + a) (s + b) l.
Proof.
  intros. unfold slice. rewrite skipn_add. now replace (s + b - (s + a)) with (b - a) by lia.
Qed.

(* ------------------------------------------------------------------ mapM *)
Lemma mapM_nth : forall A B (f : A -> option B) l r,
  mapM f l = Some r <->
  length r = length l /\ forall i x, nth_error l i = Some x -> exists y, nth_error r i = Some y /\ f x = Some y.
Proof.
  induction l as [|a l IHl]; intros r; cbn.
  - split.
    + intros H; inversion H; subst; split; auto. intros [|] ? H0; inversion H0.
    + intros [H _]. destruct r; [reflexivity | inversion H].
  - split.
    + destruct (f a) as [y|] eqn:Ef; [|discriminate].
      destruct (mapM f l) as [ys|] eqn:Em; [|discriminate].
      intros H; inversion H; subst; clear H.
      destruct (proj1 (IHl ys) eq_refl) as [Hl Hn].
      split; [cbn; now rewrite Hl|]. intros [|i] x Hx; cbn in *.
      * inversion Hx; subst. eauto.
      * auto.
    + intros [Hl Hn]. destruct r as [|y r]; [inversion Hl|]. cbn in Hl.
      destruct (Hn 0 a eq_refl) as [y' [H1 H2]]. cbn in H1. inversion H1; subst. rewrite H2.
      assert (E : mapM f l = Some r).
      { apply IHl. split; [lia|]. intros i x Hx. apply (Hn (S i) x Hx). }
      now rewrite E.
Qed.

Lemma nth_error_seq : forall n s i, i < n -> nth_error (seq s n) i = Some (s + i).
Proof.
  induction n; intros; [lia|]. destruct i; cbn; [f_equal; lia|]. rewrite IHn by lia. f_equal; lia.
Qed.

Lemma nth_error_seq_inv : forall n s i x, nth_error (seq s n) i = Some x -> i < n /\ x = s + i.
Proof.
  intros. assert (i < n). { rewrite <- (seq_length n s). apply nth_error_Some. congruence. }
  split; auto. rewrite nth_error_seq in H by auto. now inversion H.
Qed.

Lemma mapM_seq : forall B (f : nat -> option B) n r,
  mapM f (seq 0 n) = Some r <-> length r = n /\ forall i, i < n -> exists y, nth_error r i = Some y /\ f i = Some y.
Proof.
  intros. rewrite mapM_nth, seq_length. split; intros [Hl H]; split; auto.
  - intros i Hi. apply (H i i). now rewrite nth_error_seq.
  - intros i x Hx. apply nth_error_seq_inv in Hx as [Hi ->]. cbn. auto.
Qed.

Lemma nth_error_combine : forall A B (a : list A) (b : list B) i x y,
  nth_error (combine a b) i = Some (x, y) <-> nth_error a i = Some x /\ nth_error b i = Some y.
Proof.
  induction a; intros; cbn.
  - split; [destruct i; discriminate | intros [H _]; destruct i; discriminate].
  - destruct b; cbn.
    + split; [destruct i; discriminate | intros [_ H]; destruct i; discriminate].
    + destruct i; cbn; [|apply IHa]. split.
      * intros H; inversion H; auto.
      * intros [H1 H2]; inversion H1; inversion H2; auto.
Qed.

(* ================================================================== MolGrid.__init__ *)
Section Init.
Context {T : Type} (o : NumOps T).
Notation atgrid := (@atgrid T).
Notation wf := (@wf_atgrid T).

Lemma total_size_app : forall a b : list atgrid, total_size (a ++ b) = total_size a + total_size b.
Proof. induction a; intros; cbn; [reflexivity|]. unfold total_size in *. cbn. rewrite IHa. lia. Qed.

Lemma total_size_single : forall g : atgrid, total_size [g] = asize g.
Proof. intros. unfold total_size; cbn. lia. Qed.

Lemma offsets_length : forall (gs : list atgrid) s, length (offsets s gs) = S (length gs).
Proof. induction gs; intros; cbn; auto. Qed.

Lemma offsets_snoc : forall (gs : list atgrid) s g, offsets s (gs ++ [g]) = offsets s gs ++ [s + total_size gs + asize g].
Proof.
  induction gs; intros; cbn.
  - unfold total_size; cbn. now rewrite Nat.add_0_r.
  - rewrite IHgs. unfold total_size; cbn. repeat (first [lia | f_equal]).
Qed.

Lemma offsets_nth_firstn : forall (gs : list atgrid) s k, k <= length gs -> nth k (offsets s gs) 0 = s + total_size (firstn k gs).
Proof.
  induction gs; intros; cbn in *.
  - assert (k = 0) by lia; subst. unfold total_size; cbn. lia.
  - destruct k; cbn; [unfold total_size; cbn; lia|]. rewrite IHgs by lia. unfold total_size; cbn. lia.
Qed.

Lemma offsets_last : forall (gs : list atgrid) s, nth (length gs) (offsets s gs) 0 = s + total_size gs.
Proof. intros. rewrite offsets_nth_firstn by lia. now rewrite firstn_all. Qed.

Lemma offsets_removelast : forall (gs : list atgrid) s, exists pre, offsets s gs = pre ++ [s + total_size gs] /\ length pre = length gs.
Proof.
  induction gs; intros; cbn.
  - exists []. unfold total_size; cbn. now rewrite Nat.add_0_r.
  - destruct (IHgs (s + asize a)) as [pre [E L]]. exists (s :: pre). rewrite E. cbn. split; [|lia].
    unfold total_size; cbn. repeat (first [lia | f_equal]).
Qed.

Lemma firstn_S_nth : forall (gs : list atgrid) k d, k < length gs -> firstn (S k) gs = firstn k gs ++ [nth k gs d].
Proof.
  induction gs; intros; cbn in *; [lia|]. destruct k; cbn; [reflexivity|]. f_equal. apply IHgs. lia.
Qed.

Lemma offsets_step : forall (gs : list atgrid) s k d, k < length gs ->
  nth (S k) (offsets s gs) 0 = nth k (offsets s gs) 0 + asize (nth k gs d).
Proof.
  intros. rewrite !offsets_nth_firstn by lia. rewrite (firstn_S_nth gs k d) by auto.
  rewrite total_size_app. unfold total_size at 2; cbn. lia.
Qed.

Lemma concat_pts_length : forall gs : list atgrid, Forall wf gs -> length (concat (map (@apts T) gs)) = total_size gs.
Proof.
  induction 1; cbn; [reflexivity|]. rewrite app_length, IHForall. unfold total_size; cbn. unfold asize.
  now rewrite H.
Qed.

Lemma concat_wts_length : forall gs : list atgrid, length (concat (map (@awts T) gs)) = total_size gs.
Proof. induction gs; cbn; [reflexivity|]. rewrite app_length, IHgs. reflexivity. Qed.

Definition inv (n size : nat) (done : list atgrid) (s : loopstate) : Prop :=
  ls_atcoords s = map (@acen T) done ++ repeat (zero3 o) (n - length done) /\
  ls_indices s = offsets 0 done ++ repeat 0 (n - length done) /\
  ls_points s = concat (map (@apts T) done) ++ repeat (zero3 o) (size - total_size done) /\
  ls_atweights s = concat (map (@awts T) done) ++ repeat (zero o) (size - total_size done).

Lemma assign_slice_fill : forall A (pre src : list A) z a b m,
  a = length pre -> b = a + length src -> length src <= m ->
  assign_slice a b src (pre ++ repeat z m) = (pre ++ src) ++ repeat z (m - length src).
Proof.
  intros; subst. unfold assign_slice. rewrite firstn_app_exact, skipn_app_plus, skipn_repeat.
  now rewrite <- app_assoc.
Qed.

Lemma loop_step : forall n size done g s,
  Forall wf done -> wf g -> length done < n -> total_size done + asize g <= size ->
  inv n size done s -> inv n size (done ++ [g]) (loop_body s (length done, g)).
Proof.
  intros n size done g s Hd Hg Hn Hs (Ha & Hi & Hp & Hw).
  destruct (offsets_removelast done 0) as [pre [Eo Lp]]. cbn in Eo.
  assert (Ei : set_nth (S (length done))
                 (nth (S (length done)) (ls_indices s) 0 + (nth (length done) (ls_indices s) 0 + asize g))
                 (ls_indices s) = offsets 0 (done ++ [g]) ++ repeat 0 (n - length (done ++ [g]))).
  { rewrite Hi, Eo. rewrite (repeat_S_split _ 0 (n - length done)) by lia.
    rewrite <- app_assoc. cbn [app].
    replace (nth (length done) (pre ++ total_size done :: 0 :: repeat 0 (n - length done - 1)) 0) with (total_size done)
      by (rewrite <- Lp; now rewrite nth_middle).
    replace (nth (S (length done)) (pre ++ total_size done :: 0 :: repeat 0 (n - length done - 1)) 0) with 0.
    2:{ replace (pre ++ total_size done :: 0 :: repeat 0 (n - length done - 1))
          with ((pre ++ [total_size done]) ++ 0 :: repeat 0 (n - length done - 1)) by (now rewrite <- app_assoc).
        replace (S (length done)) with (length (pre ++ [total_size done])) by (rewrite app_length; cbn; lia).
        now rewrite nth_middle. }
    replace (pre ++ total_size done :: 0 :: repeat 0 (n - length done - 1))
      with ((pre ++ [total_size done]) ++ 0 :: repeat 0 (n - length done - 1)) by (now rewrite <- app_assoc).
    replace (S (length done)) with (length (pre ++ [total_size done])) by (rewrite app_length; cbn; lia).
    rewrite set_nth_app_mid. rewrite offsets_snoc, Eo. cbn [Nat.add].
    rewrite app_length. cbn [length]. rewrite <- !app_assoc. cbn [app].
    replace (n - (length done + 1)) with (n - length done - 1) by lia. reflexivity. }
  unfold loop_body. rewrite Ei.
  assert (Estart : nth (length done) (offsets 0 (done ++ [g]) ++ repeat 0 (n - length (done ++ [g]))) 0 = total_size done).
  { rewrite app_nth1 by (rewrite offsets_length, app_length; cbn; lia).
    rewrite offsets_nth_firstn by (rewrite app_length; lia). rewrite firstn_app_exact. lia. }
  assert (Estop : nth (S (length done)) (offsets 0 (done ++ [g]) ++ repeat 0 (n - length (done ++ [g]))) 0 = total_size done + asize g).
  { rewrite app_nth1 by (rewrite offsets_length, app_length; cbn; lia).
    replace (S (length done)) with (length (done ++ [g])) by (rewrite app_length; cbn; lia).
    rewrite offsets_last, total_size_app. unfold total_size at 2; cbn. lia. }
  rewrite Estart, Estop. unfold inv; cbn [ls_atcoords ls_indices ls_points ls_atweights].
  repeat split.
  - rewrite Ha. rewrite (repeat_S_split _ (zero3 o) (n - length done)) by lia.
    replace (length done) with (length (map (@acen T) done)) at 1 by apply map_length.
    rewrite set_nth_app_mid. rewrite map_app, app_length. cbn. rewrite <- app_assoc. cbn.
    replace (n - (length done + 1)) with (n - length done - 1) by lia. reflexivity.
  - rewrite Hp. rewrite map_app, concat_app. cbn [map concat]. rewrite app_nil_r.
    rewrite total_size_app, total_size_single.
    rewrite assign_slice_fill.
    + unfold wf_atgrid in Hg. unfold asize. rewrite Hg.
      replace (size - (total_size done + length (awts g))) with (size - total_size done - length (awts g)) by lia.
      reflexivity.
    + now rewrite concat_pts_length.
    + unfold wf_atgrid in Hg. unfold asize. now rewrite Hg.
    + unfold wf_atgrid in Hg. unfold asize in Hs. lia.
  - rewrite Hw. rewrite map_app, concat_app. cbn [map concat]. rewrite app_nil_r.
    rewrite total_size_app, total_size_single.
    rewrite assign_slice_fill.
    + unfold asize.
      replace (size - (total_size done + length (awts g))) with (size - total_size done - length (awts g)) by lia.
      reflexivity.
    + now rewrite concat_wts_length.
    + reflexivity.
    + unfold asize in Hs. lia.
Qed.

Lemma loop_all : forall n size rest done s,
  Forall wf done -> Forall wf rest -> length done + length rest = n ->
  total_size done + total_size rest = size -> inv n size done s ->
  inv n size (done ++ rest) (fold_left loop_body (combine (seq (length done) (length rest)) rest) s).
Proof.
  induction rest as [|g rest IH]; intros done s Hd Hr Hn Hs Hinv.
  - cbn. now rewrite app_nil_r.
  - cbn [length seq combine fold_left]. pose proof (Forall_inv Hr) as Hg; pose proof (Forall_inv_tail Hr) as Hr'.
    replace (done ++ g :: rest) with ((done ++ [g]) ++ rest) by (now rewrite <- app_assoc).
    replace (S (length done)) with (length (done ++ [g])) by (rewrite app_length; cbn; lia).
    cbn [length] in Hn.
    assert (Hs' : total_size (g :: rest) = asize g + total_size rest) by reflexivity.
    apply IH; auto.
    + apply Forall_app; split; auto.
    + rewrite app_length; cbn; lia.
    + rewrite total_size_app, total_size_single. lia.
    + apply loop_step; auto; lia.
Qed.

Theorem init_arrays_spec : forall gs : list atgrid, Forall wf gs ->
  ls_atcoords (init_arrays o gs) = map (@acen T) gs /\
  ls_indices (init_arrays o gs) = offsets 0 gs /\
  ls_points (init_arrays o gs) = concat (map (@apts T) gs) /\
  ls_atweights (init_arrays o gs) = concat (map (@awts T) gs).
Proof.
  intros gs Hwf. unfold init_arrays, enumerate.
  pose proof (loop_all (length gs) (total_size gs) gs [] (init_state o (length gs) (total_size gs))) as H.
  cbn [length app] in H. destruct H as (Ha & Hi & Hp & Hw); auto.
  - unfold inv, init_state; cbn [ls_atcoords ls_indices ls_points ls_atweights map concat app length offsets].
    replace (total_size (@nil atgrid)) with 0 by reflexivity. rewrite !Nat.sub_0_r. cbn. auto.
  - rewrite !Nat.sub_diag in *. cbn [repeat] in *. rewrite app_nil_r in *. auto.
Qed.

End Init.

(* ================================================================== the molecular grid as a function of its inputs *)
Section Mol.
Context {T : Type} (o : NumOps T).
Notation atgrid := (@atgrid T).
Notation molgrid := (@molgrid T).

Definition dgrid : atgrid := AtGrid [] [] [].

Lemma forallb_wf : forall gs : list atgrid, forallb wf_atgridb gs = true <-> Forall wf_atgrid gs.
Proof.
  intros. rewrite forallb_forall, Forall_forall. unfold wf_atgridb, wf_atgrid.
  split; intros H g Hg; specialize (H g Hg); now apply Nat.eqb_eq.
Qed.

(* the atom-in-molecule weights as a function of the inputs *)
Definition aim_values (atnums : list Z) (gs : list atgrid) (aim : @aimarg T) : option (list T) :=
  match aim with
  | AimCall f => Some (f (concat (map (@apts T) gs)) (map (@acen T) gs) atnums (offsets 0 gs))
  | AimArray w => Some w
  | AimOther => None
  end.

(* the molecular grid as an explicit function of the inputs *)
Definition mol_of (gs : list atgrid) (w : list T) (store : bool) : molgrid :=
  Mol (map (@acen T) gs) (offsets 0 gs) (concat (map (@apts T) gs)) (concat (map (@awts T) gs)) w
      (map2 (mul o) (concat (map (@awts T) gs)) w) (if store then Some gs else None).

Theorem mol_init_iff : forall atnums gs aim store m,
  mol_init o atnums gs aim store = Some m <->
  Forall wf_atgrid gs /\ exists w, aim_values atnums gs aim = Some w /\ length w = total_size gs /\ m = mol_of gs w store.
Proof.
  intros. unfold mol_init.
  destruct (forallb wf_atgridb gs) eqn:Ewf; cbn [negb].
  2:{ split; [discriminate|]. intros [H _]. apply forallb_wf in H. congruence. }
  apply forallb_wf in Ewf.
  destruct (init_arrays_spec o gs Ewf) as (Ha & Hi & Hp & Hw). rewrite Ha, Hi, Hp, Hw.
  split.
  - intros H. split; auto. destruct aim as [f|w|]; cbn [aim_values].
    + destruct (length _ =? total_size gs) eqn:El; cbn [negb] in H; [|discriminate].
      apply Nat.eqb_eq in El. inversion H; subst. eexists; repeat split; eauto.
    + destruct (length w =? total_size gs) eqn:El; [|discriminate]. rewrite El in H. cbn [negb] in H.
      apply Nat.eqb_eq in El. inversion H; subst. eexists; repeat split; eauto.
    + discriminate.
  - intros [_ [w [Hv [Hl ->]]]]. destruct aim as [f|w'|]; cbn [aim_values] in Hv; inversion Hv; subst.
    + rewrite (proj2 (Nat.eqb_eq _ _) Hl). reflexivity.
    + rewrite (proj2 (Nat.eqb_eq _ _) Hl). cbn iota. rewrite (proj2 (Nat.eqb_eq _ _) Hl). reflexivity.
Qed.

(* ---- slices of a concatenation *)
Lemma split_nth : forall (gs : list atgrid) k d, k < length gs -> gs = firstn k gs ++ nth k gs d :: skipn (S k) gs.
Proof.
  induction gs; intros; cbn in *; [lia|]. destruct k; cbn; [reflexivity|]. f_equal. apply IHgs. lia.
Qed.

Lemma concat_len_F : forall A (F : atgrid -> list A) (gs : list atgrid),
  (forall g, In g gs -> length (F g) = asize g) -> length (concat (map F gs)) = total_size gs.
Proof.
  induction gs; intros H; cbn; [reflexivity|]. rewrite app_length, IHgs, H; cbn; auto.
  intros; apply H; cbn; auto.
Qed.

Lemma slice_concat : forall A (F : atgrid -> list A) (gs : list atgrid) k d,
  (forall g, In g gs -> length (F g) = asize g) -> k < length gs ->
  slice (nth k (offsets 0 gs) 0) (nth (S k) (offsets 0 gs) 0) (concat (map F gs)) = F (nth k gs d).
Proof.
  intros A F gs k d HF Hk.
  rewrite (offsets_step gs 0 k d Hk). rewrite offsets_nth_firstn by lia. cbn [Nat.add].
  pose proof (split_nth gs k d Hk) as E.
  remember (firstn k gs) as pre. remember (nth k gs d) as g. remember (skipn (S k) gs) as post.
  assert (Ec : concat (map F gs) = concat (map F pre) ++ F g ++ concat (map F post)).
  { rewrite E at 1. rewrite map_app, concat_app. reflexivity. }
  rewrite Ec.
  assert (Hpre : length (concat (map F pre)) = total_size pre).
  { apply concat_len_F. intros g' Hg'. apply HF. rewrite E. apply in_or_app; auto. }
  assert (Hg : length (F g) = asize g).
  { apply HF. rewrite E. apply in_or_app; right; cbn; auto. }
  rewrite <- Hpre, <- Hg. apply slice_app_exact.
Qed.

Lemma nth_map_acen : forall (gs : list atgrid) i d, i < length gs -> nth i (map (@acen T) gs) [] = acen (nth i gs d).
Proof.
  intros. rewrite (nth_indep _ [] (acen d)) by (now rewrite map_length). apply map_nth.
Qed.

(* ---- points_concat *)
Theorem points_concat_lemma : forall atnums gs aim store m,
  mol_init o atnums gs aim store = Some m ->
  m_points m = concat (map (@apts T) gs) /\
  m_atweights m = concat (map (@awts T) gs) /\
  m_atcoords m = map (@acen T) gs /\
  mol_size m = total_size gs /\ length (m_points m) = total_size gs.
Proof.
  intros * H. apply mol_init_iff in H as [Hwf [w [_ [Hl ->]]]]. cbn. repeat split.
  - unfold mol_size; cbn. rewrite map2_length, concat_wts_length, Hl. lia.
  - now apply concat_pts_length.
Qed.

(* ---- indices_delimit *)
Theorem indices_delimit_lemma : forall atnums gs aim store m,
  mol_init o atnums gs aim store = Some m ->
  length (m_indices m) = S (length gs) /\
  nth 0 (m_indices m) 0 = 0 /\
  nth (length gs) (m_indices m) 0 = mol_size m /\
  forall k d, k < length gs ->
    let a := nth k (m_indices m) 0 in
    let b := nth (S k) (m_indices m) 0 in
    b = a + asize (nth k gs d) /\
    slice a b (m_points m) = apts (nth k gs d) /\
    slice a b (m_atweights m) = awts (nth k gs d) /\
    nth k (m_atcoords m) [] = acen (nth k gs d).
Proof.
  intros * H. pose proof (points_concat_lemma _ _ _ _ _ H) as (_ & _ & _ & Hs & _).
  apply mol_init_iff in H as [Hwf [w [_ [Hl ->]]]]. cbn [m_indices m_points m_atweights m_atcoords mol_of] in *.
  repeat split.
  - apply offsets_length.
  - now destruct gs.
  - rewrite offsets_last, Hs. reflexivity.
  - apply offsets_step; auto.
  - apply slice_concat; auto. intros g Hg. rewrite Forall_forall in Hwf. apply (Hwf g Hg).
  - apply slice_concat; auto.
  - apply nth_map_acen; auto.
Qed.

(* ---- weights_product *)
Theorem weights_product_lemma : forall atnums gs aim store m,
  mol_init o atnums gs aim store = Some m ->
  aim_values atnums gs aim = Some (m_aim m) /\
  length (m_aim m) = mol_size m /\
  m_weights m = map2 (mul o) (m_atweights m) (m_aim m) /\
  forall k d, k < length gs ->
    let a := nth k (m_indices m) 0 in
    let b := nth (S k) (m_indices m) 0 in
    slice a b (m_weights m) = atom_mol_weights o (nth k gs d) (slice a b (m_aim m)).
Proof.
  intros * H. pose proof (points_concat_lemma _ _ _ _ _ H) as (_ & _ & _ & Hs & _).
  apply mol_init_iff in H as [Hwf [w [Hv [Hl ->]]]]. cbn [m_indices m_aim m_weights m_atweights mol_of] in *.
  split; [exact Hv|]. split; [lia|]. split; [reflexivity|].
  intros k d Hk. unfold atom_mol_weights. rewrite slice_map2. f_equal.
  apply slice_concat; auto.
Qed.

(* ---- integral_decomposes *)
Hypothesis SR : semiring o.

Lemma sum_app : forall a b, sum o (a ++ b) = add o (sum o a) (sum o b).
Proof.
  induction a as [|x a IHa]; intros.
  - cbn [app]. symmetry. apply (SRadd_0_l SR).
  - change (sum o ((x :: a) ++ b)) with (add o x (sum o (a ++ b))).
    change (sum o (x :: a)) with (add o x (sum o a)).
    rewrite IHa. apply (SRadd_assoc SR).
Qed.

Lemma map2_mul_assoc : forall a b c : list T,
  map2 (mul o) (map2 (mul o) a b) c = map2 (mul o) a (map2 (mul o) b c).
Proof.
  induction a; intros; cbn; [reflexivity|]. destruct b, c; cbn; auto.
  rewrite IHa. f_equal. symmetry. apply (SRmul_assoc SR).
Qed.

Fixpoint block_terms (s : nat) (gs : list atgrid) (U : list T) : list T :=
  match gs with
  | [] => []
  | g :: r => sum o (map2 (mul o) (awts g) (slice s (s + asize g) U)) :: block_terms (s + asize g) r U
  end.

Lemma sum_blocks : forall gs s U,
  sum o (map2 (mul o) (concat (map (@awts T) gs)) (skipn s U)) = sum o (block_terms s gs U).
Proof.
  induction gs; intros; cbn [map concat block_terms]; [reflexivity|].
  rewrite map2_app, sum_app. cbn [sum fold_right]. fold (sum o (block_terms (s + asize a) gs U)).
  rewrite skipn_add. rewrite IHgs. unfold slice, asize.
  replace (s + length (awts a) - s) with (length (awts a)) by lia. reflexivity.
Qed.

Lemma offsets_hd : forall (gs : list atgrid) s, nth 0 (offsets s gs) 0 = s.
Proof. destruct gs; reflexivity. Qed.

Lemma block_terms_seq : forall gs s U d,
  block_terms s gs U =
  map (fun k => sum o (map2 (mul o) (awts (nth k gs d)) (slice (nth k (offsets s gs) 0) (nth (S k) (offsets s gs) 0) U)))
      (seq 0 (length gs)).
Proof.
  induction gs; intros; cbn [block_terms length seq map]; [reflexivity|].
  f_equal.
  - cbn [nth offsets]. now rewrite offsets_hd.
  - rewrite (IHgs (s + asize a) U d). rewrite <- seq_shift, map_map. reflexivity.
Qed.

Theorem integral_decomposes_lemma : forall atnums gs aim store m vals d,
  mol_init o atnums gs aim store = Some m ->
  mol_integrate o m vals =
  sum o (map (fun k =>
               let a := nth k (m_indices m) 0 in
               let b := nth (S k) (m_indices m) 0 in
               atgrid_integrate o (nth k gs d) (map2 (mul o) (slice a b (m_aim m)) (slice a b vals)))
             (seq 0 (length gs))).
Proof.
  intros * H. apply mol_init_iff in H as [Hwf [w [Hv [Hl ->]]]].
  unfold mol_integrate, atgrid_integrate. cbn [m_weights m_indices m_aim mol_of].
  rewrite map2_mul_assoc.
  change (map2 (mul o) w vals) with (skipn 0 (map2 (mul o) w vals)).
  rewrite sum_blocks, (block_terms_seq gs 0 _ d). f_equal.
  apply map_ext. intros k. cbn zeta. now rewrite slice_map2.
Qed.

End Mol.

(* ================================================================== per-atom views, store on/off *)
Section Views.
Context {T : Type} (o : NumOps T).
Notation atgrid := (@atgrid T).
Notation molgrid := (@molgrid T).

(* the grid of atom i as the property states it: the atomic points, centre, and either the atomic
   weights (get_atomic_grid) or the atomic weights times the atom-in-molecule weights (__getitem__) *)
Definition atom_view (gs : list atgrid) (i : nat) : option (@localgrid T) := option_map view (nth_error gs i).
Definition atom_mol_view (gs : list atgrid) (w : list T) (i : nat) : option (@localgrid T) :=
  match nth_error gs i with
  | Some g => let a := nth i (offsets 0 gs) 0 in let b := nth (S i) (offsets 0 gs) 0 in
              Some (Local (apts g) (atom_mol_weights o g (slice a b w)) (acen g))
  | None => None
  end.

Lemma nth_error_nth_d : forall (gs : list atgrid) i, i < length gs -> nth_error gs i = Some (nth i gs (@dgrid T)).
Proof. intros. now apply nth_error_nth'. Qed.

Lemma get_atomic_grid_of : forall gs w store index, Forall wf_atgrid gs ->
  get_atomic_grid (mol_of o gs w store) index = if (index <? 0)%Z then None else atom_view gs (Z.to_nat index).
Proof.
  intros gs w store index Hwf. unfold get_atomic_grid. destruct (index <? 0)%Z; [reflexivity|].
  set (i := Z.to_nat index). unfold atom_view. destruct store; cbn [mol_of m_atgrids m_indices m_points m_atweights m_atcoords]; [reflexivity|].
  rewrite offsets_length.
  destruct (S i <? S (length gs)) eqn:E.
  - apply Nat.ltb_lt in E. assert (Hi : i < length gs) by lia.
    rewrite (nth_error_nth_d gs i Hi). cbn [option_map view].
    rewrite (slice_concat _ (@apts T) gs i (@dgrid T)); auto.
    2:{ intros g Hg. rewrite Forall_forall in Hwf. apply (Hwf g Hg). }
    rewrite (slice_concat _ (@awts T) gs i (@dgrid T)); auto.
    now rewrite (nth_map_acen gs i (@dgrid T) Hi).
  - apply Nat.ltb_ge in E. assert (Hi : length gs <= i) by lia.
    apply nth_error_None in Hi. now rewrite Hi.
Qed.

Lemma getitem_of : forall gs w store i, Forall wf_atgrid gs ->
  getitem (mol_of o gs w store) i = if store then atom_view gs i else atom_mol_view gs w i.
Proof.
  intros gs w store i Hwf. unfold getitem. destruct store; cbn [mol_of m_atgrids m_indices m_points m_weights m_atcoords]; [reflexivity|].
  rewrite offsets_length. unfold atom_mol_view.
  destruct (S i <? S (length gs)) eqn:E.
  - apply Nat.ltb_lt in E. assert (Hi : i < length gs) by lia.
    rewrite (nth_error_nth_d gs i Hi). cbn zeta.
    rewrite (slice_concat _ (@apts T) gs i (@dgrid T)); auto.
    2:{ intros g Hg. rewrite Forall_forall in Hwf. apply (Hwf g Hg). }
    rewrite slice_map2. rewrite (slice_concat _ (@awts T) gs i (@dgrid T)); auto.
    now rewrite (nth_map_acen gs i (@dgrid T) Hi).
  - apply Nat.ltb_ge in E. assert (Hi : length gs <= i) by lia.
    apply nth_error_None in Hi. now rewrite Hi.
Qed.

(* ---- getitem_spec (store off) and what the stored path returns *)
Theorem getitem_spec_partial_lemma : forall atnums gs aim m i,
  mol_init o atnums gs aim false = Some m -> getitem m i = atom_mol_view gs (m_aim m) i.
Proof.
  intros * H. apply mol_init_iff in H as [Hwf [w [_ [_ ->]]]]. now rewrite getitem_of.
Qed.

Theorem getitem_stored_lemma : forall atnums gs aim m i,
  mol_init o atnums gs aim true = Some m -> getitem m i = atom_view gs i.
Proof.
  intros * H. apply mol_init_iff in H as [Hwf [w [_ [_ ->]]]]. now rewrite getitem_of.
Qed.

Theorem get_atomic_grid_spec_lemma : forall atnums gs aim store m index,
  mol_init o atnums gs aim store = Some m ->
  get_atomic_grid m index = if (index <? 0)%Z then None else atom_view gs (Z.to_nat index).
Proof.
  intros * H. apply mol_init_iff in H as [Hwf [w [_ [_ ->]]]]. now apply get_atomic_grid_of.
Qed.

(* ---- store_irrelevant, everything except __getitem__ *)
Definition same_observables (m1 m2 : molgrid) : Prop :=
  m_points m1 = m_points m2 /\ m_weights m1 = m_weights m2 /\ m_indices m1 = m_indices m2 /\
  m_aim m1 = m_aim m2 /\ m_atweights m1 = m_atweights m2 /\ m_atcoords m1 = m_atcoords m2 /\
  (forall vals, mol_integrate o m1 vals = mol_integrate o m2 vals) /\
  (forall index, get_atomic_grid m1 index = get_atomic_grid m2 index).

Theorem store_irrelevant_partial_lemma : forall atnums gs aim,
  match mol_init o atnums gs aim true, mol_init o atnums gs aim false with
  | Some m1, Some m2 => same_observables m1 m2
  | None, None => True
  | _, _ => False
  end.
Proof.
  intros.
  destruct (mol_init o atnums gs aim true) as [m1|] eqn:E1.
  - apply mol_init_iff in E1 as [Hwf [w [Hv [Hl ->]]]].
    assert (E2 : mol_init o atnums gs aim false = Some (mol_of o gs w false)).
    { apply mol_init_iff. split; auto. exists w. auto. }
    rewrite E2. unfold same_observables. cbn [mol_of m_points m_weights m_indices m_aim m_atweights m_atcoords].
    repeat split. intros index. now rewrite !get_atomic_grid_of.
  - destruct (mol_init o atnums gs aim false) as [m2|] eqn:E2; [|exact I].
    apply mol_init_iff in E2 as [Hwf [w [Hv [Hl ->]]]].
    assert (E : mol_init o atnums gs aim true = Some (mol_of o gs w true)).
    { apply mol_init_iff. split; auto. exists w. auto. }
    congruence.
Qed.

(* __getitem__ with store on and off agree on atom i exactly when multiplying the atomic weights by
   the atom-in-molecule weights changes nothing *)
Theorem getitem_store_iff_lemma : forall atnums gs aim m1 m2 i g,
  mol_init o atnums gs aim true = Some m1 -> mol_init o atnums gs aim false = Some m2 ->
  nth_error gs i = Some g ->
  (getitem m1 i = getitem m2 i <->
   atom_mol_weights o g (slice (nth i (m_indices m2) 0) (nth (S i) (m_indices m2) 0) (m_aim m2)) = awts g).
Proof.
  intros * H1 H2 Hg.
  rewrite (getitem_stored_lemma _ _ _ _ i H1), (getitem_spec_partial_lemma _ _ _ _ i H2).
  apply mol_init_iff in H2 as [Hwf [w [_ [_ ->]]]]. cbn [mol_of m_indices m_aim].
  unfold atom_view, atom_mol_view. rewrite Hg. cbn [option_map view]. split.
  - intros E. inversion E. auto.
  - intros E. now rewrite E.
Qed.

End Views.

(* ---- the full-strength statements are refuted by the faithful model (at R) *)
Definition ROps : NumOps R := MkOps R 0%R 1%R Rplus Rmult.

Lemma R_semiring_lemma : semiring ROps.
Proof. unfold semiring, ROps; cbn [zero one add mul]; constructor; intros; ring. Qed.

Definition exR_g : @atgrid R := AtGrid [[0; 0; 0]%R] [1%R] [0; 0; 0]%R.

Theorem getitem_store_refuted_lemma :
  exists (atnums : list Z) (gs : list (@atgrid R)) (aim : @aimarg R) m1 m2 i,
    mol_init ROps atnums gs aim true = Some m1 /\ mol_init ROps atnums gs aim false = Some m2 /\
    i < length gs /\ getitem m1 i <> getitem m2 i.
Proof.
  exists [1%Z], [exR_g], (AimArray [2%R]).
  eexists; eexists; exists 0. split; [reflexivity|]. split; [reflexivity|]. split; [cbn; lia|].
  cbn. intros E. inversion E as [E1]. lra.
Qed.

(* ================================================================== argument fan-out *)
Section FanoutProofs.
Context {RG PR CT RAD RV DP : Type}.
Variable default_params : Z -> option DP.
Notation rgrid_arg := (rgrid_arg RG).
Notation rad_choice := (rad_choice RG DP).
Notation preset_arg := (preset_arg PR).
Notation preset_call := (preset_call RG PR CT DP).
Notation size_call := (size_call RG CT DP).
Notation pruned_call := (pruned_call RG CT RAD RV DP).
Notation radius_arg := (radius_arg RAD).

(* which radial grid atom number i (atomic number a) receives *)
Inductive rgrid_for : rgrid_arg -> nat -> Z -> rad_choice -> Prop :=
| rf_one : forall r i a, rgrid_for (RgOne r) i a (UseGiven r)
| rf_list : forall l i a r, nth_error l i = Some r -> rgrid_for (RgList l) i a (UseGiven r)
| rf_dict : forall d i a r, assoc a d = Some r -> rgrid_for (RgDict d) i a (UseGiven r)
| rf_none : forall i a p, default_params a = Some p -> rgrid_for RgNone i a (UseDefault a p).

Inductive preset_for : preset_arg -> nat -> Z -> PR -> Prop :=
| pf_one : forall p i a, preset_for (PsOne p) i a p
| pf_list : forall l i a p, nth_error l i = Some p -> preset_for (PsList l) i a p
| pf_dict : forall d i a p, assoc a d = Some p -> preset_for (PsDict d) i a p.

Lemma pick_rgrid_iff : forall rg i a r, pick_rgrid default_params rg i a = Some r <-> rgrid_for rg i a r.
Proof.
  intros. split.
  - destruct rg as [|r0|l|d|]; cbn; intros H.
    + destruct (default_params a) eqn:E; inversion H; subst. now constructor.
    + inversion H; subst. constructor.
    + destruct (nth_error l i) eqn:E; inversion H; subst. now constructor.
    + destruct (assoc a d) eqn:E; inversion H; subst. now constructor.
    + discriminate.
  - intros H. inversion H; subst; cbn; try rewrite H0; reflexivity.
Qed.

Lemma pick_preset_iff : forall ps i a p, pick_preset ps i a = Some p <-> preset_for ps i a p.
Proof.
  intros. split.
  - destruct ps as [p0|l|d|]; cbn; intros H.
    + inversion H; subst. constructor.
    + now constructor.
    + now constructor.
    + discriminate.
  - intros H. inversion H; subst; cbn; auto.
Qed.

(* ---- from_preset *)
Theorem fanout_preset_lemma : forall atnums (atcoords : list CT) preset rgrid rotate calls,
  from_preset_fanout default_params atnums atcoords preset rgrid rotate = Some calls <->
  length atnums = length atcoords /\ length calls = length atnums /\
  forall i a c, nth_error atnums i = Some a -> nth_error atcoords i = Some c ->
    exists p r, nth_error calls i = Some (PresetCall a p r c rotate) /\
                preset_for preset i a p /\ rgrid_for rgrid i a r.
Proof.
  intros. unfold from_preset_fanout.
  destruct (length atnums =? length atcoords) eqn:El; cbn [negb].
  2:{ apply Nat.eqb_neq in El. split; [discriminate | intros [H _]; contradiction]. }
  apply Nat.eqb_eq in El. rewrite mapM_seq. split.
  - intros [Hl H]. repeat split; auto. intros i a c Ha Hc.
    assert (Hi : i < length atnums) by (apply nth_error_Some; congruence).
    destruct (H i Hi) as [y [Hy Hf]]. rewrite Ha, Hc in Hf.
    destruct (pick_rgrid default_params rgrid i a) eqn:Er; [|discriminate].
    destruct (pick_preset preset i a) eqn:Ep; [|discriminate].
    inversion Hf; subst. exists p, r. repeat split; auto.
    + now apply pick_preset_iff.
    + now apply pick_rgrid_iff.
  - intros [_ [Hl H]]. split; auto. intros i Hi.
    destruct (nth_error atnums i) as [a|] eqn:Ha. 2:{ apply nth_error_None in Ha. lia. }
    destruct (nth_error atcoords i) as [c|] eqn:Hc. 2:{ apply nth_error_None in Hc. lia. }
    destruct (H i a c Ha Hc) as [p [r [Hn [Hp Hr]]]].
    eexists; split; [exact Hn|]. apply pick_preset_iff in Hp. apply pick_rgrid_iff in Hr. now rewrite Hr, Hp.
Qed.

(* ---- from_size *)
Definition size_rgrid (rgrid : option RG) : rgrid_arg := match rgrid with None => RgNone | Some r => RgOne r end.

Theorem fanout_size_lemma : forall atnums (atcoords : list CT) size rgrid rotate calls,
  from_size_fanout default_params atnums atcoords size rgrid rotate = Some calls <->
  length calls = Nat.min (length atnums) (length atcoords) /\
  forall i a c, nth_error atnums i = Some a -> nth_error atcoords i = Some c ->
    exists r, nth_error calls i = Some (SizeCall r [size] c rotate) /\ rgrid_for (size_rgrid rgrid) i a r.
Proof.
  intros. unfold from_size_fanout. rewrite mapM_nth, combine_length. split.
  - intros [Hl H]. split; auto. intros i a c Ha Hc.
    destruct (H i (a, c)) as [y [Hy Hf]]; [now apply nth_error_combine|].
    destruct rgrid as [r0|]; cbn in Hf.
    + inversion Hf; subst. exists (UseGiven r0). split; auto. constructor.
    + destruct (default_params a) eqn:Ed; cbn in Hf; inversion Hf; subst.
      eexists; split; eauto. now constructor.
  - intros [Hl H]. split; auto. intros i [a c] Hx. apply nth_error_combine in Hx as [Ha Hc].
    destruct (H i a c Ha Hc) as [r [Hn Hr]]. eexists; split; [exact Hn|].
    destruct rgrid as [r0|]; cbn in *; inversion Hr; subst; auto.
    match goal with E : default_params _ = Some _ |- _ => now rewrite E end.
Qed.

(* ---- from_pruned *)
Inductive radius_for : radius_arg -> nat -> nat -> RAD -> Prop :=
| raf_scalar : forall r n i, i < n -> radius_for (RadScalar r) n i r
| raf_seq : forall l n i r, nth_error l i = Some r -> radius_for (RadSeq l) n i r.

(* what atom i receives as (d_sectors, s_sectors) when the arguments are lists *)
Inductive sectors_for : dsec_arg -> ssec_arg -> nat -> nat -> sec_val -> sec_val -> Prop :=
| sf_dlist : forall dl n i l, nth_error dl i = Some l -> i < n -> sectors_for (DsList dl) SsNone n i (SvList l) SvNone
| sf_slist : forall d sl n i l, nth_error sl i = Some l -> i < n -> sectors_for d (SsList sl) n i SvNone (SvList l).

(* list forms: d_sectors a list of lists (s_sectors None), or s_sectors a list of lists (d_sectors anything) *)
Definition list_forms (d : dsec_arg) (s : ssec_arg) : Prop :=
  match s with SsNone => exists dl, d = DsList dl | SsInt _ => False | SsList _ => True end.

Definition sec_lengths_ok (d : dsec_arg) (s : ssec_arg) (natoms nr : nat) : Prop :=
  match s with
  | SsNone => match d with DsInt _ => False | DsList l => length l = nr /\ natoms = nr end
  | SsInt _ => False
  | SsList l => natoms = nr /\ length l = nr
  end.

(* what the list-form theorems need of the normalisation statements *)
Definition norm_list_ok (norm : @normaliser RV) : Prop :=
  (forall n rs dl, norm n rs (ASeq dl) ANone = (ASeq dl, ASeq (repeat SvNone n))) /\
  (forall n rs d sl, norm n rs d (ASeq sl) = (ASeq (repeat SvNone n), ASeq sl)).

Lemma nth_error_repeat : forall A (x : A) n i, i < n -> nth_error (repeat x n) i = Some x.
Proof. induction n; intros; [lia|]. destruct i; cbn; auto. apply IHn; lia. Qed.

Lemma nth_error_repeat_inv : forall A (x y : A) n i, nth_error (repeat x n) i = Some y -> i < n /\ y = x.
Proof.
  intros. assert (i < n). { rewrite <- (repeat_length x n). apply nth_error_Some. congruence. }
  split; auto. rewrite nth_error_repeat in H by auto. now inversion H.
Qed.

(* the part after the normalisation, for sequences d2 / s2 *)
Lemma pruned_core_lemma : forall atnums (atcoords : list CT) (radius : radius_arg) (r_sectors : list (list RV)) d2 s2 rgrid rotate calls,
  length atnums = length atcoords ->
  (from_pruned_core default_params atnums atcoords radius r_sectors (ASeq d2) (ASeq s2) rgrid rotate = Some calls <->
   length d2 = length r_sectors /\ length s2 = length r_sectors /\ length calls = length atnums /\
   forall i a, nth_error atnums i = Some a ->
     exists rad ra rs dd ss c,
       nth_error calls i = Some (PrunedCall rad ra rs dd ss c rotate) /\
       rgrid_for rgrid i a rad /\ radius_for radius (length atcoords) i ra /\
       nth_error r_sectors i = Some rs /\ nth_error d2 i = Some dd /\ nth_error s2 i = Some ss /\
       nth_error atcoords i = Some c).
Proof.
  intros * El. unfold from_pruned_core. cbn [seq_of].
  destruct (length d2 =? length r_sectors) eqn:E1; cbn [negb].
  2:{ apply Nat.eqb_neq in E1. split; [discriminate|]. intros [H _]. contradiction. }
  apply Nat.eqb_eq in E1.
  destruct (length s2 =? length r_sectors) eqn:E2; cbn [negb].
  2:{ apply Nat.eqb_neq in E2. split; [discriminate|]. intros [_ [H _]]. contradiction. }
  apply Nat.eqb_eq in E2. rewrite mapM_seq. split.
  - intros [Hl H]. repeat split; auto.
    intros i a Ha. assert (Hi : i < length atnums) by (apply nth_error_Some; congruence).
    destruct (H i Hi) as [y [Hy Hf]]. rewrite Ha in Hf.
    destruct (pick_rgrid default_params rgrid i a) eqn:Er; [|discriminate].
    destruct (nth_error (match radius with RadScalar r => repeat r (length atcoords) | RadSeq l => l end) i) eqn:Era; [|discriminate].
    destruct (nth_error r_sectors i) eqn:Ers; [|discriminate].
    destruct (nth_error d2 i) eqn:Ed; [|discriminate].
    destruct (nth_error s2 i) eqn:Es; [|discriminate].
    destruct (nth_error atcoords i) eqn:Ec; [|discriminate].
    inversion Hf; subst y. do 6 eexists. split; [exact Hy|].
    repeat split; auto.
    + now apply pick_rgrid_iff.
    + destruct radius; [apply nth_error_repeat_inv in Era as [? ->]; now constructor | now constructor].
  - intros [_ [_ [Hl H]]]. split; auto. intros i Hi.
    destruct (nth_error atnums i) as [a|] eqn:Ha. 2:{ apply nth_error_None in Ha. lia. }
    destruct (H i a Ha) as (rad & ra & rs & dd & ss & c & Hn & Hr & Hra & Hrs & Hd & Hs & Hc).
    eexists; split; [exact Hn|]. apply pick_rgrid_iff in Hr. rewrite Hr.
    assert (Era : nth_error (match radius with RadScalar r => repeat r (length atcoords) | RadSeq l => l end) i = Some ra).
    { inversion Hra; subst; [now apply nth_error_repeat | auto]. }
    now rewrite Era, Hrs, Hd, Hs, Hc.
Qed.

Theorem fanout_pruned_lemma : forall (norm : @normaliser RV), norm_list_ok norm ->
  forall atnums (atcoords : list CT) (radius : radius_arg) (r_sectors : list (list RV)) d s rgrid rotate calls,
  list_forms d s ->
  (from_pruned_fanout_with default_params norm atnums atcoords radius r_sectors d s rgrid rotate = Some calls <->
   length atnums = length atcoords /\ sec_lengths_ok d s (length atcoords) (length r_sectors) /\
   length calls = length atnums /\
   forall i a, nth_error atnums i = Some a ->
     exists rad ra rs dd ss c,
       nth_error calls i = Some (PrunedCall rad ra rs dd ss c rotate) /\
       rgrid_for rgrid i a rad /\ radius_for radius (length atcoords) i ra /\
       nth_error r_sectors i = Some rs /\ sectors_for d s (length atcoords) i dd ss /\
       nth_error atcoords i = Some c).
Proof.
  intros norm [Hn1 Hn2] * Hlf. unfold from_pruned_fanout_with.
  destruct (length atnums =? length atcoords) eqn:El; cbn [negb].
  2:{ apply Nat.eqb_neq in El. split; [discriminate | intros [H _]; contradiction]. }
  apply Nat.eqb_eq in El.
  destruct s as [|zs|sl]; cbn in Hlf.
  - destruct Hlf as [dl ->]. cbn [arg_of_d arg_of_s]. rewrite Hn1. cbn [fst snd].
    rewrite (pruned_core_lemma _ _ _ _ _ _ _ _ _ El). rewrite map_length, repeat_length. cbn [sec_lengths_ok]. split.
    + intros (H1 & H2 & Hl & H). repeat split; auto.
      intros i a Ha. destruct (H i a Ha) as (rad & ra & rs & dd & ss & c & Hc & Hr & Hra & Hrs & Hd & Hs & Hcc).
      apply nth_error_repeat_inv in Hs as [Hi ->].
      rewrite nth_error_map in Hd. destruct (nth_error dl i) eqn:E0; inversion Hd; subst.
      do 6 eexists. split; [exact Hc|]. repeat split; auto. now constructor.
    + intros (_ & [H1 H2] & Hl & H). repeat split; auto.
      intros i a Ha. destruct (H i a Ha) as (rad & ra & rs & dd & ss & c & Hc & Hr & Hra & Hrs & Hsec & Hcc).
      inversion Hsec; subst. do 6 eexists. split; [exact Hc|]. repeat split; auto.
      * rewrite nth_error_map. match goal with E : nth_error dl i = Some _ |- _ => now rewrite E end.
      * now apply nth_error_repeat.
  - destruct Hlf.
  - cbn [arg_of_s]. rewrite Hn2. cbn [fst snd].
    rewrite (pruned_core_lemma _ _ _ _ _ _ _ _ _ El). rewrite map_length, repeat_length. cbn [sec_lengths_ok]. split.
    + intros (H1 & H2 & Hl & H). repeat split; auto.
      intros i a Ha. destruct (H i a Ha) as (rad & ra & rs & dd & ss & c & Hc & Hr & Hra & Hrs & Hd & Hs & Hcc).
      apply nth_error_repeat_inv in Hd as [Hi ->].
      rewrite nth_error_map in Hs. destruct (nth_error sl i) eqn:E0; inversion Hs; subst.
      do 6 eexists. split; [exact Hc|]. repeat split; auto. now constructor.
    + intros (_ & [H1 H2] & Hl & H). repeat split; auto.
      intros i a Ha. destruct (H i a Ha) as (rad & ra & rs & dd & ss & c & Hc & Hr & Hra & Hrs & Hsec & Hcc).
      inversion Hsec; subst. do 6 eexists. split; [exact Hc|]. repeat split; auto.
      * now apply nth_error_repeat.
      * rewrite nth_error_map. match goal with E : nth_error sl i = Some _ |- _ => now rewrite E end.
Qed.

Lemma norm_documented_list_ok : norm_list_ok (@norm_documented RV).
Proof. split; intros; [reflexivity | destruct d; reflexivity]. Qed.

(* two normalisers that agree on the arguments give the same fan-out *)
Lemma fanout_with_ext : forall (n1 n2 : @normaliser RV) atnums (atcoords : list CT) (radius : radius_arg) (r_sectors : list (list RV)) d s (rgrid : rgrid_arg) rotate,
  n1 (length atcoords) r_sectors (arg_of_d d) (arg_of_s s) = n2 (length atcoords) r_sectors (arg_of_d d) (arg_of_s s) ->
  from_pruned_fanout_with default_params n1 atnums atcoords radius r_sectors d s rgrid rotate =
  from_pruned_fanout_with default_params n2 atnums atcoords radius r_sectors d s rgrid rotate.
Proof. intros * H. unfold from_pruned_fanout_with. now rewrite H. Qed.

(* on the list forms the fan-out is the documented one *)
Theorem fanout_pruned_documented_lemma : forall (norm : @normaliser RV), norm_list_ok norm ->
  forall atnums (atcoords : list CT) (radius : radius_arg) (r_sectors : list (list RV)) d s (rgrid : rgrid_arg) rotate,
  list_forms d s ->
  from_pruned_fanout_with default_params norm atnums atcoords radius r_sectors d s rgrid rotate =
  from_pruned_documented default_params atnums atcoords radius r_sectors d s rgrid rotate.
Proof.
  intros norm [H1 H2] * Hlf. unfold from_pruned_documented. apply fanout_with_ext.
  destruct norm_documented_list_ok as [D1 D2].
  destruct s as [|z|sl]; cbn in Hlf.
  - destruct Hlf as [dl ->]. cbn [arg_of_d arg_of_s]. now rewrite H1, D1.
  - destruct Hlf.
  - cbn [arg_of_s]. now rewrite H2, D2.
Qed.

End FanoutProofs.

(* the witness arguments of the integer-sector statements (C07_proofs_pruned.v / C07_refuted_pruned.v) *)
Definition ex_rs : list (list Z) := [[1%Z]; [1%Z]].
Definition ex_dp (a : Z) : option unit := None.

(* ================================================================== constructors = by hand *)
Section ConstructorProofs.
Context {T : Type} (o : NumOps T) {RG PR CT RAD RV DP : Type}.
Variable default_params : Z -> option DP.
Variable becke3 : @aimfun T.
Variable build_preset : preset_call RG PR CT DP -> option (@atgrid T).
Variable build_size : size_call RG CT DP -> option (@atgrid T).
Variable build_pruned : pruned_call RG CT RAD RV DP -> option (@atgrid T).

Theorem constructors_by_hand_lemma :
  (forall atnums atcoords preset rgrid aim rotate store calls,
     from_preset_fanout default_params atnums atcoords preset rgrid rotate = Some calls ->
     mol_from_preset o default_params becke3 build_preset atnums atcoords preset rgrid aim rotate store =
     by_hand o becke3 build_preset atnums calls aim store) /\
  (forall atnums atcoords size rgrid aim rotate store calls,
     from_size_fanout default_params atnums atcoords size rgrid rotate = Some calls ->
     mol_from_size o default_params becke3 build_size atnums atcoords size rgrid aim rotate store =
     by_hand o becke3 build_size atnums calls aim store) /\
  (forall norm atnums atcoords radius r_sectors d s rgrid aim rotate store calls,
     from_pruned_fanout_with default_params norm atnums atcoords radius r_sectors d s rgrid rotate = Some calls ->
     mol_from_pruned o default_params becke3 build_pruned norm atnums atcoords radius r_sectors d s rgrid aim rotate store =
     by_hand o becke3 build_pruned atnums calls aim store) /\
  (forall CALL (build : CALL -> option (@atgrid T)) atnums calls aim store gs,
     mapM build calls = Some gs ->
     by_hand o becke3 build atnums calls aim store =
     mol_init o atnums gs (match aim with None => AimCall becke3 | Some a => a end) store).
Proof.
  repeat split; intros.
  - unfold mol_from_preset. now rewrite H.
  - unfold mol_from_size. now rewrite H.
  - unfold mol_from_pruned. now rewrite H.
  - unfold by_hand. now rewrite H.
Qed.

End ConstructorProofs.

(* ================================================================== examples: the hypotheses are satisfiable *)
Definition ZOps : NumOps Z := MkOps Z 0%Z 1%Z Z.add Z.mul.

Lemma Z_semiring_lemma : semiring ZOps.
Proof. unfold semiring, ZOps; cbn [zero one add mul]; constructor; intros; ring. Qed.

Local Open Scope Z_scope.
Definition exg1 : @atgrid Z := AtGrid [[1; 0; 0]; [-1; 0; 0]; [0; 1; 0]] [2; 3; 5] [0; 0; 0].
Definition exg2 : @atgrid Z := AtGrid [[0; 0; 5]; [0; 0; 3]] [7; 11] [0; 0; 4].
Definition exg3 : @atgrid Z := AtGrid [[9; 9; 9]] [13] [9; 9; 8].
(* a callable that uses all four arguments *)
Definition ex_aimf : @aimfun Z := fun pts atc atn ind =>
  map (fun p => nth 0 p 0 + 2 * nth 1 (nth 1 atc []) 0 + nth 2 atn 0 + Z.of_nat (nth 2 ind 0%nat)) pts.

Example ex_init :
  exists m, mol_init ZOps [1; 8; 6] [exg1; exg2; exg3] (AimArray [1; 2; 3; 4; 5; 6]) false = Some m /\
            m_indices m = [0; 3; 5; 6]%nat /\ m_weights m = [2; 6; 15; 28; 55; 78] /\
            m_points m = [[1; 0; 0]; [-1; 0; 0]; [0; 1; 0]; [0; 0; 5]; [0; 0; 3]; [9; 9; 9]] /\
            m_atcoords m = [[0; 0; 0]; [0; 0; 4]; [9; 9; 8]] /\
            mol_integrate ZOps m [1; 1; 1; 2; 2; 3] = 2 + 6 + 15 + 56 + 110 + 234 /\
            getitem m 1 = Some (Local [[0; 0; 5]; [0; 0; 3]] [28; 55] [0; 0; 4]) /\
            get_atomic_grid m 1 = Some (Local [[0; 0; 5]; [0; 0; 3]] [7; 11] [0; 0; 4]) /\
            get_atomic_grid m (-1) = None /\ get_atomic_grid m 3 = None.
Proof. eexists. split; [vm_compute; reflexivity|]. vm_compute. repeat split. Qed.

Example ex_init_callable :
  exists m, mol_init ZOps [1; 8; 6] [exg1; exg2; exg3] (AimCall ex_aimf) true = Some m /\
            m_aim m = [12; 10; 11; 11; 11; 20] /\
            getitem m 1 = Some (Local [[0; 0; 5]; [0; 0; 3]] [7; 11] [0; 0; 4]) /\
            mol_init ZOps [1; 8; 6] [exg1; exg2; exg3] (AimArray [1; 2; 3]) true = None /\
            mol_init ZOps [1; 8; 6] [exg1; exg2; exg3] AimOther true = None.
Proof. eexists. split; [vm_compute; reflexivity|]. vm_compute. repeat split. Qed.

Example ex_decomposition :
  forall m, mol_init ZOps [1; 8; 6] [exg1; exg2; exg3] (AimArray [1; 2; 3; 4; 5; 6]) false = Some m ->
  mol_integrate ZOps m [1; 1; 1; 2; 2; 3] =
  atgrid_integrate ZOps exg1 (map2 Z.mul [1; 2; 3] [1; 1; 1]) +
  (atgrid_integrate ZOps exg2 (map2 Z.mul [4; 5] [2; 2]) +
   (atgrid_integrate ZOps exg3 (map2 Z.mul [6] [3]) + 0)).
Proof.
  intros m H. rewrite (integral_decomposes_lemma ZOps Z_semiring_lemma _ _ _ _ _ _ (@dgrid Z) H).
  vm_compute in H. inversion H; subst. vm_compute. reflexivity.
Qed.

(* fan-out: radial grids, presets, centres, radii are numbered objects *)
Definition ex_params (a : Z) : option Z := if a =? 1 then Some 100 else if a =? 8 then Some 800 else None.

Example ex_fanout_preset :
  from_preset_fanout ex_params [8; 1; 1] [10; 20; 30] (PsDict [(1, 41); (8, 48)]) (RgList [71; 72; 73]) 37
  = Some [PresetCall 8 48 (UseGiven 71) 10 37; PresetCall 1 41 (UseGiven 72) 20 37; PresetCall 1 41 (UseGiven 73) 30 37] /\
  from_preset_fanout ex_params [8; 1; 1] [10; 20; 30] (PsList [41; 42; 43]) (RgDict [(1, 71); (8, 78)]) 0
  = Some [PresetCall 8 41 (UseGiven 78) 10 0; PresetCall 1 42 (UseGiven 71) 20 0; PresetCall 1 43 (UseGiven 71) 30 0] /\
  from_preset_fanout ex_params [8; 1; 1] [10; 20; 30] (PsOne 44) (@RgNone Z) 5
  = Some [PresetCall 8 44 (UseDefault 8 800) 10 5; PresetCall 1 44 (UseDefault 1 100) 20 5; PresetCall 1 44 (UseDefault 1 100) 30 5] /\
  from_preset_fanout ex_params [8; 6] [10; 20] (PsOne 44) (@RgNone Z) 5 = None /\
  from_preset_fanout ex_params [8; 1] [10; 20; 30] (PsOne 44) (RgOne 7) 5 = None.
Proof. vm_compute. repeat split. Qed.

Example ex_fanout_size :
  from_size_fanout ex_params [8; 1] [10; 20] 110 (Some 7) 37
  = Some [SizeCall (UseGiven 7) [110] 10 37; SizeCall (UseGiven 7) [110] 20 37] /\
  from_size_fanout ex_params [8; 1] [10; 20] 6 (@None Z) 0
  = Some [SizeCall (UseDefault 8 800) [6] 10 0; SizeCall (UseDefault 1 100) [6] 20 0].
Proof. vm_compute. repeat split. Qed.

Example ex_fanout_pruned :
  from_pruned_documented ex_params [8; 1] [10; 20] (RadSeq [51; 52]) [[1; 2]; [3]] (DsList [[3; 5; 7]; [5; 3]]) SsNone (RgDict [(1, 71); (8, 78)]) 37
  = Some [PrunedCall (UseGiven 78) 51 [1; 2] (SvList [3; 5; 7]) SvNone 10 37;
          PrunedCall (UseGiven 71) 52 [3] (SvList [5; 3]) SvNone 20 37] /\
  from_pruned_documented ex_params [8; 1] [10; 20] (RadScalar 5) [[1; 2]; [3]] (DsInt 50) (SsList [[6; 14; 26]; [14; 6]]) (RgOne 7) 0
  = Some [PrunedCall (UseGiven 7) 5 [1; 2] SvNone (SvList [6; 14; 26]) 10 0;
          PrunedCall (UseGiven 7) 5 [3] SvNone (SvList [14; 6]) 20 0] /\
  from_pruned_documented ex_params [8; 1] [10; 20] (RadScalar 5) [[1; 2]] (DsList [[3; 5; 7]]) SsNone (RgOne 7) 0 = None.
Proof. vm_compute. repeat split. Qed.
