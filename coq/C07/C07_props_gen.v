(* C07 — from_pruned fan-out theorems about the normalisation statements re-translated from the current source
   (C07_gen.v: norm_sectors_gen, from_pruned_fanout); they hold for the pinned and for the repaired code. *)
From Coq Require Import List Arith ZArith Bool.
From P Require Import C07_model C07_gen C07_proofs C07_proofs_gen.
Import ListNotations.
Local Open Scope nat_scope.

(* from_pruned, for the list forms of d_sectors / s_sectors (list_forms), about the normalisation statements
   re-translated from the current source (C07_gen.v): atom i receives its own radial grid / radius / sector
   boundaries / degree list or size list.  (The integer forms: fanout_pruned_spec in C07_props_pruned.v.) *)
Theorem fanout_pruned_spec_partial : forall (RG CT RAD RV DP : Type) (default_params : Z -> option DP)
  atnums (atcoords : list CT) (radius : radius_arg RAD) (r_sectors : list (list RV)) d s (rgrid : rgrid_arg RG) rotate calls,
  list_forms d s ->
  (from_pruned_fanout default_params atnums atcoords radius r_sectors d s rgrid rotate = Some calls <->
   length atnums = length atcoords /\ sec_lengths_ok d s (length atcoords) (length r_sectors) /\
   length calls = length atnums /\
   forall i a, nth_error atnums i = Some a ->
     exists rad ra rs dd ss c,
       nth_error calls i = Some (PrunedCall rad ra rs dd ss c rotate) /\
       rgrid_for default_params rgrid i a rad /\ radius_for radius (length atcoords) i ra /\
       nth_error r_sectors i = Some rs /\ sectors_for d s (length atcoords) i dd ss /\
       nth_error atcoords i = Some c).
Proof. exact @fanout_pruned_gen_lemma. Qed.
Print Assumptions fanout_pruned_spec_partial.

(* on the list forms this is the documented fan-out *)
Theorem fanout_pruned_documented_partial : forall (RG CT RAD RV DP : Type) (default_params : Z -> option DP)
  atnums (atcoords : list CT) (radius : radius_arg RAD) (r_sectors : list (list RV)) d s (rgrid : rgrid_arg RG) rotate,
  list_forms d s ->
  from_pruned_fanout default_params atnums atcoords radius r_sectors d s rgrid rotate =
  from_pruned_documented default_params atnums atcoords radius r_sectors d s rgrid rotate.
Proof. exact @fanout_pruned_gen_documented_lemma. Qed.
Print Assumptions fanout_pruned_documented_partial.
