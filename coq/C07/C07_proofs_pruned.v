(* C07 — full-strength fan-out of MolGrid.from_pruned: for integer AND list d_sectors / s_sectors the
   normalisation statements of the current source (C07_gen.v) compute the documented meaning.
   Separate file: it fails alone when the source does not (see C07_refuted_pruned.v). *)
From Coq Require Import List Arith ZArith Bool.
From P Require Import C07_model C07_gen C07_proofs.
Import ListNotations.

Lemma norm_gen_documented : forall (RV : Type) n (rs : list (list RV)) d s,
  norm_sectors_gen n rs (arg_of_d d) (arg_of_s s) = norm_documented n rs (arg_of_d d) (arg_of_s s).
Proof. intros. destruct d, s; reflexivity. Qed.

Lemma fanout_pruned_spec_lemma : forall (RG CT RAD RV DP : Type) (default_params : Z -> option DP)
  atnums (atcoords : list CT) (radius : radius_arg RAD) (r_sectors : list (list RV)) d s (rgrid : rgrid_arg RG) rotate,
  from_pruned_fanout default_params atnums atcoords radius r_sectors d s rgrid rotate =
  from_pruned_documented default_params atnums atcoords radius r_sectors d s rgrid rotate.
Proof.
  intros. unfold from_pruned_fanout, from_pruned_documented. apply fanout_with_ext. apply norm_gen_documented.
Qed.

(* the documented integer forms give every atom a well-formed AtomGrid.from_pruned call *)
Example ex_int_forms :
  (exists calls, from_pruned_fanout ex_dp [1%Z; 8%Z] [10%Z; 20%Z] (RadScalar 5%Z) ex_rs (DsInt 50) SsNone (RgOne 7%Z) 37%Z = Some calls /\
                 forallb pruned_call_ok calls = true) /\
  (exists calls, from_pruned_fanout ex_dp [1%Z; 8%Z] [10%Z; 20%Z] (RadScalar 5%Z) ex_rs (DsInt 50) (SsInt 6) (RgOne 7%Z) 37%Z = Some calls /\
                 forallb pruned_call_ok calls = true).
Proof. split; eexists; split; vm_compute; reflexivity. Qed.
