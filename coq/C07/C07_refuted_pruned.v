(* Compiled to explain a failure of fanout_pruned_spec (C07_props_pruned.v): with the normalisation statements of
   the current source the documented integer forms of d_sectors (its default, 50) / s_sectors hand every atom a
   bare number, which AtomGrid.from_pruned does not take, or raise — although the documented meaning is a list of
   well-formed calls.  Expected NOT to compile once from_pruned is repaired. *)
From Coq Require Import List Arith ZArith Bool.
From P Require Import C07_model C07_gen C07_proofs.
Import ListNotations.

(* the negation of fanout_pruned_spec: the integer d_sectors (s_sectors None), or else the integer s_sectors, is a witness *)
Lemma fanout_pruned_spec_refuted_lemma :
  ~ (forall (RG CT RAD RV DP : Type) (default_params : Z -> option DP)
       atnums (atcoords : list CT) (radius : radius_arg RAD) (r_sectors : list (list RV)) d s (rgrid : rgrid_arg RG) rotate,
       from_pruned_fanout default_params atnums atcoords radius r_sectors d s rgrid rotate =
       from_pruned_documented default_params atnums atcoords radius r_sectors d s rgrid rotate).
Proof.
  intros H.
  first
    [ pose proof (H Z Z Z Z unit ex_dp [1%Z; 8%Z] [10%Z; 20%Z] (RadScalar 5%Z) ex_rs (DsInt 50) SsNone (RgOne 7%Z) 37%Z) as H1;
      vm_compute in H1; discriminate H1
    | pose proof (H Z Z Z Z unit ex_dp [1%Z; 8%Z] [10%Z; 20%Z] (RadScalar 5%Z) ex_rs (DsInt 50) (SsInt 6) (RgOne 7%Z) 37%Z) as H2;
      vm_compute in H2; discriminate H2 ].
Qed.
