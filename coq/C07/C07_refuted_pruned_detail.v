(* Detail of the failure of fanout_pruned_spec at the pinned commit (C07_props_pruned.v): with the normalisation statements of
   the current source the documented integer forms of d_sectors (its default, 50) / s_sectors hand every atom a
   bare number, which AtomGrid.from_pruned does not take, or raise — although the documented meaning is a list of
   well-formed calls.  Expected NOT to compile once from_pruned is repaired. *)
From Coq Require Import List Arith ZArith Bool.
From P Require Import C07_model C07_gen C07_proofs.
Import ListNotations.

Lemma fanout_pruned_int_refuted_lemma :
  (exists calls,
     from_pruned_fanout ex_dp [1%Z; 8%Z] [10%Z; 20%Z] (RadScalar 5%Z) ex_rs (DsInt 50) SsNone (RgOne 7%Z) 37%Z = Some calls /\
     forallb pruned_call_ok calls = false) /\
  from_pruned_fanout ex_dp [1%Z; 8%Z] [10%Z; 20%Z] (RadScalar 5%Z) ex_rs (DsInt 50) (SsInt 6) (RgOne 7%Z) 37%Z = None /\
  (exists calls,
     from_pruned_documented ex_dp [1%Z; 8%Z] [10%Z; 20%Z] (RadScalar 5%Z) ex_rs (DsInt 50) SsNone (RgOne 7%Z) 37%Z = Some calls /\
     forallb pruned_call_ok calls = true) /\
  (exists calls,
     from_pruned_documented ex_dp [1%Z; 8%Z] [10%Z; 20%Z] (RadScalar 5%Z) ex_rs (DsInt 50) (SsInt 6) (RgOne 7%Z) 37%Z = Some calls /\
     forallb pruned_call_ok calls = true).
Proof.
  repeat split; try (eexists; split; [vm_compute; reflexivity | vm_compute; reflexivity]).
Qed.

