(* C07 — executable model of grid.molgrid.MolGrid (src/grid/molgrid.py):
     __init__ (the preallocated arrays and the slice-assignment loop, callable / array aim weights,
     store on/off), integrate (Grid.integrate), get_atomic_grid, __getitem__, and the argument
     fan-out of the classmethod constructors from_preset / from_size / from_pruned
     (+ _generate_default_rgrid).

   Hand-written, generic in the number type through a record of operations: the theorems
   (C07_proofs.v / C07_props.v) are stated for every commutative semiring (so at R), the
   correspondence with the implementation is executed at bigQ by vm_compute.
   An atomic grid is what MolGrid reads of it: .points (already shifted by the centre), .weights,
   .center (and .size = len(weights)).  The atom-in-molecule weight function, the AtomGrid
   constructors and the table of default radial grids are Section variables.
   No proofs in this file. *)
From Coq Require Import List Arith ZArith Bool Ring_theory.
Import ListNotations.

Record NumOps (T : Type) := MkOps { zero : T; one : T; add : T -> T -> T; mul : T -> T -> T }.
Arguments zero {T} _.
Arguments one {T} _.
Arguments add {T} _ _ _.
Arguments mul {T} _ _ _.

(* the laws assumed of the number type: a commutative semiring (R, Z, Q, ... are instances) *)
Definition semiring {T} (o : NumOps T) : Prop := semi_ring_theory (zero o) (one o) (add o) (mul o) eq.

(* ------------------------------------------------------------------ list / array helpers *)
Fixpoint map2 {A B C} (f : A -> B -> C) (a : list A) (b : list B) : list C :=
  match a, b with
  | x :: r, y :: s => f x y :: map2 f r s
  | _, _ => []
  end.

(* l[a:b] *)
Definition slice {A} (a b : nat) (l : list A) : list A := firstn (b - a) (skipn a l).

(* dst[a:b] = src   (NumPy slice assignment; len(src) = b - a) *)
Definition assign_slice {A} (a b : nat) (src dst : list A) : list A := firstn a dst ++ src ++ skipn b dst.

(* l[i] = x *)
Fixpoint set_nth {A} (i : nat) (x : A) (l : list A) : list A :=
  match l, i with
  | [], _ => []
  | _ :: r, O => x :: r
  | y :: r, S k => y :: set_nth k x r
  end.

Definition enumerate {A} (l : list A) : list (nat * A) := combine (seq 0 (length l)) l.

(* [f(x) for x in l] where any f(x) may raise *)
Fixpoint mapM {A B} (f : A -> option B) (l : list A) : option (list B) :=
  match l with
  | [] => Some []
  | x :: r => match f x with
              | None => None
              | Some y => match mapM f r with None => None | Some ys => Some (y :: ys) end
              end
  end.

(* d[k] for a dict given as an association list (keys are unique in a dict) *)
Fixpoint assoc {V} (k : Z) (d : list (Z * V)) : option V :=
  match d with
  | [] => None
  | (k', v) :: r => if Z.eqb k k' then Some v else assoc k r
  end.

(* ================================================================== MolGrid.__init__ and the views *)
Section Model.
Context {T : Type} (o : NumOps T).

Definition sum (l : list T) : T := fold_right (add o) (zero o) l.        (* np.sum / einsum "i,i" *)

Definition point := list T.                                               (* three coordinates *)
Definition zero3 : point := [zero o; zero o; zero o].

(* what MolGrid reads of an AtomGrid *)
Record atgrid := AtGrid { apts : list point; awts : list T; acen : point }.
Definition asize (g : atgrid) : nat := length (awts g).                   (* Grid.size = weights.size *)
Definition wf_atgrid (g : atgrid) : Prop := length (apts g) = length (awts g).
Definition wf_atgridb (g : atgrid) : bool := length (apts g) =? length (awts g).

(* size = np.sum([atomgrid.size for atomgrid in atgrids]) *)
Definition total_size (gs : list atgrid) : nat := fold_right Nat.add 0 (map asize gs).

(* the four preallocated arrays *)
Record loopstate := LS { ls_atcoords : list point; ls_indices : list nat;
                         ls_points : list point; ls_atweights : list T }.

(* self._atcoords = np.zeros((len(atgrids), 3)); self._indices = np.zeros(len(atgrids) + 1, dtype=int)
   self._points = np.zeros((size, 3));           self._atweights = np.zeros(size)                       *)
Definition init_state (n size : nat) : loopstate :=
  LS (repeat zero3 n) (repeat 0 (S n)) (repeat zero3 size) (repeat (zero o) size).

(* for i, atom_grid in enumerate(atgrids):
       self._atcoords[i] = atom_grid.center
       self._indices[i + 1] += self._indices[i] + atom_grid.size
       start, end = self._indices[i], self._indices[i + 1]
       self._points[start:end] = atom_grid.points
       self._atweights[start:end] = atom_grid.weights                                                  *)
Definition loop_body (s : loopstate) (ig : nat * atgrid) : loopstate :=
  let (i, g) := ig in
  let atc := set_nth i (acen g) (ls_atcoords s) in
  let ind := set_nth (S i) (nth (S i) (ls_indices s) 0 + (nth i (ls_indices s) 0 + asize g)) (ls_indices s) in
  let start := nth i ind 0 in
  let stop := nth (S i) ind 0 in
  LS atc ind (assign_slice start stop (apts g) (ls_points s)) (assign_slice start stop (awts g) (ls_atweights s)).

Definition init_arrays (gs : list atgrid) : loopstate :=
  fold_left loop_body (enumerate gs) (init_state (length gs) (total_size gs)).

(* aim_weights argument: a callable (points, atcoords, atnums, indices) -> array, an ndarray, anything else *)
Definition aimfun := list point -> list point -> list Z -> list nat -> list T.
Inductive aimarg := AimCall (f : aimfun) | AimArray (w : list T) | AimOther.

Record molgrid := Mol { m_atcoords : list point; m_indices : list nat; m_points : list point;
                        m_atweights : list T; m_aim : list T; m_weights : list T;
                        m_atgrids : option (list atgrid) }.

(* MolGrid.__init__(atnums, atgrids, aim_weights, store); None = an exception is raised.
   (an atomic grid whose points and weights differ in length cannot be built by AtomGrid; NumPy would
    refuse the slice assignment) *)
Definition mol_init (atnums : list Z) (gs : list atgrid) (aim : aimarg) (store : bool) : option molgrid :=
  if negb (forallb wf_atgridb gs) then None else
  let s := init_arrays gs in
  let size := total_size gs in
  let aw := match aim with
            | AimCall f => Some (f (ls_points s) (ls_atcoords s) atnums (ls_indices s))
            | AimArray w => if length w =? size then Some w else None          (* ValueError *)
            | AimOther => None                                                (* TypeError *)
            end in
  match aw with
  | None => None
  | Some w =>
      if negb (length w =? size) then None                                    (* Grid.__init__ / broadcasting *)
      else Some (Mol (ls_atcoords s) (ls_indices s) (ls_points s) (ls_atweights s) w
                     (map2 (mul o) (ls_atweights s) w)                        (* self._atweights * self._aim_weights *)
                     (if store then Some gs else None))
  end.

Definition mol_size (m : molgrid) : nat := length (m_weights m).

(* Grid.integrate(values) = einsum("i,i", weights, values) *)
Definition mol_integrate (m : molgrid) (vals : list T) : T := sum (map2 (mul o) (m_weights m) vals).
Definition atgrid_integrate (g : atgrid) (vals : list T) : T := sum (map2 (mul o) (awts g) vals).

(* what is observed of a returned per-atom grid (AtomGrid or LocalGrid): .points, .weights, .center *)
Record localgrid := Local { lpts : list point; lwts : list T; lcen : point }.
Definition view (g : atgrid) : localgrid := Local (apts g) (awts g) (acen g).

(* get_atomic_grid(index) *)
Definition get_atomic_grid (m : molgrid) (index : Z) : option localgrid :=
  if (index <? 0)%Z then None                                                  (* ValueError *)
  else
    let i := Z.to_nat index in
    match m_atgrids m with
    | Some gs => option_map view (nth_error gs i)                             (* self._atgrids[index] *)
    | None =>
        if S i <? length (m_indices m) then
          let a := nth i (m_indices m) 0 in
          let b := nth (S i) (m_indices m) 0 in
          Some (Local (slice a b (m_points m)) (slice a b (m_atweights m)) (nth i (m_atcoords m) []))
        else None                                                             (* IndexError *)
    end.

(* __getitem__(index), 0 <= index *)
Definition getitem (m : molgrid) (i : nat) : option localgrid :=
  match m_atgrids m with
  | None =>
      if S i <? length (m_indices m) then
        let a := nth i (m_indices m) 0 in
        let b := nth (S i) (m_indices m) 0 in
        Some (Local (slice a b (m_points m)) (slice a b (m_weights m)) (nth i (m_atcoords m) []))
      else None
  | Some gs => option_map view (nth_error gs i)                               (* return self._atgrids[index] *)
  end.

(* ------------------------------------------------------------------ specification side *)
(* offsets s [g0; g1; ...] = [s; s + |g0|; s + |g0| + |g1|; ...] *)
Fixpoint offsets (s : nat) (gs : list atgrid) : list nat :=
  match gs with
  | [] => [s]
  | g :: r => s :: offsets (s + asize g) r
  end.

(* the molecular weights of atom k as the property states them: w_A(r_j) * (atomic weight j) *)
Definition atom_mol_weights (g : atgrid) (aimk : list T) : list T := map2 (mul o) (awts g) aimk.

End Model.

Arguments AtGrid {T} _ _ _.
Arguments apts {T} _.
Arguments awts {T} _.
Arguments acen {T} _.
Arguments asize {T} _.
Arguments wf_atgrid {T} _.
Arguments wf_atgridb {T} _.
Arguments total_size {T} _.
Arguments AimCall {T} _.
Arguments AimArray {T} _.
Arguments AimOther {T}.
Arguments Mol {T} _ _ _ _ _ _ _.
Arguments m_atcoords {T} _.
Arguments m_indices {T} _.
Arguments m_points {T} _.
Arguments m_atweights {T} _.
Arguments m_aim {T} _.
Arguments m_weights {T} _.
Arguments m_atgrids {T} _.
Arguments mol_size {T} _.
Arguments Local {T} _ _ _.
Arguments lpts {T} _.
Arguments lwts {T} _.
Arguments lcen {T} _.
Arguments view {T} _.
Arguments get_atomic_grid {T} _ _.
Arguments getitem {T} _ _.
Arguments offsets {T} _ _.

(* ================================================================== argument fan-out of the constructors *)
(* Radial grids, presets, centres, radii are opaque objects here (type parameters); the table behind
   _generate_default_rgrid is the Section variable default_params (instantiated with the table
   re-extracted from utils.py on every run, C07_gen.v). *)
Section Fanout.
Context {RG PR CT RAD RV DP : Type}.
Variable default_params : Z -> option DP.          (* _DEFAULT_POWER_RTRANSFORM_PARAMS *)

(* the `rgrid` argument: None | OneDGrid | list | dict | any other type *)
Inductive rgrid_arg := RgNone | RgOne (r : RG) | RgList (l : list RG) | RgDict (d : list (Z * RG)) | RgOther.

(* the radial grid an atom receives: a given object, or _generate_default_rgrid(atnum) built from the
   table entry p of that atomic number *)
Inductive rad_choice := UseGiven (r : RG) | UseDefault (atnum : Z) (p : DP).

(* if isinstance(rgrid, OneDGrid): rad = rgrid
   elif isinstance(rgrid, list):   rad = rgrid[i]
   elif isinstance(rgrid, dict):   rad = rgrid[atnums[i]]
   elif rgrid is None:             rad = _generate_default_rgrid(atnums[i])
   else: raise TypeError                                                                   *)
Definition pick_rgrid (rg : rgrid_arg) (i : nat) (atnum : Z) : option rad_choice :=
  match rg with
  | RgOne r => Some (UseGiven r)
  | RgList l => option_map UseGiven (nth_error l i)
  | RgDict d => option_map UseGiven (assoc atnum d)
  | RgNone => option_map (UseDefault atnum) (default_params atnum)
  | RgOther => None
  end.

(* ---- from_preset *)
Inductive preset_arg := PsOne (p : PR) | PsList (l : list PR) | PsDict (d : list (Z * PR)) | PsOther.

Definition pick_preset (ps : preset_arg) (i : nat) (atnum : Z) : option PR :=
  match ps with
  | PsOne p => Some p
  | PsList l => nth_error l i
  | PsDict d => assoc atnum d
  | PsOther => None
  end.

(* AtomGrid.from_preset(atnum=, preset=, rgrid=, center=, rotate=) *)
Record preset_call := PresetCall { pc_atnum : Z; pc_preset : PR; pc_rgrid : rad_choice; pc_center : CT; pc_rotate : Z }.

Definition from_preset_fanout (atnums : list Z) (atcoords : list CT) (preset : preset_arg)
           (rgrid : rgrid_arg) (rotate : Z) : option (list preset_call) :=
  if negb (length atnums =? length atcoords) then None                         (* ValueError *)
  else mapM (fun i =>
               match nth_error atnums i, nth_error atcoords i with
               | Some a, Some c =>
                   match pick_rgrid rgrid i a, pick_preset preset i a with
                   | Some rad, Some gd => Some (PresetCall a gd rad c rotate)
                   | _, _ => None
                   end
               | _, _ => None
               end) (seq 0 (length atnums)).

(* ---- from_size: AtomGrid(rad_grid, degrees=None, sizes=[size], center=atcoord, rotate=rotate) *)
Record size_call := SizeCall { sc_rgrid : rad_choice; sc_sizes : list Z; sc_center : CT; sc_rotate : Z }.

(* for atnum, atcoord in zip(atnums, atcoords): ...   (rgrid: OneDGrid or None) *)
Definition from_size_fanout (atnums : list Z) (atcoords : list CT) (size : Z) (rgrid : option RG)
           (rotate : Z) : option (list size_call) :=
  mapM (fun ac : Z * CT =>
          let (a, c) := ac in
          match (match rgrid with
                 | None => option_map (UseDefault a) (default_params a)
                 | Some r => Some (UseGiven r)
                 end) with
          | Some rad => Some (SizeCall rad [size] c rotate)
          | None => None
          end) (combine atnums atcoords).

(* ---- from_pruned *)
Inductive radius_arg := RadScalar (r : RAD) | RadSeq (l : list RAD).           (* float | list / array *)
Inductive dsec_arg := DsInt (d : Z) | DsList (l : list (list Z)).              (* int | list of lists *)
Inductive ssec_arg := SsNone | SsInt (s : Z) | SsList (l : list (list Z)).     (* None | int | list of lists *)
(* what one atom receives as d_sectors / s_sectors *)
Inductive sec_val := SvNone | SvScalar (z : Z) | SvList (l : list Z).

(* AtomGrid.from_pruned(rad, radius_atom[i], r_sectors=, d_sectors=, s_sectors=, center=, rotate=) *)
Record pruned_call := PrunedCall { qc_rgrid : rad_choice; qc_radius : RAD; qc_rsec : list RV;
                                   qc_dsec : sec_val; qc_ssec : sec_val; qc_center : CT; qc_rotate : Z }.

(* the value of the variable d_sectors / s_sectors while from_pruned normalises them: an int, None, or a
   sequence with one entry per atom *)
Inductive secarg := AInt (z : Z) | ANone | ASeq (l : list sec_val).
Definition arg_of_d (d : dsec_arg) : secarg := match d with DsInt z => AInt z | DsList l => ASeq (map SvList l) end.
Definition arg_of_s (s : ssec_arg) : secarg :=
  match s with SsNone => ANone | SsInt z => AInt z | SsList l => ASeq (map SvList l) end.
Definition is_int (a : secarg) : bool := match a with AInt _ => true | _ => false end.      (* isinstance(x, (int, np.integer)) *)
Definition is_none (a : secarg) : bool := match a with ANone => true | _ => false end.      (* x is None *)
(* [x] * natoms puts x itself into the list; only translated under an isinstance-int guard on x *)
Definition elem_of (a : secarg) : sec_val := match a with AInt z => SvScalar z | _ => SvNone end.
Definition int_of (a : secarg) : Z := match a with AInt z => z | _ => 0%Z end.
(* len(x): TypeError on an int and on None *)
Definition seq_of (a : secarg) : option (list sec_val) := match a with ASeq l => Some l | _ => None end.

(* the statements of from_pruned that normalise d_sectors / s_sectors, as a function
   natoms -> r_sectors -> (d_sectors, s_sectors) -> (d_sectors, s_sectors); the one of the current source is
   re-translated on every run (C07_gen.v: norm_sectors_gen) *)
Definition normaliser := nat -> list (list RV) -> secarg -> secarg -> secarg * secarg.

(* everything after the normalisation *)
Definition from_pruned_core (atnums : list Z) (atcoords : list CT) (radius : radius_arg)
           (r_sectors : list (list RV)) (d s : secarg) (rgrid : rgrid_arg) (rotate : Z) : option (list pruned_call) :=
  let natoms := length atcoords in
  match seq_of d, seq_of s with                                                (* len(...) *)
  | Some d2, Some s2 =>
      if negb (length d2 =? length r_sectors) then None                        (* ValueError *)
      else if negb (length s2 =? length r_sectors) then None                   (* ValueError *)
      else
        (* radius_atom = [radius] * natoms if isinstance(radius, (float, np.float64)) else radius *)
        let radius_atom := match radius with RadScalar r => repeat r natoms | RadSeq l => l end in
        mapM (fun i =>
                match nth_error atnums i with
                | Some a =>
                    match pick_rgrid rgrid i a, nth_error radius_atom i, nth_error r_sectors i,
                          nth_error d2 i, nth_error s2 i, nth_error atcoords i with
                    | Some rad, Some ra, Some rs, Some dd, Some ss, Some c =>
                        Some (PrunedCall rad ra rs dd ss c rotate)
                    | _, _, _, _, _, _ => None
                    end
                | None => None
                end) (seq 0 (length atnums))
  | _, _ => None                                                               (* TypeError *)
  end.

Definition from_pruned_fanout_with (norm : normaliser) (atnums : list Z) (atcoords : list CT) (radius : radius_arg)
           (r_sectors : list (list RV)) (d_sectors : dsec_arg) (s_sectors : ssec_arg)
           (rgrid : rgrid_arg) (rotate : Z) : option (list pruned_call) :=
  if negb (length atnums =? length atcoords) then None                         (* ValueError *)
  else
    let ds := norm (length atcoords) r_sectors (arg_of_d d_sectors) (arg_of_s s_sectors) in
    from_pruned_core atnums atcoords radius r_sectors (fst ds) (snd ds) rgrid rotate.

(* the documented meaning of the arguments ("If a number is given, then the same number of degrees is
   used for all sectors of all atoms"; s_sectors likewise; s_sectors wins over d_sectors) *)
Definition doc_sectors (x : Z) (rs : list RV) : sec_val := SvList (repeat x (S (length rs))).
Definition norm_documented : normaliser := fun natoms r_sectors d s =>
  let d1 := match d with AInt z => ASeq (map (doc_sectors z) r_sectors) | _ => d end in
  match s with
  | ANone => (d1, ASeq (repeat SvNone natoms))
  | AInt z => (ASeq (repeat SvNone natoms), ASeq (map (doc_sectors z) r_sectors))
  | ASeq _ => (ASeq (repeat SvNone natoms), s)
  end.
Definition from_pruned_documented := from_pruned_fanout_with norm_documented.

(* AtomGrid.from_pruned takes sequences: exactly one of d_sectors / s_sectors is a list, the other None *)
Definition pruned_call_ok (c : pruned_call) : bool :=
  match qc_dsec c, qc_ssec c with
  | SvList _, SvNone => true
  | SvNone, SvList _ => true
  | _, _ => false
  end.

End Fanout.

Arguments rgrid_arg : clear implicits.
Arguments rad_choice : clear implicits.
Arguments preset_arg : clear implicits.
Arguments preset_call : clear implicits.
Arguments size_call : clear implicits.
Arguments radius_arg : clear implicits.
Arguments pruned_call : clear implicits.

(* ================================================================== the constructors *)
(* cls(atnums, [AtomGrid...(call) for call in fan-out], aim_weights or BeckeWeights(order=3), store=store) *)
Section Constructors.
Context {T : Type} (o : NumOps T) {RG PR CT RAD RV DP : Type}.
Variable default_params : Z -> option DP.
Variable becke3 : @aimfun T.                                         (* BeckeWeights(order=3).__call__ *)
Variable build_preset : preset_call RG PR CT DP -> option (@atgrid T).           (* AtomGrid.from_preset *)
Variable build_size : size_call RG CT DP -> option (@atgrid T).                  (* AtomGrid(...) *)
Variable build_pruned : pruned_call RG CT RAD RV DP -> option (@atgrid T).       (* AtomGrid.from_pruned *)

Definition aim_or_becke (aim : option (@aimarg T)) : @aimarg T :=
  match aim with None => AimCall becke3 | Some a => a end.

(* "build the atomic grids by hand with these calls and call MolGrid" *)
Definition by_hand {CALL} (build : CALL -> option (@atgrid T)) (atnums : list Z) (calls : list CALL)
           (aim : option (@aimarg T)) (store : bool) : option (@molgrid T) :=
  match mapM build calls with
  | None => None
  | Some gs => mol_init o atnums gs (aim_or_becke aim) store
  end.

Definition mol_from_preset atnums atcoords preset rgrid aim rotate store : option (@molgrid T) :=
  match from_preset_fanout default_params atnums atcoords preset rgrid rotate with
  | None => None
  | Some calls => by_hand build_preset atnums calls aim store
  end.

Definition mol_from_size atnums atcoords size rgrid aim rotate store : option (@molgrid T) :=
  match from_size_fanout default_params atnums atcoords size rgrid rotate with
  | None => None
  | Some calls => by_hand build_size atnums calls aim store
  end.

Definition mol_from_pruned (norm : @normaliser RV) atnums atcoords radius r_sectors d_sectors s_sectors rgrid aim rotate store
  : option (@molgrid T) :=
  match from_pruned_fanout_with default_params norm atnums atcoords radius r_sectors d_sectors s_sectors rgrid rotate with
  | None => None
  | Some calls => by_hand build_pruned atnums calls aim store
  end.

End Constructors.
