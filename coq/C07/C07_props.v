(* C07 property theorems (statements only; proofs are in C07_proofs.v).
   `semiring o` = the number type with its 0, 1, +, * is a commutative semiring; R is an instance
   (R_is_semiring), so every statement below holds verbatim at R.
   gs = the atomic grids as MolGrid reads them (points, weights, centre); `mol_init o atnums gs aim store`
   = MolGrid(atnums, atgrids, aim_weights, store) (None = an exception). *)
From Coq Require Import List Arith ZArith Bool Reals.
From P Require Import C07_model C07_proofs.
Import ListNotations.
Local Open Scope nat_scope.

Theorem R_is_semiring : semiring ROps.
Proof. exact R_semiring_lemma. Qed.
Print Assumptions R_is_semiring.

(* ---- the slice-assignment loop of __init__ fills the preallocated arrays with the concatenation, the
   centres and the running offsets, for any number of atomic grids of any sizes *)
Theorem init_loop_spec : forall (T : Type) (o : NumOps T) (gs : list (@atgrid T)), Forall wf_atgrid gs ->
  ls_atcoords (init_arrays o gs) = map acen gs /\
  ls_indices (init_arrays o gs) = offsets 0 gs /\
  ls_points (init_arrays o gs) = concat (map apts gs) /\
  ls_atweights (init_arrays o gs) = concat (map awts gs).
Proof. exact @init_arrays_spec. Qed.
Print Assumptions init_loop_spec.

(* ---- MolGrid.__init__ succeeds exactly on well-formed atomic grids with an aim array (given, or returned by
   the callable applied to (concatenated points, centres, atnums, index table)) of the total size, and the
   object is then an explicit function of the inputs *)
Theorem mol_init_characterised : forall (T : Type) (o : NumOps T) atnums gs aim store m,
  mol_init o atnums gs aim store = Some m <->
  Forall wf_atgrid gs /\
  exists w, aim_values atnums gs aim = Some w /\ length w = total_size gs /\ m = mol_of o gs w store.
Proof. exact @mol_init_iff. Qed.
Print Assumptions mol_init_characterised.

(* ---- points (atomic weights, centres) are the atomic grids' in order *)
Theorem points_concat : forall (T : Type) (o : NumOps T) atnums gs aim store m,
  mol_init o atnums gs aim store = Some m ->
  m_points m = concat (map apts gs) /\
  m_atweights m = concat (map awts gs) /\
  m_atcoords m = map acen gs /\
  mol_size m = total_size gs /\ length (m_points m) = total_size gs.
Proof. exact @points_concat_lemma. Qed.
Print Assumptions points_concat.

(* ---- indices[k]:indices[k+1] are the points (atomic weights) of atom k; the table starts at 0, ends at size *)
Theorem indices_delimit : forall (T : Type) (o : NumOps T) atnums gs aim store m,
  mol_init o atnums gs aim store = Some m ->
  length (m_indices m) = S (length gs) /\
  nth 0 (m_indices m) 0 = 0 /\
  nth (length gs) (m_indices m) 0 = mol_size m /\
  forall k d, k < length gs ->
    let a := nth k (m_indices m) 0 in
    let b := nth (S k) (m_indices m) 0 in
    b = a + asize (nth k gs d) /\
    slice a b (m_points m) = apts (nth k gs d) /\
    slice a b (m_atweights m) = awts (nth k gs d) /\
    nth k (m_atcoords m) [] = acen (nth k gs d).
Proof. exact @indices_delimit_lemma. Qed.
Print Assumptions indices_delimit.

(* ---- weights = atomic weights * aim weights, globally and on every atom's slice; aim_weights is the given
   array or the callable's value on (points, atcoords, atnums, indices) *)
Theorem weights_product : forall (T : Type) (o : NumOps T) atnums gs aim store m,
  mol_init o atnums gs aim store = Some m ->
  aim_values atnums gs aim = Some (m_aim m) /\
  length (m_aim m) = mol_size m /\
  m_weights m = map2 (mul o) (m_atweights m) (m_aim m) /\
  forall k d, k < length gs ->
    let a := nth k (m_indices m) 0 in
    let b := nth (S k) (m_indices m) 0 in
    slice a b (m_weights m) = atom_mol_weights o (nth k gs d) (slice a b (m_aim m)).
Proof. exact @weights_product_lemma. Qed.
Print Assumptions weights_product.

(* ---- molecular integral of f = sum over atoms A of the atomic-grid integral of w_A * f *)
Theorem integral_decomposes : forall (T : Type) (o : NumOps T), semiring o ->
  forall atnums gs aim store m vals d,
  mol_init o atnums gs aim store = Some m ->
  mol_integrate o m vals =
  sum o (map (fun k =>
               let a := nth k (m_indices m) 0 in
               let b := nth (S k) (m_indices m) 0 in
               atgrid_integrate o (nth k gs d) (map2 (mul o) (slice a b (m_aim m)) (slice a b vals)))
             (seq 0 (length gs))).
Proof. exact @integral_decomposes_lemma. Qed.
Print Assumptions integral_decomposes.

(* ---- get_atomic_grid(index): negative index rejected, otherwise the atomic grid itself (its points, its
   ATOMIC weights, its centre), index >= number of atoms rejected — whether or not the grids are stored *)
Theorem get_atomic_grid_spec : forall (T : Type) (o : NumOps T) atnums gs aim store m index,
  mol_init o atnums gs aim store = Some m ->
  get_atomic_grid m index = if (index <? 0)%Z then None else atom_view gs (Z.to_nat index).
Proof. exact @get_atomic_grid_spec_lemma. Qed.
Print Assumptions get_atomic_grid_spec.

(* ---- store_irrelevant, every observable except __getitem__: construction succeeds or fails alike, and
   points, weights, indices, aim_weights, atweights, atcoords, all integrals and all get_atomic_grid results
   coincide *)
Theorem store_irrelevant_partial : forall (T : Type) (o : NumOps T) atnums gs aim,
  match mol_init o atnums gs aim true, mol_init o atnums gs aim false with
  | Some m1, Some m2 => same_observables o m1 m2
  | None, None => True
  | _, _ => False
  end.
Proof. exact @store_irrelevant_partial_lemma. Qed.
Print Assumptions store_irrelevant_partial.

(* ---- getitem_spec holds when the atomic grids are NOT stored: atom i's points, centre, and the atomic weights
   times the atom-in-molecule weights (None for i >= number of atoms) *)
Theorem getitem_spec_partial : forall (T : Type) (o : NumOps T) atnums gs aim m i,
  mol_init o atnums gs aim false = Some m -> getitem m i = atom_mol_view o gs (m_aim m) i.
Proof. exact @getitem_spec_partial_lemma. Qed.
Print Assumptions getitem_spec_partial.

(* ... but with store=True __getitem__ hands back the stored atomic grid, i.e. the ATOMIC weights *)
Theorem getitem_stored : forall (T : Type) (o : NumOps T) atnums gs aim m i,
  mol_init o atnums gs aim true = Some m -> getitem m i = atom_view gs i.
Proof. exact @getitem_stored_lemma. Qed.
Print Assumptions getitem_stored.

(* the two agree on atom i exactly when the aim weights leave its atomic weights unchanged *)
Theorem getitem_store_iff : forall (T : Type) (o : NumOps T) atnums gs aim m1 m2 i g,
  mol_init o atnums gs aim true = Some m1 -> mol_init o atnums gs aim false = Some m2 ->
  nth_error gs i = Some g ->
  (getitem m1 i = getitem m2 i <->
   atom_mol_weights o g (slice (nth i (m_indices m2) 0) (nth (S i) (m_indices m2) 0) (m_aim m2)) = awts g).
Proof. exact @getitem_store_iff_lemma. Qed.
Print Assumptions getitem_store_iff.

(* so the full-strength store_irrelevant / getitem_spec (every per-atom grid handed back is independent of
   `store`) is refuted by the faithful model *)
Theorem getitem_store_refuted :
  exists (atnums : list Z) (gs : list (@atgrid R)) (aim : @aimarg R) m1 m2 i,
    mol_init ROps atnums gs aim true = Some m1 /\ mol_init ROps atnums gs aim false = Some m2 /\
    i < length gs /\ getitem m1 i <> getitem m2 i.
Proof. exact getitem_store_refuted_lemma. Qed.
Print Assumptions getitem_store_refuted.

(* ---- fanout_spec: which call each atom receives.
   rgrid_for: OneDGrid -> that grid; list -> l[i]; dict -> d[atnums[i]]; None -> the default grid of atnums[i] *)
Theorem fanout_preset_spec : forall (RG PR CT DP : Type) (default_params : Z -> option DP)
  atnums (atcoords : list CT) (preset : preset_arg PR) (rgrid : rgrid_arg RG) rotate calls,
  from_preset_fanout default_params atnums atcoords preset rgrid rotate = Some calls <->
  length atnums = length atcoords /\ length calls = length atnums /\
  forall i a c, nth_error atnums i = Some a -> nth_error atcoords i = Some c ->
    exists p r, nth_error calls i = Some (PresetCall a p r c rotate) /\
                preset_for preset i a p /\ rgrid_for default_params rgrid i a r.
Proof. exact @fanout_preset_lemma. Qed.
Print Assumptions fanout_preset_spec.

Theorem fanout_size_spec : forall (RG CT DP : Type) (default_params : Z -> option DP)
  atnums (atcoords : list CT) size (rgrid : option RG) rotate calls,
  from_size_fanout default_params atnums atcoords size rgrid rotate = Some calls <->
  length calls = Nat.min (length atnums) (length atcoords) /\
  forall i a c, nth_error atnums i = Some a -> nth_error atcoords i = Some c ->
    exists r, nth_error calls i = Some (SizeCall r [size] c rotate) /\
              rgrid_for default_params (size_rgrid rgrid) i a r.
Proof. exact @fanout_size_lemma. Qed.
Print Assumptions fanout_size_spec.

(* from_pruned: C07_props_gen.v (list forms) and C07_props_pruned.v (integer forms), about the normalisation statements
   re-translated from the current source *)

(* ---- each constructor = "build the atomic grids by hand with these calls and call MolGrid" (aim_weights=None
   standing for BeckeWeights(order=3)) *)
Theorem constructors_by_hand : forall (T : Type) (o : NumOps T) (RG PR CT RAD RV DP : Type)
  (default_params : Z -> option DP) (becke3 : @aimfun T)
  (build_preset : preset_call RG PR CT DP -> option (@atgrid T))
  (build_size : size_call RG CT DP -> option (@atgrid T))
  (build_pruned : pruned_call RG CT RAD RV DP -> option (@atgrid T)),
  (forall atnums atcoords preset rgrid aim rotate store calls,
     from_preset_fanout default_params atnums atcoords preset rgrid rotate = Some calls ->
     mol_from_preset o default_params becke3 build_preset atnums atcoords preset rgrid aim rotate store =
     by_hand o becke3 build_preset atnums calls aim store) /\
  (forall atnums atcoords size rgrid aim rotate store calls,
     from_size_fanout default_params atnums atcoords size rgrid rotate = Some calls ->
     mol_from_size o default_params becke3 build_size atnums atcoords size rgrid aim rotate store =
     by_hand o becke3 build_size atnums calls aim store) /\
  (forall norm atnums atcoords radius r_sectors d s rgrid aim rotate store calls,
     from_pruned_fanout_with default_params norm atnums atcoords radius r_sectors d s rgrid rotate = Some calls ->
     mol_from_pruned o default_params becke3 build_pruned norm atnums atcoords radius r_sectors d s rgrid aim rotate store =
     by_hand o becke3 build_pruned atnums calls aim store) /\
  (forall CALL (build : CALL -> option (@atgrid T)) atnums calls aim store gs,
     mapM build calls = Some gs ->
     by_hand o becke3 build atnums calls aim store =
     mol_init o atnums gs (match aim with None => AimCall becke3 | Some a => a end) store).
Proof. exact @constructors_by_hand_lemma. Qed.
Print Assumptions constructors_by_hand.
