(* C07 — full-strength fan-out of MolGrid.from_pruned (integer and list sector arguments); separate file: it fails
   alone when the normalisation statements of the current source do not compute the documented meaning
   (then C07_refuted_pruned.v compiles and explains the failure). *)
From Coq Require Import List Arith ZArith Bool.
From P Require Import C07_model C07_gen C07_proofs C07_proofs_pruned.
Import ListNotations.

Theorem fanout_pruned_spec : forall (RG CT RAD RV DP : Type) (default_params : Z -> option DP)
  atnums (atcoords : list CT) (radius : radius_arg RAD) (r_sectors : list (list RV)) d s (rgrid : rgrid_arg RG) rotate,
  from_pruned_fanout default_params atnums atcoords radius r_sectors d s rgrid rotate =
  from_pruned_documented default_params atnums atcoords radius r_sectors d s rgrid rotate.
Proof. exact fanout_pruned_spec_lemma. Qed.
Print Assumptions fanout_pruned_spec.
