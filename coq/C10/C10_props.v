(* C10 property theorems (statements only; proofs are in C10_proofs.v). *)
From Coq Require Import ZArith List Bool Permutation Sorted Reals.
From P Require Import C10_model C10_proofs.
Import ListNotations.
Open Scope Z_scope.

(* The oracle hypothesis is satisfiable: the brute-force ball query (used to execute the model) meets it. *)
Theorem ball_ref_ok : oracle_ok ball_ref.
Proof. exact ball_ref_ok_lemma. Qed.
Print Assumptions ball_ref_ok.

(* A real radius r >= 0 is faithfully represented by k = floor(r^2): for integer coordinates the Euclidean
   test  |p - c| <= r  is the integer test  dist2 p c <= k. *)
Theorem radius_bridge : forall (p c : point) (k : Z) (r : R),
  (0 <= r)%R -> (IZR k <= r * r < IZR (k + 1))%R ->
  ((sqrt (IZR (dist2 p c)) <= r)%R <-> dist2 p c <= k).
Proof. exact radius_bridge_pts_lemma. Qed.
Print Assumptions radius_bridge.

(* FULL STRENGTH, corrected configuration: for every class, every initial grid, EVERY history of point / weight
   reassignments, queries, selections and descents into a selected grid (Enter), and every centre and finite radius, the local grid is a permutation
   (each point once) of [(i, p_i, w_i) | |p_i - c| <= r] over the grid's CURRENT public points and weights;
   in particular an empty sphere gives the empty local grid. *)
Theorem query_refines_spec : forall bq cfg, oracle_ok bq -> good cfg ->
  forall k flat dim pub w c0 x ops c kk,
  let g := exec bq cfg k (init cfg k flat dim pub w c0 x) ops in
  centre_ok g c = true ->
  exists out, fst (query bq cfg k g c (RFin kk)) = OLocal c out /\
              Permutation out (spec_local (public k g) (s_wts g) (cvec c) kk).
Proof. exact query_refines_spec_lemma. Qed.
Print Assumptions query_refines_spec.

(* PARTIAL, any configuration (so also the pinned source): the same conclusion for the classes that store their
   public points (or an AtomGrid once both AtomGrid flags are corrected), for histories that do not reassign
   points (or once the setter drops the tree), when the sphere is not empty (or once empty spheres are handled). *)
Theorem query_refines_spec_partial : forall bq, oracle_ok bq ->
  forall cfg k flat dim pub w c0 x ops c kk,
  (k = CAtom -> atom_tree_init cfg = true /\ local_public cfg = true) ->
  (tree_reset cfg = true \/ no_setpoints ops = true) ->
  let g := exec bq cfg k (init cfg k flat dim pub w c0 x) ops in
  centre_ok g c = true ->
  (empty_ok cfg = true \/ spec_local (public k g) (s_wts g) (cvec c) kk <> []) ->
  exists out, fst (query bq cfg k g c (RFin kk)) = OLocal c out /\
              Permutation out (spec_local (public k g) (s_wts g) (cvec c) kk).
Proof. exact query_refines_spec_partial_lemma. Qed.
Print Assumptions query_refines_spec_partial.

(* An infinite radius returns the whole grid (indices 0..n-1, current weights), for every configuration and state,
   and leaves the state alone; the points are the public ones except for the pinned AtomGrid. *)
Theorem inf_is_whole : forall bq cfg k g c,
  centre_ok g c = true -> (k <> CAtom \/ local_public cfg = true) ->
  query bq cfg k g c RInf = (OLocal c (map (triple (public k g) (s_wts g)) (seq 0 (length (s_wts g)))), g).
Proof. exact inf_is_whole_pub_lemma. Qed.
Print Assumptions inf_is_whole.

(* For every configuration, history and radius: whenever a local grid is returned it echoes the centre, lists no
   parent index twice, every index is a valid parent index, and the stored point and weight are the parent's
   CURRENT point and weight at that index (even when the tree is stale). *)
Theorem indices_map_back : forall bq cfg, oracle_ok bq ->
  forall k flat dim pub w c0 x ops c r c' out,
  length pub = length w -> (k <> CAtom \/ local_public cfg = true) ->
  let g := exec bq cfg k (init cfg k flat dim pub w c0 x) ops in
  fst (query bq cfg k g c r) = OLocal c' out ->
  c' = c /\ NoDup (map (fun t => fst (fst t)) out) /\
  Forall (fun t => let '(i, p, w) := t in
            (i < length (s_wts g))%nat /\ p = nth i (public k g) [] /\ w = nth i (s_wts g) 0) out.
Proof. exact indices_map_back_pub_lemma. Qed.
Print Assumptions indices_map_back.

(* Selection: whenever Python/numpy semantics select the rows l (sel_spec), the result is a grid of the same class
   with exactly those points and weights, in that order, and the same domain / lattice.  Preconditions: the class's
   constructor accepts the rows (extra_ok: non-empty where a domain / a non-empty lattice must be re-validated, rows inside the
   domain), and NumPy integers need the corrected isinstance test. *)
Theorem getitem_spec : forall cfg k g ix l,
  selectable k -> sel_spec (length (s_wts g)) ix = Some l ->
  (forall i, ix = INpInt i -> npint_flag cfg k = true) ->
  extra_ok cfg k g l ->
  getitem cfg k g ix =
    OSel k (map (fun i => nth i (public k g) []) l) (map (fun i => nth i (s_wts g) 0) l) (carried k g).
Proof. exact getitem_spec_lemma. Qed.
Print Assumptions getitem_spec.

(* an invalid index (out of range, zero step, wrong mask length) is rejected with IndexError / ValueError *)
Theorem getitem_invalid : forall cfg k g ix,
  sel_spec (length (s_wts g)) ix = None ->
  getitem cfg k g ix = OErr EIndex \/ getitem cfg k g ix = OErr EValue.
Proof. exact getitem_error_lemma. Qed.
Print Assumptions getitem_invalid.

(* what sel_spec means, per index kind *)
Theorem sel_int_spec : forall n i j,
  resolve n i = Some j <->
  (0 <= i < Z.of_nat n /\ j = Z.to_nat i) \/ (- Z.of_nat n <= i < 0 /\ j = Z.to_nat (i + Z.of_nat n)).
Proof. exact resolve_spec_lemma. Qed.
Print Assumptions sel_int_spec.

Theorem sel_array_spec : forall n l js,
  resolve_all n l = Some js <-> Forall2 (fun i j => resolve n i = Some j) l js.
Proof. exact resolve_all_spec_lemma. Qed.
Print Assumptions sel_array_spec.

Theorem sel_mask_spec : forall m,
  StronglySorted lt (mask_indices m) /\ forall j, In j (mask_indices m) <-> nth j m false = true.
Proof. exact mask_spec_lemma. Qed.
Print Assumptions sel_mask_spec.

Theorem sel_slice_pos_spec : forall n a b step, 0 < step ->
  let lo := adjust (Z.of_nat n) step a true in
  let hi := adjust (Z.of_nat n) step b false in
  0 <= lo <= Z.of_nat n /\ 0 <= hi <= Z.of_nat n /\
  StronglySorted lt (slice_indices n a b step) /\
  forall j, In j (slice_indices n a b step) <-> lo <= Z.of_nat j < hi /\ (Z.of_nat j - lo) mod step = 0.
Proof. exact slice_pos_spec_lemma. Qed.
Print Assumptions sel_slice_pos_spec.

Theorem sel_slice_neg_spec : forall n a b step, step < 0 ->
  let start := adjust (Z.of_nat n) step a true in
  let stop := adjust (Z.of_nat n) step b false in
  -1 <= start <= Z.of_nat n - 1 /\ -1 <= stop <= Z.of_nat n - 1 /\
  StronglySorted gt (slice_indices n a b step) /\
  forall j, In j (slice_indices n a b step) <-> stop < Z.of_nat j <= start /\ (start - Z.of_nat j) mod (- step) = 0.
Proof. exact slice_neg_spec_lemma. Qed.
Print Assumptions sel_slice_neg_spec.

(* ------------------------------------------------------------------ the pinned behaviours violate the property *)
(* Grid([[0,0,0],[1,0,0]]).get_localgrid([10,10,10], r), r*r < 1: the sphere is empty, the call raises IndexError *)
Theorem empty_sphere_refuted : forall bq cfg, oracle_ok bq -> empty_ok cfg = false ->
  let g := init cfg CGrid false 3 [[0;0;0];[1;0;0]] [1;2] [] XNone in
  let c := CVec [10;10;10] in
  centre_ok g c = true /\
  spec_local (public CGrid g) (s_wts g) (cvec c) 0 = [] /\
  fst (query bq cfg CGrid g c (RFin 0)) = OErr EIndex.
Proof. exact empty_sphere_refuted_lemma. Qed.
Print Assumptions empty_sphere_refuted.

(* g = Grid([[0],[5]]); query [0]; g.points = [[5],[0]]; query [0] again: answers from the old tree *)
Theorem stale_tree_refuted : forall bq cfg, oracle_ok bq -> tree_reset cfg = false ->
  let g := exec bq cfg CGrid (init cfg CGrid false 1 [[0];[5]] [1;2] [] XNone)
                [Query (CVec [0]) (RFin 0); SetPoints false [[5];[0]]] in
  let c := CVec [0] in
  centre_ok g c = true /\ public CGrid g = [[5];[0]] /\
  exists out, fst (query bq cfg CGrid g c (RFin 0)) = OLocal c out /\
              ~ Permutation out (spec_local (public CGrid g) (s_wts g) (cvec c) 0).
Proof. exact stale_tree_refuted_lemma. Qed.
Print Assumptions stale_tree_refuted.

(* pinned AtomGrid: after ANY history a finite-radius query raises AttributeError *)
Theorem atomgrid_finite_refuted : forall bq cfg flat dim pub w c0 x ops c kk,
  atom_tree_init cfg = false ->
  let g := exec bq cfg CAtom (init cfg CAtom flat dim pub w c0 x) ops in
  centre_ok g c = true ->
  fst (query bq cfg CAtom g c (RFin kk)) = OErr EAttr.
Proof. exact atomgrid_finite_refuted_lemma. Qed.
Print Assumptions atomgrid_finite_refuted.

(* pinned AtomGrid centred at (5,0,0): the infinite-radius local grid holds the uncentred points *)
Theorem atomgrid_inf_refuted : forall bq cfg, local_public cfg = false ->
  let g := init cfg CAtom false 3 [[6;0;0];[4;0;0]] [1;2] [5;0;0] XNone in
  let c := CVec [5;0;0] in
  centre_ok g c = true /\ public CAtom g = [[6;0;0];[4;0;0]] /\
  exists out, fst (query bq cfg CAtom g c RInf) = OLocal c out /\
              out = [(0%nat, [1;0;0], 1); (1%nat, [-1;0;0], 2)] /\
              ~ Permutation out (map (triple (public CAtom g) (s_wts g)) (seq 0 (length (s_wts g)))).
Proof. exact atomgrid_inf_refuted_lemma. Qed.
Print Assumptions atomgrid_inf_refuted.

(* pinned __getitem__: a valid NumPy integer index selects one row by sel_spec but the call raises *)
Theorem getitem_npint_refuted : forall cfg k g i j,
  selectable k -> npint_flag cfg k = false -> resolve (length (s_wts g)) i = Some j ->
  sel_spec (length (s_wts g)) (INpInt i) = Some [j] /\
  getitem cfg k g (INpInt i) = OErr (match k with CGrid => EType | _ => EValue end).
Proof. exact getitem_npint_refuted_lemma. Qed.
Print Assumptions getitem_npint_refuted.

(* an empty selection on a PeriodicGrid raises ValueError: always when there are lattice vectors (the constructor cannot
   build an empty periodic grid), and on the pinned source also without lattice vectors, where the grid is documented to
   behave like the plain Grid (whose empty selection is the empty grid) *)
Theorem periodic_empty_refuted : forall cfg g ix,
  sel_spec (length (s_wts g)) ix = Some [] ->
  (periodic_empty_ok cfg = false \/ ~ no_lattice g) ->
  getitem cfg CPeriodic g ix = OErr EValue.
Proof. exact periodic_empty_refuted_lemma. Qed.
Print Assumptions periodic_empty_refuted.
