(* C10 — proofs about the model in C10_model.v. *)
From Coq Require Import ZArith List Bool Lia ZifyBool Permutation Sorted Reals Lra.
From P Require Import C10_model.
Import ListNotations.
Open Scope Z_scope.

(* ------------------------------------------------------------------ the oracle hypothesis *)
(* cKDTree(snap).query_ball_point(c, r, p=2) returns, in some order and without repetition, exactly the
   indices of the rows of [snap] within the ball (k = floor(r^2), integer coordinates). *)
Definition oracle_ok (bq : list point -> point -> Z -> list nat) : Prop :=
  forall snap c k,
    NoDup (bq snap c k) /\
    forall i, In i (bq snap c k) <-> (i < length snap)%nat /\ dist2 (nth i snap []) c <= k.

Lemma filter_seq_NoDup (f : nat -> bool) a n : NoDup (filter f (seq a n)).
Proof. apply NoDup_filter, seq_NoDup. Qed.

Lemma ball_ref_ok_lemma : oracle_ok ball_ref.
Proof.
  intros snap c k. split.
  - apply filter_seq_NoDup.
  - intros i. unfold ball_ref, within. rewrite filter_In, in_seq, Z.leb_le. lia.
Qed.

Lemma bq_perm bq (H : oracle_ok bq) pts c k :
  Permutation (bq pts c k) (filter (within pts c k) (seq 0 (length pts))).
Proof.
  destruct (H pts c k) as [Hnd Hin].
  apply NoDup_Permutation; [exact Hnd | apply filter_seq_NoDup |].
  intros i. rewrite Hin. unfold within. rewrite filter_In, in_seq, Z.leb_le. lia.
Qed.

Lemma dist2_nonneg p : forall c, 0 <= dist2 p c.
Proof.
  induction p as [|x p IH]; intros [|y c]; cbn [dist2]; try lia.
  specialize (IH c). pose proof (Z.square_nonneg (x - y)). lia.
Qed.

(* the encoding of a real radius by k = floor(r^2) *)
Lemma radius_bridge_lemma (d k : Z) (r : R) :
  0 <= d -> (0 <= r)%R -> (IZR k <= r * r < IZR (k + 1))%R ->
  ((sqrt (IZR d) <= r)%R <-> d <= k).
Proof.
  intros Hd Hr [Hlo Hhi].
  assert (Hd' : (0 <= IZR d)%R) by (apply IZR_le; exact Hd).
  split.
  - intros Hs.
    assert (H1 : (IZR d <= r * r)%R).
    { rewrite <- (sqrt_sqrt (IZR d) Hd') at 1.
      apply Rmult_le_compat; try apply sqrt_pos; exact Hs. }
    assert (H2 : (IZR d < IZR (k + 1))%R) by lra.
    apply lt_IZR in H2. lia.
  - intros Hk.
    assert (H1 : (IZR d <= r * r)%R).
    { apply Rle_trans with (IZR k); [apply IZR_le; exact Hk | exact Hlo]. }
    rewrite <- (sqrt_square r Hr). apply sqrt_le_1_alt. exact H1.
Qed.

(* ------------------------------------------------------------------ index semantics *)
Lemma resolve_spec_lemma n i j :
  resolve n i = Some j <->
  (0 <= i < Z.of_nat n /\ j = Z.to_nat i) \/ (- Z.of_nat n <= i < 0 /\ j = Z.to_nat (i + Z.of_nat n)).
Proof.
  unfold resolve.
  destruct ((0 <=? i) && (i <? Z.of_nat n)) eqn:E1.
  - apply andb_prop in E1 as [A B]. apply Z.leb_le in A. apply Z.ltb_lt in B.
    split; [intros [= <-]; left; lia | intros [[_ ->]|[? _]]; [reflexivity | lia]].
  - apply andb_false_iff in E1. rewrite Z.leb_gt, Z.ltb_ge in E1.
    destruct ((- Z.of_nat n <=? i) && (i <? 0)) eqn:E2.
    + apply andb_prop in E2 as [A B]. apply Z.leb_le in A. apply Z.ltb_lt in B.
      split; [intros [= <-]; right; lia | intros [[? _]|[_ ->]]; [lia | reflexivity]].
    + apply andb_false_iff in E2. rewrite Z.leb_gt, Z.ltb_ge in E2.
      split; [discriminate | intros [[? _]|[? _]]; lia].
Qed.

Lemma resolve_lt n i j : resolve n i = Some j -> (j < n)%nat.
Proof. rewrite resolve_spec_lemma. lia. Qed.

Lemma resolve_all_spec_lemma n l js :
  resolve_all n l = Some js <-> Forall2 (fun i j => resolve n i = Some j) l js.
Proof.
  revert js; induction l as [|i l IH]; intros js; cbn [resolve_all].
  - split; [intros [= <-]; constructor | intros H; inversion H; reflexivity].
  - destruct (resolve n i) as [j|] eqn:E.
    + destruct (resolve_all n l) as [js'|] eqn:E'.
      * split.
        -- intros [= <-]. constructor; [exact E | apply IH; reflexivity].
        -- intros H; inversion H as [|? j0 ? js0 Hj Hr]; subst.
           apply IH in Hr. congruence.
      * split; [discriminate|]. intros H; inversion H as [|? j0 ? js0 Hj Hr]; subst.
        apply IH in Hr. discriminate.
    + split; [discriminate|]. intros H; inversion H; congruence.
Qed.

Lemma mask_from_in a m j : In j (mask_from a m) <-> (a <= j)%nat /\ nth (j - a) m false = true.
Proof.
  revert a; induction m as [|b m IH]; intros a; cbn [mask_from].
  - split; [intros [] | intros [_ H]; destruct (j - a)%nat; discriminate].
  - assert (Hs : forall j, (S a <= j)%nat -> (j - a)%nat = S (j - S a)) by (intros; lia).
    destruct b; cbn [In]; rewrite IH; split.
    + intros [<-|[H1 H2]]; [rewrite Nat.sub_diag; split; [lia|reflexivity]|].
      split; [lia|]. rewrite (Hs j H1). exact H2.
    + intros [H1 H2]. destruct (Nat.eq_dec a j) as [->|Hne]; [left; reflexivity|right].
      assert (S a <= j)%nat by lia. split; [assumption|]. rewrite (Hs j H) in H2. exact H2.
    + intros [H1 H2]. split; [lia|]. rewrite (Hs j H1). exact H2.
    + intros [H1 H2]. destruct (Nat.eq_dec a j) as [->|Hne].
      * rewrite Nat.sub_diag in H2. discriminate.
      * assert (S a <= j)%nat by lia. split; [assumption|]. rewrite (Hs j H) in H2. exact H2.
Qed.

Lemma mask_from_sorted a m : StronglySorted lt (mask_from a m).
Proof.
  revert a; induction m as [|b m IH]; intros a; cbn [mask_from]; [constructor|].
  destruct b; [|apply IH].
  constructor; [apply IH|]. apply Forall_forall. intros j Hj. apply mask_from_in in Hj. lia.
Qed.

Lemma mask_spec_lemma m :
  StronglySorted lt (mask_indices m) /\ forall j, In j (mask_indices m) <-> nth j m false = true.
Proof.
  split; [apply mask_from_sorted|]. intros j. unfold mask_indices. rewrite mask_from_in, Nat.sub_0_r.
  split; [intros [_ H]; exact H | intros H; split; [lia | exact H]].
Qed.

Lemma adjust_pos_bounds n step v s : 0 <= n -> 0 < step -> 0 <= adjust n step v s <= n.
Proof.
  intros Hn Hs. unfold adjust. destruct v as [x|].
  - cbv zeta. destruct (Z.ltb_spec step 0); [lia|].
    destruct (Z.ltb_spec x 0).
    + destruct (Z.ltb_spec (x + n) 0); [lia|]. destruct (Z.leb_spec n (x + n)); lia.
    + destruct (Z.ltb_spec x 0); [lia|]. destruct (Z.leb_spec n x); lia.
  - destruct (Z.ltb_spec 0 step); [|lia]. destruct s; lia.
Qed.

(* slices with a positive step: exactly the positions lo, lo+step, ... below hi, ascending *)
Lemma slice_pos_spec_lemma n a b step :
  0 < step ->
  let lo := adjust (Z.of_nat n) step a true in
  let hi := adjust (Z.of_nat n) step b false in
  0 <= lo <= Z.of_nat n /\ 0 <= hi <= Z.of_nat n /\
  StronglySorted lt (slice_indices n a b step) /\
  forall j, In j (slice_indices n a b step) <->
            lo <= Z.of_nat j < hi /\ (Z.of_nat j - lo) mod step = 0.
Proof.
  intros Hs lo hi.
  assert (Hlo : 0 <= lo <= Z.of_nat n) by (apply adjust_pos_bounds; lia).
  assert (Hhi : 0 <= hi <= Z.of_nat n) by (apply adjust_pos_bounds; lia).
  split; [exact Hlo|]. split; [exact Hhi|].
  unfold slice_indices. fold lo hi.
  set (len := slice_len lo hi step).
  assert (Hlen : 0 <= len /\ forall i, 0 <= i -> (i < len <-> lo + i * step < hi)).
  { subst len. unfold slice_len. destruct (0 <? step) eqn:E; [|lia].
    destruct (lo <? hi) eqn:E2.
    - assert (Hq : 0 <= (hi - lo - 1) / step) by (apply Z.div_pos; lia).
      split; [lia|]. intros i Hi.
      pose proof (Z.div_mod (hi - lo - 1) step ltac:(lia)) as Hdm.
      pose proof (Z.mod_pos_bound (hi - lo - 1) step Hs) as Hmb.
      split; intros H; nia.
    - split; [lia|]. intros i Hi. split; [lia|]. intros H. nia. }
  destruct Hlen as [Hlen0 Hlen].
  split.
  - (* sorted *)
    assert (Hgen : forall m s, (s + m <= Z.to_nat len)%nat ->
               StronglySorted lt (map (fun j => Z.to_nat (lo + Z.of_nat j * step)) (seq s m))).
    { induction m as [|m IH]; intros s Hm; cbn [seq map]; constructor.
      - apply IH. lia.
      - apply Forall_forall. intros y Hy. apply in_map_iff in Hy as [j [<- Hj]]. apply in_seq in Hj.
        apply Z2Nat.inj_lt; nia. }
    apply Hgen. lia.
  - intros j. rewrite in_map_iff. split.
    + intros [i [<- Hi]]. apply in_seq in Hi.
      assert (Hi' : Z.of_nat i < len) by lia.
      apply Hlen in Hi'; [|lia].
      rewrite Z2Nat.id by nia. split; [nia|].
      replace (lo + Z.of_nat i * step - lo) with (Z.of_nat i * step) by lia.
      apply Z.mod_mul. lia.
    + intros [[H1 H2] H3].
      apply Z.mod_divide in H3; [|lia]. destruct H3 as [q Hq].
      assert (Hq0 : 0 <= q) by nia.
      exists (Z.to_nat q). split.
      * rewrite Z2Nat.id by lia. rewrite <- Hq. replace (lo + (Z.of_nat j - lo)) with (Z.of_nat j) by lia.
        apply Nat2Z.id.
      * apply in_seq. split; [lia|]. cbn [plus].
        assert (q < len) by (apply Hlen; [lia | nia]). lia.
Qed.

Lemma adjust_neg_bounds n step v s : 0 <= n -> step < 0 -> -1 <= adjust n step v s <= n - 1.
Proof.
  intros Hn Hs. unfold adjust. destruct v as [x|].
  - cbv zeta. destruct (Z.ltb_spec step 0); [|lia].
    destruct (Z.ltb_spec x 0).
    + destruct (Z.ltb_spec (x + n) 0); [lia|]. destruct (Z.leb_spec n (x + n)); lia.
    + destruct (Z.ltb_spec x 0); [lia|]. destruct (Z.leb_spec n x); lia.
  - destruct (Z.ltb_spec 0 step); [lia|]. destruct s; lia.
Qed.

(* slices with a negative step: start, start+step, ... above stop, descending *)
Lemma slice_neg_spec_lemma n a b step :
  step < 0 ->
  let start := adjust (Z.of_nat n) step a true in
  let stop := adjust (Z.of_nat n) step b false in
  -1 <= start <= Z.of_nat n - 1 /\ -1 <= stop <= Z.of_nat n - 1 /\
  StronglySorted gt (slice_indices n a b step) /\
  forall j, In j (slice_indices n a b step) <->
            stop < Z.of_nat j <= start /\ (start - Z.of_nat j) mod (- step) = 0.
Proof.
  intros Hs start stop.
  assert (Hstart : -1 <= start <= Z.of_nat n - 1) by (apply adjust_neg_bounds; lia).
  assert (Hstop : -1 <= stop <= Z.of_nat n - 1) by (apply adjust_neg_bounds; lia).
  split; [exact Hstart|]. split; [exact Hstop|].
  unfold slice_indices. fold start stop.
  set (len := slice_len start stop step).
  assert (Hlen : 0 <= len /\ forall i, 0 <= i -> (i < len <-> stop < start + i * step)).
  { subst len. unfold slice_len. destruct (0 <? step) eqn:E; [lia|].
    destruct (stop <? start) eqn:E2.
    - assert (Hq : 0 <= (start - stop - 1) / (- step)) by (apply Z.div_pos; lia).
      split; [lia|]. intros i Hi.
      pose proof (Z.div_mod (start - stop - 1) (- step) ltac:(lia)) as Hdm.
      pose proof (Z.mod_pos_bound (start - stop - 1) (- step) ltac:(lia)) as Hmb.
      split; intros H; nia.
    - split; [lia|]. intros i Hi. split; [lia|]. intros H. nia. }
  destruct Hlen as [Hlen0 Hlen].
  split.
  - assert (Hgen : forall m s, (s + m <= Z.to_nat len)%nat ->
               StronglySorted gt (map (fun j => Z.to_nat (start + Z.of_nat j * step)) (seq s m))).
    { induction m as [|m IH]; intros s Hm; cbn [seq map]; constructor.
      - apply IH. lia.
      - apply Forall_forall. intros y Hy. apply in_map_iff in Hy as [j [<- Hj]]. apply in_seq in Hj.
        assert (stop < start + Z.of_nat j * step) by (apply Hlen; lia).
        unfold gt. apply Z2Nat.inj_lt; nia. }
    apply Hgen. lia.
  - intros j. rewrite in_map_iff. split.
    + intros [i [<- Hi]]. apply in_seq in Hi.
      assert (Hi' : stop < start + Z.of_nat i * step) by (apply Hlen; lia).
      rewrite Z2Nat.id by lia. split; [nia|].
      replace (start - (start + Z.of_nat i * step)) with (Z.of_nat i * - step) by lia.
      apply Z.mod_mul. lia.
    + intros [[H1 H2] H3].
      apply Z.mod_divide in H3; [|lia]. destruct H3 as [q Hq].
      assert (Hq0 : 0 <= q) by nia.
      exists (Z.to_nat q). split.
      * rewrite Z2Nat.id by lia. replace (start + q * step) with (Z.of_nat j) by lia.
        apply Nat2Z.id.
      * apply in_seq. split; [lia|]. cbn [plus].
        assert (q < len) by (apply Hlen; [lia | nia]). lia.
Qed.

(* ------------------------------------------------------------------ selection *)
Definition selectable (k : cls) : Prop := k = CGrid \/ k = COneD \/ k = CPeriodic.

(* what the class's constructor requires of the selected rows (besides existing) *)
Definition no_lattice (g : state) : Prop := match s_extra g with XLattice (_ :: _) => False | _ => True end.

Definition extra_ok (cfg : config) (k : cls) (g : state) (l : list nat) : Prop :=
  match k with
  | COneD => match s_extra g with
             | XDomain lo hi => l <> [] /\ forall i, In i l -> in_domain lo hi (nth i (s_pts g) []) = true
             | _ => True
             end
  | CPeriodic => l <> [] \/ (periodic_empty_ok cfg = true /\ no_lattice g)
  | _ => True
  end.

Definition carried (k : cls) (g : state) : extra :=
  match k with
  | COneD => match s_extra g with XDomain lo hi => XDomain lo hi | _ => XNone end
  | CPeriodic => match s_extra g with XLattice L => XLattice L | _ => XLattice [] end
  | _ => XNone
  end.

Lemma is_nil_false {A} (l : list A) : l <> [] -> is_nil l = false.
Proof. destruct l; [congruence | reflexivity]. Qed.

Lemma build_ok cfg k g l : selectable k -> extra_ok cfg k g l ->
  build (periodic_empty_ok cfg) k g l =
    OSel k (map (fun i => nth i (public k g) []) l) (map (fun i => nth i (s_wts g) 0) l) (carried k g).
Proof.
  intros [-> | [-> | ->]] He; unfold build, carried, extra_ok in *.
  - reflexivity.
  - destruct (s_extra g) as [|lo hi|L]; try reflexivity.
    destruct He as [Hne Hdom]. rewrite (is_nil_false _ Hne).
    replace (forallb _ _) with true; [reflexivity|].
    symmetry. apply forallb_forall. intros p Hp. apply in_map_iff in Hp as [i [<- Hi]].
    cbn [public]. apply Hdom, Hi.
  - destruct He as [He|[Hpe Hnl]].
    + rewrite (is_nil_false _ He). cbn [andb]. destruct (s_extra g); reflexivity.
    + rewrite Hpe. unfold no_lattice in Hnl.
      destruct (s_extra g) as [| |[|v L]]; cbn [is_nil andb negb]; try rewrite andb_false_r; try reflexivity.
      destruct Hnl.
Qed.

Lemma getitem_spec_lemma cfg k g ix l :
  selectable k -> sel_spec (length (s_wts g)) ix = Some l ->
  (forall i, ix = INpInt i -> npint_flag cfg k = true) ->
  extra_ok cfg k g l ->
  getitem cfg k g ix =
    OSel k (map (fun i => nth i (public k g) []) l) (map (fun i => nth i (s_wts g) 0) l) (carried k g).
Proof.
  intros Hk Hs Hnp He. unfold getitem, select. destruct ix as [i|i|a b s|li|m]; cbn [sel_spec] in Hs.
  - destruct (resolve _ i) as [j|]; [|discriminate]. injection Hs as <-. apply build_ok; assumption.
  - destruct (resolve _ i) as [j|]; [|discriminate]. injection Hs as <-.
    rewrite (Hnp i eq_refl). apply build_ok; assumption.
  - destruct (_ =? 0); [discriminate|]. injection Hs as <-. apply build_ok; assumption.
  - destruct (resolve_all _ li) as [js|]; [|discriminate]. injection Hs as <-. apply build_ok; assumption.
  - destruct (_ || _); [|discriminate]. injection Hs as <-. apply build_ok; assumption.
Qed.

Lemma getitem_error_lemma cfg k g ix :
  sel_spec (length (s_wts g)) ix = None ->
  getitem cfg k g ix = OErr EIndex \/ getitem cfg k g ix = OErr EValue.
Proof.
  intros Hs. unfold getitem, select. destruct ix as [i|i|a b s|li|m]; cbn [sel_spec] in Hs.
  - destruct (resolve _ i); [discriminate|]. left; reflexivity.
  - destruct (resolve _ i); [discriminate|]. left; reflexivity.
  - destruct (_ =? 0); [|discriminate]. right; reflexivity.
  - destruct (resolve_all _ li); [discriminate|]. left; reflexivity.
  - destruct (_ || _); [discriminate|]. left; reflexivity.
Qed.

Lemma getitem_npint_refuted_lemma cfg k g i j :
  selectable k -> npint_flag cfg k = false -> resolve (length (s_wts g)) i = Some j ->
  sel_spec (length (s_wts g)) (INpInt i) = Some [j] /\
  getitem cfg k g (INpInt i) = OErr (match k with CGrid => EType | _ => EValue end).
Proof.
  intros Hk Hf Hr. split; [cbn [sel_spec]; rewrite Hr; reflexivity|].
  unfold getitem, select. rewrite Hr, Hf. destruct Hk as [-> | [-> | ->]]; reflexivity.
Qed.

(* pinned PeriodicGrid without lattice vectors: an empty selection (grid[0:0], all-false mask, empty index array) raises,
   although such a grid "behaves identically to the Grid base class", where the empty selection is an empty grid;
   with lattice vectors the constructor rejects zero points on every configuration *)
Lemma periodic_empty_refuted_lemma cfg g ix :
  sel_spec (length (s_wts g)) ix = Some [] ->
  (periodic_empty_ok cfg = false \/ ~ no_lattice g) ->
  getitem cfg CPeriodic g ix = OErr EValue.
Proof.
  intros Hs Hc. unfold getitem, select. destruct ix as [i|i|a b s|li|m]; cbn [sel_spec] in Hs.
  - destruct (resolve _ i); discriminate.
  - destruct (resolve _ i); discriminate.
  - destruct (_ =? 0); [discriminate|]. injection Hs as ->. unfold build. cbn [is_nil andb].
    destruct Hc as [->|Hc]; [reflexivity|]. unfold no_lattice in Hc.
    destruct (s_extra g) as [| |[|v L]]; try (exfalso; apply Hc; exact I). cbn [is_nil]. rewrite andb_false_r. reflexivity.
  - destruct (resolve_all _ li); [|discriminate]. injection Hs as ->. unfold build. cbn [is_nil andb].
    destruct Hc as [->|Hc]; [reflexivity|]. unfold no_lattice in Hc.
    destruct (s_extra g) as [| |[|v L]]; try (exfalso; apply Hc; exact I). cbn [is_nil]. rewrite andb_false_r. reflexivity.
  - destruct (_ || _); [|discriminate]. injection Hs as ->. unfold build. cbn [is_nil andb].
    destruct Hc as [->|Hc]; [reflexivity|]. unfold no_lattice in Hc.
    destruct (s_extra g) as [| |[|v L]]; try (exfalso; apply Hc; exact I). cbn [is_nil]. rewrite andb_false_r. reflexivity.
Qed.

Lemma build_sel_len pe k g l k' p w x : build pe k g l = OSel k' p w x -> length p = length w.
Proof.
  unfold build. intros H.
  repeat match type of H with
  | context [match ?e with _ => _ end] => destruct e eqn:?; try discriminate H
  end; injection H as <- <- <- <-; rewrite !map_length; reflexivity.
Qed.

Lemma getitem_sel_len cfg k g ix k' p w x : getitem cfg k g ix = OSel k' p w x -> length p = length w.
Proof.
  unfold getitem. destruct (select _ _ ix); try discriminate; try apply build_sel_len.
  destruct k; discriminate.
Qed.

Lemma getitem_atom_err cfg g ix : exists e, getitem cfg CAtom g ix = OErr e.
Proof. unfold getitem. destruct (select _ _ ix); cbn [build]; eauto. Qed.

(* ------------------------------------------------------------------ the machine *)
Section Machine.
  Variable bq : list point -> point -> Z -> list nat.
  Hypothesis Hbq : oracle_ok bq.
  Variable cfg : config.

  Notation query := (query bq cfg).
  Notation step := (step bq cfg).
  Notation exec := (exec bq cfg).
  Notation read_pts := (read_pts cfg).
  Notation init := (init cfg).

  Definition inv_len (g : state) : Prop :=
    length (s_pts g) = length (s_wts g) /\
    forall snap, s_tree g = TBuilt snap -> length snap = length (s_pts g).
  Definition inv_fresh (k : cls) (g : state) : Prop :=
    forall snap, s_tree g = TBuilt snap -> snap = read_pts k g.

  Definition is_setpoints (o : op) : bool := match o with SetPoints _ _ => true | _ => false end.
  Definition no_setpoints (ops : list op) : bool := forallb (fun o => negb (is_setpoints o)) ops.

  Lemma read_pts_length k g : length (read_pts k g) = length (s_pts g).
  Proof.
    unfold C10_model.read_pts, public. destruct (local_public cfg); [|reflexivity].
    destruct k; try reflexivity. apply map_length.
  Qed.

  Lemma read_pts_public k g : k <> CAtom \/ local_public cfg = true -> read_pts k g = public k g.
  Proof.
    unfold C10_model.read_pts. intros [Hk | ->]; [|reflexivity].
    destruct (local_public cfg); [reflexivity|]. destruct k; try reflexivity. congruence.
  Qed.

  (* -------- one step preserves the invariants *)
  Lemma query_state k g c r :
    snd (query k g c r) = g \/
    (s_tree g = TNone /\ snd (query k g c r) = set_tree g (TBuilt (read_pts k g))).
  Proof.
    unfold C10_model.query. destruct (negb (centre_ok g c)); [left; reflexivity|].
    destruct r; try (left; reflexivity).
    destruct (s_tree g) eqn:E; [left; reflexivity | right; split; reflexivity | left; reflexivity].
  Qed.

  Lemma step_inv_len k g o : inv_len g -> inv_len (snd (step k g o)).
  Proof.
    intros [H1 H2]. destruct o as [fl v|v|c r|ix|ix]; cbn [C10_model.step].
    - assert (Hgen : forall g', g' = (if shape_ok g fl v
               then (ODone, mkst v (s_wts g) (s_flat g) (s_dim g) (s_centre g) (s_extra g)
                     (if tree_reset cfg then match s_tree g with TUnset => TUnset | _ => TNone end else s_tree g))
               else (OErr EValue, g)) -> inv_len (snd g')).
      { intros g' ->. destruct (shape_ok g fl v) eqn:Es; cbn [snd]; [|split; assumption].
        unfold shape_ok in Es. apply andb_prop in Es as [Es _]. apply andb_prop in Es as [_ Es].
        apply Nat.eqb_eq in Es. split; cbn [s_pts s_wts s_tree]; [congruence|].
        intros snap Hsn. destruct (tree_reset cfg).
        - destruct (s_tree g); discriminate.
        - rewrite (H2 snap Hsn). congruence. }
      destruct k; try (apply Hgen; reflexivity). cbn [snd]. split; assumption.
    - destruct (length v =? length (s_wts g))%nat eqn:E; cbn [snd]; [|split; assumption].
      apply Nat.eqb_eq in E. split; cbn [s_pts s_wts s_tree]; [congruence | exact H2].
    - destruct (query_state k g c r) as [->|[Ht ->]]; [split; assumption|].
      split; cbn [set_tree s_pts s_wts s_tree]; [exact H1|].
      intros snap [= <-]. apply read_pts_length.
    - cbn [snd]. split; assumption.
    - destruct (getitem cfg k g ix) as [e| |c l|k' p w x] eqn:E; cbn [snd]; try (split; assumption).
      split; cbn [s_pts s_wts s_tree]; [exact (getitem_sel_len _ _ _ _ _ _ _ _ E) | discriminate].
  Qed.

  Lemma read_pts_weights k g v t :
    read_pts k (mkst (s_pts g) v (s_flat g) (s_dim g) (s_centre g) (s_extra g) t) = read_pts k g.
  Proof. unfold C10_model.read_pts, public. destruct (local_public cfg), k; reflexivity. Qed.

  Lemma step_inv_fresh k g o :
    tree_reset cfg = true \/ is_setpoints o = false -> inv_fresh k g -> inv_fresh k (snd (step k g o)).
  Proof.
    intros Hc Hf. destruct o as [fl v|v|c r|ix|ix]; cbn [C10_model.step].
    - destruct Hc as [Hc|Hc]; [|discriminate]. rewrite Hc.
      destruct k; cbn [snd]; try exact Hf;
        (destruct (shape_ok g fl v); cbn [snd]; [|exact Hf];
         intros snap Hsn; cbn [s_tree] in Hsn; destruct (s_tree g); discriminate).
    - destruct (length v =? length (s_wts g))%nat; cbn [snd]; [|exact Hf].
      intros snap Hsn. cbn [s_tree] in Hsn. rewrite read_pts_weights. apply Hf, Hsn.
    - destruct (query_state k g c r) as [->|[Ht ->]]; [exact Hf|].
      intros snap [= <-]. unfold set_tree. symmetry. apply read_pts_weights.
    - exact Hf.
    - destruct (getitem cfg k g ix) as [e| |c l|k' p w x]; cbn [snd]; try exact Hf.
      intros snap Hsn. discriminate Hsn.
  Qed.

  Lemma step_tree_set k g o : s_tree g <> TUnset -> s_tree (snd (step k g o)) <> TUnset.
  Proof.
    intros Ht. destruct o as [fl v|v|c r|ix|ix]; cbn [C10_model.step].
    - destruct k; cbn [snd]; try exact Ht;
        (destruct (shape_ok g fl v); cbn [snd s_tree]; [|exact Ht];
         destruct (tree_reset cfg); [destruct (s_tree g); congruence | exact Ht]).
    - destruct (length v =? length (s_wts g))%nat; exact Ht.
    - destruct (query_state k g c r) as [->|[_ ->]]; [exact Ht | discriminate].
    - exact Ht.
    - destruct (getitem cfg k g ix) as [e| |c l|k' p w x]; cbn [snd s_tree]; try exact Ht. discriminate.
  Qed.

  Lemma step_tree_unset g o : s_tree g = TUnset -> s_tree (snd (step CAtom g o)) = TUnset.
  Proof.
    intros Ht. destruct o as [fl v|v|c r|ix|ix]; cbn [C10_model.step].
    - exact Ht.
    - destruct (length v =? length (s_wts g))%nat; exact Ht.
    - destruct (query_state CAtom g c r) as [->|[Hn _]]; [exact Ht | congruence].
    - exact Ht.
    - destruct (getitem_atom_err cfg g ix) as [e ->]. exact Ht.
  Qed.

  Lemma exec_inv_len k ops : forall g, inv_len g -> inv_len (exec k g ops).
  Proof. induction ops as [|o ops IH]; intros g H; cbn [C10_model.exec]; [exact H|]. apply IH, step_inv_len, H. Qed.

  Lemma exec_inv_fresh k ops : forall g,
    tree_reset cfg = true \/ no_setpoints ops = true -> inv_fresh k g -> inv_fresh k (exec k g ops).
  Proof.
    induction ops as [|o ops IH]; intros g Hc H; cbn [C10_model.exec]; [exact H|].
    apply IH.
    - destruct Hc as [Hc|Hc]; [left; exact Hc|right]. cbn [no_setpoints forallb] in Hc.
      apply andb_prop in Hc as [_ Hc]. exact Hc.
    - apply step_inv_fresh; [|exact H]. destruct Hc as [Hc|Hc]; [left; exact Hc|right].
      cbn [no_setpoints forallb] in Hc. apply andb_prop in Hc as [Hc _].
      destruct (is_setpoints o); [discriminate | reflexivity].
  Qed.

  Lemma exec_tree_set k ops : forall g, s_tree g <> TUnset -> s_tree (exec k g ops) <> TUnset.
  Proof. induction ops as [|o ops IH]; intros g H; cbn [C10_model.exec]; [exact H|]. apply IH, step_tree_set, H. Qed.

  Lemma exec_tree_unset ops : forall g, s_tree g = TUnset -> s_tree (exec CAtom g ops) = TUnset.
  Proof. induction ops as [|o ops IH]; intros g H; cbn [C10_model.exec]; [exact H|]. apply IH, step_tree_unset, H. Qed.

  Lemma init_inv_len k flat dim pub w c0 x : length pub = length w -> inv_len (init k flat dim pub w c0 x).
  Proof.
    intros H. split; cbn [C10_model.init s_pts s_wts s_tree].
    - destruct k; try exact H. rewrite map_length. exact H.
    - intros snap Hs. destruct k; try discriminate. destruct (atom_tree_init cfg); discriminate.
  Qed.

  Lemma init_inv_fresh k flat dim pub w c0 x : inv_fresh k (init k flat dim pub w c0 x).
  Proof.
    intros snap Hs. cbn [C10_model.init s_tree] in Hs. destruct k; try discriminate.
    destruct (atom_tree_init cfg); discriminate.
  Qed.

  Lemma init_tree_set k flat dim pub w c0 x :
    (k = CAtom -> atom_tree_init cfg = true) -> s_tree (init k flat dim pub w c0 x) <> TUnset.
  Proof.
    intros H. cbn [C10_model.init s_tree]. destruct k; try discriminate. rewrite (H eq_refl). discriminate.
  Qed.

  (* -------- a finite-radius query on a state with a fresh (or no) tree *)
  Lemma query_fin_state k g c kk :
    inv_fresh k g -> s_tree g <> TUnset -> centre_ok g c = true ->
    (empty_ok cfg = true \/ spec_local (read_pts k g) (s_wts g) (cvec c) kk <> []) ->
    exists out, fst (query k g c (RFin kk)) = OLocal c out /\
                Permutation out (spec_local (read_pts k g) (s_wts g) (cvec c) kk).
  Proof.
    intros Hf Ht Hc He. unfold C10_model.query. rewrite Hc. cbn [negb].
    assert (Hfin : exists out, finish bq cfg k g c kk (read_pts k g) = OLocal c out /\
                     Permutation out (spec_local (read_pts k g) (s_wts g) (cvec c) kk)).
    { unfold finish. pose proof (bq_perm bq Hbq (read_pts k g) (cvec c) kk) as Hp.
      destruct (is_nil (bq (read_pts k g) (cvec c) kk) && negb (empty_ok cfg)) eqn:E.
      - exfalso. apply andb_prop in E as [E1 E2].
        destruct (bq (read_pts k g) (cvec c) kk); [|discriminate].
        apply Permutation_nil in Hp. destruct He as [He|He].
        + rewrite He in E2. discriminate.
        + apply He. unfold spec_local. rewrite Hp. reflexivity.
      - eexists; split; [reflexivity|]. unfold spec_local. apply Permutation_map, Hp. }
    destruct (s_tree g) as [| |snap] eqn:Et; [congruence | exact Hfin |].
    rewrite (Hf snap Et). exact Hfin.
  Qed.

  (* -------- every reachable state, under the conditions that the flags / the history provide *)
  Lemma query_refines_spec_partial_lemma k flat dim pub w c0 x ops c kk :
    (k = CAtom -> atom_tree_init cfg = true /\ local_public cfg = true) ->
    (tree_reset cfg = true \/ no_setpoints ops = true) ->
    let g := exec k (init k flat dim pub w c0 x) ops in
    centre_ok g c = true ->
    (empty_ok cfg = true \/ spec_local (public k g) (s_wts g) (cvec c) kk <> []) ->
    exists out, fst (query k g c (RFin kk)) = OLocal c out /\
                Permutation out (spec_local (public k g) (s_wts g) (cvec c) kk).
  Proof.
    intros Ha Hh g Hc He.
    assert (Hr : read_pts k g = public k g).
    { apply read_pts_public. destruct k; try (left; discriminate). right. apply Ha. reflexivity. }
    rewrite <- Hr in *. apply query_fin_state; try assumption.
    - apply exec_inv_fresh; [exact Hh | apply init_inv_fresh].
    - apply exec_tree_set, init_tree_set. intros E. apply Ha, E.
  Qed.

  Lemma inf_is_whole_lemma k g c :
    centre_ok g c = true ->
    query k g c RInf = (OLocal c (map (triple (read_pts k g) (s_wts g)) (seq 0 (length (s_wts g)))), g).
  Proof. intros Hc. unfold C10_model.query. rewrite Hc. reflexivity. Qed.

  Lemma indices_map_back_lemma k flat dim pub w c0 x ops c r c' out :
    length pub = length w ->
    let g := exec k (init k flat dim pub w c0 x) ops in
    fst (query k g c r) = OLocal c' out ->
    c' = c /\ NoDup (map (fun t => fst (fst t)) out) /\
    Forall (fun t => let '(i, p, w) := t in
              (i < length (s_wts g))%nat /\ p = nth i (read_pts k g) [] /\ w = nth i (s_wts g) 0) out.
  Proof.
    intros Hl g Hq.
    assert (Hinv : inv_len g) by (apply exec_inv_len, init_inv_len, Hl).
    destruct Hinv as [H1 H2].
    assert (Hmap : forall idx, map (fun t => fst (fst t)) (map (triple (read_pts k g) (s_wts g)) idx) = idx).
    { intros idx. rewrite map_map. cbn [triple fst]. apply map_id. }
    assert (Hall : forall idx, (forall i, In i idx -> (i < length (s_wts g))%nat) ->
              Forall (fun t => let '(i, p, w) := t in
                (i < length (s_wts g))%nat /\ p = nth i (read_pts k g) [] /\ w = nth i (s_wts g) 0)
                (map (triple (read_pts k g) (s_wts g)) idx)).
    { intros idx Hi. apply Forall_forall. intros t Ht. apply in_map_iff in Ht as [i [<- Hin]].
      cbn [triple]. split; [apply Hi, Hin | split; reflexivity]. }
    assert (Hfin : forall snap, length snap = length (s_pts g) ->
              finish bq cfg k g c (match r with RFin kk => kk | _ => 0 end) snap = OLocal c' out ->
              c' = c /\ NoDup (map (fun t => fst (fst t)) out) /\
              Forall (fun t => let '(i, p, w) := t in
                (i < length (s_wts g))%nat /\ p = nth i (read_pts k g) [] /\ w = nth i (s_wts g) 0) out).
    { intros snap Hsn Hfi. unfold finish in Hfi. destruct (_ && _); [discriminate|].
      injection Hfi as <- <-. split; [reflexivity|]. rewrite Hmap.
      destruct (Hbq snap (cvec c) (match r with RFin kk => kk | _ => 0 end)) as [Hnd Hin].
      split; [exact Hnd|]. apply Hall. intros i Hi. apply Hin in Hi. lia. }
    unfold C10_model.query in Hq. destruct (negb (centre_ok g c)); [discriminate|].
    destruct r as [kk| | |]; try discriminate.
    - destruct (s_tree g) as [| |snap] eqn:Et; [discriminate | |].
      + apply (Hfin (read_pts k g)); [apply read_pts_length | exact Hq].
      + apply (Hfin snap); [apply H2; reflexivity | exact Hq].
    - cbn [fst] in Hq. injection Hq as <- <-. split; [reflexivity|]. rewrite Hmap.
      split; [apply seq_NoDup|]. apply Hall. intros i Hi. apply in_seq in Hi. lia.
  Qed.

  (* -------- the pinned AtomGrid: no history makes a finite-radius query work *)
  Lemma atomgrid_finite_refuted_lemma flat dim pub w c0 x ops c kk :
    atom_tree_init cfg = false ->
    let g := exec CAtom (init CAtom flat dim pub w c0 x) ops in
    centre_ok g c = true ->
    fst (query CAtom g c (RFin kk)) = OErr EAttr.
  Proof.
    intros Ha g Hc.
    assert (Ht : s_tree g = TUnset).
    { apply exec_tree_unset. cbn [C10_model.init s_tree]. rewrite Ha. reflexivity. }
    unfold C10_model.query. rewrite Hc, Ht. reflexivity.
  Qed.
End Machine.

(* ------------------------------------------------------------------ corollary for the corrected code *)
Definition good (cfg : config) : Prop :=
  empty_ok cfg = true /\ tree_reset cfg = true /\ atom_tree_init cfg = true /\ local_public cfg = true.

Lemma query_refines_spec_lemma bq cfg : oracle_ok bq -> good cfg ->
  forall k flat dim pub w c0 x ops c kk,
  let g := exec bq cfg k (init cfg k flat dim pub w c0 x) ops in
  centre_ok g c = true ->
  exists out, fst (query bq cfg k g c (RFin kk)) = OLocal c out /\
              Permutation out (spec_local (public k g) (s_wts g) (cvec c) kk).
Proof.
  intros Hbq (H1 & H2 & H3 & H4) k flat dim pub w c0 x ops c kk g Hc.
  apply query_refines_spec_partial_lemma; auto.
Qed.

Lemma radius_bridge_pts_lemma (p c : point) (k : Z) (r : R) :
  (0 <= r)%R -> (IZR k <= r * r < IZR (k + 1))%R ->
  ((sqrt (IZR (dist2 p c)) <= r)%R <-> dist2 p c <= k).
Proof. apply radius_bridge_lemma, dist2_nonneg. Qed.

Lemma inf_is_whole_pub_lemma bq cfg k g c :
  centre_ok g c = true -> (k <> CAtom \/ local_public cfg = true) ->
  query bq cfg k g c RInf = (OLocal c (map (triple (public k g) (s_wts g)) (seq 0 (length (s_wts g)))), g).
Proof. intros Hc Hk. rewrite <- (read_pts_public cfg k g Hk). apply inf_is_whole_lemma, Hc. Qed.

Lemma indices_map_back_pub_lemma bq cfg : oracle_ok bq ->
  forall k flat dim pub w c0 x ops c r c' out,
  length pub = length w -> (k <> CAtom \/ local_public cfg = true) ->
  let g := exec bq cfg k (init cfg k flat dim pub w c0 x) ops in
  fst (query bq cfg k g c r) = OLocal c' out ->
  c' = c /\ NoDup (map (fun t => fst (fst t)) out) /\
  Forall (fun t => let '(i, p, w) := t in
            (i < length (s_wts g))%nat /\ p = nth i (public k g) [] /\ w = nth i (s_wts g) 0) out.
Proof.
  intros Hbq k flat dim pub w c0 x ops c r c' out Hl Hk g Hq.
  unfold g in *. rewrite <- (read_pts_public cfg k _ Hk).
  eapply indices_map_back_lemma; eassumption.
Qed.


(* ------------------------------------------------------------------ witnesses on the pinned behaviours *)
Ltac flags cfg := destruct cfg as [f1 f2 f3 f4 f5 f6 f7 f8]; cbn in *; subst.

(* empty sphere: Grid([[0,0,0],[1,0,0]]).get_localgrid([10,10,10], r) with r*r < 1 *)
Definition w_empty_pts : list point := [[0;0;0];[1;0;0]].
Lemma empty_sphere_refuted_lemma bq cfg : oracle_ok bq -> empty_ok cfg = false ->
  let g := init cfg CGrid false 3 w_empty_pts [1;2] [] XNone in
  let c := CVec [10;10;10] in
  centre_ok g c = true /\
  spec_local (public CGrid g) (s_wts g) (cvec c) 0 = [] /\
  fst (query bq cfg CGrid g c (RFin 0)) = OErr EIndex.
Proof.
  intros Hbq He. flags cfg. split; [reflexivity|]. split; [reflexivity|].
  unfold query, centre_ok, finish, read_pts. cbn -[dist2].
  assert (Hidx : bq w_empty_pts [10;10;10] 0 = []).
  { destruct (Hbq w_empty_pts [10;10;10] 0) as [_ Hin].
    destruct (bq w_empty_pts [10;10;10] 0) as [|i r]; [reflexivity|exfalso].
    destruct (proj1 (Hin i) (or_introl eq_refl)) as [Hi Hd].
    destruct i as [|[|i]]; cbn in Hi, Hd; lia. }
  destruct f4; cbn -[dist2]; fold w_empty_pts; rewrite Hidx; reflexivity.
Qed.

(* stale tree: g = Grid([[0],[5]]); g.get_localgrid([0], r<1); g.points = [[5],[0]]; g.get_localgrid([0], r<1) *)
Definition w_stale_ops : list op := [Query (CVec [0]) (RFin 0); SetPoints false [[5];[0]]].
Lemma stale_tree_refuted_lemma bq cfg : oracle_ok bq -> tree_reset cfg = false ->
  let g := exec bq cfg CGrid (init cfg CGrid false 1 [[0];[5]] [1;2] [] XNone) w_stale_ops in
  let c := CVec [0] in
  centre_ok g c = true /\ public CGrid g = [[5];[0]] /\
  exists out, fst (query bq cfg CGrid g c (RFin 0)) = OLocal c out /\
              ~ Permutation out (spec_local (public CGrid g) (s_wts g) (cvec c) 0).
Proof.
  intros Hbq He. flags cfg.
  assert (H0 : In 0%nat (bq [[0];[5]] [0] 0)).
  { apply (Hbq [[0];[5]] [0] 0). cbn. lia. }
  assert (Hgoal : forall out, out = map (triple [[5];[0]] [1;2]) (bq [[0];[5]] [0] 0) ->
            ~ Permutation out (spec_local [[5];[0]] [1;2] [0] 0)).
  { intros out -> Hp.
    assert (Hin : In (triple [[5];[0]] [1;2] 0%nat) (map (triple [[5];[0]] [1;2]) (bq [[0];[5]] [0] 0)))
      by (apply in_map, H0).
    apply (Permutation_in _ Hp) in Hin. cbn in Hin. destruct Hin as [Hin|[]]. discriminate. }
  split; [reflexivity|]. split; [destruct f4; reflexivity|].
  assert (Hn : is_nil (bq [[0];[5]] [0] 0) = false).
  { destruct (bq [[0];[5]] [0] 0); [destruct H0 | reflexivity]. }
  destruct f4; cbn -[spec_local]; unfold finish, read_pts; cbn -[spec_local];
    rewrite Hn; cbn [andb]; (eexists; split; [reflexivity|]); apply Hgoal; reflexivity.
Qed.

(* AtomGrid centred at (5,0,0) with public points (6,0,0),(4,0,0): the infinite-radius local grid holds (1,0,0),(-1,0,0) *)
Lemma atomgrid_inf_refuted_lemma bq cfg : local_public cfg = false ->
  let g := init cfg CAtom false 3 [[6;0;0];[4;0;0]] [1;2] [5;0;0] XNone in
  let c := CVec [5;0;0] in
  centre_ok g c = true /\ public CAtom g = [[6;0;0];[4;0;0]] /\
  exists out, fst (query bq cfg CAtom g c RInf) = OLocal c out /\
              out = [(0%nat, [1;0;0], 1); (1%nat, [-1;0;0], 2)] /\
              ~ Permutation out (map (triple (public CAtom g) (s_wts g)) (seq 0 (length (s_wts g)))).
Proof.
  intros He. flags cfg. split; [reflexivity|]. split; [reflexivity|].
  eexists; split; [reflexivity|]. split; [reflexivity|].
  cbn. intros Hp.
  assert (Hin : In (0%nat, [1;0;0], 1) [(0%nat, [6;0;0], 1); (1%nat, [4;0;0], 2)]).
  { apply (Permutation_in _ Hp). left; reflexivity. }
  destruct Hin as [Hin|[Hin|[]]]; discriminate.
Qed.

(* ------------------------------------------------------------------ examples: the hypotheses are satisfiable *)
Example ex_oracle : oracle_ok ball_ref := ball_ref_ok_lemma.

(* a non-trivial history on the corrected configuration: query, reassign points and weights, query again *)
Example ex_history :
  run ball_ref fixed CGrid (init fixed CGrid false 2 [[0;0];[3;0];[0;4]] [7;8;9] [] XNone)
      [Query (CVec [0;0]) (RFin 9); SetPoints false [[9;9];[1;1];[0;1]]; SetWeights [1;2;3];
       Query (CVec [0;0]) (RFin 2); Query (CVec [50;50]) (RFin 2); GetItem (ISlice (Some (-2)) None None)]
  = [OLocal (CVec [0;0]) [(0%nat,[0;0],7); (1%nat,[3;0],8)]; ODone; ODone;
     OLocal (CVec [0;0]) [(1%nat,[1;1],2); (2%nat,[0;1],3)]; OLocal (CVec [50;50]) [];
     OSel CGrid [[1;1];[0;1]] [2;3] XNone].
Proof. vm_compute. reflexivity. Qed.

(* the same history on the pinned configuration shows the stale answer and the crash *)
Example ex_history_pinned :
  run ball_ref pinned CGrid (init pinned CGrid false 2 [[0;0];[3;0];[0;4]] [7;8;9] [] XNone)
      [Query (CVec [0;0]) (RFin 9); SetPoints false [[9;9];[1;1];[0;1]]; SetWeights [1;2;3];
       Query (CVec [0;0]) (RFin 2); Query (CVec [50;50]) (RFin 2)]
  = [OLocal (CVec [0;0]) [(0%nat,[0;0],7); (1%nat,[3;0],8)]; ODone; ODone;
     OLocal (CVec [0;0]) [(0%nat,[9;9],1)]; OErr EIndex].
Proof. vm_compute. reflexivity. Qed.

Example ex_radius : ((sqrt (IZR 2) <= 3 / 2)%R <-> 2 <= 2).
Proof. apply radius_bridge_lemma; [lia | lra | change (IZR (2 + 1)) with (IZR 3); split; lra]. Qed.

Example ex_slice : slice_indices 7 (Some 1) (Some (-1)) 2 = [1%nat; 3%nat; 5%nat]
                   /\ slice_indices 7 None None (-3) = [6%nat; 3%nat; 0%nat].
Proof. split; reflexivity. Qed.

Example ex_getitem :
  getitem fixed COneD (init fixed COneD true 1 [[0];[1];[2];[3]] [5;6;7;8] [] (XDomain 0 3)) (IMask [true;false;false;true])
  = OSel COneD [[0];[3]] [5;8] (XDomain 0 3).
Proof. reflexivity. Qed.

(* instances: the hypotheses of the main theorems hold on concrete, non-trivial data *)
Example ex_good : good fixed.
Proof. repeat split. Qed.

Example ex_refines_instance :=
  query_refines_spec_lemma ball_ref fixed ball_ref_ok_lemma ex_good CMol false 3 [[1;0;0];[0;2;0]] [3;4] [] XNone
    [SetWeights [5;6]; SetPoints false [[0;2;0];[1;0;0]]; Query (CVec [0;0;0]) (RFin 4)] (CVec [0;0;0]) 1 eq_refl.

Example ex_partial_pinned :
  exists out, fst (query ball_ref pinned CGrid
                     (exec ball_ref pinned CGrid (init pinned CGrid false 1 [[0];[5]] [1;2] [] XNone)
                           [SetWeights [3;4]; Query (CVec [5]) (RFin 0)]) (CVec [0]) (RFin 0)) = OLocal (CVec [0]) out /\
              Permutation out [(0%nat, [0], 3)].
Proof.
  apply (query_refines_spec_partial_lemma ball_ref ball_ref_ok_lemma pinned CGrid false 1 [[0];[5]] [1;2] [] XNone
           [SetWeights [3;4]; Query (CVec [5]) (RFin 0)] (CVec [0]) 0).
  - discriminate.
  - right. reflexivity.
  - reflexivity.
  - right. discriminate.
Qed.

Example ex_empty_refuted := empty_sphere_refuted_lemma ball_ref pinned ball_ref_ok_lemma eq_refl.
Example ex_stale_refuted := stale_tree_refuted_lemma ball_ref pinned ball_ref_ok_lemma eq_refl.
Example ex_atom_finite_refuted :=
  atomgrid_finite_refuted_lemma ball_ref pinned false 3 [[6;0;0];[4;0;0]] [1;2] [5;0;0] XNone
    [SetWeights [3;4]; Query (CVec [5;0;0]) RInf] (CVec [5;0;0]) 1 eq_refl eq_refl.
Example ex_atom_inf_refuted := atomgrid_inf_refuted_lemma ball_ref pinned eq_refl.
Example ex_npint_refuted :=
  getitem_npint_refuted_lemma pinned COneD (init pinned COneD true 1 [[0];[5]] [1;2] [] (XDomain 0 5)) (-1) 1%nat
    (or_intror (or_introl eq_refl)) eq_refl eq_refl.

Example ex_periodic_empty_fixed :
  getitem fixed CPeriodic (init fixed CPeriodic false 2 [[0;0];[1;0]] [1;2] [] (XLattice [])) (ISlice (Some 0) (Some 0) None)
  = OSel CPeriodic [] [] (XLattice []).
Proof. reflexivity. Qed.
Example ex_periodic_empty_refuted :=
  periodic_empty_refuted_lemma pinned (init pinned CPeriodic false 2 [[0;0];[1;0]] [1;2] [] (XLattice []))
    (IMask [false; false]) eq_refl (or_introl eq_refl).

(* a history that descends into a selection: the selected grid answers from its own points, whatever the parent's tree *)
Example ex_enter :
  run ball_ref fixed CGrid (init fixed CGrid false 1 [[0];[5];[7]] [1;2;3] [] XNone)
      [Query (CVec [0]) (RFin 0); Enter (ISlice (Some 1) None None); Query (CVec [5]) (RFin 0); Query (CVec [0]) (RFin 30)]
  = [OLocal (CVec [0]) [(0%nat,[0],1)]; OSel CGrid [[5];[7]] [2;3] XNone;
     OLocal (CVec [5]) [(0%nat,[5],2)]; OLocal (CVec [0]) [(0%nat,[5],2)]].
Proof. vm_compute. reflexivity. Qed.
