(* C10 — executable model of Grid.get_localgrid / __getitem__ and of the attribute setters, as a state
   machine per grid class.  No proofs in this file.

   Coordinates are integers (Z), so squared distances are exact.  A radius r >= 0 is represented by
   k = floor(r^2): for integer coordinates  |p - c| <= r  <->  dist2 p c <= k  (C10_proofs.radius_bridge).
   Weights are opaque labels (Z): the harness encodes a float weight by its IEEE-754 bit pattern.

   The k-d tree is an ORACLE: the Section variable [ball_query snap c k] stands for
   cKDTree(snap).query_ball_point(c, r, p=2.0); the model remembers the snapshot of the points the tree was
   built from, which is what makes staleness expressible.

   [config] describes the code sites where the pinned source deviates from the property; every flag
   [true] is the corrected behaviour.  The harness determines the flags from the implementation on every run
   (directed witnesses) and the random-history correspondence validates the resulting model. *)
From Coq Require Import ZArith List Bool.
Import ListNotations.
Open Scope Z_scope.

Definition point := list Z.

Inductive cls := CGrid | COneD | CAtom | CMol | CRect | CPeriodic.
Inductive err := EIndex | EAttr | EValue | EType.
(* RFin k : finite radius r >= 0 with floor(r^2) = k;  RNeg : r < 0;  RNan : nan *)
Inductive radius := RFin (k : Z) | RInf | RNeg | RNan.
(* a 0-d centre (for grids whose points array is 1-D) or a vector centre *)
Inductive centre := CScalar (x : Z) | CVec (v : point).
Inductive index :=
  | IInt (i : Z)                      (* Python int *)
  | INpInt (i : Z)                    (* numpy integer scalar *)
  | ISlice (a b s : option Z)         (* slice(a, b, s) *)
  | IArr (l : list Z)                 (* integer index array *)
  | IMask (m : list bool).            (* boolean mask *)
(* TUnset: the attribute _kdtree does not exist;  TNone: it is None;  TBuilt snap: tree over [snap] *)
Inductive tree := TUnset | TNone | TBuilt (snap : list point).
(* what a selection must carry over: OneDGrid.domain, PeriodicGrid.realvecs *)
Inductive extra := XNone | XDomain (lo hi : Z) | XLattice (l : list point).

Record config := mkcfg {
  empty_ok : bool;        (* get_localgrid: an empty ball gives an empty LocalGrid (pinned: IndexError) *)
  tree_reset : bool;      (* points.setter drops the cached tree (pinned: keeps it) *)
  atom_tree_init : bool;  (* AtomGrid.__init__ initialises _kdtree (pinned: attribute missing) *)
  local_public : bool;    (* get_localgrid reads self.points (pinned: self._points, uncentred for AtomGrid) *)
  npint_grid : bool;      (* Grid.__getitem__ treats numpy integers like int (pinned: no) *)
  npint_oned : bool;      (* OneDGrid.__getitem__ idem *)
  npint_periodic : bool;  (* PeriodicGrid.__getitem__ idem *)
  periodic_empty_ok : bool (* PeriodicGrid.__init__ without lattice vectors accepts zero points (pinned: ValueError
                              from .min() of an empty array); with lattice vectors it always raises *)
}.

Record state := mkst {
  s_pts : list point;     (* self._points; a 1-D points array is a list of singletons, s_flat = true *)
  s_wts : list Z;         (* self._weights *)
  s_flat : bool;          (* points.ndim == 1 *)
  s_dim : nat;            (* points.shape[1] (1 when flat) *)
  s_centre : point;       (* AtomGrid._center (unused for the other classes) *)
  s_extra : extra;
  s_tree : tree
}.

Inductive obs :=
  | OErr (e : err)
  | ODone
  | OLocal (c : centre) (l : list (nat * point * Z))   (* centre, [(index, point, weight)] in tree order *)
  | OSel (k : cls) (p : list point) (w : list Z) (x : extra).

Inductive op :=
  | SetPoints (flat : bool) (v : list point)
  | SetWeights (v : list Z)
  | Query (c : centre) (r : radius)
  | GetItem (ix : index)
  | Enter (ix : index).      (* g = g[ix]: the history continues on the selected grid (when the selection succeeds) *)

(* ------------------------------------------------------------------ geometry *)
Fixpoint dist2 (p c : point) : Z :=
  match p, c with
  | x :: p', y :: c' => (x - y) * (x - y) + dist2 p' c'
  | _, _ => 0
  end.

Fixpoint vadd (p c : point) : point :=
  match p, c with x :: p', y :: c' => (x + y) :: vadd p' c' | _, _ => [] end.
Fixpoint vsub (p c : point) : point :=
  match p, c with x :: p', y :: c' => (x - y) :: vsub p' c' | _, _ => [] end.

Definition cvec (c : centre) : point := match c with CScalar x => [x] | CVec v => v end.

(* the public [points] property *)
Definition public (k : cls) (g : state) : list point :=
  match k with
  | CAtom => map (fun p => vadd p (s_centre g)) (s_pts g)      (* self._points + self._center *)
  | _ => s_pts g
  end.

Definition triple (pts : list point) (wts : list Z) (i : nat) : nat * point * Z :=
  (i, nth i pts [], nth i wts 0).

Definition is_nil {A} (l : list A) : bool := match l with [] => true | _ => false end.

(* ------------------------------------------------------------------ Python / numpy index semantics *)
Definition resolve (n : nat) (i : Z) : option nat :=
  let zn := Z.of_nat n in
  if (0 <=? i) && (i <? zn) then Some (Z.to_nat i)
  else if (- zn <=? i) && (i <? 0) then Some (Z.to_nat (i + zn))
  else None.

Fixpoint resolve_all (n : nat) (l : list Z) : option (list nat) :=
  match l with
  | [] => Some []
  | i :: r => match resolve n i, resolve_all n r with
              | Some j, Some js => Some (j :: js)
              | _, _ => None
              end
  end.

Fixpoint mask_from (i : nat) (m : list bool) : list nat :=
  match m with
  | [] => []
  | b :: r => if b then i :: mask_from (S i) r else mask_from (S i) r
  end.
Definition mask_indices (m : list bool) : list nat := mask_from O m.

(* CPython PySlice_AdjustIndices for one bound *)
Definition adjust (n step : Z) (v : option Z) (is_start : bool) : Z :=
  match v with
  | None => if 0 <? step then (if is_start then 0 else n) else (if is_start then n - 1 else -1)
  | Some x => let x' := if x <? 0 then x + n else x in
              if x' <? 0 then (if step <? 0 then -1 else 0)
              else if n <=? x' then (if step <? 0 then n - 1 else n)
              else x'
  end.

Definition slice_len (start stop step : Z) : Z :=
  if 0 <? step then (if start <? stop then (stop - start - 1) / step + 1 else 0)
  else (if stop <? start then (start - stop - 1) / (- step) + 1 else 0).

(* the index list of slice(a, b, step) on a length-n sequence, for step <> 0 *)
Definition slice_indices (n : nat) (a b : option Z) (step : Z) : list nat :=
  let zn := Z.of_nat n in
  let start := adjust zn step a true in
  let stop := adjust zn step b false in
  map (fun j => Z.to_nat (start + Z.of_nat j * step)) (seq 0 (Z.to_nat (slice_len start stop step))).

(* which rows a[index] selects and in which shape it hands them on *)
Inductive sel :=
  | SRow (i : nat)          (* isinstance(index, int) branch: np.array([a[i]]) — one row *)
  | SBare (i : nat)         (* the other branch with an integer scalar: np.array(a[i]) — a bare row / 0-d weight *)
  | SRows (l : list nat)
  | SErr (e : err).

Definition select (npfix : bool) (n : nat) (ix : index) : sel :=
  match ix with
  | IInt i => match resolve n i with Some j => SRow j | None => SErr EIndex end
  | INpInt i => match resolve n i with
                | Some j => if npfix then SRow j else SBare j
                | None => SErr EIndex
                end
  | ISlice a b s => let st := match s with Some x => x | None => 1 end in
                    if st =? 0 then SErr EValue else SRows (slice_indices n a b st)
  | IArr l => match resolve_all n l with Some js => SRows js | None => SErr EIndex end
  | IMask m => if (length m =? n)%nat || is_nil m then SRows (mask_indices m) else SErr EIndex   (* numpy accepts an empty mask *)
  end.

Definition in_domain (lo hi : Z) (p : point) : bool := (lo <=? hd 0 p) && (hd 0 p <=? hi).

(* self.__class__(points, weights[, domain | realvecs]) on the selected rows *)
Definition build (pe : bool) (k : cls) (g : state) (l : list nat) : obs :=
  let ps := map (fun i => nth i (public k g) []) l in
  let ws := map (fun i => nth i (s_wts g) 0) l in
  match k with
  | CGrid => OSel CGrid ps ws XNone
  | COneD =>
      match s_extra g with
      | XDomain lo hi =>
          if is_nil l then OErr EValue                       (* np.min of an empty array *)
          else if forallb (in_domain lo hi) ps then OSel COneD ps ws (XDomain lo hi)
          else OErr EValue                                   (* constructor's domain check *)
      | _ => OSel COneD ps ws XNone
      end
  | CPeriodic =>
      let L := match s_extra g with XLattice L => L | _ => [] end in
      (* frac_points.min of an empty array; without lattice vectors (realvecs.size == 0) only on the pinned source *)
      if is_nil l && negb (pe && is_nil L) then OErr EValue
      else OSel CPeriodic ps ws (XLattice L)
  | _ => OErr EType                                          (* constructor signature does not fit *)
  end.

Definition npint_flag (cfg : config) (k : cls) : bool :=
  match k with
  | CGrid => npint_grid cfg
  | COneD => npint_oned cfg
  | CPeriodic => npint_periodic cfg
  | _ => false
  end.

Definition getitem (cfg : config) (k : cls) (g : state) (ix : index) : obs :=
  match select (npint_flag cfg k) (length (s_wts g)) ix with
  | SErr e => OErr e
  | SRow i => build (periodic_empty_ok cfg) k g [i]
  | SRows l => build (periodic_empty_ok cfg) k g l
  | SBare _ =>
      match k with
      | CGrid => OErr EType        (* Grid.__init__: len() of the 0-d weights *)
      | COneD => OErr EValue       (* OneDGrid.__init__: points.ndim != 1 *)
      | CPeriodic => OErr EValue   (* PeriodicGrid.__init__: points.ndim != realvecs.ndim *)
      | _ => OErr EType
      end
  end.

(* ------------------------------------------------------------------ the machine *)
Section Machine.
  Variable ball_query : list point -> point -> Z -> list nat.
  Variable cfg : config.

  Definition read_pts (k : cls) (g : state) : list point :=
    if local_public cfg then public k g else s_pts g.

  Definition centre_ok (g : state) (c : centre) : bool :=
    match c with
    | CScalar _ => s_flat g
    | CVec v => negb (s_flat g) && (length v =? s_dim g)%nat
    end.

  Definition set_tree (g : state) (t : tree) : state :=
    mkst (s_pts g) (s_wts g) (s_flat g) (s_dim g) (s_centre g) (s_extra g) t.

  (* indices = np.array(tree.query_ball_point(..)); LocalGrid(points[indices], weights[indices], center, indices) *)
  Definition finish (k : cls) (g : state) (c : centre) (kk : Z) (snap : list point) : obs :=
    let idx := ball_query snap (cvec c) kk in
    if is_nil idx && negb (empty_ok cfg) then OErr EIndex      (* np.array([]) is a float array *)
    else OLocal c (map (triple (read_pts k g) (s_wts g)) idx).

  Definition query (k : cls) (g : state) (c : centre) (r : radius) : obs * state :=
    if negb (centre_ok g c) then (OErr EValue, g) else
    match r with
    | RNeg | RNan => (OErr EValue, g)
    | RInf => (OLocal c (map (triple (read_pts k g) (s_wts g)) (seq 0 (length (s_wts g)))), g)
    | RFin kk =>
        match s_tree g with
        | TUnset => (OErr EAttr, g)
        | TNone => let snap := read_pts k g in (finish k g c kk snap, set_tree g (TBuilt snap))
        | TBuilt snap => (finish k g c kk snap, g)
        end
    end.

  Definition shape_ok (g : state) (flat : bool) (v : list point) : bool :=
    Bool.eqb flat (s_flat g) && (length v =? length (s_pts g))%nat
    && forallb (fun p => (length p =? s_dim g)%nat) v.

  Definition step (k : cls) (g : state) (o : op) : obs * state :=
    match o with
    | SetPoints fl v =>
        match k with
        | CAtom => (OErr EAttr, g)                             (* property without a setter *)
        | _ => if shape_ok g fl v
               then (ODone, mkst v (s_wts g) (s_flat g) (s_dim g) (s_centre g) (s_extra g)
                                 (if tree_reset cfg then match s_tree g with TUnset => TUnset | _ => TNone end
                                  else s_tree g))
               else (OErr EValue, g)
        end
    | SetWeights v =>
        if (length v =? length (s_wts g))%nat
        then (ODone, mkst (s_pts g) v (s_flat g) (s_dim g) (s_centre g) (s_extra g) (s_tree g))
        else (OErr EValue, g)
    | Query c r => query k g c r
    | GetItem ix => (getitem cfg k g ix, g)
    | Enter ix =>
        match getitem cfg k g ix with
        (* a freshly constructed grid of the same class: its own points and weights, no tree yet *)
        | OSel k' p w x => (OSel k' p w x, mkst p w (s_flat g) (s_dim g) (s_centre g) x TNone)
        | ob => (ob, g)
        end
    end.

  Fixpoint run (k : cls) (g : state) (ops : list op) : list obs :=
    match ops with
    | [] => []
    | o :: r => let (ob, g') := step k g o in ob :: run k g' r
    end.

  Fixpoint exec (k : cls) (g : state) (ops : list op) : state :=
    match ops with
    | [] => g
    | o :: r => exec k (snd (step k g o)) r
    end.

  (* a freshly constructed grid, described by its PUBLIC points; AtomGrid keeps them uncentred *)
  Definition init (k : cls) (flat : bool) (dim : nat) (pub : list point) (w : list Z) (c0 : point) (x : extra) : state :=
    mkst (match k with CAtom => map (fun p => vsub p c0) pub | _ => pub end) w flat dim c0 x
         (match k with CAtom => if atom_tree_init cfg then TNone else TUnset | _ => TNone end).
End Machine.

(* reference instance of the oracle, used to EXECUTE the model (ascending index order) *)
Definition within (pts : list point) (c : point) (k : Z) (i : nat) : bool := dist2 (nth i pts []) c <=? k.
Definition ball_ref (snap : list point) (c : point) (k : Z) : list nat :=
  filter (within snap c k) (seq 0 (length snap)).

(* the specification: [(i, p_i, w_i) | dist2 p_i c <= k], ascending *)
Definition spec_local (pts : list point) (wts : list Z) (c : point) (k : Z) : list (nat * point * Z) :=
  map (triple pts wts) (filter (within pts c k) (seq 0 (length pts))).

(* which rows an index selects (Python / numpy semantics), independent of the code path taken *)
Definition sel_spec (n : nat) (ix : index) : option (list nat) :=
  match ix with
  | IInt i | INpInt i => option_map (fun j => [j]) (resolve n i)
  | ISlice a b s => let st := match s with Some x => x | None => 1 end in
                    if st =? 0 then None else Some (slice_indices n a b st)
  | IArr l => resolve_all n l
  | IMask m => if (length m =? n)%nat || is_nil m then Some (mask_indices m) else None
  end.

(* ------------------------------------------------------------------ boolean equalities for the harness *)
Fixpoint list_eqb {A} (e : A -> A -> bool) (a b : list A) : bool :=
  match a, b with
  | [], [] => true
  | x :: r, y :: s => e x y && list_eqb e r s
  | _, _ => false
  end.
Definition point_eqb := list_eqb Z.eqb.
Definition cls_eqb (a b : cls) : bool :=
  match a, b with
  | CGrid, CGrid | COneD, COneD | CAtom, CAtom | CMol, CMol | CRect, CRect | CPeriodic, CPeriodic => true
  | _, _ => false
  end.
Definition err_eqb (a b : err) : bool :=
  match a, b with EIndex, EIndex | EAttr, EAttr | EValue, EValue | EType, EType => true | _, _ => false end.
Definition centre_eqb (a b : centre) : bool :=
  match a, b with
  | CScalar x, CScalar y => x =? y
  | CVec u, CVec v => point_eqb u v
  | _, _ => false
  end.
Definition extra_eqb (a b : extra) : bool :=
  match a, b with
  | XNone, XNone => true
  | XDomain a1 a2, XDomain b1 b2 => (a1 =? b1) && (a2 =? b2)
  | XLattice u, XLattice v => list_eqb point_eqb u v
  | _, _ => false
  end.
Definition triple_eqb (a b : nat * point * Z) : bool :=
  let '(i, p, w) := a in let '(j, q, v) := b in (i =? j)%nat && point_eqb p q && (w =? v).
Definition obs_eqb (a b : obs) : bool :=
  match a, b with
  | OErr e, OErr f => err_eqb e f
  | ODone, ODone => true
  | OLocal c l, OLocal d m => centre_eqb c d && list_eqb triple_eqb l m
  | OSel k p w x, OSel k' p' w' x' => cls_eqb k k' && list_eqb point_eqb p p' && list_eqb Z.eqb w w' && extra_eqb x x'
  | _, _ => false
  end.

(* one correspondence case: the model's observations along a history equal the implementation's *)
Definition check (cfg : config) (k : cls) (flat : bool) (dim : nat) (pub : list point) (w : list Z)
                 (c0 : point) (x : extra) (ops : list op) (expected : list obs) : bool :=
  list_eqb obs_eqb (run ball_ref cfg k (init cfg k flat dim pub w c0 x) ops) expected.

Definition pinned : config := mkcfg false false false false false false false false.
Definition fixed : config := mkcfg true true true true true true true true.
