(* Repo-independent library: Python dict-as-association-list, bisect_left, and the
   "smallest supported value not below the request" resolution rule, with its specification. *)
From Coq Require Import ZArith List Bool Lia Sorted.
Import ListNotations.
Open Scope Z_scope.

Definition table := list (Z * Z).          (* (key, value) in dict insertion order *)
Definition keys (t : table) : list Z := map fst t.

Fixpoint lookup (k : Z) (t : table) : option Z :=
  match t with
  | [] => None
  | (k', v) :: r => if k =? k' then Some v else lookup k r
  end.

(* bisect.bisect_left on an ascending list: first index whose element is >= x *)
Fixpoint bisect_left (l : list Z) (x : Z) : nat :=
  match l with
  | [] => O
  | y :: r => if y <? x then S (bisect_left r x) else O
  end.

Fixpoint list_max (l : list Z) (d : Z) : Z :=
  match l with [] => d | y :: r => Z.max y (list_max r d) end.

(* Python's max(list) on a non-empty list *)
Definition py_max (l : list Z) : Z := match l with [] => 0 | y :: r => list_max r y end.

(* AngularGrid._get_degree_and_size, one branch (degree or size):
     if x < 0 or x > max(keys): raise
     k = x if x in dict else keys[bisect_left(keys, x)]
     return k, dict[k]                                          *)
Definition resolve (t : table) (x : Z) : option (Z * Z) :=
  if (x <? 0) || (py_max (keys t) <? x) then None
  else match lookup x t with
       | Some v => Some (x, v)
       | None => let k := nth (bisect_left (keys t) x) (keys t) 0 in
                 match lookup k t with Some v => Some (k, v) | None => None end
       end.

Fixpoint strictly_sortedb (l : list Z) : bool :=
  match l with
  | [] => true
  | x :: r => match r with [] => true | y :: _ => (x <? y) && strictly_sortedb r end
  end.

Lemma strictly_sortedb_cons x l : strictly_sortedb (x :: l) = true ->
  strictly_sortedb l = true /\ forall y, In y l -> x < y.
Proof.
  revert x; induction l as [|y l IH]; intros x H.
  - split; [reflexivity | intros ? []].
  - cbn [strictly_sortedb] in H. apply andb_prop in H as [Hxy Hs]. apply Z.ltb_lt in Hxy.
    split; [exact Hs|]. intros z [<-|Hz]; [exact Hxy|].
    destruct (IH y Hs) as [_ Hall]. specialize (Hall z Hz). lia.
Qed.

Lemma lookup_in k v t : lookup k t = Some v -> In (k, v) t.
Proof.
  induction t as [|[k' v'] t IH]; cbn [lookup]; [discriminate|].
  destruct (Z.eqb_spec k k') as [->|Hne]; intros H.
  - injection H as ->. left; reflexivity.
  - right; auto.
Qed.

Lemma lookup_none k t : lookup k t = None -> ~ In k (keys t).
Proof.
  induction t as [|[k' v'] t IH]; cbn [lookup keys map fst]; [intros _ []|].
  destruct (Z.eqb_spec k k') as [->|Hne]; [discriminate|].
  intros H [Heq|Hin]; [congruence|]. exact (IH H Hin).
Qed.

Lemma in_keys_lookup k t : In k (keys t) -> exists v, lookup k t = Some v.
Proof.
  induction t as [|[k' v'] t IH]; cbn [lookup keys map fst]; [intros []|].
  destruct (Z.eqb_spec k k') as [->|Hne]; intros H; [eauto|].
  destruct H as [H|H]; [congruence|]. auto.
Qed.

Lemma list_max_ge l d : d <= list_max l d /\ forall y, In y l -> y <= list_max l d.
Proof.
  induction l as [|z l [IH1 IH2]]; cbn [list_max]; [split; [lia|intros ? []]|].
  split; [lia|]. intros y [<-|Hy]; [lia|]. specialize (IH2 y Hy). lia.
Qed.

Lemma py_max_ge l y : In y l -> y <= py_max l.
Proof.
  destruct l as [|z l]; [intros []|]. cbn [py_max].
  destruct (list_max_ge l z) as [H1 H2]. intros [<-|Hy]; [exact H1|exact (H2 y Hy)].
Qed.

Lemma list_max_in l d : list_max l d = d \/ In (list_max l d) l.
Proof.
  induction l as [|z l IH]; cbn [list_max]; [now left|].
  destruct (Z.max_spec z (list_max l d)) as [[_ ->]|[_ ->]].
  - destruct IH as [->|IH]; [now left|right; now right].
  - right; now left.
Qed.

Lemma py_max_in l : l <> [] -> In (py_max l) l.
Proof.
  destruct l as [|z l]; [congruence|]. intros _. cbn [py_max].
  destruct (list_max_in l z) as [->|H]; [now left|now right].
Qed.

(* bisect_left specification on a strictly ascending list whose maximum is >= x *)
Lemma bisect_left_spec l x :
  strictly_sortedb l = true -> (exists y, In y l /\ x <= y) ->
  let i := bisect_left l x in
  (i < length l)%nat /\ x <= nth i l 0 /\ In (nth i l 0) l /\
  (forall y, In y l -> x <= y -> nth i l 0 <= y).
Proof.
  induction l as [|z l IH]; intros Hs [y [Hy Hxy]]; [destruct Hy|].
  apply strictly_sortedb_cons in Hs as [Hs Hall].
  cbn [bisect_left]. destruct (Z.ltb_spec z x) as [Hlt|Hge].
  - assert (Hex : exists y, In y l /\ x <= y).
    { destruct Hy as [<-|Hy]; [lia|eauto]. }
    specialize (IH Hs Hex). cbn zeta in IH. destruct IH as (I1 & I2 & I3 & I4).
    cbn [nth length]. repeat split; [lia|exact I2|now right|].
    intros w [<-|Hw] Hxw; [lia|auto].
  - cbn [nth length]. repeat split; [lia|exact Hge|now left|].
    intros w [<-|Hw] Hxw; [lia|]. specialize (Hall w Hw). lia.
Qed.

(* The specification of [resolve] on a table with strictly ascending keys. *)
Theorem resolve_spec (t : table) (x : Z) :
  strictly_sortedb (keys t) = true -> t <> [] ->
  match resolve t x with
  | Some (k, v) => 0 <= x /\ In (k, v) t /\ x <= k /\ forall k' v', In (k', v') t -> x <= k' -> k <= k'
  | None => x < 0 \/ forall k' v', In (k', v') t -> k' < x
  end.
Proof.
  intros Hs Hne. unfold resolve.
  destruct (Z.ltb_spec x 0) as [Hneg|Hpos]; cbn [orb]; [now left|].
  destruct (Z.ltb_spec (py_max (keys t)) x) as [Hbig|Hle].
  - right. intros k' v' Hin. assert (In k' (keys t)) by (apply in_map_iff; exists (k', v'); auto).
    pose proof (py_max_ge _ _ H). lia.
  - destruct (lookup x t) as [v|] eqn:Hl.
    + repeat split; [exact Hpos|now apply lookup_in|lia|intros; assumption].
    + assert (Hex : exists y, In y (keys t) /\ x <= y).
      { exists (py_max (keys t)). split; [|exact Hle]. apply py_max_in.
        destruct t; [congruence|discriminate]. }
      pose proof (bisect_left_spec _ _ Hs Hex) as B. cbn zeta in B.
      destruct B as (B1 & B2 & B3 & B4).
      destruct (in_keys_lookup _ _ B3) as [v Hv]. rewrite Hv.
      repeat split; [exact Hpos|now apply lookup_in|exact B2|].
      intros k' v' Hin Hx. apply B4; [|exact Hx]. apply in_map_iff. exists (k', v'); auto.
Qed.

(* Non-vacuity *)
Example resolve_example : resolve [(3,6);(5,18);(7,26)] 4 = Some (5, 18) /\
                          resolve [(3,6);(5,18);(7,26)] 8 = None /\
                          resolve [(3,6);(5,18);(7,26)] 0 = Some (3, 6).
Proof. vm_compute. repeat split. Qed.

Definition swap_table (t : table) : table := map (fun p => (snd p, fst p)) t.

Definition pair_eqb (a b : Z * Z) : bool := (fst a =? fst b) && (snd a =? snd b).
Definition mem_pair (a : Z * Z) (t : table) : bool := existsb (pair_eqb a) t.

Lemma mem_pair_in a t : mem_pair a t = true <-> In a t.
Proof.
  unfold mem_pair. rewrite existsb_exists. split.
  - intros [b [Hb He]]. unfold pair_eqb in He. apply andb_prop in He as [H1 H2].
    apply Z.eqb_eq in H1, H2. destruct a, b; cbn in *; subst; exact Hb.
  - intros H. exists a. split; [exact H|]. unfold pair_eqb. now rewrite !Z.eqb_refl.
Qed.

Definition subset_pairs (a b : table) : bool := forallb (fun p => mem_pair p b) a.
Definition same_pairs (a b : table) : bool := subset_pairs a b && subset_pairs b a.

Lemma same_pairs_spec a b : same_pairs a b = true -> forall p, In p a <-> In p b.
Proof.
  unfold same_pairs, subset_pairs. intros H. apply andb_prop in H as [H1 H2].
  rewrite forallb_forall in H1, H2. intros p; split; intros Hp.
  - apply mem_pair_in. auto.
  - apply mem_pair_in. auto.
Qed.

Fixpoint zrange (lo : Z) (n : nat) : list Z :=
  match n with O => [] | S m => lo :: zrange (lo + 1) m end.

Lemma zrange_in lo n x : In x (zrange lo n) <-> lo <= x < lo + Z.of_nat n.
Proof.
  revert lo; induction n as [|n IH]; intros lo; cbn [zrange In].
  - lia.
  - rewrite IH. lia.
Qed.
