(* Repo-independent helpers for derivative identities over R with real exponents (Rpower). *)
From Coq Require Import Reals Lra.
From Coquelicot Require Import Coquelicot.
Open Scope R_scope.

Lemma Rpower_sub_nat x k (j : nat) : 0 < x -> Rpower x (k - INR j) = Rpower x k / x ^ j.
Proof.
  intros Hx. unfold Rminus, Rdiv. rewrite Rpower_plus, Rpower_Ropp, Rpower_pow by exact Hx. reflexivity.
Qed.
Lemma Rpower_sub1 x k : 0 < x -> Rpower x (k - 1) = Rpower x k / x.
Proof. intros Hx. replace 1 with (INR 1) by reflexivity. rewrite Rpower_sub_nat by exact Hx. simpl. field. lra. Qed.
Lemma Rpower_sub2 x k : 0 < x -> Rpower x (k - 2) = Rpower x k / x^2.
Proof. intros Hx. replace 2 with (INR 2) by (simpl; lra). rewrite Rpower_sub_nat by exact Hx. reflexivity. Qed.
Lemma Rpower_sub3 x k : 0 < x -> Rpower x (k - 3) = Rpower x k / x^3.
Proof. intros Hx. replace 3 with (INR 3) by (simpl; lra). rewrite Rpower_sub_nat by exact Hx. reflexivity. Qed.
Lemma Rpower_add_nat x k (j : nat) : 0 < x -> Rpower x (k + INR j) = Rpower x k * x ^ j.
Proof. intros Hx. rewrite Rpower_plus, Rpower_pow by exact Hx. reflexivity. Qed.
Lemma Rpower_add1 x k : 0 < x -> Rpower x (k + 1) = Rpower x k * x.
Proof. intros Hx. replace 1 with (INR 1) by reflexivity. rewrite Rpower_add_nat by exact Hx. simpl. ring. Qed.
Lemma Rpower_add2 x k : 0 < x -> Rpower x (k + 2) = Rpower x k * x^2.
Proof. intros Hx. replace 2 with (INR 2) by (simpl; lra). rewrite Rpower_add_nat by exact Hx. reflexivity. Qed.
Lemma Rpower_add3 x k : 0 < x -> Rpower x (k + 3) = Rpower x k * x^3.
Proof. intros Hx. replace 3 with (INR 3) by (simpl; lra). rewrite Rpower_add_nat by exact Hx. reflexivity. Qed.
Lemma Rpower_neg x k : Rpower x (- k) = / Rpower x k.
Proof. apply Rpower_Ropp. Qed.
Lemma Rpower_2k x k : Rpower x (2 * k) = (Rpower x k) ^ 2.
Proof. unfold Rpower. replace (2 * k * ln x) with (k * ln x + k * ln x) by ring. rewrite exp_plus. ring. Qed.
Lemma Rpower_4_k k : Rpower 4 k = (Rpower 2 k) ^ 2.
Proof.
  unfold Rpower. replace 4 with (2 * 2) by ring. rewrite ln_mult by lra.
  replace (k * (ln 2 + ln 2)) with (k * ln 2 + k * ln 2) by ring. rewrite exp_plus. ring.
Qed.
Lemma Rpower_pos x k : 0 < Rpower x k.
Proof. apply exp_pos. Qed.
Lemma Rpower_inv_k x k : 0 < x -> k <> 0 -> Rpower (Rpower x k) (1 / k) = x.
Proof. intros Hx Hk. rewrite Rpower_mult. replace (k * (1 / k)) with 1 by (field; exact Hk). now apply Rpower_1. Qed.
Lemma Rpower_inv_k' x k : 0 < x -> k <> 0 -> Rpower (Rpower x (1 / k)) k = x.
Proof. intros Hx Hk. rewrite Rpower_mult. replace (1 / k * k) with 1 by (field; exact Hk). now apply Rpower_1. Qed.
Lemma Rpower_lt_1 x k : 0 < x < 1 -> 0 < k -> Rpower x k < 1.
Proof.
  intros Hx Hk. rewrite <- (Rpower_O x) by lra. unfold Rpower. apply exp_increasing.
  assert (ln x < 0) by (rewrite <- ln_1; apply ln_increasing; lra). nra.
Qed.
Lemma Rpower_div x y k : 0 < x -> 0 < y -> Rpower (x / y) k = Rpower x k / Rpower y k.
Proof.
  intros Hx Hy. unfold Rpower. rewrite ln_div by assumption.
  replace (k * (ln x - ln y)) with (k * ln x + - (k * ln y)) by ring. rewrite exp_plus, exp_Ropp. reflexivity.
Qed.

(* Three successive derivatives of the inverse map from those of the forward map: the formulas of
   BaseTransform.deriv_inverse / deriv2_inverse / deriv3_inverse (inverse function theorem in the form
   "g differentiable and f o g = id locally"). *)
Section InverseDerivs.
  Variables (f f1 f2 f3 g : R -> R) (I J : R -> Prop).
  Hypothesis J_open : forall r, J r -> locally r J.
  Hypothesis fwd : forall x, I x -> is_derive f x (f1 x) /\ is_derive f1 x (f2 x) /\ is_derive f2 x (f3 x)
                                    /\ f1 x <> 0.
  Hypothesis gJ : forall r, J r -> I (g r) /\ f (g r) = r.
  Hypothesis g_diff : forall r, J r -> ex_derive g r.

  Lemma inv_d1 r : J r -> is_derive g r (1 / f1 (g r)).
  Proof.
    intros Hr. destruct (gJ r Hr) as [Hi Hfg]. destruct (fwd _ Hi) as (D1 & _ & _ & Hne).
    destruct (g_diff r Hr) as [g' Hg'].
    assert (Hc : is_derive (fun t => f (g t)) r (g' * f1 (g r))).
    { apply (is_derive_comp f g r (f1 (g r)) g'); assumption. }
    assert (Hid : is_derive (fun t => f (g t)) r 1).
    { apply (is_derive_ext_loc (fun t => t)); [|apply (is_derive_id r)].
      generalize (J_open r Hr). apply filter_imp. intros t Ht. symmetry. apply (gJ t Ht). }
    assert (E : g' * f1 (g r) = 1).
    { rewrite <- (is_derive_unique _ _ _ Hc). apply is_derive_unique. exact Hid. }
    replace (1 / f1 (g r)) with g'; [exact Hg'|]. apply Rmult_eq_reg_r with (f1 (g r)); [|exact Hne].
    rewrite E. field. exact Hne.
  Qed.

  Lemma inv_d2 r : J r -> is_derive (fun t => 1 / f1 (g t)) r (- f2 (g r) / f1 (g r) ^ 3).
  Proof.
    intros Hr. destruct (gJ r Hr) as [Hi Hfg]. destruct (fwd _ Hi) as (D1 & D2 & _ & Hne).
    pose proof (inv_d1 r Hr) as G1.
    assert (Hc : is_derive (fun t => f1 (g t)) r (1 / f1 (g r) * f2 (g r))).
    { apply (is_derive_comp f1 g r (f2 (g r)) (1 / f1 (g r))); assumption. }
    evar_last.
    - apply (is_derive_div (fun _ => 1) (fun t => f1 (g t)) r 0 (1 / f1 (g r) * f2 (g r))).
      + apply (is_derive_const 1 r).
      + exact Hc.
      + exact Hne.
    - unfold minus, plus, opp, scal, mult. simpl. unfold mult. simpl. field. exact Hne.
  Qed.

  Lemma inv_d3 r : J r ->
    is_derive (fun t => - f2 (g t) / f1 (g t) ^ 3) r ((3 * f2 (g r) ^ 2 - f1 (g r) * f3 (g r)) / f1 (g r) ^ 5).
  Proof.
    intros Hr. destruct (gJ r Hr) as [Hi Hfg]. destruct (fwd _ Hi) as (D1 & D2 & D3 & Hne).
    pose proof (inv_d1 r Hr) as G1.
    assert (H1 : is_derive (fun t => f1 (g t)) r (1 / f1 (g r) * f2 (g r))).
    { apply (is_derive_comp f1 g r (f2 (g r)) (1 / f1 (g r))); assumption. }
    assert (H2 : is_derive (fun t => f2 (g t)) r (1 / f1 (g r) * f3 (g r))).
    { apply (is_derive_comp f2 g r (f3 (g r)) (1 / f1 (g r))); assumption. }
    assert (H3 : is_derive (fun t => f1 (g t) ^ 3) r (INR 3 * (1 / f1 (g r) * f2 (g r)) * f1 (g r) ^ 2)).
    { apply (is_derive_pow (fun t => f1 (g t)) 3 r). exact H1. }
    evar_last.
    - apply (is_derive_div (fun t => - f2 (g t)) (fun t => f1 (g t) ^ 3) r).
      + apply (is_derive_opp (fun t => f2 (g t)) r). exact H2.
      + exact H3.
      + apply pow_nonzero. exact Hne.
    - unfold minus, plus, opp, scal, mult. simpl. unfold mult. simpl. field. exact Hne.
  Qed.
End InverseDerivs.

(* side-condition solver and derivative-identity solver *)
Ltac nz := first [ lra | exact I | apply Rgt_not_eq, exp_pos | apply pow_nonzero; nz
  | apply Rmult_integral_contrapositive_currified; nz | apply Rinv_neq_0_compat; nz
  | apply Rgt_not_eq; nra | apply Rlt_not_eq; nra | (let E := fresh in intro E; nra) | idtac ].
Ltac dsolve := auto_derive; [repeat split; nz | try (field; repeat split; nz)].

(* the same facts in exp/ln form (what auto_derive leaves after unfolding Rpower) *)
Lemma exp_km1 k y : 0 < y -> exp ((k - 1) * ln y) = exp (k * ln y) / y.
Proof. intros H. exact (Rpower_sub1 y k H). Qed.
Lemma exp_km2 k y : 0 < y -> exp ((k - 2) * ln y) = exp (k * ln y) / y ^ 2.
Proof. intros H. exact (Rpower_sub2 y k H). Qed.
Lemma exp_km3 k y : 0 < y -> exp ((k - 3) * ln y) = exp (k * ln y) / y ^ 3.
Proof. intros H. exact (Rpower_sub3 y k H). Qed.
Lemma exp_kp1 k y : 0 < y -> exp ((k + 1) * ln y) = exp (k * ln y) * y.
Proof. intros H. exact (Rpower_add1 y k H). Qed.
Lemma exp_kp2 k y : 0 < y -> exp ((k + 2) * ln y) = exp (k * ln y) * y ^ 2.
Proof. intros H. exact (Rpower_add2 y k H). Qed.
Lemma exp_kp3 k y : 0 < y -> exp ((k + 3) * ln y) = exp (k * ln y) * y ^ 3.
Proof. intros H. exact (Rpower_add3 y k H). Qed.
Lemma exp_2k k y : exp (2 * k * ln y) = exp (k * ln y) ^ 2.
Proof. exact (Rpower_2k y k). Qed.
