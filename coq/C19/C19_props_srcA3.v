(* C19 property theorems about the CURRENT source: cfg_src, the aliasing configuration extracted by tools/props/c19.py from AngularGrid.__init__ and load_atomic_gaussian_params (statements only). *)
From Coq Require Import List Arith Bool ZArith Permutation.
From P Require Import C19_model C19_proofs C19_gen C19_proofs_srcA3.
Import ListNotations.

(* ---- the lazily loaded Coulomb parameter table returns the JSON values on every call, whatever happened before *)
Theorem coulomb_params_pure : forall (h : list op) (z : nat) (k : kind),
  observe cfg_src (run cfg_src h) Coulomb z k = shipped Coulomb z k.
Proof. exact coulomb_params_pure_lemma. Qed.
Print Assumptions coulomb_params_pure.

