(* C19 property theorems: the characterisation is exact (statements only; proofs in C19_proofs_iff.v). *)
From Coq Require Import List Arith Bool ZArith.
From P Require Import C19_model C19_proofs C19_proofs_iff.
Import ListNotations.

(* ---- whatever the aliasing configuration: if some route hands the cache's own array to the caller, four calls
   (construct twice, overwrite both returned arrays in place) make the next construction return something else
   than the shipped data *)
Theorem non_isolating_refuted : forall (cf : cfg) (m : method) (k : kind), iso cf m k = false ->
  exists (h : list op) (d : nat), length h = 4 /\ observe cf (run cf h) m d k <> shipped m d k.
Proof. exact non_isolating_refuted_lemma. Qed.
Print Assumptions non_isolating_refuted.

(* ---- hence, for every configuration delivering the right values: the property holds for all histories
   exactly when the arrays are copied at the cache boundary (the criterion the harness evaluates on cfg_src) *)
Theorem refinement_iff_isolating : forall (cf : cfg) (m : method) (k : kind), values_ok cf m k = true ->
  ((forall (h : list op) (d : nat), observe cf (run cf h) m d k = shipped m d k) <-> iso cf m k = true).
Proof. exact refinement_iff_isolating_lemma. Qed.
Print Assumptions refinement_iff_isolating.
