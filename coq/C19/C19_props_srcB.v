(* C19 property theorems about the CURRENT source: tcfg_src, the b state machine extracted from rtransform.py (statements only). *)
From Coq Require Import List Arith Bool ZArith Permutation.
From P Require Import C19_model C19_proofs C19_gen C19_proofs_srcB.
Import ListNotations.

Theorem src_b_fixed_is_order_independent :
  forall (Res : Type) (F : tkind -> tcall -> option Z -> list Z -> Res) (t : tkind) (b : Z)
         (cs1 cs2 : list (tcall * list Z)) (c : tcall * list Z),
    snd (tstep Res F tcfg_src t (tfinal Res F tcfg_src t (Some b) cs1) c) = tpure Res F tcfg_src t b c /\
    snd (tstep Res F tcfg_src t (tfinal Res F tcfg_src t (Some b) cs2) c) = tpure Res F tcfg_src t b c /\
    tresults Res F tcfg_src t (Some b) cs1 = map (tpure Res F tcfg_src t b) cs1 /\
    (Permutation cs1 cs2 -> Permutation (tresults Res F tcfg_src t (Some b) cs1) (tresults Res F tcfg_src t (Some b) cs2)).
Proof. exact src_b_order_independent_lemma. Qed.
Print Assumptions src_b_fixed_is_order_independent.

Theorem src_first_call_fixes_b :
  forall (Res : Type) (F : tkind -> tcall -> option Z -> list Z -> Res) (t : tkind)
         (c0 : tcall * list Z) (cs : list (tcall * list Z)),
    t_sets tcfg_src t (fst c0) = true -> amax (snd c0) <> 0%Z ->
    tfinal Res F tcfg_src t None (c0 :: cs) = Some (amax (snd c0)) /\
    tresults Res F tcfg_src t None (c0 :: cs) = map (tpure Res F tcfg_src t (amax (snd c0))) (c0 :: cs).
Proof. exact src_first_call_fixes_b_lemma. Qed.
Print Assumptions src_first_call_fixes_b.
