(* C19 — the converse: a configuration that hands a cache array to the caller on some route is refuted by a
   four-call history, for every method, degree and array.  Hence refinement <-> isolation. *)
From Coq Require Import List Arith Bool ZArith Lia.
From P Require Import C19_model C19_proofs.
Import ListNotations.

Lemma method_eqb_refl m : method_eqb m m = true.
Proof. destruct m; reflexivity. Qed.

Fixpoint base (v : bval) : bval := match v with Scale4pi w => base w | _ => v end.

Lemma base_iter n v : base (Nat.iter n Scale4pi v) = base v.
Proof. induction n; simpl; auto. Qed.

Lemma filled_ne_shipped n t m d k : [Nat.iter n Scale4pi (Filled t)] <> shipped m d k.
Proof.
  unfold shipped, shipped_b. intros E. inversion E as [E1]. apply (f_equal base) in E1.
  rewrite !base_iter in E1. simpl in E1. discriminate.
Qed.

Definition witness4 (m : method) (d : nat) (k : kind) (t : nat) : list op :=
  [Construct m d true; Construct m d true; mutk k 0 t; mutk k 1 t].

Definition cfg_of (sp sw : xmode) (mp mw : imode) (hp hw : xmode) : cfg :=
  {| c_store := fun _ k => sel k sp sw; c_missc := fun _ k => sel k mp mw; c_missn := fun _ _ => XRef;
     c_hit := fun _ k => sel k hp hw; c_libcache := true |}.

(* with cache=True only the store / miss / hit rows of the method in question matter *)
Lemma construct_ang_ext cf cf' m d : (forall k, c_store cf m k = c_store cf' m k) ->
  (forall k, c_missc cf m k = c_missc cf' m k) -> (forall k, c_hit cf m k = c_hit cf' m k) ->
  forall s, construct_ang cf m d true s = construct_ang cf' m d true s.
Proof.
  intros A B C s. unfold construct_ang, build1. rewrite (A KP), (A KW), (B KP), (B KW), (C KP), (C KW). reflexivity.
Qed.

Lemma witness4_ext cf cf' m d k t : (forall k, c_store cf m k = c_store cf' m k) ->
  (forall k, c_missc cf m k = c_missc cf' m k) -> (forall k, c_hit cf m k = c_hit cf' m k) ->
  observe cf (run cf (witness4 m d k t)) m d k = observe cf' (run cf' (witness4 m d k t)) m d k.
Proof.
  intros A B C. unfold observe, run, witness4. cbn [fold_left step].
  rewrite !(construct_ang_ext cf cf' m d A B C). destruct k; reflexivity.
Qed.

Ltac close_ne :=
  let E := fresh in let E1 := fresh in
  intro E; inversion E as [E1]; apply (f_equal base) in E1; cbn [base] in E1; rewrite ?base_iter in E1;
  cbn [base] in E1; discriminate E1.

Lemma cfg_of_refuted sp sw mp mw hp hw m k : iso (cfg_of sp sw mp mw hp hw) m k = false ->
  forall t, observe (cfg_of sp sw mp mw hp hw) (run (cfg_of sp sw mp mw hp hw) (witness4 m 0 k t)) m 0 k <> shipped m 0 k.
Proof.
  intros I t. unfold iso in I. cbn [cfg_of c_hit c_missc c_store] in I.
  destruct sp as [|n1], sw as [|n2], mp as [|[|n3]], mw as [|[|n4]], hp as [|n5], hw as [|n6];
  destruct k; cbn in I; try discriminate I; clear I;
  destruct m; cbv -[Nat.iter]; close_ne.
Qed.

Lemma non_isolating_refuted_lemma cf m k : iso cf m k = false ->
  exists h d, length h = 4 /\ observe cf (run cf h) m d k <> shipped m d k.
Proof.
  intros I. exists (witness4 m 0 k 0), 0. split; [reflexivity|].
  set (cf' := cfg_of (c_store cf m KP) (c_store cf m KW) (c_missc cf m KP) (c_missc cf m KW) (c_hit cf m KP) (c_hit cf m KW)).
  rewrite (witness4_ext cf cf' m 0 k 0); try (intros []; reflexivity).
  apply cfg_of_refuted. unfold iso in *. destruct k; exact I.
Qed.

Lemma refinement_iff_isolating_lemma cf m k : values_ok cf m k = true ->
  ((forall h d, observe cf (run cf h) m d k = shipped m d k) <-> iso cf m k = true).
Proof.
  intros V. split.
  - intros H. destruct (iso cf m k) eqn:I; auto.
    destruct (non_isolating_refuted_lemma cf m k I) as (h & d & _ & N). exfalso. apply N, H.
  - intros I. now apply observation_refines_spec_lemma.
Qed.
