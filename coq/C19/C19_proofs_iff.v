(* C19 — the converse: a configuration that hands a cache array to the caller on some route is refuted by a
   four-call history, for every method, degree and array.  Hence refinement <-> isolation. *)
From Coq Require Import List Arith Bool ZArith Lia.
From P Require Import C19_model C19_proofs.
Import ListNotations.

Lemma method_eqb_refl m : method_eqb m m = true.
Proof. destruct m; reflexivity. Qed.

Fixpoint base (v : bval) : bval := match v with Scale4pi w => base w | _ => v end.

Lemma base_iter n v : base (Nat.iter n Scale4pi v) = base v.
Proof. induction n; simpl; auto. Qed.

Lemma filled_ne_shipped n t m d k : [Nat.iter n Scale4pi (Filled t)] <> shipped m d k.
Proof.
  unfold shipped, shipped_b. intros E. inversion E as [E1]. apply (f_equal base) in E1.
  rewrite !base_iter in E1. simpl in E1. discriminate.
Qed.

Definition witness4 (m : method) (d : nat) (k : kind) (t : nat) : list op :=
  [Construct m d true; Construct m d true; mutk k 0 t; mutk k 1 t].

Lemma non_isolating_refuted_lemma cf m k : iso cf m k = false ->
  forall d t, observe cf (run cf (witness4 m d k t)) m d k <> shipped m d k.
Proof.
  intros I d t. unfold iso in I.
  destruct (c_store cf m KP) as [|n1] eqn:E1; destruct (c_store cf m KW) as [|n2] eqn:E2;
  destruct (c_missc cf m KP) as [|[|n3]] eqn:E3; destruct (c_missc cf m KW) as [|[|n4]] eqn:E4;
  destruct (c_hit cf m KP) as [|n5] eqn:E5; destruct (c_hit cf m KW) as [|n6] eqn:E6;
  destruct k; simpl in I; try discriminate I; clear I;
  unfold observe, run, witness4;
  repeat (first [ progress cbn -[shipped Nat.iter]
                | progress unfold construct_ang, build1, mut
                | progress rewrite ?E1, ?E2, ?E3, ?E4, ?E5, ?E6, ?method_eqb_refl, ?Nat.eqb_refl ]);
  try apply (filled_ne_shipped 0); try apply filled_ne_shipped.
  all: idtac "left".
Qed.
