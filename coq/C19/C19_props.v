(* C19 property theorems (statements only; proofs are in C19_proofs.v / C19_proofs_src.v).
   cfg       : which of {array loaded from the data file, array kept in the cache, array handed to the returned
               object} are the same array object, per method and per array (points / weights).
   cfg_src   : the configuration extracted from the current source on every run (C19_gen.v; see C19_props_srcA.v).
   cfg_pinned: the configuration of the pinned commit, written by hand.   cfg_fixed: copy at the cache boundary.
   run cf h  : the state after the history h of API calls;  observe = build the grid once more and read it;
   shipped   : the specification, a pure function of (method, degree, points/weights). *)
From Coq Require Import List Arith Bool ZArith Permutation.
From P Require Import C19_model C19_proofs.
Import ListNotations.

(* ---- for every aliasing configuration: "no location stored in a cache is reachable from a returned object"
   in every reachable state implies that every observation after every history returns the shipped data *)
Theorem separation_implies_refinement : forall (cf : cfg) (m : method) (k : kind),
  values_ok cf m k = true -> (forall h, separated (run cf h) m k) ->
  forall (h : list op) (d : nat), observe cf (run cf h) m d k = shipped m d k.
Proof. exact separation_implies_refinement_lemma. Qed.
Print Assumptions separation_implies_refinement.

(* ---- copying at the cache boundary establishes that invariant for every history *)
Theorem isolating_keeps_separation : forall (cf : cfg) (m : method) (k : kind),
  iso cf m k = true -> forall h : list op, separated (run cf h) m k.
Proof. exact isolating_keeps_separation_lemma. Qed.
Print Assumptions isolating_keeps_separation.

Theorem observation_refines_spec : forall (cf : cfg) (m : method) (k : kind),
  values_ok cf m k = true -> iso cf m k = true ->
  forall (h : list op) (d : nat), observe cf (run cf h) m d k = shipped m d k.
Proof. exact observation_refines_spec_lemma. Qed.
Print Assumptions observation_refines_spec.

Theorem atom_observation_refines_spec : forall (cf : cfg) (m : method) (k : kind),
  values_ok cf m k = true -> (forall h, separated (run cf h) m k) ->
  forall (h : list op) (ds : list nat), observe_atom cf (run cf h) m ds k = atom_shipped m ds k.
Proof. exact atom_refines_spec_lemma. Qed.
Print Assumptions atom_observation_refines_spec.

(* ---- the pinned commit: the full-strength statement is refuted; two calls suffice and fewer never do *)
Theorem cache_alias_refuted :
  exists (h : list op) (m : method) (d : nat) (k : kind),
    length h = 2 /\ observe cfg_pinned (run cfg_pinned h) m d k <> shipped m d k.
Proof. exact cache_alias_refuted_lemma. Qed.
Print Assumptions cache_alias_refuted.

Theorem pinned_alias_refuted : forall (m : method) (k : kind), iso cfg_pinned m k = false ->
  forall d tag : nat,
    observe cfg_pinned (run cfg_pinned [Construct m d true; mutk k 0 tag]) m d k = [Filled tag]
    /\ [Filled tag] <> shipped m d k.
Proof. exact pinned_alias_refuted_lemma. Qed.
Print Assumptions pinned_alias_refuted.

Theorem atom_alias_refuted :
  exists (h : list op) (m : method) (ds : list nat) (k : kind),
    length h = 2 /\ observe_atom cfg_pinned (run cfg_pinned h) m ds k <> atom_shipped m ds k.
Proof. exact atom_alias_refuted_lemma. Qed.
Print Assumptions atom_alias_refuted.

Theorem no_shorter_counterexample : forall (cf : cfg) (m : method) (k : kind), values_ok cf m k = true ->
  forall h : list op, length h <= 1 -> forall d : nat, observe cf (run cf h) m d k = shipped m d k.
Proof. exact no_shorter_counterexample_lemma. Qed.
Print Assumptions no_shorter_counterexample.

(* ---- the arrays the pinned commit does protect (Lebedev / spherical weights, the Coulomb table) *)
Theorem pinned_safe_arrays_refine_spec : forall (m : method) (k : kind), iso cfg_pinned m k = true ->
  forall (h : list op) (d : nat), observe cfg_pinned (run cfg_pinned h) m d k = shipped m d k.
Proof. exact pinned_safe_arrays_lemma. Qed.
Print Assumptions pinned_safe_arrays_refine_spec.

(* ---- after the repair (copy at the cache boundary) the full-strength statement holds *)
Theorem fixed_refines_spec : forall (h : list op) (m : method) (d : nat) (k : kind),
  observe cfg_fixed (run cfg_fixed h) m d k = shipped m d k.
Proof. exact fixed_refines_spec_lemma. Qed.
Print Assumptions fixed_refines_spec.

Theorem fixed_atom_refines_spec : forall (h : list op) (m : method) (ds : list nat) (k : kind),
  observe_atom cfg_fixed (run cfg_fixed h) m ds k = atom_shipped m ds k.
Proof. exact fixed_atom_refines_spec_lemma. Qed.
Print Assumptions fixed_atom_refines_spec.

(* ---- the inferred scale b.  F is the numerical content of a call, a function of (call, b, argument) *)
Theorem b_fixed_is_order_independent :
  forall (Res : Type) (F : tkind -> tcall -> option Z -> list Z -> Res) (tc : tcfg) (t : tkind),
  t_guard tc t = true ->
  forall (b : Z) (cs1 cs2 : list (tcall * list Z)) (c : tcall * list Z),
    snd (tstep Res F tc t (tfinal Res F tc t (Some b) cs1) c) = tpure Res F tc t b c /\
    snd (tstep Res F tc t (tfinal Res F tc t (Some b) cs2) c) = tpure Res F tc t b c /\
    tresults Res F tc t (Some b) cs1 = map (tpure Res F tc t b) cs1 /\
    (Permutation cs1 cs2 -> Permutation (tresults Res F tc t (Some b) cs1) (tresults Res F tc t (Some b) cs2)).
Proof. exact b_fixed_is_order_independent_lemma. Qed.
Print Assumptions b_fixed_is_order_independent.

Theorem first_call_fixes_b :
  forall (Res : Type) (F : tkind -> tcall -> option Z -> list Z -> Res) (tc : tcfg) (t : tkind),
  t_guard tc t = true ->
  forall (c0 : tcall * list Z) (cs : list (tcall * list Z)),
    t_sets tc t (fst c0) = true -> amax (snd c0) <> 0%Z ->
    tfinal Res F tc t None (c0 :: cs) = Some (amax (snd c0)) /\
    tresults Res F tc t None (c0 :: cs) = map (tpure Res F tc t (amax (snd c0))) (c0 :: cs).
Proof. exact first_call_fixes_b_lemma. Qed.
Print Assumptions first_call_fixes_b.

(* ---- "infers its scale from the first grid it sees": if every call whose result depends on the scale also stores
   it, then in every history without a raised error -- b given or inferred, calls in any order -- every result is a
   function of the call alone (one scale ob for the whole life of the object), so the same call returns the same value
   wherever it occurs *)
Theorem results_function_of_call :
  forall (Res : Type) (F : tkind -> tcall -> option Z -> list Z -> Res) (tc : tcfg) (t : tkind),
  t_guard tc t = true -> (forall cl, t_uses tc t cl = true -> t_sets tc t cl = true) ->
  forall (b0 : option Z) (cs : list (tcall * list Z)),
    (forall r, In r (tresults Res F tc t b0 cs) -> r <> TErr) ->
    exists ob : option Z, tresults Res F tc t b0 cs = map (tcanon Res F tc t ob) cs /\ (forall b, b0 = Some b -> ob = Some b).
Proof. exact results_function_of_call_lemma. Qed.
Print Assumptions results_function_of_call.

(* ---- a call that uses an inferred scale without storing it is refuted: the same call returns two different values *)
Theorem scale_used_not_kept_refuted : forall (tc : tcfg) (t : tkind) (cl : tcall),
  t_guard tc t = true -> t_uses tc t cl = true -> t_sets tc t cl = false -> t_sets tc t CTransform = true ->
  exists c1 c2 : tcall * list Z,
    let rs := tresults (option Z) (fun _ _ b _ => b) tc t None [c1; c2; c1] in nth 0 rs TErr <> nth 2 rs TErr.
Proof. exact scale_used_not_kept_refuted_lemma. Qed.
Print Assumptions scale_used_not_kept_refuted.

Theorem b_unfixed_is_order_dependent :
  exists c1 c2 : tcall * list Z,
    tfinal unit (fun _ _ _ _ => tt) tcfg_pinned TLinearInf None [c1; c2]
    <> tfinal unit (fun _ _ _ _ => tt) tcfg_pinned TLinearInf None [c2; c1].
Proof. exact b_unfixed_is_order_dependent_lemma. Qed.
Print Assumptions b_unfixed_is_order_dependent.

Theorem b_unguarded_refuted : forall (tc : tcfg) (t : tkind), t_guard tc t = false -> t_sets tc t CTransform = true ->
  exists (b : Z) (c1 c2 : tcall * list Z),
    tfinal unit (fun _ _ _ _ => tt) tc t (Some b) [c1] <> tfinal unit (fun _ _ _ _ => tt) tc t (Some b) [c2].
Proof. exact b_unguarded_refuted_lemma. Qed.
Print Assumptions b_unguarded_refuted.

