(* C19 — proofs.  Part A: heap model of the caches; Part B: the inferred scale b. *)
From Coq Require Import List Arith Bool ZArith Lia Permutation.
From P Require Import C19_model.
Import ListNotations.

(* ================================================================ lists / heap *)
Lemma lset_length {A} (l : list A) n x : length (lset l n x) = length l.
Proof. revert n; induction l; intros [|n]; simpl; auto. Qed.

Lemma nth_lset_same {A} (l : list A) n x d : n < length l -> nth n (lset l n x) d = x.
Proof. revert n; induction l; intros [|n] H; simpl in *; try lia; auto. apply IHl; lia. Qed.

Lemma nth_lset_other {A} (l : list A) n n' x d : n <> n' -> nth n' (lset l n x) d = nth n' l d.
Proof.
  revert n n'; induction l; intros [|n] [|n'] H; simpl; auto; try congruence.
Qed.

Lemma In_lset {A} (l : list A) n x y : In y (lset l n x) -> y = x \/ In y l.
Proof.
  revert n; induction l; intros [|n] H; simpl in *; auto.
  - destruct H; auto.
  - destruct H; auto. apply IHl in H; tauto.
Qed.

Definition grows (s s' : state) : Prop :=
  (exists ex, heap s' = heap s ++ ex) /\ cache s' = cache s /\ objs s' = objs s.

Lemma grows_refl s : grows s s.
Proof. split; [exists []; now rewrite app_nil_r | auto]. Qed.

Lemma grows_trans a b c : grows a b -> grows b c -> grows a c.
Proof.
  intros ((x & Hx) & C1 & O1) ((y & Hy) & C2 & O2). split; [|split; congruence].
  exists (x ++ y). rewrite Hy, Hx, app_assoc. reflexivity.
Qed.

Lemma prefix_len (h h' : list val) : (exists ex, h' = h ++ ex) -> length h <= length h'.
Proof. intros (x & ->). rewrite app_length. lia. Qed.

Lemma prefix_nth (h h' : list val) l : (exists ex, h' = h ++ ex) -> l < length h -> nth l h' [] = nth l h [].
Proof. intros (x & ->) H. now rewrite app_nth1. Qed.

Lemma prefix_trans (a b c : list val) : (exists x, b = a ++ x) -> (exists y, c = b ++ y) -> exists z, c = a ++ z.
Proof. intros (x & ->) (y & ->). exists (x ++ y). now rewrite app_assoc. Qed.

Lemma grows_len s s' : grows s s' -> length (heap s) <= length (heap s').
Proof. intros (H & _). now apply prefix_len. Qed.

Lemma grows_hget s s' l : grows s s' -> l < length (heap s) -> hget s' l = hget s l.
Proof. intros (H & _) Hl. unfold hget. now apply prefix_nth. Qed.

Lemma alloc_spec v s l s' : alloc v s = (l, s') ->
  grows s s' /\ l = length (heap s) /\ length (heap s') = S (length (heap s)) /\ hget s' l = v.
Proof.
  unfold alloc. intros H. inversion H; subst; clear H. split; [|split; [|split]]; auto.
  - split; simpl; auto. now exists [v].
  - simpl. rewrite app_length. simpl. lia.
  - unfold hget. simpl. rewrite app_nth2 by lia. now rewrite Nat.sub_diag.
Qed.

Lemma vmode_ref v : vmode XRef v = v.
Proof. unfold vmode. simpl. apply map_id. Qed.

Lemma vmode_single x b : vmode x [b] = [Nat.iter (nsc x) Scale4pi b].
Proof. reflexivity. Qed.

Lemma mat_spec x l s l' s' : l < length (heap s) -> mat x l s = (l', s') ->
  grows s s' /\ l' < length (heap s') /\ hget s' l' = vmode x (hget s l) /\
  ((x = XRef /\ l' = l /\ s' = s) \/
   (is_ref x = false /\ l' = length (heap s) /\ length (heap s') = S (length (heap s)))).
Proof.
  intros Hl H. destruct x as [|n]; simpl in H.
  - inversion H; subst. split; [apply grows_refl|]. split; auto. split; [now rewrite vmode_ref|]. left; auto.
  - apply alloc_spec in H. destruct H as (G & -> & L & V). split; auto. split; [lia|]. split; auto.
Qed.

(* ================================================================ build1 / construct_ang *)
Lemma iter_plus {A} (f : A -> A) a b x : Nat.iter a f (Nat.iter b f x) = Nat.iter (a + b) f x.
Proof. induction a; simpl; congruence. Qed.

Lemma build1_spec cf m d k c hit s i st s' :
  (forall cl, hit = Some cl -> cl < length (heap s)) ->
  build1 cf m d k c hit s = ((i, st), s') ->
  grows s s' /\ i < length (heap s') /\
  (forall cl, hit = Some cl -> st = None /\ hget s' i = vmode (c_hit cf m k) (hget s cl) /\
        ((is_ref (c_hit cf m k) = true /\ i = cl) \/ length (heap s) <= i)) /\
  (hit = None -> length (heap s) <= i /\
        hget s' i = [Nat.iter (if c then nsc_i cf m k else nsc (c_missn cf m k)) Scale4pi (Ship m d k)] /\
        (c = false -> st = None) /\
        (c = true -> exists x, st = Some x /\ length (heap s) <= x < length (heap s') /\
                     hget s' x = vmode (c_store cf m k) [Ship m d k] /\ (iso cf m k = true -> i <> x))).
Proof.
  intros Hhit H. unfold build1 in H. destruct hit as [cl|].
  - destruct (mat (c_hit cf m k) cl s) as [i0 s1] eqn:M. inversion H; subst; clear H.
    apply mat_spec in M; [|now apply Hhit]. destruct M as (G & L & V & D).
    split; auto. split; auto. split; [|discriminate].
    intros cl' E. inversion E; subst cl'. split; auto. split; auto.
    destruct D as [(-> & -> & ->)|(R & -> & _)]; [left; auto | right; lia].
  - destruct (alloc [Ship m d k] s) as [l s1] eqn:A. apply alloc_spec in A. destruct A as (G1 & -> & L1 & V1).
    destruct c.
    + destruct (mat (c_store cf m k) (length (heap s)) s1) as [x s2] eqn:M1.
      apply mat_spec in M1; [|lia]. destruct M1 as (G2 & Lx & Vx & Dx).
      assert (Hl2 : hget s2 (length (heap s)) = [Ship m d k]) by (rewrite (grows_hget s1 s2); auto; lia).
      assert (Hx : length (heap s) <= x) by (destruct Dx as [(_ & -> & _)|(_ & -> & _)]; lia).
      unfold nsc_i, iso. destruct (c_missc cf m k) as [|xm] eqn:MC.
      * inversion H; subst; clear H. split; [eapply grows_trans; eauto|]. split; auto.
        split; [discriminate|]. intros _. split; auto. rewrite Vx, V1. split; [reflexivity|].
        split; [discriminate|]. intros _. exists i. split; auto. split; [lia|]. split; [now rewrite Vx, V1|].
        rewrite andb_false_r. discriminate.
      * destruct (mat xm (length (heap s)) s2) as [i0 s3] eqn:M2. inversion H; subst; clear H.
        apply mat_spec in M2; [|pose proof (grows_len _ _ G2); lia].
        destruct M2 as (G3 & Li & Vi & Di).
        split; [eapply grows_trans; [eauto|eapply grows_trans; eauto]|]. split; auto.
        split; [discriminate|]. intros _.
        split; [destruct Di as [(_ & -> & _)|(_ & -> & _)]; pose proof (grows_len _ _ G2); lia|].
        split; [rewrite Vi, Hl2; reflexivity|]. split; [discriminate|]. intros _.
        exists x. split; auto. split; [pose proof (grows_len _ _ G3); lia|].
        split; [rewrite (grows_hget s2 s'); auto; now rewrite Vx, V1|].
        intros I E. subst x.
        destruct Di as [(-> & -> & ->)|(Ri & -> & _)].
        -- destruct Dx as [(Es & _ & _)|(Rs & Ex & _)].
           ++ rewrite Es in I. simpl in I. rewrite andb_false_r in I. discriminate.
           ++ lia.
        -- lia.
    + destruct (mat (c_missn cf m k) (length (heap s)) s1) as [i0 s2] eqn:M1. inversion H; subst; clear H.
      apply mat_spec in M1; [|lia]. destruct M1 as (G2 & Li & Vi & Di).
      split; [eapply grows_trans; eauto|]. split; auto. split; [discriminate|]. intros _.
      split; [destruct Di as [(_ & -> & _)|(_ & -> & _)]; lia|].
      split; [now rewrite Vi, V1|]. split; auto. discriminate.
Qed.

(* ---------------------------------------------------------------- well-formedness, cleanliness *)
Definition wf (s : state) : Prop :=
  Forall (fun l => l < length (heap s)) (clocs s) /\ Forall (fun l => l < length (heap s)) (olocs s) /\ NoDup (clocs s).
Definition clean (cf : cfg) (s : state) (m : method) (k : kind) : Prop :=
  forall e, In e (cache s) -> e_m e = m -> hget s (e_loc k e) = vmode (c_store cf m k) [Ship m (e_d e) k].

Lemma in_clocs s e k : In e (cache s) -> In (e_loc k e) (clocs s).
Proof.
  intros H. unfold clocs. apply in_flat_map. exists e. split; auto. destruct k; simpl; auto.
Qed.

Lemma in_olocs s o k : In o (objs s) -> In (o_loc k o) (olocs s).
Proof.
  intros H. unfold olocs. apply in_flat_map. exists o. split; auto. destruct k; simpl; auto.
Qed.

Lemma wf_cloc s e k : wf s -> In e (cache s) -> e_loc k e < length (heap s).
Proof. intros (H & _) He. rewrite Forall_forall in H. apply H. now apply in_clocs. Qed.

Lemma lookup_in m d c e : lookup m d c = Some e -> In e c /\ e_m e = m /\ e_d e = d.
Proof.
  induction c as [|a r IH]; simpl; [discriminate|].
  destruct (method_eqb (e_m a) m && Nat.eqb (e_d a) d) eqn:E.
  - intros H; inversion H; subst. apply andb_prop in E. destruct E as (E1 & E2).
    split; auto. split; [|now apply Nat.eqb_eq].
    destruct (e_m e), m; simpl in E1; congruence.
  - intros H. apply IH in H. tauto.
Qed.

Lemma clocs_app s e : clocs (add_cache e s) = clocs s ++ [e_p e; e_w e].
Proof. unfold clocs, add_cache. simpl. rewrite flat_map_app. simpl. reflexivity. Qed.

(* locations of distinct (entry, kind) pairs are distinct *)
Lemma nodup_flat (c : list centry) e e' k k' :
  NoDup (flat_map (fun e => [e_p e; e_w e]) c) -> In e c -> In e' c ->
  sel k (e_p e) (e_w e) = sel k' (e_p e') (e_w e') -> e = e' /\ k = k'.
Proof.
  induction c as [|a r IH]; simpl; [tauto|]. intros ND He He'.
  inversion ND as [|x l N1 ND1]; subst. inversion ND1 as [|x l N2 ND2]; subst.
  assert (Hin : forall z kk, In z r -> In (sel kk (e_p z) (e_w z)) (flat_map (fun e => [e_p e; e_w e]) r)).
  { intros z kk Hz. apply in_flat_map. exists z. split; auto. destruct kk; simpl; auto. }
  intros E. destruct He as [->|He], He' as [->|He'].
  - split; auto. destruct k, k'; simpl in E; auto; exfalso; apply N1; simpl; auto.
  - exfalso. pose proof (Hin e' k' He') as Hi. rewrite <- E in Hi.
    destruct k; simpl in Hi; [apply N1; simpl; auto | apply N2; auto].
  - exfalso. pose proof (Hin e k He) as Hi. rewrite E in Hi.
    destruct k'; simpl in Hi; [apply N1; simpl; auto | apply N2; auto].
  - apply IH; auto.
Qed.

Lemma nodup_snoc2 {A} (l : list A) a b : NoDup l -> ~ In a l -> ~ In b l -> a <> b -> NoDup (l ++ [a; b]).
Proof.
  induction l as [|x r IH]; simpl; intros N Ha Hb Hab.
  - constructor; [simpl; intuition congruence|]. constructor; auto.
  - inversion N; subst. constructor.
    + rewrite in_app_iff. simpl. intuition.
    + apply IH; auto.
Qed.

(* library-internal transition: the heap only grows, objects are untouched, new cache entries are fresh *)
Definition lib (cf : cfg) (s s' : state) : Prop :=
  (exists ex, heap s' = heap s ++ ex) /\ objs s' = objs s /\
  (forall e, In e (cache s') -> In e (cache s) \/ (length (heap s) <= e_p e /\ length (heap s) <= e_w e)) /\
  wf s' /\ (forall m k, clean cf s m k -> clean cf s' m k).

Lemma lib_refl cf s : wf s -> lib cf s s.
Proof. intros W. split; [exists []; now rewrite app_nil_r|]. split; auto. Qed.

Lemma lib_trans cf a b c : lib cf a b -> lib cf b c -> lib cf a c.
Proof.
  intros (P1 & O1 & N1 & W1 & C1) (P2 & O2 & N2 & W2 & C2).
  split; [eapply prefix_trans; eauto|]. split; [congruence|]. split; [|split; auto].
  intros e He. apply N2 in He. destruct He as [He|He]; [now apply N1|].
  right. pose proof (prefix_len _ _ P1). lia.
Qed.

Lemma grows_lib cf s s' : wf s -> grows s s' -> lib cf s s'.
Proof.
  intros (W1 & W2 & W3) G. pose proof (grows_len _ _ G) as L. destruct G as (P & C & O).
  split; auto. split; auto. split; [intros e He; left; congruence|]. split.
  - unfold wf, clocs, olocs. rewrite C, O. repeat split; auto;
      eapply Forall_impl; [| eassumption | | eassumption]; simpl; intros; lia.
  - intros m k Cl e He Hm. rewrite C in He. rewrite <- (Cl e He Hm).
    unfold hget. apply prefix_nth; auto.
    rewrite Forall_forall in W1. apply W1. unfold clocs. apply in_flat_map. exists e. split; auto.
    destruct k; simpl; auto.
Qed.

Lemma lib_alloc cf v s l s' : wf s -> alloc v s = (l, s') -> lib cf s s'.
Proof. intros W A. apply alloc_spec in A. apply grows_lib; tauto. Qed.

Lemma values_hit cf m d k v :
  values_ok cf m k = true -> v = vmode (c_store cf m k) [Ship m d k] -> vmode (c_hit cf m k) v = shipped m d k.
Proof.
  unfold values_ok. intros H ->. apply andb_prop in H. destruct H as (_ & H). apply Nat.eqb_eq in H.
  unfold shipped, shipped_b. rewrite <- H. rewrite !vmode_single, iter_plus. f_equal. f_equal. lia.
Qed.

Lemma construct_ang_spec cf m d c s ip iw s' : wf s -> construct_ang cf m d c s = ((ip, iw), s') ->
  lib cf s s' /\ ip < length (heap s') /\ iw < length (heap s') /\
  (forall k, length (heap s) <= sel k ip iw \/
             (exists e, In e (cache s) /\ e_m e = m /\ e_d e = d /\ sel k ip iw = e_loc k e /\ iso cf m k = false)) /\
  (cache s' = cache s \/
   exists e, cache s' = cache s ++ [e] /\ e_m e = m /\
        e_p e <> iw /\ e_w e <> ip /\ (forall k, iso cf m k = true -> e_loc k e <> sel k ip iw)) /\
  (forall k, values_ok cf m k = true -> clean cf s m k -> hget s' (sel k ip iw) = shipped m d k).
Proof.
  intros W H. unfold construct_ang in H.
  destruct (build1 cf m d KP c (option_map e_p (lookup m d (cache s))) s) as [[ip0 cp] s1] eqn:B1.
  destruct (build1 cf m d KW c (option_map e_w (lookup m d (cache s))) s1) as [[iw0 cw] s2] eqn:B2.
  injection H as E1 E2 Hs'. subst ip0 iw0.
  assert (Hh1 : forall cl, option_map e_p (lookup m d (cache s)) = Some cl -> cl < length (heap s)).
  { intros cl E. destruct (lookup m d (cache s)) as [e|] eqn:Lk; simpl in E; [|discriminate].
    inversion E; subst. apply lookup_in in Lk. apply (wf_cloc s e KP); tauto. }
  apply build1_spec in B1; auto. destruct B1 as (G1 & Lp & Hp & Mp).
  assert (Hh2 : forall cl, option_map e_w (lookup m d (cache s)) = Some cl -> cl < length (heap s1)).
  { intros cl E. destruct (lookup m d (cache s)) as [e|] eqn:Lk; simpl in E; [|discriminate].
    inversion E; subst. apply lookup_in in Lk. pose proof (grows_len _ _ G1).
    pose proof (wf_cloc s e KW W (proj1 Lk)). simpl in *. unfold e_loc in *. simpl in *. lia. }
  apply build1_spec in B2; auto. destruct B2 as (G2 & Lw & Hw & Mw).
  pose proof (grows_len _ _ G1) as L01. pose proof (grows_len _ _ G2) as L12.
  pose proof (grows_trans _ _ _ G1 G2) as G02.
  pose proof (grows_lib cf _ _ W G02) as LB02.
  destruct (lookup m d (cache s)) as [e|] eqn:Lk; simpl in *.
  - (* hit *)
    apply lookup_in in Lk. destruct Lk as (Ine & Em & Ed).
    destruct (Hp _ eq_refl) as (-> & Vp & Dp). destruct (Hw _ eq_refl) as (-> & Vw & Dw). simpl in Hs'. subst s'.
    split; auto. split; [lia|]. split; auto. split; [|split; [left; apply G02|]].
    + intros [|]; simpl.
      * destruct Dp as [(R & ->)|]; [right|left; auto].
        exists e. repeat split; auto. unfold iso. now rewrite R.
      * destruct Dw as [(R & ->)|]; [right|left; lia].
        exists e. repeat split; auto. unfold iso. now rewrite R.
    + intros k V Cl. pose proof (Cl e Ine Em) as Ce. rewrite Ed in Ce.
      destruct k; simpl in *.
      * rewrite (grows_hget s1 s2); auto. rewrite Vp. now apply values_hit.
      * rewrite Vw. rewrite (grows_hget s s1); auto; [now apply values_hit|].
        apply (wf_cloc s e KW); auto.
  - (* miss *)
    destruct (Mp eq_refl) as (Ip & Vp & Np & Sp). destruct (Mw eq_refl) as (Iw & Vw & Nw & Sw).
    assert (Vals : forall k, values_ok cf m k = true -> hget s2 (sel k ip iw) = shipped m d k).
    { intros k V. unfold values_ok in V. apply andb_prop in V. destruct V as (V & _).
      apply andb_prop in V. destruct V as (V1 & V2). apply Nat.eqb_eq in V1, V2.
      unfold shipped, shipped_b. destruct k; simpl.
      - rewrite (grows_hget s1 s2); auto. rewrite Vp. destruct c; congruence.
      - rewrite Vw. destruct c; congruence. }
    destruct c.
    + destruct (Sp eq_refl) as (xp & -> & Bp & Xp & Ap). destruct (Sw eq_refl) as (xw & -> & Bw & Xw & Aw).
      simpl in Hs'. subst s'. set (e := {| e_m := m; e_d := d; e_p := xp; e_w := xw |}).
      destruct LB02 as (P02 & O02 & N02 & (W1 & W2 & W3) & C02).
      assert (Cs : cache s2 = cache s) by apply G02.
      assert (Ccl : clocs s2 = clocs s) by (unfold clocs; now rewrite Cs).
      assert (Old : forall l, In l (clocs s2) -> l < length (heap s)).
      { intros l Hl. rewrite Ccl in Hl. destruct W as (Wa & _). rewrite Forall_forall in Wa. auto. }
      assert (Wn : wf (add_cache e s2)).
      { unfold wf. rewrite clocs_app. simpl. split; [|split; auto].
        - apply Forall_app. split; auto. repeat constructor; simpl; lia.
        - apply nodup_snoc2; auto.
          + intros Hin. apply Old in Hin. lia.
          + intros Hin. apply Old in Hin. lia.
          + simpl. lia. }
      split.
      { split; [exact P02|]. split; [exact O02|]. split; [|split; [exact Wn|]].
        - intros e0 He0. simpl in He0. apply in_app_iff in He0.
          destruct He0 as [H0|[<-|[]]]; [left; congruence | right; simpl; lia].
        - intros m0 k0 Cl e0 He0 Hm0. simpl in He0. apply in_app_iff in He0.
          destruct He0 as [H0|[<-|[]]].
          + apply (C02 m0 k0 Cl e0); auto.
          + simpl in Hm0. subst m0. change (hget (add_cache e s2)) with (hget s2).
            destruct k0; simpl.
            * rewrite (grows_hget s1 s2); auto. lia.
            * exact Xw. }
      split; [simpl; lia|]. split; [simpl; lia|]. split; [|split].
      * intros [|]; simpl; left; lia.
      * right. exists e. split; [simpl; now rewrite Cs|]. split; auto. simpl.
        split; [lia|]. split; [lia|]. intros [|] I; simpl; intros E; [apply (Ap I)|apply (Aw I)]; auto.
      * intros k V _. change (hget (add_cache e s2)) with (hget s2). now apply Vals.
    + rewrite (Np eq_refl) in Hs'. simpl in Hs'. subst s'.
      split; auto. split; [lia|]. split; auto. split; [|split; [left; apply G02|]].
      * intros [|]; simpl; left; lia.
      * intros k V _. now apply Vals.
Qed.

(* ================================================================ invariants of single steps *)
Lemma lib_sep cf s s' m k : wf s -> lib cf s s' -> separated s m k -> separated s' m k.
Proof.
  intros W (P & O & N & W' & _) S e He Hm Hin.
  unfold olocs in Hin. rewrite O in Hin. fold (olocs s) in Hin.
  destruct (N e He) as [H0|(H1 & H2)].
  - apply (S e H0 Hm). exact Hin.
  - destruct W as (_ & Wo & _). rewrite Forall_forall in Wo. apply Wo in Hin.
    destruct k; unfold e_loc in Hin; simpl in Hin; lia.
Qed.

Lemma olocs_add o s : olocs (add_obj o s) = olocs s ++ [o_p o; o_w o].
Proof. unfold olocs, add_obj. simpl. rewrite flat_map_app. simpl. reflexivity. Qed.

Lemma add_obj_wf o s : wf s -> o_p o < length (heap s) -> o_w o < length (heap s) -> wf (add_obj o s).
Proof.
  intros (W1 & W2 & W3) Hp Hw. unfold wf. rewrite olocs_add. split; auto. split; auto.
  apply Forall_app. split; auto.
Qed.

Lemma add_obj_clean cf o s m k : clean cf s m k -> clean cf (add_obj o s) m k.
Proof. intros C e He Hm. exact (C e He Hm). Qed.

Lemma add_obj_sep o s m k : separated s m k ->
  (forall e, In e (cache s) -> e_m e = m -> e_loc k e <> o_p o /\ e_loc k e <> o_w o) ->
  separated (add_obj o s) m k.
Proof.
  intros S H e He Hm Hin. rewrite olocs_add in Hin. apply in_app_iff in Hin.
  destruct Hin as [Hin|Hin]; [exact (S e He Hm Hin)|].
  destruct (H e He Hm) as (A & B). simpl in Hin. intuition.
Qed.

(* an object whose arrays were allocated after every cache entry *)
Lemma add_fresh_obj o s n : wf s -> (forall l, In l (clocs s) -> l < n) ->
  n <= o_p o < length (heap s) -> n <= o_w o < length (heap s) ->
  wf (add_obj o s) /\ forall m k, separated s m k -> separated (add_obj o s) m k.
Proof.
  intros W Hc Hp Hw. split; [apply add_obj_wf; auto; lia|].
  intros m k S. apply add_obj_sep; auto. intros e He _.
  pose proof (Hc _ (in_clocs s e k He)). lia.
Qed.

Lemma hset_wf s l v : wf s -> wf (hset s l v).
Proof. unfold wf, hset, clocs, olocs. simpl. now rewrite lset_length. Qed.

Lemma hset_clean cf s l v m k : clean cf s m k ->
  (forall e, In e (cache s) -> e_m e = m -> e_loc k e <> l) -> clean cf (hset s l v) m k.
Proof.
  intros C H e He Hm. unfold hget, hset. simpl. rewrite nth_lset_other; [exact (C e He Hm)|].
  intros E. apply (H e He Hm). auto.
Qed.

Lemma olocs_set i o s x : In x (olocs (set_obj i o s)) -> In x (olocs s) \/ x = o_p o \/ x = o_w o.
Proof.
  unfold olocs, set_obj. simpl. intros H. apply in_flat_map in H. destruct H as (ob & Hob & Hx).
  apply In_lset in Hob. destruct Hob as [->|Hob].
  - simpl in Hx. intuition.
  - left. apply in_flat_map. exists ob. auto.
Qed.

Lemma heap_set_obj i o s : heap (set_obj i o s) = heap s.
Proof. reflexivity. Qed.

Lemma wf_bound s : wf s -> forall l, In l (clocs s) -> l < length (heap s).
Proof. intros (W & _). now rewrite Forall_forall in W. Qed.

Lemma wf_obound s : wf s -> forall l, In l (olocs s) -> l < length (heap s).
Proof. intros (_ & W & _). now rewrite Forall_forall in W. Qed.

Lemma atom_shells_lib cf m ds : forall s ps ws s', wf s -> atom_shells cf m ds s = ((ps, ws), s') -> lib cf s s'.
Proof.
  induction ds as [|d r IH]; simpl; intros s ps ws s' W H.
  - inversion H; subst. now apply lib_refl.
  - destruct (construct_ang cf m d (c_libcache cf) s) as [[ip iw] s1] eqn:C.
    destruct (atom_shells cf m r s1) as [[ps' ws'] s2] eqn:A. inversion H; subst; clear H.
    apply construct_ang_spec in C; auto. destruct C as (L1 & _).
    eapply lib_trans; [exact L1|]. eapply IH; eauto. apply L1.
Qed.

Lemma lib_wf cf s s' : lib cf s s' -> wf s'.
Proof. intros (_ & _ & _ & W & _). exact W. Qed.

Lemma lib_clean cf s s' m k : lib cf s s' -> clean cf s m k -> clean cf s' m k.
Proof. intros (_ & _ & _ & _ & C). apply C. Qed.

Lemma lib_heap cf s s' : lib cf s s' -> length (heap s) <= length (heap s').
Proof. intros (P & _). now apply prefix_len. Qed.

(* library transition followed by two allocations and the registration of the new object *)
Lemma lib_alloc2_obj cf s s1 vp vw lp s2 lw s3 dsc m k :
  wf s -> lib cf s s1 -> alloc vp s1 = (lp, s2) -> alloc vw s2 = (lw, s3) ->
  let s4 := add_obj {| o_p := lp; o_w := lw; o_desc := dsc |} s3 in
  wf s4 /\ (clean cf s m k -> clean cf s4 m k) /\ (separated s m k -> separated s4 m k).
Proof.
  intros W L A1 A2 s4. pose proof (lib_wf _ _ _ L) as W1.
  pose proof (lib_alloc cf _ _ _ _ W1 A1) as L2. pose proof (lib_wf _ _ _ L2) as W2.
  pose proof (lib_alloc cf _ _ _ _ W2 A2) as L3. pose proof (lib_wf _ _ _ L3) as W3.
  apply alloc_spec in A1. destruct A1 as (G1 & -> & Ln1 & _).
  apply alloc_spec in A2. destruct A2 as (G2 & -> & Ln2 & _).
  assert (Hc : forall l, In l (clocs s3) -> l < length (heap s1)).
  { intros l Hl. apply (wf_bound s1 W1). unfold clocs in *.
    destruct G1 as (_ & C1 & _). destruct G2 as (_ & C2 & _). now rewrite <- C1, <- C2. }
  destruct (add_fresh_obj {| o_p := length (heap s1); o_w := length (heap s2); o_desc := dsc |} s3
              (length (heap s1)) W3 Hc) as (W4 & S4); simpl; try lia.
  split; auto. split.
  - intros C. apply add_obj_clean. eapply lib_clean; [exact L3|]. eapply lib_clean; [exact L2|].
    eapply lib_clean; eauto.
  - intros S. apply S4. apply (lib_sep cf s2 s3 m k W2 L3). apply (lib_sep cf s1 s2 m k W1 L2).
    exact (lib_sep cf s s1 m k W L S).
Qed.

Lemma step_inv cf s o m k : wf s ->
  wf (step cf s o) /\
  (separated s m k -> clean cf s m k -> clean cf (step cf s o) m k) /\
  (iso cf m k = true -> separated s m k -> separated (step cf s o) m k).
Proof.
  intros W. destruct o as [m' d c|m' d|o tag|o tag|o tag|o tag|m' ds|a i|l]; cbn [step].
  - (* Construct *)
    destruct (construct_ang cf m' d c s) as [[ip iw] s1] eqn:C.
    apply construct_ang_spec in C; auto. destruct C as (L & Lp & Lw & Inst & Ca & _).
    pose proof (lib_wf _ _ _ L) as W1.
    split; [apply add_obj_wf; auto|]. split.
    + intros _ Cl. apply add_obj_clean. eapply lib_clean; eauto.
    + intros I S. apply add_obj_sep; [exact (lib_sep cf s s1 m k W L S)|]. simpl.
      assert (Hk : forall e, In e (cache s1) -> e_m e = m -> forall k', e_loc k e <> sel k' ip iw).
      { intros e He Hm k' E.
        assert (Old : In e (cache s) -> False).
        { intros Hin. destruct (Inst k') as [Hge|(e' & He' & Em' & _ & El & Is)].
          - pose proof (wf_cloc s e k W Hin). lia.
          - rewrite El in E. destruct W as (_ & _ & ND).
            destruct (nodup_flat (cache s) e e' k k' ND Hin He' E) as (-> & ->). congruence. }
        destruct Ca as [Ca|(en & Ca & Em & N1 & N2 & N3)].
        - rewrite Ca in He. auto.
        - rewrite Ca in He. apply in_app_iff in He. destruct He as [He|[<-|[]]]; auto.
          assert (Emm : m' = m) by congruence. clear Hm. subst m'. try rewrite Emm in N3.
          destruct k, k'; simpl in E; unfold e_loc in *; simpl in *;
            [apply (N3 KP I); auto | auto | auto | apply (N3 KW I); auto]. }
      intros e He Hm. split; [apply (Hk e He Hm KP) | apply (Hk e He Hm KW)].
  - (* Touch *)
    destruct (construct_ang cf m' d (c_libcache cf) s) as [[ip iw] s1] eqn:C. simpl.
    apply construct_ang_spec in C; auto. destruct C as (L & _).
    split; [eapply lib_wf; eauto|]. split.
    + intros _. eapply lib_clean; eauto.
    + intros _ S. exact (lib_sep cf s s1 m k W L S).
  - (* MutP *)
    unfold mut. destruct (nth_error (objs s) o) as [ob|] eqn:N; [|tauto].
    split; [now apply hset_wf|]. split; [|intros _ S; exact S].
    intros S Cl. apply hset_clean; auto. intros e He Hm E.
    apply (S e He Hm). rewrite E. apply in_olocs. eapply nth_error_In; eauto.
  - (* MutW *)
    unfold mut. destruct (nth_error (objs s) o) as [ob|] eqn:N; [|tauto].
    split; [now apply hset_wf|]. split; [|intros _ S; exact S].
    intros S Cl. apply hset_clean; auto. intros e He Hm E.
    apply (S e He Hm). rewrite E. apply in_olocs. eapply nth_error_In; eauto.
  - (* SetP *)
    unfold setattr. destruct (nth_error (objs s) o) as [ob|] eqn:N; [|tauto].
    destruct (alloc (fill tag (hget s (o_loc KP ob))) s) as [l1 s1] eqn:A.
    pose proof (lib_alloc cf _ _ _ _ W A) as L. pose proof (lib_wf _ _ _ L) as W1.
    apply alloc_spec in A. destruct A as (G & -> & Ln & _).
    pose proof (nth_error_In _ _ N) as Hob.
    assert (Ho : forall x, In x (olocs (set_obj o {| o_p := sel KP (length (heap s)) (o_p ob);
                 o_w := sel KP (o_w ob) (length (heap s)); o_desc := o_desc ob |} s1)) ->
                 In x (olocs s) \/ x = length (heap s)).
    { intros x Hx. apply olocs_set in Hx. simpl in Hx. destruct Hx as [Hx|[-> | ->]]; auto.
      - left. unfold olocs in *. destruct G as (_ & _ & O). now rewrite <- O.
      - left. apply (in_olocs s ob KW Hob). }
    split; [|split].
    + destruct W1 as (A1 & A2 & A3). split; [exact A1|]. split; [|exact A3].
      apply Forall_forall. intros x Hx. apply Ho in Hx. rewrite heap_set_obj. destruct Hx as [Hx| ->]; [|lia].
      pose proof (wf_obound s W x Hx). lia.
    + intros _ Cl e He Hm. exact (lib_clean _ _ _ _ _ L Cl e He Hm).
    + intros _ S e He Hm Hin. apply Ho in Hin.
      assert (He' : In e (cache s)) by (destruct G as (_ & C & _); now rewrite <- C).
      destruct Hin as [Hin| Hin]; [exact (S e He' Hm Hin)|].
      pose proof (wf_cloc s e k W He'). lia.
  - (* SetW *)
    unfold setattr. destruct (nth_error (objs s) o) as [ob|] eqn:N; [|tauto].
    destruct (alloc (fill tag (hget s (o_loc KW ob))) s) as [l1 s1] eqn:A.
    pose proof (lib_alloc cf _ _ _ _ W A) as L. pose proof (lib_wf _ _ _ L) as W1.
    apply alloc_spec in A. destruct A as (G & -> & Ln & _).
    pose proof (nth_error_In _ _ N) as Hob.
    assert (Ho : forall x, In x (olocs (set_obj o {| o_p := sel KW (length (heap s)) (o_p ob);
                 o_w := sel KW (o_w ob) (length (heap s)); o_desc := o_desc ob |} s1)) ->
                 In x (olocs s) \/ x = length (heap s)).
    { intros x Hx. apply olocs_set in Hx. simpl in Hx. destruct Hx as [Hx|[-> | ->]]; auto.
      - left. unfold olocs in *. destruct G as (_ & _ & O). now rewrite <- O.
      - left. apply (in_olocs s ob KP Hob). }
    split; [|split].
    + destruct W1 as (A1 & A2 & A3). split; [exact A1|]. split; [|exact A3].
      apply Forall_forall. intros x Hx. apply Ho in Hx. rewrite heap_set_obj. destruct Hx as [Hx| ->]; [|lia].
      pose proof (wf_obound s W x Hx). lia.
    + intros _ Cl e He Hm. exact (lib_clean _ _ _ _ _ L Cl e He Hm).
    + intros _ S e He Hm Hin. apply Ho in Hin.
      assert (He' : In e (cache s)) by (destruct G as (_ & C & _); now rewrite <- C).
      destruct Hin as [Hin| Hin]; [exact (S e He' Hm Hin)|].
      pose proof (wf_cloc s e k W He'). lia.
  - (* MkAtom *)
    destruct (atom_shells cf m' ds s) as [[ps ws] s1] eqn:A.
    destruct (alloc ps s1) as [lp s2] eqn:A1. destruct (alloc ws s2) as [lw s3] eqn:A2.
    pose proof (atom_shells_lib _ _ _ _ _ _ _ W A) as L.
    destruct (lib_alloc2_obj cf s s1 ps ws lp s2 lw s3 (DAtom m' ds) m k W L A1 A2) as (X & Y & Z).
    split; auto.
  - (* Shell *)
    destruct (nth_error (objs s) a) as [[op ow [|m' ds|]]|] eqn:N; try tauto.
    destruct (nth_error ds i) as [d|] eqn:N2; [|tauto].
    destruct (construct_ang cf m' d (c_libcache cf) s) as [[ip iw] s1] eqn:C.
    destruct (alloc (map Rad (hget s1 ip)) s1) as [lp s2] eqn:A1.
    destruct (alloc (map Rad (hget s1 iw)) s2) as [lw s3] eqn:A2.
    apply construct_ang_spec in C; auto. destruct C as (L & _).
    destruct (lib_alloc2_obj cf s s1 _ _ lp s2 lw s3 DOther m k W L A1 A2) as (X & Y & Z).
    split; auto.
  - (* MkMol *)
    match goal with |- context [alloc ?v s] => destruct (alloc v s) as [lp s2] eqn:A1 end.
    match goal with |- context [alloc ?v s2] => destruct (alloc v s2) as [lw s3] eqn:A2 end.
    destruct (lib_alloc2_obj cf s s _ _ lp s2 lw s3 DOther m k W (lib_refl cf s W) A1 A2) as (X & Y & Z).
    split; auto.
Qed.

(* ================================================================ histories *)
Lemma run_snoc cf h o : run cf (h ++ [o]) = step cf (run cf h) o.
Proof. unfold run. now rewrite fold_left_app. Qed.

Lemma wf_init : wf init.
Proof. repeat split; constructor. Qed.

Lemma clean_init cf m k : clean cf init m k.
Proof. intros e []. Qed.

Lemma sep_init m k : separated init m k.
Proof. intros e []. Qed.

Lemma observe_spec cf s m d k :
  wf s -> clean cf s m k -> values_ok cf m k = true -> observe cf s m d k = shipped m d k.
Proof.
  intros W C V. unfold observe. destruct (construct_ang cf m d true s) as [[ip iw] s1] eqn:E.
  apply construct_ang_spec in E; auto. destruct E as (_ & _ & _ & _ & _ & Vals). now apply Vals.
Qed.

Lemma sep_gives_clean cf m k :
  (forall h, separated (run cf h) m k) -> forall h, wf (run cf h) /\ clean cf (run cf h) m k.
Proof.
  intros S h. induction h as [|o h IH] using rev_ind.
  - split; [apply wf_init | apply clean_init].
  - rewrite run_snoc. destruct IH as (W & C).
    destruct (step_inv cf (run cf h) o m k W) as (A & B & _). split; auto.
Qed.

Lemma separation_implies_refinement_lemma cf m k :
  values_ok cf m k = true -> (forall h, separated (run cf h) m k) ->
  forall h d, observe cf (run cf h) m d k = shipped m d k.
Proof.
  intros V S h d. destruct (sep_gives_clean cf m k S h) as (W & C). now apply observe_spec.
Qed.

Lemma iso_inv cf m k : iso cf m k = true -> forall h, wf (run cf h) /\ separated (run cf h) m k.
Proof.
  intros I h. induction h as [|o h IH] using rev_ind.
  - split; [apply wf_init | apply sep_init].
  - rewrite run_snoc. destruct IH as (W & S).
    destruct (step_inv cf (run cf h) o m k W) as (A & _ & B). split; auto.
Qed.

Lemma isolating_keeps_separation_lemma cf m k : iso cf m k = true -> forall h, separated (run cf h) m k.
Proof. intros I h. apply (iso_inv cf m k I h). Qed.

Lemma observation_refines_spec_lemma cf m k :
  values_ok cf m k = true -> iso cf m k = true ->
  forall h d, observe cf (run cf h) m d k = shipped m d k.
Proof.
  intros V I. apply separation_implies_refinement_lemma; auto. now apply isolating_keeps_separation_lemma.
Qed.

(* whatever the aliasing, at least two calls are needed to break the property *)
Lemma no_shorter_counterexample_lemma cf m k : values_ok cf m k = true ->
  forall h, length h <= 1 -> forall d, observe cf (run cf h) m d k = shipped m d k.
Proof.
  intros V h L d. destruct h as [|o [|o' r]]; simpl in L; try lia.
  - apply observe_spec; auto using wf_init, clean_init.
  - change (run cf [o]) with (step cf init o).
    destruct (step_inv cf init o m k wf_init) as (A & B & _).
    apply observe_spec; auto. apply B; auto using sep_init, clean_init.
Qed.

(* ---------------------------------------------------------------- atomic grids *)
Lemma atom_shells_spec cf m k ds : values_ok cf m k = true ->
  forall s ps ws s', wf s -> clean cf s m k -> atom_shells cf m ds s = ((ps, ws), s') ->
  sel k ps ws = atom_shipped m ds k.
Proof.
  intros V. induction ds as [|d r IH]; simpl; intros s ps ws s' W C H.
  - inversion H; subst. now destruct k.
  - destruct (construct_ang cf m d (c_libcache cf) s) as [[ip iw] s1] eqn:E.
    destruct (atom_shells cf m r s1) as [[ps' ws'] s2] eqn:A. inversion H; subst; clear H.
    apply construct_ang_spec in E; auto. destruct E as (L & _ & _ & _ & _ & Vals).
    pose proof (Vals k V C) as Hv.
    pose proof (IH s1 ps' ws' _ (lib_wf _ _ _ L) (lib_clean _ _ _ _ _ L C) A) as Hr.
    unfold atom_shipped in *. simpl. destruct k; simpl in *; rewrite Hv, Hr; reflexivity.
Qed.

Lemma atom_refines_spec_lemma cf m k : values_ok cf m k = true -> (forall h, separated (run cf h) m k) ->
  forall h ds, observe_atom cf (run cf h) m ds k = atom_shipped m ds k.
Proof.
  intros V S h ds. destruct (sep_gives_clean cf m k S h) as (W & C). unfold observe_atom.
  destruct (atom_shells cf m ds (run cf h)) as [[ps ws] s'] eqn:A.
  eapply atom_shells_spec; eauto.
Qed.

(* ---------------------------------------------------------------- the pinned and the repaired configuration *)
Lemma pinned_values_ok : forall m k, values_ok cfg_pinned m k = true.
Proof. intros [] []; reflexivity. Qed.

Lemma fixed_values_ok : forall m k, values_ok cfg_fixed m k = true.
Proof. intros [] []; reflexivity. Qed.

Lemma fixed_iso : forall m k, iso cfg_fixed m k = true.
Proof. intros [] []; reflexivity. Qed.

Lemma fixed_refines_spec_lemma : forall h m d k, observe cfg_fixed (run cfg_fixed h) m d k = shipped m d k.
Proof. intros. apply observation_refines_spec_lemma; auto using fixed_values_ok, fixed_iso. Qed.

Lemma fixed_atom_refines_spec_lemma :
  forall h m ds k, observe_atom cfg_fixed (run cfg_fixed h) m ds k = atom_shipped m ds k.
Proof.
  intros. apply atom_refines_spec_lemma; auto using fixed_values_ok.
  apply isolating_keeps_separation_lemma. apply fixed_iso.
Qed.

Lemma pinned_safe_arrays_lemma : forall m k, iso cfg_pinned m k = true ->
  forall h d, observe cfg_pinned (run cfg_pinned h) m d k = shipped m d k.
Proof. intros m k I. apply observation_refines_spec_lemma; auto using pinned_values_ok. Qed.

Definition mutk (k : kind) : nat -> nat -> op := match k with KP => MutP | KW => MutW end.

Lemma cache_alias_refuted_lemma :
  exists h m d k, length h = 2 /\ observe cfg_pinned (run cfg_pinned h) m d k <> shipped m d k.
Proof.
  exists [Construct Maxdet 5 true; MutW 0 0], Maxdet, 5, KW. split; [reflexivity|]. vm_compute. discriminate.
Qed.

(* every array that the pinned code hands out by reference: construct, overwrite in place, construct again *)
Lemma pinned_alias_refuted_lemma : forall m k, iso cfg_pinned m k = false ->
  forall d tag, observe cfg_pinned (run cfg_pinned [Construct m d true; mutk k 0 tag]) m d k = [Filled tag]
                /\ [Filled tag] <> shipped m d k.
Proof.
  intros m k I d tag. split; [|destruct m, k; discriminate].
  destruct m, k; try discriminate I; unfold observe, run; cbn; unfold construct_ang; cbn;
    rewrite !Nat.eqb_refl; cbn; reflexivity.
Qed.

Lemma atom_alias_refuted_lemma :
  exists h m ds k, length h = 2 /\ observe_atom cfg_pinned (run cfg_pinned h) m ds k <> atom_shipped m ds k.
Proof.
  exists [Construct Lebedev 5 true; MutP 0 0], Lebedev, [3; 5], KP. split; [reflexivity|]. vm_compute. discriminate.
Qed.

(* ================================================================ Part B *)
Section BProofs.
  Variable Res : Type.
  Variable F : tkind -> tcall -> option Z -> list Z -> Res.
  Notation tstep := (tstep Res F).
  Notation tfinal := (tfinal Res F).
  Notation tresults := (tresults Res F).
  Notation tpure := (tpure Res F).
  Notation tcanon := (tcanon Res F).

  Lemma tstep_fixed tc t b c : t_guard tc t = true -> tstep tc t (Some b) c = (Some b, tpure tc t b c).
  Proof.
    intros G. destruct c as [cl x]. unfold C19_model.tstep, C19_model.tpure, C19_model.tcanon. simpl.
    destruct (t_sets tc t cl); rewrite ?G; simpl; [reflexivity|]. destruct (t_uses tc t cl); reflexivity.
  Qed.

  Lemma tfinal_fixed tc t b cs : t_guard tc t = true -> tfinal tc t (Some b) cs = Some b.
  Proof. intros G. induction cs as [|c r IH]; simpl; auto. now rewrite tstep_fixed. Qed.

  Lemma tresults_fixed tc t b cs : t_guard tc t = true -> tresults tc t (Some b) cs = map (tpure tc t b) cs.
  Proof. intros G. induction cs as [|c r IH]; simpl; auto. rewrite tstep_fixed; auto. simpl. now rewrite IH. Qed.

  Lemma b_fixed_is_order_independent_lemma tc t : t_guard tc t = true ->
    forall b cs1 cs2 c,
      snd (tstep tc t (tfinal tc t (Some b) cs1) c) = tpure tc t b c /\
      snd (tstep tc t (tfinal tc t (Some b) cs2) c) = tpure tc t b c /\
      tresults tc t (Some b) cs1 = map (tpure tc t b) cs1 /\
      (Permutation cs1 cs2 -> Permutation (tresults tc t (Some b) cs1) (tresults tc t (Some b) cs2)).
  Proof.
    intros G b cs1 cs2 c. rewrite !tfinal_fixed, !tstep_fixed, !tresults_fixed; auto.
    repeat split; auto. apply Permutation_map.
  Qed.

  Lemma first_call_fixes_b_lemma tc t : t_guard tc t = true ->
    forall c0 cs, t_sets tc t (fst c0) = true -> amax (snd c0) <> 0%Z ->
      tfinal tc t None (c0 :: cs) = Some (amax (snd c0)) /\
      tresults tc t None (c0 :: cs) = map (tpure tc t (amax (snd c0))) (c0 :: cs).
  Proof.
    intros G [cl x] cs S NZ. simpl in S, NZ.
    assert (E : tstep tc t None (cl, x) = (Some (amax x), tpure tc t (amax x) (cl, x))).
    { unfold C19_model.tstep, C19_model.tpure, C19_model.tcanon. simpl. rewrite S.
      destruct (Z.eqb (amax x) 0) eqn:Z0; [apply Z.eqb_eq in Z0; contradiction | reflexivity]. }
    change (tfinal tc t None ((cl, x) :: cs)) with (tfinal tc t (fst (tstep tc t None (cl, x))) cs).
    change (tresults tc t None ((cl, x) :: cs))
      with (snd (tstep tc t None (cl, x)) :: tresults tc t (fst (tstep tc t None (cl, x))) cs).
    rewrite E. cbn [fst snd]. rewrite tfinal_fixed, tresults_fixed; auto.
  Qed.

  (* every call whose result depends on the scale also stores it ("infers its scale from the first grid it sees") *)
  Definition scale_discipline (tc : tcfg) (t : tkind) : Prop := forall cl, t_uses tc t cl = true -> t_sets tc t cl = true.

  (* then, whatever the order of the calls and whether b was given or inferred, every result in a history is a
     function of the call alone (one scale ob for the whole life of the object): the same call returns the same value
     wherever it occurs *)
  Lemma results_function_of_call_lemma tc t : t_guard tc t = true -> scale_discipline tc t ->
    forall b0 cs, (forall r, In r (tresults tc t b0 cs) -> r <> TErr) ->
    exists ob, tresults tc t b0 cs = map (tcanon tc t ob) cs /\ (forall b, b0 = Some b -> ob = Some b).
  Proof.
    intros G D b0 cs. destruct b0 as [b|].
    - intros _. exists (Some b). split; [now rewrite tresults_fixed | intros b' E; now inversion E].
    - induction cs as [|[cl x] r IH]; intros NE.
      + exists None. split; [reflexivity | discriminate].
      + change (tresults tc t None ((cl, x) :: r))
          with (snd (tstep tc t None (cl, x)) :: tresults tc t (fst (tstep tc t None (cl, x))) r) in *.
        destruct (t_sets tc t cl) eqn:S.
        * assert (E : tstep tc t None (cl, x) = (Some (amax x), if Z.eqb (amax x) 0 then TErr else TVal (F t cl (Some (amax x)) x))).
          { unfold C19_model.tstep. rewrite S. destruct (Z.eqb (amax x) 0); reflexivity. }
          rewrite E in *. cbn [fst snd] in *. destruct (Z.eqb (amax x) 0) eqn:Z0.
          -- exfalso. apply (NE TErr); [left; reflexivity | reflexivity].
          -- exists (Some (amax x)). split; [|discriminate]. rewrite tresults_fixed; auto. simpl. f_equal.
             unfold C19_model.tcanon. simpl. now rewrite S.
        * assert (U : t_uses tc t cl = false).
          { destruct (t_uses tc t cl) eqn:U; auto. rewrite (D cl U) in S. discriminate. }
          assert (E : tstep tc t None (cl, x) = (None, TVal (F t cl None x))).
          { unfold C19_model.tstep. rewrite S, U. reflexivity. }
          rewrite E in *. cbn [fst snd] in *.
          destruct IH as (ob & Hob & _); [intros r0 Hr; apply NE; right; exact Hr|].
          exists ob. split; [|discriminate]. simpl. rewrite Hob. f_equal.
          unfold C19_model.tcanon. simpl. now rewrite S, U.
  Qed.
End BProofs.

(* a call that uses an inferred scale without storing it breaks the property: the same call returns two values *)
Lemma scale_used_not_kept_refuted_lemma tc t cl : t_guard tc t = true -> t_uses tc t cl = true -> t_sets tc t cl = false ->
  t_sets tc t CTransform = true ->
  exists c1 c2, let rs := tresults (option Z) (fun _ _ b _ => b) tc t None [c1; c2; c1] in
                nth 0 rs TErr <> nth 2 rs TErr.
Proof.
  intros G U S T. exists (cl, [2]%Z), (CTransform, [5]%Z).
  assert (N : cl <> CTransform) by (intros ->; congruence).
  cbn. rewrite !S, !U. cbn. rewrite !T. cbn. rewrite ?G, ?S, ?U. cbn. discriminate.
Qed.

Lemma b_unfixed_is_order_dependent_lemma :
  exists c1 c2, tfinal unit (fun _ _ _ _ => tt) tcfg_pinned TLinearInf None [c1; c2]
             <> tfinal unit (fun _ _ _ _ => tt) tcfg_pinned TLinearInf None [c2; c1].
Proof. exists (CTransform, [1; 3]%Z), (CTransform, [2; 5]%Z). vm_compute. discriminate. Qed.

(* without the "only when b is None" guard the property fails (why the extractor insists on the guard) *)
Lemma b_unguarded_refuted_lemma tc t : t_guard tc t = false -> t_sets tc t CTransform = true ->
  exists b c1 c2, tfinal unit (fun _ _ _ _ => tt) tc t (Some b) [c1] <> tfinal unit (fun _ _ _ _ => tt) tc t (Some b) [c2].
Proof.
  intros G S. exists 7%Z, (CTransform, [1; 3]%Z), (CTransform, [2; 5]%Z).
  simpl. unfold tstep. rewrite S, G. simpl. discriminate.
Qed.

(* ================================================================ the hypotheses are satisfiable / the statements are not vacuous *)
Example ex_iso_satisfiable : values_ok cfg_fixed Maxdet KW = true /\ iso cfg_fixed Maxdet KW = true
  /\ values_ok cfg_pinned Lebedev KW = true /\ iso cfg_pinned Lebedev KW = true /\ iso cfg_pinned Maxdet KW = false.
Proof. repeat split. Qed.

Example ex_separated_nontrivial :
  let s := run cfg_fixed [Construct Maxdet 5 true; MutW 0 0; Construct Maxdet 5 false; MkAtom Maxdet [3; 5]; Shell 2 1] in
  separated_b s Maxdet KW = true /\ length (cache s) = 2 /\ length (objs s) = 4
  /\ observe cfg_fixed s Maxdet 5 KW = shipped Maxdet 5 KW
  /\ separated_b (run cfg_pinned [Construct Maxdet 5 true]) Maxdet KW = false.
Proof. vm_compute. repeat split. Qed.

Example ex_b_machine :
  t_guard tcfg_pinned TExp = true /\
  tstates unit (fun _ _ _ _ => tt) tcfg_pinned TLinearInf None
     [(CDeriv2, [9]%Z); (CInverse, [2; 4]%Z); (CTransform, [1; 8]%Z)] = [None; Some 4%Z; Some 4%Z] /\
  map is_err (tresults unit (fun _ _ _ _ => tt) tcfg_pinned TExp None [(CTransform, [0; 0]%Z); (CDeriv, [3]%Z)]) = [true; false].
Proof. vm_compute. repeat split. Qed.
