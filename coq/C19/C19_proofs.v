(* C19 — proofs.  Part A: heap model of the caches; Part B: the inferred scale b. *)
From Coq Require Import List Arith Bool ZArith Lia Permutation.
From P Require Import C19_model.
Import ListNotations.

(* ================================================================ lists / heap *)
Lemma lset_length {A} (l : list A) n x : length (lset l n x) = length l.
Proof. revert n; induction l; intros [|n]; simpl; auto. Qed.

Lemma nth_lset_same {A} (l : list A) n x d : n < length l -> nth n (lset l n x) d = x.
Proof. revert n; induction l; intros [|n] H; simpl in *; try lia; auto. apply IHl; lia. Qed.

Lemma nth_lset_other {A} (l : list A) n n' x d : n <> n' -> nth n' (lset l n x) d = nth n' l d.
Proof.
  revert n n'; induction l; intros [|n] [|n'] H; simpl; auto; try congruence.
Qed.

Lemma In_lset {A} (l : list A) n x y : In y (lset l n x) -> y = x \/ In y l.
Proof.
  revert n; induction l; intros [|n] H; simpl in *; auto.
  - destruct H; auto.
  - destruct H; auto. apply IHl in H; tauto.
Qed.

Definition grows (s s' : state) : Prop :=
  (exists ex, heap s' = heap s ++ ex) /\ cache s' = cache s /\ objs s' = objs s.

Lemma grows_refl s : grows s s.
Proof. split; [exists []; now rewrite app_nil_r | auto]. Qed.

Lemma grows_trans a b c : grows a b -> grows b c -> grows a c.
Proof.
  intros ((x & Hx) & C1 & O1) ((y & Hy) & C2 & O2). split; [|split; congruence].
  exists (x ++ y). rewrite Hy, Hx, app_assoc. reflexivity.
Qed.

Lemma prefix_len (h h' : list val) : (exists ex, h' = h ++ ex) -> length h <= length h'.
Proof. intros (x & ->). rewrite app_length. lia. Qed.

Lemma prefix_nth (h h' : list val) l : (exists ex, h' = h ++ ex) -> l < length h -> nth l h' [] = nth l h [].
Proof. intros (x & ->) H. now rewrite app_nth1. Qed.

Lemma prefix_trans (a b c : list val) : (exists x, b = a ++ x) -> (exists y, c = b ++ y) -> exists z, c = a ++ z.
Proof. intros (x & ->) (y & ->). exists (x ++ y). now rewrite app_assoc. Qed.

Lemma grows_len s s' : grows s s' -> length (heap s) <= length (heap s').
Proof. intros (H & _). now apply prefix_len. Qed.

Lemma grows_hget s s' l : grows s s' -> l < length (heap s) -> hget s' l = hget s l.
Proof. intros (H & _) Hl. unfold hget. now apply prefix_nth. Qed.

Lemma alloc_spec v s l s' : alloc v s = (l, s') ->
  grows s s' /\ l = length (heap s) /\ length (heap s') = S (length (heap s)) /\ hget s' l = v.
Proof.
  unfold alloc. intros H. inversion H; subst; clear H. split; [|split; [|split]]; auto.
  - split; simpl; auto. now exists [v].
  - simpl. rewrite app_length. simpl. lia.
  - unfold hget. simpl. rewrite app_nth2 by lia. now rewrite Nat.sub_diag.
Qed.

Lemma vmode_ref v : vmode XRef v = v.
Proof. unfold vmode. simpl. apply map_id. Qed.

Lemma vmode_single x b : vmode x [b] = [Nat.iter (nsc x) Scale4pi b].
Proof. reflexivity. Qed.

Lemma mat_spec x l s l' s' : l < length (heap s) -> mat x l s = (l', s') ->
  grows s s' /\ l' < length (heap s') /\ hget s' l' = vmode x (hget s l) /\
  ((x = XRef /\ l' = l /\ s' = s) \/
   (is_ref x = false /\ l' = length (heap s) /\ length (heap s') = S (length (heap s)))).
Proof.
  intros Hl H. destruct x as [|n]; simpl in H.
  - inversion H; subst. split; [apply grows_refl|]. split; auto. split; [now rewrite vmode_ref|]. left; auto.
  - apply alloc_spec in H. destruct H as (G & -> & L & V). split; auto. split; [lia|]. split; auto.
Qed.

(* ================================================================ build1 / construct_ang *)
Lemma iter_plus {A} (f : A -> A) a b x : Nat.iter a f (Nat.iter b f x) = Nat.iter (a + b) f x.
Proof. induction a; simpl; congruence. Qed.

Lemma build1_spec cf m d k c hit s i st s' :
  (forall cl, hit = Some cl -> cl < length (heap s)) ->
  build1 cf m d k c hit s = ((i, st), s') ->
  grows s s' /\ i < length (heap s') /\
  (forall cl, hit = Some cl -> st = None /\ hget s' i = vmode (c_hit cf m k) (hget s cl) /\
        ((is_ref (c_hit cf m k) = true /\ i = cl) \/ length (heap s) <= i)) /\
  (hit = None -> length (heap s) <= i /\
        hget s' i = [Nat.iter (if c then nsc_i cf m k else nsc (c_missn cf m k)) Scale4pi (Ship m d k)] /\
        (c = false -> st = None) /\
        (c = true -> exists x, st = Some x /\ length (heap s) <= x < length (heap s') /\
                     hget s' x = vmode (c_store cf m k) [Ship m d k] /\ (iso cf m k = true -> i <> x))).
Proof.
  intros Hhit H. unfold build1 in H. destruct hit as [cl|].
  - destruct (mat (c_hit cf m k) cl s) as [i0 s1] eqn:M. inversion H; subst; clear H.
    apply mat_spec in M; [|now apply Hhit]. destruct M as (G & L & V & D).
    split; auto. split; auto. split; [|discriminate].
    intros cl' E. inversion E; subst cl'. split; auto. split; auto.
    destruct D as [(-> & -> & ->)|(R & -> & _)]; [left; auto | right; lia].
  - destruct (alloc [Ship m d k] s) as [l s1] eqn:A. apply alloc_spec in A. destruct A as (G1 & -> & L1 & V1).
    destruct c.
    + destruct (mat (c_store cf m k) (length (heap s)) s1) as [x s2] eqn:M1.
      apply mat_spec in M1; [|lia]. destruct M1 as (G2 & Lx & Vx & Dx).
      assert (Hl2 : hget s2 (length (heap s)) = [Ship m d k]) by (rewrite (grows_hget s1 s2); auto; lia).
      assert (Hx : length (heap s) <= x) by (destruct Dx as [(_ & -> & _)|(_ & -> & _)]; lia).
      unfold nsc_i, iso. destruct (c_missc cf m k) as [|xm] eqn:MC.
      * inversion H; subst; clear H. split; [eapply grows_trans; eauto|]. split; auto.
        split; [discriminate|]. intros _. split; auto. rewrite Vx, V1. split; [reflexivity|].
        split; [discriminate|]. intros _. exists i. split; auto. split; [lia|]. split; [now rewrite Vx, V1|].
        rewrite andb_false_r. discriminate.
      * destruct (mat xm (length (heap s)) s2) as [i0 s3] eqn:M2. inversion H; subst; clear H.
        apply mat_spec in M2; [|pose proof (grows_len _ _ G2); lia].
        destruct M2 as (G3 & Li & Vi & Di).
        split; [eapply grows_trans; [eauto|eapply grows_trans; eauto]|]. split; auto.
        split; [discriminate|]. intros _.
        split; [destruct Di as [(_ & -> & _)|(_ & -> & _)]; pose proof (grows_len _ _ G2); lia|].
        split; [rewrite Vi, Hl2; reflexivity|]. split; [discriminate|]. intros _.
        exists x. split; auto. split; [pose proof (grows_len _ _ G3); lia|].
        split; [rewrite (grows_hget s2 s'); auto; now rewrite Vx, V1|].
        intros I E. subst x.
        destruct Di as [(-> & -> & ->)|(Ri & -> & _)].
        -- destruct Dx as [(Es & _ & _)|(Rs & Ex & _)].
           ++ rewrite Es in I. simpl in I. rewrite andb_false_r in I. discriminate.
           ++ lia.
        -- lia.
    + destruct (mat (c_missn cf m k) (length (heap s)) s1) as [i0 s2] eqn:M1. inversion H; subst; clear H.
      apply mat_spec in M1; [|lia]. destruct M1 as (G2 & Li & Vi & Di).
      split; [eapply grows_trans; eauto|]. split; auto. split; [discriminate|]. intros _.
      split; [destruct Di as [(_ & -> & _)|(_ & -> & _)]; lia|].
      split; [now rewrite Vi, V1|]. split; auto. discriminate.
Qed.

(* ---------------------------------------------------------------- well-formedness, cleanliness *)
Definition wf (s : state) : Prop :=
  Forall (fun l => l < length (heap s)) (clocs s) /\ Forall (fun l => l < length (heap s)) (olocs s) /\ NoDup (clocs s).
Definition clean (cf : cfg) (s : state) (m : method) (k : kind) : Prop :=
  forall e, In e (cache s) -> e_m e = m -> hget s (e_loc k e) = vmode (c_store cf m k) [Ship m (e_d e) k].

Lemma in_clocs s e k : In e (cache s) -> In (e_loc k e) (clocs s).
Proof.
  intros H. unfold clocs. apply in_flat_map. exists e. split; auto. destruct k; simpl; auto.
Qed.

Lemma in_olocs s o k : In o (objs s) -> In (o_loc k o) (olocs s).
Proof.
  intros H. unfold olocs. apply in_flat_map. exists o. split; auto. destruct k; simpl; auto.
Qed.

Lemma wf_cloc s e k : wf s -> In e (cache s) -> e_loc k e < length (heap s).
Proof. intros (H & _) He. rewrite Forall_forall in H. apply H. now apply in_clocs. Qed.

Lemma lookup_in m d c e : lookup m d c = Some e -> In e c /\ e_m e = m /\ e_d e = d.
Proof.
  induction c as [|a r IH]; simpl; [discriminate|].
  destruct (method_eqb (e_m a) m && Nat.eqb (e_d a) d) eqn:E.
  - intros H; inversion H; subst. apply andb_prop in E. destruct E as (E1 & E2).
    split; auto. split; [|now apply Nat.eqb_eq].
    destruct (e_m e), m; simpl in E1; congruence.
  - intros H. apply IH in H. tauto.
Qed.

Lemma clocs_app s e : clocs (add_cache e s) = clocs s ++ [e_p e; e_w e].
Proof. unfold clocs, add_cache. simpl. rewrite flat_map_app. simpl. reflexivity. Qed.

(* locations of distinct (entry, kind) pairs are distinct *)
Lemma nodup_flat (c : list centry) e e' k k' :
  NoDup (flat_map (fun e => [e_p e; e_w e]) c) -> In e c -> In e' c ->
  sel k (e_p e) (e_w e) = sel k' (e_p e') (e_w e') -> e = e' /\ k = k'.
Proof.
  induction c as [|a r IH]; simpl; [tauto|]. intros ND He He'.
  inversion ND as [|x l N1 ND1]; subst. inversion ND1 as [|x l N2 ND2]; subst.
  assert (Hin : forall z kk, In z r -> In (sel kk (e_p z) (e_w z)) (flat_map (fun e => [e_p e; e_w e]) r)).
  { intros z kk Hz. apply in_flat_map. exists z. split; auto. destruct kk; simpl; auto. }
  intros E. destruct He as [->|He], He' as [->|He'].
  - split; auto. destruct k, k'; simpl in E; auto; exfalso; apply N1; simpl; auto.
  - exfalso. pose proof (Hin e' k' He') as Hi. rewrite <- E in Hi.
    destruct k; simpl in Hi; [apply N1; simpl; auto | apply N2; auto].
  - exfalso. pose proof (Hin e k He) as Hi. rewrite E in Hi.
    destruct k'; simpl in Hi; [apply N1; simpl; auto | apply N2; auto].
  - apply IH; auto.
Qed.

Lemma nodup_snoc2 {A} (l : list A) a b : NoDup l -> ~ In a l -> ~ In b l -> a <> b -> NoDup (l ++ [a; b]).
Proof.
  induction l as [|x r IH]; simpl; intros N Ha Hb Hab.
  - constructor; [simpl; intuition congruence|]. constructor; auto.
  - inversion N; subst. constructor.
    + rewrite in_app_iff. simpl. intuition.
    + apply IH; auto.
Qed.

(* library-internal transition: the heap only grows, objects are untouched, new cache entries are fresh *)
Definition lib (cf : cfg) (s s' : state) : Prop :=
  (exists ex, heap s' = heap s ++ ex) /\ objs s' = objs s /\
  (forall e, In e (cache s') -> In e (cache s) \/ (length (heap s) <= e_p e /\ length (heap s) <= e_w e)) /\
  wf s' /\ (forall m k, clean cf s m k -> clean cf s' m k).

Lemma lib_refl cf s : wf s -> lib cf s s.
Proof. intros W. split; [exists []; now rewrite app_nil_r|]. split; auto. Qed.

Lemma lib_trans cf a b c : lib cf a b -> lib cf b c -> lib cf a c.
Proof.
  intros (P1 & O1 & N1 & W1 & C1) (P2 & O2 & N2 & W2 & C2).
  split; [eapply prefix_trans; eauto|]. split; [congruence|]. split; [|split; auto].
  intros e He. apply N2 in He. destruct He as [He|He]; [now apply N1|].
  right. pose proof (prefix_len _ _ P1). lia.
Qed.

Lemma grows_lib cf s s' : wf s -> grows s s' -> lib cf s s'.
Proof.
  intros (W1 & W2 & W3) G. pose proof (grows_len _ _ G) as L. destruct G as (P & C & O).
  split; auto. split; auto. split; [intros e He; left; congruence|]. split.
  - unfold wf, clocs, olocs. rewrite C, O. repeat split; auto;
      eapply Forall_impl; [| eassumption | | eassumption]; simpl; intros; lia.
  - intros m k Cl e He Hm. rewrite C in He. rewrite <- (Cl e He Hm).
    unfold hget. apply prefix_nth; auto.
    rewrite Forall_forall in W1. apply W1. unfold clocs. apply in_flat_map. exists e. split; auto.
    destruct k; simpl; auto.
Qed.

Lemma lib_alloc cf v s l s' : wf s -> alloc v s = (l, s') -> lib cf s s'.
Proof. intros W A. apply alloc_spec in A. apply grows_lib; tauto. Qed.

Lemma values_hit cf m d k v :
  values_ok cf m k = true -> v = vmode (c_store cf m k) [Ship m d k] -> vmode (c_hit cf m k) v = shipped m d k.
Proof.
  unfold values_ok. intros H ->. apply andb_prop in H. destruct H as (_ & H). apply Nat.eqb_eq in H.
  unfold shipped, shipped_b. rewrite <- H. rewrite !vmode_single, iter_plus. f_equal. f_equal. lia.
Qed.

Lemma construct_ang_spec cf m d c s ip iw s' : wf s -> construct_ang cf m d c s = ((ip, iw), s') ->
  lib cf s s' /\ ip < length (heap s') /\ iw < length (heap s') /\
  (forall k, length (heap s) <= sel k ip iw \/
             (exists e, In e (cache s) /\ e_m e = m /\ e_d e = d /\ sel k ip iw = e_loc k e /\ iso cf m k = false)) /\
  (cache s' = cache s \/
   exists e, cache s' = cache s ++ [e] /\ e_m e = m /\
        e_p e <> iw /\ e_w e <> ip /\ (forall k, iso cf m k = true -> e_loc k e <> sel k ip iw)) /\
  (forall k, values_ok cf m k = true -> clean cf s m k -> hget s' (sel k ip iw) = shipped m d k).
Proof.
  intros W H. unfold construct_ang in H.
  destruct (build1 cf m d KP c (option_map e_p (lookup m d (cache s))) s) as [[ip0 cp] s1] eqn:B1.
  destruct (build1 cf m d KW c (option_map e_w (lookup m d (cache s))) s1) as [[iw0 cw] s2] eqn:B2.
  injection H as E1 E2 Hs'. subst ip0 iw0.
  assert (Hh1 : forall cl, option_map e_p (lookup m d (cache s)) = Some cl -> cl < length (heap s)).
  { intros cl E. destruct (lookup m d (cache s)) as [e|] eqn:Lk; simpl in E; [|discriminate].
    inversion E; subst. apply lookup_in in Lk. apply (wf_cloc s e KP); tauto. }
  apply build1_spec in B1; auto. destruct B1 as (G1 & Lp & Hp & Mp).
  assert (Hh2 : forall cl, option_map e_w (lookup m d (cache s)) = Some cl -> cl < length (heap s1)).
  { intros cl E. destruct (lookup m d (cache s)) as [e|] eqn:Lk; simpl in E; [|discriminate].
    inversion E; subst. apply lookup_in in Lk. pose proof (grows_len _ _ G1).
    pose proof (wf_cloc s e KW W (proj1 Lk)). simpl in *. unfold e_loc in *. simpl in *. lia. }
  apply build1_spec in B2; auto. destruct B2 as (G2 & Lw & Hw & Mw).
  pose proof (grows_len _ _ G1) as L01. pose proof (grows_len _ _ G2) as L12.
  pose proof (grows_trans _ _ _ G1 G2) as G02.
  pose proof (grows_lib cf _ _ W G02) as LB02.
  destruct (lookup m d (cache s)) as [e|] eqn:Lk; simpl in *.
  - (* hit *)
    apply lookup_in in Lk. destruct Lk as (Ine & Em & Ed).
    destruct (Hp _ eq_refl) as (-> & Vp & Dp). destruct (Hw _ eq_refl) as (-> & Vw & Dw). simpl in Hs'. subst s'.
    split; auto. split; [lia|]. split; auto. split; [|split; [left; apply G02|]].
    + intros [|]; simpl.
      * destruct Dp as [(R & ->)|]; [right|left; auto].
        exists e. repeat split; auto. unfold iso. now rewrite R.
      * destruct Dw as [(R & ->)|]; [right|left; lia].
        exists e. repeat split; auto. unfold iso. now rewrite R.
    + intros k V Cl. pose proof (Cl e Ine Em) as Ce. rewrite Ed in Ce.
      destruct k; simpl in *.
      * rewrite (grows_hget s1 s2); auto. rewrite Vp. now apply values_hit.
      * rewrite Vw. rewrite (grows_hget s s1); auto; [now apply values_hit|].
        apply (wf_cloc s e KW); auto.
  - (* miss *)
    destruct (Mp eq_refl) as (Ip & Vp & Np & Sp). destruct (Mw eq_refl) as (Iw & Vw & Nw & Sw).
    assert (Vals : forall k, values_ok cf m k = true -> hget s2 (sel k ip iw) = shipped m d k).
    { intros k V. unfold values_ok in V. apply andb_prop in V. destruct V as (V & _).
      apply andb_prop in V. destruct V as (V1 & V2). apply Nat.eqb_eq in V1, V2.
      unfold shipped, shipped_b. destruct k; simpl.
      - rewrite (grows_hget s1 s2); auto. rewrite Vp. destruct c; congruence.
      - rewrite Vw. destruct c; congruence. }
    destruct c.
    + destruct (Sp eq_refl) as (xp & -> & Bp & Xp & Ap). destruct (Sw eq_refl) as (xw & -> & Bw & Xw & Aw).
      simpl in Hs'. subst s'. set (e := {| e_m := m; e_d := d; e_p := xp; e_w := xw |}).
      destruct LB02 as (P02 & O02 & N02 & (W1 & W2 & W3) & C02).
      assert (Cs : cache s2 = cache s) by apply G02.
      assert (Wn : wf (add_cache e s2)).
      { unfold wf. rewrite clocs_app. simpl. split; [|split; auto].
        - apply Forall_app. split; auto. repeat constructor; simpl; lia.
        - apply nodup_snoc2; auto.
          + intros Hin. rewrite Forall_forall in W1. apply W1 in Hin.
            destruct W as (Wa & _). unfold clocs in Hin. admit.
          + admit.
          + simpl. lia. }
      admit.
    + rewrite (Np eq_refl) in Hs'. simpl in Hs'. subst s'.
      split; auto. split; [lia|]. split; auto. split; [|split; [left; apply G02|]].
      * intros [|]; simpl; left; lia.
      * intros k V _. now apply Vals.
Admitted.
