(* C19 property theorems about the CURRENT source: tcfg_src, the b state machine extracted from rtransform.py (statements only). *)
From Coq Require Import List Arith Bool ZArith Permutation.
From P Require Import C19_model C19_proofs C19_gen C19_proofs_srcB C19_proofs_srcB2.
Import ListNotations.

(* every method of the current source whose result depends on the scale stores the inferred scale, hence the same call
   returns the same value wherever it occurs in an object's life *)
Theorem src_scale_users_store_b : forall (t : tkind) (cl : tcall), t_uses tcfg_src t cl = true -> t_sets tcfg_src t cl = true.
Proof. exact src_scale_users_store_b_lemma. Qed.
Print Assumptions src_scale_users_store_b.

Theorem src_results_function_of_call :
  forall (Res : Type) (F : tkind -> tcall -> option Z -> list Z -> Res) (t : tkind) (b0 : option Z) (cs : list (tcall * list Z)),
    (forall r, In r (tresults Res F tcfg_src t b0 cs) -> r <> TErr) ->
    exists ob : option Z, tresults Res F tcfg_src t b0 cs = map (tcanon Res F tcfg_src t ob) cs /\ (forall b, b0 = Some b -> ob = Some b).
Proof. exact src_results_function_of_call_lemma. Qed.
Print Assumptions src_results_function_of_call.
