(* C19 property theorems about the CURRENT source: cfg_src, the aliasing configuration extracted by tools/props/c19.py from AngularGrid.__init__ and load_atomic_gaussian_params (statements only). *)
From Coq Require Import List Arith Bool ZArith Permutation.
From P Require Import C19_model C19_proofs C19_gen C19_proofs_srcA C19_proofs_srcA2.
Import ListNotations.

(* ---- the current source: no array protected at the pinned commit has become reachable from the caches *)
Theorem src_no_new_alias : forall (m : method) (k : kind), iso cfg_pinned m k = true -> iso cfg_src m k = true.
Proof. exact src_no_new_alias_lemma. Qed.
Print Assumptions src_no_new_alias.

Theorem src_scaled_weights_refine_spec : forall (h : list op) (d : nat),
  observe cfg_src (run cfg_src h) Lebedev d KW = shipped Lebedev d KW /\
  observe cfg_src (run cfg_src h) Spherical d KW = shipped Spherical d KW.
Proof. exact src_scaled_weights_lemma. Qed.
Print Assumptions src_scaled_weights_refine_spec.

