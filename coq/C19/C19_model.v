(* C19 — caches and remembered parameters: executable model (no proofs in this file).

   Part A.  A heap model of the module-level caches of grid.angular (LEBEDEV_CACHE, SPHERICAL_CACHE,
   MAX_DET_CACHE, AHRENS_BEYLKIN_CACHE) and of grid.coulomb._ATOMIC_GAUSS_PARAMS_CACHE (treated as a
   fifth "method" whose degree is the atomic number, points = coeffs_s, weights = alphas_s).
   Arrays live at heap locations; an array VALUE is a list of symbolic blocks.  The aliasing between the
   array loaded from the data file, the array kept in the cache and the array handed to the returned object
   is a parameter [cfg] of the model; the harness regenerates [cfg_src] from AngularGrid.__init__ /
   load_atomic_gaussian_params on every run (C19_gen.v).

   Part B.  The state machine of the inferred scale b of LinearInfiniteRTransform / ExpRTransform /
   PowerRTransform. *)
From Coq Require Import List Arith Bool ZArith.
Import ListNotations.

(* ================================================================ Part A: symbolic array values *)
Inductive method := Lebedev | Spherical | Maxdet | Ahrens | Coulomb.
Inductive kind := KP | KW.                      (* points / weights   (coeffs_s / alphas_s for Coulomb) *)

Inductive bval :=
| Ship (m : method) (d : nat) (k : kind)        (* the data shipped in the file for (method, degree) *)
| Scale4pi (v : bval)                           (* v * 4 * pi : a new array *)
| Filled (tag : nat)                            (* overwritten by the caller (edit number tag) *)
| Rad (v : bval).                               (* radial scaling / rotation of an angular block (atomic grids) *)
Definition val := list bval.                    (* one block per angular shell; angular grids have one block *)

Definition method_eqb (a b : method) : bool :=
  match a, b with
  | Lebedev, Lebedev | Spherical, Spherical | Maxdet, Maxdet | Ahrens, Ahrens | Coulomb, Coulomb => true
  | _, _ => false
  end.
Definition kind_eqb (a b : kind) : bool := match a, b with KP, KP | KW, KW => true | _, _ => false end.
Fixpoint bval_eqb (a b : bval) : bool :=
  match a, b with
  | Ship m d k, Ship m' d' k' => method_eqb m m' && Nat.eqb d d' && kind_eqb k k'
  | Scale4pi v, Scale4pi v' => bval_eqb v v'
  | Filled t, Filled t' => Nat.eqb t t'
  | Rad v, Rad v' => bval_eqb v v'
  | _, _ => false
  end.
Fixpoint list_eqb {A B} (e : A -> B -> bool) (a : list A) (b : list B) : bool :=
  match a, b with [], [] => true | x :: r, y :: s => e x y && list_eqb e r s | _, _ => false end.
Definition val_eqb : val -> val -> bool := list_eqb bval_eqb.

(* the specification: a pure function of (method, degree, kind).  The 4 pi normalisation is part of the
   weights of Lebedev and spherical t-design grids (class docstring), not of maxdet / ahrens_beylkin. *)
Definition spec_n (m : method) (k : kind) : nat :=
  match m, k with Lebedev, KW | Spherical, KW => 1 | _, _ => 0 end.
Definition shipped_b (m : method) (d : nat) (k : kind) : bval := Nat.iter (spec_n m k) Scale4pi (Ship m d k).
Definition shipped (m : method) (d : nat) (k : kind) : val := [shipped_b m d k].

(* ================================================================ aliasing configuration *)
Inductive xmode := XRef | XFresh (n : nat).     (* the same array object / a new array carrying n factors 4 pi *)
Inductive imode := IAliasCache | IOf (x : xmode).  (* instance array on a caching miss: the array just stored in the
                                                   cache, or an expression over the loaded array *)
Record cfg := {
  c_store : method -> kind -> xmode;            (* miss, cache=True : cache entry relative to the loaded array *)
  c_missc : method -> kind -> imode;            (* miss, cache=True : instance array *)
  c_missn : method -> kind -> xmode;            (* miss, cache=False: instance array relative to the loaded array *)
  c_hit   : method -> kind -> xmode;            (* hit: instance array relative to the cache entry *)
  c_libcache : bool                             (* cache flag used by the library's own AngularGrid(...) calls *)
}.
Definition nsc (x : xmode) : nat := match x with XRef => 0 | XFresh n => n end.
Definition is_ref (x : xmode) : bool := match x with XRef => true | _ => false end.
Definition nsc_i (cf : cfg) (m : method) (k : kind) : nat :=
  match c_missc cf m k with IAliasCache => nsc (c_store cf m k) | IOf x => nsc x end.

(* every route delivers the shipped values *)
Definition values_ok (cf : cfg) (m : method) (k : kind) : bool :=
  Nat.eqb (nsc_i cf m k) (spec_n m k) && Nat.eqb (nsc (c_missn cf m k)) (spec_n m k)
  && Nat.eqb (nsc (c_store cf m k) + nsc (c_hit cf m k)) (spec_n m k).
(* no route hands the cache's own array to the caller ("copy at the cache boundary") *)
Definition iso (cf : cfg) (m : method) (k : kind) : bool :=
  negb (is_ref (c_hit cf m k))
  && match c_missc cf m k with
     | IAliasCache => false
     | IOf x => negb (is_ref x && is_ref (c_store cf m k))
     end.

(* ================================================================ heap, caches, objects *)
Definition loc := nat.
Record centry := { e_m : method; e_d : nat; e_p : loc; e_w : loc }.
Inductive odesc := DAng | DAtom (m : method) (ds : list nat) | DOther.
Record obj := { o_p : loc; o_w : loc; o_desc : odesc }.
Record state := { heap : list val; cache : list centry; objs : list obj }.
Definition init : state := {| heap := []; cache := []; objs := [] |}.

Definition sel {A} (k : kind) (p w : A) : A := match k with KP => p | KW => w end.
Definition e_loc (k : kind) (e : centry) : loc := sel k (e_p e) (e_w e).
Definition o_loc (k : kind) (o : obj) : loc := sel k (o_p o) (o_w o).

Definition hget (s : state) (l : loc) : val := nth l (heap s) [].
Fixpoint lset {A} (l : list A) (n : nat) (x : A) : list A :=
  match l, n with
  | [], _ => []
  | _ :: t, O => x :: t
  | h :: t, S n' => h :: lset t n' x
  end.
Definition hset (s : state) (l : loc) (v : val) : state :=
  {| heap := lset (heap s) l v; cache := cache s; objs := objs s |}.
Definition alloc (v : val) (s : state) : loc * state :=
  (length (heap s), {| heap := heap s ++ [v]; cache := cache s; objs := objs s |}).
Definition add_cache (e : centry) (s : state) : state :=
  {| heap := heap s; cache := cache s ++ [e]; objs := objs s |}.
Definition add_obj (o : obj) (s : state) : state :=
  {| heap := heap s; cache := cache s; objs := objs s ++ [o] |}.
Definition set_obj (i : nat) (o : obj) (s : state) : state :=
  {| heap := heap s; cache := cache s; objs := lset (objs s) i o |}.

Definition vmode (x : xmode) (v : val) : val := map (Nat.iter (nsc x) Scale4pi) v.
(* materialise "expression of mode x over the array at l" *)
Definition mat (x : xmode) (l : loc) (s : state) : loc * state :=
  match x with XRef => (l, s) | XFresh _ => alloc (vmode x (hget s l)) s end.

Fixpoint lookup (m : method) (d : nat) (c : list centry) : option centry :=
  match c with
  | [] => None
  | e :: r => if method_eqb (e_m e) m && Nat.eqb (e_d e) d then Some e else lookup m d r
  end.

(* one array of the (points, weights) pair; returns (instance location, location put in the cache) *)
Definition build1 (cf : cfg) (m : method) (d : nat) (k : kind) (c : bool) (hit : option loc) (s : state)
  : (loc * option loc) * state :=
  match hit with
  | Some cl => let '(i, s1) := mat (c_hit cf m k) cl s in ((i, None), s1)
  | None =>
      let '(l, s1) := alloc [Ship m d k] s in               (* np.load: a new array *)
      if c then
        let '(x, s2) := mat (c_store cf m k) l s1 in
        let '(i, s3) := match c_missc cf m k with
                        | IAliasCache => (x, s2)
                        | IOf xm => mat xm l s2
                        end in
        ((i, Some x), s3)
      else
        let '(i, s2) := mat (c_missn cf m k) l s1 in ((i, None), s2)
  end.

(* AngularGrid(degree=d, method=m, cache=c) / load_atomic_gaussian_params(d):
   locations of the returned object's arrays *)
Definition construct_ang (cf : cfg) (m : method) (d : nat) (c : bool) (s : state) : (loc * loc) * state :=
  let e := lookup m d (cache s) in
  let '((ip, cp), s1) := build1 cf m d KP c (option_map e_p e) s in
  let '((iw, cw), s2) := build1 cf m d KW c (option_map e_w e) s1 in
  let s3 := match cp, cw with
            | Some a, Some b => add_cache {| e_m := m; e_d := d; e_p := a; e_w := b |} s2
            | _, _ => s2
            end in
  ((ip, iw), s3).

(* _generate_atomic_grid: per shell, build the angular grid (through the cache), read it, scale it *)
Fixpoint atom_shells (cf : cfg) (m : method) (ds : list nat) (s : state) : (val * val) * state :=
  match ds with
  | [] => (([], []), s)
  | d :: r =>
      let '((ip, iw), s1) := construct_ang cf m d (c_libcache cf) s in
      let bp := map Rad (hget s1 ip) in
      let bw := map Rad (hget s1 iw) in
      let '((ps, ws), s2) := atom_shells cf m r s1 in
      ((bp ++ ps, bw ++ ws), s2)
  end.

Inductive op :=
| Construct (m : method) (d : nat) (c : bool)   (* g = AngularGrid(degree=d, method=m, cache=c)   [object returned] *)
| Touch (m : method) (d : nat)                  (* the library builds AngularGrid(d, m) internally and drops it *)
| MutP (o : nat) (tag : nat)                    (* objs[o].points[...] = c_tag    (in place) *)
| MutW (o : nat) (tag : nat)
| SetP (o : nat) (tag : nat)                    (* objs[o].points = new array     (attribute reassignment) *)
| SetW (o : nat) (tag : nat)
| MkAtom (m : method) (ds : list nat)           (* AtomGrid(rgrid, degrees=ds, method=m[, rotate]) *)
| Shell (a : nat) (i : nat)                     (* objs[a].get_shell_grid(i) *)
| MkMol (l : list nat).                         (* MolGrid(atnums, [objs[j] for j in l], aim_weights) *)

Definition fill (tag : nat) (v : val) : val := map (fun _ => Filled tag) v.

Definition mut (k : kind) (o tag : nat) (s : state) : state :=
  match nth_error (objs s) o with
  | Some ob => hset s (o_loc k ob) (fill tag (hget s (o_loc k ob)))
  | None => s
  end.
Definition setattr (k : kind) (o tag : nat) (s : state) : state :=
  match nth_error (objs s) o with
  | Some ob =>
      let '(l, s1) := alloc (fill tag (hget s (o_loc k ob))) s in
      set_obj o {| o_p := sel k l (o_p ob); o_w := sel k (o_w ob) l; o_desc := o_desc ob |} s1
  | None => s
  end.

Definition step (cf : cfg) (s : state) (o : op) : state :=
  match o with
  | Construct m d c =>
      let '((ip, iw), s1) := construct_ang cf m d c s in
      add_obj {| o_p := ip; o_w := iw; o_desc := DAng |} s1
  | Touch m d => snd (construct_ang cf m d (c_libcache cf) s)
  | MutP o tag => mut KP o tag s
  | MutW o tag => mut KW o tag s
  | SetP o tag => setattr KP o tag s
  | SetW o tag => setattr KW o tag s
  | MkAtom m ds =>
      let '((ps, ws), s1) := atom_shells cf m ds s in
      let '(lp, s2) := alloc ps s1 in
      let '(lw, s3) := alloc ws s2 in
      add_obj {| o_p := lp; o_w := lw; o_desc := DAtom m ds |} s3
  | Shell a i =>
      match nth_error (objs s) a with
      | Some {| o_desc := DAtom m ds |} =>
          match nth_error ds i with
          | Some d =>
              let '((ip, iw), s1) := construct_ang cf m d (c_libcache cf) s in
              let '(lp, s2) := alloc (map Rad (hget s1 ip)) s1 in
              let '(lw, s3) := alloc (map Rad (hget s1 iw)) s2 in
              add_obj {| o_p := lp; o_w := lw; o_desc := DOther |} s3
          | None => s
          end
      | _ => s
      end
  | MkMol l =>
      let get k := flat_map (fun j => match nth_error (objs s) j with
                                      | Some ob => hget s (o_loc k ob) | None => [] end) l in
      let '(lp, s1) := alloc (get KP) s in
      let '(lw, s2) := alloc (get KW) s1 in
      add_obj {| o_p := lp; o_w := lw; o_desc := DOther |} s2
  end.

Definition run (cf : cfg) (h : list op) : state := fold_left (step cf) h init.

(* the observation: build the grid once more (caching on) and read it *)
Definition observe (cf : cfg) (s : state) (m : method) (d : nat) (k : kind) : val :=
  let '((ip, iw), s1) := construct_ang cf m d true s in hget s1 (sel k ip iw).
Definition observe_atom (cf : cfg) (s : state) (m : method) (ds : list nat) (k : kind) : val :=
  let '((ps, ws), _) := atom_shells cf m ds s in sel k ps ws.
Definition atom_shipped (m : method) (ds : list nat) (k : kind) : val :=
  map (fun d => Rad (shipped_b m d k)) ds.

(* ---------------------------------------------------------------- invariants (statements used by the theorems) *)
Definition clocs (s : state) : list loc := flat_map (fun e => [e_p e; e_w e]) (cache s).
Definition olocs (s : state) : list loc := flat_map (fun o => [o_p o; o_w o]) (objs s).
(* "no location stored in the (m, k) cache is reachable from a returned object" *)
Definition separated (s : state) (m : method) (k : kind) : Prop :=
  forall e, In e (cache s) -> e_m e = m -> ~ In (e_loc k e) (olocs s).
Definition separated_b (s : state) (m : method) (k : kind) : bool :=
  forallb (fun e => negb (method_eqb (e_m e) m) || negb (existsb (Nat.eqb (e_loc k e)) (olocs s))) (cache s).

(* ---------------------------------------------------------------- the two aliasing configurations written by hand *)
(* the pinned commit: cache_dict[degree] = points, weights ; points, weights = cache_dict[degree] ;
   super().__init__(points, weights) for maxdet / ahrens_beylkin, super().__init__(points, weights * 4 * np.pi)
   otherwise ; np.asarray(<list from the JSON>) for the Coulomb table *)
Definition pinned_inst (m : method) (k : kind) : xmode :=
  match m, k with
  | Coulomb, _ => XFresh 0
  | Lebedev, KW | Spherical, KW => XFresh 1
  | _, _ => XRef
  end.
Definition cfg_pinned : cfg :=
  {| c_store := fun _ _ => XRef; c_missc := fun m k => IOf (pinned_inst m k); c_missn := pinned_inst;
     c_hit := pinned_inst; c_libcache := true |}.
(* the proposed repair: copy at the cache boundary *)
Definition fixed_inst (m : method) (k : kind) : xmode := XFresh (spec_n m k).
Definition cfg_fixed : cfg :=
  {| c_store := fun _ _ => XRef; c_missc := fun m k => IOf (fixed_inst m k); c_missn := fixed_inst;
     c_hit := fixed_inst; c_libcache := true |}.

Definition xmode_eqb (a b : xmode) : bool :=
  match a, b with XRef, XRef => true | XFresh n, XFresh n' => Nat.eqb n n' | _, _ => false end.
Definition imode_eqb (a b : imode) : bool :=
  match a, b with IAliasCache, IAliasCache => true | IOf x, IOf y => xmode_eqb x y | _, _ => false end.
Definition all_methods := [Lebedev; Spherical; Maxdet; Ahrens; Coulomb].
Definition all_kinds := [KP; KW].
Definition cfg_eqb (a b : cfg) : bool :=
  forallb (fun m => forallb (fun k =>
     xmode_eqb (c_store a m k) (c_store b m k) && imode_eqb (c_missc a m k) (c_missc b m k)
     && xmode_eqb (c_missn a m k) (c_missn b m k) && xmode_eqb (c_hit a m k) (c_hit b m k)) all_kinds) all_methods
  && Bool.eqb (c_libcache a) (c_libcache b).

(* ---------------------------------------------------------------- trace checking (used by the correspondence) *)
Fixpoint unscale (v : bval) : nat * bval :=
  match v with Scale4pi w => let '(n, b) := unscale w in (S n, b) | _ => (0, v) end.
(* a block is "the shipped data" iff it is Ship m d k under exactly spec_n m k factors (possibly under Rad) *)
Fixpoint block_clean (v : bval) : bool :=
  match v with
  | Rad w => block_clean w
  | _ => match unscale v with
         | (n, Ship m d k) => Nat.eqb n (spec_n m k)
         | _ => false
         end
  end.

Inductive aobs := OExact (v : val) | OFlags (fl : list bool).
Definition match_obs (v : val) (o : aobs) : bool :=
  match o with
  | OExact v' => val_eqb v v'
  | OFlags fl => list_eqb Bool.eqb (map block_clean v) fl
  end.

(* all tracked arrays: objects (points, weights) in creation order, then cache entries in insertion order *)
Definition tracked (s : state) : list loc := olocs s ++ clocs s.
Fixpoint first_index (l : loc) (ls : list loc) (i : nat) : nat :=
  match ls with [] => i | x :: r => if Nat.eqb x l then i else first_index l r (S i) end.
Definition canon (ls : list loc) : list nat := map (fun l => first_index l ls 0) ls.

Record snapshot := { sn_vals : list aobs; sn_share : list nat; sn_keys : list (method * nat);
                     sn_int : list (nat * bool) (* obj.integrate(1) equals the clean value? *) }.
Definition snap_match (s : state) (sn : snapshot) : bool :=
  list_eqb match_obs (map (hget s) (tracked s)) (sn_vals sn)
  && list_eqb Nat.eqb (canon (tracked s)) (sn_share sn)
  && list_eqb (fun e (x : method * nat) => method_eqb (e_m e) (fst x) && Nat.eqb (e_d e) (snd x)) (cache s) (sn_keys sn)
  && forallb (fun x : nat * bool => match nth_error (objs s) (fst x) with
                                    | Some ob => Bool.eqb (forallb block_clean (hget s (o_w ob))) (snd x)
                                    | None => false end) (sn_int sn).

(* a trace: per API call, the model operations it stands for and the observation made after it *)
Fixpoint check_trace (cf : cfg) (s : state) (t : list (list op * snapshot)) : bool :=
  match t with
  | [] => true
  | (ops, sn) :: r => let s' := fold_left (step cf) ops s in snap_match s' sn && check_trace cf s' r
  end.
(* number of leading API calls whose observation matches (for locating a disagreement) *)
Fixpoint agree_prefix (cf : cfg) (s : state) (t : list (list op * snapshot)) : nat :=
  match t with
  | [] => 0
  | (ops, sn) :: r => let s' := fold_left (step cf) ops s in
                      if snap_match s' sn then S (agree_prefix cf s' r) else 0
  end.

(* does the model satisfy the property at (m, d, k) after history h ? *)
Definition refines_at (cf : cfg) (h : list op) (m : method) (d : nat) (k : kind) : bool :=
  val_eqb (observe cf (run cf h) m d k) (shipped m d k).
Definition atom_refines_at (cf : cfg) (h : list op) (m : method) (ds : list nat) (k : kind) : bool :=
  val_eqb (observe_atom cf (run cf h) m ds k) (atom_shipped m ds k).

(* ================================================================ Part B: the inferred scale b *)
Inductive tkind := TLinearInf | TExp | TPower.
Inductive tcall := CTransform | CDeriv | CDeriv2 | CDeriv3 | CInverse.
Record tcfg := {
  t_sets : tkind -> tcall -> bool;   (* the method calls set_maximum_parameter_b on its argument *)
  t_uses : tkind -> tcall -> bool;   (* the method's result depends on the scale: it reads self.b / self._b, directly or
                                        through other methods of the object (falling back to max(argument) if b is unset) *)
  t_guard : tkind -> bool            (* set_maximum_parameter_b assigns only when b is None *)
}.
(* the pinned commit *)
Definition tcfg_pinned : tcfg :=
  {| t_sets := fun t c => match t, c with TLinearInf, CDeriv2 | TLinearInf, CDeriv3 => false | _, _ => true end;
     t_uses := fun t c => match t, c with TLinearInf, CDeriv2 | TLinearInf, CDeriv3 => false | _, _ => true end;
     t_guard := fun _ => true |}.

Definition amax (x : list Z) : Z := match x with [] => 0%Z | a :: r => fold_left Z.max r a end.

Section BMachine.
  Variable Res : Type.
  (* numerical content of a call: a function of the call, the scale b in force (None: not needed / not set)
     and the argument only — established for the source by the extractor's purity check of the method bodies *)
  Variable F : tkind -> tcall -> option Z -> list Z -> Res.

  Inductive tres := TErr | TVal (r : Res).     (* ValueError("... can't be zero") / the returned array *)

  (* state: self._b *)
  Definition tstep (tc : tcfg) (t : tkind) (b : option Z) (c : tcall * list Z) : option Z * tres :=
    let '(cl, x) := c in
    if t_sets tc t cl then
      match b, t_guard tc t with
      | Some b0, true => (Some b0, TVal (F t cl (Some b0) x))
      | _, _ =>
          let b1 := amax x in
          if Z.eqb b1 0 then (Some b1, TErr) else (Some b1, TVal (F t cl (Some b1) x))
      end
    else
      (* the scale is not stored by this call; if the result depends on a scale and none is fixed yet, the
         maximum of the argument serves for this one call *)
      (b, TVal (F t cl (if t_uses tc t cl then match b with Some b0 => Some b0 | None => Some (amax x) end else None) x)).

  Fixpoint tfinal (tc : tcfg) (t : tkind) (b : option Z) (cs : list (tcall * list Z)) : option Z :=
    match cs with [] => b | c :: r => tfinal tc t (fst (tstep tc t b c)) r end.
  Fixpoint tresults (tc : tcfg) (t : tkind) (b : option Z) (cs : list (tcall * list Z)) : list tres :=
    match cs with [] => [] | c :: r => snd (tstep tc t b c) :: tresults tc t (fst (tstep tc t b c)) r end.
  Fixpoint tstates (tc : tcfg) (t : tkind) (b : option Z) (cs : list (tcall * list Z)) : list (option Z) :=
    match cs with [] => [] | c :: r => fst (tstep tc t b c) :: tstates tc t (fst (tstep tc t b c)) r end.

  (* what the call returns for an object whose scale is ob (None: never fixed), irrespective of any history *)
  Definition tcanon (tc : tcfg) (t : tkind) (ob : option Z) (c : tcall * list Z) : tres :=
    TVal (F t (fst c) (if t_sets tc t (fst c) || t_uses tc t (fst c) then ob else None) (snd c)).
  Definition tpure (tc : tcfg) (t : tkind) (b : Z) (c : tcall * list Z) : tres := tcanon tc t (Some b) c.
End BMachine.
Arguments TErr {Res}.
Arguments TVal {Res} r.

(* for the correspondence: which calls raised, given the observed values of b *)
Definition opt_eqb (a b : option Z) : bool :=
  match a, b with None, None => true | Some x, Some y => Z.eqb x y | _, _ => false end.
Definition is_err {R} (r : @tres R) : bool := match r with TErr => true | _ => false end.
Definition tcheck (tc : tcfg) (t : tkind) (b0 : option Z) (cs : list (tcall * list Z))
                  (bs : list (option Z)) (errs : list bool) : bool :=
  list_eqb opt_eqb (tstates unit (fun _ _ _ _ => tt) tc t b0 cs) bs
  && list_eqb Bool.eqb (map is_err (tresults unit (fun _ _ _ _ => tt) tc t b0 cs)) errs.
