(* C19 property theorems about the CURRENT source: cfg_src, the aliasing configuration extracted by tools/props/c19.py from AngularGrid.__init__ and load_atomic_gaussian_params (statements only). *)
From Coq Require Import List Arith Bool ZArith Permutation.
From P Require Import C19_model C19_proofs C19_gen C19_proofs_srcA.
Import ListNotations.

(* ---- the current source: every route delivers the shipped values; the arrays that are copied at the cache boundary *)
Theorem src_values_ok : forall (m : method) (k : kind), values_ok cfg_src m k = true.
Proof. exact src_values_ok_lemma. Qed.
Print Assumptions src_values_ok.

Theorem src_safe_arrays_refine_spec : forall (m : method) (k : kind), iso cfg_src m k = true ->
  forall (h : list op) (d : nat), observe cfg_src (run cfg_src h) m d k = shipped m d k.
Proof. exact src_safe_arrays_lemma. Qed.
Print Assumptions src_safe_arrays_refine_spec.

