(* C01 — discrete orthogonality of cosines / sines at the Chebyshev-type node families *)
From Coq Require Import Reals Arith Lia Lra Bool.
From P Require Import C01_gen C01_model C01_proofs_sums.
Open Scope R_scope.

(* ---------------------------------------------------------------- integer multiples of PI *)
Lemma sin_nPI c : sin (INR c * PI) = 0.
Proof.
  induction c as [|c IH]; [simpl; rewrite Rmult_0_l; apply sin_0|].
  rewrite S_INR. replace ((INR c + 1) * PI) with (INR c * PI + PI) by ring. rewrite neg_sin, IH. lra.
Qed.

Lemma cos_nPI c : cos (INR c * PI) = (-1) ^ c.
Proof.
  induction c as [|c IH]; [simpl; rewrite Rmult_0_l; apply cos_0|].
  rewrite S_INR. replace ((INR c + 1) * PI) with (INR c * PI + PI) by ring. rewrite neg_cos, IH. simpl. lra.
Qed.

Lemma cos_2nPI c : cos (2 * INR c * PI) = 1.
Proof.
  replace (2 * INR c * PI) with (INR (2 * c) * PI) by (rewrite mult_INR; simpl; ring).
  rewrite cos_nPI, pow_1_even. reflexivity.
Qed.

Lemma pm1_sq c : (-1) ^ c * (-1) ^ c = 1.
Proof. rewrite <- Rpow_mult_distr. replace (-1 * -1) with 1 by ring. apply pow1. Qed.

Lemma pm1_cases c : (-1) ^ c = 1 \/ (-1) ^ c = -1.
Proof. induction c as [|c [H|H]]; simpl; rewrite ?H; lra. Qed.

Lemma pm1_add a b : (-1) ^ (a + b) = (-1) ^ a * (-1) ^ b.
Proof. apply pow_add. Qed.

Lemma pm1_even c : Nat.even c = true -> (-1) ^ c = 1.
Proof. intros H. apply Nat.even_spec in H. destruct H as [k ->]. apply pow_1_even. Qed.

Lemma pm1_odd c : Nat.odd c = true -> (-1) ^ c = -1.
Proof. intros H. apply Nat.odd_spec in H. destruct H as [k ->]. replace (2 * k + 1)%nat with (S (2 * k)) by lia. apply pow_1_odd. Qed.

(* ---------------------------------------------------------------- product formulas on integer multiples *)
Lemma cos_prod a b t : (b <= a)%nat ->
  cos (INR a * t) * cos (INR b * t) = (cos (INR (a - b) * t) + cos (INR (a + b) * t)) / 2.
Proof.
  intros H. rewrite minus_INR by exact H. rewrite plus_INR.
  replace ((INR a - INR b) * t) with (INR a * t - INR b * t) by ring.
  replace ((INR a + INR b) * t) with (INR a * t + INR b * t) by ring.
  rewrite cos_minus, cos_plus. lra.
Qed.

Lemma sin_prod a b t : (b <= a)%nat ->
  sin (INR a * t) * sin (INR b * t) = (cos (INR (a - b) * t) - cos (INR (a + b) * t)) / 2.
Proof.
  intros H. rewrite minus_INR by exact H. rewrite plus_INR.
  replace ((INR a - INR b) * t) with (INR a * t - INR b * t) by ring.
  replace ((INR a + INR b) * t) with (INR a * t + INR b * t) by ring.
  rewrite cos_minus, cos_plus. lra.
Qed.

Lemma sin_cos_prod m t : sin t * cos (INR (S m) * t) = (sin (INR (S (S m)) * t) - sin (INR m * t)) / 2.
Proof.
  rewrite !S_INR.
  replace ((INR m + 1 + 1) * t) with ((INR m + 1) * t + t) by ring.
  replace (INR m * t) with ((INR m + 1) * t - t) by ring.
  rewrite sin_plus, sin_minus. lra.
Qed.

(* ---------------------------------------------------------------- the two telescoping sums *)
(* 2 sin p * sum_{k<n} cos((2k+1) p) = sin(2 n p) *)
Lemma cos_telescope_odd n p : 2 * sin p * rsum n (fun k => cos ((2 * INR k + 1) * p)) = sin (2 * INR n * p).
Proof.
  induction n as [|n IH].
  - simpl. replace (2 * 0 * p) with 0 by ring. rewrite sin_0. ring.
  - change (rsum (S n) (fun k => cos ((2 * INR k + 1) * p)))
      with (rsum n (fun k => cos ((2 * INR k + 1) * p)) + cos ((2 * INR n + 1) * p)).
    rewrite Rmult_plus_distr_l, IH, S_INR.
    replace (2 * (INR n + 1) * p) with ((2 * INR n + 1) * p + p) by ring.
    replace (2 * INR n * p) with ((2 * INR n + 1) * p - p) by ring.
    rewrite sin_plus, sin_minus. ring.
Qed.

(* Dirichlet kernel: 2 sin(p/2) * sum_{k<n} cos(k p) = sin((n - 1/2) p) + sin(p/2) *)
Lemma cos_telescope n p : 2 * sin (p / 2) * rsum n (fun k => cos (INR k * p)) = sin ((INR n - 1 / 2) * p) + sin (p / 2).
Proof.
  induction n as [|n IH].
  - simpl. replace ((0 - 1 / 2) * p) with (- (p / 2)) by field. rewrite sin_neg. ring.
  - change (rsum (S n) (fun k => cos (INR k * p))) with (rsum n (fun k => cos (INR k * p)) + cos (INR n * p)).
    rewrite Rmult_plus_distr_l, IH, S_INR.
    replace ((INR n + 1 - 1 / 2) * p) with (INR n * p + p / 2) by field.
    replace ((INR n - 1 / 2) * p) with (INR n * p - p / 2) by field.
    rewrite sin_plus, sin_minus. ring.
Qed.

(* ---------------------------------------------------------------- Fejer-1 / Gauss-Chebyshev nodes
   theta_k = (2k+1) PI / (2n), k = 0..n-1 *)
Lemma f1_arg c n k : (1 <= n)%nat -> INR c * f1_theta n k = (2 * INR k + 1) * (INR c * PI / (2 * INR n)).
Proof. intros H. unfold f1_theta. field. apply not_0_INR. lia. Qed.

Lemma f1_sum_cos n c : (1 <= n)%nat -> (0 < c < 2 * n)%nat ->
  rsum n (fun k => cos (INR c * f1_theta n k)) = 0.
Proof.
  intros Hn Hc. assert (HN : 0 < INR n) by (apply lt_0_INR; lia).
  assert (HC : 0 < INR c < 2 * INR n).
  { split; [apply lt_0_INR; lia|]. replace (2 * INR n) with (INR (2 * n)) by (rewrite mult_INR; simpl; ring). apply lt_INR. lia. }
  set (p := INR c * PI / (2 * INR n)).
  rewrite (rsum_ext n _ (fun k => cos ((2 * INR k + 1) * p))) by (intros; rewrite f1_arg by exact Hn; reflexivity).
  pose proof (cos_telescope_odd n p) as T.
  replace (2 * INR n * p) with (INR c * PI) in T by (unfold p; field; lra).
  rewrite sin_nPI in T.
  assert (Hp : 0 < p < PI).
  { unfold p. pose proof PI_RGT_0. split.
    - apply Rdiv_lt_0_compat; nra.
    - apply Rmult_lt_reg_r with (2 * INR n); [lra|]. unfold Rdiv. rewrite Rmult_assoc, Rinv_l by lra. nra. }
  assert (Hs : 0 < sin p) by (apply sin_gt_0; lra).
  nra.
Qed.

Lemma f1_sum_cos0 n : rsum n (fun k => cos (INR 0 * f1_theta n k)) = INR n.
Proof.
  rewrite (rsum_ext n _ (fun _ => 1)) by (intros; simpl; rewrite Rmult_0_l; apply cos_0). rewrite rsum_const. ring.
Qed.

(* discrete orthogonality of cos(a theta), cos(b theta) at the Fejer-1 nodes *)
Definition orth_val (n : nat) (a b : nat) : R :=
  if (a =? b)%nat then (if (a =? 0)%nat then INR n else INR n / 2) else 0.

Lemma f1_orth_le n a b : (1 <= n)%nat -> (b <= a)%nat -> (a + b < 2 * n)%nat ->
  rsum n (fun k => cos (INR a * f1_theta n k) * cos (INR b * f1_theta n k)) = orth_val n a b.
Proof.
  intros Hn Hba Hab.
  rewrite (rsum_ext n _ (fun k => (cos (INR (a - b) * f1_theta n k) + cos (INR (a + b) * f1_theta n k)) / 2))
    by (intros; apply cos_prod; exact Hba).
  unfold Rdiv. rewrite rsum_scal_r, rsum_plus. unfold orth_val.
  destruct (Nat.eqb_spec a b) as [->|Hne].
  - rewrite Nat.sub_diag, f1_sum_cos0.
    destruct (Nat.eqb_spec b 0) as [->|Hb0].
    + simpl Nat.add. rewrite f1_sum_cos0. lra.
    + rewrite f1_sum_cos by lia. lra.
  - rewrite !f1_sum_cos by lia. lra.
Qed.

Lemma orth_val_sym n a b : orth_val n a b = orth_val n b a.
Proof.
  unfold orth_val. destruct (Nat.eqb_spec a b) as [->|H]; [rewrite Nat.eqb_refl; reflexivity|].
  destruct (Nat.eqb_spec b a); [lia|reflexivity].
Qed.

Lemma f1_orth n a b : (1 <= n)%nat -> (a + b < 2 * n)%nat ->
  rsum n (fun k => cos (INR a * f1_theta n k) * cos (INR b * f1_theta n k)) = orth_val n a b.
Proof.
  intros Hn Hab. destruct (Nat.le_ge_cases b a) as [H|H].
  - apply f1_orth_le; assumption.
  - rewrite (rsum_ext n _ (fun k => cos (INR b * f1_theta n k) * cos (INR a * f1_theta n k))) by (intros; ring).
    rewrite orth_val_sym. apply f1_orth_le; [assumption|assumption|lia].
Qed.

(* ---------------------------------------------------------------- equally spaced angles k PI / N *)
Definition eq_theta (N k : nat) : R := PI * INR k / INR N.

Lemma eq_sum_cos N c : (1 <= N)%nat -> (0 < c < 2 * N)%nat ->
  rsum N (fun k => cos (INR c * eq_theta N k)) = (1 - (-1) ^ c) / 2.
Proof.
  intros Hn Hc. assert (HN : 0 < INR N) by (apply lt_0_INR; lia).
  assert (HC : 0 < INR c < 2 * INR N).
  { split; [apply lt_0_INR; lia|]. replace (2 * INR N) with (INR (2 * N)) by (rewrite mult_INR; simpl; ring). apply lt_INR. lia. }
  set (p := INR c * PI / INR N).
  rewrite (rsum_ext N _ (fun k => cos (INR k * p))) by (intros; unfold eq_theta, p; f_equal; field; lra).
  pose proof (cos_telescope N p) as T.
  replace ((INR N - 1 / 2) * p) with (INR c * PI - p / 2) in T by (unfold p; field; lra).
  rewrite sin_minus, sin_nPI, cos_nPI in T.
  assert (Hp : 0 < p / 2 < PI).
  { unfold p. pose proof PI_RGT_0. split.
    - apply Rdiv_lt_0_compat; [apply Rdiv_lt_0_compat; nra|lra].
    - apply Rmult_lt_reg_r with (2 * INR N); [lra|]. replace (INR c * PI / INR N / 2 * (2 * INR N)) with (INR c * PI) by (field; lra). nra. }
  assert (Hs : 0 < sin (p / 2)) by (apply sin_gt_0; lra).
  apply Rmult_eq_reg_l with (2 * sin (p / 2)); [|lra]. rewrite T. field.
Qed.

(* closed (Clenshaw-Curtis) nodes k = 0..N with both end terms halved *)
Definition cc_sum (N : nat) (f : nat -> R) : R := rsum (S N) (fun k => halve_ends (S N) (fun _ => 1) k * f k).

Lemma cc_sum_eq N f : (1 <= N)%nat -> cc_sum N f = rsum N f + f N / 2 - f O / 2.
Proof.
  intros H. destruct N as [|m]; [lia|]. unfold cc_sum. rewrite rsum_halve_ends.
  rewrite (rsum_ext (S (S m)) _ f) by (intros; ring).
  change (rsum (S (S m)) f) with (rsum (S m) f + f (S m)). lra.
Qed.

Lemma cc_sum_cos N c : (1 <= N)%nat -> (0 < c < 2 * N)%nat -> cc_sum N (fun k => cos (INR c * eq_theta N k)) = 0.
Proof.
  intros Hn Hc. assert (HN : 0 < INR N) by (apply lt_0_INR; lia).
  rewrite cc_sum_eq by exact Hn. rewrite eq_sum_cos by assumption.
  assert (E0 : cos (INR c * eq_theta N 0) = 1).
  { unfold eq_theta. simpl INR. replace (INR c * (PI * 0 / INR N)) with 0 by (field; lra). apply cos_0. }
  assert (EN : cos (INR c * eq_theta N N) = (-1) ^ c).
  { unfold eq_theta. replace (INR c * (PI * INR N / INR N)) with (INR c * PI) by (field; lra). apply cos_nPI. }
  rewrite E0, EN. lra.
Qed.

Lemma cc_sum_cos0 N : (1 <= N)%nat -> cc_sum N (fun k => cos (INR 0 * eq_theta N k)) = INR N.
Proof.
  intros Hn. rewrite cc_sum_eq by exact Hn.
  rewrite (rsum_ext N _ (fun _ => 1)) by (intros; simpl; rewrite Rmult_0_l; apply cos_0).
  rewrite rsum_const. simpl INR. rewrite !Rmult_0_l, cos_0. lra.
Qed.

Lemma cc_sum_cos2N N : (1 <= N)%nat -> cc_sum N (fun k => cos (INR (2 * N) * eq_theta N k)) = INR N.
Proof.
  intros Hn. assert (HN : 0 < INR N) by (apply lt_0_INR; lia).
  assert (E : forall k, cos (INR (2 * N) * eq_theta N k) = 1).
  { intros k. unfold eq_theta. rewrite mult_INR. simpl INR.
    replace ((1 + 1) * INR N * (PI * INR k / INR N)) with (2 * INR k * PI) by (field; lra). apply cos_2nPI. }
  rewrite cc_sum_eq by exact Hn. rewrite (rsum_ext N _ (fun _ => 1)) by (intros; apply E).
  rewrite rsum_const, !E. lra.
Qed.

Lemma cc_sum_ext N f g : (forall k, (k <= N)%nat -> f k = g k) -> cc_sum N f = cc_sum N g.
Proof. intros H. unfold cc_sum. apply rsum_ext. intros k Hk. rewrite H by lia. reflexivity. Qed.

Lemma cc_sum_plus N f g : cc_sum N (fun k => f k + g k) = cc_sum N f + cc_sum N g.
Proof. unfold cc_sum. rewrite <- rsum_plus. apply rsum_ext. intros. ring. Qed.

Lemma cc_sum_scal_r N c f : cc_sum N (fun k => f k * c) = cc_sum N f * c.
Proof. unfold cc_sum. rewrite <- rsum_scal_r. apply rsum_ext. intros. ring. Qed.

(* D(c) = sum'' cos(c theta) for 0 <= c <= 2N *)
Definition cc_D (N c : nat) : R := if ((c =? 0) || (c =? 2 * N))%nat then INR N else 0.

Lemma cc_sum_cos_all N c : (1 <= N)%nat -> (c <= 2 * N)%nat -> cc_sum N (fun k => cos (INR c * eq_theta N k)) = cc_D N c.
Proof.
  intros Hn Hc. unfold cc_D.
  destruct (Nat.eqb_spec c 0) as [->|H0]; [apply cc_sum_cos0; exact Hn|].
  destruct (Nat.eqb_spec c (2 * N)) as [->|H2]; [apply cc_sum_cos2N; exact Hn|].
  simpl orb. cbv iota. apply cc_sum_cos; [exact Hn|lia].
Qed.

Lemma cc_orth_le N a b : (1 <= N)%nat -> (b <= a)%nat -> (a + b <= 2 * N)%nat ->
  cc_sum N (fun k => cos (INR a * eq_theta N k) * cos (INR b * eq_theta N k)) = (cc_D N (a - b) + cc_D N (a + b)) / 2.
Proof.
  intros Hn Hba Hab.
  rewrite (cc_sum_ext N _ (fun k => (cos (INR (a - b) * eq_theta N k) + cos (INR (a + b) * eq_theta N k)) / 2))
    by (intros; apply cos_prod; exact Hba).
  unfold Rdiv. rewrite cc_sum_scal_r, cc_sum_plus. rewrite !cc_sum_cos_all by (try exact Hn; lia). reflexivity.
Qed.

(* open (Fejer-2) nodes k = 1..N-1: sines *)
Lemma eq_sum_sin_sin N a b : (1 <= N)%nat -> (1 <= b)%nat -> (b <= a)%nat -> (a + b < 2 * N)%nat ->
  rsum N (fun k => sin (INR a * eq_theta N k) * sin (INR b * eq_theta N k)) = if (a =? b)%nat then INR N / 2 else 0.
Proof.
  intros Hn Hb Hba Hab.
  rewrite (rsum_ext N _ (fun k => (cos (INR (a - b) * eq_theta N k) - cos (INR (a + b) * eq_theta N k)) / 2))
    by (intros; apply sin_prod; exact Hba).
  unfold Rdiv. rewrite rsum_scal_r, rsum_minus.
  destruct (Nat.eqb_spec a b) as [->|Hne].
  - rewrite Nat.sub_diag. rewrite (rsum_ext N _ (fun _ => 1)) by (intros; simpl; rewrite Rmult_0_l; apply cos_0).
    rewrite rsum_const, eq_sum_cos by lia. replace (b + b)%nat with (2 * b)%nat by lia. rewrite pow_1_even. lra.
  - rewrite !eq_sum_cos by lia. replace (a + b)%nat with ((a - b) + 2 * b)%nat by lia.
    rewrite pm1_add, pow_1_even. lra.
Qed.

Lemma eq_sum_sin_sin_sym N a b : (1 <= N)%nat -> (1 <= a)%nat -> (1 <= b)%nat -> (a + b < 2 * N)%nat ->
  rsum N (fun k => sin (INR a * eq_theta N k) * sin (INR b * eq_theta N k)) = if (a =? b)%nat then INR N / 2 else 0.
Proof.
  intros Hn Ha Hb Hab. destruct (Nat.le_ge_cases b a) as [H|H].
  - apply eq_sum_sin_sin; assumption.
  - rewrite (rsum_ext N _ (fun k => sin (INR b * eq_theta N k) * sin (INR a * eq_theta N k))) by (intros; ring).
    rewrite eq_sum_sin_sin by (try assumption; lia). rewrite Nat.eqb_sym. reflexivity.
Qed.

Lemma cc_D_0 N : cc_D N 0 = INR N.
Proof. reflexivity. Qed.
Lemma cc_D_2N N c : c = (2 * N)%nat -> cc_D N c = INR N.
Proof. intros ->. unfold cc_D. rewrite Nat.eqb_refl, orb_true_r. reflexivity. Qed.
Lemma cc_D_mid N c : (0 < c < 2 * N)%nat -> cc_D N c = 0.
Proof.
  intros H. unfold cc_D. destruct (Nat.eqb_spec c 0); [exfalso; lia|]. destruct (Nat.eqb_spec c (2 * N)); [exfalso; lia|]. reflexivity.
Qed.

Lemma cc_orth_val_le N a b : (1 <= N)%nat -> (1 <= a <= N)%nat -> (b <= a)%nat ->
  cc_sum N (fun k => cos (INR a * eq_theta N k) * cos (INR b * eq_theta N k))
  = if (a =? b)%nat then (if (a =? N)%nat then INR N else INR N / 2) else 0.
Proof.
  intros HN Ha H. rewrite cc_orth_le by lia.
  destruct (Nat.eqb_spec a b) as [<-|Hne].
  - rewrite Nat.sub_diag, cc_D_0.
    destruct (Nat.eqb_spec a N) as [->|HaN].
    + rewrite cc_D_2N by lia. lra.
    + rewrite cc_D_mid by lia. lra.
  - rewrite !cc_D_mid by lia. lra.
Qed.

Lemma cc_orth_val N a b : (1 <= N)%nat -> (1 <= a <= N)%nat -> (b <= N)%nat ->
  cc_sum N (fun k => cos (INR a * eq_theta N k) * cos (INR b * eq_theta N k))
  = if (a =? b)%nat then (if (a =? N)%nat then INR N else INR N / 2) else 0.
Proof.
  intros HN Ha Hb. destruct (Nat.le_ge_cases b a) as [H|H].
  - apply cc_orth_val_le; assumption.
  - rewrite (cc_sum_ext N _ (fun k => cos (INR b * eq_theta N k) * cos (INR a * eq_theta N k))) by (intros; ring).
    destruct (Nat.eq_dec b 0) as [->|Hb0].
    + assert (a = 0)%nat by lia. exfalso; lia.
    + rewrite cc_orth_val_le by lia. rewrite (Nat.eqb_sym b a).
      destruct (Nat.eqb_spec a b) as [->|]; reflexivity.
Qed.

(* open (Fejer-2) nodes theta_i = (i+1) PI/(n+1), i = 0..n-1 *)
Lemma f2_theta_eq n i : f2_theta n i = eq_theta (S n) (S i).
Proof. unfold f2_theta, eq_theta. rewrite !S_INR. reflexivity. Qed.

(* sine orthogonality at the open nodes k PI/(n+1), k = 1..n *)
Lemma f2_sin_orth n a b : (1 <= b)%nat -> (a + b < 2 * (n + 1))%nat ->
  rsum n (fun i => sin (INR a * f2_theta n i) * sin (INR b * f2_theta n i)) = if (a =? b)%nat then INR (S n) / 2 else 0.
Proof.
  intros Hb Hab.
  set (G := fun k => sin (INR a * eq_theta (S n) k) * sin (INR b * eq_theta (S n) k)).
  rewrite (rsum_ext n _ (fun i => G (S i))) by (intros; unfold G; rewrite f2_theta_eq; reflexivity).
  replace (rsum n (fun i => G (S i))) with (rsum (S n) G - G O) by (rewrite rsum_S_first; ring).
  assert (Z : G O = 0).
  { unfold G, eq_theta. simpl INR at 2 4. unfold Rdiv. rewrite !Rmult_0_r, !Rmult_0_l, !Rmult_0_r, sin_0. ring. }
  rewrite Z, Rminus_0_r. unfold G.
  destruct a as [|a].
  - rewrite rsum_zero; [|intros; simpl INR; rewrite Rmult_0_l, sin_0; ring].
    destruct (Nat.eqb_spec 0 b); [lia|reflexivity].
  - apply eq_sum_sin_sin_sym; lia.
Qed.

(* ---------------------------------------------------------------- Chebyshev polynomials *)
Lemma cheb_SS m x : cheb (S (S m)) x = 2 * x * cheb (S m) x - cheb m x.
Proof. reflexivity. Qed.

Lemma cheb_cos_pair m t : cheb m (cos t) = cos (INR m * t) /\ cheb (S m) (cos t) = cos (INR (S m) * t).
Proof.
  induction m as [|m [IH0 IH1]].
  - split; simpl; [rewrite Rmult_0_l, cos_0; reflexivity|rewrite Rmult_1_l; reflexivity].
  - split; [exact IH1|]. rewrite cheb_SS, IH0, IH1. rewrite !S_INR.
    replace ((INR m + 1 + 1) * t) with ((INR m + 1) * t + t) by ring.
    replace (INR m * t) with ((INR m + 1) * t - t) by ring.
    rewrite cos_plus, cos_minus. ring.
Qed.

Lemma cheb_cos m t : cheb m (cos t) = cos (INR m * t).
Proof. apply cheb_cos_pair. Qed.

(* ---------------------------------------------------------------- 2. discrete orthogonality *)
Lemma cheb_discrete_orth_thm :
  (forall n c, (1 <= n)%nat -> (0 < c < 2 * n)%nat -> rsum n (fun k => cos (INR c * f1_theta n k)) = 0) /\
  (forall n a b, (1 <= n)%nat -> (a + b < 2 * n)%nat ->
     rsum n (fun k => cos (INR a * f1_theta n k) * cos (INR b * f1_theta n k))
     = if (a =? b)%nat then (if (a =? 0)%nat then INR n else INR n / 2) else 0) /\
  (forall N c, (1 <= N)%nat -> (0 < c < 2 * N)%nat ->
     rsum (S N) (fun k => halve_ends (S N) (fun _ => 1) k * cos (INR c * (PI * INR k / INR N))) = 0) /\
  (forall N a b, (1 <= N)%nat -> (1 <= a <= N)%nat -> (b <= N)%nat ->
     rsum (S N) (fun k => halve_ends (S N) (fun _ => 1) k * (cos (INR a * (PI * INR k / INR N)) * cos (INR b * (PI * INR k / INR N))))
     = if (a =? b)%nat then (if (a =? N)%nat then INR N else INR N / 2) else 0) /\
  (forall n a b, (1 <= b)%nat -> (a + b < 2 * (n + 1))%nat ->
     rsum n (fun i => sin (INR a * f2_theta n i) * sin (INR b * f2_theta n i)) = if (a =? b)%nat then INR (S n) / 2 else 0).
Proof.
  split; [exact f1_sum_cos|]. split; [exact f1_orth|]. split; [exact cc_sum_cos|]. split; [exact cc_orth_val|exact f2_sin_orth].
Qed.

