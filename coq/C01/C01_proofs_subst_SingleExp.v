(* C01 — SingleExp: weight = derivative of the node map, positivity, monotonicity, domain *)
From Coq Require Import Reals Arith Lia Lra.
From Coquelicot Require Import Coquelicot.
From P Require Import C01_gen C01_model C01_proofs_subst.
Open Scope R_scope.

(* ---------------------------------------------------------------- SingleExp *)
Lemma SingleExp_deriv h k : is_derive (SingleExp_points h) k (SingleExp_weights h k).
Proof. unfold SingleExp_points, SingleExp_weights. cbv zeta. auto_derive; [exact I|ring]. Qed.
Lemma SingleExp_wpos h k : 0 < h -> 0 < SingleExp_weights h k.
Proof. intros Hh. unfold SingleExp_weights. cbv zeta. pose proof (exp_pos (k * h)). nra. Qed.
Lemma SingleExp_domain h k : 0 < SingleExp_points h k.
Proof. unfold SingleExp_points. cbv zeta. apply exp_pos. Qed.

Lemma subst_SingleExp_thm h n k : 0 < h ->
  (is_derive (SingleExp_points h) (kidx n k) (wts_SingleExp h n k) /\
   is_derive (fun t => SingleExp_points h (t / h)) (kidx n k * h) (wts_SingleExp h n k / h) /\
   0 < wts_SingleExp h n k /\
   (forall a b, a < b -> SingleExp_points h a < SingleExp_points h b) /\
   pts_SingleExp h n k < pts_SingleExp h n (S k)) /\
  0 < pts_SingleExp h n k.
Proof.
  intros H. split; [|apply SingleExp_domain].
  apply (subst_pack (SingleExp_points h) (SingleExp_weights h)); [lra|apply SingleExp_deriv|intros; apply SingleExp_wpos; exact H].
Qed.
