(* C01 — shape of the closed-form rules: nodes strictly ascending and inside the declared domain, for every n;
   documented closed forms of the Chebyshev-Lobatto weights. *)
From Coq Require Import Reals Arith Lia Lra Bool.
From P Require Import C01_gen C01_model C01_proofs_sums.
Open Scope R_scope.

Lemma INR_lt_n k n : (k < n)%nat -> INR k < INR n.
Proof. apply lt_INR. Qed.
Lemma INR_le_n1 k n : (k < n)%nat -> INR k <= INR n - 1.
Proof. intros H. replace (INR n - 1) with (INR (n - 1)) by (rewrite minus_INR by lia; reflexivity). apply le_INR. lia. Qed.

(* ---------------------------------------------------------------- equally spaced rules *)
Lemma trapezoid_shape n k : (2 <= n)%nat -> (k < n)%nat ->
  -1 <= pts_Trapezoidal n k <= 1 /\ ((S k < n)%nat -> pts_Trapezoidal n k < pts_Trapezoidal n (S k)).
Proof.
  intros Hn Hk. unfold pts_Trapezoidal. pose proof (pos_INR k) as H0. pose proof (INR_le_n1 k n Hk) as H1.
  assert (HN : 0 < INR n - 1) by (pose proof (INR_le_n1 1 n ltac:(lia)); simpl in *; lra).
  assert (E : forall j, 2 * INR j / (INR n - 1) = INR j * (2 / (INR n - 1))) by (intros; field; lra).
  assert (Hc : 0 < 2 / (INR n - 1)) by (apply Rdiv_lt_0_compat; lra).
  rewrite !E. split.
  - split; [nra|]. assert (INR k * (2 / (INR n - 1)) <= (INR n - 1) * (2 / (INR n - 1))) by nra.
    replace ((INR n - 1) * (2 / (INR n - 1))) with 2 in H by (field; lra). lra.
  - intros _. rewrite S_INR. nra.
Qed.

Lemma simpson_shape n k : (2 <= n)%nat -> (k < n)%nat ->
  -1 <= pts_Simpson n k <= 1 /\ ((S k < n)%nat -> pts_Simpson n k < pts_Simpson n (S k)).
Proof. exact (trapezoid_shape n k). Qed.

Lemma midpoint_shape n k : (1 <= n)%nat -> (k < n)%nat ->
  -1 < pts_MidPoint n k < 1 /\ pts_MidPoint n k < pts_MidPoint n (S k).
Proof.
  intros Hn Hk. unfold pts_MidPoint. pose proof (pos_INR k) as H0. pose proof (INR_le_n1 k n Hk) as H1.
  assert (HN : 0 < INR n) by (apply lt_0_INR; lia).
  assert (E : forall j, (2 * INR j + 1) / INR n = (2 * INR j + 1) * (1 / INR n)) by (intros; field; lra).
  assert (Hc : 0 < 1 / INR n) by (apply Rdiv_lt_0_compat; lra).
  rewrite !E, S_INR. split; [|nra]. split; [nra|].
  assert ((2 * INR k + 1) * (1 / INR n) <= (2 * INR n - 1) * (1 / INR n)) by nra.
  replace ((2 * INR n - 1) * (1 / INR n)) with (2 - 1 / INR n) in H by (field; lra). lra.
Qed.

Lemma uniform_shape n k : 0 <= pts_UniformInteger n k /\ pts_UniformInteger n k < pts_UniformInteger n (S k).
Proof. unfold pts_UniformInteger. rewrite S_INR. pose proof (pos_INR k). lra. Qed.

Lemma rrs_shape n k : (k < n)%nat ->
  -1 < pts_RectangleRuleSineEndPoints n k < 1 /\
  pts_RectangleRuleSineEndPoints n k < pts_RectangleRuleSineEndPoints n (S k).
Proof.
  intros Hk. unfold pts_RectangleRuleSineEndPoints, rrs_x. pose proof (pos_INR k) as H0. pose proof (INR_le_n1 k n Hk) as H1.
  assert (HN : 0 < INR n + 1) by (pose proof (pos_INR n); lra).
  assert (E : forall j, (INR j + 1) / (INR n + 1) = (INR j + 1) * (1 / (INR n + 1))) by (intros; field; lra).
  assert (Hc : 0 < 1 / (INR n + 1)) by (apply Rdiv_lt_0_compat; lra).
  rewrite !E, S_INR. split; [|nra]. split; [nra|].
  assert ((INR k + 1) * (1 / (INR n + 1)) <= INR n * (1 / (INR n + 1))) by nra.
  replace (INR n * (1 / (INR n + 1))) with (1 - 1 / (INR n + 1)) in H by (field; lra). lra.
Qed.

(* ---------------------------------------------------------------- cosine nodes in reversed order *)
Lemma rev_cos_shape n (theta : nat -> R) :
  (forall i, (i < n)%nat -> 0 <= theta i <= PI) -> (forall i, (S i < n)%nat -> theta i < theta (S i)) ->
  forall k, (k < n)%nat ->
    -1 <= rev n (fun i => cos (theta i)) k <= 1 /\
    ((S k < n)%nat -> rev n (fun i => cos (theta i)) k < rev n (fun i => cos (theta i)) (S k)).
Proof.
  intros Hr Hi k Hk. unfold rev. split; [apply COS_bound|].
  intros HS. replace (n - 1 - k)%nat with (S (n - 1 - S k)) by lia.
  apply cos_decreasing_1; try (apply Hr; lia). apply Hi. lia.
Qed.

Lemma frac_range a b : 0 <= a <= b -> 0 < b -> 0 <= PI * a / b <= PI.
Proof.
  intros [H0 H1] Hb. pose proof PI_RGT_0. replace (PI * a / b) with (PI * (a / b)) by (field; lra).
  assert (0 <= a / b <= 1).
  { split; [apply Rmult_le_pos; [lra|left; apply Rinv_0_lt_compat; lra]|].
    apply Rmult_le_reg_r with b; [lra|]. unfold Rdiv. rewrite Rmult_assoc, Rinv_l by lra. lra. }
  nra.
Qed.

Lemma frac_lt a a' b : a < a' -> 0 < b -> PI * a / b < PI * a' / b.
Proof.
  intros H Hb. pose proof PI_RGT_0. unfold Rdiv. apply Rmult_lt_compat_r; [apply Rinv_0_lt_compat; lra|nra].
Qed.

Lemma cc_shape n k : (2 <= n)%nat -> (k < n)%nat ->
  -1 <= pts_ClenshawCurtis n k <= 1 /\ ((S k < n)%nat -> pts_ClenshawCurtis n k < pts_ClenshawCurtis n (S k)).
Proof.
  intros Hn Hk. assert (HN : 0 < INR n - 1) by (pose proof (INR_le_n1 1 n ltac:(lia)); simpl in *; lra).
  change (pts_ClenshawCurtis n k) with (rev n (fun i => cos (PI * INR i / (INR n - 1))) k).
  change (pts_ClenshawCurtis n (S k)) with (rev n (fun i => cos (PI * INR i / (INR n - 1))) (S k)).
  apply rev_cos_shape; [| |exact Hk].
  - intros i Hi. apply frac_range; [|exact HN]. split; [apply pos_INR|apply INR_le_n1; exact Hi].
  - intros i Hi. apply frac_lt; [rewrite S_INR; lra|exact HN].
Qed.

Lemma lobatto_pts_eq n k : pts_GaussChebyshevLobatto n k = pts_ClenshawCurtis n k.
Proof. unfold pts_GaussChebyshevLobatto, pts_ClenshawCurtis, cc_theta, rev. f_equal. unfold Rdiv. ring. Qed.

Lemma lobatto_shape n k : (2 <= n)%nat -> (k < n)%nat ->
  -1 <= pts_GaussChebyshevLobatto n k <= 1 /\
  ((S k < n)%nat -> pts_GaussChebyshevLobatto n k < pts_GaussChebyshevLobatto n (S k)).
Proof. rewrite !lobatto_pts_eq. apply cc_shape. Qed.

Lemma f1_shape n k : (1 <= n)%nat -> (k < n)%nat ->
  -1 <= pts_FejerFirst n k <= 1 /\ ((S k < n)%nat -> pts_FejerFirst n k < pts_FejerFirst n (S k)).
Proof.
  intros Hn Hk. assert (HN : 0 < INR n) by (apply lt_0_INR; lia).
  unfold pts_FejerFirst. apply rev_cos_shape; [| |exact Hk].
  - intros i Hi. unfold f1_theta. apply frac_range; [|lra]. pose proof (pos_INR i). pose proof (INR_le_n1 i n Hi). lra.
  - intros i Hi. unfold f1_theta. apply frac_lt; [rewrite S_INR; lra|lra].
Qed.

Lemma f2_shape n k : (k < n)%nat ->
  -1 <= pts_FejerSecond n k <= 1 /\ ((S k < n)%nat -> pts_FejerSecond n k < pts_FejerSecond n (S k)).
Proof.
  intros Hk. assert (HN : 0 < INR n + 1) by (pose proof (pos_INR n); lra).
  unfold pts_FejerSecond. apply rev_cos_shape; [| |exact Hk].
  - intros i Hi. unfold f2_theta. apply frac_range; [|lra]. pose proof (pos_INR i). pose proof (INR_le_n1 i n Hi). lra.
  - intros i Hi. unfold f2_theta. apply frac_lt; [rewrite S_INR; lra|lra].
Qed.

(* ---------------------------------------------------------------- documented closed forms *)
Lemma sqrt_1_cos2 t : 0 <= t <= PI -> sqrt (1 - cos t ^ 2) = sin t.
Proof.
  intros H. replace (1 - cos t ^ 2) with (sin t ^ 2) by (pose proof (sin2_cos2 t) as E; unfold Rsqr in E; nra).
  replace (sin t ^ 2) with (Rsqr (sin t)) by (unfold Rsqr; ring). apply sqrt_Rsqr. apply sin_ge_0; lra.
Qed.

(* w_i = pi/(n-1) * sin(theta_i), halved at both ends: the weight w.r.t. 1/sqrt(1-x^2) times sqrt(1-x_i^2) *)
Lemma lobatto_weight_form n k : (2 <= n)%nat -> (k < n)%nat ->
  wts_GaussChebyshevLobatto n k
  = halve_ends n (fun i => PI / (INR n - 1) * sin (PI * INR (n - 1 - i) / (INR n - 1))) k.
Proof.
  intros Hn Hk. assert (HN : 0 < INR n - 1) by (pose proof (INR_le_n1 1 n ltac:(lia)); simpl in *; lra).
  unfold wts_GaussChebyshevLobatto.
  rewrite (halve_ends_factor n (fun i => PI * sqrt (1 - pts_GaussChebyshevLobatto n i ^ 2) / (INR n - 1))).
  rewrite (halve_ends_factor n (fun i => PI / (INR n - 1) * sin (PI * INR (n - 1 - i) / (INR n - 1)))). f_equal.
  unfold pts_GaussChebyshevLobatto, rev.
  replace (INR (n - 1 - k) * PI / (INR n - 1)) with (PI * INR (n - 1 - k) / (INR n - 1)) by (field; lra).
  rewrite sqrt_1_cos2; [field; lra|].
  apply frac_range; [|exact HN]. split; [apply pos_INR|apply INR_le_n1; lia].
Qed.
