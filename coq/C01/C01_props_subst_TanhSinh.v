(* C01 property theorems 4/5 — variable-substitution rules: for every step h > 0, size n and index k,
   the weight is the derivative of the node map w.r.t. the (real) index variable, i.e. h * phi'(t_k) with
   t_k = k h; all weights are positive; the node map is strictly increasing (nodes ascend) and stays inside the
   declared domain.  <Rule>_points / <Rule>_weights are re-translated from the constructor source on every run. *)
From Coq Require Import Reals Arith.
From Coquelicot Require Import Coquelicot.
From P Require Import C01_gen C01_model C01_proofs_subst_TanhSinh.
Open Scope R_scope.

Theorem subst_rules_TanhSinh : forall delta n k, 0 < delta ->
  (is_derive (TanhSinh_points delta) (kidx n k) (wts_TanhSinh delta n k) /\
   is_derive (fun t => TanhSinh_points delta (t / delta)) (kidx n k * delta) (wts_TanhSinh delta n k / delta) /\
   0 < wts_TanhSinh delta n k /\
   (forall a b, a < b -> TanhSinh_points delta a < TanhSinh_points delta b) /\
   pts_TanhSinh delta n k < pts_TanhSinh delta n (S k)) /\
  -1 < pts_TanhSinh delta n k < 1.
Proof. exact subst_TanhSinh_thm. Qed.
Print Assumptions subst_rules_TanhSinh.
