(* C01 property theorems 1/5 — Newton-Cotes rules (statements only; proofs in C01_proofs_*.v).
   rsum n f = sum_{k<n} f k;  pts_<Rule> n k / wts_<Rule> n k = element k of the arrays built by <Rule>(n);
   mono_int d = integral of x^d over [-1,1]. *)
From Coq Require Import Reals Arith.
From Coquelicot Require Import Coquelicot.
From P Require Import C01_gen C01_model C01_proofs_nc.
Open Scope R_scope.

Theorem mono_int_is_integral : forall d, is_RInt (fun x => x ^ d) (-1) 1 (mono_int d).
Proof. exact mono_int_correct. Qed.
Print Assumptions mono_int_is_integral.

Theorem newton_cotes_exact :
  (forall n d, (2 <= n)%nat -> (d <= 1)%nat ->
     rsum n (fun k => wts_Trapezoidal n k * pts_Trapezoidal n k ^ d) = mono_int d) /\
  (forall n d, (1 <= n)%nat -> (d <= 1)%nat ->
     rsum n (fun k => wts_MidPoint n k * pts_MidPoint n k ^ d) = mono_int d) /\
  (forall n d, (3 <= n)%nat -> Nat.odd n = true -> (d <= 3)%nat ->
     rsum n (fun k => wts_Simpson n k * pts_Simpson n k ^ d) = mono_int d).
Proof. exact newton_cotes_exact_thm. Qed.
Print Assumptions newton_cotes_exact.
