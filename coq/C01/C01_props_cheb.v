(* C01 property theorems 2/5 — discrete orthogonality; Clenshaw-Curtis and the two Fejer rules.
   cheb m = Chebyshev polynomial T_m (three-term recurrence); cheb_int m = its integral over [-1,1];
   pspan D f = "f is a polynomial of degree <= D" (linear span of T_0..T_D, contains every sum_{d<=D} a_d x^d). *)
From Coq Require Import Reals Arith.
From Coquelicot Require Import Coquelicot.
From P Require Import C01_gen C01_model C01_proofs_trig C01_proofs_poly.
Open Scope R_scope.

Theorem cheb_telescope : forall n p, 2 * sin p * rsum n (fun k => cos ((2 * INR k + 1) * p)) = sin (2 * INR n * p).
Proof. exact cos_telescope_odd. Qed.
Print Assumptions cheb_telescope.

Theorem cheb_discrete_orth :
  (forall n c, (1 <= n)%nat -> (0 < c < 2 * n)%nat -> rsum n (fun k => cos (INR c * f1_theta n k)) = 0) /\
  (forall n a b, (1 <= n)%nat -> (a + b < 2 * n)%nat ->
     rsum n (fun k => cos (INR a * f1_theta n k) * cos (INR b * f1_theta n k))
     = if (a =? b)%nat then (if (a =? 0)%nat then INR n else INR n / 2) else 0) /\
  (forall N c, (1 <= N)%nat -> (0 < c < 2 * N)%nat ->
     rsum (S N) (fun k => halve_ends (S N) (fun _ => 1) k * cos (INR c * (PI * INR k / INR N))) = 0) /\
  (forall N a b, (1 <= N)%nat -> (1 <= a <= N)%nat -> (b <= N)%nat ->
     rsum (S N) (fun k => halve_ends (S N) (fun _ => 1) k * (cos (INR a * (PI * INR k / INR N)) * cos (INR b * (PI * INR k / INR N))))
     = if (a =? b)%nat then (if (a =? N)%nat then INR N else INR N / 2) else 0) /\
  (forall n a b, (1 <= b)%nat -> (a + b < 2 * (n + 1))%nat ->
     rsum n (fun i => sin (INR a * f2_theta n i) * sin (INR b * f2_theta n i)) = if (a =? b)%nat then INR (S n) / 2 else 0).
Proof. exact cheb_discrete_orth_thm. Qed.
Print Assumptions cheb_discrete_orth.

Theorem cheb_is_cos : forall m t, cheb m (cos t) = cos (INR m * t).
Proof. exact cheb_cos. Qed.
Print Assumptions cheb_is_cos.

Theorem cheb_int_is_integral : forall m, is_RInt (cheb m) (-1) 1 (cheb_int m).
Proof. exact cheb_int_correct. Qed.
Print Assumptions cheb_int_is_integral.

Theorem pspan_contains_polynomials : forall D (a : nat -> R), pspan D (fun x => rsum (S D) (fun d => a d * x ^ d)).
Proof. exact pspan_poly. Qed.
Print Assumptions pspan_contains_polynomials.

