(* C01 property theorems 3/5 — weight-divided Gauss rules.
   ox / ow are the arrays returned by the library routine (oracle); Iw p stands for int w(x) p(x) dx. *)
From Coq Require Import Reals Arith.
From Coquelicot Require Import Coquelicot.
From P Require Import C01_gen C01_model C01_proofs_poly C01_proofs_gauss_laguerre.
Open Scope R_scope.

Theorem gauss_wrappers_laguerre : forall (n : nat) (ox ow : nat -> R) (Iw : (R -> R) -> R),
  (forall p, pspan (2 * n - 1) p -> rsum n (fun i => ow i * p (ox i)) = Iw p) ->
  forall alpha, (forall i, (i < n)%nat -> 0 < ox i) ->
  forall p, pspan (2 * n - 1) p ->
  rsum n (fun k => wts_GaussLaguerre ox ow alpha n k
                   * (Rpower (pts_GaussLaguerre ox alpha n k) alpha * exp (- pts_GaussLaguerre ox alpha n k)
                      * p (pts_GaussLaguerre ox alpha n k))) = Iw p.
Proof. exact laguerre_wrapper_lemma. Qed.
Print Assumptions gauss_wrappers_laguerre.

Theorem gauss_wrappers_laguerre_nodes : forall n (ox : nat -> R) a k, pts_GaussLaguerre ox a n k = ox k.
Proof. exact laguerre_nodes_same. Qed.
Print Assumptions gauss_wrappers_laguerre_nodes.
