(* C01 property theorems 3/5 — weight-divided Gauss rules.
   ox / ow are the arrays returned by the library routine (oracle); Iw p stands for int w(x) p(x) dx. *)
From Coq Require Import Reals Arith.
From Coquelicot Require Import Coquelicot.
From P Require Import C01_gen C01_model C01_proofs_poly C01_proofs_gauss_legendre.
Open Scope R_scope.

Theorem gauss_wrappers_legendre : forall n (ox ow : nat -> R),
  (forall p, pspan (2 * n - 1) p -> is_RInt p (-1) 1 (rsum n (fun i => ow i * p (ox i)))) ->
  forall p, pspan (2 * n - 1) p ->
  is_RInt p (-1) 1 (rsum n (fun k => wts_GaussLegendre ox ow n k * p (pts_GaussLegendre ox n k))).
Proof. exact legendre_exact_lemma. Qed.
Print Assumptions gauss_wrappers_legendre.

Theorem gauss_wrappers_legendre_nodes : forall n (ox : nat -> R) k, pts_GaussLegendre ox n k = ox k.
Proof. exact legendre_nodes_same. Qed.
Print Assumptions gauss_wrappers_legendre_nodes.
