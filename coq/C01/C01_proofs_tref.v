(* C01 — Trefethen maps: _derg2/_derg3/_dergstrip are the derivatives of _g2/_g3/_gstrip; the polynomial maps are
   strictly increasing bijections of [-1,1]; composed weights = derivative * base weight. *)
From Coq Require Import Reals Arith Lia Lra.
From Coquelicot Require Import Coquelicot.
From P Require Import C01_gen C01_model C01_proofs_subst.
Open Scope R_scope.

(* ---------------------------------------------------------------- polynomial ("sausage") maps *)
Lemma g2_deriv x : is_derive g2 x (derg2 x).
Proof. unfold g2, derg2. auto_derive; [exact I|field]. Qed.
Lemma g3_deriv x : is_derive g3 x (derg3 x).
Proof. unfold g3, derg3. auto_derive; [exact I|field]. Qed.

Lemma derg2_pos x : 0 < derg2 x.
Proof. unfold derg2. assert (0 <= x ^ 2) by nra. assert (0 <= x ^ 4) by (replace (x ^ 4) with ((x ^ 2) ^ 2) by ring; nra). lra. Qed.
Lemma derg3_pos x : 0 < derg3 x.
Proof.
  unfold derg3. assert (0 <= x ^ 2) by nra. assert (0 <= x ^ 4) by (replace (x ^ 4) with ((x ^ 2) ^ 2) by ring; nra).
  assert (0 <= x ^ 6) by (replace (x ^ 6) with ((x ^ 3) ^ 2) by ring; nra).
  assert (0 <= x ^ 8) by (replace (x ^ 8) with ((x ^ 4) ^ 2) by ring; nra). lra.
Qed.

Lemma g2_incr a b : a < b -> g2 a < g2 b.
Proof. apply (incr_of_deriv g2 derg2 g2_deriv derg2_pos). Qed.
Lemma g3_incr a b : a < b -> g3 a < g3 b.
Proof. apply (incr_of_deriv g3 derg3 g3_deriv derg3_pos). Qed.

Lemma g2_ends : g2 (-1) = -1 /\ g2 1 = 1.
Proof. unfold g2. split; field. Qed.
Lemma g3_ends : g3 (-1) = -1 /\ g3 1 = 1.
Proof. unfold g3. split; field. Qed.

Lemma g2_range x : -1 <= x <= 1 -> -1 <= g2 x <= 1.
Proof.
  intros [H1 H2]. destruct g2_ends as [E1 E2]. split.
  - destruct H1 as [H1|E]; [rewrite <- E1; left; apply g2_incr; exact H1|rewrite <- E, E1; lra].
  - destruct H2 as [H2|E]; [rewrite <- E2; left; apply g2_incr; exact H2|rewrite E, E2; lra].
Qed.
Lemma g3_range x : -1 <= x <= 1 -> -1 <= g3 x <= 1.
Proof.
  intros [H1 H2]. destruct g3_ends as [E1 E2]. split.
  - destruct H1 as [H1|E]; [rewrite <- E1; left; apply g3_incr; exact H1|rewrite <- E, E1; lra].
  - destruct H2 as [H2|E]; [rewrite <- E2; left; apply g3_incr; exact H2|rewrite E, E2; lra].
Qed.

(* composed rule over any base rule (bp, bw): admissible d in {1,5,9} *)
Definition tref_map (d : nat) (x : R) : R := if (d =? 1)%nat then x else if (d =? 5)%nat then g2 x else g3 x.
Definition tref_dmap (d : nat) (x : R) : R := if (d =? 1)%nat then 1 else if (d =? 5)%nat then derg2 x else derg3 x.

Lemma tref_model d bp bw k : (d = 1 \/ d = 5 \/ d = 9)%nat ->
  tref_pts d bp k = tref_map d (bp k) /\ tref_wts d bp bw k = tref_dmap d (bp k) * bw k.
Proof. intros [ -> | [ -> | -> ] ]; unfold tref_pts, tref_wts, tref_map, tref_dmap; simpl; split; ring. Qed.

Lemma tref_map_deriv d x : is_derive (tref_map d) x (tref_dmap d x).
Proof.
  unfold tref_map, tref_dmap. destruct (d =? 1)%nat.
  - apply (is_derive_id x).
  - destruct (d =? 5)%nat; [apply g2_deriv|apply g3_deriv].
Qed.

Lemma tref_map_incr d a b : a < b -> tref_map d a < tref_map d b.
Proof.
  unfold tref_map. destruct (d =? 1)%nat; [tauto|]. destruct (d =? 5)%nat; [apply g2_incr|apply g3_incr].
Qed.

Lemma tref_map_range d x : -1 <= x <= 1 -> -1 <= tref_map d x <= 1.
Proof.
  unfold tref_map. destruct (d =? 1)%nat; [tauto|]. destruct (d =? 5)%nat; [apply g2_range|apply g3_range].
Qed.

Lemma tref_dmap_pos d x : 0 < tref_dmap d x.
Proof. unfold tref_dmap. destruct (d =? 1)%nat; [lra|]. destruct (d =? 5)%nat; [apply derg2_pos|apply derg3_pos]. Qed.

(* ---------------------------------------------------------------- strip map *)
Lemma is_derive_asin x : -1 < x < 1 -> is_derive asin x (1 / sqrt (1 - x ^ 2)).
Proof.
  intros H. apply is_derive_Reals. replace (x ^ 2) with (x²) by (unfold Rsqr; ring).
  rewrite <- (derive_pt_asin x H). apply derive_pt_eq_1 with (derivable_pt_asin x H). reflexivity.
Qed.
Lemma Derive_asin x : -1 < x < 1 -> Derive asin x = 1 / sqrt (1 - x ^ 2).
Proof. intros H. apply is_derive_unique, is_derive_asin, H. Qed.
Lemma ex_derive_asin x : -1 < x < 1 -> ex_derive asin x.
Proof. intros H. eexists. apply is_derive_asin, H. Qed.

(* away from the end-point mask (| |s| - 1 | > 1e-8) the code's _dergstrip is the derivative of _gstrip *)
Lemma gstrip_deriv rho s : 1 < rho -> -1 < s < 1 -> 1 / 100000000 < Rabs (Rabs s - 1 - 0) ->
  is_derive (gstrip rho) s (dergstrip rho s).
Proof.
  intros Hr Hs Hm. unfold gstrip, dergstrip. cbv zeta.
  destruct (Rle_dec (Rabs (Rabs s - 1 - 0)) (1 / 100000000)) as [Hle|_]; [lra|].
  set (tau := PI / ln rho).
  set (cn := 1 / (ln (1 + exp (- tau * PI)) - ln 2 + PI * tau * (1 / 2 + 1 / (exp (tau * PI) + 1)) / 2)).
  set (td := 1 / 2 + 1 / (exp (tau * PI) + 1)).
  assert (Hq : 0 < sqrt (1 - s ^ 2)) by (apply sqrt_lt_R0; nra).
  auto_derive.
  - pose proof (exp_pos (- tau * (PI / 2 + asin s))). pose proof (exp_pos (- tau * (PI / 2 + - asin s))).
    repeat split; try (apply ex_derive_asin; exact Hs); try exact I; lra.
  - change (Derive (fun x : R => asin x) s) with (Derive asin s). rewrite Derive_asin by exact Hs.
    unfold Rminus in *.
    replace (- tau * (PI / 2 + asin s)) with (- (tau * (PI / 2 + asin s))) by ring.
    replace (- tau * (PI / 2 + - asin s)) with (- (tau * (PI / 2 + - asin s))) by ring.
    rewrite !exp_Ropp.
    pose proof (exp_pos (tau * (PI / 2 + asin s))). pose proof (exp_pos (tau * (PI / 2 + - asin s))).
    set (A := exp (tau * (PI / 2 + asin s))) in *. set (B := exp (tau * (PI / 2 + - asin s))) in *.
    set (q := sqrt (1 + - s ^ 2)) in *.
    field. repeat split; lra.
Qed.

(* end points are fixed, provided the normalisation constant of the map is well defined *)
Definition strip_norm (rho : R) : R :=
  let tau := PI / ln rho in
  ln (1 + exp (- tau * PI)) - ln 2 + PI * tau * (1 / 2 + 1 / (exp (tau * PI) + 1)) / 2.

Lemma gstrip_ends_partial rho : strip_norm rho <> 0 -> gstrip rho 1 = 1 /\ gstrip rho (-1) = -1.
Proof.
  unfold strip_norm. cbv zeta. intros Hn. unfold gstrip. cbv zeta.
  replace (asin (-1)) with (- asin 1) by (rewrite <- asin_opp; f_equal; lra). rewrite asin_1.
  set (tau := PI / ln rho) in *.
  replace (- tau * (PI / 2 + PI / 2)) with (- tau * PI) by field.
  replace (- tau * (PI / 2 - PI / 2)) with 0 by field.
  replace (- tau * (PI / 2 + - (PI / 2))) with 0 by field.
  replace (- tau * (PI / 2 - - (PI / 2))) with (- tau * PI) by field.
  rewrite exp_0. replace (1 + 1) with 2 by ring.
  set (L := ln (1 + exp (- tau * PI))) in *. set (td := 1 / 2 + 1 / (exp (tau * PI) + 1)) in *.
  split; field; intros E; apply Hn; lra.
Qed.

(* value of the code's end-point branch *)
Lemma dergstrip_end rho s : Rabs (Rabs s - 1 - 0) <= 1 / 100000000 ->
  dergstrip rho s = (1 / strip_norm rho) * (PI / ln rho) ^ 2 / 4 * tanh ((PI / ln rho) * PI / 2) ^ 2.
Proof.
  intros H. unfold dergstrip, strip_norm. cbv zeta.
  destruct (Rle_dec (Rabs (Rabs s - 1 - 0)) (1 / 100000000)) as [_|Hn]; [reflexivity|contradiction].
Qed.

Lemma strip_model rho bp bw k :
  strip_pts rho bp k = gstrip rho (bp k) /\ strip_wts rho bp bw k = dergstrip rho (bp k) * bw k.
Proof. split; reflexivity. Qed.

(* hypotheses of gstrip_deriv are satisfiable: rho = 1.1 (the default), s = 1/2 *)
Example gstrip_hyp_sat : 1 < 11 / 10 /\ -1 < 1 / 2 < 1 /\ 1 / 100000000 < Rabs (Rabs (1 / 2) - 1 - 0).
Proof.
  split; [lra|]. split; [lra|]. rewrite (Rabs_right (1 / 2)) by lra.
  replace (1 / 2 - 1 - 0) with (- (1 / 2)) by lra. rewrite Rabs_Ropp, Rabs_right by lra. lra.
Qed.

(* Trefethen polynomial maps over any base rule with nodes in [-1,1] *)
Lemma subst_trefethen_poly_thm d (bp bw : nat -> R) k : (d = 1 \/ d = 5 \/ d = 9)%nat ->
  exists phi dphi : R -> R,
    tref_pts d bp k = phi (bp k) /\ tref_wts d bp bw k = dphi (bp k) * bw k /\
    (forall x, is_derive phi x (dphi x)) /\ (forall x, 0 < dphi x) /\
    (forall a b, a < b -> phi a < phi b) /\ phi (-1) = -1 /\ phi 1 = 1 /\
    (forall x, -1 <= x <= 1 -> -1 <= phi x <= 1).
Proof.
  intros Hd. exists (tref_map d), (tref_dmap d). destruct (tref_model d bp bw k Hd) as [E1 E2].
  split; [exact E1|]. split; [exact E2|]. split; [apply tref_map_deriv|]. split; [apply tref_dmap_pos|].
  split; [apply tref_map_incr|].
  split; [|split; [|apply tref_map_range]].
  - destruct Hd as [ -> | [ -> | -> ] ]; unfold tref_map; simpl; [reflexivity|apply g2_ends|apply g3_ends].
  - destruct Hd as [ -> | [ -> | -> ] ]; unfold tref_map; simpl; [reflexivity|apply g2_ends|apply g3_ends].
Qed.

Lemma tref_ascending d (bp : nat -> R) k : (d = 1 \/ d = 5 \/ d = 9)%nat ->
  bp k < bp (S k) -> tref_pts d bp k < tref_pts d bp (S k).
Proof.
  intros Hd H. destruct (tref_model d bp bp k Hd) as [E1 _]. destruct (tref_model d bp bp (S k) Hd) as [E2 _].
  rewrite E1, E2. apply tref_map_incr. exact H.
Qed.

Lemma tref_in_domain d (bp : nat -> R) k : (d = 1 \/ d = 5 \/ d = 9)%nat ->
  -1 <= bp k <= 1 -> -1 <= tref_pts d bp k <= 1.
Proof. intros Hd H. destruct (tref_model d bp bp k Hd) as [E1 _]. rewrite E1. apply tref_map_range. exact H. Qed.

Lemma subst_trefethen_strip_partial_thm rho (bp bw : nat -> R) k : 1 < rho ->
  strip_pts rho bp k = gstrip rho (bp k) /\ strip_wts rho bp bw k = dergstrip rho (bp k) * bw k /\
  (forall s, -1 < s < 1 -> 1 / 100000000 < Rabs (Rabs s - 1 - 0) -> is_derive (gstrip rho) s (dergstrip rho s)) /\
  (strip_norm rho <> 0 -> gstrip rho 1 = 1 /\ gstrip rho (-1) = -1).
Proof.
  intros Hr. split; [reflexivity|]. split; [reflexivity|]. split; [intros; apply gstrip_deriv; assumption|apply gstrip_ends_partial].
Qed.
