(* C01 — FejerFirst at full strength: with the series length read from the source equal to nsum (repaired code) the rule
   is exact to degree n-1 for EVERY n.  Fails to compile for the pinned code (nsum - 1 terms): see C01_refuted_fejer1.v *)
From Coq Require Import Reals Arith Lia Lra Bool.
From Coquelicot Require Import Coquelicot.
From P Require Import C01_gen C01_model C01_proofs_sums C01_proofs_trig C01_proofs_poly C01_proofs_fejer1.
Open Scope R_scope.

Lemma f1_terms_full s : FejerFirst_terms s = s.
Proof. reflexivity. Qed.

Lemma wts_FejerFirst_is_full n k : wts_FejerFirst n k = wts_FejerFirst_full n k.
Proof. unfold wts_FejerFirst, wts_FejerFirst_full. rewrite f1_terms_full. reflexivity. Qed.

Lemma fejer1_exact_lemma :
  (forall n m, (2 <= n)%nat -> (m <= n - 1)%nat ->
     rsum n (fun k => wts_FejerFirst n k * cheb m (pts_FejerFirst n k)) = cheb_int m) /\
  (forall n f, (2 <= n)%nat -> pspan (n - 1) f ->
     is_RInt f (-1) 1 (rsum n (fun k => wts_FejerFirst n k * f (pts_FejerFirst n k)))) /\
  (forall n d, (2 <= n)%nat -> (d <= n - 1)%nat ->
     rsum n (fun k => wts_FejerFirst n k * pts_FejerFirst n k ^ d) = mono_int d).
Proof.
  assert (A : forall n m, (2 <= n)%nat -> (m <= n - 1)%nat ->
     rsum n (fun k => wts_FejerFirst n k * cheb m (pts_FejerFirst n k)) = cheb_int m).
  { intros n m Hn Hm. rewrite (rsum_ext n _ (fun k => wts_FejerFirst_full n k * cheb m (pts_FejerFirst n k)))
      by (intros; rewrite wts_FejerFirst_is_full; reflexivity). apply fejer1_fixed_exact_lemma; lia. }
  split; [exact A|]. split.
  - intros n f Hn Hf. apply (quad_exact_on_span n (n - 1)); [|exact Hf]. intros m Hm. apply A; assumption.
  - intros n d Hn Hd. apply (quad_exact_monomial n (n - 1)); [|exact Hd]. intros m Hm. apply A; assumption.
Qed.
