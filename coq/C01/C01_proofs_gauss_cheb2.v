(* C01 — GaussChebyshevType2: rescaling of scipy.special.roots_chebyu (oracle), w(x) = sqrt(1-x^2) on [-1,1] *)
From Coq Require Import Reals Arith Lia Lra Bool.
From Coquelicot Require Import Coquelicot.
From P Require Import C01_gen C01_model C01_proofs_sums C01_proofs_poly.
Open Scope R_scope.

Section GaussOracle.
  Variables (n : nat) (ox ow : nat -> R).
  (* Iw p stands for the weighted integral  int w(x) p(x) dx  over the interval of the rule *)
  Variable Iw : (R -> R) -> R.
  (* oracle hypothesis (validated on every run with exact moments): the library rule is exact to degree 2n-1 *)
  Hypothesis oracle_exact : forall p, pspan (2 * n - 1) p -> rsum n (fun i => ow i * p (ox i)) = Iw p.

  Lemma gc2_wrapper_lemma : (forall i, (i < n)%nat -> -1 < ox i < 1) ->
    forall p, pspan (2 * n - 1) p ->
    rsum n (fun k => wts_GaussChebyshevType2 ox ow n k
                     * (sqrt (1 - pts_GaussChebyshevType2 ox n k ^ 2) * p (pts_GaussChebyshevType2 ox n k))) = Iw p.
  Proof.
    intros Hin p Hp. rewrite <- (oracle_exact p Hp). apply rsum_ext. intros k Hk.
    unfold wts_GaussChebyshevType2, pts_GaussChebyshevType2, maybe_rev,
      GaussChebyshevType2_weights_reversed, GaussChebyshevType2_points_reversed, GaussChebyshevType2_weights. cbv zeta.
    assert (0 < sqrt (1 - ox k ^ 2)) by (apply sqrt_lt_R0; pose proof (Hin k Hk); nra).
    field. lra.
  Qed.

  Lemma cheb2_nodes_same k : pts_GaussChebyshevType2 ox n k = ox k.
  Proof. reflexivity. Qed.
End GaussOracle.
