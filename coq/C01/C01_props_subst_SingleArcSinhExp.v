(* C01 property theorems 4/5 — variable-substitution rules: for every step h > 0, size n and index k,
   the weight is the derivative of the node map w.r.t. the (real) index variable, i.e. h * phi'(t_k) with
   t_k = k h; all weights are positive; the node map is strictly increasing (nodes ascend) and stays inside the
   declared domain.  <Rule>_points / <Rule>_weights are re-translated from the constructor source on every run. *)
From Coq Require Import Reals Arith.
From Coquelicot Require Import Coquelicot.
From P Require Import C01_gen C01_model C01_proofs_subst_SingleArcSinhExp.
Open Scope R_scope.

Theorem subst_rules_SingleArcSinhExp : forall h n k, 0 < h ->
  (is_derive (SingleArcSinhExp_points h) (kidx n k) (wts_SingleArcSinhExp h n k) /\
   is_derive (fun t => SingleArcSinhExp_points h (t / h)) (kidx n k * h) (wts_SingleArcSinhExp h n k / h) /\
   0 < wts_SingleArcSinhExp h n k /\
   (forall a b, a < b -> SingleArcSinhExp_points h a < SingleArcSinhExp_points h b) /\
   pts_SingleArcSinhExp h n k < pts_SingleArcSinhExp h n (S k)) /\
  0 < pts_SingleArcSinhExp h n k.
Proof. exact subst_SingleArcSinhExp_thm. Qed.
Print Assumptions subst_rules_SingleArcSinhExp.
