(* C01 property theorems 5/5 (continued) — shape of the closed-form rules, for every n: node k (k < n) lies inside the declared
   domain and the nodes are strictly ascending.  (The number of nodes is n by construction of the index-function
   model; the length of the implementation's arrays is checked by the correspondence.) *)
From Coq Require Import Reals Arith.
From P Require Import C01_gen C01_model C01_proofs_shape.
Open Scope R_scope.

Theorem shape_GaussChebyshevLobatto : forall n k, (2 <= n)%nat -> (k < n)%nat ->
  -1 <= pts_GaussChebyshevLobatto n k <= 1 /\
  ((S k < n)%nat -> pts_GaussChebyshevLobatto n k < pts_GaussChebyshevLobatto n (S k)).
Proof. exact lobatto_shape. Qed.
Print Assumptions shape_GaussChebyshevLobatto.

(* documented closed form: w_i = pi/(n-1) sin(theta_i), halved at both ends *)
Theorem shape_GaussChebyshevLobatto_weights : forall n k, (2 <= n)%nat -> (k < n)%nat ->
  wts_GaussChebyshevLobatto n k
  = halve_ends n (fun i => PI / (INR n - 1) * sin (PI * INR (n - 1 - i) / (INR n - 1))) k.
Proof. exact lobatto_weight_form. Qed.
Print Assumptions shape_GaussChebyshevLobatto_weights.

Theorem shape_FejerFirst : forall n k, (1 <= n)%nat -> (k < n)%nat ->
  -1 <= pts_FejerFirst n k <= 1 /\ ((S k < n)%nat -> pts_FejerFirst n k < pts_FejerFirst n (S k)).
Proof. exact f1_shape. Qed.
Print Assumptions shape_FejerFirst.

Theorem shape_FejerSecond : forall n k, (k < n)%nat ->
  -1 <= pts_FejerSecond n k <= 1 /\ ((S k < n)%nat -> pts_FejerSecond n k < pts_FejerSecond n (S k)).
Proof. exact f2_shape. Qed.
Print Assumptions shape_FejerSecond.
