(* C01 property theorems 2b/5 — Clenshaw-Curtis.
   cheb m = Chebyshev polynomial T_m (three-term recurrence); cheb_int m = its integral over [-1,1];
   pspan D f = "f is a polynomial of degree <= D" (linear span of T_0..T_D, contains every sum_{d<=D} a_d x^d). *)
From Coq Require Import Reals Arith.
From Coquelicot Require Import Coquelicot.
From P Require Import C01_gen C01_model C01_proofs_poly C01_proofs_cc.
Open Scope R_scope.

(* ---- Clenshaw-Curtis as coded: exact on every polynomial of degree <= n-1, for every n >= 2 *)
Theorem cc_exact : forall n m, (2 <= n)%nat -> (m <= n - 1)%nat ->
  rsum n (fun k => wts_ClenshawCurtis n k * cheb m (pts_ClenshawCurtis n k)) = cheb_int m.
Proof. exact cc_exact_lemma. Qed.
Print Assumptions cc_exact.

Theorem cc_exact_poly : forall n f, (2 <= n)%nat -> pspan (n - 1) f ->
  is_RInt f (-1) 1 (rsum n (fun k => wts_ClenshawCurtis n k * f (pts_ClenshawCurtis n k))).
Proof. exact cc_exact_poly_thm. Qed.
Print Assumptions cc_exact_poly.

Theorem cc_exact_monomial : forall n d, (2 <= n)%nat -> (d <= n - 1)%nat ->
  rsum n (fun k => wts_ClenshawCurtis n k * pts_ClenshawCurtis n k ^ d) = mono_int d.
Proof. exact cc_exact_monomial_thm. Qed.
Print Assumptions cc_exact_monomial.

