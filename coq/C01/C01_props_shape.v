(* C01 property theorems 5/5 — shape of the closed-form rules, for every n: node k (k < n) lies inside the declared
   domain and the nodes are strictly ascending.  (The number of nodes is n by construction of the index-function
   model; the length of the implementation's arrays is checked by the correspondence.) *)
From Coq Require Import Reals Arith.
From P Require Import C01_gen C01_model C01_proofs_shape.
Open Scope R_scope.

Theorem shape_Trapezoidal : forall n k, (2 <= n)%nat -> (k < n)%nat ->
  -1 <= pts_Trapezoidal n k <= 1 /\ ((S k < n)%nat -> pts_Trapezoidal n k < pts_Trapezoidal n (S k)).
Proof. exact trapezoid_shape. Qed.
Print Assumptions shape_Trapezoidal.

Theorem shape_Simpson : forall n k, (2 <= n)%nat -> (k < n)%nat ->
  -1 <= pts_Simpson n k <= 1 /\ ((S k < n)%nat -> pts_Simpson n k < pts_Simpson n (S k)).
Proof. exact simpson_shape. Qed.
Print Assumptions shape_Simpson.

Theorem shape_MidPoint : forall n k, (1 <= n)%nat -> (k < n)%nat ->
  -1 < pts_MidPoint n k < 1 /\ pts_MidPoint n k < pts_MidPoint n (S k).
Proof. exact midpoint_shape. Qed.
Print Assumptions shape_MidPoint.

Theorem shape_UniformInteger : forall n k, 0 <= pts_UniformInteger n k /\ pts_UniformInteger n k < pts_UniformInteger n (S k).
Proof. exact uniform_shape. Qed.
Print Assumptions shape_UniformInteger.

Theorem shape_RectangleRuleSineEndPoints : forall n k, (k < n)%nat ->
  -1 < pts_RectangleRuleSineEndPoints n k < 1 /\
  pts_RectangleRuleSineEndPoints n k < pts_RectangleRuleSineEndPoints n (S k).
Proof. exact rrs_shape. Qed.
Print Assumptions shape_RectangleRuleSineEndPoints.

Theorem shape_ClenshawCurtis : forall n k, (2 <= n)%nat -> (k < n)%nat ->
  -1 <= pts_ClenshawCurtis n k <= 1 /\ ((S k < n)%nat -> pts_ClenshawCurtis n k < pts_ClenshawCurtis n (S k)).
Proof. exact cc_shape. Qed.
Print Assumptions shape_ClenshawCurtis.
