(* C01 property theorems 4/5 (continued) — variable-substitution rules: for every step h > 0, size n and index k,
   the weight is the derivative of the node map w.r.t. the (real) index variable, i.e. h * phi'(t_k) with
   t_k = k h; all weights are positive; the node map is strictly increasing (nodes ascend) and stays inside the
   declared domain.  <Rule>_points / <Rule>_weights are re-translated from the constructor source on every run. *)
From Coq Require Import Reals Arith.
From Coquelicot Require Import Coquelicot.
From P Require Import C01_gen C01_model C01_proofs_subst C01_proofs_tref.
Open Scope R_scope.

(* Trefethen polynomial maps (d = 1, 5, 9) over ANY base rule: new weight = phi'(x_k) * base weight, phi a strictly
   increasing bijection of [-1,1] onto itself *)
Theorem subst_rules_trefethen_poly : forall d (bp bw : nat -> R) k, (d = 1 \/ d = 5 \/ d = 9)%nat ->
  exists phi dphi : R -> R,
    tref_pts d bp k = phi (bp k) /\ tref_wts d bp bw k = dphi (bp k) * bw k /\
    (forall x, is_derive phi x (dphi x)) /\ (forall x, 0 < dphi x) /\
    (forall a b, a < b -> phi a < phi b) /\ phi (-1) = -1 /\ phi 1 = 1 /\
    (forall x, -1 <= x <= 1 -> -1 <= phi x <= 1).
Proof. exact subst_trefethen_poly_thm. Qed.
Print Assumptions subst_rules_trefethen_poly.

(* Trefethen strip map: derivative identity away from the end-point mask; end points fixed when the normalisation
   constant is defined.  PARTIAL: monotonicity of _gstrip and the end-point limit of _dergstrip are not proved
   (checked numerically on every run). *)
Theorem subst_rules_trefethen_strip_partial : forall rho (bp bw : nat -> R) k, 1 < rho ->
  strip_pts rho bp k = gstrip rho (bp k) /\ strip_wts rho bp bw k = dergstrip rho (bp k) * bw k /\
  (forall s, -1 < s < 1 -> 1 / 100000000 < Rabs (Rabs s - 1 - 0) -> is_derive (gstrip rho) s (dergstrip rho s)) /\
  (strip_norm rho <> 0 -> gstrip rho 1 = 1 /\ gstrip rho (-1) = -1).
Proof. exact subst_trefethen_strip_partial_thm. Qed.
Print Assumptions subst_rules_trefethen_strip_partial.
