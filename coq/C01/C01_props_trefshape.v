(* C01 property theorems 5/5 (continued) — shape of the closed-form rules, for every n: node k (k < n) lies inside the declared
   domain and the nodes are strictly ascending.  (The number of nodes is n by construction of the index-function
   model; the length of the implementation's arrays is checked by the correspondence.) *)
From Coq Require Import Reals Arith.
From P Require Import C01_gen C01_model C01_proofs_shape C01_proofs_tref C01_proofs_trefshape.
Open Scope R_scope.

Theorem shape_TrefethenCC : forall d n k, (d = 1 \/ d = 5 \/ d = 9)%nat -> (2 <= n)%nat -> (k < n)%nat ->
  -1 <= pts_TrefethenCC d n k <= 1 /\ ((S k < n)%nat -> pts_TrefethenCC d n k < pts_TrefethenCC d n (S k)).
Proof. exact trefethen_cc_shape_thm. Qed.
Print Assumptions shape_TrefethenCC.

(* any Trefethen polynomial map keeps a base rule's nodes ascending and inside [-1,1] *)
Theorem shape_Trefethen_general : forall d (bp : nat -> R) k, (d = 1 \/ d = 5 \/ d = 9)%nat ->
  (bp k < bp (S k) -> tref_pts d bp k < tref_pts d bp (S k)) /\
  (-1 <= bp k <= 1 -> -1 <= tref_pts d bp k <= 1).
Proof. exact (fun d bp k H => conj (tref_ascending d bp k H) (tref_in_domain d bp k H)). Qed.
Print Assumptions shape_Trefethen_general.
