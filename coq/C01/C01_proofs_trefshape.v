(* C01 — shape of TrefethenCC (Clenshaw-Curtis nodes through the polynomial maps) *)
From Coq Require Import Reals Arith Lia Lra.
From P Require Import C01_gen C01_model C01_proofs_shape C01_proofs_tref.
Open Scope R_scope.

Lemma trefethen_cc_shape_thm d n k : (d = 1 \/ d = 5 \/ d = 9)%nat -> (2 <= n)%nat -> (k < n)%nat ->
  -1 <= pts_TrefethenCC d n k <= 1 /\ ((S k < n)%nat -> pts_TrefethenCC d n k < pts_TrefethenCC d n (S k)).
Proof.
  intros Hd Hn Hk. destruct (cc_shape n k Hn Hk) as [Hr Ha]. unfold pts_TrefethenCC. split.
  - apply tref_in_domain; assumption.
  - intros HS. apply tref_ascending; [exact Hd|apply Ha; exact HS].
Qed.

