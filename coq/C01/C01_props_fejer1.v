(* C01 property theorems 2c/5 — Fejer's first rule.
   cheb m = Chebyshev polynomial T_m (three-term recurrence); cheb_int m = its integral over [-1,1];
   pspan D f = "f is a polynomial of degree <= D" (linear span of T_0..T_D, contains every sum_{d<=D} a_d x^d). *)
From Coq Require Import Reals Arith.
From Coquelicot Require Import Coquelicot.
From P Require Import C01_gen C01_model C01_proofs_poly C01_proofs_fejer1.
Open Scope R_scope.

(* ---- FejerFirst: theorems that hold for the series length read from the source whether it is nsum-1 (pinned code) or
        nsum (repaired code); the full-strength statement fejer1_exact is in C01_props_fejer1_exact.v, its refutation for the
        pinned code in C01_refuted_fejer1.v *)
Theorem fejer1_exact_partial : forall n m, (2 <= n)%nat -> (m <= n - 1)%nat -> (Nat.even n = true \/ m < n - 1)%nat ->
  rsum n (fun k => wts_FejerFirst n k * cheb m (pts_FejerFirst n k)) = cheb_int m.
Proof. exact fejer1_exact_partial_lemma. Qed.
Print Assumptions fejer1_exact_partial.

Theorem fejer1_exact_poly_partial : forall n f, (2 <= n)%nat ->
  pspan (if Nat.even n then n - 1 else n - 2)%nat f ->
  is_RInt f (-1) 1 (rsum n (fun k => wts_FejerFirst n k * f (pts_FejerFirst n k))).
Proof. exact fejer1_exact_poly_partial_thm. Qed.
Print Assumptions fejer1_exact_poly_partial.

(* the rule with the full series of nsum terms (model wts_FejerFirst_full): exact to degree n-1 for every n *)
Theorem fejer1_fixed_exact : forall n f, (1 <= n)%nat -> pspan (n - 1) f ->
  is_RInt f (-1) 1 (rsum n (fun k => wts_FejerFirst_full n k * f (pts_FejerFirst n k))).
Proof. exact fejer1_fixed_poly_thm. Qed.
Print Assumptions fejer1_fixed_exact.
