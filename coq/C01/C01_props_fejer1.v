(* C01 property theorems 2c/5 — Fejer's first rule.
   cheb m = Chebyshev polynomial T_m (three-term recurrence); cheb_int m = its integral over [-1,1];
   pspan D f = "f is a polynomial of degree <= D" (linear span of T_0..T_D, contains every sum_{d<=D} a_d x^d). *)
From Coq Require Import Reals Arith.
From Coquelicot Require Import Coquelicot.
From P Require Import C01_gen C01_model C01_proofs_poly C01_proofs_fejer1.
Open Scope R_scope.

(* ---- Fejer 1 as coded (series stops at nsum-1): exact to degree n-2 for every n, to n-1 only for even n;
        for EVERY odd n >= 3 the degree n-1 is integrated wrongly; witness n = 3, x^2 (rule 1, integral 2/3) *)
Theorem fejer1_exact_partial : forall n m, (2 <= n)%nat -> (m <= n - 1)%nat -> (Nat.even n = true \/ m < n - 1)%nat ->
  rsum n (fun k => wts_FejerFirst n k * cheb m (pts_FejerFirst n k)) = cheb_int m.
Proof. exact fejer1_exact_partial_lemma. Qed.
Print Assumptions fejer1_exact_partial.

Theorem fejer1_exact_poly_partial : forall n f, (2 <= n)%nat ->
  pspan (if Nat.even n then n - 1 else n - 2)%nat f ->
  is_RInt f (-1) 1 (rsum n (fun k => wts_FejerFirst n k * f (pts_FejerFirst n k))).
Proof. exact fejer1_exact_poly_partial_thm. Qed.
Print Assumptions fejer1_exact_poly_partial.

Theorem fejer1_exact_refuted :
  exists n d, (2 <= n)%nat /\ (d <= n - 1)%nat /\
    rsum n (fun k => wts_FejerFirst n k * pts_FejerFirst n k ^ d) <> mono_int d.
Proof. exact fejer1_exact_refuted_lemma. Qed.
Print Assumptions fejer1_exact_refuted.

Theorem fejer1_witness_value : rsum 3 (fun k => wts_FejerFirst 3 k * pts_FejerFirst 3 k ^ 2) = 1.
Proof. exact fejer1_n3_x2. Qed.
Print Assumptions fejer1_witness_value.

Theorem fejer1_defect_every_odd_n : forall n, (3 <= n)%nat -> Nat.odd n = true ->
  rsum n (fun k => wts_FejerFirst n k * cheb (n - 1) (pts_FejerFirst n k)) = 0 /\ cheb_int (n - 1) <> 0.
Proof. exact fejer1_defect_odd. Qed.
Print Assumptions fejer1_defect_every_odd_n.

(* proposed fix (`np.arange(nsum) + 1`, `np.ones(nsum)`): exact to degree n-1 for every n *)
Theorem fejer1_fixed_exact : forall n f, (1 <= n)%nat -> pspan (n - 1) f ->
  is_RInt f (-1) 1 (rsum n (fun k => wts_FejerFirst_full n k * f (pts_FejerFirst n k))).
Proof. exact fejer1_fixed_poly_thm. Qed.
Print Assumptions fejer1_fixed_exact.

