(* C01 — GaussLaguerre: rescaling of scipy.special.roots_genlaguerre (oracle), w(x) = x^alpha exp(-x) on [0, inf) *)
From Coq Require Import Reals Arith Lia Lra Bool.
From Coquelicot Require Import Coquelicot.
From P Require Import C01_gen C01_model C01_proofs_sums C01_proofs_poly.
Open Scope R_scope.

Section GaussOracle.
  Variables (n : nat) (ox ow : nat -> R).
  (* Iw p stands for the weighted integral  int w(x) p(x) dx  over the interval of the rule *)
  Variable Iw : (R -> R) -> R.
  (* oracle hypothesis (validated on every run with exact moments): the library rule is exact to degree 2n-1 *)
  Hypothesis oracle_exact : forall p, pspan (2 * n - 1) p -> rsum n (fun i => ow i * p (ox i)) = Iw p.

  Lemma laguerre_wrapper_lemma alpha : (forall i, (i < n)%nat -> 0 < ox i) ->
    forall p, pspan (2 * n - 1) p ->
    rsum n (fun k => wts_GaussLaguerre ox ow alpha n k
                     * (Rpower (pts_GaussLaguerre ox alpha n k) alpha * exp (- pts_GaussLaguerre ox alpha n k)
                        * p (pts_GaussLaguerre ox alpha n k))) = Iw p.
  Proof.
    intros Hin p Hp. rewrite <- (oracle_exact p Hp). apply rsum_ext. intros k Hk.
    unfold wts_GaussLaguerre, pts_GaussLaguerre, maybe_rev,
      GaussLaguerre_weights_reversed, GaussLaguerre_points_reversed, GaussLaguerre_weights. cbv zeta.
    rewrite Rpower_Ropp, exp_Ropp.
    assert (0 < Rpower (ox k) alpha) by apply exp_pos. pose proof (exp_pos (ox k)).
    field. split; lra.
  Qed.

  Lemma laguerre_nodes_same a k : pts_GaussLaguerre ox a n k = ox k.
  Proof. reflexivity. Qed.
End GaussOracle.
