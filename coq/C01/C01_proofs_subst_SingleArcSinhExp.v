(* C01 — SingleArcSinhExp: weight = derivative of the node map, positivity, monotonicity, domain *)
From Coq Require Import Reals Arith Lia Lra.
From Coquelicot Require Import Coquelicot.
From P Require Import C01_gen C01_model C01_proofs_subst.
Open Scope R_scope.

(* ---------------------------------------------------------------- SingleArcSinhExp *)
Lemma SingleArcSinhExp_deriv h k : is_derive (SingleArcSinhExp_points h) k (SingleArcSinhExp_weights h k).
Proof.
  unfold SingleArcSinhExp_points, SingleArcSinhExp_weights. cbv zeta. unfold arcsinh.
  pose proof (exp_pos (k * h)) as He.
  assert (Hq : 0 < exp (k * h) ^ 2 + 1) by nra.
  assert (Hs : 0 < sqrt (exp (k * h) ^ 2 + 1)) by (apply sqrt_lt_R0; exact Hq).
  replace (exp (2 * h * k)) with (exp (k * h) ^ 2).
  2:{ replace (2 * h * k) with (k * h + k * h) by ring. rewrite exp_plus. ring. }
  auto_derive.
  - assert (E : exp (k * h) * (exp (k * h) * 1) + 1 = exp (k * h) ^ 2 + 1) by ring.
    rewrite !E. repeat split; try exact I; lra.
  - assert (E : exp (k * h) * (exp (k * h) * 1) + 1 = exp (k * h) ^ 2 + 1) by ring.
    rewrite !E. set (s := sqrt (exp (k * h) ^ 2 + 1)) in *. field. split; lra.
Qed.
Lemma SingleArcSinhExp_wpos h k : 0 < h -> 0 < SingleArcSinhExp_weights h k.
Proof.
  intros Hh. unfold SingleArcSinhExp_weights. cbv zeta. pose proof (exp_pos (k * h)). pose proof (exp_pos (2 * h * k)).
  apply Rdiv_lt_0_compat; [nra|]. apply sqrt_lt_R0. lra.
Qed.
Lemma SingleArcSinhExp_domain h k : 0 < SingleArcSinhExp_points h k.
Proof.
  unfold SingleArcSinhExp_points. cbv zeta. rewrite <- arcsinh_0. apply arcsinh_lt. apply exp_pos.
Qed.

Lemma subst_SingleArcSinhExp_thm h n k : 0 < h ->
  (is_derive (SingleArcSinhExp_points h) (kidx n k) (wts_SingleArcSinhExp h n k) /\
   is_derive (fun t => SingleArcSinhExp_points h (t / h)) (kidx n k * h) (wts_SingleArcSinhExp h n k / h) /\
   0 < wts_SingleArcSinhExp h n k /\
   (forall a b, a < b -> SingleArcSinhExp_points h a < SingleArcSinhExp_points h b) /\
   pts_SingleArcSinhExp h n k < pts_SingleArcSinhExp h n (S k)) /\
  0 < pts_SingleArcSinhExp h n k.
Proof.
  intros H. split; [|apply SingleArcSinhExp_domain].
  apply (subst_pack (SingleArcSinhExp_points h) (SingleArcSinhExp_weights h));
    [lra|apply SingleArcSinhExp_deriv|intros; apply SingleArcSinhExp_wpos; exact H].
Qed.
