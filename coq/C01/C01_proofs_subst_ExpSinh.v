(* C01 — ExpSinh: weight = derivative of the node map, positivity, monotonicity, domain *)
From Coq Require Import Reals Arith Lia Lra.
From Coquelicot Require Import Coquelicot.
From P Require Import C01_gen C01_model C01_proofs_subst.
Open Scope R_scope.

(* ---------------------------------------------------------------- ExpSinh *)
Lemma ExpSinh_deriv h k : is_derive (ExpSinh_points h) k (ExpSinh_weights h k).
Proof. unfold ExpSinh_points, ExpSinh_weights. cbv zeta. hyp_derive. field. Qed.
Lemma ExpSinh_wpos h k : 0 < h -> 0 < ExpSinh_weights h k.
Proof.
  intros Hh. unfold ExpSinh_weights. cbv zeta. pose proof PI_RGT_0. pose proof (cosh_pos (k * h)).
  pose proof (exp_pos (PI * sinh (k * h) / 2)).
  apply Rdiv_lt_0_compat; [|lra]. apply pos4; assumption.
Qed.
Lemma ExpSinh_domain h k : 0 < ExpSinh_points h k.
Proof. unfold ExpSinh_points. cbv zeta. apply exp_pos. Qed.

Lemma subst_ExpSinh_thm h n k : 0 < h ->
  (is_derive (ExpSinh_points h) (kidx n k) (wts_ExpSinh h n k) /\
   is_derive (fun t => ExpSinh_points h (t / h)) (kidx n k * h) (wts_ExpSinh h n k / h) /\
   0 < wts_ExpSinh h n k /\
   (forall a b, a < b -> ExpSinh_points h a < ExpSinh_points h b) /\
   pts_ExpSinh h n k < pts_ExpSinh h n (S k)) /\
  0 < pts_ExpSinh h n k.
Proof.
  intros H. split; [|apply ExpSinh_domain].
  apply (subst_pack (ExpSinh_points h) (ExpSinh_weights h)); [lra|apply ExpSinh_deriv|intros; apply ExpSinh_wpos; exact H].
Qed.
