(* C01 — weight-divided Gauss rules.
   GaussChebyshev: unconditional (NumPy's chebgauss is a closed form): with the constructor's reversed nodes and
   UNreversed weights the rule integrates T_m / sqrt(1-x^2), m < 2n, exactly (the weights are symmetric).
   GaussChebyshevType2 / GaussLaguerre / GaussLegendre: the constructor's rescaling turns the library rule for the
   weight function w(x) into a rule for plain integrands g = w * p (oracle hypotheses on the library arrays). *)
From Coq Require Import Reals Arith Lia Lra Bool.
From Coquelicot Require Import Coquelicot.
From P Require Import C01_gen C01_model C01_proofs_sums C01_proofs_trig C01_proofs_shape C01_proofs_poly.
Open Scope R_scope.

(* ---------------------------------------------------------------- Gauss-Chebyshev, first kind *)
Lemma f1_theta_range n k : (1 <= n)%nat -> (k < n)%nat -> 0 < f1_theta n k < PI.
Proof.
  intros Hn Hk. assert (HN : 0 < INR n) by (apply lt_0_INR; lia).
  pose proof (pos_INR k). pose proof (INR_le_n1 k n Hk). pose proof PI_RGT_0.
  unfold f1_theta. replace (PI * (2 * INR k + 1) / (2 * INR n)) with (PI * ((2 * INR k + 1) / (2 * INR n))) by (field; lra).
  assert (0 < (2 * INR k + 1) / (2 * INR n) < 1).
  { split; [apply Rdiv_lt_0_compat; lra|].
    apply Rmult_lt_reg_r with (2 * INR n); [lra|]. unfold Rdiv. rewrite Rmult_assoc, Rinv_l by lra. lra. }
  nra.
Qed.

Lemma f1_theta_rev n k : (k < n)%nat -> f1_theta n (n - 1 - k) = PI - f1_theta n k.
Proof.
  intros Hk. assert (HN : 0 < INR n) by (apply lt_0_INR; lia).
  unfold f1_theta. rewrite !minus_INR by lia. simpl INR. field. lra.
Qed.

Lemma gc_wts_form n k : (1 <= n)%nat -> (k < n)%nat -> wts_GaussChebyshev n k = PI / INR n * sin (f1_theta n k).
Proof.
  intros Hn Hk. unfold wts_GaussChebyshev, maybe_rev, GaussChebyshev_weights_reversed, GaussChebyshev_weights. cbv zeta.
  change (chebgauss_x n k) with (cos (f1_theta n k)). unfold chebgauss_w.
  rewrite sqrt_1_cos2 by (pose proof (f1_theta_range n k Hn Hk); lra). ring.
Qed.

Lemma gc_pts_form n k : pts_GaussChebyshev n k = cos (f1_theta n (n - 1 - k)).
Proof. reflexivity. Qed.

(* the weight is (pi/n) * sqrt(1 - x_k^2) at the node it is paired with *)
Lemma gc_weight_matches_node n k : (1 <= n)%nat -> (k < n)%nat ->
  wts_GaussChebyshev n k = PI / INR n * sqrt (1 - pts_GaussChebyshev n k ^ 2).
Proof.
  intros Hn Hk. rewrite gc_wts_form, gc_pts_form by assumption.
  rewrite sqrt_1_cos2 by (pose proof (f1_theta_range n (n - 1 - k) Hn ltac:(lia)); lra).
  rewrite f1_theta_rev by exact Hk. rewrite sin_PI_x. reflexivity.
Qed.

Lemma gauss_chebyshev_exact_lemma n m : (1 <= n)%nat -> (m < 2 * n)%nat ->
  rsum n (fun k => wts_GaussChebyshev n k * (cheb m (pts_GaussChebyshev n k) / sqrt (1 - pts_GaussChebyshev n k ^ 2)))
  = if (m =? 0)%nat then PI else 0.
Proof.
  intros Hn Hm. assert (HN : 0 < INR n) by (apply lt_0_INR; lia).
  rewrite (rsum_ext n _ (rev n (fun i => PI / INR n * cos (INR m * f1_theta n i)))).
  2:{ intros k Hk. rewrite gc_weight_matches_node by assumption. rewrite gc_pts_form. unfold rev. rewrite cheb_cos.
      assert (Hs : 0 < sqrt (1 - cos (f1_theta n (n - 1 - k)) ^ 2)).
      { rewrite sqrt_1_cos2 by (pose proof (f1_theta_range n (n - 1 - k) Hn ltac:(lia)); lra).
        apply sin_gt_0; apply (f1_theta_range n (n - 1 - k)); lia. }
      field. split; lra. }
  rewrite rsum_rev, rsum_scal.
  destruct (Nat.eqb_spec m 0) as [->|H0].
  - rewrite f1_sum_cos0. field. lra.
  - rewrite f1_sum_cos by lia. ring.
Qed.

(* ---------------------------------------------------------------- rules built on library routines *)
Section GaussOracle.
  Variables (n : nat) (ox ow : nat -> R).
  (* Iw p stands for the weighted integral  int w(x) p(x) dx  over the rule's interval *)
  Variable Iw : (R -> R) -> R.
  (* oracle hypothesis (validated on every run with exact moments): the library rule is exact to degree 2n-1 *)
  Hypothesis oracle_exact : forall p, pspan (2 * n - 1) p -> rsum n (fun i => ow i * p (ox i)) = Iw p.

  (* scipy.special.roots_chebyu, w(x) = sqrt(1-x^2) on [-1,1] *)
  Lemma gc2_wrapper_lemma : (forall i, (i < n)%nat -> -1 < ox i < 1) ->
    forall p, pspan (2 * n - 1) p ->
    rsum n (fun k => wts_GaussChebyshevType2 ox ow n k
                     * (sqrt (1 - pts_GaussChebyshevType2 ox n k ^ 2) * p (pts_GaussChebyshevType2 ox n k))) = Iw p.
  Proof.
    intros Hin p Hp. rewrite <- (oracle_exact p Hp). apply rsum_ext. intros k Hk.
    unfold wts_GaussChebyshevType2, pts_GaussChebyshevType2, maybe_rev,
      GaussChebyshevType2_weights_reversed, GaussChebyshevType2_points_reversed, GaussChebyshevType2_weights. cbv zeta.
    assert (0 < sqrt (1 - ox k ^ 2)) by (apply sqrt_lt_R0; pose proof (Hin k Hk); nra).
    field. lra.
  Qed.

  (* scipy.special.roots_genlaguerre, w(x) = x^alpha exp(-x) on [0, inf) *)
  Lemma laguerre_wrapper_lemma alpha : (forall i, (i < n)%nat -> 0 < ox i) ->
    forall p, pspan (2 * n - 1) p ->
    rsum n (fun k => wts_GaussLaguerre ox ow alpha n k
                     * (Rpower (pts_GaussLaguerre ox alpha n k) alpha * exp (- pts_GaussLaguerre ox alpha n k)
                        * p (pts_GaussLaguerre ox alpha n k))) = Iw p.
  Proof.
    intros Hin p Hp. rewrite <- (oracle_exact p Hp). apply rsum_ext. intros k Hk.
    unfold wts_GaussLaguerre, pts_GaussLaguerre, maybe_rev,
      GaussLaguerre_weights_reversed, GaussLaguerre_points_reversed, GaussLaguerre_weights. cbv zeta.
    rewrite Rpower_Ropp, exp_Ropp.
    assert (0 < Rpower (ox k) alpha) by apply exp_pos. pose proof (exp_pos (ox k)).
    field. split; lra.
  Qed.

  (* numpy.polynomial.legendre.leggauss, w(x) = 1 on [-1,1]: the arrays are passed through unchanged *)
  Lemma legendre_wrapper_lemma :
    forall p, pspan (2 * n - 1) p ->
    rsum n (fun k => wts_GaussLegendre ox ow n k * p (pts_GaussLegendre ox n k)) = Iw p.
  Proof.
    intros p Hp. rewrite <- (oracle_exact p Hp). apply rsum_ext. intros k Hk.
    unfold wts_GaussLegendre, pts_GaussLegendre, maybe_rev,
      GaussLegendre_weights_reversed, GaussLegendre_points_reversed, GaussLegendre_weights. reflexivity.
  Qed.

  (* nodes are passed through in the library's order: ascending / in-domain are inherited *)
  Lemma oracle_nodes_same k :
    pts_GaussLegendre ox n k = ox k /\ pts_GaussChebyshevType2 ox n k = ox k /\ forall a, pts_GaussLaguerre ox a n k = ox k.
  Proof. repeat split. Qed.
End GaussOracle.

(* Gauss-Legendre with the integral made explicit *)
Lemma legendre_exact_lemma n (ox ow : nat -> R) :
  (forall p, pspan (2 * n - 1) p -> is_RInt p (-1) 1 (rsum n (fun i => ow i * p (ox i)))) ->
  forall p, pspan (2 * n - 1) p ->
  is_RInt p (-1) 1 (rsum n (fun k => wts_GaussLegendre ox ow n k * p (pts_GaussLegendre ox n k))).
Proof.
  intros H p Hp. rewrite (legendre_wrapper_lemma n ox ow (fun q => rsum n (fun i => ow i * q (ox i)))); [apply H; exact Hp| |exact Hp].
  intros; reflexivity.
Qed.

(* the oracle hypotheses are satisfiable: the 1-point Gauss-Legendre rule (x = 0, w = 2) is exact to degree 1 *)
Example legendre_oracle_sat : forall p, pspan (2 * 1 - 1) p -> is_RInt p (-1) 1 (rsum 1 (fun i => 2 * p 0)).
Proof.
  intros p Hp. simpl rsum. rewrite Rplus_0_l.
  assert (E : 2 * p 0 = rsum 1 (fun k => 2 * p 0)) by (simpl; ring).
  rewrite E. apply (quad_exact_on_span 1 (2 * 1 - 1) (fun _ => 2) (fun _ => 0)); [|exact Hp].
  intros m Hm. simpl rsum. assert (m = 0 \/ m = 1)%nat as [->| ->] by lia; unfold cheb_int; simpl; lra.
Qed.

(* the Gauss-Chebyshev theorem on a concrete instance: 2 points, T_2: sum = 0 *)
Example gauss_chebyshev_2_T2 :
  rsum 2 (fun k => wts_GaussChebyshev 2 k * (cheb 2 (pts_GaussChebyshev 2 k) / sqrt (1 - pts_GaussChebyshev 2 k ^ 2))) = 0.
Proof. rewrite (gauss_chebyshev_exact_lemma 2 2) by lia. reflexivity. Qed.
