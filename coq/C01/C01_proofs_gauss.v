(* C01 — weight-divided Gauss rules.
   GaussChebyshev: unconditional (NumPy's chebgauss is a closed form): with the constructor's reversed nodes and
   UNreversed weights the rule integrates T_m / sqrt(1-x^2), m < 2n, exactly (the weights are symmetric).
   GaussChebyshevType2 / GaussLaguerre / GaussLegendre: the constructor's rescaling turns the library rule for the
   weight function w(x) into a rule for plain integrands g = w * p (oracle hypotheses on the library arrays). *)
From Coq Require Import Reals Arith Lia Lra Bool.
From Coquelicot Require Import Coquelicot.
From P Require Import C01_gen C01_model C01_proofs_sums C01_proofs_trig C01_proofs_shape C01_proofs_poly.
Open Scope R_scope.

(* ---------------------------------------------------------------- Gauss-Chebyshev, first kind *)
Lemma f1_theta_range n k : (1 <= n)%nat -> (k < n)%nat -> 0 < f1_theta n k < PI.
Proof.
  intros Hn Hk. assert (HN : 0 < INR n) by (apply lt_0_INR; lia).
  pose proof (pos_INR k). pose proof (INR_le_n1 k n Hk). pose proof PI_RGT_0.
  unfold f1_theta. replace (PI * (2 * INR k + 1) / (2 * INR n)) with (PI * ((2 * INR k + 1) / (2 * INR n))) by (field; lra).
  assert (0 < (2 * INR k + 1) / (2 * INR n) < 1).
  { split; [apply Rdiv_lt_0_compat; lra|].
    apply Rmult_lt_reg_r with (2 * INR n); [lra|]. unfold Rdiv. rewrite Rmult_assoc, Rinv_l by lra. lra. }
  nra.
Qed.

Lemma f1_theta_rev n k : (k < n)%nat -> f1_theta n (n - 1 - k) = PI - f1_theta n k.
Proof.
  intros Hk. assert (HN : 0 < INR n) by (apply lt_0_INR; lia).
  unfold f1_theta. rewrite !minus_INR by lia. simpl INR. field. lra.
Qed.

Lemma gc_wts_form n k : (1 <= n)%nat -> (k < n)%nat -> wts_GaussChebyshev n k = PI / INR n * sin (f1_theta n k).
Proof.
  intros Hn Hk. unfold wts_GaussChebyshev, maybe_rev, GaussChebyshev_weights_reversed, GaussChebyshev_weights. cbv zeta.
  change (chebgauss_x n k) with (cos (f1_theta n k)). unfold chebgauss_w.
  rewrite sqrt_1_cos2 by (pose proof (f1_theta_range n k Hn Hk); lra). ring.
Qed.

Lemma gc_pts_form n k : pts_GaussChebyshev n k = cos (f1_theta n (n - 1 - k)).
Proof. reflexivity. Qed.

(* the weight is (pi/n) * sqrt(1 - x_k^2) at the node it is paired with *)
Lemma gc_weight_matches_node n k : (1 <= n)%nat -> (k < n)%nat ->
  wts_GaussChebyshev n k = PI / INR n * sqrt (1 - pts_GaussChebyshev n k ^ 2).
Proof.
  intros Hn Hk. rewrite gc_wts_form, gc_pts_form by assumption.
  rewrite sqrt_1_cos2 by (pose proof (f1_theta_range n (n - 1 - k) Hn ltac:(lia)); lra).
  rewrite f1_theta_rev by exact Hk. rewrite sin_PI_x. reflexivity.
Qed.

Lemma gauss_chebyshev_exact_lemma n m : (1 <= n)%nat -> (m < 2 * n)%nat ->
  rsum n (fun k => wts_GaussChebyshev n k * (cheb m (pts_GaussChebyshev n k) / sqrt (1 - pts_GaussChebyshev n k ^ 2)))
  = if (m =? 0)%nat then PI else 0.
Proof.
  intros Hn Hm. assert (HN : 0 < INR n) by (apply lt_0_INR; lia).
  rewrite (rsum_ext n _ (rev n (fun i => PI / INR n * cos (INR m * f1_theta n i)))).
  2:{ intros k Hk. rewrite gc_weight_matches_node by assumption. rewrite gc_pts_form. unfold rev. rewrite cheb_cos.
      assert (Hs : 0 < sqrt (1 - cos (f1_theta n (n - 1 - k)) ^ 2)).
      { rewrite sqrt_1_cos2 by (pose proof (f1_theta_range n (n - 1 - k) Hn ltac:(lia)); lra).
        apply sin_gt_0; apply (f1_theta_range n (n - 1 - k)); lia. }
      field. split; lra. }
  rewrite rsum_rev, rsum_scal.
  destruct (Nat.eqb_spec m 0) as [->|H0].
  - rewrite f1_sum_cos0. field. lra.
  - rewrite f1_sum_cos by lia. ring.
Qed.

(* Gauss-Chebyshev (first kind): the constructor's nodes are the Fejer-1 nodes (reversal flag from the source) *)
Lemma gc_pts_eq n k : pts_GaussChebyshev n k = pts_FejerFirst n k.
Proof. reflexivity. Qed.

Lemma gc_shape n k : (1 <= n)%nat -> (k < n)%nat ->
  -1 <= pts_GaussChebyshev n k <= 1 /\ ((S k < n)%nat -> pts_GaussChebyshev n k < pts_GaussChebyshev n (S k)).
Proof. rewrite !gc_pts_eq. apply f1_shape. Qed.

(* the Gauss-Chebyshev theorem on a concrete instance: 2 points, T_2: sum = 0 *)
Example gauss_chebyshev_2_T2 :
  rsum 2 (fun k => wts_GaussChebyshev 2 k * (cheb 2 (pts_GaussChebyshev 2 k) / sqrt (1 - pts_GaussChebyshev 2 k ^ 2))) = 0.
Proof. rewrite (gauss_chebyshev_exact_lemma 2 2) by lia. reflexivity. Qed.
