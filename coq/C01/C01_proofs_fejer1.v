(* C01 — Fejer's first rule for the series length read from the source (FejerFirst_terms): everything in this file
   holds for nsum-1 terms (pinned code) and for nsum terms (repaired code) *)
From Coq Require Import Reals Arith Lia Lra Bool.
From Coquelicot Require Import Coquelicot.
From P Require Import C01_gen C01_model C01_proofs_sums C01_proofs_trig C01_proofs_poly.
Open Scope R_scope.

(* weights with T series terms, in the unreversed node order *)
Definition f1_w (T n i : nat) : R := (1 - f1_di T n i) * (2 / INR n).
Definition f1_beta (jj : nat) : R := 2 * 1 / (4 * (INR jj + 1) ^ 2 - 1).

Lemma f1_di_eq T n i : f1_di T n i = rsum T (fun jj => f1_beta jj * cos (INR (2 * (jj + 1)) * f1_theta n i)).
Proof.
  unfold f1_di. apply rsum_ext. intros jj _. cbv zeta. unfold f1_beta. f_equal. f_equal.
  rewrite mult_INR, plus_INR. simpl. ring.
Qed.

Lemma f1_quad T n m : (1 <= n)%nat -> (m + 2 * T < 2 * n)%nat ->
  rsum n (fun i => f1_w T n i * cos (INR m * f1_theta n i))
  = if (Nat.even m && (m / 2 <=? T))%nat then cheb_int m else 0.
Proof.
  intros Hn HT. assert (HN : 0 < INR n) by (apply lt_0_INR; lia).
  rewrite (rsum_ext n _ (fun i => (cos (INR m * f1_theta n i)
            - rsum T (fun jj => f1_beta jj * (cos (INR (2 * (jj + 1)) * f1_theta n i) * cos (INR m * f1_theta n i)))) * (2 / INR n))).
  2:{ intros i _. unfold f1_w. rewrite f1_di_eq. set (C := cos (INR m * f1_theta n i)).
      rewrite (rsum_ext T (fun jj => f1_beta jj * (cos (INR (2 * (jj + 1)) * f1_theta n i) * C))
                          (fun jj => (f1_beta jj * cos (INR (2 * (jj + 1)) * f1_theta n i)) * C)) by (intros; ring).
      rewrite (rsum_scal_r T C (fun jj => f1_beta jj * cos (INR (2 * (jj + 1)) * f1_theta n i))). ring. }
  rewrite rsum_scal_r, rsum_minus, rsum_swap.
  rewrite (rsum_ext T _ (fun jj => f1_beta jj * (if (2 * (jj + 1) =? m)%nat then INR n / 2 else 0))).
  2:{ intros jj Hjj. rewrite rsum_scal. f_equal. rewrite f1_orth by lia. unfold orth_val.
      destruct (Nat.eqb_spec (2 * (jj + 1)) m); [|reflexivity].
      destruct (Nat.eqb_spec (2 * (jj + 1)) 0); [lia|reflexivity]. }
  rewrite pick_even. unfold cheb_int.
  destruct (Nat.eqb_spec m 0) as [->|Hm0].
  - rewrite f1_sum_cos0. simpl. field. lra.
  - rewrite f1_sum_cos by lia.
    destruct (Nat.even m) eqn:Hev; cbn [andb]; [|field; lra].
    assert (Hm2 : (1 <= m / 2)%nat).
    { apply Nat.even_spec in Hev. destruct Hev as [i ->]. rewrite Nat.mul_comm, Nat.div_mul by lia. lia. }
    replace ((1 <=? m / 2)%nat) with true by (symmetry; apply Nat.leb_le; exact Hm2).
    destruct (Nat.leb_spec (m / 2) T) as [HmT|HmT]; cbn [andb]; [|field; lra].
    unfold f1_beta. replace (INR (m / 2 - 1) + 1) with (INR (m / 2)) by (rewrite minus_INR by lia; simpl; ring).
    assert (E : INR m = 2 * INR (m / 2)).
    { apply Nat.even_spec in Hev. destruct Hev as [i ->]. rewrite Nat.mul_comm, Nat.div_mul by lia. rewrite mult_INR. simpl. ring. }
    assert (H1 : 1 <= INR (m / 2)) by (replace 1 with (INR 1) by reflexivity; apply le_INR; exact Hm2).
    rewrite E. field. split; [nra|]. split; [lra|nra].
Qed.

(* the rule as returned by the constructor (reversed order), tested on Chebyshev polynomials *)
Lemma f1_rule_sum T n m :
  rsum n (fun k => (rev n (fun i => 1 - f1_di T n i) k * (2 / INR n)) * cheb m (pts_FejerFirst n k))
  = rsum n (fun i => f1_w T n i * cos (INR m * f1_theta n i)).
Proof.
  rewrite <- (rsum_rev n (fun i => f1_w T n i * cos (INR m * f1_theta n i))).
  apply rsum_ext. intros k _. unfold pts_FejerFirst, rev, f1_w. rewrite cheb_cos. reflexivity.
Qed.

Definition f1_T (n : nat) : nat := FejerFirst_terms (f1_nsum n).
(* all that the theorems of this file use about the generated term count *)
Lemma f1_T_bounds n : (f1_nsum n - 1 <= f1_T n <= f1_nsum n)%nat.
Proof. unfold f1_T, FejerFirst_terms. lia. Qed.

Lemma fejer1_code_sum n m : (1 <= n)%nat -> (m <= n - 1)%nat ->
  rsum n (fun k => wts_FejerFirst n k * cheb m (pts_FejerFirst n k))
  = if (Nat.even m && (m / 2 <=? f1_T n))%nat then cheb_int m else 0.
Proof.
  intros Hn Hm. unfold wts_FejerFirst. fold (f1_T n). rewrite f1_rule_sum. apply f1_quad; [exact Hn|].
  pose proof (f1_T_bounds n). unfold f1_nsum in *. pose proof (Nat.mul_div_le n 2). lia.
Qed.

Lemma cheb_int_odd m : Nat.even m = false -> cheb_int m = 0.
Proof. intros H. unfold cheb_int. rewrite H. reflexivity. Qed.

Lemma cheb_int_nz m : Nat.even m = true -> cheb_int m <> 0.
Proof.
  intros H. unfold cheb_int. rewrite H. destruct (Nat.eq_dec m 0) as [->|Hm].
  - simpl. lra.
  - assert (2 <= INR m).
    { replace 2 with (INR 2) by (simpl; lra). apply le_INR. apply Nat.even_spec in H. destruct H as [i ->]. lia. }
    intros E. apply Rmult_integral in E. destruct E as [E|E]; [lra|].
    assert (1 - INR m ^ 2 <> 0) by nra. apply Rinv_neq_0_compat in H1. contradiction.
Qed.

(* exactness of the code's rule wherever it holds: every n, every degree below n-1, and degree n-1 for even n *)
Lemma fejer1_exact_partial_lemma n m : (2 <= n)%nat -> (m <= n - 1)%nat -> (Nat.even n = true \/ m < n - 1)%nat ->
  rsum n (fun k => wts_FejerFirst n k * cheb m (pts_FejerFirst n k)) = cheb_int m.
Proof.
  intros Hn Hm Hc. rewrite fejer1_code_sum by lia.
  destruct (Nat.even m) eqn:Hev; cbn [andb]; [|symmetry; apply cheb_int_odd; exact Hev].
  replace ((m / 2 <=? f1_T n)%nat) with true; [reflexivity|].
  symmetry. apply Nat.leb_le. apply Nat.le_trans with (f1_nsum n - 1)%nat; [|apply f1_T_bounds]. unfold f1_nsum.
  apply Nat.even_spec in Hev. destruct Hev as [i ->]. rewrite (Nat.mul_comm 2 i), Nat.div_mul by lia.
  destruct Hc as [Hen|Hlt].
  - apply Nat.even_spec in Hen. destruct Hen as [q ->]. rewrite (Nat.mul_comm 2 q), Nat.div_mul by lia. lia.
  - assert (i + 1 <= n / 2)%nat; [|lia]. apply Nat.div_le_lower_bound; lia.
Qed.

(* the rule with the full series (nsum terms) is exact for every n and every degree <= n-1 *)
Lemma fejer1_fixed_exact_lemma n m : (1 <= n)%nat -> (m <= n - 1)%nat ->
  rsum n (fun k => wts_FejerFirst_full n k * cheb m (pts_FejerFirst n k)) = cheb_int m.
Proof.
  intros Hn Hm. unfold wts_FejerFirst_full. rewrite f1_rule_sum.
  rewrite f1_quad; [|exact Hn|unfold f1_nsum; pose proof (Nat.mul_div_le n 2); lia].
  destruct (Nat.even m) eqn:Hev; cbn [andb]; [|symmetry; apply cheb_int_odd; exact Hev].
  replace ((m / 2 <=? f1_nsum n)%nat) with true; [reflexivity|].
  symmetry. apply Nat.leb_le. unfold f1_nsum. apply Nat.div_le_mono; lia.
Qed.

Example fejer1_hyp_sat : (2 <= 4)%nat /\ (3 <= 4 - 1)%nat /\ (Nat.even 4 = true \/ 3 < 4 - 1)%nat.
Proof. repeat split; try lia. left. reflexivity. Qed.

(* the code's Fejer-1 rule: every polynomial of degree <= n-2, and <= n-1 when n is even *)
Lemma fejer1_exact_poly_partial_thm n f : (2 <= n)%nat ->
  pspan (if Nat.even n then n - 1 else n - 2)%nat f ->
  is_RInt f (-1) 1 (rsum n (fun k => wts_FejerFirst n k * f (pts_FejerFirst n k))).
Proof.
  intros Hn Hf. apply (quad_exact_on_span n (if Nat.even n then n - 1 else n - 2)%nat); [|exact Hf].
  intros m Hm. apply fejer1_exact_partial_lemma; [exact Hn| |]; destruct (Nat.even n); try lia; left; reflexivity.
Qed.

Lemma fejer1_fixed_poly_thm n f : (1 <= n)%nat -> pspan (n - 1) f ->
  is_RInt f (-1) 1 (rsum n (fun k => wts_FejerFirst_full n k * f (pts_FejerFirst n k))).
Proof. intros Hn Hf. apply (quad_exact_on_span n (n - 1)); [|exact Hf]. intros m Hm. apply fejer1_fixed_exact_lemma; assumption. Qed.

