(* C01 property theorems 2d/5 — Fejer's second rule.
   cheb m = Chebyshev polynomial T_m (three-term recurrence); cheb_int m = its integral over [-1,1];
   pspan D f = "f is a polynomial of degree <= D" (linear span of T_0..T_D, contains every sum_{d<=D} a_d x^d). *)
From Coq Require Import Reals Arith.
From Coquelicot Require Import Coquelicot.
From P Require Import C01_gen C01_model C01_proofs_poly C01_proofs_fejer2.
Open Scope R_scope.

(* ---- Fejer 2 as coded (series stops at nsum-1): odd degrees and even degrees m with m/2 < nsum-1 only;
        for EVERY n >= 2 some even degree <= n-1 is wrong; witness n = 3, x^2 (rule 1/2, integral 2/3);
        n = 2 returns all-zero weights *)
Theorem fejer2_exact_partial : forall n m, (1 <= n)%nat -> (m <= n - 1)%nat ->
  (Nat.even m = false \/ m / 2 < f2_nsum n - 1)%nat ->
  rsum n (fun k => wts_FejerSecond n k * cheb m (pts_FejerSecond n k)) = cheb_int m.
Proof. exact fejer2_exact_partial_lemma. Qed.
Print Assumptions fejer2_exact_partial.

Theorem fejer2_exact_poly_partial : forall n f, (1 <= n)%nat ->
  pspan (2 * (f2_nsum n - 1) - 1)%nat f -> (1 <= f2_nsum n - 1)%nat ->
  is_RInt f (-1) 1 (rsum n (fun k => wts_FejerSecond n k * f (pts_FejerSecond n k))).
Proof. exact fejer2_exact_poly_partial_thm. Qed.
Print Assumptions fejer2_exact_poly_partial.

Theorem fejer2_exact_refuted :
  exists n d, (2 <= n)%nat /\ (d <= n - 1)%nat /\
    rsum n (fun k => wts_FejerSecond n k * pts_FejerSecond n k ^ d) <> mono_int d.
Proof. exact fejer2_exact_refuted_lemma. Qed.
Print Assumptions fejer2_exact_refuted.

Theorem fejer2_witness_value : rsum 3 (fun k => wts_FejerSecond 3 k * pts_FejerSecond 3 k ^ 2) = 1 / 2.
Proof. exact fejer2_n3_x2. Qed.
Print Assumptions fejer2_witness_value.

Theorem fejer2_n2_all_zero : rsum 2 (fun k => wts_FejerSecond 2 k * cheb 0 (pts_FejerSecond 2 k)) = 0.
Proof. exact fejer2_n2_zero. Qed.
Print Assumptions fejer2_n2_all_zero.

Theorem fejer2_defect_every_n : forall n, (2 <= n)%nat ->
  let m := (2 * (f2_nsum n - 1))%nat in
  (m <= n - 1)%nat /\ rsum n (fun k => wts_FejerSecond n k * cheb m (pts_FejerSecond n k)) <> cheb_int m.
Proof. exact fejer2_defect_all. Qed.
Print Assumptions fejer2_defect_every_n.

Theorem fejer2_fixed_exact : forall n f, (1 <= n)%nat -> pspan (n - 1) f ->
  is_RInt f (-1) 1 (rsum n (fun k => wts_FejerSecond_full n k * f (pts_FejerSecond n k))).
Proof. exact fejer2_fixed_poly_thm. Qed.
Print Assumptions fejer2_fixed_exact.
