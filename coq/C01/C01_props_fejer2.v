(* C01 property theorems 2d/5 — Fejer's second rule.
   cheb m = Chebyshev polynomial T_m (three-term recurrence); cheb_int m = its integral over [-1,1];
   pspan D f = "f is a polynomial of degree <= D" (linear span of T_0..T_D, contains every sum_{d<=D} a_d x^d). *)
From Coq Require Import Reals Arith.
From Coquelicot Require Import Coquelicot.
From P Require Import C01_gen C01_model C01_proofs_poly C01_proofs_fejer2.
Open Scope R_scope.

(* ---- FejerSecond: theorems that hold for the series length read from the source whether it is nsum-1 (pinned code) or
        nsum (repaired code); the full-strength statement fejer2_exact is in C01_props_fejer2_exact.v, its refutation for the
        pinned code in C01_refuted_fejer2.v *)
Theorem fejer2_exact_partial : forall n m, (1 <= n)%nat -> (m <= n - 1)%nat ->
  (Nat.even m = false \/ m / 2 < f2_nsum n - 1)%nat ->
  rsum n (fun k => wts_FejerSecond n k * cheb m (pts_FejerSecond n k)) = cheb_int m.
Proof. exact fejer2_exact_partial_lemma. Qed.
Print Assumptions fejer2_exact_partial.

Theorem fejer2_exact_poly_partial : forall n f, (1 <= n)%nat ->
  pspan (2 * (f2_nsum n - 1) - 1)%nat f -> (1 <= f2_nsum n - 1)%nat ->
  is_RInt f (-1) 1 (rsum n (fun k => wts_FejerSecond n k * f (pts_FejerSecond n k))).
Proof. exact fejer2_exact_poly_partial_thm. Qed.
Print Assumptions fejer2_exact_poly_partial.

Theorem fejer2_fixed_exact : forall n f, (1 <= n)%nat -> pspan (n - 1) f ->
  is_RInt f (-1) 1 (rsum n (fun k => wts_FejerSecond_full n k * f (pts_FejerSecond n k))).
Proof. exact fejer2_fixed_poly_thm. Qed.
Print Assumptions fejer2_fixed_exact.
