(* C01 property theorems 4/5 — variable-substitution rules: for every step h > 0, size n and index k,
   the weight is the derivative of the node map w.r.t. the (real) index variable, i.e. h * phi'(t_k) with
   t_k = k h; all weights are positive; the node map is strictly increasing (nodes ascend) and stays inside the
   declared domain.  <Rule>_points / <Rule>_weights are re-translated from the constructor source on every run. *)
From Coq Require Import Reals Arith.
From Coquelicot Require Import Coquelicot.
From P Require Import C01_gen C01_model C01_proofs_subst_SingleTanh.
Open Scope R_scope.

Theorem subst_rules_SingleTanh : forall h n k, 0 < h ->
  (is_derive (SingleTanh_points h) (kidx n k) (wts_SingleTanh h n k) /\
   is_derive (fun t => SingleTanh_points h (t / h)) (kidx n k * h) (wts_SingleTanh h n k / h) /\
   0 < wts_SingleTanh h n k /\
   (forall a b, a < b -> SingleTanh_points h a < SingleTanh_points h b) /\
   pts_SingleTanh h n k < pts_SingleTanh h n (S k)) /\
  -1 < pts_SingleTanh h n k < 1.
Proof. exact subst_SingleTanh_thm. Qed.
Print Assumptions subst_rules_SingleTanh.
