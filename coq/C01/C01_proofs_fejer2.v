(* C01 — Fejer's second rule for the series length read from the source (FejerSecond_terms): everything in this file
   holds for nsum-1 terms (pinned code) and for nsum terms (repaired code) *)
From Coq Require Import Reals Arith Lia Lra Bool.
From Coquelicot Require Import Coquelicot.
From P Require Import C01_gen C01_model C01_proofs_sums C01_proofs_trig C01_proofs_poly.
Open Scope R_scope.

Definition f2_w (T n i : nat) : R := 4 * sin (f2_theta n i) * f2_wi T n i / (INR n + 1).
Definition f2_gam (jj : nat) : R := 1 / INR (2 * jj + 1).

Lemma f2_wi_eq T n i : f2_wi T n i = rsum T (fun jj => f2_gam jj * sin (INR (2 * jj + 1) * f2_theta n i)).
Proof.
  unfold f2_wi. apply rsum_ext. intros jj _. cbv zeta. unfold f2_gam.
  replace (INR (2 * jj + 1)) with (2 * (INR jj + 1) - 1) by (rewrite plus_INR, mult_INR; simpl; ring). reflexivity.
Qed.

(* sum_i w_i * (sin(a theta_i) / sin(theta_i)) * ... : the basic contraction *)
Lemma f2_contract T n a : (a + 2 * T <= 2 * n + 2)%nat ->
  rsum n (fun i => f2_wi T n i * sin (INR a * f2_theta n i))
  = (if (Nat.odd a && (a / 2 <? T))%nat then f2_gam (a / 2) * (INR (S n) / 2) else 0).
Proof.
  intros H.
  rewrite (rsum_ext n _ (fun i => rsum T (fun jj => f2_gam jj * (sin (INR a * f2_theta n i) * sin (INR (2 * jj + 1) * f2_theta n i))))).
  2:{ intros i _. rewrite f2_wi_eq. rewrite <- rsum_scal_r. apply rsum_ext. intros. ring. }
  rewrite rsum_swap.
  rewrite (rsum_ext T _ (fun jj => f2_gam jj * (if (2 * jj + 1 =? a)%nat then INR (S n) / 2 else 0))).
  2:{ intros jj Hjj. rewrite rsum_scal. f_equal. rewrite f2_sin_orth by lia. rewrite Nat.eqb_sym. reflexivity. }
  apply pick_odd.
Qed.

Definition f2_P (T a : nat) : R := if (Nat.odd a && (a / 2 <? T))%nat then 1 / INR a else 0.

Lemma f2_contract' T n a : (a + 2 * T <= 2 * n + 2)%nat ->
  rsum n (fun i => f2_wi T n i * sin (INR a * f2_theta n i)) = f2_P T a * (INR (S n) / 2).
Proof.
  intros H. rewrite f2_contract by exact H. unfold f2_P.
  destruct (Nat.odd a) eqn:Ho; cbn [andb]; [|ring].
  destruct (Nat.ltb_spec (a / 2) T); [|ring].
  unfold f2_gam. apply Nat.odd_spec in Ho. destruct Ho as [i ->].
  replace ((2 * i + 1) / 2)%nat with i by (apply Nat.div_unique with 1%nat; lia). reflexivity.
Qed.

Lemma f2_quad_0 T n : (2 * T < 2 * n + 2)%nat ->
  rsum n (fun i => f2_w T n i * cos (INR 0 * f2_theta n i)) = 2 * f2_P T 1.
Proof.
  intros H. pose proof (pos_INR n) as Hn.
  rewrite (rsum_ext n _ (fun i => (f2_wi T n i * sin (INR 1 * f2_theta n i)) * (4 / (INR n + 1)))).
  2:{ intros i _. unfold f2_w. simpl INR. rewrite Rmult_0_l, cos_0, Rmult_1_l. field. lra. }
  rewrite rsum_scal_r, f2_contract' by lia. rewrite S_INR. field. lra.
Qed.

Lemma f2_quad_pos T n m : (S m + 2 * T < 2 * n + 2)%nat ->
  rsum n (fun i => f2_w T n i * cos (INR (S m) * f2_theta n i)) = f2_P T (S (S m)) - f2_P T m.
Proof.
  intros H. pose proof (pos_INR n) as Hn.
  rewrite (rsum_ext n _ (fun i => (f2_wi T n i * sin (INR (S (S m)) * f2_theta n i)
                                   - f2_wi T n i * sin (INR m * f2_theta n i)) * (2 / (INR n + 1)))).
  2:{ intros i _. unfold f2_w.
      replace (4 * sin (f2_theta n i) * f2_wi T n i / (INR n + 1) * cos (INR (S m) * f2_theta n i))
        with (4 * f2_wi T n i / (INR n + 1) * (sin (f2_theta n i) * cos (INR (S m) * f2_theta n i))) by (field; lra).
      rewrite sin_cos_prod. field. lra. }
  rewrite rsum_scal_r, rsum_minus, !f2_contract' by lia. rewrite S_INR. field. lra.
Qed.

(* value of the T-term rule on T_m, m even, when the series is long enough *)
Lemma f2_quad_exact T n m : (m + 2 * T < 2 * n + 2)%nat -> (Nat.even m = false \/ m / 2 < T)%nat ->
  rsum n (fun i => f2_w T n i * cos (INR m * f2_theta n i)) = cheb_int m.
Proof.
  intros H Hc. unfold cheb_int. destruct m as [|m].
  - rewrite f2_quad_0 by lia. unfold f2_P. simpl Nat.odd. simpl Nat.div. cbn [andb].
    destruct Hc as [Hc|Hc]; [discriminate|]. simpl in Hc.
    destruct (Nat.ltb_spec 0 T); [|lia]. simpl. field.
  - rewrite f2_quad_pos by lia. unfold f2_P.
    destruct (Nat.even (S m)) eqn:Hev.
    + destruct Hc as [Hc|Hc]; [discriminate|].
      apply Nat.even_spec in Hev. destruct Hev as [i Hi].
      assert (Hi1 : (1 <= i)%nat) by lia.
      replace (INR (S m)) with (2 * INR i) by (rewrite Hi, mult_INR; simpl; ring).
      replace (S (S m)) with (2 * i + 1)%nat by lia. replace m with (2 * (i - 1) + 1)%nat by lia.
      replace (Nat.odd (2 * i + 1)) with true by (rewrite Nat.odd_add, Nat.odd_mul; reflexivity).
      replace (Nat.odd (2 * (i - 1) + 1)) with true by (rewrite Nat.odd_add, Nat.odd_mul; reflexivity).
      replace ((2 * i + 1) / 2)%nat with i by (apply Nat.div_unique with 1%nat; lia).
      replace ((2 * (i - 1) + 1) / 2)%nat with (i - 1)%nat by (apply Nat.div_unique with 1%nat; lia).
      rewrite Hi in Hc. rewrite (Nat.mul_comm 2 i), Nat.div_mul in Hc by lia.
      cbn [andb]. destruct (Nat.ltb_spec i T); [|lia]. destruct (Nat.ltb_spec (i - 1) T); [|lia].
      rewrite !plus_INR, !mult_INR, minus_INR by lia. simpl INR.
      assert (1 <= INR i) by (replace 1 with (INR 1) by reflexivity; apply le_INR; lia).
      field. split; [nra|]. split; nra.
    + assert (Ho : Nat.odd (S m) = true) by (rewrite <- Nat.negb_even, Hev; reflexivity).
      replace (Nat.odd (S (S m))) with false by (rewrite Nat.odd_succ, Hev; reflexivity).
      replace (Nat.odd m) with false by (rewrite <- Nat.even_succ, Hev; reflexivity).
      cbn [andb]. ring.
Qed.

Lemma f2_rule_sum T n m :
  rsum n (fun k => (rev n (fun i => 4 * sin (f2_theta n i) * f2_wi T n i) k / (INR n + 1)) * cheb m (pts_FejerSecond n k))
  = rsum n (fun i => f2_w T n i * cos (INR m * f2_theta n i)).
Proof.
  rewrite <- (rsum_rev n (fun i => f2_w T n i * cos (INR m * f2_theta n i))).
  apply rsum_ext. intros k _. unfold pts_FejerSecond, rev, f2_w. rewrite cheb_cos. reflexivity.
Qed.

Definition f2_T (n : nat) : nat := FejerSecond_terms (f2_nsum n).
Lemma f2_T_bounds n : (f2_nsum n - 1 <= f2_T n <= f2_nsum n)%nat.
Proof. unfold f2_T, FejerSecond_terms. lia. Qed.

(* where the rule is exact whatever the series length (nsum-1 or nsum): odd degrees, and even degrees m with m/2 < nsum - 1 *)
Lemma fejer2_exact_partial_lemma n m : (1 <= n)%nat -> (m <= n - 1)%nat -> (Nat.even m = false \/ m / 2 < f2_nsum n - 1)%nat ->
  rsum n (fun k => wts_FejerSecond n k * cheb m (pts_FejerSecond n k)) = cheb_int m.
Proof.
  intros Hn Hm Hc. unfold wts_FejerSecond. fold (f2_T n). rewrite f2_rule_sum. pose proof (f2_T_bounds n) as HB.
  apply f2_quad_exact.
  - unfold f2_nsum in *. pose proof (Nat.mul_div_le (n + 1) 2). lia.
  - destruct Hc as [Hc|Hc]; [left; exact Hc|right; lia].
Qed.

(* the rule with the full series (nsum terms) is exact for every n and every degree <= n-1 *)
Lemma fejer2_fixed_exact_lemma n m : (1 <= n)%nat -> (m <= n - 1)%nat ->
  rsum n (fun k => wts_FejerSecond_full n k * cheb m (pts_FejerSecond n k)) = cheb_int m.
Proof.
  intros Hn Hm. unfold wts_FejerSecond_full. rewrite f2_rule_sum. apply f2_quad_exact.
  - unfold f2_nsum. pose proof (Nat.mul_div_le (n + 1) 2). lia.
  - destruct (Nat.even m) eqn:Hev; [right|left; reflexivity].
    apply Nat.even_spec in Hev. destruct Hev as [i ->]. rewrite (Nat.mul_comm 2 i), Nat.div_mul by lia.
    unfold f2_nsum. apply Nat.div_le_lower_bound; lia.
Qed.


Lemma fejer2_fixed_poly_thm n f : (1 <= n)%nat -> pspan (n - 1) f ->
  is_RInt f (-1) 1 (rsum n (fun k => wts_FejerSecond_full n k * f (pts_FejerSecond n k))).
Proof. intros Hn Hf. apply (quad_exact_on_span n (n - 1)); [|exact Hf]. intros m Hm. apply fejer2_fixed_exact_lemma; assumption. Qed.

(* the code's Fejer-2 rule: every polynomial of degree <= 2*(nsum-1) - 1 *)
Lemma fejer2_exact_poly_partial_thm n f : (1 <= n)%nat ->
  pspan (2 * (f2_nsum n - 1) - 1)%nat f -> (1 <= f2_nsum n - 1)%nat ->
  is_RInt f (-1) 1 (rsum n (fun k => wts_FejerSecond n k * f (pts_FejerSecond n k))).
Proof.
  intros Hn Hf HT. apply (quad_exact_on_span n (2 * (f2_nsum n - 1) - 1)%nat); [|exact Hf].
  assert (HN : (2 * f2_nsum n <= n + 1)%nat) by (unfold f2_nsum; pose proof (Nat.mul_div_le (n + 1) 2); lia).
  intros m Hm. apply fejer2_exact_partial_lemma; [exact Hn|lia|].
  destruct (Nat.even m) eqn:Hev; [right|left; reflexivity].
  apply Nat.even_spec in Hev. destruct Hev as [i ->]. rewrite (Nat.mul_comm 2 i), Nat.div_mul by lia. lia.
Qed.

(* hypotheses of fejer2_exact_partial_lemma are satisfiable on a non-trivial instance: n = 7, T_2 *)
Example fejer2_hyp_sat : (1 <= 7)%nat /\ (2 <= 7 - 1)%nat /\ (Nat.even 2 = false \/ 2 / 2 < f2_nsum 7 - 1)%nat.
Proof. split; [lia|]. split; [lia|]. right. unfold f2_nsum. simpl. lia. Qed.
