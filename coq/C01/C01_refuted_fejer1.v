(* Compiled only to explain a failure of fejer1_exact (C01_props_fejer1_exact.v): with the series length of the
   pinned code (nsum - 1 terms, read from the source) FejerFirst is NOT exact to degree n-1 for odd n.
   This file fails to compile on the repaired code (FejerFirst_terms nsum = nsum); that is expected. *)
From Coq Require Import Reals Arith Lia Lra Bool.
From Coquelicot Require Import Coquelicot.
From P Require Import C01_gen C01_model C01_proofs_sums C01_proofs_trig C01_proofs_poly C01_proofs_fejer1.
Open Scope R_scope.

Lemma f1_T_trunc n : f1_T n = (f1_nsum n - 1)%nat.
Proof. reflexivity. Qed.

(* the defect: for every odd n >= 3 the rule returns 0 for T_{n-1} instead of 2/(1-(n-1)^2) *)
Lemma fejer1_defect_odd n : (3 <= n)%nat -> Nat.odd n = true ->
  rsum n (fun k => wts_FejerFirst n k * cheb (n - 1) (pts_FejerFirst n k)) = 0 /\ cheb_int (n - 1) <> 0.
Proof.
  intros Hn Hodd. apply Nat.odd_spec in Hodd. destruct Hodd as [q ->].
  replace (2 * q + 1 - 1)%nat with (2 * q)%nat by lia.
  assert (Hev : Nat.even (2 * q) = true) by (rewrite Nat.even_mul; reflexivity).
  split; [|apply cheb_int_nz; exact Hev].
  rewrite fejer1_code_sum by lia. rewrite Hev. cbn [andb].
  replace ((2 * q / 2 <=? f1_T (2 * q + 1))%nat) with false; [reflexivity|].
  symmetry. apply Nat.leb_gt. rewrite f1_T_trunc. unfold f1_nsum. rewrite (Nat.mul_comm 2 q), Nat.div_mul by lia.
  replace ((q * 2 + 1) / 2)%nat with q; [lia|].
  apply Nat.div_unique with 1%nat; lia.
Qed.

(* concrete witness: 3 points, f(x) = x^2: the rule gives 1, the integral is 2/3 *)
Lemma fejer1_n3_x2 : rsum 3 (fun k => wts_FejerFirst 3 k * pts_FejerFirst 3 k ^ 2) = 1.
Proof.
  rewrite (rsum_ext 3 _ (fun k => (wts_FejerFirst 3 k * cheb 2 (pts_FejerFirst 3 k)
                                   + wts_FejerFirst 3 k * cheb 0 (pts_FejerFirst 3 k)) / 2)) by (intros; simpl; field).
  unfold Rdiv. rewrite rsum_scal_r, rsum_plus.
  rewrite !fejer1_code_sum by lia. rewrite f1_T_trunc. simpl. unfold cheb_int. simpl. lra.
Qed.

Lemma fejer1_exact_refuted_lemma :
  exists n d, (2 <= n)%nat /\ (d <= n - 1)%nat /\
    rsum n (fun k => wts_FejerFirst n k * pts_FejerFirst n k ^ d) <> mono_int d.
Proof.
  exists 3%nat, 2%nat. split; [lia|]. split; [lia|]. rewrite fejer1_n3_x2. unfold mono_int. simpl. lra.
Qed.


(* the literal negation of fejer1_exact *)
Lemma fejer1_exact_negation :
  ~ (forall n m, (2 <= n)%nat -> (m <= n - 1)%nat ->
       rsum n (fun k => wts_FejerFirst n k * cheb m (pts_FejerFirst n k)) = cheb_int m).
Proof.
  intros H. destruct (fejer1_defect_odd 3 ltac:(lia) eq_refl) as [E N]. apply N. rewrite <- E. symmetry. apply H; lia.
Qed.

Theorem fejer1_exact_refuted :
  exists n d, (2 <= n)%nat /\ (d <= n - 1)%nat /\
    rsum n (fun k => wts_FejerFirst n k * pts_FejerFirst n k ^ d) <> mono_int d.
Proof. exact fejer1_exact_refuted_lemma. Qed.

Theorem fejer1_witness_value : rsum 3 (fun k => wts_FejerFirst 3 k * pts_FejerFirst 3 k ^ 2) = 1.
Proof. exact fejer1_n3_x2. Qed.

Theorem fejer1_defect_every_odd_n : forall n, (3 <= n)%nat -> Nat.odd n = true ->
  rsum n (fun k => wts_FejerFirst n k * cheb (n - 1) (pts_FejerFirst n k)) = 0 /\ cheb_int (n - 1) <> 0.
Proof. exact fejer1_defect_odd. Qed.
