(* Compiled only to explain a failure of fejer2_exact (C01_props_fejer2_exact.v): with the series length of the
   pinned code (nsum - 1 terms, read from the source) FejerSecond is NOT exact to degree n-1, for any n >= 2.
   This file fails to compile on repaired code (FejerSecond_terms nsum = nsum); that is expected. *)
From Coq Require Import Reals Arith Lia Lra Bool.
From Coquelicot Require Import Coquelicot.
From P Require Import C01_gen C01_model C01_proofs_sums C01_proofs_trig C01_proofs_poly C01_proofs_fejer2.
Open Scope R_scope.

Lemma f2_terms_trunc s : FejerSecond_terms s = (s - 1)%nat.
Proof. reflexivity. Qed.

(* the defect on the smallest sizes: n = 2 returns all-zero weights; n = 3 gives -1 for T_2 (integral -2/3) *)
Lemma fejer2_n2_zero : rsum 2 (fun k => wts_FejerSecond 2 k * cheb 0 (pts_FejerSecond 2 k)) = 0.
Proof.
  unfold wts_FejerSecond. rewrite f2_terms_trunc, f2_rule_sum. rewrite f2_quad_0 by (unfold f2_nsum; simpl; lia).
  unfold f2_P, f2_nsum. simpl. lra.
Qed.

Lemma fejer2_n3_T2 : rsum 3 (fun k => wts_FejerSecond 3 k * cheb 2 (pts_FejerSecond 3 k)) = -1.
Proof.
  unfold wts_FejerSecond. rewrite f2_terms_trunc, f2_rule_sum. rewrite f2_quad_pos by (unfold f2_nsum; simpl; lia).
  unfold f2_P, f2_nsum. simpl. lra.
Qed.

Lemma fejer2_n3_x2 : rsum 3 (fun k => wts_FejerSecond 3 k * pts_FejerSecond 3 k ^ 2) = 1 / 2.
Proof.
  rewrite (rsum_ext 3 _ (fun k => (wts_FejerSecond 3 k * cheb 2 (pts_FejerSecond 3 k)
                                   + wts_FejerSecond 3 k * cheb 0 (pts_FejerSecond 3 k)) / 2)) by (intros; simpl; field).
  unfold Rdiv. rewrite rsum_scal_r, rsum_plus. rewrite fejer2_n3_T2.
  rewrite (fejer2_exact_partial_lemma 3 0) by (try lia; right; unfold f2_nsum; simpl; lia).
  unfold cheb_int. simpl. lra.
Qed.

Lemma fejer2_exact_refuted_lemma :
  exists n d, (2 <= n)%nat /\ (d <= n - 1)%nat /\
    rsum n (fun k => wts_FejerSecond n k * pts_FejerSecond n k ^ d) <> mono_int d.
Proof.
  exists 3%nat, 2%nat. split; [lia|]. split; [lia|]. rewrite fejer2_n3_x2. unfold mono_int. simpl. lra.
Qed.

(* for every n >= 2 the even degree m = 2 (nsum - 1) <= n - 1 is integrated wrongly: every size is affected *)
Lemma fejer2_defect_all n : (2 <= n)%nat ->
  let m := (2 * (f2_nsum n - 1))%nat in
  (m <= n - 1)%nat /\
  rsum n (fun k => wts_FejerSecond n k * cheb m (pts_FejerSecond n k)) <> cheb_int m.
Proof.
  intros Hn m. unfold m. set (T := (f2_nsum n - 1)%nat).
  assert (HT : (2 * (T + 1) <= n + 1 /\ n + 1 < 2 * (T + 1) + 2)%nat).
  { unfold T, f2_nsum. pose proof (Nat.div_mod_eq (n + 1) 2). pose proof (Nat.mod_upper_bound (n + 1) 2).
    assert (1 <= (n + 1) / 2)%nat by (apply Nat.div_le_lower_bound; lia). lia. }
  split; [lia|].
  unfold wts_FejerSecond. rewrite f2_terms_trunc. fold T. rewrite f2_rule_sum.
  destruct T as [|T'].
  - simpl Nat.mul. rewrite f2_quad_0 by lia. unfold f2_P, cheb_int. simpl. lra.
  - replace (2 * S T')%nat with (S (2 * T' + 1)) by lia. rewrite f2_quad_pos by lia.
    unfold f2_P, cheb_int.
    replace (Nat.odd (S (S (2 * T' + 1)))) with true by (rewrite !Nat.odd_succ_succ || idtac; rewrite Nat.odd_add, Nat.odd_mul; reflexivity).
    replace (Nat.odd (2 * T' + 1)) with true by (rewrite Nat.odd_add, Nat.odd_mul; reflexivity).
    replace (S (S (2 * T' + 1)) / 2)%nat with (S T') by (apply Nat.div_unique with 1%nat; lia).
    replace ((2 * T' + 1) / 2)%nat with T' by (apply Nat.div_unique with 1%nat; lia).
    replace (Nat.even (S (2 * T' + 1))) with true by (rewrite Nat.even_succ, Nat.odd_add, Nat.odd_mul; reflexivity).
    cbn [andb]. destruct (Nat.ltb_spec (S T') (S T')); [lia|]. destruct (Nat.ltb_spec T' (S T')); [|lia].
    rewrite !S_INR, plus_INR, mult_INR. simpl INR. pose proof (pos_INR T') as HT'.
    intros E. assert (E2 : (0 - 1 / (2 * INR T' + 1)) * ((2 * INR T' + 1) * (1 - (2 * INR T' + 1 + 1) ^ 2))
                          = 2 / (1 - (2 * INR T' + 1 + 1) ^ 2) * ((2 * INR T' + 1) * (1 - (2 * INR T' + 1 + 1) ^ 2))).
    { replace (1 + 1) with 2 in E by ring. rewrite E. reflexivity. }
    assert (1 - (2 * INR T' + 1 + 1) ^ 2 <> 0) by nra.
    field_simplify in E2; [|nra|nra]. nra.
Qed.


(* the literal negation of fejer2_exact *)
Lemma fejer2_exact_negation :
  ~ (forall n m, (2 <= n)%nat -> (m <= n - 1)%nat ->
       rsum n (fun k => wts_FejerSecond n k * cheb m (pts_FejerSecond n k)) = cheb_int m).
Proof.
  intros H. pose proof (H 3%nat 2%nat ltac:(lia) ltac:(lia)) as E. rewrite fejer2_n3_T2 in E.
  unfold cheb_int in E. simpl in E. lra.
Qed.

Theorem fejer2_exact_refuted :
  exists n d, (2 <= n)%nat /\ (d <= n - 1)%nat /\
    rsum n (fun k => wts_FejerSecond n k * pts_FejerSecond n k ^ d) <> mono_int d.
Proof. exact fejer2_exact_refuted_lemma. Qed.

Theorem fejer2_witness_value : rsum 3 (fun k => wts_FejerSecond 3 k * pts_FejerSecond 3 k ^ 2) = 1 / 2.
Proof. exact fejer2_n3_x2. Qed.

Theorem fejer2_n2_all_zero : rsum 2 (fun k => wts_FejerSecond 2 k * cheb 0 (pts_FejerSecond 2 k)) = 0.
Proof. exact fejer2_n2_zero. Qed.

Theorem fejer2_defect_every_n : forall n, (2 <= n)%nat ->
  let m := (2 * (f2_nsum n - 1))%nat in
  (m <= n - 1)%nat /\ rsum n (fun k => wts_FejerSecond n k * cheb m (pts_FejerSecond n k)) <> cheb_int m.
Proof. exact fejer2_defect_all. Qed.
