(* C01 property theorems 2d/5 — Fejer's second rule.
   cheb m = Chebyshev polynomial T_m (three-term recurrence); cheb_int m = its integral over [-1,1];
   pspan D f = "f is a polynomial of degree <= D" (linear span of T_0..T_D, contains every sum_{d<=D} a_d x^d). *)
From Coq Require Import Reals Arith.
From Coquelicot Require Import Coquelicot.
From P Require Import C01_gen C01_model C01_proofs_poly C01_proofs_fejer2_exact.
Open Scope R_scope.

(* FejerSecond for the weights AS THE CODE COMPUTES THEM (series length read from the source): exact on T_0..T_(n-1), on every
   polynomial of degree <= n-1 and on the monomials, for EVERY n >= 2.  Compiles iff the constructor sums nsum terms. *)
Theorem fejer2_exact :
  (forall n m, (2 <= n)%nat -> (m <= n - 1)%nat ->
     rsum n (fun k => wts_FejerSecond n k * cheb m (pts_FejerSecond n k)) = cheb_int m) /\
  (forall n f, (2 <= n)%nat -> pspan (n - 1) f ->
     is_RInt f (-1) 1 (rsum n (fun k => wts_FejerSecond n k * f (pts_FejerSecond n k)))) /\
  (forall n d, (2 <= n)%nat -> (d <= n - 1)%nat ->
     rsum n (fun k => wts_FejerSecond n k * pts_FejerSecond n k ^ d) = mono_int d).
Proof. exact fejer2_exact_lemma. Qed.
Print Assumptions fejer2_exact.
