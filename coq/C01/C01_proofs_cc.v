(* C01 — Clenshaw-Curtis as coded is exact on T_0..T_{n-1} for every n >= 2 *)
From Coq Require Import Reals Arith Lia Lra Bool.
From Coquelicot Require Import Coquelicot.
From P Require Import C01_gen C01_model C01_proofs_sums C01_proofs_trig C01_proofs_poly.
Open Scope R_scope.

Lemma halve_ends_sym N k : (k <= N)%nat ->
  halve_ends (S N) (fun _ => 1) (N - k) = halve_ends (S N) (fun _ => 1) k.
Proof.
  intros Hk. unfold halve_ends. replace (S N - 1)%nat with N by lia.
  destruct (Nat.eqb_spec (N - k) 0); destruct (Nat.eqb_spec (N - k) N); destruct (Nat.eqb_spec k 0); destruct (Nat.eqb_spec k N);
    try lia; reflexivity.
Qed.

(* sum over the reversed closed nodes = cc_sum over the natural order *)
Lemma cc_rev_sum N (w F : nat -> R) :
  rsum (S N) (fun k => halve_ends (S N) (fun i => w (N - i)%nat) k * F (N - k)%nat)
  = cc_sum N (fun i => w i * F i).
Proof.
  unfold cc_sum.
  rewrite <- (rsum_rev (S N) (fun k => halve_ends (S N) (fun _ => 1) k * (w k * F k))).
  apply rsum_ext. intros k Hk. unfold rev. replace (S N - 1 - k)%nat with (N - k)%nat by lia.
  rewrite halve_ends_factor. rewrite halve_ends_sym by lia. ring.
Qed.

Lemma cc_sum_minus N f g : cc_sum N (fun k => f k - g k) = cc_sum N f - cc_sum N g.
Proof. unfold cc_sum. rewrite <- rsum_minus. apply rsum_ext. intros. ring. Qed.

Lemma cc_sum_rsum N J (G : nat -> nat -> R) :
  cc_sum N (fun i => rsum J (fun j => G j i)) = rsum J (fun j => cc_sum N (G j)).
Proof.
  unfold cc_sum.
  rewrite (rsum_ext (S N) _ (fun k => rsum J (fun j => halve_ends (S N) (fun _ => 1) k * G j k)))
    by (intros; rewrite rsum_scal; reflexivity).
  apply rsum_swap.
Qed.

Lemma cc_sum_scal N c f : cc_sum N (fun k => c * f k) = c * cc_sum N f.
Proof. unfold cc_sum. rewrite <- rsum_scal. apply rsum_ext. intros. ring. Qed.

(* the constructor's arrays in the natural (unreversed) order *)
Lemma cc_theta_eq N k : (k <= N)%nat -> cc_theta (S N) k = eq_theta N (N - k).
Proof. intros H. unfold cc_theta, rev, eq_theta. rewrite S_INR. replace (S N - 1 - k)%nat with (N - k)%nat by lia. f_equal. ring. Qed.

Definition cc_W (N i : nat) : R :=
  rsum (cc_jmed (S N)) (fun j => cc_bj (S N) j * cos (INR (2 * (j + 1)) * eq_theta N i)).

Lemma cc_wi_eq N k : (k <= N)%nat -> cc_wi (S N) k = cc_W N (N - k).
Proof.
  intros H. unfold cc_wi, cc_W. apply rsum_ext. intros j _. rewrite cc_theta_eq by exact H.
  f_equal. f_equal. rewrite mult_INR, plus_INR. simpl. ring.
Qed.

Lemma cc_rule_sum N m : (1 <= N)%nat ->
  rsum (S N) (fun k => wts_ClenshawCurtis (S N) k * cheb m (pts_ClenshawCurtis (S N) k))
  = cc_sum N (fun i => (2 * (1 - cc_W N i) / INR N) * cos (INR m * eq_theta N i)).
Proof.
  intros HN. rewrite <- cc_rev_sum. apply rsum_ext. intros k Hk.
  unfold wts_ClenshawCurtis, pts_ClenshawCurtis. rewrite cheb_cos, cc_theta_eq by lia.
  f_equal. rewrite (halve_ends_factor (S N) (fun i => 2 * (1 - cc_wi (S N) i) / (INR (S N) - 1))).
  rewrite (halve_ends_factor (S N) (fun i => 2 * (1 - cc_W N (N - i)) / INR N)).
  f_equal. rewrite cc_wi_eq by lia. rewrite S_INR. f_equal. ring.
Qed.

Lemma cc_exact_lemma n m : (2 <= n)%nat -> (m <= n - 1)%nat ->
  rsum n (fun k => wts_ClenshawCurtis n k * cheb m (pts_ClenshawCurtis n k)) = cheb_int m.
Proof.
  intros Hn Hm. destruct n as [|N]; [lia|]. replace (S N - 1)%nat with N in Hm by lia.
  assert (HN : (1 <= N)%nat) by lia. assert (HNr : 0 < INR N) by (apply lt_0_INR; lia).
  rewrite cc_rule_sum by exact HN.
  set (J := cc_jmed (S N)).
  assert (HJ : (2 * J <= N /\ N < 2 * J + 2)%nat).
  { unfold J, cc_jmed. replace (S N - 1)%nat with N by lia.
    pose proof (Nat.div_mod_eq N 2). pose proof (Nat.mod_upper_bound N 2). lia. }
  rewrite (cc_sum_ext N _ (fun i => (cos (INR m * eq_theta N i)
       - rsum J (fun j => cc_bj (S N) j * (cos (INR (2 * (j + 1)) * eq_theta N i) * cos (INR m * eq_theta N i)))) * (2 / INR N))).
  2:{ intros i _. unfold cc_W. fold J. set (C := cos (INR m * eq_theta N i)).
      rewrite (rsum_ext J (fun j => cc_bj (S N) j * (cos (INR (2 * (j + 1)) * eq_theta N i) * C))
                          (fun j => (cc_bj (S N) j * cos (INR (2 * (j + 1)) * eq_theta N i)) * C)) by (intros; ring).
      rewrite (rsum_scal_r J C (fun j => cc_bj (S N) j * cos (INR (2 * (j + 1)) * eq_theta N i))). field. lra. }
  rewrite cc_sum_scal_r, cc_sum_minus.
  rewrite (cc_sum_rsum N J (fun j i => cc_bj (S N) j * (cos (INR (2 * (j + 1)) * eq_theta N i) * cos (INR m * eq_theta N i)))).
  set (c := if (m =? N)%nat then INR N else INR N / 2).
  rewrite (rsum_ext J _ (fun j => cc_bj (S N) j * (if (2 * (j + 1) =? m)%nat then c else 0))).
  2:{ intros j Hj. rewrite cc_sum_scal. f_equal. rewrite cc_orth_val by lia. unfold c.
      destruct (Nat.eqb_spec (2 * (j + 1)) m) as [<-|]; reflexivity. }
  rewrite pick_even. rewrite cc_sum_cos_all by lia. unfold cc_D, cheb_int.
  destruct (Nat.eqb_spec m 0) as [->|Hm0].
  - simpl. field. lra.
  - destruct (Nat.eqb_spec m (2 * N)); [lia|]. simpl orb. cbv iota.
    destruct (Nat.even m) eqn:Hev; cbn [andb]; [|field; lra].
    apply Nat.even_spec in Hev. destruct Hev as [i ->]. rewrite (Nat.mul_comm 2 i), Nat.div_mul by lia.
    destruct (Nat.leb_spec 1 i); [|lia]. destruct (Nat.leb_spec i J); [|lia]. cbn [andb].
    assert (Hi : 1 <= INR i) by (replace 1 with (INR 1) by reflexivity; apply le_INR; lia).
    replace (INR (i * 2)) with (2 * INR i) by (rewrite mult_INR; simpl; ring).
    unfold cc_bj. fold J. rewrite minus_INR by lia. simpl INR. unfold c.
    destruct (Nat.eqb_spec (2 * i) N) as [E|E].
    + assert (i = J) by lia. subst i.
      destruct (Nat.eqb_spec (2 * J + 1) (S N)); [|exfalso; lia]. rewrite Nat.eqb_refl. cbn [andb].
      assert (EN : INR N = 2 * INR J) by (rewrite <- E, mult_INR; simpl; ring). rewrite EN.
      field. repeat split; nra.
    + replace ((2 * J + 1 =? S N)%nat && (i - 1 =? J - 1)%nat) with false.
      2:{ symmetry. apply andb_false_iff. destruct (Nat.eqb_spec (2 * J + 1) (S N)); [|left; reflexivity].
          right. apply Nat.eqb_neq. lia. }
      field. repeat split; nra.
Qed.

Example cc_hyp_sat : (2 <= 7)%nat /\ (6 <= 7 - 1)%nat.
Proof. lia. Qed.

(* every polynomial of degree <= n-1 (pspan), and the monomials in particular *)
Lemma cc_exact_poly_thm n f : (2 <= n)%nat -> pspan (n - 1) f ->
  is_RInt f (-1) 1 (rsum n (fun k => wts_ClenshawCurtis n k * f (pts_ClenshawCurtis n k))).
Proof. intros Hn Hf. apply (quad_exact_on_span n (n - 1)); [|exact Hf]. intros m Hm. apply cc_exact_lemma; assumption. Qed.

Lemma cc_exact_monomial_thm n d : (2 <= n)%nat -> (d <= n - 1)%nat ->
  rsum n (fun k => wts_ClenshawCurtis n k * pts_ClenshawCurtis n k ^ d) = mono_int d.
Proof. intros Hn Hd. apply (quad_exact_monomial n (n - 1)); [|exact Hd]. intros m Hm. apply cc_exact_lemma; assumption. Qed.

