(* C01 — ExpExp: weight = derivative of the node map, positivity, monotonicity, domain *)
From Coq Require Import Reals Arith Lia Lra.
From Coquelicot Require Import Coquelicot.
From P Require Import C01_gen C01_model C01_proofs_subst.
Open Scope R_scope.

(* ---------------------------------------------------------------- ExpExp *)
Lemma ExpExp_deriv h k : is_derive (ExpExp_points h) k (ExpExp_weights h k).
Proof.
  unfold ExpExp_points, ExpExp_weights. cbv zeta. auto_derive; [exact I|].
  replace (- k * h) with (- (k * h)) by ring. rewrite (exp_Ropp (k * h)).
  pose proof (exp_pos (k * h)). field. lra.
Qed.
Lemma ExpExp_wpos h k : 0 < h -> 0 < ExpExp_weights h k.
Proof.
  intros Hh. unfold ExpExp_weights. cbv zeta. pose proof (exp_pos (k * h)). pose proof (exp_pos (- exp (- k * h))).
  apply Rmult_lt_0_compat; [apply Rmult_lt_0_compat; assumption|lra].
Qed.
Lemma ExpExp_domain h k : 0 < ExpExp_points h k.
Proof. unfold ExpExp_points. cbv zeta. apply Rmult_lt_0_compat; apply exp_pos. Qed.

Lemma subst_ExpExp_thm h n k : 0 < h ->
  (is_derive (ExpExp_points h) (kidx n k) (wts_ExpExp h n k) /\
   is_derive (fun t => ExpExp_points h (t / h)) (kidx n k * h) (wts_ExpExp h n k / h) /\
   0 < wts_ExpExp h n k /\
   (forall a b, a < b -> ExpExp_points h a < ExpExp_points h b) /\
   pts_ExpExp h n k < pts_ExpExp h n (S k)) /\
  0 < pts_ExpExp h n k.
Proof.
  intros H. split; [|apply ExpExp_domain].
  apply (subst_pack (ExpExp_points h) (ExpExp_weights h)); [lra|apply ExpExp_deriv|intros; apply ExpExp_wpos; exact H].
Qed.
