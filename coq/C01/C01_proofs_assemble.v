(* C01 — final statements assembled from the lemma files (the props files only `exact` these). *)
From Coq Require Import Reals Arith Lia Lra Bool.
From Coquelicot Require Import Coquelicot.
From P Require Import C01_gen C01_model C01_proofs_sums C01_proofs_nc C01_proofs_trig C01_proofs_poly
  C01_proofs_fejer1 C01_proofs_fejer2 C01_proofs_cc C01_proofs_shape C01_proofs_gauss C01_proofs_subst C01_proofs_tref.
Open Scope R_scope.

(* ---------------------------------------------------------------- 1. Newton-Cotes *)
Lemma newton_cotes_exact_thm :
  (forall n d, (2 <= n)%nat -> (d <= 1)%nat ->
     rsum n (fun k => wts_Trapezoidal n k * pts_Trapezoidal n k ^ d) = mono_int d) /\
  (forall n d, (1 <= n)%nat -> (d <= 1)%nat ->
     rsum n (fun k => wts_MidPoint n k * pts_MidPoint n k ^ d) = mono_int d) /\
  (forall n d, (3 <= n)%nat -> Nat.odd n = true -> (d <= 3)%nat ->
     rsum n (fun k => wts_Simpson n k * pts_Simpson n k ^ d) = mono_int d).
Proof. split; [exact trapezoid_exact_lemma|split; [exact midpoint_exact_lemma|exact simpson_exact_lemma]]. Qed.

(* ---------------------------------------------------------------- 2. discrete orthogonality *)
Lemma cheb_discrete_orth_thm :
  (forall n c, (1 <= n)%nat -> (0 < c < 2 * n)%nat -> rsum n (fun k => cos (INR c * f1_theta n k)) = 0) /\
  (forall n a b, (1 <= n)%nat -> (a + b < 2 * n)%nat ->
     rsum n (fun k => cos (INR a * f1_theta n k) * cos (INR b * f1_theta n k))
     = if (a =? b)%nat then (if (a =? 0)%nat then INR n else INR n / 2) else 0) /\
  (forall N c, (1 <= N)%nat -> (0 < c < 2 * N)%nat ->
     rsum (S N) (fun k => halve_ends (S N) (fun _ => 1) k * cos (INR c * (PI * INR k / INR N))) = 0) /\
  (forall N a b, (1 <= N)%nat -> (1 <= a <= N)%nat -> (b <= N)%nat ->
     rsum (S N) (fun k => halve_ends (S N) (fun _ => 1) k * (cos (INR a * (PI * INR k / INR N)) * cos (INR b * (PI * INR k / INR N))))
     = if (a =? b)%nat then (if (a =? N)%nat then INR N else INR N / 2) else 0) /\
  (forall n a b, (1 <= b)%nat -> (a + b < 2 * (n + 1))%nat ->
     rsum n (fun i => sin (INR a * f2_theta n i) * sin (INR b * f2_theta n i)) = if (a =? b)%nat then INR (S n) / 2 else 0).
Proof.
  split; [exact f1_sum_cos|]. split; [exact f1_orth|]. split; [exact cc_sum_cos|]. split; [exact cc_orth_val|exact f2_sin_orth].
Qed.

(* ---------------------------------------------------------------- 3. Clenshaw-Curtis / Fejer *)
Lemma cc_exact_poly_thm n f : (2 <= n)%nat -> pspan (n - 1) f ->
  is_RInt f (-1) 1 (rsum n (fun k => wts_ClenshawCurtis n k * f (pts_ClenshawCurtis n k))).
Proof. intros Hn Hf. apply (quad_exact_on_span n (n - 1)); [|exact Hf]. intros m Hm. apply cc_exact_lemma; assumption. Qed.

Lemma cc_exact_monomial_thm n d : (2 <= n)%nat -> (d <= n - 1)%nat ->
  rsum n (fun k => wts_ClenshawCurtis n k * pts_ClenshawCurtis n k ^ d) = mono_int d.
Proof. intros Hn Hd. apply (quad_exact_monomial n (n - 1)); [|exact Hd]. intros m Hm. apply cc_exact_lemma; assumption. Qed.

(* the code's Fejer-1 rule: every polynomial of degree <= n-2, and <= n-1 when n is even *)
Lemma fejer1_exact_poly_partial_thm n f : (2 <= n)%nat ->
  pspan (if Nat.even n then n - 1 else n - 2)%nat f ->
  is_RInt f (-1) 1 (rsum n (fun k => wts_FejerFirst n k * f (pts_FejerFirst n k))).
Proof.
  intros Hn Hf. apply (quad_exact_on_span n (if Nat.even n then n - 1 else n - 2)%nat); [|exact Hf].
  intros m Hm. apply fejer1_exact_partial_lemma; [exact Hn| |]; destruct (Nat.even n); try lia; left; reflexivity.
Qed.

Lemma fejer1_fixed_poly_thm n f : (1 <= n)%nat -> pspan (n - 1) f ->
  is_RInt f (-1) 1 (rsum n (fun k => wts_FejerFirst_full n k * f (pts_FejerFirst n k))).
Proof. intros Hn Hf. apply (quad_exact_on_span n (n - 1)); [|exact Hf]. intros m Hm. apply fejer1_fixed_exact_lemma; assumption. Qed.

Lemma fejer2_fixed_poly_thm n f : (1 <= n)%nat -> pspan (n - 1) f ->
  is_RInt f (-1) 1 (rsum n (fun k => wts_FejerSecond_full n k * f (pts_FejerSecond n k))).
Proof. intros Hn Hf. apply (quad_exact_on_span n (n - 1)); [|exact Hf]. intros m Hm. apply fejer2_fixed_exact_lemma; assumption. Qed.

(* the code's Fejer-2 rule: every polynomial of degree <= 2*(nsum-1) - 1 *)
Lemma fejer2_exact_poly_partial_thm n f : (1 <= n)%nat ->
  pspan (2 * (f2_nsum n - 1) - 1)%nat f -> (1 <= f2_nsum n - 1)%nat ->
  is_RInt f (-1) 1 (rsum n (fun k => wts_FejerSecond n k * f (pts_FejerSecond n k))).
Proof.
  intros Hn Hf HT. apply (quad_exact_on_span n (2 * (f2_nsum n - 1) - 1)%nat); [|exact Hf].
  assert (HN : (2 * f2_nsum n <= n + 1)%nat) by (unfold f2_nsum; pose proof (Nat.mul_div_le (n + 1) 2); lia).
  intros m Hm. apply fejer2_exact_partial_lemma; [exact Hn|lia|].
  destruct (Nat.even m) eqn:Hev; [right|left; reflexivity].
  apply Nat.even_spec in Hev. destruct Hev as [i ->]. rewrite (Nat.mul_comm 2 i), Nat.div_mul by lia. lia.
Qed.

(* ---------------------------------------------------------------- 5. substitution rules *)
Lemma subst_pack (P W : R -> R) h n k :
  h <> 0 -> (forall x, is_derive P x (W x)) -> (forall x, 0 < W x) ->
  is_derive P (kidx n k) (W (kidx n k)) /\
  is_derive (fun t => P (t / h)) (kidx n k * h) (W (kidx n k) / h) /\
  0 < W (kidx n k) /\
  (forall a b, a < b -> P a < P b) /\
  P (kidx n k) < P (kidx n (S k)).
Proof.
  intros Hh Hd Hp. split; [apply Hd|]. split; [apply step_form; [exact Hh|apply Hd]|]. split; [apply Hp|].
  assert (Hi : forall a b, a < b -> P a < P b) by (apply (incr_of_deriv P W Hd Hp)).
  split; [exact Hi|apply Hi, kidx_lt].
Qed.

Lemma subst_TanhSinh_thm delta n k : 0 < delta ->
  (is_derive (TanhSinh_points delta) (kidx n k) (wts_TanhSinh delta n k) /\
   is_derive (fun t => TanhSinh_points delta (t / delta)) (kidx n k * delta) (wts_TanhSinh delta n k / delta) /\
   0 < wts_TanhSinh delta n k /\
   (forall a b, a < b -> TanhSinh_points delta a < TanhSinh_points delta b) /\
   pts_TanhSinh delta n k < pts_TanhSinh delta n (S k)) /\
  -1 < pts_TanhSinh delta n k < 1.
Proof.
  intros H. split; [|apply TanhSinh_domain].
  apply (subst_pack (TanhSinh_points delta) (TanhSinh_weights delta)); [lra|apply TanhSinh_deriv|intros; apply TanhSinh_wpos; exact H].
Qed.

Lemma subst_ExpSinh_thm h n k : 0 < h ->
  (is_derive (ExpSinh_points h) (kidx n k) (wts_ExpSinh h n k) /\
   is_derive (fun t => ExpSinh_points h (t / h)) (kidx n k * h) (wts_ExpSinh h n k / h) /\
   0 < wts_ExpSinh h n k /\
   (forall a b, a < b -> ExpSinh_points h a < ExpSinh_points h b) /\
   pts_ExpSinh h n k < pts_ExpSinh h n (S k)) /\
  0 < pts_ExpSinh h n k.
Proof.
  intros H. split; [|apply ExpSinh_domain].
  apply (subst_pack (ExpSinh_points h) (ExpSinh_weights h)); [lra|apply ExpSinh_deriv|intros; apply ExpSinh_wpos; exact H].
Qed.

Lemma subst_LogExpSinh_thm h n k : 0 < h ->
  (is_derive (LogExpSinh_points h) (kidx n k) (wts_LogExpSinh h n k) /\
   is_derive (fun t => LogExpSinh_points h (t / h)) (kidx n k * h) (wts_LogExpSinh h n k / h) /\
   0 < wts_LogExpSinh h n k /\
   (forall a b, a < b -> LogExpSinh_points h a < LogExpSinh_points h b) /\
   pts_LogExpSinh h n k < pts_LogExpSinh h n (S k)) /\
  0 < pts_LogExpSinh h n k.
Proof.
  intros H. split; [|apply LogExpSinh_domain].
  apply (subst_pack (LogExpSinh_points h) (LogExpSinh_weights h)); [lra|apply LogExpSinh_deriv|intros; apply LogExpSinh_wpos; exact H].
Qed.

Lemma subst_ExpExp_thm h n k : 0 < h ->
  (is_derive (ExpExp_points h) (kidx n k) (wts_ExpExp h n k) /\
   is_derive (fun t => ExpExp_points h (t / h)) (kidx n k * h) (wts_ExpExp h n k / h) /\
   0 < wts_ExpExp h n k /\
   (forall a b, a < b -> ExpExp_points h a < ExpExp_points h b) /\
   pts_ExpExp h n k < pts_ExpExp h n (S k)) /\
  0 < pts_ExpExp h n k.
Proof.
  intros H. split; [|apply ExpExp_domain].
  apply (subst_pack (ExpExp_points h) (ExpExp_weights h)); [lra|apply ExpExp_deriv|intros; apply ExpExp_wpos; exact H].
Qed.

Lemma subst_SingleTanh_thm h n k : 0 < h ->
  (is_derive (SingleTanh_points h) (kidx n k) (wts_SingleTanh h n k) /\
   is_derive (fun t => SingleTanh_points h (t / h)) (kidx n k * h) (wts_SingleTanh h n k / h) /\
   0 < wts_SingleTanh h n k /\
   (forall a b, a < b -> SingleTanh_points h a < SingleTanh_points h b) /\
   pts_SingleTanh h n k < pts_SingleTanh h n (S k)) /\
  -1 < pts_SingleTanh h n k < 1.
Proof.
  intros H. split; [|apply SingleTanh_domain].
  apply (subst_pack (SingleTanh_points h) (SingleTanh_weights h)); [lra|apply SingleTanh_deriv|intros; apply SingleTanh_wpos; exact H].
Qed.

Lemma subst_SingleExp_thm h n k : 0 < h ->
  (is_derive (SingleExp_points h) (kidx n k) (wts_SingleExp h n k) /\
   is_derive (fun t => SingleExp_points h (t / h)) (kidx n k * h) (wts_SingleExp h n k / h) /\
   0 < wts_SingleExp h n k /\
   (forall a b, a < b -> SingleExp_points h a < SingleExp_points h b) /\
   pts_SingleExp h n k < pts_SingleExp h n (S k)) /\
  0 < pts_SingleExp h n k.
Proof.
  intros H. split; [|apply SingleExp_domain].
  apply (subst_pack (SingleExp_points h) (SingleExp_weights h)); [lra|apply SingleExp_deriv|intros; apply SingleExp_wpos; exact H].
Qed.

Lemma subst_SingleArcSinhExp_thm h n k : 0 < h ->
  (is_derive (SingleArcSinhExp_points h) (kidx n k) (wts_SingleArcSinhExp h n k) /\
   is_derive (fun t => SingleArcSinhExp_points h (t / h)) (kidx n k * h) (wts_SingleArcSinhExp h n k / h) /\
   0 < wts_SingleArcSinhExp h n k /\
   (forall a b, a < b -> SingleArcSinhExp_points h a < SingleArcSinhExp_points h b) /\
   pts_SingleArcSinhExp h n k < pts_SingleArcSinhExp h n (S k)) /\
  0 < pts_SingleArcSinhExp h n k.
Proof.
  intros H. split; [|apply SingleArcSinhExp_domain].
  apply (subst_pack (SingleArcSinhExp_points h) (SingleArcSinhExp_weights h));
    [lra|apply SingleArcSinhExp_deriv|intros; apply SingleArcSinhExp_wpos; exact H].
Qed.

(* index array: n consecutive integers, symmetric about 0 for odd n *)
Lemma subst_index_thm n k :
  kidx n (S k) = kidx n k + 1 /\ kidx n 0 = - INR ((n - 1) / 2) /\ (Nat.odd n = true -> kidx n (n - 1) = INR ((n - 1) / 2)).
Proof. split; [apply kidx_S|split; [apply kidx_first|apply kidx_last]]. Qed.

(* Trefethen polynomial maps over any base rule with nodes in [-1,1] *)
Lemma subst_trefethen_poly_thm d (bp bw : nat -> R) k : (d = 1 \/ d = 5 \/ d = 9)%nat ->
  exists phi dphi : R -> R,
    tref_pts d bp k = phi (bp k) /\ tref_wts d bp bw k = dphi (bp k) * bw k /\
    (forall x, is_derive phi x (dphi x)) /\ (forall x, 0 < dphi x) /\
    (forall a b, a < b -> phi a < phi b) /\ phi (-1) = -1 /\ phi 1 = 1 /\
    (forall x, -1 <= x <= 1 -> -1 <= phi x <= 1).
Proof.
  intros Hd. exists (tref_map d), (tref_dmap d). destruct (tref_model d bp bw k Hd) as [E1 E2].
  split; [exact E1|]. split; [exact E2|]. split; [apply tref_map_deriv|]. split; [apply tref_dmap_pos|].
  split; [apply tref_map_incr|].
  split; [|split; [|apply tref_map_range]].
  - destruct Hd as [ -> | [ -> | -> ] ]; unfold tref_map; simpl; [reflexivity|apply g2_ends|apply g3_ends].
  - destruct Hd as [ -> | [ -> | -> ] ]; unfold tref_map; simpl; [reflexivity|apply g2_ends|apply g3_ends].
Qed.

Lemma tref_ascending d (bp : nat -> R) k : (d = 1 \/ d = 5 \/ d = 9)%nat ->
  bp k < bp (S k) -> tref_pts d bp k < tref_pts d bp (S k).
Proof.
  intros Hd H. destruct (tref_model d bp bp k Hd) as [E1 _]. destruct (tref_model d bp bp (S k) Hd) as [E2 _].
  rewrite E1, E2. apply tref_map_incr. exact H.
Qed.

Lemma tref_in_domain d (bp : nat -> R) k : (d = 1 \/ d = 5 \/ d = 9)%nat ->
  -1 <= bp k <= 1 -> -1 <= tref_pts d bp k <= 1.
Proof. intros Hd H. destruct (tref_model d bp bp k Hd) as [E1 _]. rewrite E1. apply tref_map_range. exact H. Qed.

Lemma trefethen_cc_shape_thm d n k : (d = 1 \/ d = 5 \/ d = 9)%nat -> (2 <= n)%nat -> (k < n)%nat ->
  -1 <= pts_TrefethenCC d n k <= 1 /\ ((S k < n)%nat -> pts_TrefethenCC d n k < pts_TrefethenCC d n (S k)).
Proof.
  intros Hd Hn Hk. destruct (cc_shape n k Hn Hk) as [Hr Ha]. unfold pts_TrefethenCC. split.
  - apply tref_in_domain; assumption.
  - intros HS. apply tref_ascending; [exact Hd|apply Ha; exact HS].
Qed.

Lemma subst_trefethen_strip_partial_thm rho (bp bw : nat -> R) k : 1 < rho ->
  strip_pts rho bp k = gstrip rho (bp k) /\ strip_wts rho bp bw k = dergstrip rho (bp k) * bw k /\
  (forall s, -1 < s < 1 -> 1 / 100000000 < Rabs (Rabs s - 1 - 0) -> is_derive (gstrip rho) s (dergstrip rho s)) /\
  (strip_norm rho <> 0 -> gstrip rho 1 = 1 /\ gstrip rho (-1) = -1).
Proof.
  intros Hr. split; [reflexivity|]. split; [reflexivity|]. split; [intros; apply gstrip_deriv; assumption|apply gstrip_ends_partial].
Qed.
