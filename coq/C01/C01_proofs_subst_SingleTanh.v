(* C01 — SingleTanh: weight = derivative of the node map, positivity, monotonicity, domain *)
From Coq Require Import Reals Arith Lia Lra.
From Coquelicot Require Import Coquelicot.
From P Require Import C01_gen C01_model C01_proofs_subst.
Open Scope R_scope.

(* ---------------------------------------------------------------- SingleTanh *)
Lemma SingleTanh_deriv h k : is_derive (SingleTanh_points h) k (SingleTanh_weights h k).
Proof.
  unfold SingleTanh_points, SingleTanh_weights. cbv zeta. hyp_derive. pose proof (cosh_pos (k * h)). field. lra.
Qed.
Lemma SingleTanh_wpos h k : 0 < h -> 0 < SingleTanh_weights h k.
Proof.
  intros Hh. unfold SingleTanh_weights. cbv zeta. pose proof (cosh_pos (k * h)).
  apply Rdiv_lt_0_compat; [assumption|]. apply pow_lt. assumption.
Qed.
Lemma SingleTanh_domain h k : -1 < SingleTanh_points h k < 1.
Proof. unfold SingleTanh_points. cbv zeta. apply tanh_bounds. Qed.

Lemma subst_SingleTanh_thm h n k : 0 < h ->
  (is_derive (SingleTanh_points h) (kidx n k) (wts_SingleTanh h n k) /\
   is_derive (fun t => SingleTanh_points h (t / h)) (kidx n k * h) (wts_SingleTanh h n k / h) /\
   0 < wts_SingleTanh h n k /\
   (forall a b, a < b -> SingleTanh_points h a < SingleTanh_points h b) /\
   pts_SingleTanh h n k < pts_SingleTanh h n (S k)) /\
  -1 < pts_SingleTanh h n k < 1.
Proof.
  intros H. split; [|apply SingleTanh_domain].
  apply (subst_pack (SingleTanh_points h) (SingleTanh_weights h)); [lra|apply SingleTanh_deriv|intros; apply SingleTanh_wpos; exact H].
Qed.
