(* C01 — GaussLegendre: numpy.polynomial.legendre.leggauss arrays passed through unchanged (oracle), w(x) = 1 on [-1,1] *)
From Coq Require Import Reals Arith Lia Lra Bool.
From Coquelicot Require Import Coquelicot.
From P Require Import C01_gen C01_model C01_proofs_sums C01_proofs_poly.
Open Scope R_scope.

Section GaussOracle.
  Variables (n : nat) (ox ow : nat -> R).
  (* Iw p stands for the weighted integral  int w(x) p(x) dx  over the interval of the rule *)
  Variable Iw : (R -> R) -> R.
  (* oracle hypothesis (validated on every run with exact moments): the library rule is exact to degree 2n-1 *)
  Hypothesis oracle_exact : forall p, pspan (2 * n - 1) p -> rsum n (fun i => ow i * p (ox i)) = Iw p.

  Lemma legendre_wrapper_lemma :
    forall p, pspan (2 * n - 1) p ->
    rsum n (fun k => wts_GaussLegendre ox ow n k * p (pts_GaussLegendre ox n k)) = Iw p.
  Proof.
    intros p Hp. rewrite <- (oracle_exact p Hp). apply rsum_ext. intros k Hk.
    unfold wts_GaussLegendre, pts_GaussLegendre, maybe_rev,
      GaussLegendre_weights_reversed, GaussLegendre_points_reversed, GaussLegendre_weights. reflexivity.
  Qed.

  Lemma legendre_nodes_same k : pts_GaussLegendre ox n k = ox k.
  Proof. reflexivity. Qed.
End GaussOracle.

(* Gauss-Legendre with the integral made explicit *)
Lemma legendre_exact_lemma n (ox ow : nat -> R) :
  (forall p, pspan (2 * n - 1) p -> is_RInt p (-1) 1 (rsum n (fun i => ow i * p (ox i)))) ->
  forall p, pspan (2 * n - 1) p ->
  is_RInt p (-1) 1 (rsum n (fun k => wts_GaussLegendre ox ow n k * p (pts_GaussLegendre ox n k))).
Proof.
  intros H p Hp. rewrite (legendre_wrapper_lemma n ox ow (fun q => rsum n (fun i => ow i * q (ox i)))); [apply H; exact Hp| |exact Hp].
  intros; reflexivity.
Qed.

(* the oracle hypotheses are satisfiable: the 1-point Gauss-Legendre rule (x = 0, w = 2) is exact to degree 1 *)
Example legendre_oracle_sat : forall p, pspan (2 * 1 - 1) p -> is_RInt p (-1) 1 (rsum 1 (fun i => 2 * p 0)).
Proof.
  intros p Hp. simpl rsum. rewrite Rplus_0_l.
  assert (E : 2 * p 0 = rsum 1 (fun k => 2 * p 0)) by (simpl; ring).
  rewrite E. apply (quad_exact_on_span 1 (2 * 1 - 1) (fun _ => 2) (fun _ => 0)); [|exact Hp].
  intros m Hm. simpl rsum. assert (m = 0 \/ m = 1)%nat as [->| ->] by lia; unfold cheb_int; simpl; lra.
Qed.
