(* C01 — variable-substitution rules: weight = derivative of the node map w.r.t. the (real) index variable
   (= step * derivative w.r.t. t = k*h), node map strictly increasing, values inside the declared domain. *)
From Coq Require Import Reals Arith Lia Lra.
From Coquelicot Require Import Coquelicot.
From P Require Import C01_gen C01_model.
Open Scope R_scope.

(* ---------------------------------------------------------------- hyperbolic functions *)
Lemma is_derive_sinh x : is_derive sinh x (cosh x).
Proof. unfold sinh, cosh. auto_derive; [exact I|field]. Qed.
Lemma is_derive_cosh x : is_derive cosh x (sinh x).
Proof. unfold sinh, cosh. auto_derive; [exact I|field]. Qed.
Lemma cosh_pos x : 0 < cosh x.
Proof. unfold cosh. pose proof (exp_pos x). pose proof (exp_pos (- x)). lra. Qed.
Lemma cosh2_sinh2 x : cosh x ^ 2 - sinh x ^ 2 = 1.
Proof. unfold cosh, sinh. rewrite exp_Ropp. pose proof (exp_pos x). field. lra. Qed.
Lemma is_derive_tanh x : is_derive tanh x (1 / cosh x ^ 2).
Proof.
  unfold tanh. pose proof (cosh_pos x). pose proof (cosh2_sinh2 x) as E.
  evar_last. apply (is_derive_div sinh cosh x (cosh x) (sinh x)); [apply is_derive_sinh|apply is_derive_cosh|lra].
  unfold minus, plus, opp, scal, mult, one. simpl. unfold mult. simpl.
  replace 1 with (cosh x ^ 2 - sinh x ^ 2). field. lra.
Qed.
Lemma tanh_bounds x : -1 < tanh x < 1.
Proof.
  unfold tanh. pose proof (cosh_pos x) as Hc.
  assert (H1 : cosh x - sinh x = exp (- x)) by (unfold cosh, sinh; field).
  assert (H2 : cosh x + sinh x = exp x) by (unfold cosh, sinh; field).
  pose proof (exp_pos x). pose proof (exp_pos (- x)).
  split.
  - apply Rmult_lt_reg_r with (cosh x); [exact Hc|]. unfold Rdiv. rewrite Rmult_assoc, Rinv_l by lra. lra.
  - apply Rmult_lt_reg_r with (cosh x); [exact Hc|]. unfold Rdiv. rewrite Rmult_assoc, Rinv_l by lra. lra.
Qed.
Lemma Derive_sinh x : Derive sinh x = cosh x. Proof. apply is_derive_unique, is_derive_sinh. Qed.
Lemma Derive_cosh x : Derive cosh x = sinh x. Proof. apply is_derive_unique, is_derive_cosh. Qed.
Lemma Derive_tanh x : Derive tanh x = 1 / cosh x ^ 2. Proof. apply is_derive_unique, is_derive_tanh. Qed.
Lemma ex_derive_sinh x : ex_derive sinh x. Proof. eexists; apply is_derive_sinh. Qed.
Lemma ex_derive_cosh x : ex_derive cosh x. Proof. eexists; apply is_derive_cosh. Qed.
Lemma ex_derive_tanh x : ex_derive tanh x. Proof. eexists; apply is_derive_tanh. Qed.

(* auto_derive with sinh/cosh/tanh kept opaque *)
Ltac hyp_derive :=
  auto_derive;
  [ repeat split; first [apply ex_derive_sinh | apply ex_derive_cosh | apply ex_derive_tanh | exact I | idtac]
  | rewrite ?Derive_sinh, ?Derive_cosh, ?Derive_tanh; unfold Rdiv, Rminus ].

(* strictly increasing from a positive derivative on the whole line *)
Lemma incr_of_deriv (f df : R -> R) :
  (forall x, is_derive f x (df x)) -> (forall x, 0 < df x) -> forall a b, a < b -> f a < f b.
Proof.
  intros Hd Hp a b Hab.
  apply (incr_function f m_infty p_infty df); try exact I; try exact Hab.
  - intros x _ _. apply Hd.
  - intros x _ _. apply Hp.
Qed.

(* derivative w.r.t. the index variable k  <->  step * derivative w.r.t. t = k*h *)
Lemma step_form (f : R -> R) h k w : h <> 0 -> is_derive f k w -> is_derive (fun t => f (t / h)) (k * h) (w / h).
Proof.
  intros Hh Hd.
  assert (E : k * h / h = k) by (field; exact Hh).
  evar_last.
  - apply (is_derive_comp f (fun t => t / h) (k * h) w (1 / h)).
    + rewrite E. exact Hd.
    + auto_derive; [exact I|field; exact Hh].
  - unfold scal. simpl. unfold mult. simpl. field. exact Hh.
Qed.

Lemma pos4 a b c d : 0 < a -> 0 < b -> 0 < c -> 0 < d -> 0 < a * b * c * d.
Proof. intros. apply Rmult_lt_0_compat; [apply Rmult_lt_0_compat; [apply Rmult_lt_0_compat|]|]; assumption. Qed.

(* the index array: consecutive integers *)
Lemma kidx_S n k : kidx n (S k) = kidx n k + 1.
Proof. unfold kidx. rewrite S_INR. ring. Qed.
Lemma kidx_lt n k : kidx n k < kidx n (S k).
Proof. rewrite kidx_S. lra. Qed.
(* symmetric about 0 for odd n: k = -(m) .. m with m = (n-1)/2 *)
Lemma kidx_first n : kidx n 0 = - INR ((n - 1) / 2).
Proof. unfold kidx. simpl. ring. Qed.
Lemma kidx_last n : Nat.odd n = true -> kidx n (n - 1) = INR ((n - 1) / 2).
Proof.
  intros H. apply Nat.odd_spec in H. destruct H as [q ->]. unfold kidx.
  replace (2 * q + 1 - 1)%nat with (q * 2)%nat by lia. rewrite Nat.div_mul by lia. rewrite mult_INR. simpl. ring.
Qed.

(* ---------------------------------------------------------------- TanhSinh *)
Lemma TanhSinh_deriv d j : is_derive (TanhSinh_points d) j (TanhSinh_weights d j).
Proof.
  unfold TanhSinh_points, TanhSinh_weights. cbv zeta. hyp_derive.
  match goal with |- context [cosh ?a ^ 2] => pose proof (cosh_pos a) end. field. lra.
Qed.
Lemma TanhSinh_wpos d j : 0 < d -> 0 < TanhSinh_weights d j.
Proof.
  intros Hd. unfold TanhSinh_weights. cbv zeta. pose proof PI_RGT_0.
  pose proof (cosh_pos (j * d)). pose proof (cosh_pos (1 / 2 * PI * sinh (j * d))).
  apply Rmult_lt_0_compat; [|nra]. apply Rdiv_lt_0_compat; [assumption|]. apply pow_lt. assumption.
Qed.
Lemma TanhSinh_domain d j : -1 < TanhSinh_points d j < 1.
Proof. unfold TanhSinh_points. cbv zeta. apply tanh_bounds. Qed.

(* ---------------------------------------------------------------- ExpSinh *)
Lemma ExpSinh_deriv h k : is_derive (ExpSinh_points h) k (ExpSinh_weights h k).
Proof. unfold ExpSinh_points, ExpSinh_weights. cbv zeta. hyp_derive. field. Qed.
Lemma ExpSinh_wpos h k : 0 < h -> 0 < ExpSinh_weights h k.
Proof.
  intros Hh. unfold ExpSinh_weights. cbv zeta. pose proof PI_RGT_0. pose proof (cosh_pos (k * h)).
  pose proof (exp_pos (PI * sinh (k * h) / 2)).
  apply Rdiv_lt_0_compat; [|lra]. apply pos4; assumption.
Qed.
Lemma ExpSinh_domain h k : 0 < ExpSinh_points h k.
Proof. unfold ExpSinh_points. cbv zeta. apply exp_pos. Qed.

(* ---------------------------------------------------------------- LogExpSinh *)
Lemma LogExpSinh_deriv h k : is_derive (LogExpSinh_points h) k (LogExpSinh_weights h k).
Proof.
  unfold LogExpSinh_points, LogExpSinh_weights. cbv zeta.
  pose proof (exp_pos (PI * sinh (k * h) / 2)) as He.
  auto_derive.
  - repeat split; first [apply ex_derive_sinh | exact I | idtac]. unfold Rdiv in He. lra.
  - rewrite ?Derive_sinh. unfold Rdiv, Rminus. unfold Rdiv in He. field. lra.
Qed.
Lemma LogExpSinh_wpos h k : 0 < h -> 0 < LogExpSinh_weights h k.
Proof.
  intros Hh. unfold LogExpSinh_weights. cbv zeta. pose proof PI_RGT_0. pose proof (cosh_pos (k * h)).
  pose proof (exp_pos (PI * sinh (k * h) / 2)).
  apply Rdiv_lt_0_compat; [|lra]. apply Rdiv_lt_0_compat; [|lra]. apply pos4; assumption.
Qed.
Lemma LogExpSinh_domain h k : 0 < LogExpSinh_points h k.
Proof.
  unfold LogExpSinh_points. cbv zeta. pose proof (exp_pos (PI * sinh (k * h) / 2)).
  rewrite <- ln_1. apply ln_increasing; lra.
Qed.

(* ---------------------------------------------------------------- ExpExp *)
Lemma ExpExp_deriv h k : is_derive (ExpExp_points h) k (ExpExp_weights h k).
Proof.
  unfold ExpExp_points, ExpExp_weights. cbv zeta. auto_derive; [exact I|].
  replace (- k * h) with (- (k * h)) by ring. rewrite (exp_Ropp (k * h)).
  pose proof (exp_pos (k * h)). field. lra.
Qed.
Lemma ExpExp_wpos h k : 0 < h -> 0 < ExpExp_weights h k.
Proof.
  intros Hh. unfold ExpExp_weights. cbv zeta. pose proof (exp_pos (k * h)). pose proof (exp_pos (- exp (- k * h))).
  apply Rmult_lt_0_compat; [apply Rmult_lt_0_compat; assumption|lra].
Qed.
Lemma ExpExp_domain h k : 0 < ExpExp_points h k.
Proof. unfold ExpExp_points. cbv zeta. apply Rmult_lt_0_compat; apply exp_pos. Qed.

(* ---------------------------------------------------------------- SingleTanh *)
Lemma SingleTanh_deriv h k : is_derive (SingleTanh_points h) k (SingleTanh_weights h k).
Proof.
  unfold SingleTanh_points, SingleTanh_weights. cbv zeta. hyp_derive. pose proof (cosh_pos (k * h)). field. lra.
Qed.
Lemma SingleTanh_wpos h k : 0 < h -> 0 < SingleTanh_weights h k.
Proof.
  intros Hh. unfold SingleTanh_weights. cbv zeta. pose proof (cosh_pos (k * h)).
  apply Rdiv_lt_0_compat; [assumption|]. apply pow_lt. assumption.
Qed.
Lemma SingleTanh_domain h k : -1 < SingleTanh_points h k < 1.
Proof. unfold SingleTanh_points. cbv zeta. apply tanh_bounds. Qed.

(* ---------------------------------------------------------------- SingleExp *)
Lemma SingleExp_deriv h k : is_derive (SingleExp_points h) k (SingleExp_weights h k).
Proof. unfold SingleExp_points, SingleExp_weights. cbv zeta. auto_derive; [exact I|ring]. Qed.
Lemma SingleExp_wpos h k : 0 < h -> 0 < SingleExp_weights h k.
Proof. intros Hh. unfold SingleExp_weights. cbv zeta. pose proof (exp_pos (k * h)). nra. Qed.
Lemma SingleExp_domain h k : 0 < SingleExp_points h k.
Proof. unfold SingleExp_points. cbv zeta. apply exp_pos. Qed.

(* ---------------------------------------------------------------- SingleArcSinhExp *)
Lemma SingleArcSinhExp_deriv h k : is_derive (SingleArcSinhExp_points h) k (SingleArcSinhExp_weights h k).
Proof.
  unfold SingleArcSinhExp_points, SingleArcSinhExp_weights. cbv zeta. unfold arcsinh.
  pose proof (exp_pos (k * h)) as He.
  assert (Hq : 0 < exp (k * h) ^ 2 + 1) by nra.
  assert (Hs : 0 < sqrt (exp (k * h) ^ 2 + 1)) by (apply sqrt_lt_R0; exact Hq).
  replace (exp (2 * h * k)) with (exp (k * h) ^ 2).
  2:{ replace (2 * h * k) with (k * h + k * h) by ring. rewrite exp_plus. ring. }
  auto_derive.
  - assert (E : exp (k * h) * (exp (k * h) * 1) + 1 = exp (k * h) ^ 2 + 1) by ring.
    rewrite !E. repeat split; try exact I; lra.
  - assert (E : exp (k * h) * (exp (k * h) * 1) + 1 = exp (k * h) ^ 2 + 1) by ring.
    rewrite !E. set (s := sqrt (exp (k * h) ^ 2 + 1)) in *. field. split; lra.
Qed.
Lemma SingleArcSinhExp_wpos h k : 0 < h -> 0 < SingleArcSinhExp_weights h k.
Proof.
  intros Hh. unfold SingleArcSinhExp_weights. cbv zeta. pose proof (exp_pos (k * h)). pose proof (exp_pos (2 * h * k)).
  apply Rdiv_lt_0_compat; [nra|]. apply sqrt_lt_R0. lra.
Qed.
Lemma SingleArcSinhExp_domain h k : 0 < SingleArcSinhExp_points h k.
Proof.
  unfold SingleArcSinhExp_points. cbv zeta. rewrite <- arcsinh_0. apply arcsinh_lt. apply exp_pos.
Qed.

(* ---------------------------------------------------------------- 5. substitution rules *)
Lemma subst_pack (P W : R -> R) h n k :
  h <> 0 -> (forall x, is_derive P x (W x)) -> (forall x, 0 < W x) ->
  is_derive P (kidx n k) (W (kidx n k)) /\
  is_derive (fun t => P (t / h)) (kidx n k * h) (W (kidx n k) / h) /\
  0 < W (kidx n k) /\
  (forall a b, a < b -> P a < P b) /\
  P (kidx n k) < P (kidx n (S k)).
Proof.
  intros Hh Hd Hp. split; [apply Hd|]. split; [apply step_form; [exact Hh|apply Hd]|]. split; [apply Hp|].
  assert (Hi : forall a b, a < b -> P a < P b) by (apply (incr_of_deriv P W Hd Hp)).
  split; [exact Hi|apply Hi, kidx_lt].
Qed.

Lemma subst_TanhSinh_thm delta n k : 0 < delta ->
  (is_derive (TanhSinh_points delta) (kidx n k) (wts_TanhSinh delta n k) /\
   is_derive (fun t => TanhSinh_points delta (t / delta)) (kidx n k * delta) (wts_TanhSinh delta n k / delta) /\
   0 < wts_TanhSinh delta n k /\
   (forall a b, a < b -> TanhSinh_points delta a < TanhSinh_points delta b) /\
   pts_TanhSinh delta n k < pts_TanhSinh delta n (S k)) /\
  -1 < pts_TanhSinh delta n k < 1.
Proof.
  intros H. split; [|apply TanhSinh_domain].
  apply (subst_pack (TanhSinh_points delta) (TanhSinh_weights delta)); [lra|apply TanhSinh_deriv|intros; apply TanhSinh_wpos; exact H].
Qed.

Lemma subst_ExpSinh_thm h n k : 0 < h ->
  (is_derive (ExpSinh_points h) (kidx n k) (wts_ExpSinh h n k) /\
   is_derive (fun t => ExpSinh_points h (t / h)) (kidx n k * h) (wts_ExpSinh h n k / h) /\
   0 < wts_ExpSinh h n k /\
   (forall a b, a < b -> ExpSinh_points h a < ExpSinh_points h b) /\
   pts_ExpSinh h n k < pts_ExpSinh h n (S k)) /\
  0 < pts_ExpSinh h n k.
Proof.
  intros H. split; [|apply ExpSinh_domain].
  apply (subst_pack (ExpSinh_points h) (ExpSinh_weights h)); [lra|apply ExpSinh_deriv|intros; apply ExpSinh_wpos; exact H].
Qed.

Lemma subst_LogExpSinh_thm h n k : 0 < h ->
  (is_derive (LogExpSinh_points h) (kidx n k) (wts_LogExpSinh h n k) /\
   is_derive (fun t => LogExpSinh_points h (t / h)) (kidx n k * h) (wts_LogExpSinh h n k / h) /\
   0 < wts_LogExpSinh h n k /\
   (forall a b, a < b -> LogExpSinh_points h a < LogExpSinh_points h b) /\
   pts_LogExpSinh h n k < pts_LogExpSinh h n (S k)) /\
  0 < pts_LogExpSinh h n k.
Proof.
  intros H. split; [|apply LogExpSinh_domain].
  apply (subst_pack (LogExpSinh_points h) (LogExpSinh_weights h)); [lra|apply LogExpSinh_deriv|intros; apply LogExpSinh_wpos; exact H].
Qed.

Lemma subst_ExpExp_thm h n k : 0 < h ->
  (is_derive (ExpExp_points h) (kidx n k) (wts_ExpExp h n k) /\
   is_derive (fun t => ExpExp_points h (t / h)) (kidx n k * h) (wts_ExpExp h n k / h) /\
   0 < wts_ExpExp h n k /\
   (forall a b, a < b -> ExpExp_points h a < ExpExp_points h b) /\
   pts_ExpExp h n k < pts_ExpExp h n (S k)) /\
  0 < pts_ExpExp h n k.
Proof.
  intros H. split; [|apply ExpExp_domain].
  apply (subst_pack (ExpExp_points h) (ExpExp_weights h)); [lra|apply ExpExp_deriv|intros; apply ExpExp_wpos; exact H].
Qed.

Lemma subst_SingleTanh_thm h n k : 0 < h ->
  (is_derive (SingleTanh_points h) (kidx n k) (wts_SingleTanh h n k) /\
   is_derive (fun t => SingleTanh_points h (t / h)) (kidx n k * h) (wts_SingleTanh h n k / h) /\
   0 < wts_SingleTanh h n k /\
   (forall a b, a < b -> SingleTanh_points h a < SingleTanh_points h b) /\
   pts_SingleTanh h n k < pts_SingleTanh h n (S k)) /\
  -1 < pts_SingleTanh h n k < 1.
Proof.
  intros H. split; [|apply SingleTanh_domain].
  apply (subst_pack (SingleTanh_points h) (SingleTanh_weights h)); [lra|apply SingleTanh_deriv|intros; apply SingleTanh_wpos; exact H].
Qed.

Lemma subst_SingleExp_thm h n k : 0 < h ->
  (is_derive (SingleExp_points h) (kidx n k) (wts_SingleExp h n k) /\
   is_derive (fun t => SingleExp_points h (t / h)) (kidx n k * h) (wts_SingleExp h n k / h) /\
   0 < wts_SingleExp h n k /\
   (forall a b, a < b -> SingleExp_points h a < SingleExp_points h b) /\
   pts_SingleExp h n k < pts_SingleExp h n (S k)) /\
  0 < pts_SingleExp h n k.
Proof.
  intros H. split; [|apply SingleExp_domain].
  apply (subst_pack (SingleExp_points h) (SingleExp_weights h)); [lra|apply SingleExp_deriv|intros; apply SingleExp_wpos; exact H].
Qed.

Lemma subst_SingleArcSinhExp_thm h n k : 0 < h ->
  (is_derive (SingleArcSinhExp_points h) (kidx n k) (wts_SingleArcSinhExp h n k) /\
   is_derive (fun t => SingleArcSinhExp_points h (t / h)) (kidx n k * h) (wts_SingleArcSinhExp h n k / h) /\
   0 < wts_SingleArcSinhExp h n k /\
   (forall a b, a < b -> SingleArcSinhExp_points h a < SingleArcSinhExp_points h b) /\
   pts_SingleArcSinhExp h n k < pts_SingleArcSinhExp h n (S k)) /\
  0 < pts_SingleArcSinhExp h n k.
Proof.
  intros H. split; [|apply SingleArcSinhExp_domain].
  apply (subst_pack (SingleArcSinhExp_points h) (SingleArcSinhExp_weights h));
    [lra|apply SingleArcSinhExp_deriv|intros; apply SingleArcSinhExp_wpos; exact H].
Qed.

(* index array: n consecutive integers, symmetric about 0 for odd n *)
Lemma subst_index_thm n k :
  kidx n (S k) = kidx n k + 1 /\ kidx n 0 = - INR ((n - 1) / 2) /\ (Nat.odd n = true -> kidx n (n - 1) = INR ((n - 1) / 2)).
Proof. split; [apply kidx_S|split; [apply kidx_first|apply kidx_last]]. Qed.

