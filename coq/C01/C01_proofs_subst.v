(* C01 — variable-substitution rules: weight = derivative of the node map w.r.t. the (real) index variable
   (= step * derivative w.r.t. t = k*h), node map strictly increasing, values inside the declared domain. *)
From Coq Require Import Reals Arith Lia Lra.
From Coquelicot Require Import Coquelicot.
From P Require Import C01_gen C01_model.
Open Scope R_scope.

(* ---------------------------------------------------------------- hyperbolic functions *)
Lemma is_derive_sinh x : is_derive sinh x (cosh x).
Proof. unfold sinh, cosh. auto_derive; [exact I|field]. Qed.
Lemma is_derive_cosh x : is_derive cosh x (sinh x).
Proof. unfold sinh, cosh. auto_derive; [exact I|field]. Qed.
Lemma cosh_pos x : 0 < cosh x.
Proof. unfold cosh. pose proof (exp_pos x). pose proof (exp_pos (- x)). lra. Qed.
Lemma cosh2_sinh2 x : cosh x ^ 2 - sinh x ^ 2 = 1.
Proof. unfold cosh, sinh. rewrite exp_Ropp. pose proof (exp_pos x). field. lra. Qed.
Lemma is_derive_tanh x : is_derive tanh x (1 / cosh x ^ 2).
Proof.
  unfold tanh. pose proof (cosh_pos x). pose proof (cosh2_sinh2 x) as E.
  evar_last. apply (is_derive_div sinh cosh x (cosh x) (sinh x)); [apply is_derive_sinh|apply is_derive_cosh|lra].
  unfold minus, plus, opp, scal, mult, one. simpl. unfold mult. simpl.
  replace 1 with (cosh x ^ 2 - sinh x ^ 2). field. lra.
Qed.
Lemma tanh_bounds x : -1 < tanh x < 1.
Proof.
  unfold tanh. pose proof (cosh_pos x) as Hc.
  assert (H1 : cosh x - sinh x = exp (- x)) by (unfold cosh, sinh; field).
  assert (H2 : cosh x + sinh x = exp x) by (unfold cosh, sinh; field).
  pose proof (exp_pos x). pose proof (exp_pos (- x)).
  split.
  - apply Rmult_lt_reg_r with (cosh x); [exact Hc|]. unfold Rdiv. rewrite Rmult_assoc, Rinv_l by lra. lra.
  - apply Rmult_lt_reg_r with (cosh x); [exact Hc|]. unfold Rdiv. rewrite Rmult_assoc, Rinv_l by lra. lra.
Qed.
Lemma Derive_sinh x : Derive sinh x = cosh x. Proof. apply is_derive_unique, is_derive_sinh. Qed.
Lemma Derive_cosh x : Derive cosh x = sinh x. Proof. apply is_derive_unique, is_derive_cosh. Qed.
Lemma Derive_tanh x : Derive tanh x = 1 / cosh x ^ 2. Proof. apply is_derive_unique, is_derive_tanh. Qed.
Lemma ex_derive_sinh x : ex_derive sinh x. Proof. eexists; apply is_derive_sinh. Qed.
Lemma ex_derive_cosh x : ex_derive cosh x. Proof. eexists; apply is_derive_cosh. Qed.
Lemma ex_derive_tanh x : ex_derive tanh x. Proof. eexists; apply is_derive_tanh. Qed.

(* auto_derive with sinh/cosh/tanh kept opaque *)
Ltac hyp_derive :=
  auto_derive;
  [ repeat split; first [apply ex_derive_sinh | apply ex_derive_cosh | apply ex_derive_tanh | exact I | idtac]
  | rewrite ?Derive_sinh, ?Derive_cosh, ?Derive_tanh; unfold Rdiv, Rminus ].

(* strictly increasing from a positive derivative on the whole line *)
Lemma incr_of_deriv (f df : R -> R) :
  (forall x, is_derive f x (df x)) -> (forall x, 0 < df x) -> forall a b, a < b -> f a < f b.
Proof.
  intros Hd Hp a b Hab.
  apply (incr_function f m_infty p_infty df); try exact I; try exact Hab.
  - intros x _ _. apply Hd.
  - intros x _ _. apply Hp.
Qed.

(* derivative w.r.t. the index variable k  <->  step * derivative w.r.t. t = k*h *)
Lemma step_form (f : R -> R) h k w : h <> 0 -> is_derive f k w -> is_derive (fun t => f (t / h)) (k * h) (w / h).
Proof.
  intros Hh Hd.
  assert (E : k * h / h = k) by (field; exact Hh).
  evar_last.
  - apply (is_derive_comp f (fun t => t / h) (k * h) w (1 / h)).
    + rewrite E. exact Hd.
    + auto_derive; [exact I|field; exact Hh].
  - unfold scal. simpl. unfold mult. simpl. field. exact Hh.
Qed.

Lemma pos4 a b c d : 0 < a -> 0 < b -> 0 < c -> 0 < d -> 0 < a * b * c * d.
Proof. intros. apply Rmult_lt_0_compat; [apply Rmult_lt_0_compat; [apply Rmult_lt_0_compat|]|]; assumption. Qed.

(* the index array: consecutive integers *)
Lemma kidx_S n k : kidx n (S k) = kidx n k + 1.
Proof. unfold kidx. rewrite S_INR. ring. Qed.
Lemma kidx_lt n k : kidx n k < kidx n (S k).
Proof. rewrite kidx_S. lra. Qed.
(* symmetric about 0 for odd n: k = -(m) .. m with m = (n-1)/2 *)
Lemma kidx_first n : kidx n 0 = - INR ((n - 1) / 2).
Proof. unfold kidx. simpl. ring. Qed.
Lemma kidx_last n : Nat.odd n = true -> kidx n (n - 1) = INR ((n - 1) / 2).
Proof.
  intros H. apply Nat.odd_spec in H. destruct H as [q ->]. unfold kidx.
  replace (2 * q + 1 - 1)%nat with (q * 2)%nat by lia. rewrite Nat.div_mul by lia. rewrite mult_INR. simpl. ring.
Qed.

Lemma subst_pack (P W : R -> R) h n k :
  h <> 0 -> (forall x, is_derive P x (W x)) -> (forall x, 0 < W x) ->
  is_derive P (kidx n k) (W (kidx n k)) /\
  is_derive (fun t => P (t / h)) (kidx n k * h) (W (kidx n k) / h) /\
  0 < W (kidx n k) /\
  (forall a b, a < b -> P a < P b) /\
  P (kidx n k) < P (kidx n (S k)).
Proof.
  intros Hh Hd Hp. split; [apply Hd|]. split; [apply step_form; [exact Hh|apply Hd]|]. split; [apply Hp|].
  assert (Hi : forall a b, a < b -> P a < P b) by (apply (incr_of_deriv P W Hd Hp)).
  split; [exact Hi|apply Hi, kidx_lt].
Qed.

(* index array: n consecutive integers, symmetric about 0 for odd n *)
Lemma subst_index_thm n k :
  kidx n (S k) = kidx n k + 1 /\ kidx n 0 = - INR ((n - 1) / 2) /\ (Nat.odd n = true -> kidx n (n - 1) = INR ((n - 1) / 2)).
Proof. split; [apply kidx_S|split; [apply kidx_first|apply kidx_last]]. Qed.
