(* C01 — hand models of the 1-D quadrature constructors of src/grid/onedgrid.py.
   Arrays are index functions nat -> R; `pts_<Rule> .. n k` / `wts_<Rule> .. n k` is element k of the array the
   constructor hands to OneDGrid.__init__ when called with npoints = n.  The definitions mirror the code's array
   expressions, loop bounds and series truncation indices (NOT the textbook formulas); scalar leaves come from the
   generated file C01_gen.v (re-translated from the source on every run).  No proofs in this file. *)
From Coq Require Import Reals Arith Bool.
From P Require Import C01_gen.
Open Scope R_scope.

(* sum_{k<n} f k   (np.sum / the `@` contraction over an axis of length n) *)
Fixpoint rsum (n : nat) (f : nat -> R) : R :=
  match n with O => 0 | S m => rsum m f + f m end.

(* x[::-1] for an array of length n *)
Definition rev (n : nat) (f : nat -> R) (k : nat) : R := f (n - 1 - k)%nat.
Definition maybe_rev (b : bool) (n : nat) (f : nat -> R) : nat -> R := if b then rev n f else f.

(* w[0] /= 2; w[npoints - 1] /= 2   (two successive in-place updates) *)
Definition halve_ends (n : nat) (w : nat -> R) (k : nat) : R :=
  let w1 := if (k =? 0)%nat then w k / 2 else w k in
  if (k =? n - 1)%nat then w1 / 2 else w1.

(* ---------------------------------------------------------------- equally spaced rules *)
(* points = -1 + (2 * np.arange(npoints) / (npoints - 1)) *)
Definition pts_Trapezoidal (n k : nat) : R := -1 + 2 * INR k / (INR n - 1).
(* weights = 2 * np.ones(npoints) / (npoints - 1); weights[0] /= 2; weights[npoints - 1] /= 2 *)
Definition wts_Trapezoidal (n k : nat) : R := halve_ends n (fun _ => 2 * 1 / (INR n - 1)) k.

(* points = -1 + (2 * np.arange(npoints) + 1) / npoints ; weights = 2 * np.ones(npoints) / npoints *)
Definition pts_MidPoint (n k : nat) : R := -1 + (2 * INR k + 1) / INR n.
Definition wts_MidPoint (n k : nat) : R := 2 * 1 / INR n.

(* weights = 2 * np.ones(npoints) / (3 * (npoints - 1));
   weights[1 : npoints - 1 : 2] *= 4.0 ; weights[2 : npoints - 1 : 2] *= 2.0 *)
Definition pts_Simpson (n k : nat) : R := -1 + 2 * INR k / (INR n - 1).
Definition wts_Simpson (n k : nat) : R :=
  let w := 2 * 1 / (3 * (INR n - 1)) in
  let w := if ((1 <=? k) && (k <? n - 1) && Nat.odd k)%nat then w * 4 else w in
  if ((2 <=? k) && (k <? n - 1) && Nat.even k)%nat then w * 2 else w.

(* points = np.arange(npoints); weights = np.ones(npoints) *)
Definition pts_UniformInteger (n k : nat) : R := INR k.
Definition wts_UniformInteger (n k : nat) : R := 1.

(* ---------------------------------------------------------------- sine rectangle rule *)
(* points = np.arange(1, npoints + 1, 1) / (npoints + 1); m = np.arange(1, npoints + 1, 1)
   bm = (1.0 - np.cos(m * np.pi)) / (m * np.pi); sim = np.sin(np.outer(m * np.pi, points))
   weights = bm @ sim; weights *= 2 / (npoints + 1); points = 2 * points - 1; weights *= 2 *)
Definition rrs_x (n k : nat) : R := (INR k + 1) / (INR n + 1).
Definition pts_RectangleRuleSineEndPoints (n k : nat) : R := 2 * rrs_x n k - 1.
Definition wts_RectangleRuleSineEndPoints (n k : nat) : R :=
  rsum n (fun j => let m := INR j + 1 in (1 - cos (m * PI)) / (m * PI) * sin (m * PI * rrs_x n k))
  * (2 / (INR n + 1)) * 2.

(* ---------------------------------------------------------------- Chebyshev-type closed forms *)
(* points = np.cos(np.arange(npoints) * np.pi / (npoints - 1))[::-1]
   weights = np.pi * np.sqrt(1 - np.power(points, 2)) / (npoints - 1); ends halved *)
Definition pts_GaussChebyshevLobatto (n k : nat) : R := rev n (fun i => cos (INR i * PI / (INR n - 1))) k.
Definition wts_GaussChebyshevLobatto (n k : nat) : R :=
  halve_ends n (fun i => PI * sqrt (1 - pts_GaussChebyshevLobatto n i ^ 2) / (INR n - 1)) k.

(* numpy.polynomial.chebyshev.chebgauss (closed form in NumPy):
   x = np.cos(np.pi * np.arange(1, 2 * deg, 2) / (2.0 * deg)); w = np.ones(deg) * (np.pi / deg) *)
Definition chebgauss_x (n i : nat) : R := cos (PI * (2 * INR i + 1) / (2 * INR n)).
Definition chebgauss_w (n i : nat) : R := 1 * (PI / INR n).
(* weights *= np.sqrt(1 - np.power(points, 2)); super().__init__(points[::-1], weights, (-1, 1)) *)
Definition pts_GaussChebyshev (n k : nat) : R := maybe_rev GaussChebyshev_points_reversed n (chebgauss_x n) k.
Definition wts_GaussChebyshev (n k : nat) : R :=
  maybe_rev GaussChebyshev_weights_reversed n (fun i => GaussChebyshev_weights (chebgauss_x n i) (chebgauss_w n i)) k.

(* ---------------------------------------------------------------- Clenshaw-Curtis, Fejer *)
(* theta = (np.pi * np.arange(npoints) / (npoints - 1))[::-1]; points = np.cos(theta)
   jmed = (npoints - 1) // 2; bj = 2.0 * np.ones(jmed); if 2 * jmed + 1 == npoints: bj[jmed - 1] = 1.0
   j = np.arange(jmed); bj /= 4 * j * (j + 2) + 3; cij = np.cos(np.outer(2 * (j + 1), theta)); wi = bj @ cij
   weights = 2 * (1 - wi) / (npoints - 1); ends halved *)
Definition cc_theta (n k : nat) : R := rev n (fun i => PI * INR i / (INR n - 1)) k.
Definition cc_jmed (n : nat) : nat := ((n - 1) / 2)%nat.
Definition cc_bj (n j : nat) : R :=
  (if ((2 * cc_jmed n + 1 =? n) && (j =? cc_jmed n - 1))%nat then 1 else 2 * 1)
  / (4 * INR j * (INR j + 2) + 3).
Definition cc_wi (n i : nat) : R := rsum (cc_jmed n) (fun j => cc_bj n j * cos (2 * (INR j + 1) * cc_theta n i)).
Definition pts_ClenshawCurtis (n k : nat) : R := cos (cc_theta n k).
Definition wts_ClenshawCurtis (n k : nat) : R := halve_ends n (fun i => 2 * (1 - cc_wi n i) / (INR n - 1)) k.

(* theta = np.pi * (2 * np.arange(npoints) + 1) / (2 * npoints); points = np.cos(theta)
   nsum = npoints // 2; j = np.arange(nsum - 1) + 1; bj = 2.0 * np.ones(nsum - 1) / (4 * j**2 - 1)
   cij = np.cos(np.outer(2 * j, theta)); di = bj @ cij; weights = 1 - di
   points = points[::-1]; weights = weights[::-1] * (2 / npoints) *)
Definition f1_theta (n i : nat) : R := PI * (2 * INR i + 1) / (2 * INR n).
Definition f1_nsum (n : nat) : nat := (n / 2)%nat.
Definition f1_di (terms n i : nat) : R :=
  rsum terms (fun jj => let j := INR jj + 1 in 2 * 1 / (4 * j ^ 2 - 1) * cos (2 * j * f1_theta n i)).
Definition pts_FejerFirst (n k : nat) : R := rev n (fun i => cos (f1_theta n i)) k.
(* the number of series terms len(j) is read from the source on every run: FejerFirst_terms nsum (C01_gen.v) *)
Definition wts_FejerFirst (n k : nat) : R := rev n (fun i => 1 - f1_di (FejerFirst_terms (f1_nsum n)) n i) k * (2 / INR n).

(* theta = np.pi * (np.arange(npoints) + 1) / (npoints + 1); points = np.cos(theta)
   nsum = (npoints + 1) // 2; j = np.arange(nsum - 1) + 1; bj = np.ones(nsum - 1) / (2 * j - 1)
   sij = np.sin(np.outer(2 * j - 1, theta)); wi = bj @ sij; weights = 4 * np.sin(theta) * wi
   points = points[::-1]; weights = weights[::-1] / (npoints + 1) *)
Definition f2_theta (n i : nat) : R := PI * (INR i + 1) / (INR n + 1).
Definition f2_nsum (n : nat) : nat := ((n + 1) / 2)%nat.
Definition f2_wi (terms n i : nat) : R :=
  rsum terms (fun jj => let j := INR jj + 1 in 1 / (2 * j - 1) * sin ((2 * j - 1) * f2_theta n i)).
Definition pts_FejerSecond (n k : nat) : R := rev n (fun i => cos (f2_theta n i)) k.
Definition wts_FejerSecond (n k : nat) : R :=
  rev n (fun i => 4 * sin (f2_theta n i) * f2_wi (FejerSecond_terms (f2_nsum n)) n i) k / (INR n + 1).

(* the same two rules with the series summed to its last term, nsum terms (what the property needs: the repaired
   constructors `j = np.arange(nsum) + 1`; the pinned code had `np.arange(nsum - 1) + 1`) *)
Definition wts_FejerFirst_full (n k : nat) : R := rev n (fun i => 1 - f1_di (f1_nsum n) n i) k * (2 / INR n).
Definition wts_FejerSecond_full (n k : nat) : R :=
  rev n (fun i => 4 * sin (f2_theta n i) * f2_wi (f2_nsum n) n i) k / (INR n + 1).

(* ---------------------------------------------------------------- rules built on library routines *)
Section Oracle.
  (* ox, ow: the arrays returned by the library routine (leggauss / roots_chebyu / roots_genlaguerre) *)
  Variables (ox ow : nat -> R).
  Definition pts_GaussLegendre (n k : nat) : R := maybe_rev GaussLegendre_points_reversed n ox k.
  Definition wts_GaussLegendre (n k : nat) : R :=
    maybe_rev GaussLegendre_weights_reversed n (fun i => GaussLegendre_weights (ox i) (ow i)) k.
  Definition pts_GaussChebyshevType2 (n k : nat) : R := maybe_rev GaussChebyshevType2_points_reversed n ox k.
  Definition wts_GaussChebyshevType2 (n k : nat) : R :=
    maybe_rev GaussChebyshevType2_weights_reversed n (fun i => GaussChebyshevType2_weights (ox i) (ow i)) k.
  Definition pts_GaussLaguerre (alpha : R) (n k : nat) : R := maybe_rev GaussLaguerre_points_reversed n ox k.
  Definition wts_GaussLaguerre (alpha : R) (n k : nat) : R :=
    maybe_rev GaussLaguerre_weights_reversed n (fun i => GaussLaguerre_weights alpha (ox i) (ow i)) k.
End Oracle.

(* ---------------------------------------------------------------- variable-substitution rules *)
(* m = int((npoints - 1) / 2); k = np.arange(-m, m + 1)       (npoints odd: 2m+1 = npoints entries)
   j = int((1 - npoints) / 2) + np.arange(npoints)            (the same integers for odd npoints) *)
Definition kidx (n i : nat) : R := INR i - INR ((n - 1) / 2).

Definition pts_TanhSinh (delta : R) (n k : nat) : R := TanhSinh_points delta (kidx n k).
Definition wts_TanhSinh (delta : R) (n k : nat) : R := TanhSinh_weights delta (kidx n k).
Definition pts_ExpSinh (h : R) (n k : nat) : R := ExpSinh_points h (kidx n k).
Definition wts_ExpSinh (h : R) (n k : nat) : R := ExpSinh_weights h (kidx n k).
Definition pts_LogExpSinh (h : R) (n k : nat) : R := LogExpSinh_points h (kidx n k).
Definition wts_LogExpSinh (h : R) (n k : nat) : R := LogExpSinh_weights h (kidx n k).
Definition pts_ExpExp (h : R) (n k : nat) : R := ExpExp_points h (kidx n k).
Definition wts_ExpExp (h : R) (n k : nat) : R := ExpExp_weights h (kidx n k).
Definition pts_SingleTanh (h : R) (n k : nat) : R := SingleTanh_points h (kidx n k).
Definition wts_SingleTanh (h : R) (n k : nat) : R := SingleTanh_weights h (kidx n k).
Definition pts_SingleExp (h : R) (n k : nat) : R := SingleExp_points h (kidx n k).
Definition wts_SingleExp (h : R) (n k : nat) : R := SingleExp_weights h (kidx n k).
Definition pts_SingleArcSinhExp (h : R) (n k : nat) : R := SingleArcSinhExp_points h (kidx n k).
Definition wts_SingleArcSinhExp (h : R) (n k : nat) : R := SingleArcSinhExp_weights h (kidx n k).

(* Trefethen polynomial ("sausage") maps over a base rule (bp, bw): d = 1 identity, 5 -> _g2, 9 -> _g3;
   any other d raises ValueError (modelled as 0, excluded by the admissibility hypothesis of the theorems) *)
Definition tref_pts (d : nat) (bp : nat -> R) (k : nat) : R :=
  if (d =? 1)%nat then bp k else if (d =? 5)%nat then g2 (bp k) else if (d =? 9)%nat then g3 (bp k) else 0.
Definition tref_wts (d : nat) (bp bw : nat -> R) (k : nat) : R :=
  if (d =? 1)%nat then bw k else if (d =? 5)%nat then derg2 (bp k) * bw k
  else if (d =? 9)%nat then derg3 (bp k) * bw k else 0.
(* Trefethen strip maps: points = _gstrip(rho, grid.points); weights = _dergstrip(rho, grid.points) * grid.weights *)
Definition strip_pts (rho : R) (bp : nat -> R) (k : nat) : R := gstrip rho (bp k).
Definition strip_wts (rho : R) (bp bw : nat -> R) (k : nat) : R := dergstrip rho (bp k) * bw k.

Definition pts_TrefethenCC (d n k : nat) : R := tref_pts d (pts_ClenshawCurtis n) k.
Definition wts_TrefethenCC (d n k : nat) : R := tref_wts d (pts_ClenshawCurtis n) (wts_ClenshawCurtis n) k.
Definition pts_TrefethenStripCC (rho : R) (n k : nat) : R := strip_pts rho (pts_ClenshawCurtis n) k.
Definition wts_TrefethenStripCC (rho : R) (n k : nat) : R :=
  strip_wts rho (pts_ClenshawCurtis n) (wts_ClenshawCurtis n) k.
Section OracleTref.
  Variables (ox ow : nat -> R).
  Definition pts_TrefethenGC2 (d n k : nat) : R := tref_pts d (pts_GaussChebyshevType2 ox n) k.
  Definition wts_TrefethenGC2 (d n k : nat) : R :=
    tref_wts d (pts_GaussChebyshevType2 ox n) (wts_GaussChebyshevType2 ox ow n) k.
  Definition pts_TrefethenStripGC2 (rho : R) (n k : nat) : R := strip_pts rho (pts_GaussChebyshevType2 ox n) k.
  Definition wts_TrefethenStripGC2 (rho : R) (n k : nat) : R :=
    strip_wts rho (pts_GaussChebyshevType2 ox n) (wts_GaussChebyshevType2 ox ow n) k.
End OracleTref.
(* TrefethenGeneral / TrefethenStripGeneral(npoints, quadrature, ..): tref_pts / strip_pts over any base rule *)

(* ---------------------------------------------------------------- reference quantities *)
(* integral of x^d over [-1,1] *)
Definition mono_int (d : nat) : R := (1 - (-1) ^ S d) / INR (S d).
(* Chebyshev polynomials of the first kind by the three-term recurrence, and their integrals over [-1,1] *)
Fixpoint cheb (m : nat) (x : R) : R :=
  match m with
  | O => 1
  | S m' => match m' with O => x | S m'' => 2 * x * cheb m' x - cheb m'' x end
  end.
Definition cheb_int (m : nat) : R := if Nat.even m then 2 / (1 - INR m ^ 2) else 0.
