(* C01 — Newton-Cotes rules: trapezoid and midpoint integrate 1, x exactly; Simpson 1, x, x^2, x^3;
   for every admissible number of points. *)
From Coq Require Import Reals Arith Lia Lra Bool.
From Coquelicot Require Import Coquelicot.
From P Require Import C01_gen C01_model C01_proofs_sums.
Open Scope R_scope.

(* sums of powers of an affine function of the index *)
Lemma sum_aff1 n a b : rsum n (fun j => a + b * INR j) = INR n * a + b * (INR n * (INR n - 1) / 2).
Proof. rewrite rsum_plus, rsum_const, rsum_scal, sum_k1. reflexivity. Qed.

Lemma sum_aff2 n a b : rsum n (fun j => (a + b * INR j) ^ 2)
  = INR n * a ^ 2 + 2 * a * b * (INR n * (INR n - 1) / 2) + b ^ 2 * ((INR n - 1) * INR n * (2 * INR n - 1) / 6).
Proof.
  rewrite (rsum_ext n _ (fun j => a ^ 2 + (2 * a * b) * INR j + b ^ 2 * INR j ^ 2)) by (intros; ring).
  rewrite !rsum_plus, rsum_const, !rsum_scal, sum_k1, sum_k2. reflexivity.
Qed.

Lemma sum_aff3 n a b : rsum n (fun j => (a + b * INR j) ^ 3)
  = INR n * a ^ 3 + 3 * a ^ 2 * b * (INR n * (INR n - 1) / 2)
    + 3 * a * b ^ 2 * ((INR n - 1) * INR n * (2 * INR n - 1) / 6) + b ^ 3 * (INR n * (INR n - 1) / 2) ^ 2.
Proof.
  rewrite (rsum_ext n _ (fun j => a ^ 3 + (3 * a ^ 2 * b) * INR j + (3 * a * b ^ 2) * INR j ^ 2 + b ^ 3 * INR j ^ 3))
    by (intros; ring).
  rewrite !rsum_plus, rsum_const, !rsum_scal, sum_k1, sum_k2, sum_k3. reflexivity.
Qed.

(* ---------------------------------------------------------------- reference integrals *)
Lemma mono_int_correct d : is_RInt (fun x => x ^ d) (-1) 1 (mono_int d).
Proof.
  unfold mono_int.
  replace ((1 - (-1) ^ S d) / INR (S d)) with (1 ^ S d / INR (S d) - (-1) ^ S d / INR (S d))
    by (rewrite pow1; field; apply not_0_INR; lia).
  apply (is_RInt_derive (fun x => x ^ S d / INR (S d)) (fun x => x ^ d)).
  - intros x _. auto_derive; [exact I|].
    assert (H : INR (S d) <> 0) by (apply not_0_INR; lia). change (match d with O => 1 | S _ => INR d + 1 end) with (INR (S d)).
    field. exact H.
  - intros x _. apply (ex_derive_continuous (fun y : R => y ^ d)). auto_derive. exact I.
Qed.

(* ---------------------------------------------------------------- trapezoid *)
Lemma trap_sum m (g : nat -> R) :
  rsum (S (S m)) (fun k => wts_Trapezoidal (S (S m)) k * g k)
  = 2 / (INR m + 1) * (rsum (S (S m)) g - g O / 2 - g (S m) / 2).
Proof.
  unfold wts_Trapezoidal. rewrite rsum_halve_ends. rewrite rsum_scal. rewrite !S_INR.
  assert (INR m + 1 <> 0) by (pose proof (pos_INR m); lra). field. lra.
Qed.

Lemma trapezoid_exact_lemma n d : (2 <= n)%nat -> (d <= 1)%nat ->
  rsum n (fun k => wts_Trapezoidal n k * pts_Trapezoidal n k ^ d) = mono_int d.
Proof.
  intros Hn Hd. destruct n as [|[|m]]; try lia. rewrite trap_sum.
  pose proof (pos_INR m) as Hm. assert (HM : INR m + 1 <> 0) by lra.
  destruct d as [|[|d]]; [| |lia].
  - rewrite (rsum_ext _ _ (fun _ => 1)) by (intros; simpl; lra). rewrite rsum_const, !S_INR.
    unfold mono_int. simpl. field. lra.
  - rewrite (rsum_ext _ _ (fun k => -1 + 2 / (INR (S (S m)) - 1) * INR k))
      by (intros; unfold pts_Trapezoidal; rewrite !S_INR; field; lra).
    rewrite sum_aff1. unfold pts_Trapezoidal. rewrite !S_INR. unfold mono_int. simpl. field. lra.
Qed.

(* ---------------------------------------------------------------- midpoint *)
Lemma midpoint_exact_lemma n d : (1 <= n)%nat -> (d <= 1)%nat ->
  rsum n (fun k => wts_MidPoint n k * pts_MidPoint n k ^ d) = mono_int d.
Proof.
  intros Hn Hd. assert (HN : INR n <> 0) by (apply not_0_INR; lia).
  unfold wts_MidPoint. rewrite rsum_scal.
  destruct d as [|[|d]]; [| |lia].
  - rewrite (rsum_ext _ _ (fun _ => 1)) by (intros; simpl; lra). rewrite rsum_const.
    unfold mono_int. simpl. field. exact HN.
  - rewrite (rsum_ext _ _ (fun k => (-1 + 1 / INR n) + 2 / INR n * INR k))
      by (intros; unfold pts_MidPoint; field; exact HN).
    rewrite sum_aff1. unfold mono_int. simpl. field. exact HN.
Qed.

(* ---------------------------------------------------------------- Simpson *)
Lemma odd_2j1 j : Nat.odd (2 * j + 1) = true.
Proof. rewrite Nat.odd_add, Nat.odd_mul. reflexivity. Qed.
Lemma even_2j1 j : Nat.even (2 * j + 1) = false.
Proof. rewrite <- Nat.negb_odd, odd_2j1. reflexivity. Qed.
Lemma even_2j j : Nat.even (2 * j) = true.
Proof. rewrite Nat.even_mul. reflexivity. Qed.
Lemma odd_2j j : Nat.odd (2 * j) = false.
Proof. rewrite <- Nat.negb_even, even_2j. reflexivity. Qed.

Lemma simpson_sum m (g : nat -> R) : (1 <= m)%nat ->
  rsum (2 * m + 1) (fun k => wts_Simpson (2 * m + 1) k * g k)
  = 1 / (3 * INR m) * (4 * rsum m (fun j => g (2 * j + 1)%nat) + 2 * rsum (S m) (fun j => g (2 * j)%nat)
                       - g O - g (2 * m)%nat).
Proof.
  intros Hm. assert (HM : 0 < INR m) by (apply lt_0_INR; lia).
  set (w := 2 * 1 / (3 * (INR (2 * m + 1) - 1))).
  assert (Hw : w = 1 / (3 * INR m)).
  { unfold w. rewrite plus_INR, mult_INR. simpl. field; repeat split; lra. }
  rewrite rsum_parity.
  rewrite (rsum_ext m _ (fun j => (4 * w) * g (2 * j + 1)%nat)).
  2:{ intros j Hj. unfold wts_Simpson. fold w. rewrite odd_2j1, even_2j1, !andb_false_r, andb_true_r.
      replace ((1 <=? 2 * j + 1)%nat) with true by (symmetry; apply Nat.leb_le; lia).
      replace ((2 * j + 1 <? 2 * m + 1 - 1)%nat) with true by (symmetry; apply Nat.ltb_lt; lia).
      cbn [andb]; cbv beta iota. ring. }
  rewrite (rsum_ext (S m) _ (fun j => halve_ends (S m) (fun _ => 2 * w) j * g (2 * j)%nat)).
  2:{ intros j Hj. unfold wts_Simpson. fold w. rewrite odd_2j, even_2j, !andb_false_r, andb_true_r.
      unfold halve_ends. replace (S m - 1)%nat with m by lia.
      destruct (Nat.eqb_spec j 0) as [->|Hj0].
      - simpl Nat.mul. simpl Nat.leb. cbn [andb]; cbv beta iota. destruct (Nat.eqb_spec 0 m); [lia|]. field.
      - replace ((2 <=? 2 * j)%nat) with true by (symmetry; apply Nat.leb_le; lia).
        destruct (Nat.eqb_spec j m) as [->|Hjm].
        + replace ((2 * m <? 2 * m + 1 - 1)%nat) with false by (symmetry; apply Nat.ltb_ge; lia). cbn [andb]; cbv beta iota. field.
        + replace ((2 * j <? 2 * m + 1 - 1)%nat) with true by (symmetry; apply Nat.ltb_lt; lia). cbn [andb]; cbv beta iota. ring. }
  destruct m as [|m']; [lia|]. rewrite rsum_halve_ends, !rsum_scal.
  replace (2 * 0)%nat with O by lia. rewrite Hw. field; repeat split; lra.
Qed.

Lemma simpson_exact_lemma n d : (3 <= n)%nat -> Nat.odd n = true -> (d <= 3)%nat ->
  rsum n (fun k => wts_Simpson n k * pts_Simpson n k ^ d) = mono_int d.
Proof.
  intros Hn Hodd Hd.
  assert (Hex : exists m, n = (2 * m + 1)%nat).
  { destruct (Nat.Even_or_Odd n) as [He|[m ->]]; [|exists m; reflexivity].
    apply Nat.even_spec in He. rewrite <- Nat.negb_odd, Hodd in He. discriminate. }
  destruct Hex as [m ->]. assert (Hm : (1 <= m)%nat) by lia.
  assert (HM : 0 < INR m) by (apply lt_0_INR; lia).
  rewrite simpson_sum by exact Hm.
  assert (Hp : forall k, pts_Simpson (2 * m + 1) k = -1 + 1 / INR m * INR k).
  { intros k. unfold pts_Simpson. rewrite plus_INR, mult_INR. simpl. field; repeat split; lra. }
  assert (Hodd_pt : forall j, pts_Simpson (2 * m + 1) (2 * j + 1) = (-1 + 1 / INR m) + 2 / INR m * INR j).
  { intros j. rewrite Hp, plus_INR, mult_INR. simpl. field; repeat split; lra. }
  assert (Hev_pt : forall j, pts_Simpson (2 * m + 1) (2 * j) = -1 + 2 / INR m * INR j).
  { intros j. rewrite Hp, mult_INR. simpl. field; repeat split; lra. }
  assert (H0 : pts_Simpson (2 * m + 1) 0 = -1) by (rewrite Hp; simpl; lra).
  assert (H1 : pts_Simpson (2 * m + 1) (2 * m) = 1) by (rewrite Hp, mult_INR; simpl; field; lra).
  rewrite H0, H1.
  rewrite (rsum_ext m _ (fun j => ((-1 + 1 / INR m) + 2 / INR m * INR j) ^ d)) by (intros; rewrite Hodd_pt; reflexivity).
  rewrite (rsum_ext (S m) _ (fun j => (-1 + 2 / INR m * INR j) ^ d)) by (intros; rewrite Hev_pt; reflexivity).
  unfold mono_int.
  destruct d as [|[|[|[|d]]]]; [| | | |lia].
  - rewrite (rsum_ext m _ (fun _ => 1)) by (intros; reflexivity).
    rewrite (rsum_ext (S m) _ (fun _ => 1)) by (intros; reflexivity).
    rewrite !rsum_const, S_INR. simpl. field; lra.
  - rewrite (rsum_ext m _ (fun j => (-1 + 1 / INR m) + 2 / INR m * INR j)) by (intros; apply pow_1).
    rewrite (rsum_ext (S m) _ (fun j => -1 + 2 / INR m * INR j)) by (intros; apply pow_1).
    rewrite !sum_aff1, S_INR. simpl. field; lra.
  - rewrite !sum_aff2, S_INR. simpl. field; repeat split; lra.
  - rewrite !sum_aff3, S_INR. simpl. field; repeat split; lra.
Qed.

(* the hypotheses are satisfiable: Simpson with 5 points integrates x^2 to 2/3 *)
Example simpson_5_x2 : rsum 5 (fun k => wts_Simpson 5 k * pts_Simpson 5 k ^ 2) = 2 / 3.
Proof. rewrite (simpson_exact_lemma 5 2) by (try reflexivity; lia). unfold mono_int. simpl. lra. Qed.

(* ---------------------------------------------------------------- 1. Newton-Cotes *)
Lemma newton_cotes_exact_thm :
  (forall n d, (2 <= n)%nat -> (d <= 1)%nat ->
     rsum n (fun k => wts_Trapezoidal n k * pts_Trapezoidal n k ^ d) = mono_int d) /\
  (forall n d, (1 <= n)%nat -> (d <= 1)%nat ->
     rsum n (fun k => wts_MidPoint n k * pts_MidPoint n k ^ d) = mono_int d) /\
  (forall n d, (3 <= n)%nat -> Nat.odd n = true -> (d <= 3)%nat ->
     rsum n (fun k => wts_Simpson n k * pts_Simpson n k ^ d) = mono_int d).
Proof. split; [exact trapezoid_exact_lemma|split; [exact midpoint_exact_lemma|exact simpson_exact_lemma]]. Qed.

