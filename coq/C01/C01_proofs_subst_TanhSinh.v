(* C01 — TanhSinh: weight = derivative of the node map, positivity, monotonicity, domain *)
From Coq Require Import Reals Arith Lia Lra.
From Coquelicot Require Import Coquelicot.
From P Require Import C01_gen C01_model C01_proofs_subst.
Open Scope R_scope.

(* ---------------------------------------------------------------- TanhSinh *)
Lemma TanhSinh_deriv d j : is_derive (TanhSinh_points d) j (TanhSinh_weights d j).
Proof.
  unfold TanhSinh_points, TanhSinh_weights. cbv zeta. hyp_derive.
  match goal with |- context [cosh ?a ^ 2] => pose proof (cosh_pos a) end. field. lra.
Qed.
Lemma TanhSinh_wpos d j : 0 < d -> 0 < TanhSinh_weights d j.
Proof.
  intros Hd. unfold TanhSinh_weights. cbv zeta. pose proof PI_RGT_0.
  pose proof (cosh_pos (j * d)). pose proof (cosh_pos (1 / 2 * PI * sinh (j * d))).
  apply Rmult_lt_0_compat; [|nra]. apply Rdiv_lt_0_compat; [assumption|]. apply pow_lt. assumption.
Qed.
Lemma TanhSinh_domain d j : -1 < TanhSinh_points d j < 1.
Proof. unfold TanhSinh_points. cbv zeta. apply tanh_bounds. Qed.

Lemma subst_TanhSinh_thm delta n k : 0 < delta ->
  (is_derive (TanhSinh_points delta) (kidx n k) (wts_TanhSinh delta n k) /\
   is_derive (fun t => TanhSinh_points delta (t / delta)) (kidx n k * delta) (wts_TanhSinh delta n k / delta) /\
   0 < wts_TanhSinh delta n k /\
   (forall a b, a < b -> TanhSinh_points delta a < TanhSinh_points delta b) /\
   pts_TanhSinh delta n k < pts_TanhSinh delta n (S k)) /\
  -1 < pts_TanhSinh delta n k < 1.
Proof.
  intros H. split; [|apply TanhSinh_domain].
  apply (subst_pack (TanhSinh_points delta) (TanhSinh_weights delta)); [lra|apply TanhSinh_deriv|intros; apply TanhSinh_wpos; exact H].
Qed.
