(* C01 — LogExpSinh: weight = derivative of the node map, positivity, monotonicity, domain *)
From Coq Require Import Reals Arith Lia Lra.
From Coquelicot Require Import Coquelicot.
From P Require Import C01_gen C01_model C01_proofs_subst.
Open Scope R_scope.

(* ---------------------------------------------------------------- LogExpSinh *)
Lemma LogExpSinh_deriv h k : is_derive (LogExpSinh_points h) k (LogExpSinh_weights h k).
Proof.
  unfold LogExpSinh_points, LogExpSinh_weights. cbv zeta.
  pose proof (exp_pos (PI * sinh (k * h) / 2)) as He.
  auto_derive.
  - repeat split; first [apply ex_derive_sinh | exact I | idtac]. unfold Rdiv in He. lra.
  - rewrite ?Derive_sinh. unfold Rdiv, Rminus. unfold Rdiv in He. field. lra.
Qed.
Lemma LogExpSinh_wpos h k : 0 < h -> 0 < LogExpSinh_weights h k.
Proof.
  intros Hh. unfold LogExpSinh_weights. cbv zeta. pose proof PI_RGT_0. pose proof (cosh_pos (k * h)).
  pose proof (exp_pos (PI * sinh (k * h) / 2)).
  apply Rdiv_lt_0_compat; [|lra]. apply Rdiv_lt_0_compat; [|lra]. apply pos4; assumption.
Qed.
Lemma LogExpSinh_domain h k : 0 < LogExpSinh_points h k.
Proof.
  unfold LogExpSinh_points. cbv zeta. pose proof (exp_pos (PI * sinh (k * h) / 2)).
  rewrite <- ln_1. apply ln_increasing; lra.
Qed.

Lemma subst_LogExpSinh_thm h n k : 0 < h ->
  (is_derive (LogExpSinh_points h) (kidx n k) (wts_LogExpSinh h n k) /\
   is_derive (fun t => LogExpSinh_points h (t / h)) (kidx n k * h) (wts_LogExpSinh h n k / h) /\
   0 < wts_LogExpSinh h n k /\
   (forall a b, a < b -> LogExpSinh_points h a < LogExpSinh_points h b) /\
   pts_LogExpSinh h n k < pts_LogExpSinh h n (S k)) /\
  0 < pts_LogExpSinh h n k.
Proof.
  intros H. split; [|apply LogExpSinh_domain].
  apply (subst_pack (LogExpSinh_points h) (LogExpSinh_weights h)); [lra|apply LogExpSinh_deriv|intros; apply LogExpSinh_wpos; exact H].
Qed.
