(* C01 property theorems 4/5 — variable-substitution rules: for every step h > 0, size n and index k,
   the weight is the derivative of the node map w.r.t. the (real) index variable, i.e. h * phi'(t_k) with
   t_k = k h; all weights are positive; the node map is strictly increasing (nodes ascend) and stays inside the
   declared domain.  <Rule>_points / <Rule>_weights are re-translated from the constructor source on every run. *)
From Coq Require Import Reals Arith.
From Coquelicot Require Import Coquelicot.
From P Require Import C01_gen C01_model C01_proofs_subst.
Open Scope R_scope.

Theorem subst_rules_TanhSinh : forall delta n k, 0 < delta ->
  (is_derive (TanhSinh_points delta) (kidx n k) (wts_TanhSinh delta n k) /\
   is_derive (fun t => TanhSinh_points delta (t / delta)) (kidx n k * delta) (wts_TanhSinh delta n k / delta) /\
   0 < wts_TanhSinh delta n k /\
   (forall a b, a < b -> TanhSinh_points delta a < TanhSinh_points delta b) /\
   pts_TanhSinh delta n k < pts_TanhSinh delta n (S k)) /\
  -1 < pts_TanhSinh delta n k < 1.
Proof. exact subst_TanhSinh_thm. Qed.
Print Assumptions subst_rules_TanhSinh.

Theorem subst_rules_ExpSinh : forall h n k, 0 < h ->
  (is_derive (ExpSinh_points h) (kidx n k) (wts_ExpSinh h n k) /\
   is_derive (fun t => ExpSinh_points h (t / h)) (kidx n k * h) (wts_ExpSinh h n k / h) /\
   0 < wts_ExpSinh h n k /\
   (forall a b, a < b -> ExpSinh_points h a < ExpSinh_points h b) /\
   pts_ExpSinh h n k < pts_ExpSinh h n (S k)) /\
  0 < pts_ExpSinh h n k.
Proof. exact subst_ExpSinh_thm. Qed.
Print Assumptions subst_rules_ExpSinh.

Theorem subst_rules_LogExpSinh : forall h n k, 0 < h ->
  (is_derive (LogExpSinh_points h) (kidx n k) (wts_LogExpSinh h n k) /\
   is_derive (fun t => LogExpSinh_points h (t / h)) (kidx n k * h) (wts_LogExpSinh h n k / h) /\
   0 < wts_LogExpSinh h n k /\
   (forall a b, a < b -> LogExpSinh_points h a < LogExpSinh_points h b) /\
   pts_LogExpSinh h n k < pts_LogExpSinh h n (S k)) /\
  0 < pts_LogExpSinh h n k.
Proof. exact subst_LogExpSinh_thm. Qed.
Print Assumptions subst_rules_LogExpSinh.

Theorem subst_rules_ExpExp : forall h n k, 0 < h ->
  (is_derive (ExpExp_points h) (kidx n k) (wts_ExpExp h n k) /\
   is_derive (fun t => ExpExp_points h (t / h)) (kidx n k * h) (wts_ExpExp h n k / h) /\
   0 < wts_ExpExp h n k /\
   (forall a b, a < b -> ExpExp_points h a < ExpExp_points h b) /\
   pts_ExpExp h n k < pts_ExpExp h n (S k)) /\
  0 < pts_ExpExp h n k.
Proof. exact subst_ExpExp_thm. Qed.
Print Assumptions subst_rules_ExpExp.

Theorem subst_rules_SingleTanh : forall h n k, 0 < h ->
  (is_derive (SingleTanh_points h) (kidx n k) (wts_SingleTanh h n k) /\
   is_derive (fun t => SingleTanh_points h (t / h)) (kidx n k * h) (wts_SingleTanh h n k / h) /\
   0 < wts_SingleTanh h n k /\
   (forall a b, a < b -> SingleTanh_points h a < SingleTanh_points h b) /\
   pts_SingleTanh h n k < pts_SingleTanh h n (S k)) /\
  -1 < pts_SingleTanh h n k < 1.
Proof. exact subst_SingleTanh_thm. Qed.
Print Assumptions subst_rules_SingleTanh.
