(* C01 property theorems 4/5 — variable-substitution rules: for every step h > 0, size n and index k,
   the weight is the derivative of the node map w.r.t. the (real) index variable, i.e. h * phi'(t_k) with
   t_k = k h; all weights are positive; the node map is strictly increasing (nodes ascend) and stays inside the
   declared domain.  <Rule>_points / <Rule>_weights are re-translated from the constructor source on every run. *)
From Coq Require Import Reals Arith.
From Coquelicot Require Import Coquelicot.
From P Require Import C01_gen C01_model C01_proofs_subst.
Open Scope R_scope.

(* the index array k = -m..m: consecutive integers, symmetric about 0 for odd n *)
Theorem subst_rules_index : forall n k,
  kidx n (S k) = kidx n k + 1 /\ kidx n 0 = - INR ((n - 1) / 2) /\ (Nat.odd n = true -> kidx n (n - 1) = INR ((n - 1) / 2)).
Proof. exact subst_index_thm. Qed.
Print Assumptions subst_rules_index.
