(* C01 property theorems 3/5 — weight-divided Gauss rules.
   ox / ow are the arrays returned by the library routine (oracle); Iw p stands for int w(x) p(x) dx. *)
From Coq Require Import Reals Arith.
From Coquelicot Require Import Coquelicot.
From P Require Import C01_gen C01_model C01_proofs_poly C01_proofs_gauss_cheb2.
Open Scope R_scope.

Theorem gauss_wrappers_chebyshev2 : forall (n : nat) (ox ow : nat -> R) (Iw : (R -> R) -> R),
  (forall p, pspan (2 * n - 1) p -> rsum n (fun i => ow i * p (ox i)) = Iw p) ->
  (forall i, (i < n)%nat -> -1 < ox i < 1) ->
  forall p, pspan (2 * n - 1) p ->
  rsum n (fun k => wts_GaussChebyshevType2 ox ow n k
                   * (sqrt (1 - pts_GaussChebyshevType2 ox n k ^ 2) * p (pts_GaussChebyshevType2 ox n k))) = Iw p.
Proof. exact gc2_wrapper_lemma. Qed.
Print Assumptions gauss_wrappers_chebyshev2.

Theorem gauss_wrappers_chebyshev2_nodes : forall n (ox : nat -> R) k, pts_GaussChebyshevType2 ox n k = ox k.
Proof. exact cheb2_nodes_same. Qed.
Print Assumptions gauss_wrappers_chebyshev2_nodes.
