(* C01 — polynomials of degree <= D as the linear span of T_0..T_D; integrals of the Chebyshev polynomials;
   a rule that is right on T_0..T_D integrates every polynomial of degree <= D exactly. *)
From Coq Require Import Reals Arith Lia Lra.
From Coquelicot Require Import Coquelicot.
From P Require Import C01_gen C01_model C01_proofs_sums C01_proofs_nc C01_proofs_trig.
Open Scope R_scope.

(* ---------------------------------------------------------------- the space of polynomials of degree <= D *)
Inductive pspan (D : nat) : (R -> R) -> Prop :=
| ps_cheb m : (m <= D)%nat -> pspan D (cheb m)
| ps_add f g : pspan D f -> pspan D g -> pspan D (fun x => f x + g x)
| ps_scal c f : pspan D f -> pspan D (fun x => c * f x)
| ps_ext f g : (forall x, f x = g x) -> pspan D f -> pspan D g.

Lemma pspan_mono D D' f : (D <= D')%nat -> pspan D f -> pspan D' f.
Proof.
  intros H S. induction S as [m Hm|f g _ IHf _ IHg|c f _ IH|f g E _ IH].
  - apply ps_cheb. lia.
  - apply ps_add; assumption.
  - apply ps_scal; assumption.
  - apply (ps_ext D' f g); assumption.
Qed.

Lemma pspan_mulx D f : pspan D f -> pspan (S D) (fun x => x * f x).
Proof.
  intros S. induction S as [m Hm|f g _ IHf _ IHg|c f _ IH|f g E _ IH].
  - destruct m as [|m].
    + apply (ps_ext (S D) (cheb 1)); [intros x; simpl; ring|apply ps_cheb; lia].
    + apply (ps_ext (S D) (fun x => 1 / 2 * cheb (S (S m)) x + 1 / 2 * cheb m x)).
      * intros x. rewrite cheb_SS. field.
      * apply ps_add; apply ps_scal; apply ps_cheb; lia.
  - apply (ps_ext (S D) (fun x => x * f x + x * g x)); [intros; ring|apply ps_add; assumption].
  - apply (ps_ext (S D) (fun x => c * (x * f x))); [intros; ring|apply ps_scal; assumption].
  - apply (ps_ext (S D) (fun x => x * f x)); [intros; rewrite E; reflexivity|assumption].
Qed.

(* every monomial of degree d <= D, hence every polynomial of degree <= D, lies in the span *)
Lemma pspan_pow d : pspan d (fun x => x ^ d).
Proof.
  induction d as [|d IH].
  - apply (ps_ext 0 (cheb 0)); [intros; reflexivity|apply ps_cheb; lia].
  - apply (ps_ext (S d) (fun x => x * x ^ d)); [intros; reflexivity|apply pspan_mulx; exact IH].
Qed.

Lemma pspan_monomial D d : (d <= D)%nat -> pspan D (fun x => x ^ d).
Proof. intros H. apply (pspan_mono d D); [exact H|apply pspan_pow]. Qed.

Lemma pspan_poly D (a : nat -> R) : pspan D (fun x => rsum (S D) (fun d => a d * x ^ d)).
Proof.
  assert (G : forall m, (m <= S D)%nat -> pspan D (fun x => rsum m (fun d => a d * x ^ d))).
  { induction m as [|m IH]; intros Hm.
    - apply (ps_ext D (fun x => 0 * cheb 0 x)); [intros; simpl; ring|apply ps_scal, ps_cheb; lia].
    - apply (ps_add D (fun x => rsum m (fun d => a d * x ^ d)) (fun x => a m * x ^ m)).
      + apply IH. lia.
      + apply ps_scal. apply pspan_monomial. lia. }
  apply G. lia.
Qed.

(* ---------------------------------------------------------------- Chebyshev polynomials of the second kind *)
Fixpoint chebU (m : nat) (x : R) : R :=
  match m with
  | O => 1
  | S m' => match m' with O => 2 * x | S m'' => 2 * x * chebU m' x - chebU m'' x end
  end.
Lemma chebU_SS m x : chebU (S (S m)) x = 2 * x * chebU (S m) x - chebU m x.
Proof. reflexivity. Qed.

(* T_{m+2} = x U_{m+1} - U_m *)
Lemma cheb_chebU_pair m x :
  cheb (S (S m)) x = x * chebU (S m) x - chebU m x /\ cheb (S (S (S m))) x = x * chebU (S (S m)) x - chebU (S m) x.
Proof.
  induction m as [|m [IH0 IH1]].
  - split; simpl; ring.
  - split; [exact IH1|]. rewrite cheb_SS, IH1, IH0, (chebU_SS (S m)), (chebU_SS m). ring.
Qed.
Lemma cheb_chebU m x : cheb (S (S m)) x = x * chebU (S m) x - chebU m x.
Proof. apply cheb_chebU_pair. Qed.

Lemma deriv_rec (T2 T1 : R -> R) x d2 d1 : is_derive T2 x d2 -> is_derive T1 x d1 ->
  is_derive (fun y => 2 * y * T2 y - T1 y) x (2 * T2 x + 2 * x * d2 - d1).
Proof.
  intros H2 H1. auto_derive.
  - split; [eexists; exact H2|]. split; [eexists; exact H1|exact I].
  - change (Derive (fun x0 : R => T2 x0) x) with (Derive T2 x). change (Derive (fun x0 : R => T1 x0) x) with (Derive T1 x).
    rewrite (is_derive_unique _ _ _ H2), (is_derive_unique _ _ _ H1). ring.
Qed.
Lemma deriv_anti (T3 T1 : R -> R) c3 c1 x d3 d1 : is_derive T3 x d3 -> is_derive T1 x d1 ->
  is_derive (fun y => (T3 y / c3 - T1 y / c1) / 2) x ((d3 / c3 - d1 / c1) / 2).
Proof.
  intros H3 H1. auto_derive.
  - split; [eexists; exact H3|]. split; [eexists; exact H1|exact I].
  - change (Derive (fun x0 : R => T3 x0) x) with (Derive T3 x). change (Derive (fun x0 : R => T1 x0) x) with (Derive T1 x).
    rewrite (is_derive_unique _ _ _ H3), (is_derive_unique _ _ _ H1). unfold Rdiv, Rminus. ring.
Qed.

(* T_{m+1}' = (m+1) U_m *)
Lemma cheb_deriv_pair m x :
  is_derive (cheb (S m)) x (INR (S m) * chebU m x) /\ is_derive (cheb (S (S m))) x (INR (S (S m)) * chebU (S m) x).
Proof.
  induction m as [|m [IH0 IH1]].
  - split.
    + apply (is_derive_ext (fun y => y)); [intros; reflexivity|]. auto_derive; [exact I|simpl; ring].
    + apply (is_derive_ext (fun y => 2 * y * y - 1)); [intros; simpl; ring|]. auto_derive; [exact I|simpl; ring].
  - split; [exact IH1|].
    apply (is_derive_ext (fun y => 2 * y * cheb (S (S m)) y - cheb (S m) y)); [intros; rewrite (cheb_SS (S m)); reflexivity|].
    evar_last; [apply (deriv_rec (cheb (S (S m))) (cheb (S m)) x _ _ IH1 IH0)|].
    rewrite (cheb_chebU m), (chebU_SS m). rewrite !S_INR. ring.
Qed.
Lemma cheb_deriv m x : is_derive (cheb (S m)) x (INR (S m) * chebU m x).
Proof. apply cheb_deriv_pair. Qed.

Lemma cheb_ex_derive m x : ex_derive (cheb m) x.
Proof.
  destruct m as [|m]; [|eexists; apply cheb_deriv].
  exists 0. apply (is_derive_ext (fun _ => 1)); [intros; reflexivity|]. apply (is_derive_const 1 x).
Qed.
Lemma cheb_continuous m x : continuous (cheb m) x.
Proof. apply (ex_derive_continuous (cheb m) x). apply cheb_ex_derive. Qed.

Lemma cheb_at_1 m : cheb m 1 = 1.
Proof. replace 1 with (cos 0) at 1 by apply cos_0. rewrite cheb_cos, Rmult_0_r. apply cos_0. Qed.
Lemma cheb_at_m1 m : cheb m (-1) = (-1) ^ m.
Proof. replace (-1) with (cos PI) at 1 by apply cos_PI. rewrite cheb_cos. apply cos_nPI. Qed.

(* antiderivative of T_{m+2}: (T_{m+3}/(m+3) - T_{m+1}/(m+1)) / 2 *)
Lemma cheb_antideriv m x :
  is_derive (fun y => (cheb (S (S (S m))) y / INR (S (S (S m))) - cheb (S m) y / INR (S m)) / 2) x (cheb (S (S m)) x).
Proof.
  pose proof (cheb_deriv (S (S m)) x) as D3. pose proof (cheb_deriv m x) as D1.
  assert (H3 : INR (S (S (S m))) <> 0) by (apply not_0_INR; lia).
  assert (H1 : INR (S m) <> 0) by (apply not_0_INR; lia).
  evar_last; [apply (deriv_anti _ _ _ _ x _ _ D3 D1)|].
  rewrite (cheb_chebU m), (chebU_SS m). field. split; assumption.
Qed.

Lemma cheb_int_correct m : is_RInt (cheb m) (-1) 1 (cheb_int m).
Proof.
  destruct m as [|[|m]].
  - apply (is_RInt_ext (fun x => x ^ 0)); [intros; reflexivity|].
    replace (cheb_int 0) with (mono_int 0) by (unfold cheb_int, mono_int; simpl; field). apply mono_int_correct.
  - apply (is_RInt_ext (fun x => x ^ 1)); [intros; simpl; ring|].
    replace (cheb_int 1) with (mono_int 1) by (unfold cheb_int, mono_int; simpl; field). apply mono_int_correct.
  - set (F := fun y => (cheb (S (S (S m))) y / INR (S (S (S m))) - cheb (S m) y / INR (S m)) / 2).
    replace (cheb_int (S (S m))) with (F 1 - F (-1)).
    + apply (is_RInt_derive F (cheb (S (S m)))).
      * intros x _. apply cheb_antideriv.
      * intros x _. apply cheb_continuous.
    + unfold F. rewrite !cheb_at_1, !cheb_at_m1. unfold cheb_int.
      assert (H3 : 0 < INR (S (S (S m)))) by (apply lt_0_INR; lia).
      assert (H1 : 0 < INR (S m)) by (apply lt_0_INR; lia).
      rewrite !S_INR in *.
      destruct (Nat.even (S (S m))) eqn:Hev.
      * rewrite Nat.even_succ_succ in Hev. rewrite (pm1_odd (S m)) by (rewrite Nat.odd_succ; exact Hev).
        rewrite (pm1_odd (S (S (S m)))) by (rewrite Nat.odd_succ, Nat.even_succ_succ; exact Hev).
        field. repeat split; nra.
      * rewrite Nat.even_succ_succ in Hev.
        assert (Ho : Nat.even (S m) = true) by (rewrite Nat.even_succ, <- Nat.negb_even, Hev; reflexivity).
        rewrite (pm1_even (S m)) by exact Ho.
        rewrite (pm1_even (S (S (S m)))) by (rewrite Nat.even_succ_succ; exact Ho).
        field. split; lra.
Qed.

(* ---------------------------------------------------------------- from T_0..T_D to every polynomial of degree <= D *)
Section Transfer.
  Variables (n D : nat) (w x : nat -> R).
  Hypothesis on_cheb : forall m, (m <= D)%nat -> rsum n (fun k => w k * cheb m (x k)) = cheb_int m.

  Lemma quad_exact_on_span f : pspan D f -> is_RInt f (-1) 1 (rsum n (fun k => w k * f (x k))).
  Proof.
    intros S. induction S as [m Hm|f g _ IHf _ IHg|c f _ IH|f g E _ IH].
    - rewrite on_cheb by exact Hm. apply cheb_int_correct.
    - rewrite (rsum_ext n _ (fun k => w k * f (x k) + w k * g (x k))) by (intros; ring).
      rewrite rsum_plus. apply (is_RInt_plus f g); assumption.
    - rewrite (rsum_ext n _ (fun k => c * (w k * f (x k)))) by (intros; ring).
      rewrite rsum_scal. apply (is_RInt_scal f (-1) 1 c). exact IH.
    - rewrite (rsum_ext n _ (fun k => w k * f (x k))) by (intros; rewrite E; reflexivity).
      apply (is_RInt_ext f g); [intros; apply E|exact IH].
  Qed.

  Lemma quad_exact_monomial d : (d <= D)%nat -> rsum n (fun k => w k * x k ^ d) = mono_int d.
  Proof.
    intros Hd. pose proof (quad_exact_on_span _ (pspan_monomial D d Hd)) as H1.
    pose proof (mono_int_correct d) as H2.
    rewrite <- (is_RInt_unique _ _ _ _ H1). apply is_RInt_unique. exact H2.
  Qed.
End Transfer.
