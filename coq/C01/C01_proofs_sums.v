(* C01 — finite-sum toolkit for the index-function models *)
From Coq Require Import Reals Arith Lia Lra Bool.
From P Require Import C01_gen C01_model.
Open Scope R_scope.

Lemma rsum_ext n f g : (forall k, (k < n)%nat -> f k = g k) -> rsum n f = rsum n g.
Proof.
  induction n as [|n IH]; intros H; simpl; [reflexivity|].
  rewrite IH by (intros; apply H; lia). rewrite (H n) by lia. reflexivity.
Qed.

Lemma rsum_plus n f g : rsum n (fun k => f k + g k) = rsum n f + rsum n g.
Proof. induction n as [|n IH]; simpl; [lra|rewrite IH; lra]. Qed.

Lemma rsum_minus n f g : rsum n (fun k => f k - g k) = rsum n f - rsum n g.
Proof. induction n as [|n IH]; simpl; [lra|rewrite IH; lra]. Qed.

Lemma rsum_scal n c f : rsum n (fun k => c * f k) = c * rsum n f.
Proof. induction n as [|n IH]; simpl; [lra|rewrite IH; lra]. Qed.

Lemma rsum_scal_r n c f : rsum n (fun k => f k * c) = rsum n f * c.
Proof. induction n as [|n IH]; simpl; [lra|rewrite IH; lra]. Qed.

Lemma rsum_const n c : rsum n (fun _ => c) = INR n * c.
Proof. induction n as [|n IH]; [simpl; lra|]. rewrite S_INR. simpl. rewrite IH. lra. Qed.

Lemma rsum_zero n f : (forall k, (k < n)%nat -> f k = 0) -> rsum n f = 0.
Proof. intros H. rewrite (rsum_ext n f (fun _ => 0)) by exact H. rewrite rsum_const. lra. Qed.

Lemma rsum_S_first n f : rsum (S n) f = f O + rsum n (fun k => f (S k)).
Proof. induction n as [|n IH]; [simpl; lra|]. change (rsum (S (S n)) f) with (rsum (S n) f + f (S n)). rewrite IH. simpl. lra. Qed.

(* first term, interior terms, last term *)
Lemma rsum_ends m f : rsum (S (S m)) f = f O + rsum m (fun k => f (S k)) + f (S m).
Proof. change (rsum (S (S m)) f) with (rsum (S m) f + f (S m)). rewrite rsum_S_first. reflexivity. Qed.

(* reversal of the summation order: np.sum(x[::-1]) = np.sum(x) *)
Lemma rsum_rev n f : rsum n (rev n f) = rsum n f.
Proof.
  unfold rev. induction n as [|n IH] in f |- *; [reflexivity|].
  rewrite rsum_S_first. replace (S n - 1 - 0)%nat with n by lia.
  change (rsum (S n) f) with (rsum n f + f n).
  rewrite <- (IH f). rewrite Rplus_comm. f_equal.
  apply rsum_ext. intros k Hk. f_equal. lia.
Qed.

Lemma rsum_rev2 n f g : rsum n (fun k => rev n f k * rev n g k) = rsum n (fun k => f k * g k).
Proof. rewrite <- (rsum_rev n (fun k => f k * g k)). reflexivity. Qed.

(* exchange of two finite sums *)
Lemma rsum_swap n m (f : nat -> nat -> R) :
  rsum n (fun i => rsum m (fun j => f i j)) = rsum m (fun j => rsum n (fun i => f i j)).
Proof.
  induction n as [|n IH]; simpl.
  - symmetry. apply rsum_zero. reflexivity.
  - rewrite IH. rewrite <- rsum_plus. reflexivity.
Qed.

(* a sum with a single surviving term *)
Lemma rsum_pick n i (v : nat -> R) : (i < n)%nat ->
  rsum n (fun j => if (j =? i)%nat then v j else 0) = v i.
Proof.
  induction n as [|n IH]; intros H; [lia|]. simpl.
  destruct (Nat.eq_dec i n) as [->|Hne].
  - rewrite Nat.eqb_refl. rewrite rsum_zero; [lra|]. intros k Hk. destruct (Nat.eqb_spec k n); [lia|reflexivity].
  - destruct (Nat.eqb_spec n i); [lia|]. rewrite IH by lia. lra.
Qed.

Lemma rsum_pick_none n i (v : nat -> R) : (n <= i)%nat ->
  rsum n (fun j => if (j =? i)%nat then v j else 0) = 0.
Proof. intros H. apply rsum_zero. intros k Hk. destruct (Nat.eqb_spec k i); [lia|reflexivity]. Qed.

(* halve_ends: sum with both end weights halved *)
Lemma rsum_halve_ends m (w g : nat -> R) :
  rsum (S (S m)) (fun k => halve_ends (S (S m)) w k * g k)
  = rsum (S (S m)) (fun k => w k * g k) - w O * g O / 2 - w (S m) * g (S m) / 2.
Proof.
  rewrite !rsum_ends. unfold halve_ends at 1 3. simpl Nat.eqb.
  replace (S (S m) - 1)%nat with (S m) by lia. rewrite Nat.eqb_refl.
  rewrite (rsum_ext m (fun k => halve_ends (S (S m)) w (S k) * g (S k)) (fun k => w (S k) * g (S k))).
  - simpl. lra.
  - intros k Hk. unfold halve_ends. replace (S (S m) - 1)%nat with (S m) by lia.
    destruct (Nat.eqb_spec (S k) (S m)); [lia|]. destruct (Nat.eqb_spec (S k) 0); [lia|reflexivity].
Qed.

Lemma halve_ends_factor n w k : halve_ends n w k = halve_ends n (fun _ => 1) k * w k.
Proof. unfold halve_ends. destruct (k =? 0)%nat; destruct (k =? n - 1)%nat; field. Qed.

(* closed forms of the power sums *)
Lemma sum_k1 n : rsum n (fun k => INR k) = INR n * (INR n - 1) / 2.
Proof. induction n as [|n IH]; [simpl; lra|]. change (rsum (S n) (fun k => INR k)) with (rsum n (fun k => INR k) + INR n). rewrite IH, S_INR. lra. Qed.

Lemma sum_k2 n : rsum n (fun k => INR k ^ 2) = (INR n - 1) * INR n * (2 * INR n - 1) / 6.
Proof.
  induction n as [|n IH]; [simpl; lra|].
  change (rsum (S n) (fun k => INR k ^ 2)) with (rsum n (fun k => INR k ^ 2) + INR n ^ 2). rewrite IH, S_INR. lra.
Qed.

Lemma sum_k3 n : rsum n (fun k => INR k ^ 3) = (INR n * (INR n - 1) / 2) ^ 2.
Proof.
  induction n as [|n IH]; [simpl; lra|].
  change (rsum (S n) (fun k => INR k ^ 3)) with (rsum n (fun k => INR k ^ 3) + INR n ^ 3). rewrite IH, S_INR. lra.
Qed.

(* split a sum over 2m+1 consecutive indices into odd and even indices *)
Lemma rsum_parity m f :
  rsum (2 * m + 1) f = rsum m (fun j => f (2 * j + 1)%nat) + rsum (S m) (fun j => f (2 * j)%nat).
Proof.
  induction m as [|m IH]; [simpl; lra|].
  replace (2 * S m + 1)%nat with (S (S (2 * m + 1))) by lia.
  change (rsum (S (S (2 * m + 1))) f) with (rsum (2 * m + 1) f + f (2 * m + 1)%nat + f (S (2 * m + 1))).
  rewrite IH.
  change (rsum (S m) (fun j => f (2 * j + 1)%nat)) with (rsum m (fun j => f (2 * j + 1)%nat) + f (2 * m + 1)%nat).
  change (rsum (S (S m)) (fun j => f (2 * j)%nat)) with (rsum (S m) (fun j => f (2 * j)%nat) + f (2 * S m)%nat).
  replace (S (2 * m + 1)) with (2 * S m)%nat by lia. lra.
Qed.

(* sum over the series index with a single surviving (even) frequency *)
Lemma pick_even T m (beta : nat -> R) c :
  rsum T (fun jj => beta jj * (if (2 * (jj + 1) =? m)%nat then c else 0))
  = if (Nat.even m && (1 <=? m / 2) && (m / 2 <=? T))%nat then beta (m / 2 - 1)%nat * c else 0.
Proof.
  destruct (Nat.Even_or_Odd m) as [[i ->]|[i ->]].
  - replace (2 * i / 2)%nat with i by (rewrite Nat.mul_comm, Nat.div_mul; lia).
    rewrite Nat.even_mul. cbn [andb].
    destruct (Nat.leb_spec 1 i) as [Hi|Hi]; cbn [andb].
    + rewrite (rsum_ext T _ (fun jj => if (jj =? i - 1)%nat then beta jj * c else 0)).
      2:{ intros jj _. destruct (Nat.eqb_spec (2 * (jj + 1)) (2 * i)); destruct (Nat.eqb_spec jj (i - 1)); try lia; ring. }
      destruct (Nat.leb_spec i T) as [HT|HT].
      * apply (rsum_pick T (i - 1) (fun jj => beta jj * c)). lia.
      * apply rsum_pick_none. lia.
    + apply rsum_zero. intros jj _. destruct (Nat.eqb_spec (2 * (jj + 1)) (2 * i)); [lia|ring].
  - replace (Nat.even (2 * i + 1)) with false by (rewrite Nat.even_add, Nat.even_mul; reflexivity).
    cbn [andb]. apply rsum_zero. intros jj _. destruct (Nat.eqb_spec (2 * (jj + 1)) (2 * i + 1)); [lia|ring].
Qed.

Lemma pick_odd T a (gam : nat -> R) c :
  rsum T (fun jj => gam jj * (if (2 * jj + 1 =? a)%nat then c else 0))
  = if (Nat.odd a && (a / 2 <? T))%nat then gam (a / 2)%nat * c else 0.
Proof.
  destruct (Nat.Even_or_Odd a) as [[i ->]|[i ->]].
  - replace (Nat.odd (2 * i)) with false by (rewrite Nat.odd_mul; reflexivity). cbn [andb].
    apply rsum_zero. intros jj _. destruct (Nat.eqb_spec (2 * jj + 1) (2 * i)); [lia|ring].
  - replace ((2 * i + 1) / 2)%nat with i by (apply Nat.div_unique with 1%nat; lia).
    replace (Nat.odd (2 * i + 1)) with true by (rewrite Nat.odd_add, Nat.odd_mul; reflexivity). cbn [andb].
    rewrite (rsum_ext T _ (fun jj => if (jj =? i)%nat then gam jj * c else 0)).
    2:{ intros jj _. destruct (Nat.eqb_spec (2 * jj + 1) (2 * i + 1)); destruct (Nat.eqb_spec jj i); try lia; ring. }
    destruct (Nat.ltb_spec i T) as [HT|HT].
    + apply (rsum_pick T i (fun jj => gam jj * c)). exact HT.
    + apply rsum_pick_none. exact HT.
Qed.

Lemma INR_pos_nz n : (1 <= n)%nat -> INR n <> 0.
Proof. intros H. apply not_0_INR. lia. Qed.
