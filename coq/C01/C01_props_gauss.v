(* C01 property theorems 3/5 — weight-divided Gauss rules.
   ox / ow are the arrays returned by the library routine (oracle); Iw p stands for int w(x) p(x) dx. *)
From Coq Require Import Reals Arith.
From Coquelicot Require Import Coquelicot.
From P Require Import C01_gen C01_model C01_proofs_poly C01_proofs_gauss.
Open Scope R_scope.

(* int_{-1}^{1} T_m(x)/sqrt(1-x^2) dx = pi if m = 0, else 0: exact for every m < 2n, every n, unconditionally *)
Theorem gauss_chebyshev_exact : forall n m, (1 <= n)%nat -> (m < 2 * n)%nat ->
  rsum n (fun k => wts_GaussChebyshev n k * (cheb m (pts_GaussChebyshev n k) / sqrt (1 - pts_GaussChebyshev n k ^ 2)))
  = if (m =? 0)%nat then PI else 0.
Proof. exact gauss_chebyshev_exact_lemma. Qed.
Print Assumptions gauss_chebyshev_exact.

(* reversing the nodes but not the weights is harmless: weight k is (pi/n) sqrt(1 - x_k^2) for the node it is paired with *)
Theorem gauss_chebyshev_weight_matches_node : forall n k, (1 <= n)%nat -> (k < n)%nat ->
  wts_GaussChebyshev n k = PI / INR n * sqrt (1 - pts_GaussChebyshev n k ^ 2).
Proof. exact gc_weight_matches_node. Qed.
Print Assumptions gauss_chebyshev_weight_matches_node.

(* nodes ascending inside [-1,1] (they are the Fejer-1 nodes; depends on the reversal flag read from the source) *)
Theorem shape_GaussChebyshev : forall n k, (1 <= n)%nat -> (k < n)%nat ->
  -1 <= pts_GaussChebyshev n k <= 1 /\ ((S k < n)%nat -> pts_GaussChebyshev n k < pts_GaussChebyshev n (S k)).
Proof. exact gc_shape. Qed.
Print Assumptions shape_GaussChebyshev.
