(* C01 property theorems 3/5 — weight-divided Gauss rules.
   ox / ow are the arrays returned by the library routine (oracle); Iw p stands for int w(x) p(x) dx. *)
From Coq Require Import Reals Arith.
From Coquelicot Require Import Coquelicot.
From P Require Import C01_gen C01_model C01_proofs_poly C01_proofs_gauss.
Open Scope R_scope.

(* int_{-1}^{1} T_m(x)/sqrt(1-x^2) dx = pi if m = 0, else 0: exact for every m < 2n, every n, unconditionally *)
Theorem gauss_chebyshev_exact : forall n m, (1 <= n)%nat -> (m < 2 * n)%nat ->
  rsum n (fun k => wts_GaussChebyshev n k * (cheb m (pts_GaussChebyshev n k) / sqrt (1 - pts_GaussChebyshev n k ^ 2)))
  = if (m =? 0)%nat then PI else 0.
Proof. exact gauss_chebyshev_exact_lemma. Qed.
Print Assumptions gauss_chebyshev_exact.

(* reversing the nodes but not the weights is harmless: weight k is (pi/n) sqrt(1 - x_k^2) for the node it is paired with *)
Theorem gauss_chebyshev_weight_matches_node : forall n k, (1 <= n)%nat -> (k < n)%nat ->
  wts_GaussChebyshev n k = PI / INR n * sqrt (1 - pts_GaussChebyshev n k ^ 2).
Proof. exact gc_weight_matches_node. Qed.
Print Assumptions gauss_chebyshev_weight_matches_node.

Theorem gauss_wrappers_chebyshev2 : forall (n : nat) (ox ow : nat -> R) (Iw : (R -> R) -> R),
  (forall p, pspan (2 * n - 1) p -> rsum n (fun i => ow i * p (ox i)) = Iw p) ->
  (forall i, (i < n)%nat -> -1 < ox i < 1) ->
  forall p, pspan (2 * n - 1) p ->
  rsum n (fun k => wts_GaussChebyshevType2 ox ow n k
                   * (sqrt (1 - pts_GaussChebyshevType2 ox n k ^ 2) * p (pts_GaussChebyshevType2 ox n k))) = Iw p.
Proof. exact gc2_wrapper_lemma. Qed.
Print Assumptions gauss_wrappers_chebyshev2.

Theorem gauss_wrappers_laguerre : forall (n : nat) (ox ow : nat -> R) (Iw : (R -> R) -> R),
  (forall p, pspan (2 * n - 1) p -> rsum n (fun i => ow i * p (ox i)) = Iw p) ->
  forall alpha, (forall i, (i < n)%nat -> 0 < ox i) ->
  forall p, pspan (2 * n - 1) p ->
  rsum n (fun k => wts_GaussLaguerre ox ow alpha n k
                   * (Rpower (pts_GaussLaguerre ox alpha n k) alpha * exp (- pts_GaussLaguerre ox alpha n k)
                      * p (pts_GaussLaguerre ox alpha n k))) = Iw p.
Proof. exact laguerre_wrapper_lemma. Qed.
Print Assumptions gauss_wrappers_laguerre.

Theorem gauss_wrappers_legendre : forall n (ox ow : nat -> R),
  (forall p, pspan (2 * n - 1) p -> is_RInt p (-1) 1 (rsum n (fun i => ow i * p (ox i)))) ->
  forall p, pspan (2 * n - 1) p ->
  is_RInt p (-1) 1 (rsum n (fun k => wts_GaussLegendre ox ow n k * p (pts_GaussLegendre ox n k))).
Proof. exact legendre_exact_lemma. Qed.
Print Assumptions gauss_wrappers_legendre.

Theorem gauss_wrappers_nodes_unchanged : forall n (ox : nat -> R) k,
  pts_GaussLegendre ox n k = ox k /\ pts_GaussChebyshevType2 ox n k = ox k /\ forall a, pts_GaussLaguerre ox a n k = ox k.
Proof. exact oracle_nodes_same. Qed.
Print Assumptions gauss_wrappers_nodes_unchanged.
