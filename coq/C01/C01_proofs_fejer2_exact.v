(* C01 — FejerSecond at full strength: with the series length read from the source equal to nsum (repaired code) the
   rule is exact to degree n-1 for EVERY n.  Fails to compile for the pinned code (nsum - 1 terms): see C01_refuted_fejer2.v *)
From Coq Require Import Reals Arith Lia Lra Bool.
From Coquelicot Require Import Coquelicot.
From P Require Import C01_gen C01_model C01_proofs_sums C01_proofs_trig C01_proofs_poly C01_proofs_fejer2.
Open Scope R_scope.

Lemma f2_terms_full s : FejerSecond_terms s = s.
Proof. reflexivity. Qed.

Lemma wts_FejerSecond_is_full n k : wts_FejerSecond n k = wts_FejerSecond_full n k.
Proof. unfold wts_FejerSecond, wts_FejerSecond_full. rewrite f2_terms_full. reflexivity. Qed.

Lemma fejer2_exact_lemma :
  (forall n m, (2 <= n)%nat -> (m <= n - 1)%nat ->
     rsum n (fun k => wts_FejerSecond n k * cheb m (pts_FejerSecond n k)) = cheb_int m) /\
  (forall n f, (2 <= n)%nat -> pspan (n - 1) f ->
     is_RInt f (-1) 1 (rsum n (fun k => wts_FejerSecond n k * f (pts_FejerSecond n k)))) /\
  (forall n d, (2 <= n)%nat -> (d <= n - 1)%nat ->
     rsum n (fun k => wts_FejerSecond n k * pts_FejerSecond n k ^ d) = mono_int d).
Proof.
  assert (A : forall n m, (2 <= n)%nat -> (m <= n - 1)%nat ->
     rsum n (fun k => wts_FejerSecond n k * cheb m (pts_FejerSecond n k)) = cheb_int m).
  { intros n m Hn Hm. rewrite (rsum_ext n _ (fun k => wts_FejerSecond_full n k * cheb m (pts_FejerSecond n k)))
      by (intros; rewrite wts_FejerSecond_is_full; reflexivity). apply fejer2_fixed_exact_lemma; lia. }
  split; [exact A|]. split.
  - intros n f Hn Hf. apply (quad_exact_on_span n (n - 1)); [|exact Hf]. intros m Hm. apply A; assumption.
  - intros n d Hn Hd. apply (quad_exact_monomial n (n - 1)); [|exact Hd]. intros m Hm. apply A; assumption.
Qed.
