(* C15 property theorems (statements only): solution_transfers.
   SciPy's solve_ivp / solve_bvp are oracles; `solves_K D g F S` (C15_model.v) is their contract "the dense output S satisfies
   the first-order system F it was given at r = g x", `init_T_K` / `bc_entry ... = 0` the data they were given.
   Then the callable returned by solve_ode_ivp / solve_ode_bvp (out_T_K: S composed with g, derivatives multiplied by the
   code's matrix) has, in the user's variable x, successive components that are derivatives of each other, satisfies the
   stated ODE  sum_k a_k(x) y^(k)(x) = f(x), and takes the stated initial / boundary data. *)
From Coq Require Import Reals List.
From Coquelicot Require Import Coquelicot.
From P Require Import C15_bell C15_gen C15_ref C15_model C15_proofs_wiring12.
Import ListNotations.
Open Scope R_scope.

Theorem solution_transfers_ivp_1 : forall (a0 a1 f g ginv g1 g2 g3 : R -> R) (D : R -> Prop) (x0 x1 c0 : R) (S0 : R -> R),
  tf_ok D g ginv g1 g2 g3 -> (forall x, D x -> a1 x <> 0) ->
  solves_1 D g (ivp_rhsT_1 a0 a1 ginv g1 g2 g3 f) S0 ->
  init_T_1 c0 (S0 (fst (span_T g x0 x1))) ->
  (forall x, D x -> exists y1 : R, is_derive (out_T_1 g S0) x y1 /\ a0 x * out_T_1 g S0 x + a1 x * y1 = f x) /\
  out_T_1 g S0 x0 = c0.
Proof. exact ivp_transfers_1_lemma. Qed.
Print Assumptions solution_transfers_ivp_1.

Theorem solution_transfers_ivp_2 : forall (a0 a1 a2 f g ginv g1 g2 g3 : R -> R) (D : R -> Prop) (x0 x1 c0 c1 : R) (S0 S1 : R -> R),
  tf_ok D g ginv g1 g2 g3 -> (forall x, D x -> a2 x <> 0) ->
  solves_2 D g (ivp_rhsT_2 a0 a1 a2 ginv g1 g2 g3 f) S0 S1 ->
  init_T_2 g1 g2 g3 x0 c0 c1 (S0 (fst (span_T g x0 x1)), S1 (fst (span_T g x0 x1))) ->
  let y := out_T_2 g g1 g2 g3 S0 S1 in
  (forall x, D x -> exists y2 : R,
     is_derive (fun t => fst (y t)) x (snd (y x)) /\ is_derive (fun t => snd (y t)) x y2 /\
     a0 x * fst (y x) + a1 x * snd (y x) + a2 x * y2 = f x) /\
  y x0 = (c0, c1).
Proof. exact ivp_transfers_2_lemma. Qed.
Print Assumptions solution_transfers_ivp_2.

Theorem solution_transfers_bvp_1 : forall (a0 a1 f g ginv g1 g2 g3 : R -> R) (D : R -> Prop) (xa xb : R) (S0 : R -> R),
  tf_ok D g ginv g1 g2 g3 -> (forall x, D x -> a1 x <> 0) ->
  solves_1 D g (bvp_rhsT_1 a0 a1 ginv g1 g2 g3 f) S0 ->
  (forall x, D x -> exists y1 : R, is_derive (out_T_1 g S0) x y1 /\ a0 x * out_T_1 g S0 x + a1 x * y1 = f x) /\
  (forall C, bc_entry 0 0 C [S0 (g xa)] [S0 (g xb)] = 0 -> out_T_1 g S0 xa = C) /\
  (forall C, bc_entry 1 0 C [S0 (g xa)] [S0 (g xb)] = 0 -> out_T_1 g S0 xb = C).
Proof. exact bvp_transfers_1_lemma. Qed.
Print Assumptions solution_transfers_bvp_1.

Theorem solution_transfers_bvp_2 : forall (a0 a1 a2 f g ginv g1 g2 g3 : R -> R) (D : R -> Prop) (xa xb : R) (S0 S1 : R -> R),
  tf_ok D g ginv g1 g2 g3 -> (forall x, D x -> a2 x <> 0) ->
  solves_2 D g (bvp_rhsT_2 a0 a1 a2 ginv g1 g2 g3 f) S0 S1 ->
  let y := out_T_2 g g1 g2 g3 S0 S1 in
  let Ya := [S0 (g xa); S1 (g xa)] in let Yb := [S0 (g xb); S1 (g xb)] in
  (forall x, D x -> exists y2 : R,
     is_derive (fun t => fst (y t)) x (snd (y x)) /\ is_derive (fun t => snd (y t)) x y2 /\
     a0 x * fst (y x) + a1 x * snd (y x) + a2 x * y2 = f x) /\
  (forall C, bc_entry 0 0 C Ya Yb = 0 -> fst (y xa) = C) /\
  (forall C, bc_entry 1 0 C Ya Yb = 0 -> fst (y xb) = C) /\
  (forall C, bc_entry 0 1 C Ya Yb = 0 -> snd (y xa) = g1 xa * C) /\
  (forall C, bc_entry 1 1 C Ya Yb = 0 -> snd (y xb) = g1 xb * C).
Proof. exact bvp_transfers_2_lemma. Qed.
Print Assumptions solution_transfers_bvp_2.
