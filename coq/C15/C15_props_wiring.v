(* C15 property theorems (statements only): solution_transfers.
   SciPy's solve_ivp / solve_bvp are oracles; `solves_K D g F S` (C15_model.v) is their contract "the dense output S satisfies
   the first-order system F it was given at r = g x", `init_T_K` / `bc_entry ... = 0` the data they were given.
   Then the callable returned by solve_ode_ivp / solve_ode_bvp (out_T_K: S composed with g, derivatives multiplied by the
   code's matrix) has, in the user's variable x, successive components that are derivatives of each other, satisfies the
   stated ODE  sum_k a_k(x) y^(k)(x) = f(x), and takes the stated initial / boundary data. *)
From Coq Require Import Reals List.
From Coquelicot Require Import Coquelicot.
From P Require Import C15_bell C15_gen C15_ref C15_model C15_proofs_wiring.
Import ListNotations.
Open Scope R_scope.

Theorem solution_transfers_ivp_1 : forall (a0 a1 f g ginv g1 g2 g3 : R -> R) (D : R -> Prop) (x0 x1 c0 : R) (S0 : R -> R),
  tf_ok D g ginv g1 g2 g3 -> (forall x, D x -> a1 x <> 0) ->
  solves_1 D g (ivp_rhsT_1 a0 a1 ginv g1 g2 g3 f) S0 ->
  init_T_1 c0 (S0 (fst (span_T g x0 x1))) ->
  (forall x, D x -> exists y1 : R, is_derive (out_T_1 g S0) x y1 /\ a0 x * out_T_1 g S0 x + a1 x * y1 = f x) /\
  out_T_1 g S0 x0 = c0.
Proof. exact ivp_transfers_1_lemma. Qed.
Print Assumptions solution_transfers_ivp_1.

Theorem solution_transfers_ivp_2 : forall (a0 a1 a2 f g ginv g1 g2 g3 : R -> R) (D : R -> Prop) (x0 x1 c0 c1 : R) (S0 S1 : R -> R),
  tf_ok D g ginv g1 g2 g3 -> (forall x, D x -> a2 x <> 0) ->
  solves_2 D g (ivp_rhsT_2 a0 a1 a2 ginv g1 g2 g3 f) S0 S1 ->
  init_T_2 g1 g2 g3 x0 c0 c1 (S0 (fst (span_T g x0 x1)), S1 (fst (span_T g x0 x1))) ->
  let y := out_T_2 g g1 g2 g3 S0 S1 in
  (forall x, D x -> exists y2 : R,
     is_derive (fun t => fst (y t)) x (snd (y x)) /\ is_derive (fun t => snd (y t)) x y2 /\
     a0 x * fst (y x) + a1 x * snd (y x) + a2 x * y2 = f x) /\
  y x0 = (c0, c1).
Proof. exact ivp_transfers_2_lemma. Qed.
Print Assumptions solution_transfers_ivp_2.

Theorem solution_transfers_ivp_3 : forall (a0 a1 a2 a3 f g ginv g1 g2 g3 : R -> R) (D : R -> Prop) (x0 x1 c0 c1 c2 : R) (S0 S1 S2 : R -> R),
  tf_ok D g ginv g1 g2 g3 -> (forall x, D x -> a3 x <> 0) ->
  solves_3 D g (ivp_rhsT_3 a0 a1 a2 a3 ginv g1 g2 g3 f) S0 S1 S2 ->
  init_T_3 g1 g2 g3 x0 c0 c1 c2 (S0 (fst (span_T g x0 x1)), S1 (fst (span_T g x0 x1)), S2 (fst (span_T g x0 x1))) ->
  let y := out_T_3 g g1 g2 g3 S0 S1 S2 in
  (forall x, D x -> exists y3 : R,
     is_derive (fun t => fst (fst (y t))) x (snd (fst (y x))) /\ is_derive (fun t => snd (fst (y t))) x (snd (y x)) /\
     is_derive (fun t => snd (y t)) x y3 /\
     a0 x * fst (fst (y x)) + a1 x * snd (fst (y x)) + a2 x * snd (y x) + a3 x * y3 = f x) /\
  y x0 = (c0, c1, c2).
Proof. exact ivp_transfers_3_lemma. Qed.
Print Assumptions solution_transfers_ivp_3.

Theorem solution_transfers_bvp_1 : forall (a0 a1 f g ginv g1 g2 g3 : R -> R) (D : R -> Prop) (xa xb : R) (S0 : R -> R),
  tf_ok D g ginv g1 g2 g3 -> (forall x, D x -> a1 x <> 0) ->
  solves_1 D g (bvp_rhsT_1 a0 a1 ginv g1 g2 g3 f) S0 ->
  (forall x, D x -> exists y1 : R, is_derive (out_T_1 g S0) x y1 /\ a0 x * out_T_1 g S0 x + a1 x * y1 = f x) /\
  (forall C, bc_entry 0 0 C [S0 (g xa)] [S0 (g xb)] = 0 -> out_T_1 g S0 xa = C) /\
  (forall C, bc_entry 1 0 C [S0 (g xa)] [S0 (g xb)] = 0 -> out_T_1 g S0 xb = C).
Proof. exact bvp_transfers_1_lemma. Qed.
Print Assumptions solution_transfers_bvp_1.

Theorem solution_transfers_bvp_2 : forall (a0 a1 a2 f g ginv g1 g2 g3 : R -> R) (D : R -> Prop) (xa xb : R) (S0 S1 : R -> R),
  tf_ok D g ginv g1 g2 g3 -> (forall x, D x -> a2 x <> 0) ->
  solves_2 D g (bvp_rhsT_2 a0 a1 a2 ginv g1 g2 g3 f) S0 S1 ->
  let y := out_T_2 g g1 g2 g3 S0 S1 in
  let Ya := [S0 (g xa); S1 (g xa)] in let Yb := [S0 (g xb); S1 (g xb)] in
  (forall x, D x -> exists y2 : R,
     is_derive (fun t => fst (y t)) x (snd (y x)) /\ is_derive (fun t => snd (y t)) x y2 /\
     a0 x * fst (y x) + a1 x * snd (y x) + a2 x * y2 = f x) /\
  (forall C, bc_entry 0 0 C Ya Yb = 0 -> fst (y xa) = C) /\
  (forall C, bc_entry 1 0 C Ya Yb = 0 -> fst (y xb) = C) /\
  (forall C, bc_entry 0 1 C Ya Yb = 0 -> snd (y xa) = g1 xa * C) /\
  (forall C, bc_entry 1 1 C Ya Yb = 0 -> snd (y xb) = g1 xb * C).
Proof. exact bvp_transfers_2_lemma. Qed.
Print Assumptions solution_transfers_bvp_2.

Theorem solution_transfers_bvp_3 : forall (a0 a1 a2 a3 f g ginv g1 g2 g3 : R -> R) (D : R -> Prop) (xa xb : R) (S0 S1 S2 : R -> R),
  tf_ok D g ginv g1 g2 g3 -> (forall x, D x -> a3 x <> 0) ->
  solves_3 D g (bvp_rhsT_3 a0 a1 a2 a3 ginv g1 g2 g3 f) S0 S1 S2 ->
  let y := out_T_3 g g1 g2 g3 S0 S1 S2 in
  let Ya := [S0 (g xa); S1 (g xa); S2 (g xa)] in let Yb := [S0 (g xb); S1 (g xb); S2 (g xb)] in
  (forall x, D x -> exists y3 : R,
     is_derive (fun t => fst (fst (y t))) x (snd (fst (y x))) /\ is_derive (fun t => snd (fst (y t))) x (snd (y x)) /\
     is_derive (fun t => snd (y t)) x y3 /\
     a0 x * fst (fst (y x)) + a1 x * snd (fst (y x)) + a2 x * snd (y x) + a3 x * y3 = f x) /\
  (forall C, bc_entry 0 0 C Ya Yb = 0 -> fst (fst (y xa)) = C) /\
  (forall C, bc_entry 1 0 C Ya Yb = 0 -> fst (fst (y xb)) = C) /\
  (forall C, bc_entry 0 1 C Ya Yb = 0 -> snd (fst (y xa)) = g1 xa * C) /\
  (forall C, bc_entry 1 1 C Ya Yb = 0 -> snd (fst (y xb)) = g1 xb * C) /\
  (forall C, bc_entry 0 2 C Ya Yb = 0 -> snd (y xa) = g2 xa * S1 (g xa) + g1 xa ^ 2 * C) /\
  (forall C, bc_entry 1 2 C Ya Yb = 0 -> snd (y xb) = g2 xb * S1 (g xb) + g1 xb ^ 2 * C).
Proof. exact bvp_transfers_3_lemma. Qed.
Print Assumptions solution_transfers_bvp_3.

Theorem direct_solution_1 : forall (a0 a1 f : R -> R) (D : R -> Prop) (S0 : R -> R),
  (forall x, D x -> a1 x <> 0) ->
  solves_1 D (fun x => x) (ivp_rhsD_1 a0 a1 f) S0 ->
  forall x, D x -> exists y1 : R, is_derive S0 x y1 /\ a0 x * S0 x + a1 x * y1 = f x.
Proof. exact direct_1_lemma. Qed.
Print Assumptions direct_solution_1.

Theorem direct_solution_2 : forall (a0 a1 a2 f : R -> R) (D : R -> Prop) (S0 S1 : R -> R),
  (forall x, D x -> a2 x <> 0) ->
  solves_2 D (fun x => x) (ivp_rhsD_2 a0 a1 a2 f) S0 S1 ->
  forall x, D x -> exists y2 : R, is_derive S0 x (S1 x) /\ is_derive S1 x y2 /\ a0 x * S0 x + a1 x * S1 x + a2 x * y2 = f x.
Proof. exact direct_2_lemma. Qed.
Print Assumptions direct_solution_2.

Theorem direct_solution_3 : forall (a0 a1 a2 a3 f : R -> R) (D : R -> Prop) (S0 S1 S2 : R -> R),
  (forall x, D x -> a3 x <> 0) ->
  solves_3 D (fun x => x) (ivp_rhsD_3 a0 a1 a2 a3 f) S0 S1 S2 ->
  forall x, D x -> exists y3 : R, is_derive S0 x (S1 x) /\ is_derive S1 x (S2 x) /\ is_derive S2 x y3 /\
    a0 x * S0 x + a1 x * S1 x + a2 x * S2 x + a3 x * y3 = f x.
Proof. exact direct_3_lemma. Qed.
Print Assumptions direct_solution_3.

(* the transform's admissibility hypothesis used above *)
Theorem tf_ok_unfold : forall (D : R -> Prop) (g ginv g1 g2 g3 : R -> R),
  tf_ok D g ginv g1 g2 g3 <->
  (forall x, D x -> is_derive g x (g1 x) /\ is_derive g1 x (g2 x) /\ is_derive g2 x (g3 x) /\ g1 x <> 0 /\ ginv (g x) = x).
Proof. exact tf_ok_unfold_lemma. Qed.
Print Assumptions tf_ok_unfold.
